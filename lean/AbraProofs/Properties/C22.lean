import AbraProofs.Lemmas.Mono
/-!
# C22 — generic and interface calls dispatch to the concrete type's code (selection logic; partial)

Model: `Abra.Mono` (`MonomorphEnv::update`, `Type::subst`, `extract_impl_ty…`, `SolvedType::key`,
`TypeKey::fits_impl_ty`, `get_iface_impl_for_type`, `get_func_label`).  The theorems hold for all
types of the model's type language, all substitutions, all lists of implementations and all
sequences of label requests.  "Behaves as if written by hand" is covered by the correspondence
only: the claim is the selection logic.
-/
namespace Abra.Mono

/-- Monomorphisation recovers the instance: if `inst` is a substitution instance of `sig`
    (`inst = σ(sig)`), the environment built by `update ∅ sig inst` maps `sig` back to `inst`. -/
theorem C22_subst_update (σ : Nat → Ty) (sig : Ty) :
    subst (update [] sig (applySubst σ sig)) sig = applySubst σ sig := by
  have h := update_ok σ [] (fun p t hp => by cases hp) sig
  exact subst_eq_applySubst σ _ sig h.bound

/-- …and every type that only mentions the signature's variables (the body of the generic
    function) is instantiated the same way. -/
theorem C22_subst_update_body (σ : Nat → Ty) (sig body : Ty)
    (hsub : ∀ p ∈ polys body, p ∈ polys sig) :
    subst (update [] sig (applySubst σ sig)) body = applySubst σ body := by
  have h := update_ok σ [] (fun p t hp => by cases hp) sig
  exact subst_eq_applySubst σ _ body (fun p hp => h.bound p (hsub p hp))

theorem firstSelf_applySubst (σ : Nat → Ty) (args : List Ty) :
    firstSelf args (applySubstList σ args) =
      if args.any isSelf then some (σ 0) else none := by
  induction args with
  | nil => simp [firstSelf, applySubstList]
  | cons a as ih =>
    simp only [applySubstList, firstSelf, List.any_cons]
    by_cases ha : isSelf a = true
    · have : a = .poly 0 := by
        cases a <;> simp [isSelf] at ha
        rename_i p; cases p <;> simp_all [isSelf]
      subst this
      simp [isSelf, applySubst]
    · simp [ha, ih]

/-- `extract_impl_ty` returns the component of the instance at the position of `Self` in the
    method signature, i.e. the type `Self` stands for at this call. -/
theorem C22_impl_ty_extract (σ : Nat → Ty) (args : List Ty) (out : Ty)
    (h : args.any isSelf = true ∨ isSelf out = true) :
    extractImplTy (.func args out) (applySubst σ (.func args out)) = some (σ 0) := by
  simp only [applySubst, extractImplTy, firstSelf_applySubst]
  by_cases ha : args.any isSelf = true
  · simp [ha]
  · have ho : isSelf out = true := by
      rcases h with h | h
      · exact absurd h ha
      · exact h
    have : out = .poly 0 := by
      cases out <;> simp [isSelf] at ho
      rename_i p; cases p <;> simp_all [isSelf]
    subst this
    simp [ha, isSelf, applySubst]

theorem fits_key (k : Key) (ty : Ty) (h : fits k ty = true) : ty.key = k := by
  cases k <;> cases ty <;> simp_all [fits, Ty.key]

theorem fits_of_key (ty : Ty) (hnp : ∀ p, ty ≠ .poly p) : fits ty.key ty = true := by
  cases ty <;> simp_all [fits, Ty.key]

theorem selectImpl_spec (impls : List Ty) (k : Key) (i : Nat) (h : selectImpl impls k = some i) :
    ∃ hi : i < impls.length, fits k impls[i] = true ∧ ∀ j (hj : j < i), fits k (impls[j]'(by omega)) = false := by
  induction impls generalizing i with
  | nil => simp [selectImpl] at h
  | cons t ts ih =>
    simp only [selectImpl] at h
    by_cases hf : fits k t = true
    · simp [hf] at h; subst h
      exact ⟨by simp, by simpa using hf, fun j hj => by omega⟩
    · simp only [hf] at h
      cases hs : selectImpl ts k with
      | none => simp [hs] at h
      | some m =>
        simp [hs] at h; subst h
        obtain ⟨hm, h1, h2⟩ := ih m hs
        refine ⟨by simpa using hm, by simpa using h1, ?_⟩
        intro j hj
        cases j with
        | zero => simpa using hf
        | succ j => simpa using h2 j (by omega)

/-- `get_iface_impl_for_type` returns an implementation whose type has the key of the concrete
    type (the first such in declaration order)… -/
theorem C22_impl_selected (impls : List Ty) (t : Ty) (i : Nat)
    (h : selectImpl impls t.key = some i) :
    ∃ hi : i < impls.length, (impls[i]).key = t.key ∧
      ∀ j (hj : j < i), fits t.key (impls[j]'(by omega)) = false := by
  obtain ⟨hi, h1, h2⟩ := selectImpl_spec impls t.key i h
  exact ⟨hi, fits_key _ _ h1, h2⟩

/-- …and when the implementations have pairwise different keys (no overlapping implementations)
    the implementation declared for the concrete type's key is the one selected. -/
theorem C22_impl_selected_unique (impls : List Ty) (t : Ty) (i : Nat) (hi : i < impls.length)
    (hnd : (impls.map Ty.key).Nodup) (hkey : (impls[i]).key = t.key) (hnp : ∀ p, impls[i] ≠ .poly p) :
    selectImpl impls t.key = some i := by
  induction impls generalizing i with
  | nil => simp at hi
  | cons s ss ih =>
    have hnd' : s.key ∉ ss.map Ty.key ∧ (ss.map Ty.key).Nodup := by
      have := hnd; rw [List.map_cons] at this; exact List.nodup_cons.1 this
    cases i with
    | zero =>
      simp only [List.getElem_cons_zero] at hkey hnp
      have := fits_of_key s hnp
      rw [hkey] at this
      simp [selectImpl, this]
    | succ i =>
      simp only [List.getElem_cons_succ] at hkey hnp
      have hi' : i < ss.length := by simpa using hi
      have hne : fits t.key s = false := by
        cases hf : fits t.key s with
        | false => rfl
        | true =>
          exfalso
          have := fits_key _ _ hf
          apply hnd'.1
          rw [this, ← hkey]
          exact List.mem_map.2 ⟨ss[i], List.getElem_mem hi', rfl⟩
      simp [selectImpl, hne, ih i hi' hnd'.2 hkey hnp]

/-- The whole chain inside the code generated for the instance `σ(sig)`: the implementation is
    selected by the key of the type `Self` stands for after instantiation. -/
theorem C22_dispatch (σ : Nat → Ty) (sig msig callTy : Ty) (impls : List Ty)
    (hsub : ∀ p ∈ polys callTy, p ∈ polys sig) :
    dispatch sig (applySubst σ sig) msig callTy impls =
      selectFor impls (extractImplTy msig (applySubst σ callTy)) := by
  simp only [dispatch, C22_subst_update_body σ sig callTy hsub]

/-- the method of the implementation is the one with the interface method's name -/
theorem C22_method_by_name {ν : Type} [DecidableEq ν] (iface impl : List ν) (idx j : Nat)
    (h : methodByName iface impl idx = some j) :
    ∃ (hj : j < impl.length) (hi : idx < iface.length), impl[j] = iface[idx] := by
  unfold methodByName at h
  cases hi : iface[idx]? with
  | none => simp [hi] at h
  | some name =>
    simp only [hi] at h
    obtain ⟨hlt, hname⟩ := List.getElem?_eq_some_iff.1 hi
    have := List.findIdx?_eq_some_iff_getElem.1 h
    obtain ⟨hj, hp, _⟩ := this
    exact ⟨hj, hlt, by simpa [hname] using hp⟩

/-- D48 (repaired in /repo): selecting by position, as the code did before, differs as soon as the
    implementation lists its methods in another order than the interface -/
theorem C22_method_by_position_counterexample :
    methodByPosition ["sides", "area"] 0 = some 0 ∧ methodByName ["area", "sides"] ["sides", "area"] 0 = some 1 := by
  decide

/-- In the model an interface method used as a function value is dispatched exactly like a call of
    that method: `dispatchValue` / `methodOfValue` are defined by the same expressions as `dispatch` /
    `methodByName`, so this equation holds by `rfl` — it records the modelling decision, it is not
    evidence about the code.  That /repo's value path (`translate_declaration`, InterfaceMethod arm)
    really behaves like its call path is checked only by the `monov` correspondence (method values
    at implementations with permuted method order). -/
theorem C22_method_value_eq_call {ν : Type} [DecidableEq ν] (sig inst msig ty : Ty) (impls : List Ty)
    (ifaceMethods implMethods : List ν) (idx : Nat) :
    dispatchValue sig inst msig ty impls = dispatch sig inst msig ty impls ∧
      methodOfValue ifaceMethods implMethods idx = methodByName ifaceMethods implMethods idx :=
  ⟨rfl, rfl⟩

/-- so `C22_method_by_name` also holds for method values -/
theorem C22_method_value_by_name {ν : Type} [DecidableEq ν] (iface impl : List ν) (idx j : Nat)
    (h : methodOfValue iface impl idx = some j) :
    ∃ (hj : j < impl.length) (hi : idx < iface.length), impl[j] = iface[idx] :=
  C22_method_by_name iface impl idx j h

/-! ### operators -/

/-- Every operator on a non-builtin operand type is lowered to a method that exists in its prelude
    interface, and a compound assignment uses the very method of the plain operator. -/
theorem C22_operator_method (o : Oper) :
    o.method.2 ∈ ifaceMethods o.method.1 ∧
      (o.compound = true → compoundMethod o = some o.method) := by
  cases o <;> simp [Oper.method, ifaceMethods, compoundMethod, Oper.compound]

/-- the arithmetic operators reach five different methods of `Num` (no two operators share one) -/
theorem C22_num_operators_distinct (a b : Oper) (ha : a.method.1 = "Num") (hb : b.method.1 = "Num")
    (h : a.method = b.method) : a = b := by
  cases a <;> cases b <;> simp_all [Oper.method]

/-! ### labels -/

/-- states reachable from the empty map by label requests -/
inductive Reachable : LabelState → Prop where
  | init : Reachable { map := [], counter := 1 }
  | step {st : LabelState} (d : Desc) : Reachable st → Reachable (getLabel st d).2

/-- what every reachable state satisfies -/
structure LabelInv (st : LabelState) : Prop where
  shape : ∀ e ∈ st.map,
      e.2.hint = (e.1.func, (if e.1.plain then none else e.1.mono), (if e.1.plain then [] else e.1.captures.map (·.1))) ∧
      (e.1.plain = true → e.2.id = none) ∧ (e.1.plain = false → ∃ i, e.2.id = some i ∧ i < st.counter)

theorem labelInv_reachable (st : LabelState) (h : Reachable st) : LabelInv st := by
  induction h with
  | init => exact ⟨fun e he => by cases he⟩
  | @step st d _ ih =>
    unfold getLabel
    cases hf : st.find d with
    | some l => simpa using ih
    | none =>
      cases hp : d.plain with
      | true =>
        simp only [if_true]
        constructor
        intro e he
        rcases List.mem_cons.1 he with rfl | he
        · simp [hp]
        · exact ih.shape e he
      | false =>
        simp only [Bool.false_eq_true, if_false]
        constructor
        intro e he
        rcases List.mem_cons.1 he with rfl | he
        · simp [hp]
        · obtain ⟨h1, h2, h3⟩ := ih.shape e he
          refine ⟨h1, h2, fun hne => ?_⟩
          obtain ⟨i, hi1, hi2⟩ := h3 hne
          exact ⟨i, hi1, by show i < st.counter + 1; omega⟩

/-- Two instantiations recorded in the function map carry the same label only if the function
    coincides and — unless both keep the plain name — also the monotype and the concrete types of
    ALL captures; a plain and a non-plain descriptor never share a label. -/
theorem C22_label_injective (st : LabelState) (h : Reachable st) (e1 e2 : Desc × Label)
    (h1 : e1 ∈ st.map) (h2 : e2 ∈ st.map) (hl : e1.2 = e2.2) :
    e1.1.func = e2.1.func ∧ e1.1.plain = e2.1.plain ∧
      (e1.1.plain = false → e1.1.mono = e2.1.mono ∧ e1.1.captures.map (·.1) = e2.1.captures.map (·.1)) := by
  have inv := labelInv_reachable st h
  obtain ⟨a1, b1, c1⟩ := inv.shape e1 h1
  obtain ⟨a2, b2, c2⟩ := inv.shape e2 h2
  have hplain : e1.1.plain = e2.1.plain := by
    cases p1 : e1.1.plain <;> cases p2 : e2.1.plain <;> try rfl
    · obtain ⟨i, hi, _⟩ := c1 p1; have := b2 p2; rw [hl] at hi; rw [this] at hi; cases hi
    · obtain ⟨i, hi, _⟩ := c2 p2; have := b1 p1; rw [← hl] at hi; rw [this] at hi; cases hi
  rw [hl, a2] at a1
  simp only [Prod.mk.injEq] at a1
  obtain ⟨hf, hm, hc⟩ := a1
  refine ⟨hf.symm, hplain, fun hne => ?_⟩
  have hne2 : e2.1.plain = false := by rw [← hplain]; exact hne
  simp only [hne, hne2, Bool.false_eq_true, if_false] at hm hc
  exact ⟨hm.symm, hc.symm⟩

/-- In particular: a lambda or task that captures at least one variable of generic type gets a
    different label for every instantiation in which the concrete type of ANY capture (or its own
    monotype) differs — also when its other captures are of concrete type and its own type
    mentions no type parameter. -/
theorem C22_label_per_instantiation (st : LabelState) (h : Reachable st) (e1 e2 : Desc × Label)
    (h1 : e1 ∈ st.map) (h2 : e2 ∈ st.map)
    (hov : e1.1.capturesOverloaded = true)
    (hdiff : e1.1.captures.map (·.1) ≠ e2.1.captures.map (·.1)) : e1.2 ≠ e2.2 := by
  intro hl
  obtain ⟨_, _, hc⟩ := C22_label_injective st h e1 e2 h1 h2 hl
  have hp : e1.1.plain = false := by simp [Desc.plain, hov]
  exact hdiff (hc hp).2

/-- The type component of a descriptor (`Ty.code`) identifies nominal types by their DECLARATION and
    is injective (`code_injective`); therefore, in the model, two instantiations of one generic
    function requested one after the other at two different types get two labels (different
    descriptors → a new `func_map` entry with a fresh counter) — in particular at two types that
    merely have the same unqualified name in two modules.  (In /repo the printed label text names
    such types alike; distinctness comes from the descriptor key and the counter, see `Mono.lean`.
    The tie to the code is the `monolabel` correspondence on programs with same-named types.) -/
theorem C22_label_qualified (f : Nat) (t1 t2 : Ty)
    (h : (twoLabels f t1 t2).1 = (twoLabels f t1 t2).2) : t1 = t2 := by
  unfold twoLabels getLabel at h
  simp only [LabelState.find, List.find?_nil, Option.map_none, descOf, Desc.plain, Option.isNone_some,
    Bool.false_and, Bool.false_eq_true, if_false, List.find?_cons] at h
  by_cases hd : ({ func := f, mono := some t1.code, captures := [] } : Desc) = { func := f, mono := some t2.code, captures := [] }
  · have : t1.code = t2.code := by
      have := congrArg Desc.mono hd
      simpa using this
    exact code_injective t1 t2 this
  · simp [hd] at h

/-- …whereas naming nominal types by an unqualified name (`short`) is not injective as soon as
    two different declarations share that name: the two renderings coincide -/
theorem C22_unqualified_label_clash (short : Nat → Nat) (a b : Nat) (hab : a ≠ b) (hs : short a = short b) :
    Ty.nominal a [] ≠ Ty.nominal b [] ∧
      Ty.codeBy short (Ty.nominal a []) = Ty.codeBy short (Ty.nominal b []) := by
  constructor
  · intro h; cases h; exact hab rfl
  · simp [Ty.codeBy, Ty.codeListBy, hs]

theorem C22_label_stable (st : LabelState) (d : Desc) :
    (getLabel (getLabel st d).2 d).1 = (getLabel st d).1 := by
  unfold getLabel
  cases hf : st.find d with
  | some l => simp [hf]
  | none =>
    cases hp : d.plain with
    | true => simp [LabelState.find]
    | false => simp [LabelState.find]

/-! ### non-vacuity -/
private def sigShow : Ty := .func [.poly 1, .nominal 7 [.poly 2]] .string     -- fn g(x: T, ys: array<U>) -> string
private def σ1 : Nat → Ty := fun p => if p = 1 then .tuple [.int, .float] else if p = 2 then .nominal 9 [] else .void

example : subst (update [] sigShow (applySubst σ1 sigShow)) sigShow =
    .func [.tuple [.int, .float], .nominal 7 [.nominal 9 []]] .string := by
  rw [C22_subst_update]; rfl
example : ([Ty.poly 0, .int].any isSelf = true ∨ isSelf Ty.bool = true) := Or.inl rfl
example : selectImpl [.int, .tuple [.poly 1, .poly 2], .nominal 9 []] (Ty.tuple [.int, .float]).key = some 1 := by decide
example : Reachable (getLabel { map := [], counter := 1 } ⟨3, some [0], []⟩).2 := Reachable.step _ Reachable.init
/-- `fn labelled(v: T, prefix: string) { let render = () -> prefix .. str(v) … }` at Celsius and at
    Meters: the lambda (own type `() -> string`, captures `v: T` and `prefix: string`) gets two labels -/
private def dC : Desc := ⟨7, none, [((Ty.nominal 20 []).code, true), (Ty.string.code, false)]⟩
private def dM : Desc := ⟨7, none, [((Ty.nominal 21 []).code, true), (Ty.string.code, false)]⟩
example : (getLabel (getLabel { map := [], counter := 1 } dC).2 dM).1 ≠ (getLabel { map := [], counter := 1 } dC).1 := by decide
example : dC.capturesOverloaded = true := rfl

end Abra.Mono
