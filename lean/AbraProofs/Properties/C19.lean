import AbraProofs.Lemmas.Analysis
import AbraProofs.Lemmas.VMCore
import AbraModel.Sem
/-!
# C19 — lambdas capture values at creation, including for nested lambdas

* `C19_captures_complete` — on the model of the (repaired) capture analysis: `capturesOf params body` is exactly
  the set of variables that occur free in `body` — read anywhere in it, also only inside lambdas/tasks nested to
  any depth, and not bound by a parameter or local on the way (`FreeE`, an inductive reading that does not
  mention the analysis) — minus the function's own parameters and locals.  So a variable used only by an inner
  lambda is a capture of every enclosing lambda up to its binder (`C19_nested_capture`).
* `C19_closure_create`, `C19_closure_call`, `C19_closure_snapshot` — on the VM core: after
  `PushAddr f; LoadOffset o₁ … oₙ; MakeClosure n`, every later `CallFuncObj` on that closure starts the callee with
  locals `0 … n-1` equal to the values the slots held at creation, whatever was stored to the slots (or anywhere
  else) since: the closure object lives in the heap, which only grows.
* `C19_fresh_locals` — each invocation's other locals are the zeros pushed by its own `PushNil`.
* `C19_fnref_captures_nothing`, `C19_mkref_captures_nothing`, `C19_fnref_call`, `C19_fnref_snapshot` — on the
  reference interpreter: a top-level function or a struct constructor used as a VALUE (`let f = twice`,
  `[twice, twice][1](4)`, `let mk = Pt`) is a function object with an empty environment, whatever is in scope where
  it is written; calling it is the direct call; a lambda that captured a variable holding it keeps that function
  when the variable is reassigned afterwards.
-/
namespace Abra.Analysis

/-- **The capture analysis is exact.** -/
theorem C19_captures_complete (ps : List Nat) (body : RExpr) (id : Nat) :
    id ∈ capturesOf ps body ↔ (FreeE id body ∧ ¬ id ∈ ps ∧ ¬ id ∈ localsE body) := by
  rw [capturesOf, mem_filter_not, usesE_iff]
  constructor
  · rintro ⟨h1, h2, h3⟩; exact ⟨h1, h3, h2⟩
  · rintro ⟨h1, h2, h3⟩; exact ⟨h1, h3, h2⟩

/-- A variable captured by an inner lambda, and bound by neither the enclosing lambda's parameters nor its
    locals, is captured by the enclosing lambda as well — stated for three places of the inner lambda in the enclosing
    body: the body itself, the initialiser of the first `let` of a block, the single operand of an operator.  (Any other
    place follows the same way from `C19_captures_complete` and the matching `FreeE` constructor; it is not stated here.) -/
theorem C19_nested_capture (ps1 ps2 : List Nat) (inner : RExpr) (id : Nat) (pre post : RStmts) (b : Nat)
    (h : id ∈ capturesOf ps2 inner) :
    let lamInner := RExpr.lam ps2 inner
    (¬ id ∈ ps1 → id ∈ capturesOf ps1 lamInner) ∧
    (¬ id ∈ ps1 → ¬ id ∈ localsE (.block (.cons (.let_ [b] lamInner) post)) →
        id ∈ capturesOf ps1 (.block (.cons (.let_ [b] lamInner) post))) ∧
    (¬ id ∈ ps1 → ¬ id ∈ localsE (.op (.cons lamInner .nil)) → id ∈ capturesOf ps1 (.op (.cons lamInner .nil))) := by
  have hfree : FreeE id (.lam ps2 inner) := by
    rw [C19_captures_complete] at h
    exact .lam h.1 h.2.1 h.2.2
  refine ⟨fun hp => ?_, fun hp hl => ?_, fun hp hl => ?_⟩
  · rw [C19_captures_complete]; exact ⟨hfree, hp, by simp [localsE]⟩
  · rw [C19_captures_complete]; exact ⟨.block (.head (.let_ hfree)), hp, hl⟩
  · rw [C19_captures_complete]; exact ⟨.op (.head hfree), hp, hl⟩

end Abra.Analysis

namespace Abra.VM

/-- `PushAddr f; LoadOffset o₁ … oₙ; MakeClosure n` -/
def closureCode (f : Nat) (offs : List Int) : List (Instr Nat) :=
  [.pushAddr f] ++ offs.map .load ++ [.makeClosure offs.length]

/-- the value a slot holds -/
def slotVal (s : State) (o : Int) : Option Val :=
  match slotIdx s.base o with
  | some k => s.stack[k]?
  | none => none

def CodeAt (P : Program) (pos : Nat) (c : List (Instr Nat)) : Prop :=
  ∀ i (h : i < c.length), P[pos + i]? = some c[i]

theorem loads_steps (P : Program) (offs : List Int) (vals : List Val) :
    ∀ (pos : Nat) (S acc : List Val) (base : Nat) (frames : List Frame) (heap : List Obj) (out : List String),
    (∀ i (h : i < offs.length), P[pos + i]? = some (.load offs[i])) →
    (∀ i (h : i < offs.length), ∃ k, slotIdx base offs[i] = some k ∧ S[k]? = vals[i]? ∧ k < S.length ∧ i < vals.length) →
    offs.length = vals.length →
    Steps P { pc := pos, stack := S ++ acc, base := base, frames := frames, heap := heap, out := out }
      { pc := pos + offs.length, stack := S ++ acc ++ vals, base := base, frames := frames, heap := heap, out := out } := by
  induction offs generalizing vals with
  | nil =>
    intro pos S acc base frames heap out _ _ hl
    cases vals with
    | nil =>
      simp only [List.length_nil, Nat.add_zero, List.append_nil]
      exact .refl _
    | cons _ _ => simp at hl
  | cons o rest ih =>
    intro pos S acc base frames heap out hcode hvals hl
    cases vals with
    | nil => simp at hl
    | cons v vs =>
      have h0 := hcode 0 (by simp)
      obtain ⟨k, hk1, hk2, hk3, _⟩ := hvals 0 (by simp)
      simp only [List.getElem_cons_zero, Nat.add_zero, List.getElem?_cons_zero] at h0 hk1 hk2
      have hidx : (S ++ acc)[k]? = some v := by rw [List.getElem?_append_left hk3]; exact hk2
      have hstep : VM.step P (⟨pos, S ++ acc, base, frames, heap, out⟩ : State)
          = .ok (⟨pos + 1, S ++ (acc ++ [v]), base, frames, heap, out⟩ : State) := by
        simp only [VM.step, h0, hk1, hidx, List.append_assoc]
      have hrest := ih vs (pos + 1) S (acc ++ [v]) base frames heap out
        (fun i h => by
          have := hcode (i + 1) (by simp; omega)
          simp only [List.getElem_cons_succ] at this
          rw [show pos + 1 + i = pos + (i + 1) by omega]; exact this)
        (fun i h => by
          obtain ⟨k, a, b, c, d⟩ := hvals (i + 1) (by simp; omega)
          simp only [List.getElem_cons_succ, List.getElem?_cons_succ, List.length_cons] at a b d
          exact ⟨k, a, b, c, by omega⟩)
        (by simpa using hl)
      have e1 : pos + 1 + rest.length = pos + (o :: rest).length := by simp; omega
      have e2 : S ++ (acc ++ [v]) ++ vs = S ++ acc ++ (v :: vs) := by simp
      rw [e1, e2] at hrest
      exact .cons hstep hrest

/-- **Creating a closure** snapshots the slots: the new heap object holds the code address and the values the
    slots `offs` have *now*. -/
theorem C19_closure_create (P : Program) (pos f : Nat) (offs : List Int) (vals : List Val) (s : State)
    (hcode : CodeAt P pos (closureCode f offs)) (hpc : s.pc = pos)
    (hvals : ∀ i (h : i < offs.length), slotVal s offs[i] = vals[i]? ∧ i < vals.length)
    (hlen : offs.length = vals.length) :
    Steps P s { s with pc := pos + offs.length + 2, stack := s.stack ++ [.struct_ s.heap.length],
                       heap := s.heap ++ [.struct_ (.addr f :: vals)] } := by
  obtain ⟨pc, stack, base, frames, heap, out⟩ := s
  simp only at hpc; subst hpc
  have hclen : (closureCode f offs).length = offs.length + 2 := by simp [closureCode]
  have h0 := hcode 0 (by omega)
  simp only [closureCode, List.cons_append, List.nil_append, List.getElem_cons_zero, Nat.add_zero] at h0
  have s0 : VM.step P (⟨pc, stack, base, frames, heap, out⟩ : State)
      = .ok (⟨pc + 1, stack ++ [.addr f], base, frames, heap, out⟩ : State) := by
    simp only [VM.step, h0]
  have hloads := loads_steps P offs vals (pc + 1) stack [.addr f] base frames heap out
    (fun i h => by
      have := hcode (i + 1) (by omega)
      simp only [closureCode, List.cons_append, List.nil_append, List.getElem_cons_succ] at this
      rw [List.getElem_append_left (by simpa using h)] at this
      simp only [List.getElem_map] at this
      rw [show pc + 1 + i = pc + (i + 1) by omega]; exact this)
    (fun i h => by
      obtain ⟨hv, hi⟩ := hvals i h
      simp only [slotVal] at hv
      cases hk : slotIdx base offs[i] with
      | none => rw [hk] at hv; simp only at hv; rw [List.getElem?_eq_getElem hi] at hv; cases hv
      | some k =>
        rw [hk] at hv
        simp only at hv
        refine ⟨k, rfl, hv, ?_, hi⟩
        rcases Nat.lt_or_ge k stack.length with h1 | h1
        · exact h1
        · rw [List.getElem?_eq_none h1, List.getElem?_eq_getElem hi] at hv; cases hv)
    hlen
  have hmk := hcode (offs.length + 1) (by omega)
  simp only [closureCode, List.cons_append, List.nil_append, List.getElem_cons_succ] at hmk
  rw [List.getElem_append_right (by simp)] at hmk
  simp only [List.length_map, Nat.sub_self, List.getElem_cons_zero] at hmk
  have smk : VM.step P (⟨pc + 1 + offs.length, stack ++ [.addr f] ++ vals, base, frames, heap, out⟩ : State)
      = .ok (⟨pc + 1 + offs.length + 1, stack ++ [.struct_ heap.length], base, frames,
              heap ++ [.struct_ (.addr f :: vals)], out⟩ : State) := by
    have hp : P[pc + 1 + offs.length]? = some (.makeClosure offs.length) := by
      rw [show pc + 1 + offs.length = pc + (offs.length + 1) by omega]; exact hmk
    have hsplit : splitLast (stack ++ [Val.addr f] ++ vals) (offs.length + 1) = some (stack, .addr f :: vals) := by
      have e : stack ++ [Val.addr f] ++ vals = stack ++ (Val.addr f :: vals) := by simp
      rw [e]
      unfold splitLast
      have hl : (stack ++ (Val.addr f :: vals)).length - (offs.length + 1) = stack.length := by simp; omega
      have hle : offs.length + 1 ≤ (stack ++ (Val.addr f :: vals)).length := by simp; omega
      rw [if_pos hle, hl, List.take_left' rfl, List.drop_left' rfl]
    simp only [VM.step, hp, hsplit]
  have : pc + 1 + offs.length + 1 = pc + offs.length + 2 := by omega
  rw [this] at smk
  exact ((Steps.single s0).trans hloads).snoc smk

/-- objects already in the heap never change (the modelled instructions only append) -/
theorem step_heap_prefix {P : Program} {s s' : State} (h : VM.step P s = .ok s') :
    ∃ ext, s'.heap = s.heap ++ ext := by
  unfold VM.step at h
  repeat' split at h
  all_goals first
    | (cases h; exact ⟨[_], rfl⟩)
    | (cases h; exact ⟨[], (List.append_nil _).symm⟩)
    | (simp at h; done)

theorem steps_heap_prefix {P : Program} {s s' : State} (h : Steps P s s') : ∃ ext, s'.heap = s.heap ++ ext := by
  induction h with
  | refl _ => exact ⟨[], by simp⟩
  | cons hs _ ih =>
    obtain ⟨e1, h1⟩ := step_heap_prefix hs
    obtain ⟨e2, h2⟩ := ih
    exact ⟨e1 ++ e2, by rw [h2, h1, List.append_assoc]⟩

/-- **Calling a closure**: the callee's frame starts with the captured values as locals `0 … n-1`. -/
theorem C19_closure_call (P : Program) (s : State) (k a f : Nat) (vals R : List Val)
    (hi : P[s.pc]? = some (.callFuncObj k)) (hstack : s.stack = R ++ [.struct_ a])
    (hobj : s.heap[a]? = some (.struct_ (.addr f :: vals))) :
    VM.step P s = .ok { s with pc := f, base := R.length, stack := R ++ vals,
                               frames := ({ pc := s.pc + 1, base := s.base, nargs := k } : Frame) :: s.frames } := by
  simp only [VM.step, hi, hstack, pop?_snoc, hobj]

/-- **Capture by value at creation.**  Create the closure in state `s`; let the program run arbitrarily
    (`hrun`: any number of steps, including stores to the captured slots); whenever it later calls that closure
    object, the callee starts with the values the slots had in `s`. -/
theorem C19_closure_snapshot (P : Program) (pos f : Nat) (offs : List Int) (vals : List Val) (s s1 s2 : State)
    (hcode : CodeAt P pos (closureCode f offs)) (hpc : s.pc = pos)
    (hvals : ∀ i (h : i < offs.length), slotVal s offs[i] = vals[i]? ∧ i < vals.length)
    (hlen : offs.length = vals.length)
    (hs1 : s1 = { s with pc := pos + offs.length + 2, stack := s.stack ++ [.struct_ s.heap.length],
                         heap := s.heap ++ [.struct_ (.addr f :: vals)] })
    (hrun : Steps P s1 s2) (k : Nat) (R : List Val)
    (hcall : P[s2.pc]? = some (.callFuncObj k)) (hstack : s2.stack = R ++ [.struct_ s.heap.length]) :
    Steps P s s1 ∧
    VM.step P s2 = .ok { s2 with pc := f, base := R.length, stack := R ++ vals,
                                 frames := ({ pc := s2.pc + 1, base := s2.base, nargs := k } : Frame) :: s2.frames } := by
  refine ⟨by rw [hs1]; exact C19_closure_create P pos f offs vals s hcode hpc hvals hlen, ?_⟩
  obtain ⟨ext, hext⟩ := steps_heap_prefix hrun
  have hobj : s2.heap[s.heap.length]? = some (.struct_ (.addr f :: vals)) := by
    rw [hext, hs1]
    simp only [List.append_assoc]
    rw [List.getElem?_append_right (Nat.le_refl _)]
    simp
  exact C19_closure_call P s2 k s.heap.length f vals R hcall hstack hobj

/-- **Fresh locals per invocation**: the callee's `PushNil m` puts `m` zeros above the captures, whatever any
    earlier invocation left in its own (since discarded) frame. -/
theorem C19_fresh_locals (P : Program) (s : State) (m : Nat) (hi : P[s.pc]? = some (.pushNil m)) :
    VM.step P s = .ok { s with pc := s.pc + 1, stack := s.stack ++ List.replicate m (.int 0) } := by
  simp only [VM.step, hi]

/-- two invocations of one closure start from identical frames -/
theorem C19_invocations_start_equal (P : Program) (s s' : State) (k a f : Nat) (vals R R' : List Val)
    (hi : P[s.pc]? = some (.callFuncObj k)) (hi' : P[s'.pc]? = some (.callFuncObj k))
    (hstack : s.stack = R ++ [.struct_ a]) (hstack' : s'.stack = R' ++ [.struct_ a])
    (hobj : s.heap[a]? = some (.struct_ (.addr f :: vals))) (hobj' : s'.heap[a]? = some (.struct_ (.addr f :: vals))) :
    ∃ t t', VM.step P s = .ok t ∧ VM.step P s' = .ok t' ∧ t.pc = t'.pc ∧
      t.stack.drop t.base = t'.stack.drop t'.base := by
  refine ⟨_, _, C19_closure_call P s k a f vals R hi hstack hobj, C19_closure_call P s' k a f vals R' hi' hstack' hobj', rfl, ?_⟩
  simp

/-! ### non-vacuity -/

/-- `var m = 1; let fc = () -> m  [m in slot 0, fc in slot 1]; m = 100; fc()` -/
def demo : Program :=
  [.pushNil 2, .pushInt 1, .store 0] ++ closureCode 9 [0] ++ [.store 1, .pushInt 100, .store 0, .load 1, .callFuncObj 0,
   .stop, .ret 0]

example : VM.run demo 11 State.init
    = .outOfFuel { pc := 9, stack := [.int 100, .struct_ 0, .int 1], base := 2,
                   frames := [{ pc := 11, base := 0, nargs := 0 }], heap := [.struct_ [.addr 9, .int 1]], out := [] } := by
  decide +kernel

end Abra.VM

namespace Abra.Sem

/-- **A named function used as a value captures nothing**: its function object has the empty environment in every
    state (the real code: `PushAddr f; MakeClosure 0`). -/
theorem C19_fnref_captures_nothing (n : Nat) (P : Prog) (s : St) (f : String) (d : FnDef) (h : P.findFn f = some d) :
    evalE (n + 1) P s (.fnref f) = .ok (.clo d.params d.body []) s := by
  simp only [evalE, h]

/-- the same for a struct name used as a value: the constructor function takes the fields in declaration order -/
theorem C19_mkref_captures_nothing (n : Nat) (P : Prog) (s : St) (name : String) (d : StructDef)
    (h : P.findStruct name = some d) :
    evalE (n + 1) P s (.mkref name)
      = .ok (.clo d.fields (.mkStruct name (Exprs.ofList (d.fields.map .var))) []) s := by
  simp only [evalE, h]

/-- **Calling a named function through its value is the direct call**: for a callee written `fnref f` with `f` a
    declared function, the reference evaluation of `(fnref f)(args)` equals that of `f(args)` — same result, state and
    signals, for every fuel.  (A callee that first has to be computed, e.g. `fs[1]`, is covered by the concrete
    `C19_fnref_snapshot` only.) -/
theorem C19_fnref_call (n : Nat) (P : Prog) (s : St) (f : String) (args : Exprs) (d : FnDef)
    (h : P.findFn f = some d) :
    evalE (n + 1) P s (.callv (.fnref f) args) = evalE (n + 1) P s (.call f args) := by
  cases n with
  | zero => simp only [evalE, evalEs, Res.bind, h]
  | succ m =>
    simp only [evalE, h]
    cases evalEs (m + 1) P s args with
    | ok vs s1 => simp only [Res.bind, evalE, h]
    | sig g s1 => rfl
    | timeout => rfl
    | stuck w => rfl

/-- a program with two functions and a struct, used by the examples below -/
def fnrefDemo : Prog :=
  { structs := [{ name := "Pt", fields := ["x", "y"] }],
    fns := [{ name := "twice", params := ["a"], body := .bin .mul (.var "a") (.int 2) },
            { name := "inc", params := ["a"], body := .bin .add (.var "a") (.int 1) }],
    main := .nil }

/-- decidable projection of a result: the three integers of a result tuple -/
def intTriple : Res Val → Option (Int × Int × Int)
  | .ok (.tuple [.int a, .int b, .int c]) _ => some (a, b, c)
  | _ => none

/-- **Snapshot**: `var f = twice; let h = (a) -> f(a); f = inc; h(5)` is 10 (the lambda captured the function that
    `f` held when the lambda was created), while `f(5)` afterwards is 6; and `[twice, inc][1](4)` is 5. -/
theorem C19_fnref_snapshot :
    intTriple (evalE 20 fnrefDemo St.init (.block (Stmts.ofList [
        .let_ (.bind "f") (.fnref "twice"),
        .let_ (.bind "h") (.lam ["a"] (.callv (.var "f") (Exprs.ofList [.var "a"]))),
        .assign "f" .set (.fnref "inc"),
        .expr (.tuple (Exprs.ofList [.callv (.var "h") (Exprs.ofList [.int 5]), .callv (.var "f") (Exprs.ofList [.int 5]),
          .callv (.index (.array (Exprs.ofList [.fnref "twice", .fnref "inc"])) (.int 1)) (Exprs.ofList [.int 4])]))])))
      = some (10, 6, 5) := by
  decide +kernel

/-! non-vacuity of the hypotheses `findFn … = some …` / `findStruct … = some …` -/
example : fnrefDemo.findFn "twice" = some { name := "twice", params := ["a"], body := .bin .mul (.var "a") (.int 2) } := rfl
example : fnrefDemo.findStruct "Pt" = some { name := "Pt", fields := ["x", "y"] } := rfl

/-- `Pt` as a value, called: allocates one struct -/
def heapSizeOf : Res Val → Option Nat
  | .ok (.ref _) s => some s.heap.size
  | _ => none
example : heapSizeOf (evalE 10 fnrefDemo St.init (.callv (.mkref "Pt") (Exprs.ofList [.int 1, .int 2]))) = some 1 := by
  decide +kernel

end Abra.Sem
