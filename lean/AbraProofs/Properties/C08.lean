import AbraProofs.Lemmas.Heap
/-!
# C08 — a task works on its own deep copies of captured values; channels are shared handles

Model: `Abra.Heap` — per-thread heaps (address = thread id × index), `deepCopy` following
`Value::deep_copy` as called by `SpawnTask` (`capture.deep_copy(&mut new_thread)`) with fuel for the host
stack.  A successful copy (`some`) is what the theorems are about; for cyclic values the copy never
succeeds (`C08_deepcopy_cyclic_counterexample`, known finding D24: the real code overflows the host stack).
-/
namespace Abra.Heap

/-- **The copy equals the original.**  If the captured value renders as `tr` before the spawn, its copy
    in the new thread renders as `tr` in the heaps after the spawn. -/
theorem C08_deepcopy_equal (f : Nat) (H : Heaps) (t : Nat) (v v' : Val) (H' : Heaps) (tr : Tree)
    (hc : deepCopy f H t v = some (v', H')) (hr : render f H v = some tr) :
    render f H' v' = some tr := by
  have c := deepCopy_ok t f H v v' H' hc
  obtain ⟨tr', s1, s2⟩ := c.same
  have := render_mono c.ext f v tr hr
  rw [s1] at this
  rw [s2, this]

/-- … and the original still renders as before (the copy only allocates). -/
theorem C08_deepcopy_preserves_original (f : Nat) (H : Heaps) (t : Nat) (v v' : Val) (H' : Heaps)
    (hc : deepCopy f H t v = some (v', H')) (u : Val) (tr : Tree) (hr : render f H u = some tr) :
    render f H' u = some tr :=
  render_mono (deepCopy_ok t f H v v' H' hc).ext f u tr hr

/-- **The copy is disjoint from everything else.**  Every object reachable from the copy belongs to the new
    thread's heap. -/
theorem C08_deepcopy_disjoint (f : Nat) (H : Heaps) (t : Nat) (v v' : Val) (H' : Heaps)
    (hc : deepCopy f H t v = some (v', H')) :
    ∃ xs, addrs f H' v' = some xs ∧ ∀ a ∈ xs, a.tid = t :=
  (deepCopy_ok t f H v v' H' hc).own

/-- **Channels are the exception**: the copy of a channel value is a new handle object in the new thread's
    heap that names the same queue — reads and writes through either handle meet in one queue. -/
theorem C08_deepcopy_channel_shared (f : Nat) (H : Heaps) (t : Nat) (a : Addr) (q : Nat)
    (hl : lookup H a = some (.chan q)) :
    ∃ a' H', deepCopy (f + 1) H t (.chan a) = some (.chan a', H') ∧ a'.tid = t ∧ lookup H' a' = some (.chan q) := by
  refine ⟨(alloc H t (.chan q)).1, (alloc H t (.chan q)).2, ?_, rfl, lookup_alloc_new _ _ _⟩
  simp [deepCopy, hl]

/-- **Isolation.**  If everything reachable from a value belongs to thread `b` ("a thread's reachable
    addresses are its own"), no store into an object of another thread and no teardown of another thread
    changes how the value renders. -/
theorem C08_threads_isolated (f : Nat) (H : Heaps) (b : Nat) (u : Val) (xs : List Addr)
    (hx : addrs f H u = some xs) (hown : ∀ a ∈ xs, a.tid = b) :
    (∀ (a : Addr) (i : Nat) (w : Val), a.tid ≠ b → render f (setSlot H a i w) u = render f H u) ∧
    (∀ t, t ≠ b → render f (dropThread H t) u = render f H u) := by
  constructor
  · intro a i w hne
    exact render_congr f u xs hx (fun x hxm => lookup_setSlot_other H a i w x (by rw [hown x hxm]; exact fun h => hne h.symm))
  · intro t hne
    exact render_congr f u xs hx (fun x hxm => lookup_dropThread_other H t x (by rw [hown x hxm]; exact fun h => hne h.symm))

/-- **Spawn, both directions.**  After a capture was copied into the new thread `t`:
    mutations made by any other thread (the spawning code included) are invisible in the copy, and
    mutations made by the task inside its own heap are invisible in every value whose objects belong to
    another thread (the spawner's original included, under the ownership invariant). -/
theorem C08_spawn_isolated (f : Nat) (H : Heaps) (t : Nat) (v v' : Val) (H' : Heaps)
    (hc : deepCopy f H t v = some (v', H')) :
    (∀ (a : Addr) (i : Nat) (w : Val), a.tid ≠ t → render f (setSlot H' a i w) v' = render f H' v') ∧
    (∀ (p : Nat) (u : Val) (xs : List Addr), p ≠ t → addrs f H' u = some xs → (∀ a ∈ xs, a.tid = p) →
      ∀ (a : Addr) (i : Nat) (w : Val), a.tid = t → render f (setSlot H' a i w) u = render f H' u) := by
  obtain ⟨xs, hx, hown⟩ := C08_deepcopy_disjoint f H t v v' H' hc
  refine ⟨(C08_threads_isolated f H' t v' xs hx hown).1, ?_⟩
  intro p u ys hp hy hyown a i w ha
  exact (C08_threads_isolated f H' p u ys hy hyown).1 a i w (by rw [ha]; exact fun h => hp h.symm)

/-- a nested value in thread 1's heap: `Outer { inner: Box { v: 7, s: "ab" }, xs: [1, 2] }` -/
def exH : Heaps := fun t =>
  if t = 1 then [.str [97, 98], .struct [.int 7, .str ⟨1, 0⟩], .array [.int 1, .int 2], .struct [.struct ⟨1, 1⟩, .array ⟨1, 2⟩]]
  else []
def exV : Val := .struct ⟨1, 3⟩

example : ∃ p, deepCopy 5 exH 2 exV = some p ∧ render 5 exH exV = some (.struct [.struct [.int 7, .str [97, 98]], .array [.int 1, .int 2]]) ∧
    addrs 5 p.2 p.1 = some [⟨2, 3⟩, ⟨2, 1⟩, ⟨2, 0⟩, ⟨2, 2⟩] := ⟨_, rfl, rfl, rfl⟩

/-- a struct whose field is the struct itself -/
def cycH : Heaps := fun t => if t = 1 then [.struct [.struct ⟨1, 0⟩]] else []

/-- **Finding D24.**  A cyclic captured value is never copied: whatever the depth allowed, the copy runs
    out of stack (the real code aborts the host with a stack overflow). -/
theorem C08_deepcopy_cyclic_counterexample : ∀ f t, deepCopy f cycH t (.struct ⟨1, 0⟩) = none := by
  intro f t
  induction f with
  | zero => rfl
  | succ f ih =>
    have hl : lookup cycH ⟨1, 0⟩ = some (.struct [.struct ⟨1, 0⟩]) := rfl
    simp only [deepCopy, hl, copyList, ih]

end Abra.Heap
