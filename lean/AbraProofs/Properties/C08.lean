import AbraProofs.Lemmas.HeapIso
/-!
# C08 — a task works on its own deep copies of captured values; channels are shared handles

Model: `Abra.Heap` — per-thread heaps (address = thread id × index), `deepCopyM` following
`Value::deep_copy_helper` after fix 0cb8741 (defect D24): a map from source address to copy, the copy
recorded before its children are copied; `spawnCopy` = all captures of one `SpawnTask` with one map;
`deepCopy` = one value with a fresh map (a spawn with a single capture).  The theorems hold for ALL values — shared and cyclic ones
included; nothing is assumed but that the copy returned (`some`), and `C08_deepcopy_total` shows it does
return, with fuel = number of reachable source objects + 1, on every well-formed graph.
`ReachV S v w`: the value `w` is reachable from `v` through the heaps `S`.  `mapVal? M w`: the image of `w`
under the map `M` (a scalar is itself, a pointer is the recorded copy of its target).
-/
namespace Abra.Heap

theorem deepCopy_unpack {f : Nat} {H : Heaps} {t : Nat} {v v' : Val} {H' : Heaps}
    (h : deepCopy f H t v = some (v', H')) : ∃ M', deepCopyM f H H [] t v = some (v', H', M') := by
  unfold deepCopy at h
  cases hc : deepCopyM f H H [] t v with
  | none => simp [hc] at h
  | some r =>
    obtain ⟨a, b, c⟩ := r
    simp only [hc, Option.map_some, Option.some.injEq, Prod.mk.injEq] at h
    obtain ⟨rfl, rfl⟩ := h
    exact ⟨c, rfl⟩

theorem spawnCopy_unpack {f : Nat} {H : Heaps} {t : Nat} {caps caps' : List Val} {H' : Heaps}
    (h : spawnCopy f H t caps = some (caps', H')) :
    ∃ M', copyListM (fun H1 M w => deepCopyM f H H1 M t w) H [] caps = some (caps', H', M') := by
  unfold spawnCopy at h
  cases hc : copyListM (fun H1 M w => deepCopyM f H H1 M t w) H [] caps with
  | none => simp [hc] at h
  | some r =>
    obtain ⟨a, b, c⟩ := r
    simp only [hc, Option.map_some, Option.some.injEq, Prod.mk.injEq] at h
    obtain ⟨rfl, rfl⟩ := h
    exact ⟨c, rfl⟩

/-- **The copy always finishes (fuel).**  On a well-formed source graph, if `L` lists the objects reachable
    from the value, `|L| + 1` levels of host stack are enough — cyclic and shared values included. -/
theorem C08_deepcopy_total (H : Heaps) (t : Nat) (v : Val) (L : List Addr) (hwf : WF H v)
    (hL : ∀ w a, ReachV H v w → ptr? w = some a → a ∈ L) :
    ∃ r, deepCopy (L.length + 1) H t v = some r := by
  obtain ⟨r, hr⟩ := deepCopyM_total H t (L.length + 1) H [] v L hwf (fun w a hw ha _ => hL w a hw ha) (Nat.lt_succ_self _)
  exact ⟨(r.1, r.2.1), by simp [deepCopy, hr]⟩

/-- **The copy is isomorphic to the source graph.**  There is a map `M` from source addresses to copies with:
    the result is the image of the argument; every recorded copy is a finished object of the new thread
    holding exactly the image of its source object (`Iso.done`: same kind, same scalars, every pointer
    replaced by the copy of its target — so two paths that reach one source object reach one copy, and a cycle
    stays a cycle); distinct source objects have distinct copies (`Iso.inj`); every value reachable from the
    source has an image (all of it was copied) and every value reachable from the copy is such an image (the
    copy reaches nothing else): `M` is a bijection between the two reachable graphs.  Source objects are
    untouched (`Ext`). -/
theorem C08_deepcopy_iso (f : Nat) (H : Heaps) (t : Nat) (v v' : Val) (H' : Heaps)
    (hc : deepCopy f H t v = some (v', H')) :
    ∃ M, mapVal? M v = some v' ∧ Iso H H' t M ∧ Ext H H' ∧
      (∀ w, ReachV H v w → ∃ w', mapVal? M w = some w') ∧
      (∀ w', ReachV H' v' w' → ∃ w, ReachV H v w ∧ mapVal? M w = some w') := by
  obtain ⟨M, hm⟩ := deepCopy_unpack hc
  obtain ⟨p, hv⟩ := deepCopyM_post H t f H [] v v' H' M hm
  have iso := iso_of_post p
  exact ⟨M, hv, iso, p.ext, iso_cover iso hv, iso_onto iso hv⟩

/-- **Sharing is preserved, and only sharing.**  Two reachable pointers have the same copy exactly when they
    point to the same source object. -/
theorem C08_deepcopy_sharing (f : Nat) (H : Heaps) (t : Nat) (v v' : Val) (H' : Heaps)
    (hc : deepCopy f H t v = some (v', H')) :
    ∃ M, mapVal? M v = some v' ∧
      ∀ w1 w2 a1 a2 c1 c2 x1 x2, ReachV H v w1 → ReachV H v w2 → ptr? w1 = some a1 → ptr? w2 = some a2 →
        mapVal? M w1 = some c1 → mapVal? M w2 = some c2 → ptr? c1 = some x1 → ptr? c2 = some x2 →
        (a1 = a2 ↔ x1 = x2) := by
  obtain ⟨M, hv, iso, _, _, _⟩ := C08_deepcopy_iso f H t v v' H' hc
  refine ⟨M, hv, ?_⟩
  intro w1 w2 a1 a2 c1 c2 x1 x2 _ _ p1 p2 m1 m2 q1 q2
  simp only [mapVal?, p1] at m1
  simp only [mapVal?, p2] at m2
  constructor
  · intro h; subst h
    rw [m1] at m2; cases m2
    rw [q1] at q2; exact Option.some.inj q2
  · intro h; subst h
    exact iso.inj a1 a2 c1 c2 x1 m1 m2 q1 q2

/-- **One map per `SpawnTask`.**  The captures of one task are copied as one graph: the same isomorphism
    statement for the list of captures, so an object reachable from two captures is copied once. -/
theorem C08_spawn_copies_one_graph (f : Nat) (H : Heaps) (t : Nat) (caps caps' : List Val) (H' : Heaps)
    (hc : spawnCopy f H t caps = some (caps', H')) :
    ∃ M, mapList? M caps = some caps' ∧ Iso H H' t M ∧ Ext H H' := by
  obtain ⟨M, hm⟩ := spawnCopy_unpack hc
  obtain ⟨p, hl⟩ := copyListM_post H t _ (fun H1 M1 w w' H2 M2 h => deepCopyM_post H t f H1 M1 w w' H2 M2 h)
    caps H [] caps' H' M hm
  exact ⟨M, hl, iso_of_post p, p.ext⟩

/-- **The copy equals the original** (values that render, i.e. acyclic within the fuel `g`): the copy renders
    exactly as the captured value did. -/
theorem C08_deepcopy_equal (f g : Nat) (H : Heaps) (t : Nat) (v v' : Val) (H' : Heaps) (tr : Tree)
    (hc : deepCopy f H t v = some (v', H')) (hr : render g H v = some tr) :
    render g H' v' = some tr := by
  obtain ⟨M, hv, iso, _, _, _⟩ := C08_deepcopy_iso f H t v v' H' hc
  exact iso_render iso g v v' tr hv hr

/-- … and every value of the spawning side still renders as before (the copy only allocates). -/
theorem C08_deepcopy_preserves_original (f g : Nat) (H : Heaps) (t : Nat) (v v' : Val) (H' : Heaps)
    (hc : deepCopy f H t v = some (v', H')) (u : Val) (tr : Tree) (hr : render g H u = some tr) :
    render g H' u = some tr := by
  obtain ⟨M, _, _, hext, _, _⟩ := C08_deepcopy_iso f H t v v' H' hc
  exact render_mono hext g u tr hr

/-- **The copy is disjoint from everything else**: every object reachable from the copy — through any
    path, cycles included — belongs to the new thread's heap. -/
theorem C08_deepcopy_disjoint (f : Nat) (H : Heaps) (t : Nat) (v v' : Val) (H' : Heaps)
    (hc : deepCopy f H t v = some (v', H')) :
    ∀ w' x, ReachV H' v' w' → ptr? w' = some x → x.tid = t := by
  obtain ⟨M, hv, iso, _, _, _⟩ := C08_deepcopy_iso f H t v v' H' hc
  exact iso_owned iso hv

/-- **Every copy starts from an empty table: nothing survives from an earlier copy.**  `deepCopy` (one value)
    and `spawnCopy` (the captures of a spawn) are functions of the heaps and the values alone — no table is
    carried from one copy to the next (`chanReceive`, C09, is built the same way) — and with the empty table every
    object reachable from the result was allocated during THIS copy: it did not exist before, whichever thread
    the copy is made for (the thread that owns the source included), so a copy can never hand out an object made
    by an earlier copy. -/
theorem C08_deepcopy_fresh (f : Nat) (H : Heaps) (t : Nat) (v v' : Val) (H' : Heaps)
    (hc : deepCopy f H t v = some (v', H')) :
    ∀ w' x, ReachV H' v' w' → ptr? w' = some x → lookup H x = none ∧ x.tid = t := by
  obtain ⟨M, hm⟩ := deepCopy_unpack hc
  obtain ⟨p, hv⟩ := deepCopyM_post H t f H [] v v' H' M hm
  have iso := iso_of_post p
  intro w' x hw' hx
  obtain ⟨w, _, hmw⟩ := iso_onto iso hv w' hw'
  cases hp : ptr? w with
  | none =>
    simp only [mapVal?, hp, Option.some.injEq] at hmw
    rw [← hmw, hp] at hx; cases hx
  | some a =>
    simp only [mapVal?, hp] at hmw
    obtain ⟨a', e1, e2, e3, _⟩ := p.fresh a w' hmw rfl
    rw [hx] at e1; cases e1
    exact ⟨lookup_none_of_ge H x (by rw [e2]; exact e3), e2⟩

/-- **Whatever the tag, nothing is shared.**  No object reachable from the copy is an object reachable from the
    source — for a value of ANY of the five pointer tags (struct/tuple/closure, array, variant, string, channel
    handle) at ANY nesting position: the copy walks every slot of every object (`Obj.kids`), there is no tag it
    leaves in place.  (A channel handle is copied too; only the queue it names is shared, and a queue is not an
    object of any heap.) -/
theorem C08_deepcopy_shares_nothing (f : Nat) (H : Heaps) (t : Nat) (v v' : Val) (H' : Heaps)
    (hc : deepCopy f H t v = some (v', H')) :
    ∀ w a w' x, ReachV H v w → ptr? w = some a → ReachV H' v' w' → ptr? w' = some x → x ≠ a := by
  obtain ⟨M, hv, iso, _, hcov, _⟩ := C08_deepcopy_iso f H t v v' H' hc
  have hfresh := C08_deepcopy_fresh f H t v v' H' hc
  intro w a w' x hw ha hw' hx heq
  subst heq
  obtain ⟨c, hm⟩ := hcov w hw
  simp only [mapVal?, ha] at hm
  obtain ⟨obj, _, _, d1, _, _, _, _⟩ := iso.done _ _ hm
  rw [(hfresh w' x hw' hx).1] at d1
  cases d1

/-- the same for the captures of a spawn: every object reachable from any copied capture was allocated by this
    spawn in the new thread's heap -/
theorem C08_spawn_fresh (f : Nat) (H : Heaps) (t : Nat) (caps caps' : List Val) (H' : Heaps)
    (hc : spawnCopy f H t caps = some (caps', H')) :
    ∀ c' ∈ caps', ∀ w' x, ReachV H' c' w' → ptr? w' = some x → lookup H x = none ∧ x.tid = t := by
  obtain ⟨M, hm⟩ := spawnCopy_unpack hc
  obtain ⟨p, hl⟩ := copyListM_post H t _ (fun H1 M1 w w' H2 M2 h => deepCopyM_post H t f H1 M1 w w' H2 M2 h)
    caps H [] caps' H' M hm
  have iso := iso_of_post p
  intro c' hc' w' x hw' hx
  obtain ⟨c, _, hmc⟩ := mapList_mem M caps caps' hl c' hc'
  obtain ⟨w, _, hmw⟩ := iso_onto iso hmc w' hw'
  cases hp : ptr? w with
  | none =>
    simp only [mapVal?, hp, Option.some.injEq] at hmw
    rw [← hmw, hp] at hx; cases hx
  | some a =>
    simp only [mapVal?, hp] at hmw
    obtain ⟨a', e1, e2, e3, _⟩ := p.fresh a w' hmw rfl
    rw [hx] at e1; cases e1
    exact ⟨lookup_none_of_ge H x (by rw [e2]; exact e3), e2⟩

/-- thread 1 owns an array `a` and `b`, the copy of `a` it received from its own channel earlier -/
def staleH : Heaps := fun t => if t = 1 then [.array [.int 1, .int 2], .array [.int 1, .int 2]] else []

/-- **Why the table must be empty.**  Started with a table left over from an earlier copy (`a ↦ b`), the copy
    of the capture `a` for the new thread 2 IS the spawner's object `b` — nothing is allocated, the task and the
    spawner share an object.  With the empty table the capture gets a fresh object of thread 2. -/
theorem C08_stale_table_counterexample :
    deepCopyM 3 staleH staleH [(⟨1, 0⟩, .array ⟨1, 1⟩)] 2 (.array ⟨1, 0⟩) =
      some (.array ⟨1, 1⟩, staleH, [(⟨1, 0⟩, .array ⟨1, 1⟩)]) ∧
    ∃ H', deepCopy 3 staleH 2 (.array ⟨1, 0⟩) = some (.array ⟨2, 0⟩, H') ∧ lookup staleH ⟨2, 0⟩ = none :=
  ⟨rfl, _, rfl, rfl⟩

/-- **Channels are the exception**: the copy of a channel value is a new handle object in the new thread's
    heap that names the same queue. -/
theorem C08_deepcopy_channel_shared (f : Nat) (H : Heaps) (t : Nat) (a : Addr) (q : Nat)
    (hl : lookup H a = some (.chan q)) :
    ∃ a' H', deepCopy (f + 1) H t (.chan a) = some (.chan a', H') ∧ a'.tid = t ∧ lookup H' a' = some (.chan q) := by
  refine ⟨(alloc H t (.chan q)).1, putObj (alloc H t (.chan q)).2 (alloc H t (.chan q)).1 (.chan q), ?_, rfl, ?_⟩
  · simp [deepCopy, deepCopyM, ptr?, mlookup, hl, tagOk, Obj.kids, Obj.withKids, copyListM, retag]
  · exact lookup_putObj_same _ _ _ (by simp [alloc])

/-- **Isolation.**  If every object reachable from a value belongs to thread `b`, then no store into an
    object of another thread and no teardown of another thread changes anything reachable from it: the same
    objects at the same addresses, the same reachable graph, the same rendering at every depth. -/
theorem C08_threads_isolated (H : Heaps) (b : Nat) (u : Val)
    (hown : ∀ w x, ReachV H u w → ptr? w = some x → x.tid = b) :
    (∀ (a : Addr) (i : Nat) (z : Val), a.tid ≠ b →
      (∀ w x, ReachV H u w → ptr? w = some x → lookup (setSlot H a i z) x = lookup H x) ∧
      (∀ w, ReachV H u w ↔ ReachV (setSlot H a i z) u w) ∧
      (∀ g, render g (setSlot H a i z) u = render g H u)) ∧
    (∀ t, t ≠ b →
      (∀ w x, ReachV H u w → ptr? w = some x → lookup (dropThread H t) x = lookup H x) ∧
      (∀ w, ReachV H u w ↔ ReachV (dropThread H t) u w) ∧
      (∀ g, render g (dropThread H t) u = render g H u)) := by
  constructor
  · intro a i z hne
    have hag : ∀ w x, ReachV H u w → ptr? w = some x → lookup (setSlot H a i z) x = lookup H x :=
      fun w x hw hx => lookup_setSlot_other H a i z x (by rw [hown w x hw hx]; exact fun h => hne h.symm)
    exact ⟨hag, reach_congr hag, fun g => render_congr_reach g u hag⟩
  · intro t hne
    have hag : ∀ w x, ReachV H u w → ptr? w = some x → lookup (dropThread H t) x = lookup H x :=
      fun w x hw hx => lookup_dropThread_other H t x (by rw [hown w x hw hx]; exact fun h => hne h.symm)
    exact ⟨hag, reach_congr hag, fun g => render_congr_reach g u hag⟩

/-- **Spawn, both directions.**  After a capture was copied into the new thread `t`: stores made by any
    other thread (the spawning code included) are invisible in the copy, and stores made by the task inside
    its own heap are invisible in every value whose objects belong to another thread. -/
theorem C08_spawn_isolated (f : Nat) (H : Heaps) (t : Nat) (v v' : Val) (H' : Heaps)
    (hc : deepCopy f H t v = some (v', H')) :
    (∀ (a : Addr) (i : Nat) (z : Val), a.tid ≠ t → ∀ g, render g (setSlot H' a i z) v' = render g H' v') ∧
    (∀ (p : Nat) (u : Val), p ≠ t → (∀ w x, ReachV H' u w → ptr? w = some x → x.tid = p) →
      ∀ (a : Addr) (i : Nat) (z : Val), a.tid = t → ∀ g, render g (setSlot H' a i z) u = render g H' u) := by
  have hown := C08_deepcopy_disjoint f H t v v' H' hc
  refine ⟨fun a i z hne => ((C08_threads_isolated H' t v' hown).1 a i z hne).2.2, ?_⟩
  intro p u hp hu a i z ha
  exact ((C08_threads_isolated H' p u hu).1 a i z (by rw [ha]; exact fun h => hp h.symm)).2.2

/-- a nested value in thread 1's heap: `Outer { inner: Box { v: 7, s: "ab" }, xs: [1, 2] }` -/
def exH : Heaps := fun t =>
  if t = 1 then [.str [97, 98], .struct [.int 7, .str ⟨1, 0⟩], .array [.int 1, .int 2], .struct [.struct ⟨1, 1⟩, .array ⟨1, 2⟩]]
  else []
def exV : Val := .struct ⟨1, 3⟩

example : ∃ p, deepCopy 5 exH 2 exV = some p ∧
    render 5 exH exV = some (.struct [.struct [.int 7, .str [97, 98]], .array [.int 1, .int 2]]) ∧
    render 5 p.2 p.1 = some (.struct [.struct [.int 7, .str [97, 98]], .array [.int 1, .int 2]]) := ⟨_, rfl, rfl, rfl⟩

/-- a struct whose array field contains the struct itself, and the same array referenced twice -/
def cycH : Heaps := fun t =>
  if t = 1 then [.struct [.int 1, .array ⟨1, 1⟩, .array ⟨1, 1⟩], .array [.struct ⟨1, 0⟩]] else []

/-- the repaired copy of the cyclic, shared value: one struct, one array, the cycle and the sharing kept -/
example : ∃ H', deepCopy 3 cycH 2 (.struct ⟨1, 0⟩) = some (.struct ⟨2, 0⟩, H') ∧
    lookup H' ⟨2, 0⟩ = some (.struct [.int 1, .array ⟨2, 1⟩, .array ⟨2, 1⟩]) ∧
    lookup H' ⟨2, 1⟩ = some (.array [.struct ⟨2, 0⟩]) ∧ lookup H' ⟨2, 2⟩ = none := ⟨_, rfl, rfl, rfl, rfl⟩

example : WF cycH (.struct ⟨1, 0⟩) ∧ ∃ r, deepCopy 3 cycH 2 (.struct ⟨1, 0⟩) = some r := ⟨by
  intro w a hw hp
  have : ∀ w, ReachV cycH (.struct ⟨1, 0⟩) w → w = .struct ⟨1, 0⟩ ∨ w = .int 1 ∨ w = .array ⟨1, 1⟩ := by
    intro w hw
    induction hw with
    | root => exact Or.inl rfl
    | step _ hp hl hc ih =>
      rcases ih with rfl | rfl | rfl
      · simp [ptr?] at hp; subst hp
        simp [lookup, cycH] at hl; subst hl
        simp [Obj.kids] at hc; rcases hc with rfl | rfl | rfl <;> simp
      · simp [ptr?] at hp
      · simp [ptr?] at hp; subst hp
        simp [lookup, cycH] at hl; subst hl
        simp [Obj.kids] at hc; subst hc; simp
  rcases this w hw with rfl | rfl | rfl
  · simp [ptr?] at hp; subst hp; exact ⟨_, rfl, rfl⟩
  · simp [ptr?] at hp
  · simp [ptr?] at hp; subst hp; exact ⟨_, rfl, rfl⟩, _, rfl⟩

/-- **Before fix 0cb8741 (defect D24)** the copy of a cyclic value never finished, whatever the stack depth:
    the pre-repair `deep_copy` (`deepCopyOld`, no map) runs out of fuel on the value above. -/
theorem C08_deepcopy_prerepair_cyclic : ∀ f t, deepCopyOld f cycH t (.struct ⟨1, 0⟩) = none := by
  intro f t
  induction f using Nat.strongRecOn with
  | _ f ih =>
    match f with
    | 0 => rfl
    | 1 => rfl
    | f + 2 =>
      have hl : lookup cycH ⟨1, 0⟩ = some (.struct [.int 1, .array ⟨1, 1⟩, .array ⟨1, 1⟩]) := rfl
      have hl2 : lookup cycH ⟨1, 1⟩ = some (.array [.struct ⟨1, 0⟩]) := rfl
      have := ih f (by omega)
      simp [deepCopyOld, hl, hl2, copyListOld, this]

end Abra.Heap
