import AbraProofs.Lemmas.Asm
import AbraModel.AsmProg
/-!
# C05 — optimization and literal operands never change program behaviour

Models: `Abra.Asm` (the instructions the optimizer mentions, their semantics on the operand stack) and
`Abra.Opt` (the peephole tables, `optimization_pass`, `optimize`, transliterated).

Every theorem quantifies over ALL machine states (any stack contents and depth, any frame base, any
heap), all operand registers, all constants and — for the uninterpreted parts (IEEE arithmetic, libm,
float parsing/printing, heap objects, instructions outside the optimizer's vocabulary) — all possible
behaviours of those parts (`Prims`).  Outcomes compared are complete: resulting stack, base, heap and
control (fall through / which jump), or the error kind, or a VM fault.

* `C05_imm_consistent_*`: an `…Imm` instruction equals its plain twin after pushing the constant.
* `C05_rule_sound_*`: one per arm of `peephole1/2/3_helper`: the matched window and its replacement
  give the same outcome.  Exact equality in every state, with three side conditions that are stated
  where they are needed and are necessary (each has a counterexample theorem):
    - `Duplicate; Pop → ε` needs a non-empty stack (on an empty stack the window faults);
    - `LoadOffset(x); Op(_, Top, Offset(y)) → Op(_, Offset(x), Offset(y))` needs `y` not to name the
      slot that `LoadOffset` is about to create (`NotTopSlot`);
    - the float folds need `parse (to_string c) = c` for the folded non-NaN value (Rust's shortest
      round-trip printing; NaN results are not folded — D32 repair).
* `C05_peephole{1,2,3}_sound`: whatever the rule tables answer is sound (this is what a lift uses).
* `C05_labels_preserved`: a pass and the fixpoint keep the label sequence; windows contain no labels.
* `C05_pass_segments`: the pass output is the concatenation of per-window replacements (each
  window label-free, replaced by a sound replacement or copied) — the structural half of the lift.
* `C05_pass_sound_block`: a pass (and `C05_chain_sound_block`: the fixpoint) is sound on every label-free
  block entered at its start: same final state and exit (fall through / which jump) or same error.
* `C05_pass_label_split` / `C05_optimize_label_split`: the code before and after a label is optimized
  independently and the label stays between the two images (no jump lands inside a window).
* `C05_without_imm_sound`, `C05_expand_immediates_sound`, `C05_expand_immediates_labels`: the pass that
  turns an immediate whose constant has no 16-bit pool index back into push + plain instruction is
  outcome-preserving for every pool — in the BLOCK semantics (`run` on the instructions of the line list,
  labels ignored); it is not lifted to `runG` and not composed with `C05_optimize_sound`.
* `C05_expand_threshold_int/_float/_none`: which immediates survive, as a statement about the pool index.
* `C05_optimize_sound_partial`: the address-independent ingredients in one statement (pass chain, labels,
  every fired window outcome-preserving); kept as a named claim, superseded by `C05_optimize_sound` below.
* `C05_pass_sound`, `C05_pass_sound_at_label`, `C05_optimize_sound`: whole programs (`Asm.runG`: labels, jumps,
  calls pushing return continuations, returns, halt; symbolic code addresses): every finished run of the
  original is a run of the optimized program with the same outcome, provided the checked semantics does not
  reach `sideFail` (for `C05_optimize_sound`: for the original AND for every iterate of `pass` on it).
  -- OPEN (stated in the doc comment of `C05_optimize_sound`): the converse simulation (a run of the optimized
  -- program comes from a run of the original, i.e. preservation of divergence), several green threads, and
  -- label-to-address resolution.  Reason: the converse needs the inverse window argument (one optimized
  -- step is matched by up to three original steps) and was not attempted in the time available; threads
  -- and addresses belong to the M4 VM model.  The optimizer-on/off oracle of the harness exercises them.
-/
namespace Abra.Opt
open Abra.Asm

variable {H : Type}

/-! ## `…Imm` instructions -/

/-- `AddIntImm … EqualIntImm` (11 instructions): same outcome as pushing the constant and running the
    plain instruction with `Top` as second operand — including overflow / division-by-zero errors. -/
theorem C05_imm_consistent_int (P : Prims H) (op : IntOp) (d r1 : Reg) (k : Int) (s : St H) :
    run P [.binIImm op d r1 k] s = run P [.pushInt k, .binI op d r1 .top] s := by
  simp only [run_two, run_single]
  simp [exec, loadReg, asInt]

/-- `AddFloatImm … EqualFloatImm` (10 instructions), including the division-by-zero error of
    `DivFloatImm` for a `±0.0` constant. -/
theorem C05_imm_consistent_float (P : Prims H) (op : FloatOp) (d r1 : Reg) (lit : String) (s : St H) :
    run P [.binFImm op d r1 lit] s = run P [.pushFloat lit, .binF op d r1 .top] s := by
  simp only [run_two, run_single]
  simp [exec, loadReg, asFloat]

theorem C05_imm_consistent_array_push (P : Prims H) (r1 : Reg) (k : Int) (s : St H) :
    run P [.arrayPushIntImm r1 k] s = run P [.pushInt k, .arrayPush r1 .top] s := by
  simp only [run_two, run_single]
  simp [exec, loadReg]

theorem C05_imm_consistent_store (P : Prims H) (off : Int) (k : Int) (s : St H) :
    run P [.storeOffsetImm off k] s = run P [.pushInt k, .storeOffset off] s := by
  simp only [run_two, run_single]
  simp [exec]

/-- the error kinds really are reached through the immediate forms (non-vacuity of "including errors") -/
example (P : Prims Unit) : run P [.binIImm .div .top .top 0] ⟨[.int 7], 0, ()⟩ = .err .divZero := by
  simp [run_single, exec, loadReg, asInt, evalInt, I64.div, ofOut]
example (P : Prims Unit) (lit : String) (h : P.parse lit = 0) :
    run P [.binFImm .div .top .top lit] ⟨[.float 5], 0, ()⟩ = .err .divZero := by
  simp [run_single, exec, loadReg, asFloat, evalFloat, FloatOp.isCmp, isZeroF, h]
example (P : Prims Unit) :
    run P [.binIImm .add .top .top 1] ⟨[.int 9223372036854775807], 0, ()⟩ = .err .overflow := by
  simp [run_single, exec, loadReg, asInt, evalInt, ofOut, I64.add, I64.checked, I64.ofChecked, I64.inRange,
    I64.MIN, I64.MAX]

/-! ## window of 2 -/

theorem C05_rule_sound_pushnil_pop (P : Prims H) (n : Nat) (hn : n ≠ 0) (s : St H) :
    run P [.pushNil n, .pop] s = run P [.pushNil (n - 1)] s := by
  simp only [run_two, run_single]
  obtain ⟨m, rfl⟩ : ∃ m, n = m + 1 := ⟨n - 1, by omega⟩
  have hp : ∀ (k : Nat) (st : List Val), pushN (k + 1) st = Val.int 0 :: pushN k st := by
    intro k
    induction k with
    | zero => intro st; rfl
    | succ k ih => intro st; simp only [pushN] at ih ⊢; rw [ih]
  simp [exec, hp]

/-- `PushNil(0); Pop` is left alone by the 2-window (guard `n >= 1`) -/
example : peephole2 (.pushNil 0) .pop = .noMatch := by decide

theorem C05_rule_sound_push_pop (P : Prims H) (i : Instr)
    (hi : (∃ b, i = .pushBool b) ∨ (∃ f, i = .pushFloat f) ∨ (∃ n, i = .pushInt n) ∨ (∃ x, i = .pushString x))
    (s : St H) : run P [i, .pop] s = run P [] s := by
  simp only [run_two, run_single, run_nil]
  rcases hi with ⟨b, rfl⟩ | ⟨f, rfl⟩ | ⟨n, rfl⟩ | ⟨x, rfl⟩ <;> simp [exec]

theorem C05_rule_sound_dup_pop (P : Prims H) (s : St H) (hne : s.stack ≠ []) :
    run P [.duplicate, .pop] s = run P [] s := by
  simp only [run_two, run_single, run_nil]
  cases hs : s.stack with
  | nil => exact absurd hs hne
  | cons v rest =>
    simp only [exec, hs, Res.bind_ok, run_nil]
    cases s; simp_all

/-- on an empty stack the window faults and the replacement does not: the side condition is necessary
    (and is implied by "the window does not fault") -/
theorem C05_rule_dup_pop_needs_stack (P : Prims H) (b : Nat) (h : H) :
    run P [.duplicate, .pop] ⟨[], b, h⟩ = .fault ∧ run P [] ⟨[], b, h⟩ ≠ .fault := by
  constructor
  · simp [run_two, exec]
  · simp

theorem C05_rule_sound_not_jumpif (P : Prims H) (l : String) (s : St H) :
    run P [.un .not .top .top, .jumpIf l] s = run P [.jumpIfFalse l] s := by
  simp only [run_two, run_single]
  cases hs : s.stack with
  | nil => simp [exec, loadReg, hs]
  | cons v rest =>
    cases v <;> simp [exec, loadReg, hs, evalUn, asBool, storeReg]
    rename_i b
    cases b <;> simp

theorem C05_rule_sound_true_jumpif (P : Prims H) (l : String) (s : St H) :
    run P [.pushBool true, .jumpIf l] s = run P [.jump l] s := by
  simp only [run_two, run_single]
  simp [exec, asBool]

theorem C05_rule_sound_true_jumpiffalse (P : Prims H) (l : String) (s : St H) :
    run P [.pushBool true, .jumpIfFalse l] s = run P [] s := by
  simp only [run_two, run_single, run_nil]
  simp [exec, asBool]

theorem C05_rule_sound_false_jumpif (P : Prims H) (l : String) (s : St H) :
    run P [.pushBool false, .jumpIf l] s = run P [] s := by
  simp only [run_two, run_single, run_nil]
  simp [exec, asBool]

theorem C05_rule_sound_bool_flip (P : Prims H) (b : Bool) (s : St H) :
    run P [.pushBool b, .un .not .top .top] s = run P [.pushBool (!b)] s := by
  simp only [run_two, run_single]
  simp [exec, loadReg, evalUn, asBool, storeReg]

theorem C05_rule_sound_pushint_store (P : Prims H) (n off : Int) (s : St H) :
    run P [.pushInt n, .storeOffset off] s = run P [.storeOffsetImm off n] s :=
  (C05_imm_consistent_store P off n s).symm

/-- `LOAD(X) <ANY>(_, _, TOP) -> <ANY>(_, _, X)` for all 9 instruction shapes of `second_arg_is_top` -/
theorem C05_rule_sound_load_second (P : Prims H) (x : Int) (i2 : Instr) (h : secondArgIsTop i2 = true)
    (s : St H) : run P [.loadOffset x, i2] s = run P [replaceSecondArg i2 (.off x)] s := by
  simp only [run_two, run_single, run_nil]
  unfold secondArgIsTop at h
  split at h <;> first | (exact absurd h (by decide)) | skip
  all_goals (cases hl : loadOff s x <;> simp [exec, loadReg, replaceSecondArg, run_single, hl])

/-- source offsets of the second operand of the shapes matched by
    `first_arg_is_top_and_second_arg_is_offset_or_imm` -/
def secondOffset : Instr → Option Int
  | .binI _ _ _ (.off y) => some y
  | .binF _ _ _ (.off y) => some y
  | .atan2 _ _ (.off y) => some y
  | .arrayPush _ (.off y) => some y
  | .getIndex _ (.off y) => some y
  | .setIndex _ (.off y) => some y
  | _ => none

/-- `LOAD(X) Op(_, TOP, Offset(Y) | Imm) -> Op(_, X, Offset(Y) | Imm)`: sound when `Y` does not name the
    slot `LoadOffset` creates (code generation only emits offsets of arguments, captures and locals,
    all below the operand area). -/
theorem C05_rule_sound_load_first (P : Prims H) (x : Int) (i2 : Instr)
    (h : firstArgIsTopAndSecondArgIsOffsetOrImm i2 = true) (h2 : secondArgIsTop i2 = false) (s : St H)
    (hy : ∀ y, secondOffset i2 = some y → NotTopSlot s y) :
    run P [.loadOffset x, i2] s = run P [replaceFirstArg i2 (.off x)] s := by
  simp only [run_two, run_single]
  cases i2 with
  | binI op d r1 r2 =>
    cases r1 <;> cases r2 <;> simp [firstArgIsTopAndSecondArgIsOffsetOrImm] at h
    rename_i y
    have hn := hy y rfl
    rcases loadOff_cases s x with ⟨v, hl⟩ | hl <;> rcases loadOff_cases s y with ⟨w, hl2⟩ | hl2 <;>
      simp [exec, loadReg, replaceFirstArg, hl, hl2, loadOff_push _ _ _ hn]
  | binF op d r1 r2 =>
    cases r1 <;> cases r2 <;> simp [firstArgIsTopAndSecondArgIsOffsetOrImm] at h
    rename_i y
    have hn := hy y rfl
    rcases loadOff_cases s x with ⟨v, hl⟩ | hl <;> rcases loadOff_cases s y with ⟨w, hl2⟩ | hl2 <;>
      simp [exec, loadReg, replaceFirstArg, hl, hl2, loadOff_push _ _ _ hn]
  | atan2 d r1 r2 =>
    cases r1 <;> cases r2 <;> simp [firstArgIsTopAndSecondArgIsOffsetOrImm] at h
    rename_i y
    have hn := hy y rfl
    rcases loadOff_cases s x with ⟨v, hl⟩ | hl <;> rcases loadOff_cases s y with ⟨w, hl2⟩ | hl2 <;>
      simp [exec, loadReg, replaceFirstArg, hl, hl2, loadOff_push _ _ _ hn]
  | arrayPush r1 r2 =>
    cases r1 <;> cases r2 <;> simp [firstArgIsTopAndSecondArgIsOffsetOrImm] at h
    rename_i y
    have hn := hy y rfl
    rcases loadOff_cases s x with ⟨v, hl⟩ | hl <;> rcases loadOff_cases s y with ⟨w, hl2⟩ | hl2 <;>
      simp [exec, loadReg, replaceFirstArg, hl, hl2, loadOff_push _ _ _ hn]
  | getIndex r1 r2 =>
    cases r1 <;> cases r2 <;> simp [firstArgIsTopAndSecondArgIsOffsetOrImm] at h
    rename_i y
    have hn := hy y rfl
    rcases loadOff_cases s x with ⟨v, hl⟩ | hl <;> rcases loadOff_cases s y with ⟨w, hl2⟩ | hl2 <;>
      simp [exec, loadReg, replaceFirstArg, hl, hl2, loadOff_push _ _ _ hn]
  | setIndex r1 r2 =>
    cases r1 <;> cases r2 <;> simp [firstArgIsTopAndSecondArgIsOffsetOrImm, secondArgIsTop] at h h2
    rename_i y
    have hn := hy y rfl
    rcases loadOff_cases s x with ⟨v, hl⟩ | hl <;> rcases loadOff_cases s y with ⟨w, hl2⟩ | hl2 <;>
      simp [exec, loadReg, replaceFirstArg, hl, hl2, loadOff_push _ _ _ hn]
  | binIImm op d r1 imm =>
    cases r1 <;> simp [firstArgIsTopAndSecondArgIsOffsetOrImm] at h
    rcases loadOff_cases s x with ⟨v, hl⟩ | hl <;> simp [exec, loadReg, replaceFirstArg, hl]
  | binFImm op d r1 imm =>
    cases r1 <;> simp [firstArgIsTopAndSecondArgIsOffsetOrImm] at h
    rcases loadOff_cases s x with ⟨v, hl⟩ | hl <;> simp [exec, loadReg, replaceFirstArg, hl]
  | arrayPushIntImm r1 imm =>
    cases r1 <;> simp [firstArgIsTopAndSecondArgIsOffsetOrImm] at h
    rcases loadOff_cases s x with ⟨v, hl⟩ | hl <;> simp [exec, loadReg, replaceFirstArg, hl]
  | _ => simp [firstArgIsTopAndSecondArgIsOffsetOrImm] at h

/-- the side condition is necessary: with `y` naming the slot above the top, the window reads the value
    just pushed while the fused instruction faults -/
theorem C05_rule_load_first_needs_offsets (P : Prims Unit) :
    run P [.loadOffset 0, .binI .add .top .top (.off 1)] ⟨[.int 5], 0, ()⟩ = .ok (⟨[.int 10, .int 5], 0, ()⟩, .next) ∧
    run P [.binI .add .top (.off 0) (.off 1)] ⟨[.int 5], 0, ()⟩ = .fault := by
  constructor
  · simp only [run_two, run_single, run_nil]
    simp [exec, loadOff, absIdx, getAbs, loadReg, asInt, evalInt, ofOut, I64.add, I64.checked, I64.ofChecked,
      I64.inRange, I64.MIN, I64.MAX, storeReg]
  · rw [run_single]
    simp [exec, loadOff, absIdx, getAbs, loadReg]

/-- `Op(TOP, R1, R2) STORE(N) -> Op(N, R1, R2)` for all 6 shapes of `dest_is_top` -/
theorem C05_rule_sound_dest_store (P : Prims H) (i1 : Instr) (off : Int) (h : destIsTop i1 = true)
    (s : St H) : run P [i1, .storeOffset off] s = run P [replaceDest i1 (.off off)] s := by
  simp only [run_two, run_single, run_nil]
  unfold destIsTop at h
  split at h <;> first | (exact absurd h (by decide)) | skip
  all_goals simp [exec, replaceDest, storeReg, Res.bind_assoc]

/-- `PUSHINT(N) Op(_, _, TOP) -> OpImm(_, _, N)` (11 int instructions and `ArrayPush`) -/
theorem C05_rule_sound_imm_int (P : Prims H) (n : Int) (i2 : Instr) (h1 : secondArgIsTop i2 = true)
    (h2 : canReplaceSecondArgWithImmInt i2 = true) (s : St H) :
    run P [.pushInt n, i2] s = run P [replaceSecondArgImmInt i2 n] s := by
  cases i2 with
  | binI op d r1 r2 =>
    cases r2 <;> simp [secondArgIsTop] at h1
    exact (C05_imm_consistent_int P op d r1 n s).symm
  | arrayPush r1 r2 =>
    cases r2 <;> simp [secondArgIsTop] at h1
    exact (C05_imm_consistent_array_push P r1 n s).symm
  | _ => simp [canReplaceSecondArgWithImmInt] at h2

/-- `PUSHFLOAT(N) OpFloat(_, _, TOP) -> OpFloatImm(_, _, N)` (10 float instructions) -/
theorem C05_rule_sound_imm_float (P : Prims H) (f : String) (i2 : Instr) (h1 : secondArgIsTop i2 = true)
    (h2 : canReplaceSecondArgWithImmFloat i2 = true) (s : St H) :
    run P [.pushFloat f, i2] s = run P [replaceSecondArgImmFloat i2 f] s := by
  cases i2 with
  | binF op d r1 r2 =>
    cases r2 <;> simp [secondArgIsTop] at h1
    exact (C05_imm_consistent_float P op d r1 f s).symm
  | _ => simp [canReplaceSecondArgWithImmFloat] at h2

/-! ## window of 3: constant folds -/

theorem evalInt_of_fold (op : IntOp) (a b c : Int) (h : foldInt op a b = some c) :
    evalInt op a b = .ok (.int c) := by
  cases op <;> simp [foldInt, I64.fold] at h
  · simp [evalInt, I64.add, h, I64.ofChecked, ofOut]
  · simp [evalInt, I64.sub, h, I64.ofChecked, ofOut]
  · simp [evalInt, I64.mul, h, I64.ofChecked, ofOut]
  · simp [evalInt, I64.div, h.1, h.2, I64.ofChecked, ofOut]
  · simp only [evalInt]
    cases hp : I64.pow a b <;> simp [hp] at h
    simp [ofOut, h]

/-- the five integer folds (`+ - * / ^`): the fold fires only when the checked operation succeeds, and
    then pushes exactly the value the VM would compute; `%` is never folded -/
theorem C05_rule_sound_fold_int (P : Prims H) (op : IntOp) (a b c : Int) (h : foldInt op a b = some c)
    (s : St H) : run P [.pushInt a, .pushInt b, .binI op .top .top .top] s = run P [.pushInt c] s := by
  simp only [run_three, run_single]
  simp [exec, loadReg, asInt, storeReg, evalInt_of_fold op a b c h]

/-- a fold never hides an error: when the VM would raise overflow or division by zero, no fold happens -/
theorem C05_fold_int_none_of_error (op : IntOp) (a b : Int) (k : ErrKind) (h : evalInt op a b = .err k) :
    foldInt op a b = none := by
  cases hf : foldInt op a b with
  | none => rfl
  | some c => rw [evalInt_of_fold op a b c hf] at h; cases h

/-- the optimizer's float environment agrees with the VM's primitives: a fold computes
    `to_string(parse a ∘ parse b)`, is skipped for NaN results, and the zero test is the VM's -/
structure EnvAgrees (P : Prims H) (env : FoldEnv) : Prop where
  fold : ∀ op a b, env.foldF op a b =
    some (if isNaNF (P.fbin op (P.parse a) (P.parse b)) then none
          else some (P.toStr (P.fbin op (P.parse a) (P.parse b))))
  zero : ∀ b, env.isZeroLit b = isZeroF (P.parse b)

/-- Rust prints a non-NaN `f64` so that parsing the text gives the same bits back -/
def RoundTrip (P : Prims H) : Prop := ∀ x, isNaNF x = false → P.parse (P.toStr x) = x

/-- the five float folds: sound for every pair of literals, given the round trip of non-NaN values;
    a division whose divisor literal is `±0.0` and any fold whose result is NaN are left to the VM -/
theorem C05_rule_sound_fold_float (P : Prims H) (env : FoldEnv) (hag : EnvAgrees P env) (hrt : RoundTrip P)
    (op : FloatOp) (a b c : String)
    (h : peephole3 env (.pushFloat a) (.pushFloat b) (.binF op .top .top .top) = .replace [.pushFloat c])
    (s : St H) :
    run P [.pushFloat a, .pushFloat b, .binF op .top .top .top] s = run P [.pushFloat c] s := by
  simp only [run_three, run_single]
  simp only [peephole3] at h
  by_cases har : floatIsArith op = true
  · simp only [har, if_true] at h
    by_cases hz : (op = FloatOp.div && env.isZeroLit b) = true
    · simp [hz] at h
    · simp only [hz] at h
      rw [hag.fold] at h
      by_cases hn : isNaNF (P.fbin op (P.parse a) (P.parse b)) = true
      · simp [hn] at h
      · simp only [hn] at h
        simp at h
        subst h
        have hcmp : op.isCmp = false := by cases op <;> simp_all [floatIsArith, FloatOp.isCmp]
        have hz' : (op = FloatOp.div && isZeroF (P.parse b)) = false := by
          rw [← hag.zero]; simpa using hz
        have hnn : isNaNF (P.fbin op (P.parse a) (P.parse b)) = false := by simpa using hn
        have hz2 : ¬ (op = FloatOp.div ∧ isZeroF (P.parse b) = true) := by simpa using hz'
        simp [exec, loadReg, asFloat, storeReg, evalFloat, hcmp, hz2, hrt _ hnn]
  · simp [har] at h

/-- without the round trip the fold is observable: the folded constant differs from the computed one -/
theorem C05_fold_float_needs_roundtrip (P : Prims H) (a b : String) (s : St H)
    (hbad : P.parse (P.toStr (P.fbin .add (P.parse a) (P.parse b))) ≠ P.fbin .add (P.parse a) (P.parse b)) :
    run P [.pushFloat a, .pushFloat b, .binF .add .top .top .top] s ≠
    run P [.pushFloat (P.toStr (P.fbin .add (P.parse a) (P.parse b)))] s := by
  simp only [run_three, run_single]
  simp [exec, loadReg, asFloat, storeReg, evalFloat, FloatOp.isCmp]
  intro h
  exact hbad h.symm

/-! ## window of 1 -/

theorem C05_rule_sound_pushnil0 (P : Prims H) (s : St H) : run P [.pushNil 0] s = run P [] s := by
  simp [run_single, exec, pushN]

/-! ## the rule tables as a whole -/

theorem C05_peephole1_sound (P : Prims H) (i : Instr) (out : List Instr) (h : peephole1 i = .replace out)
    (s : St H) : run P [i] s = run P out s := by
  unfold peephole1 at h
  split at h
  · cases h; exact C05_rule_sound_pushnil0 P s
  · cases h

/-- side conditions of a 2-window at the state where it starts -/
def WinOk (s : St H) (i1 i2 : Instr) : Prop :=
  (i1 = .duplicate → s.stack ≠ []) ∧
  (∀ x y, i1 = .loadOffset x → secondArgIsTop i2 = false → secondOffset i2 = some y → NotTopSlot s y)

theorem loadOffsetOf_some (i : Instr) (o : Int) (h : loadOffsetOf i = some o) : i = .loadOffset o := by
  cases i <;> simp [loadOffsetOf] at h; subst h; rfl
theorem storeOffsetOf_some (i : Instr) (o : Int) (h : storeOffsetOf i = some o) : i = .storeOffset o := by
  cases i <;> simp [storeOffsetOf] at h; subst h; rfl
theorem pushIntOf_some (i : Instr) (n : Int) (h : pushIntOf i = some n) : i = .pushInt n := by
  cases i <;> simp [pushIntOf] at h; subst h; rfl
theorem pushFloatOf_some (i : Instr) (f : String) (h : pushFloatOf i = some f) : i = .pushFloat f := by
  cases i <;> simp [pushFloatOf] at h; subst h; rfl

theorem guarded_sound (P : Prims H) (i1 i2 : Instr) (out : List Instr)
    (h : peephole2Guarded i1 i2 = .replace out) (s : St H) (hok : WinOk s i1 i2) :
    run P [i1, i2] s = run P out s := by
  unfold peephole2Guarded at h
  cases hl : loadOffsetOf i1 with
  | some off =>
    have := loadOffsetOf_some i1 off hl; subst this
    simp only [hl] at h
    by_cases h1 : secondArgIsTop i2 = true
    · by_cases he : offsetIsEncodable off = true
      · simp only [h1, he, Bool.and_self, if_true] at h
        cases h; exact C05_rule_sound_load_second P off i2 h1 s
      · simp [he] at h
    · have h1' : secondArgIsTop i2 = false := by simpa using h1
      simp only [h1', Bool.false_and] at h
      by_cases h2 : (firstArgIsTopAndSecondArgIsOffsetOrImm i2 && offsetIsEncodable off) = true
      · simp only [h2, if_true] at h
        simp at h
        cases h
        simp only [Bool.and_eq_true] at h2
        exact C05_rule_sound_load_first P off i2 h2.1 h1' s (fun y hy => hok.2 off y rfl h1' hy)
      · simp [h2] at h
  | none =>
    simp only [hl] at h
    cases hs : storeOffsetOf i2 with
    | some off =>
      have := storeOffsetOf_some i2 off hs; subst this
      simp only [hs] at h
      by_cases h1 : (destIsTop i1 && offsetIsEncodable off) = true
      · simp only [h1, if_true] at h
        cases h
        simp only [Bool.and_eq_true] at h1
        exact C05_rule_sound_dest_store P i1 off h1.1 s
      · simp [h1] at h
    | none =>
      simp only [hs] at h
      cases hi : pushIntOf i1 with
      | some n =>
        have := pushIntOf_some i1 n hi; subst this
        simp only [hi] at h
        by_cases h1 : (secondArgIsTop i2 && canReplaceSecondArgWithImmInt i2) = true
        · simp only [h1, if_true] at h
          cases h
          simp only [Bool.and_eq_true] at h1
          exact C05_rule_sound_imm_int P n i2 h1.1 h1.2 s
        · simp [h1] at h
      | none =>
        simp only [hi] at h
        cases hf : pushFloatOf i1 with
        | some f =>
          have := pushFloatOf_some i1 f hf; subst this
          simp only [hf] at h
          by_cases h1 : (secondArgIsTop i2 && canReplaceSecondArgWithImmFloat i2) = true
          · simp only [h1, if_true] at h
            cases h
            simp only [Bool.and_eq_true] at h1
            exact C05_rule_sound_imm_float P f i2 h1.1 h1.2 s
          · simp [h1] at h
        | none => simp [hf] at h

theorem C05_peephole2_sound (P : Prims H) (i1 i2 : Instr) (out : List Instr)
    (h : peephole2 i1 i2 = .replace out) (s : St H) (hok : WinOk s i1 i2) :
    run P [i1, i2] s = run P out s := by
  unfold peephole2 at h
  split at h
  · split at h
    · cases h; exact C05_rule_sound_pushnil_pop P _ (by omega) s
    · cases h
  · cases h; exact C05_rule_sound_push_pop P _ (Or.inl ⟨_, rfl⟩) s
  · cases h; exact C05_rule_sound_push_pop P _ (Or.inr (Or.inl ⟨_, rfl⟩)) s
  · cases h; exact C05_rule_sound_push_pop P _ (Or.inr (Or.inr (Or.inl ⟨_, rfl⟩))) s
  · cases h; exact C05_rule_sound_push_pop P _ (Or.inr (Or.inr (Or.inr ⟨_, rfl⟩))) s
  · cases h; exact C05_rule_sound_dup_pop P s (hok.1 rfl)
  · cases h; exact C05_rule_sound_not_jumpif P _ s
  · cases h; exact C05_rule_sound_true_jumpif P _ s
  · cases h; exact C05_rule_sound_true_jumpiffalse P _ s
  · cases h; exact C05_rule_sound_false_jumpif P _ s
  · cases h; exact C05_rule_sound_bool_flip P _ s
  · cases h; exact C05_rule_sound_pushint_store P _ _ s
  · exact guarded_sound P _ _ out h s hok

theorem C05_peephole3_sound (P : Prims H) (env : FoldEnv) (hag : EnvAgrees P env) (hrt : RoundTrip P)
    (i1 i2 i3 : Instr) (out : List Instr) (h : peephole3 env i1 i2 i3 = .replace out) (s : St H) :
    run P [i1, i2, i3] s = run P out s := by
  have h0 := h
  unfold peephole3 at h
  split at h
  · split at h
    · cases h; exact C05_rule_sound_fold_int P _ _ _ _ (by assumption) s
    · cases h
  · rename_i a b op
    have : ∃ c, out = [.pushFloat c] := by
      by_cases har : floatIsArith op = true
      · simp only [har, if_true] at h
        split at h
        · cases h
        · split at h
          · cases h; exact ⟨_, rfl⟩
          · cases h
          · cases h
      · simp [har] at h
    obtain ⟨c, rfl⟩ := this
    exact C05_rule_sound_fold_float P env hag hrt op a b c h0 s
  · cases h

/-! ## the pass and the fixpoint -/

def labelsOf : List Line → List String
  | [] => []
  | .label l :: r => l :: labelsOf r
  | .instr _ _ :: r => labelsOf r

def linesOf (w : List (Instr × Ann)) : List Line := w.map fun p => .instr p.1 p.2

/-- a rule table answered `replace out` for the window `w` -/
inductive Fires (env : FoldEnv) : List Instr → List Instr → Prop where
  | one (i : Instr) (out : List Instr) : peephole1 i = .replace out → Fires env [i] out
  | two (i1 i2 : Instr) (out : List Instr) : peephole2 i1 i2 = .replace out → Fires env [i1, i2] out
  | three (i1 i2 i3 : Instr) (out : List Instr) :
      peephole3 env i1 i2 i3 = .replace out → Fires env [i1, i2, i3] out

/-- a hit consumes `k ∈ {1,2,3}` leading lines, all of them instructions (a label ends a window) -/
theorem matchAt_hit (env : FoldEnv) (ls : List Line) (out : List Instr) (k : Nat)
    (h : matchAt env ls = .hit out k) :
    ∃ (w : List (Instr × Ann)), w ≠ [] ∧ w.length = k ∧ ls = linesOf w ++ ls.drop k ∧
      Fires env (w.map (·.1)) out ∧ (w.head?.map (·.2)) = some (annOf ls) := by
  match ls, h with
  | .instr i1 a1 :: rest, h =>
    simp only [matchAt] at h
    -- 3-window
    split at h
    · rename_i out3 h3
      cases h
      match rest, h3 with
      | .instr i2 a2 :: .instr i3 a3 :: rest3, h3 =>
        exact ⟨[(i1, a1), (i2, a2), (i3, a3)], by simp, rfl, by simp [linesOf], .three _ _ _ _ h3, rfl⟩
    · cases h
    · -- 2-window
      split at h
      · rename_i out2 h2
        cases h
        match rest, h2 with
        | .instr i2 a2 :: rest2, h2 =>
          exact ⟨[(i1, a1), (i2, a2)], by simp, rfl, by simp [linesOf], .two _ _ _ h2, rfl⟩
      · cases h
      · split at h
        · rename_i out1 h1
          cases h
          exact ⟨[(i1, a1)], by simp, rfl, by simp [linesOf], .one _ _ h1, rfl⟩
        · cases h
        · cases h

theorem labelsOf_linesOf_append (w : List (Instr × Ann)) (ls : List Line) :
    labelsOf (linesOf w ++ ls) = labelsOf ls := by
  induction w with
  | nil => rfl
  | cons p w ih => simpa [linesOf, labelsOf] using ih

theorem labelsOf_out_append (out : List Instr) (a : Ann) (ls : List Line) :
    labelsOf (out.map (fun i => Line.instr i a) ++ ls) = labelsOf ls := by
  induction out with
  | nil => rfl
  | cons i out ih => simpa [labelsOf] using ih

/-- one `optimization_pass` relates input and output lines segment by segment: a line is copied, or a
    label-free window on which a rule table fired is replaced by the rule's output, carrying the
    annotation of the window's first instruction -/
inductive PassRel (env : FoldEnv) : List Line → List Line → Prop where
  | nil : PassRel env [] []
  | keep (l : Line) (ls r : List Line) : PassRel env ls r → PassRel env (l :: ls) (l :: r)
  | rewrite (w : List (Instr × Ann)) (out : List Instr) (a : Ann) (ls r : List Line) :
      Fires env (w.map (·.1)) out → w.head?.map (·.2) = some a → PassRel env ls r →
      PassRel env (linesOf w ++ ls) (out.map (fun i => Line.instr i a) ++ r)

theorem passLoop_rel (env : FoldEnv) : ∀ (fuel : Nat) (ls r : List Line), ls.length ≤ fuel →
    passLoop env fuel ls = .ok r → PassRel env ls r := by
  intro fuel
  induction fuel with
  | zero =>
    intro ls r hl h
    cases ls with
    | nil => simp [passLoop] at h; subst h; exact .nil
    | cons l rest => simp at hl
  | succ f ih =>
    intro ls r hl h
    cases ls with
    | nil => simp [passLoop] at h; subst h; exact .nil
    | cons l rest =>
      simp only [passLoop] at h
      split at h
      · rename_i out k hm
        obtain ⟨w, hne, hlen, hsplit, hf, ha⟩ := matchAt_hit env _ _ _ hm
        cases htl : passLoop env f ((l :: rest).drop k) with
        | ok tl =>
          rw [htl] at h
          simp only [PassRes.map] at h
          cases h
          have hk : 1 ≤ k := by
            rw [← hlen]; cases w with
            | nil => exact absurd rfl hne
            | cons _ _ => simp
          have hl2 : ((l :: rest).drop k).length ≤ f := by
            simp only [List.length_drop, List.length_cons] at hl ⊢; omega
          have hrel := ih _ _ hl2 htl
          have := PassRel.rewrite w out (annOf (l :: rest)) _ _ hf ha hrel
          rw [← hsplit] at this
          exact this
        | needFold => rw [htl] at h; simp [PassRes.map] at h
      · cases h
      · cases htl : passLoop env f rest with
        | ok tl =>
          rw [htl] at h
          simp only [PassRes.map] at h
          cases h
          exact .keep l rest tl (ih _ _ (by simpa using hl) htl)
        | needFold => rw [htl] at h; simp [PassRes.map] at h

/-- **Structure of a pass.** -/
theorem C05_pass_segments (env : FoldEnv) (ls r : List Line) (h : pass env ls = .ok r) : PassRel env ls r :=
  passLoop_rel env ls.length ls r (Nat.le_refl _) h

theorem labelsOf_passRel (env : FoldEnv) (ls r : List Line) (h : PassRel env ls r) :
    labelsOf r = labelsOf ls := by
  induction h with
  | nil => rfl
  | keep l ls r _ ih => cases l <;> simp [labelsOf, ih]
  | rewrite w out a ls r _ _ _ ih => rw [labelsOf_linesOf_append, labelsOf_out_append, ih]

/-- iterated passes -/
inductive PassChain (env : FoldEnv) : List Line → List Line → Prop where
  | refl (ls : List Line) : PassChain env ls ls
  | step (a b c : List Line) : PassRel env a b → PassChain env b c → PassChain env a c

theorem optimizeLoop_chain (env : FoldEnv) : ∀ (fuel : Nat) (ls r : List Line),
    optimizeLoop env fuel ls = .ok r → PassChain env ls r := by
  intro fuel
  induction fuel with
  | zero => intro ls r h; simp [optimizeLoop] at h; subst h; exact .refl _
  | succ f ih =>
    intro ls r h
    simp only [optimizeLoop] at h
    cases hp : pass env ls with
    | ok p =>
      rw [hp] at h
      simp only at h
      have hrel := C05_pass_segments env ls p hp
      by_cases hlt : p.length < ls.length
      · simp only [hlt, if_true] at h
        exact .step _ _ _ hrel (ih _ _ h)
      · simp only [hlt, if_false] at h
        cases h
        exact .step _ _ _ hrel (.refl _)
    | needFold => rw [hp] at h; cases h

theorem labelsOf_chain (env : FoldEnv) (ls r : List Line) (h : PassChain env ls r) :
    labelsOf r = labelsOf ls := by
  induction h with
  | refl => rfl
  | step a b c hab _ ih => rw [ih, labelsOf_passRel env a b hab]

/-- **Labels.** `optimize` keeps every label, in order, and never moves an instruction across one:
    the label sequence of the result is the label sequence of the input (so every jump target, call
    target and task entry still exists). -/
theorem C05_labels_preserved (env : FoldEnv) (ls r : List Line) (h : optimize env ls = .ok r) :
    labelsOf r = labelsOf ls :=
  labelsOf_chain env ls r (optimizeLoop_chain env _ ls r h)

/-- every window a pass rewrites is replaced by code with the same outcome in every state that
    satisfies the two side conditions at the start of the window -/
theorem C05_fires_sound (P : Prims H) (env : FoldEnv) (hag : EnvAgrees P env) (hrt : RoundTrip P)
    (w out : List Instr) (h : Fires env w out) (s : St H)
    (hok : ∀ i1 i2, w = [i1, i2] → WinOk s i1 i2) : run P w s = run P out s := by
  cases h with
  | one i out h1 => exact C05_peephole1_sound P i out h1 s
  | two i1 i2 out h2 => exact C05_peephole2_sound P i1 i2 out h2 s (hok i1 i2 rfl)
  | three i1 i2 i3 out h3 => exact C05_peephole3_sound P env hag hrt i1 i2 i3 out h3 s

/-- **What is claimed for the optimizer as a whole (partial).**  For every line list on which `optimize`
    succeeds: (1) the result is reached by a chain of passes each of which only copies lines or replaces
    label-free windows on which a rule table fired, (2) the label sequence is unchanged, and (3) every
    such replacement has the same outcome as its window in every machine state, for every behaviour of
    the uninterpreted primitives that agrees with the fold environment.
    The composition of (1)–(3) through jumps, calls and returns of a whole program is
    `C05_optimize_sound` further down (forward direction). -/
theorem C05_optimize_sound_partial (P : Prims H) (env : FoldEnv) (hag : EnvAgrees P env) (hrt : RoundTrip P)
    (ls r : List Line) (h : optimize env ls = .ok r) :
    PassChain env ls r ∧ labelsOf r = labelsOf ls ∧
    (∀ (w out : List Instr), Fires env w out → ∀ (s : St H),
      (∀ i1 i2, w = [i1, i2] → WinOk s i1 i2) → run P w s = run P out s) :=
  ⟨optimizeLoop_chain env _ ls r h, C05_labels_preserved env ls r h,
   fun w out hf s hok => C05_fires_sound P env hag hrt w out hf s hok⟩

/-! ## semantic soundness of a pass on a block -/

/-- the instructions of a line list -/
def codeOf : List Line → List Instr
  | [] => []
  | .label _ :: r => codeOf r
  | .instr i _ :: r => i :: codeOf r

theorem codeOf_linesOf_append (w : List (Instr × Ann)) (ls : List Line) :
    codeOf (linesOf w ++ ls) = w.map (·.1) ++ codeOf ls := by
  induction w with
  | nil => rfl
  | cons p w ih => simpa [linesOf, codeOf] using ih

theorem codeOf_out_append (out : List Instr) (a : Ann) (ls : List Line) :
    codeOf (out.map (fun i => Line.instr i a) ++ ls) = out ++ codeOf ls := by
  induction out with
  | nil => rfl
  | cons i out ih => simpa [codeOf] using ih

/-- the two side conditions hold at every adjacent instruction pair that execution of the ORIGINAL code
    reaches from `s` (a statement about the original program only; it does not mention the optimizer) -/
def SegOk (P : Prims H) (code : List Instr) (s : St H) : Prop :=
  ∀ (pre : List Instr) (i1 i2 : Instr) (post : List Instr) (s1 : St H),
    code = pre ++ i1 :: i2 :: post → run P pre s = .ok (s1, .next) → WinOk s1 i1 i2

theorem SegOk_tail (P : Prims H) (xs ys : List Instr) (s s1 : St H) (h : SegOk P (xs ++ ys) s)
    (hr : run P xs s = .ok (s1, .next)) : SegOk P ys s1 := by
  intro pre i1 i2 post s2 hsplit hrun
  apply h (xs ++ pre) i1 i2 post s2
  · rw [hsplit]; simp
  · rw [run_append, hr]; simpa using hrun

/-- **A pass is sound on every label-free block.**  For any line list without labels (a basic block, or
    any longer stretch between two labels, including opaque instructions such as calls treated as state
    transformers), entered at its first instruction in ANY state in which the original code meets the two
    side conditions where it reaches them: the optimized block and the original block have the same
    outcome — same final stack, base and heap and same exit (fall off the end, or the same jump), or the
    same runtime error, or a fault. -/
theorem C05_pass_sound_block (P : Prims H) (env : FoldEnv) (hag : EnvAgrees P env) (hrt : RoundTrip P)
    (ls r : List Line) (hrel : PassRel env ls r) (hlf : labelsOf ls = []) :
    ∀ (s : St H), SegOk P (codeOf ls) s → run P (codeOf r) s = run P (codeOf ls) s := by
  induction hrel with
  | nil => intro s _; rfl
  | keep l ls r _ ih =>
    intro s hok
    cases l with
    | label l => simp [labelsOf] at hlf
    | instr i a =>
      have hlf' : labelsOf ls = [] := by simpa [labelsOf] using hlf
      simp only [codeOf, run_cons]
      cases he : exec P i s with
      | ok x =>
        obtain ⟨s1, c⟩ := x
        cases c with
        | next =>
          simp only [Res.bind_ok]
          apply ih hlf' s1
          have : run P [i] s = .ok (s1, .next) := by rw [run_single]; exact he
          exact SegOk_tail P [i] (codeOf ls) s s1 (by simpa [codeOf] using hok) this
        | jump l => simp
      | err k => simp
      | fault => simp
  | rewrite w out a ls r hf ha _ ih =>
    intro s hok
    have hlf' : labelsOf ls = [] := by rw [labelsOf_linesOf_append] at hlf; exact hlf
    rw [codeOf_linesOf_append] at hok ⊢
    rw [codeOf_out_append]
    have hw : run P (w.map (·.1)) s = run P out s := by
      apply C05_fires_sound P env hag hrt _ _ hf s
      intro i1 i2 hw2
      apply hok [] i1 i2 (codeOf ls) s
      · rw [hw2]; rfl
      · rfl
    rw [run_append, run_append, hw]
    cases hr : run P out s with
    | ok x =>
      obtain ⟨s1, c⟩ := x
      cases c with
      | next =>
        simp only [Res.bind_ok]
        apply ih hlf' s1
        exact SegOk_tail P (w.map (·.1)) (codeOf ls) s s1 hok (by rw [hw]; exact hr)
      | jump l => simp
    | err k => simp
    | fault => simp

/-- the fixpoint on a label-free block, under the side conditions for every intermediate program -/
theorem C05_chain_sound_block (P : Prims H) (env : FoldEnv) (hag : EnvAgrees P env) (hrt : RoundTrip P)
    (ls r : List Line) (hch : PassChain env ls r) (hlf : labelsOf ls = []) (s : St H)
    (hok : ∀ mid, PassChain env ls mid → SegOk P (codeOf mid) s) :
    run P (codeOf r) s = run P (codeOf ls) s := by
  induction hch with
  | refl => rfl
  | step a b c hab hbc ih =>
    have hb : labelsOf b = [] := by rw [labelsOf_passRel env a b hab]; exact hlf
    rw [ih hb (fun mid hm => hok mid (.step a b mid hab hm))]
    exact C05_pass_sound_block P env hag hrt a b hab hlf s (hok a (.refl a))

/-! ## labels delimit independently optimized blocks -/

theorem linesOf_prefix (w : List (Instr × Ann)) : ∀ (ls a b : List Line) (l : String),
    linesOf w ++ ls = a ++ Line.label l :: b →
    ∃ a3, a = linesOf w ++ a3 ∧ ls = a3 ++ Line.label l :: b := by
  induction w with
  | nil => intro ls a b l h; exact ⟨a, rfl, by simpa [linesOf] using h⟩
  | cons p w ih =>
    intro ls a b l h
    cases a with
    | nil => simp [linesOf] at h
    | cons y a2 =>
      simp only [linesOf, List.map_cons, List.cons_append, List.cons.injEq] at h
      obtain ⟨hy, hrest⟩ := h
      obtain ⟨a3, h1, h2⟩ := ih ls a2 b l hrest
      exact ⟨a3, by rw [h1, ← hy]; rfl, h2⟩

theorem passRel_label_split (env : FoldEnv) (l : String) (b : List Line) :
    ∀ (ls r : List Line), PassRel env ls r → ∀ (a : List Line), ls = a ++ Line.label l :: b →
    ∃ a' b', r = a' ++ Line.label l :: b' ∧ PassRel env a a' ∧ PassRel env b b' := by
  intro ls r hrel
  induction hrel with
  | nil => intro a h; cases a <;> simp at h
  | keep x ls r hrel ih =>
    intro a h
    cases a with
    | nil =>
      simp only [List.nil_append, List.cons.injEq] at h
      obtain ⟨hx, hls⟩ := h
      subst hx hls
      exact ⟨[], r, rfl, .nil, hrel⟩
    | cons y a2 =>
      simp only [List.cons_append, List.cons.injEq] at h
      obtain ⟨hx, hls⟩ := h
      obtain ⟨a', b', hr, ha, hb⟩ := ih a2 hls
      exact ⟨x :: a', b', by rw [hr]; rfl, by rw [← hx]; exact .keep x a2 a' ha, hb⟩
  | rewrite w out an ls r hf ha hrel ih =>
    intro a h
    obtain ⟨a3, h1, h2⟩ := linesOf_prefix w ls a b l h
    obtain ⟨a', b', hr, hra, hrb⟩ := ih a3 h2
    refine ⟨out.map (fun i => Line.instr i an) ++ a', b', ?_, ?_, hrb⟩
    · rw [hr]; simp
    · rw [h1]; exact .rewrite w out an a3 a' hf ha hra

/-- **Blocks.** A pass treats the code before and after a label independently and leaves the label
    between the two results: `pass (a ++ [l:] ++ b) = pass-image(a) ++ [l:] ++ pass-image(b)`.  With
    `C05_pass_sound_block` this says: for every label, the optimized code following it (up to the next
    label) is equivalent to the original code following it — no jump can land inside a rewritten window. -/
theorem C05_pass_label_split (env : FoldEnv) (a b r : List Line) (l : String)
    (h : pass env (a ++ Line.label l :: b) = .ok r) :
    ∃ a' b', r = a' ++ Line.label l :: b' ∧ PassRel env a a' ∧ PassRel env b b' :=
  passRel_label_split env l b _ r (C05_pass_segments env _ r h) a rfl

theorem chain_label_split (env : FoldEnv) (l : String) :
    ∀ (ls r : List Line), PassChain env ls r → ∀ (a b : List Line), ls = a ++ Line.label l :: b →
    ∃ a' b', r = a' ++ Line.label l :: b' ∧ PassChain env a a' ∧ PassChain env b b' := by
  intro ls r hch
  induction hch with
  | refl ls => intro a b h; exact ⟨a, b, h, .refl a, .refl b⟩
  | step x y z hxy _ ih =>
    intro a b h
    obtain ⟨a1, b1, hy, ha1, hb1⟩ := passRel_label_split env l b x y hxy a h
    obtain ⟨a', b', hz, ha', hb'⟩ := ih a1 b1 hy
    exact ⟨a', b', hz, .step a a1 a' ha1 ha', .step b b1 b' hb1 hb'⟩

/-- the same for the fixpoint -/
theorem C05_optimize_label_split (env : FoldEnv) (a b r : List Line) (l : String)
    (h : optimize env (a ++ Line.label l :: b) = .ok r) :
    ∃ a' b', r = a' ++ Line.label l :: b' ∧ PassChain env a a' ∧ PassChain env b b' :=
  chain_label_split env l _ r (optimizeLoop_chain env _ _ r h) a b rfl

/-! ## `expand_immediates` -/

/-- `without_imm` is the inverse of the immediate fusion: the pair it returns behaves as the instruction -/
theorem C05_without_imm_sound (P : Prims H) (i push plain : Instr) (h : withoutImm i = some (push, plain))
    (s : St H) : run P [push, plain] s = run P [i] s := by
  cases i <;> simp [withoutImm] at h <;> obtain ⟨rfl, rfl⟩ := h
  · exact (C05_imm_consistent_store P _ _ s).symm
  · exact (C05_imm_consistent_int P _ _ _ _ s).symm
  · exact (C05_imm_consistent_float P _ _ _ _ s).symm
  · exact (C05_imm_consistent_array_push P _ _ s).symm

/-- **Constant pools beyond 16 bits.** Whatever the pool (any set of constants may fail to fit), the code
    after `expand_immediates` has the same outcome as before it, in every state; labels are untouched. -/
theorem C05_expand_immediates_sound (P : Prims H) (pool : Pool) (ls : List Line) :
    ∀ (s : St H), run P (codeOf (expandImmediates pool ls)) s = run P (codeOf ls) s := by
  induction ls with
  | nil => intro s; rfl
  | cons l rest ih =>
    intro s
    cases l with
    | label l => simpa [expandImmediates, codeOf] using ih s
    | instr i a =>
      simp only [expandImmediates]
      have hstep : ∀ (tl : List Instr), (∀ s, run P tl s = run P (codeOf rest) s) →
          run P (i :: tl) s = run P (i :: codeOf rest) s := by
        intro tl htl
        simp only [run_cons]
        congr 1; funext x; obtain ⟨s', c⟩ := x; cases c <;> simp [htl]
      cases hw : withoutImm i with
      | none => simpa [codeOf] using hstep _ ih
      | some pp =>
        obtain ⟨push, plain⟩ := pp
        by_cases hf : fits pool push = true
        · simpa [hf, codeOf] using hstep _ ih
        · have hf' : fits pool push = false := by simpa using hf
          simp only [hf', Bool.false_eq_true, if_false, codeOf]
          have e1 : push :: plain :: codeOf (expandImmediates pool rest) =
              [push, plain] ++ codeOf (expandImmediates pool rest) := rfl
          have e2 : i :: codeOf rest = [i] ++ codeOf rest := rfl
          rw [e1, e2, run_append, run_append, C05_without_imm_sound P i push plain hw s]
          congr 1; funext x; obtain ⟨s', c⟩ := x; cases c <;> simp [ih]

theorem C05_expand_immediates_labels (pool : Pool) (ls : List Line) :
    labelsOf (expandImmediates pool ls) = labelsOf ls := by
  induction ls with
  | nil => rfl
  | cons l rest ih =>
    cases l with
    | label l => simp [expandImmediates, labelsOf, ih]
    | instr i a =>
      simp only [expandImmediates]
      cases hw : withoutImm i with
      | none => simpa [labelsOf] using ih
      | some pp =>
        obtain ⟨push, plain⟩ := pp
        by_cases hf : fits pool push = true <;> simp [hf, labelsOf, ih]

/-- **The threshold is an index.**  With the pool numbered as `gather_constants` does, an immediate-operand
    instruction survives `expand_immediates` exactly when its constant's pool index is at most 65535
    (`u16::MAX`); at index 65536 (where `as u16` would wrap to 0) and beyond it is expanded.  These two
    theorems take the index as given (`idx… imm = some k`); the no-index case is `C05_expand_threshold_none`. -/
theorem C05_expand_threshold_int (idxI : Int → Option Nat) (idxF : String → Option Nat) (i push plain : Instr)
    (a : Ann) (imm : Int) (k : Nat) (hw : withoutImm i = some (push, plain)) (hp : push = .pushInt imm)
    (hk : idxI imm = some k) :
    expandImmediates (poolOfIndex idxI idxF) [.instr i a] =
      if k ≤ 65535 then [.instr i a] else [.instr push a, .instr plain a] := by
  subst hp
  by_cases h : k ≤ 65535 <;> simp [expandImmediates, hw, fits, poolOfIndex, immIndexFits, hk, h]

theorem C05_expand_threshold_float (idxI : Int → Option Nat) (idxF : String → Option Nat) (i push plain : Instr)
    (a : Ann) (imm : String) (k : Nat) (hw : withoutImm i = some (push, plain)) (hp : push = .pushFloat imm)
    (hk : idxF imm = some k) :
    expandImmediates (poolOfIndex idxI idxF) [.instr i a] =
      if k ≤ 65535 then [.instr i a] else [.instr push a, .instr plain a] := by
  subst hp
  by_cases h : k ≤ 65535 <;> simp [expandImmediates, hw, fits, poolOfIndex, immIndexFits, hk, h]

/-- a constant without a pool index (`try_get_id` is `None`) does not fit: the immediate is expanded -/
theorem C05_expand_threshold_none (idxI : Int → Option Nat) (idxF : String → Option Nat) (i push plain : Instr)
    (a : Ann) (hw : withoutImm i = some (push, plain))
    (hk : (∃ imm, push = .pushInt imm ∧ idxI imm = none) ∨ (∃ imm, push = .pushFloat imm ∧ idxF imm = none)) :
    expandImmediates (poolOfIndex idxI idxF) [.instr i a] = [.instr push a, .instr plain a] := by
  rcases hk with ⟨imm, rfl, h⟩ | ⟨imm, rfl, h⟩ <;> simp [expandImmediates, hw, fits, poolOfIndex, h]

example : expandImmediates (poolOfIndex (fun _ => none) (fun _ => none))
    [.instr (.binIImm .add .top (.off 0) 7) ⟨0, 1, 0⟩] =
    [.instr (.pushInt 7) ⟨0, 1, 0⟩, .instr (.binI .add .top (.off 0) .top) ⟨0, 1, 0⟩] := by decide

/-- the boundary: indices 65534 and 65535 stay immediates, 65536 and 65537 are expanded -/
example : immIndexFits 65535 = true ∧ immIndexFits 65536 = false := by decide
example : expandImmediates (poolOfIndex (fun n => some n.toNat) (fun _ => none))
    [.instr (.binIImm .add .top (.off 0) 65534) ⟨0, 1, 0⟩, .instr (.binIImm .eq .top (.off 0) 65535) ⟨0, 2, 0⟩,
     .instr (.binIImm .ge .top (.off 0) 65536) ⟨0, 3, 0⟩, .instr (.storeOffsetImm 1 65537) ⟨0, 4, 0⟩] =
    [.instr (.binIImm .add .top (.off 0) 65534) ⟨0, 1, 0⟩, .instr (.binIImm .eq .top (.off 0) 65535) ⟨0, 2, 0⟩,
     .instr (.pushInt 65536) ⟨0, 3, 0⟩, .instr (.binI .ge .top (.off 0) .top) ⟨0, 3, 0⟩,
     .instr (.pushInt 65537) ⟨0, 4, 0⟩, .instr (.storeOffset 1) ⟨0, 4, 0⟩] := by decide

/-- an immediate whose constant does not fit is really expanded, one that fits is kept -/
example : expandImmediates ⟨fun n => n != 7, fun _ => true⟩
    [.instr (.binIImm .add .top (.off 0) 7) ⟨0, 1, 0⟩, .instr (.binIImm .add .top (.off 0) 8) ⟨0, 2, 0⟩] =
    [.instr (.pushInt 7) ⟨0, 1, 0⟩, .instr (.binI .add .top (.off 0) .top) ⟨0, 1, 0⟩,
     .instr (.binIImm .add .top (.off 0) 8) ⟨0, 2, 0⟩] := by decide

/-- D90: an offset outside the 15-bit register range is never fused (the three offset rules) -/
example : peephole2 (.loadOffset 16384) (.binI .add .top .top .top) = .noMatch := by decide
example : peephole2 (.loadOffset (-16385)) (.binIImm .add .top .top 1) = .noMatch := by decide
example : peephole2 (.binI .add .top .top .top) (.storeOffset 16384) = .noMatch := by decide
example : peephole2 (.loadOffset 16383) (.binI .add .top .top .top) =
    .replace [.binI .add .top .top (.off 16383)] := by decide

/-! ## whole programs: simulation through labels, calls and returns -/

/-- one step of a whole program preserves a relation on continuations (`Rc`) and frames (`Rf`) when the
    "rest of the run" does and labels correspond -/
theorem stepBody_rel {Rc : List Line → List Line → Prop} {Rf : Frames → Frames → Prop} {G : Final H → Prop}
    (prog prog' : List Line) (k k' : List Line → Frames → St H → Final H)
    (hlab : ∀ l, match afterLabel prog l with
      | none => afterLabel prog' l = none
      | some c => ∃ c', afterLabel prog' l = some c' ∧ Rc c c')
    (hk : ∀ c c' fr fr' s out, Rc c c' → Rf fr fr' → k c fr s = out → G out → k' c' fr' s = out)
    (hpush : ∀ r r' info fr fr', Rc r r' → Rf fr fr' → Rf ((r, info) :: fr) ((r', info) :: fr'))
    (hpop : ∀ fr fr', Rf fr fr' → (fr = [] ∧ fr' = []) ∨
      ∃ r r' info t t', fr = (r, info) :: t ∧ fr' = (r', info) :: t' ∧ Rc r r' ∧ Rf t t')
    (st : OtherStep H) (r r' : List Line) (fr fr' : Frames) (out : Final H)
    (hr : Rc r r') (hf : Rf fr fr') (h : stepBody prog k st r fr = out) (hg : G out) :
    stepBody prog' k' st r' fr' = out := by
  cases st with
  | plain res =>
    cases res with
    | ok x =>
      obtain ⟨s', c⟩ := x
      cases c with
      | next => simp only [stepBody] at h ⊢; exact hk _ _ _ _ _ _ hr hf h hg
      | jump l =>
        simp only [stepBody] at h ⊢
        have hl := hlab l
        cases ha : afterLabel prog l with
        | none => rw [ha] at hl h; simp only at hl; rw [hl]; exact h
        | some c =>
          rw [ha] at hl h; simp only at hl
          obtain ⟨c', hc', hrc⟩ := hl
          rw [hc']; exact hk _ _ _ _ _ _ hrc hf h hg
    | err e => simpa [stepBody] using h
    | fault => simpa [stepBody] using h
  | call s' l info =>
    simp only [stepBody] at h ⊢
    have hl := hlab l
    cases ha : afterLabel prog l with
    | none => rw [ha] at hl h; simp only at hl; rw [hl]; exact h
    | some c =>
      rw [ha] at hl h; simp only at hl
      obtain ⟨c', hc', hrc⟩ := hl
      rw [hc']; exact hk _ _ _ _ _ _ hrc (hpush _ _ _ _ _ hr hf) h hg
  | ret g =>
    simp only [stepBody] at h ⊢
    rcases hpop fr fr' hf with ⟨rfl, rfl⟩ | ⟨r0, r0', info, t, t', rfl, rfl, hrc, hrf⟩
    · exact h
    · simp only at h ⊢
      cases hgi : g info with
      | ok s' => rw [hgi] at h; simp only at h ⊢; exact hk _ _ _ _ _ _ hrc hrf h hg
      | err e => rw [hgi] at h; exact h
      | fault => rw [hgi] at h; exact h
  | halt s' => simpa [stepBody] using h

/-- more fuel does not change a finished run -/
theorem runG_mono (P : Prims H) (C : Ctrl H) (prog : List Line) (chk : Bool) :
    ∀ (f : Nat) (c : List Line) (fr : Frames) (s : St H) (out : Final H),
      runG P C prog chk f c fr s = out → out ≠ .timeout → runG P C prog chk (f + 1) c fr s = out := by
  intro f
  induction f with
  | zero => intro c fr s out h hne; simp [runG] at h; exact absurd h.symm hne
  | succ f ih =>
    intro c fr s out h hne
    cases c with
    | nil => simpa [runG] using h
    | cons l r =>
      cases l with
      | label l => simp only [runG] at h ⊢; exact ih _ _ _ _ h hne
      | instr i a =>
        simp only [runG, stepG] at h ⊢
        split
        · rename_i hc; simp only [hc, if_true] at h; exact h
        · rename_i hc; simp only [hc] at h
          refine stepBody_rel (Rc := Eq) (Rf := Eq) (G := fun o => o ≠ Final.timeout) prog prog _ _ ?_ ?_ ?_ ?_
            _ r r fr fr out rfl rfl h hne
          · intro l; cases afterLabel prog l with
            | none => rfl
            | some c => exact ⟨c, rfl, rfl⟩
          · intro c c' fr fr' s out hc hf hk hg; subst hc hf; exact ih _ _ _ _ hk hg
          · intro r r' info fr fr' h1 h2; subst h1 h2; rfl
          · intro fr fr' h1; subst h1
            cases fr with
            | nil => exact Or.inl ⟨rfl, rfl⟩
            | cons p t => exact Or.inr ⟨p.1, p.1, p.2, t, t, rfl, rfl, rfl, rfl⟩

theorem runG_mono_le (P : Prims H) (C : Ctrl H) (prog : List Line) (chk : Bool) (f g : Nat) (hle : f ≤ g)
    (c : List Line) (fr : Frames) (s : St H) (out : Final H)
    (h : runG P C prog chk f c fr s = out) (hne : out ≠ .timeout) : runG P C prog chk g c fr s = out := by
  induction hle with
  | refl => exact h
  | step _ ih => exact runG_mono P C prog chk _ c fr s out ih hne

theorem afterLabel_linesOf_append (w : List (Instr × Ann)) (ls : List Line) (l : String) :
    afterLabel (linesOf w ++ ls) l = afterLabel ls l := by
  induction w with
  | nil => rfl
  | cons p w ih => simpa [linesOf, afterLabel] using ih

theorem afterLabel_out_append (out : List Instr) (a : Ann) (ls : List Line) (l : String) :
    afterLabel (out.map (fun i => Line.instr i a) ++ ls) l = afterLabel ls l := by
  induction out with
  | nil => rfl
  | cons i out ih => simpa [afterLabel] using ih

/-- a label names related continuations in a program and in its pass image -/
theorem afterLabel_passRel (env : FoldEnv) (ls r : List Line) (h : PassRel env ls r) (l : String) :
    match afterLabel ls l with
    | none => afterLabel r l = none
    | some c => ∃ c', afterLabel r l = some c' ∧ PassRel env c c' := by
  induction h with
  | nil => simp [afterLabel]
  | keep x ls r hrel ih =>
    cases x with
    | label l' =>
      by_cases e : l' = l
      · simp [afterLabel, e]; exact hrel
      · simpa [afterLabel, e] using ih
    | instr i a => simpa [afterLabel] using ih
  | rewrite w out a ls r _ _ _ ih =>
    rw [afterLabel_linesOf_append, afterLabel_out_append]; exact ih

def isOther : Instr → Bool
  | .other _ => true
  | _ => false

theorem stepOf_known (P : Prims H) (C : Ctrl H) (i : Instr) (s : St H) (h : isOther i = false) :
    stepOf P C i s = .plain (exec P i s) := by
  cases i <;> first | rfl | simp [isOther] at h

theorem isOther_replaceSecondArg (i : Instr) (r : Reg) : isOther (replaceSecondArg i r) = isOther i := by
  cases i <;> rfl
theorem isOther_replaceFirstArg (i : Instr) (r : Reg) : isOther (replaceFirstArg i r) = isOther i := by
  cases i <;> rfl
theorem isOther_replaceDest (i : Instr) (r : Reg) : isOther (replaceDest i r) = isOther i := by
  cases i <;> rfl
theorem isOther_replaceSecondArgImmInt (i : Instr) (n : Int) (h : isOther i = false) :
    isOther (replaceSecondArgImmInt i n) = false := by
  cases i <;> first | rfl | simp [isOther] at h
theorem isOther_replaceSecondArgImmFloat (i : Instr) (f : String) (h : isOther i = false) :
    isOther (replaceSecondArgImmFloat i f) = false := by
  cases i <;> first | rfl | simp [isOther] at h
theorem not_other_of_secondArgIsTop (i : Instr) (h : secondArgIsTop i = true) : isOther i = false := by
  cases i <;> first | rfl | simp [secondArgIsTop] at h
theorem not_other_of_firstArg (i : Instr) (h : firstArgIsTopAndSecondArgIsOffsetOrImm i = true) :
    isOther i = false := by
  cases i <;> first | rfl | simp [firstArgIsTopAndSecondArgIsOffsetOrImm] at h
theorem not_other_of_destIsTop (i : Instr) (h : destIsTop i = true) : isOther i = false := by
  cases i <;> first | rfl | simp [destIsTop] at h

/-- a fired window consists of known instructions, and its replacement is empty or one known instruction -/
def OutOk (out : List Instr) : Prop := out = [] ∨ ∃ j, out = [j] ∧ isOther j = false

theorem guarded_facts (i1 i2 : Instr) (out : List Instr) (h : peephole2Guarded i1 i2 = .replace out) :
    isOther i1 = false ∧ isOther i2 = false ∧ OutOk out := by
  unfold peephole2Guarded at h
  cases hl : loadOffsetOf i1 with
  | some off =>
    have := loadOffsetOf_some i1 off hl; subst this
    simp only [hl] at h
    by_cases h1 : (secondArgIsTop i2 && offsetIsEncodable off) = true
    · simp only [h1, if_true] at h
      cases h
      simp only [Bool.and_eq_true] at h1
      have hn := not_other_of_secondArgIsTop i2 h1.1
      exact ⟨rfl, hn, Or.inr ⟨_, rfl, by rw [isOther_replaceSecondArg]; exact hn⟩⟩
    · simp only [h1] at h
      by_cases h2 : (firstArgIsTopAndSecondArgIsOffsetOrImm i2 && offsetIsEncodable off) = true
      · simp only [h2, if_true] at h
        simp at h
        cases h
        simp only [Bool.and_eq_true] at h2
        have hn := not_other_of_firstArg i2 h2.1
        exact ⟨rfl, hn, Or.inr ⟨_, rfl, by rw [isOther_replaceFirstArg]; exact hn⟩⟩
      · simp [h2] at h
  | none =>
    simp only [hl] at h
    cases hs : storeOffsetOf i2 with
    | some off =>
      have := storeOffsetOf_some i2 off hs; subst this
      simp only [hs] at h
      by_cases h1 : (destIsTop i1 && offsetIsEncodable off) = true
      · simp only [h1, if_true] at h
        cases h
        simp only [Bool.and_eq_true] at h1
        have hn := not_other_of_destIsTop i1 h1.1
        exact ⟨hn, rfl, Or.inr ⟨_, rfl, by rw [isOther_replaceDest]; exact hn⟩⟩
      · simp [h1] at h
    | none =>
      simp only [hs] at h
      cases hi : pushIntOf i1 with
      | some n =>
        have := pushIntOf_some i1 n hi; subst this
        simp only [hi] at h
        by_cases h1 : (secondArgIsTop i2 && canReplaceSecondArgWithImmInt i2) = true
        · simp only [h1, if_true] at h
          cases h
          simp only [Bool.and_eq_true] at h1
          have hn := not_other_of_secondArgIsTop i2 h1.1
          exact ⟨rfl, hn, Or.inr ⟨_, rfl, isOther_replaceSecondArgImmInt i2 n hn⟩⟩
        · simp [h1] at h
      | none =>
        simp only [hi] at h
        cases hf : pushFloatOf i1 with
        | some f =>
          have := pushFloatOf_some i1 f hf; subst this
          simp only [hf] at h
          by_cases h1 : (secondArgIsTop i2 && canReplaceSecondArgWithImmFloat i2) = true
          · simp only [h1, if_true] at h
            cases h
            simp only [Bool.and_eq_true] at h1
            have hn := not_other_of_secondArgIsTop i2 h1.1
            exact ⟨rfl, hn, Or.inr ⟨_, rfl, isOther_replaceSecondArgImmFloat i2 f hn⟩⟩
          · simp [h1] at h
        | none => simp [hf] at h

theorem fires_facts (env : FoldEnv) (w out : List Instr) (h : Fires env w out) :
    (∀ i ∈ w, isOther i = false) ∧ OutOk out := by
  cases h with
  | one i out h1 =>
    unfold peephole1 at h1
    split at h1
    · cases h1; exact ⟨by simp [isOther], Or.inl rfl⟩
    · cases h1
  | two i1 i2 out h2 =>
    unfold peephole2 at h2
    split at h2
    case h_13 => 
      obtain ⟨a, b, c⟩ := guarded_facts _ _ out h2
      exact ⟨by simp [a, b], c⟩
    all_goals first
      | (split at h2 <;> cases h2 <;> exact ⟨by simp [isOther], Or.inr ⟨_, rfl, rfl⟩⟩)
      | (cases h2; exact ⟨by simp [isOther], Or.inl rfl⟩)
      | (cases h2; exact ⟨by simp [isOther], Or.inr ⟨_, rfl, rfl⟩⟩)
  | three i1 i2 i3 out h3 =>
    unfold peephole3 at h3
    split at h3
    · split at h3
      · cases h3; exact ⟨by simp [isOther], Or.inr ⟨_, rfl, rfl⟩⟩
      · cases h3
    · split at h3
      · split at h3
        · cases h3
        · split at h3
          · cases h3; exact ⟨by simp [isOther], Or.inr ⟨_, rfl, rfl⟩⟩
          · cases h3
          · cases h3
      · cases h3
    · cases h3

theorem secondOffset_eq (i : Instr) : secondOffset i = secondOffsetOf i := by
  cases i <;> first | rfl | (rename_i r; cases r <;> rfl) | (rename_i r1 r2; cases r2 <;> rfl)

theorem winOk_of_B (s : St H) (i1 i2 : Instr) (h : winOkB s i1 i2 = true) : WinOk s i1 i2 := by
  unfold winOkB at h
  simp only [Bool.and_eq_true] at h
  constructor
  · intro hd; subst hd
    have := h.1
    intro hs; simp [hs] at this
  · intro x y hx h2 hy
    subst hx
    have := h.2
    rw [secondOffset_eq] at hy
    simp only [hy, h2, Bool.false_or] at this
    intro hc
    simp [hc] at this

/-- what a finished run through a window of known instructions looks like, in terms of the block
    semantics of the window -/
def WinPost (P : Prims H) (C : Ctrl H) (prog : List Line) (chk : Bool) (n f : Nat) (ls : List Line)
    (fr : Frames) (out : Final H) : Res (St H × Ctl) → Prop
  | .ok (s1, .next) => ∃ f', f' + n ≤ f ∧ runG P C prog chk f' ls fr s1 = out
  | .ok (s1, .jump l) => ∃ f', f' < f ∧
      match afterLabel prog l with
      | some r' => runG P C prog chk f' r' fr s1 = out
      | none => out = .badJump l
  | .err e => out = .err e
  | .fault => out = .fault

theorem WinPost_succ (P : Prims H) (C : Ctrl H) (prog : List Line) (chk : Bool) (n f : Nat) (ls : List Line)
    (fr : Frames) (out : Final H) (res : Res (St H × Ctl)) (h : WinPost P C prog chk n f ls fr out res) :
    WinPost P C prog chk (n + 1) (f + 1) ls fr out res := by
  cases res with
  | ok x =>
    obtain ⟨s1, c⟩ := x
    cases c with
    | next => obtain ⟨f', h1, h2⟩ := h; exact ⟨f', by omega, h2⟩
    | jump l => obtain ⟨f', h1, h2⟩ := h; exact ⟨f', by omega, h2⟩
  | err e => exact h
  | fault => exact h

theorem runG_window (P : Prims H) (C : Ctrl H) (prog : List Line) (chk : Bool) (w : List (Instr × Ann)) :
    (∀ p ∈ w, isOther p.1 = false) →
    ∀ (f : Nat) (ls : List Line) (fr : Frames) (s : St H) (out : Final H),
      runG P C prog chk f (linesOf w ++ ls) fr s = out → out ≠ .timeout → out ≠ .sideFail →
      WinPost P C prog chk w.length f ls fr out (run P (w.map (·.1)) s) := by
  induction w with
  | nil => intro _ f ls fr s out h _ _; exact ⟨f, by simp, by simpa [linesOf] using h⟩
  | cons p w ih =>
    intro hk f ls fr s out h hne hns
    have hp : isOther p.1 = false := hk p (by simp)
    have hk' : ∀ q ∈ w, isOther q.1 = false := fun q hq => hk q (by simp [hq])
    cases f with
    | zero => simp [runG] at h; exact absurd h.symm hne
    | succ f =>
      simp only [linesOf, List.map_cons, List.cons_append, runG, stepG] at h
      split at h
      · exact absurd h.symm hns
      · rw [stepOf_known P C p.1 s hp] at h
        simp only [List.map_cons, List.length_cons, run_cons]
        cases he : exec P p.1 s with
        | ok x =>
          obtain ⟨s', c⟩ := x
          rw [he] at h
          cases c with
          | next =>
            simp only [stepBody] at h
            simp only [Res.bind_ok]
            exact WinPost_succ _ _ _ _ _ _ _ _ _ _ (ih hk' f ls fr s' out h hne hns)
          | jump l =>
            simp only [stepBody] at h
            simp only [Res.bind_ok]
            refine ⟨f, by omega, ?_⟩
            cases ha : afterLabel prog l with
            | none => rw [ha] at h; exact h.symm
            | some r' => rw [ha] at h; exact h
        | err e => rw [he] at h; simp only [stepBody] at h; simpa [WinPost] using h.symm
        | fault => rw [he] at h; simp only [stepBody] at h; simpa [WinPost] using h.symm

theorem runG_chk_pair (P : Prims H) (C : Ctrl H) (prog : List Line) (f : Nat) (i1 i2 : Instr) (a1 a2 : Ann)
    (ls : List Line) (fr : Frames) (s : St H) (out : Final H)
    (h : runG P C prog true f (.instr i1 a1 :: .instr i2 a2 :: ls) fr s = out)
    (hne : out ≠ .timeout) (hns : out ≠ .sideFail) : winOkB s i1 i2 = true := by
  cases f with
  | zero => simp [runG] at h; exact absurd h.symm hne
  | succ f =>
    simp only [runG, stepG, nextPairOk, Bool.true_and] at h
    cases hb : winOkB s i1 i2 with
    | true => rfl
    | false => simp [hb] at h; exact absurd h.symm hns

inductive FramesRel (env : FoldEnv) : Frames → Frames → Prop where
  | nil : FramesRel env [] []
  | cons (r r' : List Line) (info : List Nat) (fr fr' : Frames) :
      PassRel env r r' → FramesRel env fr fr' → FramesRel env ((r, info) :: fr) ((r', info) :: fr')

theorem map_fst_eq_pair (w : List (Instr × Ann)) (i1 i2 : Instr) (h : w.map (·.1) = [i1, i2]) :
    ∃ a1 a2, w = [(i1, a1), (i2, a2)] := by
  cases w with
  | nil => simp at h
  | cons p w =>
    cases w with
    | nil => simp at h
    | cons q w =>
      cases w with
      | nil =>
        obtain ⟨x, a1⟩ := p
        obtain ⟨y, a2⟩ := q
        simp only [List.map_cons, List.map_nil, List.cons.injEq, and_true] at h
        obtain ⟨rfl, rfl⟩ := h
        exact ⟨a1, a2, rfl⟩
      | cons _ _ => simp at h

theorem fires_length (env : FoldEnv) (w out : List Instr) (h : Fires env w out) : 1 ≤ w.length := by
  cases h <;> simp

/-- **Simulation for one pass.**  From related continuations (a suffix of the program and the matching
    suffix of its pass image) with related call stacks and the SAME machine state, every finished run of
    the original that meets the side conditions is a run of the image with the same final outcome
    (halt state, runtime error, fault), within the same fuel — through jumps to labels, calls that push
    return continuations, and returns that pop them. -/
theorem sim_pass (P : Prims H) (C : Ctrl H) (env : FoldEnv) (hag : EnvAgrees P env) (hrt : RoundTrip P)
    (prog prog' : List Line) (hprog : PassRel env prog prog') :
    ∀ (f : Nat) (c c' : List Line) (fr fr' : Frames) (s : St H) (out : Final H),
      PassRel env c c' → FramesRel env fr fr' →
      runG P C prog true f c fr s = out → out ≠ .timeout → out ≠ .sideFail →
      runG P C prog' false f c' fr' s = out := by
  intro f
  induction f using Nat.strongRecOn with
  | _ f ih =>
    intro c c' fr fr' s out hrel hfr h hne hns
    cases hrel with
    | nil =>
      cases f with
      | zero => exact h
      | succ f => simpa [runG] using h
    | keep x ls r hrel' =>
      cases f with
      | zero => simp [runG] at h; exact absurd h.symm hne
      | succ f =>
        cases x with
        | label l => simp only [runG] at h ⊢; exact ih f (by omega) _ _ _ _ _ _ hrel' hfr h hne hns
        | instr i a =>
          simp only [runG, stepG] at h ⊢
          split at h
          · exact absurd h.symm hns
          · simp only [Bool.false_and, Bool.false_eq_true, if_false]
            refine stepBody_rel (Rc := PassRel env) (Rf := FramesRel env)
              (G := fun o => o ≠ Final.timeout ∧ o ≠ Final.sideFail) prog prog' _ _
              (afterLabel_passRel env prog prog' hprog) ?_ ?_ ?_ _ ls r fr fr' out hrel' hfr h ⟨hne, hns⟩
            · intro c c' fr fr' s out hc hf hk hg
              exact ih f (by omega) _ _ _ _ _ _ hc hf hk hg.1 hg.2
            · intro r r' info fr fr' h1 h2; exact .cons _ _ _ _ _ h1 h2
            · intro fr fr' h1
              cases h1 with
              | nil => exact Or.inl ⟨rfl, rfl⟩
              | cons r r' info t t' h2 h3 => exact Or.inr ⟨r, r', info, t, t', rfl, rfl, h2, h3⟩
    | rewrite w o a ls r hf ha hrel' =>
      obtain ⟨hknown, hout⟩ := fires_facts env _ _ hf
      have hknown' : ∀ p ∈ w, isOther p.1 = false := fun p hp => hknown p.1 (List.mem_map_of_mem hp)
      have hlen : 1 ≤ w.length := by have := fires_length env _ _ hf; simpa using this
      have hf0 : f ≠ 0 := by
        intro e; subst e; simp [runG] at h; exact absurd h.symm hne
      have hpost := runG_window P C prog true w hknown' f ls fr s out h hne hns
      have hsound : run P (w.map (·.1)) s = run P o s := by
        apply C05_fires_sound P env hag hrt _ _ hf s
        intro i1 i2 hw2
        obtain ⟨a1, a2, hw⟩ := map_fst_eq_pair w i1 i2 hw2
        subst hw
        exact winOk_of_B s _ _ (runG_chk_pair P C prog f i1 i2 a1 a2 ls fr s out h hne hns)
      rw [hsound] at hpost
      rcases hout with rfl | ⟨j, rfl, hj⟩
      · -- the window disappears
        simp only [run_nil] at hpost
        obtain ⟨f', hle, hrun⟩ := hpost
        have := ih f' (by omega) _ _ _ _ _ _ hrel' hfr hrun hne hns
        simpa using runG_mono_le P C prog' false f' f (by omega) r fr' s out this hne
      · -- the window becomes one known instruction
        simp only [List.map_cons, List.map_nil, List.cons_append, List.nil_append]
        rw [run_single] at hpost
        have hstep : ∀ f', runG P C prog' false (f' + 1) (.instr j a :: r) fr' s =
            stepBody prog' (runG P C prog' false f') (.plain (exec P j s)) r fr' := by
          intro f'; simp [runG, stepG, stepOf_known P C j s hj]
        cases he : exec P j s with
        | ok x =>
          obtain ⟨s1, c⟩ := x
          rw [he] at hpost
          cases c with
          | next =>
            obtain ⟨f', hle, hrun⟩ := hpost
            have h1 := ih f' (by omega) _ _ _ _ _ _ hrel' hfr hrun hne hns
            have h2 : runG P C prog' false (f' + 1) (.instr j a :: r) fr' s = out := by
              rw [hstep, he]; simpa [stepBody] using h1
            exact runG_mono_le P C prog' false (f' + 1) f (by omega) _ fr' s out h2 hne
          | jump l =>
            obtain ⟨f', hlt, hrun⟩ := hpost
            have hl := afterLabel_passRel env prog prog' hprog l
            have h2 : runG P C prog' false (f' + 1) (.instr j a :: r) fr' s = out := by
              rw [hstep, he]
              simp only [stepBody]
              cases hal : afterLabel prog l with
              | none => rw [hal] at hl hrun; simp only at hl; rw [hl]; exact hrun.symm
              | some r0 =>
                rw [hal] at hl hrun; simp only at hl
                obtain ⟨r0', h0, hr0⟩ := hl
                rw [h0]
                exact ih f' (by omega) _ _ _ _ _ _ hr0 hfr hrun hne hns
            exact runG_mono_le P C prog' false (f' + 1) f (by omega) _ fr' s out h2 hne
        | err e =>
          rw [he] at hpost
          have h2 : runG P C prog' false (0 + 1) (.instr j a :: r) fr' s = out := by
            rw [hstep, he]; simpa [stepBody, WinPost] using hpost.symm
          exact runG_mono_le P C prog' false 1 f (by omega) _ fr' s out h2 hne
        | fault =>
          rw [he] at hpost
          have h2 : runG P C prog' false (0 + 1) (.instr j a :: r) fr' s = out := by
            rw [hstep, he]; simpa [stepBody, WinPost] using hpost.symm
          exact runG_mono_le P C prog' false 1 f (by omega) _ fr' s out h2 hne

/-- **A pass is sound on whole programs.**  Started at the first line with an empty call stack in ANY
    state, every finished run of the original program that meets the side conditions is a run of the
    pass image with the same final outcome, within the same fuel. -/
theorem C05_pass_sound (P : Prims H) (C : Ctrl H) (env : FoldEnv) (hag : EnvAgrees P env) (hrt : RoundTrip P)
    (prog prog' : List Line) (h : pass env prog = .ok prog') (f : Nat) (s : St H) (out : Final H)
    (hrun : runG P C prog true f prog [] s = out) (hne : out ≠ .timeout) (hns : out ≠ .sideFail) :
    runG P C prog' false f prog' [] s = out :=
  have hrel := C05_pass_segments env prog prog' h
  sim_pass P C env hag hrt prog prog' hrel f prog prog' [] [] s out hrel .nil hrun hne hns

/-- the same for a thread that starts at a label (a task body, a function called from the host) -/
theorem C05_pass_sound_at_label (P : Prims H) (C : Ctrl H) (env : FoldEnv) (hag : EnvAgrees P env)
    (hrt : RoundTrip P) (prog prog' : List Line) (h : pass env prog = .ok prog') (l : String)
    (c : List Line) (hl : afterLabel prog l = some c) :
    ∃ c', afterLabel prog' l = some c' ∧ ∀ (f : Nat) (s : St H) (out : Final H),
      runG P C prog true f c [] s = out → out ≠ .timeout → out ≠ .sideFail →
      runG P C prog' false f c' [] s = out := by
  have hrel := C05_pass_segments env prog prog' h
  have := afterLabel_passRel env prog prog' hrel l
  rw [hl] at this
  obtain ⟨c', hc', hcc⟩ := this
  exact ⟨c', hc', fun f s out hrun hne hns =>
    sim_pass P C env hag hrt prog prog' hrel f c c' [] [] s out hcc .nil hrun hne hns⟩

/-- the side-condition check only ever turns an outcome into `sideFail` -/
theorem runG_drop_chk (P : Prims H) (C : Ctrl H) (prog : List Line) :
    ∀ (f : Nat) (c : List Line) (fr : Frames) (s : St H) (out : Final H),
      runG P C prog true f c fr s = out → out ≠ .sideFail → runG P C prog false f c fr s = out := by
  intro f
  induction f with
  | zero => intro c fr s out h _; simpa [runG] using h
  | succ f ih =>
    intro c fr s out h hns
    cases c with
    | nil => simpa [runG] using h
    | cons x r =>
      cases x with
      | label l => simp only [runG] at h ⊢; exact ih _ _ _ _ h hns
      | instr i a =>
        simp only [runG, stepG] at h ⊢
        split at h
        · exact absurd h.symm hns
        · simp only [Bool.false_and, Bool.false_eq_true, if_false]
          refine stepBody_rel (Rc := Eq) (Rf := Eq) (G := fun o => o ≠ Final.sideFail) prog prog _ _ ?_ ?_ ?_ ?_
            _ r r fr fr out rfl rfl h hns
          · intro l; cases afterLabel prog l with
            | none => rfl
            | some c => exact ⟨c, rfl, rfl⟩
          · intro c c' fr fr' s out hc hf hk hg; subst hc hf; exact ih _ _ _ _ hk hg
          · intro r r' info fr fr' h1 h2; subst h1 h2; rfl
          · intro fr fr' h1; subst h1
            cases fr with
            | nil => exact Or.inl ⟨rfl, rfl⟩
            | cons p t => exact Or.inr ⟨p.1, p.1, p.2, t, t, rfl, rfl, rfl, rfl⟩

/-- `n` passes in a row -/
def iterPass (env : FoldEnv) : Nat → List Line → Option (List Line)
  | 0, p => some p
  | n + 1, p =>
    match pass env p with
    | .ok q => iterPass env n q
    | _ => none

theorem optimizeLoop_iter (env : FoldEnv) : ∀ (fuel : Nat) (ls r : List Line),
    optimizeLoop env fuel ls = .ok r → ∃ n, iterPass env n ls = some r := by
  intro fuel
  induction fuel with
  | zero => intro ls r h; simp [optimizeLoop] at h; subst h; exact ⟨0, rfl⟩
  | succ f ih =>
    intro ls r h
    simp only [optimizeLoop] at h
    cases hp : pass env ls with
    | ok p =>
      rw [hp] at h
      simp only at h
      by_cases hlt : p.length < ls.length
      · simp only [hlt, if_true] at h
        obtain ⟨n, hn⟩ := ih _ _ h
        exact ⟨n + 1, by simp [iterPass, hp, hn]⟩
      · simp only [hlt, if_false] at h
        cases h
        exact ⟨1, by simp [iterPass, hp]⟩
    | needFold => rw [hp] at h; cases h

theorem iterPass_sound (P : Prims H) (C : Ctrl H) (env : FoldEnv) (hag : EnvAgrees P env) (hrt : RoundTrip P)
    (f : Nat) (s : St H) (out : Final H) (hne : out ≠ .timeout) :
    ∀ (n : Nat) (prog prog' : List Line), iterPass env n prog = some prog' →
      (∀ m mid, iterPass env m prog = some mid → runG P C mid true f mid [] s ≠ .sideFail) →
      runG P C prog false f prog [] s = out → runG P C prog' false f prog' [] s = out := by
  intro n
  induction n with
  | zero => intro prog prog' h _ hrun; simp [iterPass] at h; subst h; exact hrun
  | succ n ih =>
    intro prog prog' h hside hrun
    simp only [iterPass] at h
    cases hp : pass env prog with
    | ok q =>
      rw [hp] at h
      simp only at h
      have hs0 := hside 0 prog rfl
      have htrue : runG P C prog true f prog [] s = out := by
        have := runG_drop_chk P C prog f prog [] s _ rfl hs0
        rw [← this]; exact hrun
      have hq := C05_pass_sound P C env hag hrt prog q hp f s out htrue hne (by rw [← htrue]; exact hs0)
      exact ih q prog' h (fun m mid hm => hside (m + 1) mid (by simp [iterPass, hp, hm])) hq
    | needFold => rw [hp] at h; cases h

/-- **The optimizer is sound on whole programs.**  If `optimize` turns `prog` into `prog'`, then from the
    first line, an empty call stack and ANY machine state, every finished run of `prog` is a run of
    `prog'` with the same final outcome — the same state at `Stop` (stack, base, heap: hence everything the
    opaque instructions did, in the same order, to the heap and the host), the same runtime error, or a
    fault — provided the checked run (same fuel, same start state) of the original and of EVERY iterate
    `iterPass env m prog` (all m for which it is defined — this includes the intermediate programs of the
    fixpoint iteration and also iterates past the fixpoint) does not end in `sideFail`, i.e. the two side
    conditions hold wherever those runs reach an adjacent instruction pair before they finish.  Control passes through
    jumps to labels, calls pushing return continuations and returns popping them; code addresses are
    symbolic (labels / return continuations).
    Not covered: the converse direction (that a run of `prog'` comes from a run of `prog`; needed for
    "the optimized program diverges only if the original does"), several green threads, and the
    resolution of labels to numeric addresses (`remove_labels_and_constants`). -/
theorem C05_optimize_sound (P : Prims H) (C : Ctrl H) (env : FoldEnv) (hag : EnvAgrees P env) (hrt : RoundTrip P)
    (prog prog' : List Line) (h : optimize env prog = .ok prog') (f : Nat) (s : St H) (out : Final H)
    (hside : ∀ m mid, iterPass env m prog = some mid → runG P C mid true f mid [] s ≠ .sideFail)
    (hrun : runG P C prog false f prog [] s = out) (hne : out ≠ .timeout) :
    runG P C prog' false f prog' [] s = out := by
  obtain ⟨n, hn⟩ := optimizeLoop_iter env _ prog prog' h
  exact iterPass_sound P C env hag hrt f s out hne n prog prog' hn hside hrun

/-! Non-vacuity: a concrete environment agreeing with concrete primitives, and a program on which the
    optimizer fires rules of all three window sizes. -/
def exPrims : Prims Unit where
  fbin := fun _ a b => a + b
  fcmp := fun _ a b => a < b
  atan2 := fun a _ => a
  parse := fun s => s.length.toUInt64
  toStr := fun x => String.ofList (List.replicate x.toNat 'x')
  strConst := fun _ => .obj 0 0
  un := fun _ v h => .ok (v, h)
  arrayPush := fun _ _ h => .ok h
  getIndex := fun _ _ _ => .err .oob
  setIndex := fun _ _ _ h => .ok h
  getField := fun _ v _ => .ok v
  setField := fun _ _ _ h => .ok h
  other := fun _ s => .ok (s, .next)

def exEnv : FoldEnv where
  foldF := fun op a b => some (if isNaNF (exPrims.fbin op (exPrims.parse a) (exPrims.parse b)) then none
    else some (exPrims.toStr (exPrims.fbin op (exPrims.parse a) (exPrims.parse b))))
  isZeroLit := fun b => isZeroF (exPrims.parse b)

example : EnvAgrees exPrims exEnv := ⟨fun _ _ _ => rfl, fun _ => rfl⟩

def exProg : List Line :=
  [.instr (.pushNil 0) ⟨0, 1, 0⟩, .instr (.pushInt 2) ⟨0, 1, 0⟩, .instr (.pushInt 3) ⟨0, 1, 0⟩,
   .instr (.binI .add .top .top .top) ⟨0, 1, 0⟩, .instr (.storeOffset 0) ⟨0, 1, 0⟩, .label "l",
   .instr (.loadOffset 0) ⟨0, 2, 0⟩, .instr (.pushInt 1) ⟨0, 2, 0⟩, .instr (.binI .lt .top .top .top) ⟨0, 2, 0⟩,
   .instr (.un .not .top .top) ⟨0, 2, 0⟩, .instr (.jumpIf "l") ⟨0, 2, 0⟩]

example : optimize exEnv exProg = .ok
    [.instr (.storeOffsetImm 0 5) ⟨0, 1, 0⟩, .label "l",
     .instr (.binIImm .lt .top (.off 0) 1) ⟨0, 2, 0⟩, .instr (.jumpIfFalse "l") ⟨0, 2, 0⟩] := by
  decide +kernel

example : WinOk (⟨[.int 1], 0, ()⟩ : St Unit) (.loadOffset 0) (.binIImm .lt .top .top 1) :=
  ⟨fun h => (by cases h), fun x y _ _ h => (by simp [secondOffset] at h)⟩

/-- non-vacuity of the whole-program theorems: a program with a call, a return, a loop-free jump and a
    halt runs to `Stop` under the checked semantics (so it is neither `timeout` nor `sideFail`), and its
    optimized image halts in the same state -/
def exCtrl : Ctrl Unit where
  classify := fun t s =>
    if t = "Call(f)" then .call s "f" [s.base]
    else if t = "Return" then .ret (fun info => .ok { s with base := info.headD 0 })
    else if t = "Stop" then .halt s
    else .plain (.ok (s, .next))

def exProg2 : List Line :=
  [.instr (.pushInt 2) ⟨0, 1, 0⟩, .instr (.pushInt 3) ⟨0, 1, 0⟩, .instr (.binI .add .top .top .top) ⟨0, 1, 0⟩,
   .instr (.other "Call(f)") ⟨0, 2, 0⟩, .instr (.pushBool true) ⟨0, 3, 0⟩, .instr (.jumpIf "end") ⟨0, 3, 0⟩,
   .instr (.pushInt 99) ⟨0, 4, 0⟩, .label "end", .instr (.other "Stop") ⟨0, 5, 0⟩,
   .label "f", .instr (.pushInt 1) ⟨0, 7, 1⟩, .instr (.binI .add .top .top .top) ⟨0, 7, 1⟩,
   .instr (.other "Return") ⟨0, 8, 1⟩]

def haltedWith (stack : List Val) : Final Unit → Bool
  | .halted s => decide (s.stack = stack)
  | _ => false

example : haltedWith [.int 6] (runG exPrims exCtrl exProg2 true 20 exProg2 [] ⟨[], 0, ()⟩) = true := by
  decide +kernel

example : optimize exEnv exProg2 = .ok
    [.instr (.pushInt 5) ⟨0, 1, 0⟩, .instr (.other "Call(f)") ⟨0, 2, 0⟩, .instr (.jump "end") ⟨0, 3, 0⟩,
     .instr (.pushInt 99) ⟨0, 4, 0⟩, .label "end", .instr (.other "Stop") ⟨0, 5, 0⟩,
     .label "f", .instr (.binIImm .add .top .top 1) ⟨0, 7, 1⟩, .instr (.other "Return") ⟨0, 8, 1⟩] := by
  decide +kernel

example : haltedWith [.int 6] (runG exPrims exCtrl
    [.instr (.pushInt 5) ⟨0, 1, 0⟩, .instr (.other "Call(f)") ⟨0, 2, 0⟩, .instr (.jump "end") ⟨0, 3, 0⟩,
     .instr (.pushInt 99) ⟨0, 4, 0⟩, .label "end", .instr (.other "Stop") ⟨0, 5, 0⟩,
     .label "f", .instr (.binIImm .add .top .top 1) ⟨0, 7, 1⟩, .instr (.other "Return") ⟨0, 8, 1⟩] false 20
    [.instr (.pushInt 5) ⟨0, 1, 0⟩, .instr (.other "Call(f)") ⟨0, 2, 0⟩, .instr (.jump "end") ⟨0, 3, 0⟩,
     .instr (.pushInt 99) ⟨0, 4, 0⟩, .label "end", .instr (.other "Stop") ⟨0, 5, 0⟩,
     .label "f", .instr (.binIImm .add .top .top 1) ⟨0, 7, 1⟩, .instr (.other "Return") ⟨0, 8, 1⟩]
    [] ⟨[], 0, ()⟩) = true := by
  decide +kernel

end Abra.Opt
