import AbraProofs.Lemmas.Lex
/-!
# C30 — literals denote exactly the values they spell

Model: `Abra.Lex` (`AbraModel/Lex.lean`: `lexNum` = `handle_num`, `intLiteral` = the parser's
`parse::<i64>()` with the sign folded in, `processEscapes`, `scanDelim`, `lexQuoted`, `lexTriple`),
specification side: `Abra.Lex.escape`/`spellQuoted` (`AbraModel/Literals.lean`, the generator's printer).

* `C30_int_literal_roundtrip` — every 64-bit integer, spelled in decimal with `_` anywhere after the
  first digit (also doubled or trailing), lexes to one `IntLit` token carrying exactly its digits and
  the parser turns it into that integer; `i64::MIN` through the negation path.
* `C30_int_literal_value` — any digit string (leading zeros too) denotes its decimal value or is
  rejected: never a wrapped value.  `C30_int_literal_out_of_range` — out of range ⇒ diagnostic.
* `C30_escape_roundtrip` — `processEscapes (escape q s) = s` with no diagnostic, for every string
  over all of Unicode and each quote style.
* `C30_scan_finds_close` — on a printed literal the closing quote found is the one the printer wrote
  (the first unescaped one); `C30_quoted_roundtrip` — hence `'…'`/`"…"` literals lex to `s` and are
  consumed exactly.
* `C30_minIndent_is_min`, `C30_dropCols_spec`, `C30_assemble_each_line` — for arbitrary per-line mixes of
  spaces and tabs: the common indentation is the minimum of the flat measure (space 1, tab 4) over the
  non-blank lines, stripping removes leading blanks counted the same way and nothing else, and the
  text is every line minus that prefix, joined by `\n`.
* `C30_strip_spec` — a triple-quoted literal in block form denotes its lines with exactly the common
  indentation (spaces and/or tabs) removed, joined by `\n` (`C30_strip_spec_partial` is the stage
  after line collection).
Float literals: the payload is the spelling without `_` (`C30_float_literal_token`); its value is
`parse::<f64>` of that text (trusted, checked by the correspondence only).
-/
namespace Abra.Lex

def I64_MIN_ABS : Nat := 9223372036854775808

/-- a spelling of the digit string `ds`: its digits in order, with `_` interspersed, starting with a digit -/
def NumSpelling (ds sp : List Char) : Prop :=
  sp.all isNumChar = true ∧ sp.filter isDigit = ds ∧ ∃ c cs, sp = c :: cs ∧ isDigit c = true

theorem lexOne_int {sp rest : List Char} {ds : List Char} (hs : NumSpelling ds sp) (hr : NumEnd rest) :
    lexOne (sp ++ rest) = punct (.intLit ds) sp.length := by
  obtain ⟨hall, hds, c, cs, rfl, hc⟩ := hs
  have hl := lexNum_int (c :: cs) rest hall hr
  have hns := digit_not_identStart c hc
  simp only [List.cons_append] at hl ⊢
  unfold lexOne
  simp only [hns, hc, if_true]
  simp [hl, hds]

/-- **Integers.** For every `v` in the `i64` range: any spelling of the decimal digits of `|v|` with
    `_` separators is one `IntLit` token with exactly those digits, consumed completely, and the
    parser (`-` folded in for negative `v`) yields `v` — including `v = i64::MIN`. -/
theorem C30_int_literal_roundtrip (v : Int) (hlo : -(I64_MIN_ABS : Int) ≤ v) (hhi : v ≤ (I64_MAX : Int))
    (sp rest : List Char) (hs : NumSpelling (Nat.toDigits 10 v.natAbs) sp) (hr : NumEnd rest) :
    lexOne (sp ++ rest) = punct (.intLit (Nat.toDigits 10 v.natAbs)) sp.length ∧
    intLiteral (decide (v < 0)) (Nat.toDigits 10 v.natAbs) = some v := by
  refine ⟨lexOne_int hs hr, ?_⟩
  unfold intLiteral
  have hne : (Nat.toDigits 10 v.natAbs).isEmpty = false := by
    cases h : Nat.toDigits 10 v.natAbs with
    | nil => exact absurd h Nat.toDigits_ne_nil
    | cons _ _ => rfl
  simp only [hne, digitsVal_toDigits]
  unfold I64_MIN_ABS I64_MAX at *
  by_cases hneg : v < 0
  · simp only [hneg, decide_true, if_true]
    have : v.natAbs ≤ 9223372036854775807 + 1 := by omega
    simp [this]; omega
  · simp only [hneg, decide_false]
    have : v.natAbs ≤ 9223372036854775807 := by omega
    simp [this]; omega

/-- Any digit string denotes its decimal value, with the sign, or is rejected — never something else. -/
theorem C30_int_literal_value (neg : Bool) (ds : List Char) (v : Int) (h : intLiteral neg ds = some v) :
    v = (if neg then -(digitsVal ds : Int) else (digitsVal ds : Int)) ∧
      -(I64_MIN_ABS : Int) ≤ v ∧ v ≤ (I64_MAX : Int) := by
  unfold intLiteral at h
  unfold I64_MIN_ABS I64_MAX at *
  split at h
  · cases h
  · cases neg
    · simp only [Bool.false_eq_true, if_false] at h
      split at h
      · cases h; simp; omega
      · cases h
    · simp only [if_true] at h
      split at h
      · cases h; simp; omega
      · cases h

/-- Out of range ⇒ the "Out of range?" diagnostic (for both signs), never a value. -/
theorem C30_int_literal_out_of_range (n : Nat) :
    (I64_MAX < n → intLiteral false (Nat.toDigits 10 n) = none) ∧
    (I64_MIN_ABS < n → intLiteral true (Nat.toDigits 10 n) = none) := by
  unfold intLiteral I64_MIN_ABS I64_MAX
  simp only [digitsVal_toDigits]
  constructor <;> intro h <;> split <;> simp <;> omega

/-- **Literals in pattern position.** An integer literal pattern denotes exactly what the same
    spelling denotes as an expression: its decimal value when it fits `i64`, the "Out of range?"
    diagnostic otherwise (never a wrapped value, so an out-of-range pattern cannot silently match). -/
theorem C30_int_pattern_literal (n : Nat) :
    intPattern (Nat.toDigits 10 n) = intLiteral false (Nat.toDigits 10 n) ∧
    (n ≤ I64_MAX → intPattern (Nat.toDigits 10 n) = some (n : Int)) ∧
    (I64_MAX < n → intPattern (Nat.toDigits 10 n) = none) := by
  refine ⟨rfl, ?_, (C30_int_literal_out_of_range n).1⟩
  intro h
  unfold intPattern intLiteral
  have hne : (Nat.toDigits 10 n).isEmpty = false := by
    cases h' : Nat.toDigits 10 n with
    | nil => exact absurd h' Nat.toDigits_ne_nil
    | cons _ _ => rfl
  simp [hne, digitsVal_toDigits, h]

/-- Floats: the token's payload is the spelling with the `_` removed, consumed completely. -/
theorem C30_float_literal_token (ip fp rest : List Char) (hi : NumSpelling (ip.filter isDigit) ip)
    (hf : fp.all isNumChar = true) (hr : ∀ c r, rest = c :: r → isNumChar c = false) :
    lexOne (ip ++ '.' :: fp ++ rest) =
      punct (.floatLit (ip.filter isDigit ++ '.' :: fp.filter isDigit)) (ip.length + 1 + fp.length) := by
  obtain ⟨hall, _, c, cs, rfl, hc⟩ := hi
  have hns := digit_not_identStart c hc
  have h1 : ((c :: cs) ++ ('.' :: fp ++ rest)).takeWhile isNumChar = c :: cs :=
    takeWhile_num (c :: cs) _ hall (fun d r e => by cases e; decide)
  have h2 : (fp ++ rest).takeWhile isNumChar = fp := takeWhile_num fp rest hf hr
  have e : (c :: cs) ++ '.' :: fp ++ rest = (c :: cs) ++ ('.' :: fp ++ rest) := by simp
  rw [e]
  simp only [List.cons_append] at h1 ⊢
  unfold lexOne
  simp only [hns, hc, if_true]
  unfold lexNum
  simp only [h1]
  have : List.drop (c :: cs).length (c :: (cs ++ '.' :: (fp ++ rest))) = '.' :: (fp ++ rest) := by
    have := List.drop_left' (l₁ := c :: cs) (l₂ := '.' :: (fp ++ rest)) rfl
    simp at this ⊢
  simp only [this, h2]
  simp [punct]

-- ---------------------------------------------------------------- strings
/-- **Escapes.** Decoding what the printer wrote gives back the string, with no diagnostic — for
    every string (all of Unicode, control characters, quotes, backslashes) and each quote style. -/
theorem C30_escape_roundtrip (q : Quote) (s : List Char) : processEscapes (escape q s) = (s, []) :=
  pe_escape q s 0

theorem scan_escapeChar (q : Quote) (c : Char) (rest : List Char) :
    scanDelim [quoteChar q] (escapeChar q c ++ rest) =
      (scanDelim [quoteChar q] rest).map (· + (escapeChar q c).length) := by
  have hq : quoteChar q = '"' ∨ quoteChar q = '\'' := by cases q <;> simp [quoteChar]
  unfold escapeChar
  by_cases h1 : c = '\\'
  · subst h1; simp only [if_true]; exact scan_cons_pair _ _ _
  simp only [h1, if_false]
  by_cases h2 : c = '"'
  · subst h2; simp only [if_true]
    by_cases hs : q = .single
    · subst hs; simp only [if_true]; exact scan_cons_plain _ _ _ (by decide) (by decide)
    · simp only [hs, if_false]; exact scan_cons_pair _ _ _
  simp only [h2, if_false]
  by_cases h3 : c = '\''
  · subst h3; simp only [if_true]
    by_cases hs : q = .single
    · simp only [hs, if_true]; exact scan_cons_pair _ _ _
    · simp only [hs, if_false]
      refine scan_cons_plain _ _ _ (by decide) ?_
      cases q <;> simp_all [quoteChar]
  simp only [h3, if_false]
  by_cases h4 : c = '\n'
  · subst h4; simp only [if_true]; exact scan_cons_pair _ _ _
  simp only [h4, if_false]
  by_cases h5 : c = '\t'
  · subst h5; simp only [if_true]; exact scan_cons_pair _ _ _
  simp only [h5, if_false]
  by_cases h6 : c = '\r'
  · subst h6; simp only [if_true]; exact scan_cons_pair _ _ _
  simp only [h6, if_false]
  by_cases h7 : (c.toNat < 0x20 || c.toNat = 0x7f) = true
  · simp only [h7, if_true]
    have hlt : c.toNat < 128 := by
      simp only [Bool.or_eq_true, decide_eq_true_eq] at h7; omega
    have ha := hexDigitLower_ne (c.toNat / 16) (by omega)
    have hb := hexDigitLower_ne (c.toNat % 16) (by omega)
    have hqa : quoteChar q ≠ hexDigitLower (c.toNat / 16) := by
      rcases hq with e | e <;> rw [e] <;> intro h <;> simp [← h] at ha
    have hqb : quoteChar q ≠ hexDigitLower (c.toNat % 16) := by
      rcases hq with e | e <;> rw [e] <;> intro h <;> simp [← h] at hb
    simp only [List.cons_append, List.nil_append]
    rw [scan_cons_pair, scan_cons_plain _ _ _ ha.1 hqa, scan_cons_plain _ _ _ hb.1 hqb]
    cases scanDelim [quoteChar q] rest <;> simp
  · simp only [h7]
    refine scan_cons_plain _ _ _ h1 ?_
    rcases hq with e | e <;> rw [e] <;> intro h
    · exact h2 h.symm
    · exact h3 h.symm

/-- **Closing delimiter.** On a printed literal body followed by the closing quote, the scan finds
    exactly the quote the printer wrote: every quote character inside the body is escaped, and the
    backslash pairs are skipped in step with the printer's chunks. -/
theorem C30_scan_finds_close (q : Quote) (s rest : List Char) :
    scanDelim [quoteChar q] (escape q s ++ quoteChar q :: rest) = some (escape q s).length := by
  induction s with
  | nil =>
    simp only [escape, List.nil_append, List.length_nil]
    exact scan_found _ _ (by cases q <;> simp [quoteChar])
  | cons c cs ih =>
    simp only [escape, List.append_assoc, List.length_append]
    rw [scan_escapeChar, ih]
    simp only [Option.map_some]
    congr 1; omega

/-- **One-line literals.** Stated for `lexQuoted`, the scan that `lexOne` runs on the text *after* the
    opening quote of a `'…'` / `"…"` literal (not for `lexOne` itself, which first decides between `"`
    and `"""`): on the printer's body followed by the closing quote it yields the intended text, the
    length of the whole literal (both quotes included) and no diagnostic. -/
theorem C30_quoted_roundtrip (q : Quote) (s rest : List Char) :
    lexQuoted (quoteChar q) (escape q s ++ quoteChar q :: rest) = (s, (spellQuoted q s).length, []) := by
  unfold lexQuoted
  rw [C30_scan_finds_close]
  simp only [List.take_left', C30_escape_roundtrip]
  simp [spellQuoted]

-- ---------------------------------------------------------------- triple-quoted: indentation
def isBlank (l : List Char) : Bool := l.all isWhitespace

/-- how `collectLines` files a line that ended in a newline -/
def classify (l : List Char) : MLine := if isBlank l then .empty l else .endsNewline l

def joinLines : List (List Char) → List Char
  | [] => []
  | [l] => l
  | l :: ls => l ++ '\n' :: joinLines ls

def IsIndent (ind : List Char) : Prop := ∀ c ∈ ind, c = ' ' ∨ c = '\t'

theorem indentOf_append (ind l : List Char) (h : IsIndent ind) : indentOf (ind ++ l) = indentOf ind + indentOf l := by
  induction ind with
  | nil => simp [indentOf]
  | cons c cs ih =>
    have hc := h c (by simp)
    have ih' := ih (fun d hd => h d (by simp [hd]))
    rcases hc with rfl | rfl
    · simp only [List.cons_append, indentOf, ih']; omega
    · simp only [List.cons_append, indentOf, ih']; omega

theorem dropCols_indent (ind l : List Char) (h : IsIndent ind) : dropCols (indentOf ind) (ind ++ l) = l := by
  induction ind with
  | nil => simp [indentOf, dropCols]
  | cons c cs ih =>
    have hc := h c (by simp)
    have ih' := ih (fun d hd => h d (by simp [hd]))
    rcases hc with rfl | rfl
    · simp only [List.cons_append, indentOf]
      rw [show 1 + indentOf cs = indentOf cs + 1 by omega, dropCols]
      exact ih'
    · simp only [List.cons_append, indentOf]
      rw [show 4 + indentOf cs = (indentOf cs + 3) + 1 by omega, dropCols]
      rw [show indentOf cs + 3 + 1 - 4 = indentOf cs by omega]
      exact ih'

theorem classify_blank {x : List Char} (h : isBlank x = true) : classify x = .empty x := by
  simp [classify, h]
theorem classify_nonblank {x : List Char} (h : isBlank x = false) : classify x = .endsNewline x := by
  simp [classify, h]

theorem go_empty (s : List Char) (ls : List MLine) (skip : Bool) :
    minIndent.go (.empty s :: ls) skip = minIndent.go ls false := by
  rw [minIndent.go]
theorem go_nl (s : List Char) (ls : List MLine) :
    minIndent.go (.endsNewline s :: ls) false =
      match minIndent.go ls false with
      | none => some (indentOf s)
      | some m => some (min (indentOf s) m) := by
  rw [minIndent.go]
  · simp only [MLine.content, Bool.false_eq_true, if_false]
    cases minIndent.go ls false <;> rfl
  · intro s' h; cases h

theorem minIndent_go_ge (ind : List Char) (hind : IsIndent ind) (ls : List (List Char)) :
    ∀ m, minIndent.go (ls.map (fun l => classify (ind ++ l))) false = some m → indentOf ind ≤ m := by
  induction ls with
  | nil => intro m h; simp [minIndent.go] at h
  | cons l ls ih =>
    intro m h
    simp only [List.map_cons] at h
    cases hb : isBlank (ind ++ l) with
    | true =>
      rw [classify_blank hb, go_empty] at h
      exact ih m h
    | false =>
      rw [classify_nonblank hb, go_nl] at h
      simp only [indentOf_append _ _ hind] at h
      cases hr : minIndent.go (ls.map (fun l => classify (ind ++ l))) false with
      | none => rw [hr] at h; simp only at h; cases h; omega
      | some m' =>
        rw [hr] at h; simp only at h
        have := ih m' hr
        cases h; omega

theorem minIndent_go_anchor (ind : List Char) (hind : IsIndent ind) (ls : List (List Char))
    (ha : ∃ l ∈ ls, isBlank (ind ++ l) = false ∧ indentOf l = 0) :
    minIndent.go (ls.map (fun l => classify (ind ++ l))) false = some (indentOf ind) := by
  induction ls with
  | nil => obtain ⟨l, hl, _⟩ := ha; simp at hl
  | cons l ls ih =>
    simp only [List.map_cons]
    obtain ⟨a, hmem, hnb, h0⟩ := ha
    have hge := minIndent_go_ge ind hind ls
    rcases List.mem_cons.mp hmem with rfl | hin
    · rw [classify_nonblank hnb, go_nl]
      simp only [indentOf_append _ _ hind, h0]
      cases hr : minIndent.go (ls.map (fun l => classify (ind ++ l))) false with
      | none => simp
      | some m => have := hge m hr; simp only [Nat.add_zero]; congr 1; omega
    · have ih' := ih ⟨a, hin, hnb, h0⟩
      cases hb : isBlank (ind ++ l) with
      | true => rw [classify_blank hb, go_empty]; exact ih'
      | false =>
        rw [classify_nonblank hb, go_nl, ih']
        simp only [indentOf_append _ _ hind]
        congr 1; omega

theorem assemble_go (ind : List Char) (hind : IsIndent ind) (ls : List (List Char)) (first : Bool) :
    assemble.go false (indentOf ind) (ls.map (fun l => classify (ind ++ l))) first = joinLines ls := by
  induction ls generalizing first with
  | nil => simp [assemble.go, joinLines]
  | cons l ls ih =>
    have hc : (classify (ind ++ l)).content = ind ++ l := by unfold classify; split <;> rfl
    cases ls with
    | nil =>
      simp only [List.map_cons, List.map_nil, assemble.go, joinLines, hc, Bool.and_false,
        Bool.false_eq_true, if_false]
      exact dropCols_indent ind l hind
    | cons l2 ls2 =>
      have := ih false
      simp only [List.map_cons] at this ⊢
      rw [assemble.go]
      · simp only [hc, Bool.and_false, Bool.false_eq_true, if_false, joinLines, this]
        rw [dropCols_indent ind l hind]
      · intro h; cases h

/-- **Indentation stripping (partial).**  For a triple-quoted literal in block form whose content
    lines are `ind ++ l₁, …, ind ++ lₙ` (a common indentation `ind` of spaces and/or tabs; blank lines
    included; at least one non-blank `lᵢ` starts with something that is neither space nor tab), the
    raw text handed to the escape decoder is exactly `l₁ \n … \n lₙ`: the common indentation —
    and nothing else — is removed, lines are joined by `\n`.
    This is the stage after the lines have been collected; `C30_strip_spec` below starts from the
    source text. -/
theorem C30_strip_spec_partial (ind : List Char) (hind : IsIndent ind) (ls : List (List Char))
    (ha : ∃ l ∈ ls, isBlank (ind ++ l) = false ∧ indentOf l = 0) :
    let lines := ls.map (fun l => classify (ind ++ l))
    minIndent lines false = some (indentOf ind) ∧
      assemble lines false (minIndent lines false) = joinLines ls := by
  have h1 : minIndent (ls.map (fun l => classify (ind ++ l))) false = some (indentOf ind) :=
    minIndent_go_anchor ind hind ls ha
  refine ⟨h1, ?_⟩
  simp only [h1, assemble, Option.getD_some]
  exact assemble_go ind hind ls true


-- ---------------------------------------------------------------- triple-quoted: measure and strip, arbitrary per-line indentation

def MLine.isEmptyKind : MLine → Bool
  | .empty _ => true
  | _ => false

theorem go_of_empty (l : MLine) (ls : List MLine) (hk : l.isEmptyKind = true) :
    minIndent.go (l :: ls) false = minIndent.go ls false := by
  cases l with
  | empty s => exact go_empty s ls false
  | _ => simp [MLine.isEmptyKind] at hk

theorem go_of_nonempty (l : MLine) (ls : List MLine) (hk : l.isEmptyKind = false) :
    minIndent.go (l :: ls) false =
      match minIndent.go ls false with
      | none => some (indentOf l.content)
      | some m => some (min (indentOf l.content) m) := by
  cases l with
  | empty s => simp [MLine.isEmptyKind] at hk
  | endsNewline s => exact go_nl s ls
  | endsTriple s =>
    rw [minIndent.go]
    · simp only [MLine.content, Bool.false_eq_true, if_false]
      cases minIndent.go ls false <;> rfl
    · intro s' h; cases h

theorem go_none (ls : List MLine) (h : minIndent.go ls false = none) : ∀ l ∈ ls, l.isEmptyKind = true := by
  induction ls with
  | nil => intro l hl; simp at hl
  | cons l ls ih =>
    cases hk : l.isEmptyKind with
    | true =>
      rw [go_of_empty l ls hk] at h
      intro x hx
      rcases List.mem_cons.mp hx with rfl | hx
      · exact hk
      · exact ih h x hx
    | false =>
      rw [go_of_nonempty l ls hk] at h
      cases hr : minIndent.go ls false <;> simp [hr] at h

/-- **The measure.** The common indentation is the minimum, over the non-blank lines, of the flat
    measure of their leading blanks (1 per space, 4 per tab — the same count the stripping uses). -/
theorem C30_minIndent_is_min (ls : List MLine) (m : Nat) (h : minIndent.go ls false = some m) :
    (∀ l ∈ ls, l.isEmptyKind = false → m ≤ indentOf l.content) ∧
    (∃ l ∈ ls, l.isEmptyKind = false ∧ indentOf l.content = m) := by
  induction ls generalizing m with
  | nil => simp [minIndent.go] at h
  | cons l ls ih =>
    cases hk : l.isEmptyKind with
    | true =>
      rw [go_of_empty l ls hk] at h
      obtain ⟨h1, l', hl', h2⟩ := ih m h
      refine ⟨fun x hx hx2 => ?_, l', List.mem_cons_of_mem _ hl', h2⟩
      rcases List.mem_cons.mp hx with rfl | hx
      · rw [hk] at hx2; cases hx2
      · exact h1 x hx hx2
    | false =>
      rw [go_of_nonempty l ls hk] at h
      cases hr : minIndent.go ls false with
      | none =>
        rw [hr] at h; simp only [Option.some.injEq] at h; subst h
        have hall := go_none ls hr
        refine ⟨fun x hx hx2 => ?_, l, List.mem_cons_self, hk, rfl⟩
        rcases List.mem_cons.mp hx with rfl | hx
        · exact Nat.le_refl _
        · rw [hall x hx] at hx2; cases hx2
      | some m' =>
        rw [hr] at h; simp only [Option.some.injEq] at h; subst h
        obtain ⟨h1, l', hl', hk', h2⟩ := ih m' hr
        refine ⟨fun x hx hx2 => ?_, ?_⟩
        · rcases List.mem_cons.mp hx with rfl | hx
          · exact Nat.min_le_left _ _
          · exact Nat.le_trans (Nat.min_le_right _ _) (h1 x hx hx2)
        · by_cases hle : indentOf l.content ≤ m'
          · exact ⟨l, List.mem_cons_self, hk, by rw [Nat.min_eq_left hle]⟩
          · exact ⟨l', List.mem_cons_of_mem _ hl', hk', by rw [h2, Nat.min_eq_right (by omega)]⟩

/-- **The strip.** Removing `m` columns takes away leading blanks, counted exactly like the measure
    (a space 1, a tab 4, a tab that straddles the boundary goes whole), and nothing else:
    a blank prefix that measures exactly `m` is removed exactly; a line whose leading blanks measure
    at most `m` loses all of them and nothing of its text. -/
theorem C30_dropCols_spec (p q l : List Char) (hp : IsIndent p) :
    dropCols (indentOf p) (p ++ q) = q ∧
    (∀ m, indentOf p ≤ m → (∀ c r, l = c :: r → c ≠ ' ' ∧ c ≠ '\t') → dropCols m (p ++ l) = l) ∧
    (∀ m, indentOf p < m → m ≤ indentOf p + 4 → dropCols m (p ++ '\t' :: q) = q) := by
  refine ⟨dropCols_indent p q hp, ?_, ?_⟩
  · intro m hm hl
    induction p generalizing m with
    | nil =>
      simp only [List.nil_append]
      cases m with
      | zero => rw [dropCols]
      | succ k =>
        cases l with
        | nil => rw [dropCols]; intro r h; cases h; intro r h; cases h
        | cons c r =>
          obtain ⟨h1, h2⟩ := hl c r rfl
          rw [dropCols]
          · intro r' h; cases h; exact h1 rfl
          · intro r' h; cases h; exact h2 rfl
    | cons c cs ih =>
      have hc := hp c (by simp)
      have ih' := ih (fun d hd => hp d (by simp [hd]))
      rcases hc with rfl | rfl
      · simp only [List.cons_append, indentOf] at hm ⊢
        obtain ⟨k, rfl⟩ : ∃ k, m = k + 1 := ⟨m - 1, by omega⟩
        rw [dropCols]; exact ih' k (by omega)
      · simp only [List.cons_append, indentOf] at hm ⊢
        obtain ⟨k, rfl⟩ : ∃ k, m = k + 1 := ⟨m - 1, by omega⟩
        rw [dropCols]; exact ih' (k + 1 - 4) (by omega)
  · intro m h1 h2
    induction p generalizing m with
    | nil =>
      simp only [indentOf, List.nil_append] at h1 h2 ⊢
      obtain ⟨k, rfl⟩ : ∃ k, m = k + 1 := ⟨m - 1, by omega⟩
      rw [dropCols, show k + 1 - 4 = 0 by omega, dropCols]
    | cons c cs ih =>
      have hc := hp c (by simp)
      have ih' := ih (fun d hd => hp d (by simp [hd]))
      rcases hc with rfl | rfl
      · simp only [List.cons_append, indentOf] at h1 h2 ⊢
        obtain ⟨k, rfl⟩ : ∃ k, m = k + 1 := ⟨m - 1, by omega⟩
        rw [dropCols]; exact ih' k (by omega) (by omega)
      · simp only [List.cons_append, indentOf] at h1 h2 ⊢
        obtain ⟨k, rfl⟩ : ∃ k, m = k + 1 := ⟨m - 1, by omega⟩
        rw [dropCols]; exact ih' (k + 1 - 4) (by omega) (by omega)

/-- **Every line minus the common measured prefix.** Whatever the lines and their individual
    indentations, the assembled text is the lines, each stripped of `m` columns, joined by `\n`. -/
theorem C30_assemble_each_line (ls : List MLine) (m : Nat) :
    assemble ls false (some m) = joinLines (ls.map (fun l => dropCols m l.content)) := by
  simp only [assemble, Option.getD_some]
  generalize true = first
  induction ls generalizing first with
  | nil => simp [assemble.go, joinLines]
  | cons l ls ih =>
    cases ls with
    | nil => simp [assemble.go, joinLines]
    | cons l2 ls2 =>
      have := ih false
      simp only [List.map_cons] at this ⊢
      rw [assemble.go]
      · simp only [Bool.and_false, Bool.false_eq_true, if_false, joinLines, this]
      · intro h; cases h

-- ---------------------------------------------------------------- triple-quoted: from the source text

/-- no three consecutive `"` -/
def noTriple : List Char → Bool
  | [] => true
  | c :: t => !(c = '"' && t.head? = some '"' && t.tail.head? = some '"') && noTriple t

theorem startsTriple_false_of_noTriple (c : Char) (t X : List Char) (h : noTriple (c :: t) = true) :
    startsTriple (c :: (t ++ '\n' :: X)) = false := by
  simp only [noTriple, Bool.and_eq_true, Bool.not_eq_true'] at h
  obtain ⟨h1, _⟩ := h
  cases t with
  | nil => simp [startsTriple]
  | cons a t' =>
    cases t' with
    | nil => simp [startsTriple]
    | cons b t'' =>
      simp only [List.head?_cons, List.tail_cons] at h1
      simp only [List.cons_append]
      unfold startsTriple
      split
      · rename_i heq
        simp only [List.cons.injEq] at heq
        obtain ⟨rfl, rfl, rfl, _⟩ := heq
        simp at h1
      · rfl

theorem splitLine_line (u X : List Char) (hn : ∀ x ∈ u, x ≠ '\n') (ht : noTriple u = true) :
    splitLine (u ++ '\n' :: X) = (u, .nl, X) := by
  induction u with
  | nil => simp [splitLine, startsTriple]
  | cons c t ih =>
    have hc := hn c (by simp)
    have ht' : noTriple t = true := by
      simp only [noTriple, Bool.and_eq_true] at ht; exact ht.2
    simp only [List.cons_append, splitLine, startsTriple_false_of_noTriple c t X ht, Bool.false_eq_true, if_false, hc]
    rw [ih (fun x hx => hn x (by simp [hx])) ht']

theorem splitLine_close (w rest : List Char) (hw : ∀ x ∈ w, x = ' ' ∨ x = '\t') :
    splitLine (w ++ '"' :: '"' :: '"' :: rest) = (w, .triple, rest) := by
  induction w with
  | nil => simp [splitLine, startsTriple]
  | cons c t ih =>
    have hc := hw c (by simp)
    have hst : startsTriple (c :: (t ++ '"' :: '"' :: '"' :: rest)) = false := by
      unfold startsTriple
      split
      · rename_i heq; simp only [List.cons.injEq] at heq; rcases hc with h | h <;> simp [h] at heq
      · rfl
    have hnl : c ≠ '\n' := by rcases hc with h | h <;> simp [h]
    simp only [List.cons_append, splitLine, hst, Bool.false_eq_true, if_false, hnl]
    rw [ih (fun x hx => hw x (by simp [hx]))]


def bodyText (ind : List Char) (ls : List (List Char)) : List Char :=
  ls.flatMap (fun l => ind ++ l ++ ['\n'])

theorem all_ws_of_blanks (w : List Char) (hw : ∀ x ∈ w, x = ' ' ∨ x = '\t') : w.all isWhitespace = true := by
  rw [List.all_eq_true]
  intro x hx
  rcases hw x hx with rfl | rfl <;> decide

theorem collect_lines (ind w rest : List Char) (hw : ∀ x ∈ w, x = ' ' ∨ x = '\t') :
    ∀ (ls : List (List Char)) (f off : Nat) (acc : List MLine) (starts : List Nat), ls.length < f →
    (∀ l ∈ ls, (∀ x ∈ ind ++ l, x ≠ '\n') ∧ noTriple (ind ++ l) = true) →
    (acc ≠ [] ∨ ls = [] ∨ ∃ l0 ls', ls = l0 :: ls' ∧ isBlank (ind ++ l0) = false) →
    let r := collectLines f off acc starts false (bodyText ind ls ++ (w ++ '"' :: '"' :: '"' :: rest))
    r.1 = acc ++ ls.map (fun l => classify (ind ++ l)) ∧ r.2.2.1 = false ∧ r.2.2.2 = rest := by
  intro ls
  induction ls with
  | nil =>
    intro f off acc starts hf _ _
    cases f with
    | zero => omega
    | succ f =>
      simp only [bodyText, List.flatMap_nil, List.nil_append, collectLines, splitLine_close w rest hw,
        all_ws_of_blanks w hw, if_true, List.map_nil, List.append_nil]
      exact ⟨trivial, trivial, trivial⟩
  | cons l ls ih =>
    intro f off acc starts hf hgood hacc
    cases f with
    | zero => omega
    | succ f =>
      obtain ⟨hn, ht⟩ := hgood l (by simp)
      have hsplit := splitLine_line (ind ++ l) (bodyText ind ls ++ (w ++ '"' :: '"' :: '"' :: rest)) hn ht
      have hbody : bodyText ind (l :: ls) ++ (w ++ '"' :: '"' :: '"' :: rest) =
          (ind ++ l) ++ '\n' :: (bodyText ind ls ++ (w ++ '"' :: '"' :: '"' :: rest)) := by
        simp [bodyText]
      have hgood' : ∀ l' ∈ ls, (∀ x ∈ ind ++ l', x ≠ '\n') ∧ noTriple (ind ++ l') = true :=
        fun l' hl' => hgood l' (by simp [hl'])
      simp only [hbody, collectLines, hsplit]
      cases hb : isBlank (ind ++ l) with
      | true =>
        have hb' : (ind ++ l).all isWhitespace = true := hb
        simp only [hb', if_true]
        have hne : acc ≠ [] := by
          rcases hacc with h | h | ⟨l0, ls', heq, hnb⟩
          · exact h
          · cases h
          · cases heq; rw [hb] at hnb; cases hnb
        have hemp : acc.isEmpty = false := by cases acc <;> simp_all
        simp only [hemp, Bool.false_eq_true, if_false]
        have := ih f (off + (ind ++ l).length + 1) (acc ++ [.empty (ind ++ l)]) (starts ++ [off])
          (by simp only [List.length_cons] at hf; omega) hgood' (Or.inl (by simp))
        simp only [List.map_cons, classify_blank hb]
        simpa [List.append_assoc] using this
      | false =>
        have hb' : (ind ++ l).all isWhitespace = false := hb
        simp only [hb', Bool.false_eq_true, if_false]
        have := ih f (off + (ind ++ l).length + 1) (acc ++ [.endsNewline (ind ++ l)]) (starts ++ [off])
          (by simp only [List.length_cons] at hf; omega) hgood' (Or.inl (by simp))
        simp only [List.map_cons, classify_nonblank hb]
        simpa [List.append_assoc] using this


theorem bodyText_length_ge (ind : List Char) (ls : List (List Char)) : ls.length ≤ (bodyText ind ls).length := by
  induction ls with
  | nil => simp [bodyText]
  | cons l ls ih =>
    have : bodyText ind (l :: ls) = (ind ++ l ++ ['\n']) ++ bodyText ind ls := by simp [bodyText]
    rw [this]
    simp only [List.length_append, List.length_cons, List.length_nil]
    omega

/-- **Indentation stripping, from the source text.**  Stated for `lexTriple`, which `lexOne` runs on
    the text *after* the opening `"""`.  That text in block form —
    a line break, the lines `ind ++ l₁ ⏎ … ind ++ lₙ ⏎` (common indentation `ind` of spaces
    and/or tabs; blank lines allowed after the first; no line contains a line break or three
    consecutive quotes; some non-blank `lᵢ` starts with neither space nor tab), then blanks and the
    closing `"""` — denotes the lines with exactly the common indentation removed, joined by `\n`,
    escape-decoded; and exactly the text up to and including the closer is consumed (the count is
    relative to the text after the opener). -/
theorem C30_strip_spec (ind : List Char) (hind : IsIndent ind) (ls : List (List Char)) (w rest : List Char)
    (hw : ∀ x ∈ w, x = ' ' ∨ x = '\t')
    (hgood : ∀ l ∈ ls, (∀ x ∈ ind ++ l, x ≠ '\n') ∧ noTriple (ind ++ l) = true)
    (hfirst : ∃ l0 ls', ls = l0 :: ls' ∧ isBlank (ind ++ l0) = false)
    (ha : ∃ l ∈ ls, isBlank (ind ++ l) = false ∧ indentOf l = 0) :
    let text := '\n' :: (bodyText ind ls ++ (w ++ '"' :: '"' :: '"' :: rest))
    (lexTriple text).1 = (processEscapes (joinLines ls)).1 ∧
      (lexTriple text).2.1 = text.length - rest.length := by
  intro text
  have hlen := bodyText_length_ge ind ls
  have hc := collect_lines ind w rest hw ls text.length 1 [] [] (by
    simp only [text, List.length_cons, List.length_append]; omega) hgood (Or.inr (Or.inr hfirst))
  simp only [List.nil_append] at hc
  obtain ⟨h1, h2, h3⟩ := hc
  have hstrip := C30_strip_spec_partial ind hind ls ha
  simp only at hstrip
  have hfirststep : collectLines (text.length + 1) 0 [] [] true text =
      collectLines text.length 1 [] [] false (bodyText ind ls ++ (w ++ '"' :: '"' :: '"' :: rest)) := by
    simp only [text, collectLines, splitLine, startsTriple]
    simp
  unfold lexTriple
  simp only [hfirststep]
  generalize hr : collectLines text.length 1 [] [] false (bodyText ind ls ++ (w ++ '"' :: '"' :: '"' :: rest)) = r at h1 h2 h3
  obtain ⟨lines, starts, flag, rest'⟩ := r
  simp only at h1 h2 h3
  subst h1 h2 h3
  simp only [hstrip.2]
  exact ⟨trivial, trivial⟩

example : (lexTriple ('\n' :: (bodyText [' ', ' '] ["hello".toList, [], "  world".toList] ++ ([' '] ++ '"' :: '"' :: '"' :: [])))).1
    = "hello\n\n  world".toList := by decide +kernel
example : noTriple "say \\\"hi\\\" \"\" ok".toList = true := by decide +kernel


-- ---------------------------------------------------------------- non-vacuity and worked instances
example : NumSpelling (Nat.toDigits 10 (-9223372036854775808 : Int).natAbs) "9_223_372_036_854_775_808__".toList := by
  refine ⟨by decide +kernel, by decide +kernel, '9', _, rfl, by decide⟩
example : NumEnd " + 1".toList := by intro c r h; cases h; decide
example : NumEnd [] := by intro c r h; cases h
example : intLiteral true "9223372036854775808".toList = some (-9223372036854775808) := by decide +kernel
example : intLiteral false "9223372036854775808".toList = none := by decide +kernel
example : IsIndent [' ', '\t'] := by intro c h; simp at h; rcases h with rfl | rfl <;> simp
example : ∃ l ∈ ["hello".toList, [], "  world".toList],
    isBlank ([' ', '\t'] ++ l) = false ∧ indentOf l = 0 :=
  ⟨"hello".toList, by simp, by decide +kernel, by decide +kernel⟩
/- the pinned tests `multiline_string_strips_indent`, `…_blank_line`, `…_opener_residue`, and the
   repaired D40 / D42 shapes, evaluated by the model from the source text -/
example : (lexTriple "\n    hello\n    world\n    \"\"\"".toList).1 = "hello\nworld".toList := by decide +kernel
example : (lexTriple "\n    hello\n\n    world\n    \"\"\"".toList).1 = "hello\n\nworld".toList := by decide +kernel
example : (lexTriple "hello\n    world\n    \"\"\"".toList).1 = "hello\nworld".toList := by decide +kernel
example : (lexTriple "abc\n\n\"\"\"".toList).1 = "abc\n".toList := by decide +kernel
example : (lexTriple "\n\thello\n\t  world\n\t\"\"\"".toList).1 = "hello\n  world".toList := by decide +kernel

end Abra.Lex
