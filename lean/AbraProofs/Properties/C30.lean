import AbraProofs.Lemmas.Lex
/-!
# C30 — literals denote exactly the values they spell

Model: `Abra.Lex` (`AbraModel/Lex.lean`: `lexNum` = `handle_num`, `intLiteral` = the parser's
`parse::<i64>()` with the sign folded in, `processEscapes`, `scanDelim`, `lexQuoted`, `lexTriple`),
specification side: `Abra.Lex.escape`/`spellQuoted` (`AbraModel/Literals.lean`, the generator's printer).

* `C30_int_literal_roundtrip` — every 64-bit integer, spelled in decimal with `_` anywhere after the
  first digit (also doubled or trailing), lexes to one `IntLit` token carrying exactly its digits and
  the parser turns it into that integer; `i64::MIN` through the negation path.
* `C30_int_literal_value` — any digit string (leading zeros too) denotes its decimal value or is
  rejected: never a wrapped value.  `C30_int_literal_out_of_range` — out of range ⇒ diagnostic.
* `C30_escape_roundtrip` — `processEscapes (escape q s) = s` with no diagnostic, for every string
  over all of Unicode and each quote style.
* `C30_scan_finds_close` — on a printed literal the closing quote found is the one the printer wrote
  (the first unescaped one); `C30_quoted_roundtrip` — hence `'…'`/`"…"` literals lex to `s` and are
  consumed exactly.
* `C30_strip_spec_partial` — indentation stripping of triple-quoted literals, stated on the collected
  lines (see the `OPEN` note there for the text-level statement).
Float literals: the payload is the spelling without `_` (`C30_float_literal_token`); its value is
`parse::<f64>` of that text (trusted, checked by the correspondence only).
-/
namespace Abra.Lex

def I64_MIN_ABS : Nat := 9223372036854775808

/-- a spelling of the digit string `ds`: its digits in order, with `_` interspersed, starting with a digit -/
def NumSpelling (ds sp : List Char) : Prop :=
  sp.all isNumChar = true ∧ sp.filter isDigit = ds ∧ ∃ c cs, sp = c :: cs ∧ isDigit c = true

theorem lexOne_int {sp rest : List Char} {ds : List Char} (hs : NumSpelling ds sp) (hr : NumEnd rest) :
    lexOne (sp ++ rest) = punct (.intLit ds) sp.length := by
  obtain ⟨hall, hds, c, cs, rfl, hc⟩ := hs
  have hl := lexNum_int (c :: cs) rest hall hr
  have hns := digit_not_identStart c hc
  simp only [List.cons_append] at hl ⊢
  unfold lexOne
  simp only [hns, hc, if_true]
  simp [hl, hds]

/-- **Integers.** For every `v` in the `i64` range: any spelling of the decimal digits of `|v|` with
    `_` separators is one `IntLit` token with exactly those digits, consumed completely, and the
    parser (`-` folded in for negative `v`) yields `v` — including `v = i64::MIN`. -/
theorem C30_int_literal_roundtrip (v : Int) (hlo : -(I64_MIN_ABS : Int) ≤ v) (hhi : v ≤ (I64_MAX : Int))
    (sp rest : List Char) (hs : NumSpelling (Nat.toDigits 10 v.natAbs) sp) (hr : NumEnd rest) :
    lexOne (sp ++ rest) = punct (.intLit (Nat.toDigits 10 v.natAbs)) sp.length ∧
    intLiteral (decide (v < 0)) (Nat.toDigits 10 v.natAbs) = some v := by
  refine ⟨lexOne_int hs hr, ?_⟩
  unfold intLiteral
  have hne : (Nat.toDigits 10 v.natAbs).isEmpty = false := by
    cases h : Nat.toDigits 10 v.natAbs with
    | nil => exact absurd h Nat.toDigits_ne_nil
    | cons _ _ => rfl
  simp only [hne, digitsVal_toDigits]
  unfold I64_MIN_ABS I64_MAX at *
  by_cases hneg : v < 0
  · simp only [hneg, decide_true, if_true]
    have : v.natAbs ≤ 9223372036854775807 + 1 := by omega
    simp [this]; omega
  · simp only [hneg, decide_false]
    have : v.natAbs ≤ 9223372036854775807 := by omega
    simp [this]; omega

/-- Any digit string denotes its decimal value, with the sign, or is rejected — never something else. -/
theorem C30_int_literal_value (neg : Bool) (ds : List Char) (v : Int) (h : intLiteral neg ds = some v) :
    v = (if neg then -(digitsVal ds : Int) else (digitsVal ds : Int)) ∧
      -(I64_MIN_ABS : Int) ≤ v ∧ v ≤ (I64_MAX : Int) := by
  unfold intLiteral at h
  unfold I64_MIN_ABS I64_MAX at *
  split at h
  · cases h
  · cases neg
    · simp only [Bool.false_eq_true, if_false] at h
      split at h
      · cases h; simp; omega
      · cases h
    · simp only [if_true] at h
      split at h
      · cases h; simp; omega
      · cases h

/-- Out of range ⇒ the "Out of range?" diagnostic (for both signs), never a value. -/
theorem C30_int_literal_out_of_range (n : Nat) :
    (I64_MAX < n → intLiteral false (Nat.toDigits 10 n) = none) ∧
    (I64_MIN_ABS < n → intLiteral true (Nat.toDigits 10 n) = none) := by
  unfold intLiteral I64_MIN_ABS I64_MAX
  simp only [digitsVal_toDigits]
  constructor <;> intro h <;> split <;> simp <;> omega

/-- Floats: the token's payload is the spelling with the `_` removed, consumed completely. -/
theorem C30_float_literal_token (ip fp rest : List Char) (hi : NumSpelling (ip.filter isDigit) ip)
    (hf : fp.all isNumChar = true) (hr : ∀ c r, rest = c :: r → isNumChar c = false) :
    lexOne (ip ++ '.' :: fp ++ rest) =
      punct (.floatLit (ip.filter isDigit ++ '.' :: fp.filter isDigit)) (ip.length + 1 + fp.length) := by
  obtain ⟨hall, _, c, cs, rfl, hc⟩ := hi
  have hns := digit_not_identStart c hc
  have h1 : ((c :: cs) ++ ('.' :: fp ++ rest)).takeWhile isNumChar = c :: cs :=
    takeWhile_num (c :: cs) _ hall (fun d r e => by cases e; decide)
  have h2 : (fp ++ rest).takeWhile isNumChar = fp := takeWhile_num fp rest hf hr
  have e : (c :: cs) ++ '.' :: fp ++ rest = (c :: cs) ++ ('.' :: fp ++ rest) := by simp
  rw [e]
  simp only [List.cons_append] at h1 ⊢
  unfold lexOne
  simp only [hns, hc, if_true]
  unfold lexNum
  simp only [h1]
  have : List.drop (c :: cs).length (c :: (cs ++ '.' :: (fp ++ rest))) = '.' :: (fp ++ rest) := by
    have := List.drop_left' (l₁ := c :: cs) (l₂ := '.' :: (fp ++ rest)) rfl
    simp at this ⊢
  simp only [this, h2]
  simp [punct]

-- ---------------------------------------------------------------- strings
/-- **Escapes.** Decoding what the printer wrote gives back the string, with no diagnostic — for
    every string (all of Unicode, control characters, quotes, backslashes) and each quote style. -/
theorem C30_escape_roundtrip (q : Quote) (s : List Char) : processEscapes (escape q s) = (s, []) :=
  pe_escape q s 0

theorem scan_escapeChar (q : Quote) (c : Char) (rest : List Char) :
    scanDelim [quoteChar q] (escapeChar q c ++ rest) =
      (scanDelim [quoteChar q] rest).map (· + (escapeChar q c).length) := by
  have hq : quoteChar q = '"' ∨ quoteChar q = '\'' := by cases q <;> simp [quoteChar]
  unfold escapeChar
  by_cases h1 : c = '\\'
  · subst h1; simp only [if_true]; exact scan_cons_pair _ _ _
  simp only [h1, if_false]
  by_cases h2 : c = '"'
  · subst h2; simp only [if_true]
    by_cases hs : q = .single
    · subst hs; simp only [if_true]; exact scan_cons_plain _ _ _ (by decide) (by decide)
    · simp only [hs, if_false]; exact scan_cons_pair _ _ _
  simp only [h2, if_false]
  by_cases h3 : c = '\''
  · subst h3; simp only [if_true]
    by_cases hs : q = .single
    · simp only [hs, if_true]; exact scan_cons_pair _ _ _
    · simp only [hs, if_false]
      refine scan_cons_plain _ _ _ (by decide) ?_
      cases q <;> simp_all [quoteChar]
  simp only [h3, if_false]
  by_cases h4 : c = '\n'
  · subst h4; simp only [if_true]; exact scan_cons_pair _ _ _
  simp only [h4, if_false]
  by_cases h5 : c = '\t'
  · subst h5; simp only [if_true]; exact scan_cons_pair _ _ _
  simp only [h5, if_false]
  by_cases h6 : c = '\r'
  · subst h6; simp only [if_true]; exact scan_cons_pair _ _ _
  simp only [h6, if_false]
  by_cases h7 : (c.toNat < 0x20 || c.toNat = 0x7f) = true
  · simp only [h7, if_true]
    have hlt : c.toNat < 128 := by
      simp only [Bool.or_eq_true, decide_eq_true_eq] at h7; omega
    have ha := hexDigitLower_ne (c.toNat / 16) (by omega)
    have hb := hexDigitLower_ne (c.toNat % 16) (by omega)
    have hqa : quoteChar q ≠ hexDigitLower (c.toNat / 16) := by
      rcases hq with e | e <;> rw [e] <;> intro h <;> simp [← h] at ha
    have hqb : quoteChar q ≠ hexDigitLower (c.toNat % 16) := by
      rcases hq with e | e <;> rw [e] <;> intro h <;> simp [← h] at hb
    simp only [List.cons_append, List.nil_append]
    rw [scan_cons_pair, scan_cons_plain _ _ _ ha.1 hqa, scan_cons_plain _ _ _ hb.1 hqb]
    cases scanDelim [quoteChar q] rest <;> simp
  · simp only [h7]
    refine scan_cons_plain _ _ _ h1 ?_
    rcases hq with e | e <;> rw [e] <;> intro h
    · exact h2 h.symm
    · exact h3 h.symm

/-- **Closing delimiter.** On a printed literal body followed by the closing quote, the scan finds
    exactly the quote the printer wrote: every quote character inside the body is escaped, and the
    backslash pairs are skipped in step with the printer's chunks. -/
theorem C30_scan_finds_close (q : Quote) (s rest : List Char) :
    scanDelim [quoteChar q] (escape q s ++ quoteChar q :: rest) = some (escape q s).length := by
  induction s with
  | nil =>
    simp only [escape, List.nil_append, List.length_nil]
    exact scan_found _ _ (by cases q <;> simp [quoteChar])
  | cons c cs ih =>
    simp only [escape, List.append_assoc, List.length_append]
    rw [scan_escapeChar, ih]
    simp only [Option.map_some]
    congr 1; omega

/-- **One-line literals.** `'…'` and `"…"` as written by the printer lex to the intended text, are
    consumed exactly (both quotes included) and produce no diagnostic. -/
theorem C30_quoted_roundtrip (q : Quote) (s rest : List Char) :
    lexQuoted (quoteChar q) (escape q s ++ quoteChar q :: rest) = (s, (spellQuoted q s).length, []) := by
  unfold lexQuoted
  rw [C30_scan_finds_close]
  simp only [List.take_left', C30_escape_roundtrip]
  simp [spellQuoted]

-- ---------------------------------------------------------------- triple-quoted: indentation
def isBlank (l : List Char) : Bool := l.all isWhitespace

/-- how `collectLines` files a line that ended in a newline -/
def classify (l : List Char) : MLine := if isBlank l then .empty l else .endsNewline l

def joinLines : List (List Char) → List Char
  | [] => []
  | [l] => l
  | l :: ls => l ++ '\n' :: joinLines ls

def IsIndent (ind : List Char) : Prop := ∀ c ∈ ind, c = ' ' ∨ c = '\t'

theorem indentOf_append (ind l : List Char) (h : IsIndent ind) : indentOf (ind ++ l) = indentOf ind + indentOf l := by
  induction ind with
  | nil => simp [indentOf]
  | cons c cs ih =>
    have hc := h c (by simp)
    have ih' := ih (fun d hd => h d (by simp [hd]))
    rcases hc with rfl | rfl
    · simp only [List.cons_append, indentOf, ih']; omega
    · simp only [List.cons_append, indentOf, ih']; omega

theorem dropCols_indent (ind l : List Char) (h : IsIndent ind) : dropCols (indentOf ind) (ind ++ l) = l := by
  induction ind with
  | nil => simp [indentOf, dropCols]
  | cons c cs ih =>
    have hc := h c (by simp)
    have ih' := ih (fun d hd => h d (by simp [hd]))
    rcases hc with rfl | rfl
    · simp only [List.cons_append, indentOf]
      rw [show 1 + indentOf cs = indentOf cs + 1 by omega, dropCols]
      exact ih'
    · simp only [List.cons_append, indentOf]
      rw [show 4 + indentOf cs = (indentOf cs + 3) + 1 by omega, dropCols]
      rw [show indentOf cs + 3 + 1 - 4 = indentOf cs by omega]
      exact ih'

theorem classify_blank {x : List Char} (h : isBlank x = true) : classify x = .empty x := by
  simp [classify, h]
theorem classify_nonblank {x : List Char} (h : isBlank x = false) : classify x = .endsNewline x := by
  simp [classify, h]

theorem go_empty (s : List Char) (ls : List MLine) (skip : Bool) :
    minIndent.go (.empty s :: ls) skip = minIndent.go ls false := by
  rw [minIndent.go]
theorem go_nl (s : List Char) (ls : List MLine) :
    minIndent.go (.endsNewline s :: ls) false =
      match minIndent.go ls false with
      | none => some (indentOf s)
      | some m => some (min (indentOf s) m) := by
  rw [minIndent.go]
  · simp only [MLine.content, Bool.false_eq_true, if_false]
    cases minIndent.go ls false <;> rfl
  · intro s' h; cases h

theorem minIndent_go_ge (ind : List Char) (hind : IsIndent ind) (ls : List (List Char)) :
    ∀ m, minIndent.go (ls.map (fun l => classify (ind ++ l))) false = some m → indentOf ind ≤ m := by
  induction ls with
  | nil => intro m h; simp [minIndent.go] at h
  | cons l ls ih =>
    intro m h
    simp only [List.map_cons] at h
    cases hb : isBlank (ind ++ l) with
    | true =>
      rw [classify_blank hb, go_empty] at h
      exact ih m h
    | false =>
      rw [classify_nonblank hb, go_nl] at h
      simp only [indentOf_append _ _ hind] at h
      cases hr : minIndent.go (ls.map (fun l => classify (ind ++ l))) false with
      | none => rw [hr] at h; simp only at h; cases h; omega
      | some m' =>
        rw [hr] at h; simp only at h
        have := ih m' hr
        cases h; omega

theorem minIndent_go_anchor (ind : List Char) (hind : IsIndent ind) (ls : List (List Char))
    (ha : ∃ l ∈ ls, isBlank (ind ++ l) = false ∧ indentOf l = 0) :
    minIndent.go (ls.map (fun l => classify (ind ++ l))) false = some (indentOf ind) := by
  induction ls with
  | nil => obtain ⟨l, hl, _⟩ := ha; simp at hl
  | cons l ls ih =>
    simp only [List.map_cons]
    obtain ⟨a, hmem, hnb, h0⟩ := ha
    have hge := minIndent_go_ge ind hind ls
    rcases List.mem_cons.mp hmem with rfl | hin
    · rw [classify_nonblank hnb, go_nl]
      simp only [indentOf_append _ _ hind, h0]
      cases hr : minIndent.go (ls.map (fun l => classify (ind ++ l))) false with
      | none => simp
      | some m => have := hge m hr; simp only [Nat.add_zero]; congr 1; omega
    · have ih' := ih ⟨a, hin, hnb, h0⟩
      cases hb : isBlank (ind ++ l) with
      | true => rw [classify_blank hb, go_empty]; exact ih'
      | false =>
        rw [classify_nonblank hb, go_nl, ih']
        simp only [indentOf_append _ _ hind]
        congr 1; omega

theorem assemble_go (ind : List Char) (hind : IsIndent ind) (ls : List (List Char)) (first : Bool) :
    assemble.go false (indentOf ind) (ls.map (fun l => classify (ind ++ l))) first = joinLines ls := by
  induction ls generalizing first with
  | nil => simp [assemble.go, joinLines]
  | cons l ls ih =>
    have hc : (classify (ind ++ l)).content = ind ++ l := by unfold classify; split <;> rfl
    cases ls with
    | nil =>
      simp only [List.map_cons, List.map_nil, assemble.go, joinLines, hc, Bool.and_false,
        Bool.false_eq_true, if_false]
      exact dropCols_indent ind l hind
    | cons l2 ls2 =>
      have := ih false
      simp only [List.map_cons] at this ⊢
      rw [assemble.go]
      · simp only [hc, Bool.and_false, Bool.false_eq_true, if_false, joinLines, this]
        rw [dropCols_indent ind l hind]
      · intro h; cases h

/-- **Indentation stripping (partial).**  For a triple-quoted literal in block form whose content
    lines are `ind ++ l₁, …, ind ++ lₙ` (a common indentation `ind` of spaces and/or tabs; blank lines
    included; at least one non-blank `lᵢ` starts with something that is neither space nor tab), the
    raw text handed to the escape decoder is exactly `l₁ \n … \n lₙ`: the common indentation —
    and nothing else — is removed, lines are joined by `\n`.
    Restriction: the statement starts from the lines as `collectLines` files them (`classify`), not
    from the source text.
    -- OPEN: `lexTriple ('\n' :: (ls.flatMap (ind ++ · ++ ['\n'])) ++ ws ++ ['"','"','"'] ++ rest)
    --        = (processEscapes (joinLines ls)).1 …` for lines without `\n` and `"""`, first line
    --        non-blank — needs the scanning lemmas for `splitLine`/`collectLines` (fuel, `startsTriple`
    --        over appends); not done for lack of time, the scan is covered by the correspondence. -/
theorem C30_strip_spec_partial (ind : List Char) (hind : IsIndent ind) (ls : List (List Char))
    (ha : ∃ l ∈ ls, isBlank (ind ++ l) = false ∧ indentOf l = 0) :
    let lines := ls.map (fun l => classify (ind ++ l))
    minIndent lines false = some (indentOf ind) ∧
      assemble lines false (minIndent lines false) = joinLines ls := by
  have h1 : minIndent (ls.map (fun l => classify (ind ++ l))) false = some (indentOf ind) :=
    minIndent_go_anchor ind hind ls ha
  refine ⟨h1, ?_⟩
  simp only [h1, assemble, Option.getD_some]
  exact assemble_go ind hind ls true


-- ---------------------------------------------------------------- non-vacuity and worked instances
example : NumSpelling (Nat.toDigits 10 (-9223372036854775808 : Int).natAbs) "9_223_372_036_854_775_808__".toList := by
  refine ⟨by decide +kernel, by decide +kernel, '9', _, rfl, by decide⟩
example : NumEnd " + 1".toList := by intro c r h; cases h; decide
example : NumEnd [] := by intro c r h; cases h
example : intLiteral true "9223372036854775808".toList = some (-9223372036854775808) := by decide +kernel
example : intLiteral false "9223372036854775808".toList = none := by decide +kernel
example : IsIndent [' ', '\t'] := by intro c h; simp at h; rcases h with rfl | rfl <;> simp
example : ∃ l ∈ ["hello".toList, [], "  world".toList],
    isBlank ([' ', '\t'] ++ l) = false ∧ indentOf l = 0 :=
  ⟨"hello".toList, by simp, by decide +kernel, by decide +kernel⟩
/- the pinned tests `multiline_string_strips_indent`, `…_blank_line`, `…_opener_residue`, and the
   repaired D40 / D42 shapes, evaluated by the model from the source text -/
example : (lexTriple "\n    hello\n    world\n    \"\"\"".toList).1 = "hello\nworld".toList := by decide +kernel
example : (lexTriple "\n    hello\n\n    world\n    \"\"\"".toList).1 = "hello\n\nworld".toList := by decide +kernel
example : (lexTriple "hello\n    world\n    \"\"\"".toList).1 = "hello\nworld".toList := by decide +kernel
example : (lexTriple "abc\n\n\"\"\"".toList).1 = "abc\n".toList := by decide +kernel
example : (lexTriple "\n\thello\n\t  world\n\t\"\"\"".toList).1 = "hello\n  world".toList := by decide +kernel

end Abra.Lex
