import AbraProofs.Lemmas.CompileSim6
import AbraModel.Pending
/-!
# C02 — compiled programs compute what the language reference specifies (fragment F0)

Models: `Abra.Sem` (reference interpreter, M7), `Abra.Compile` (`compileF0`: `compE`/`compS`/`compSs`,
M8), `Abra.VM` (VM core, M4).  The theorems quantify over all F0 expressions / programs, all
environments and all fuel; loops are handled by induction on the fuel.

* `C02_compile_correct_F0` — Leroy-style simulation for expressions: if the reference interpreter
  evaluates `e` to `v` in store `ρ'`, the VM run of `compile e` from the encoding of `ρ` reaches the end of
  the code with `v` pushed (nothing for void) and locals encoding `ρ'`; runtime errors map to the same kind;
  `break`/`continue` reach the enclosing loop's exit/entry with the operand stack the loop body started with:
  the `d` operands pushed since then are dropped, wherever in an expression the `break`/`continue` sits.
  Until 0c43abd this needed the side condition DepthSafe (no `break`/`continue` while an operand is pending: D21);
  the compile model now follows the repaired translator (pending-operand count, `Pop`s before the jump) and the
  theorem holds for every F0 program.
* `C02_compile_correct_F0_program` — the same for a whole `<main>` run from the initial state, no side condition.
* `C02_d21_witness_repaired`, `C02_break_pops_pending` — the former D21 counterexample (not DepthSafe) now prints
  105 on both sides; `break`/`continue` compiled at depth `d` are `d` `Pop`s and the jump.
* `C02_pending_*` — the operand-stack depth model `Abra.Pending` (every construct of the language, not only F0; tied to
  the Pops the real translator emits for every break/continue of the pending-jump family): the clauses the translator's
  hand adjustments have to meet, and its agreement with the F0 compile model on `break`/`continue`.
* `C02_reg_roundtrip`, `C02_reg_encode_range` — `Reg::encode` and the decoding in `load_offset_or_top`.

-- OPEN: `compile_correct` for the whole core language (functions, heap data, closures, match) is not
-- proved; those tiers are covered by the end-to-end differential tie only (props/C02.py level_note).
-/
namespace Abra.Compile
open Abra.Sem Abra.VM

/-- **Compiler correctness for F0 expressions.**  `compE … d e = some …` says `e` is in F0 and well typed and was
    compiled at a point where `d` operands are pending since the body of the enclosing loop began (`d ≤ |T|`: they are
    on the operand stack).  A `break`/`continue` inside `e` reaches the loop's exit/entry with exactly those `d`
    operands dropped (`dropPending T d`) — no DepthSafe side condition any more (fix 0c43abd). -/
theorem C02_compile_correct_F0 (W : World) (Pg : Prog) (fuel : Nat) (e : Expr) (st : St)
    (Γ : TEnv) (next d : Nat) (code : Code) (τ : Ty) (n' : Nat) (lc : Nat × Nat) (pos : Nat) (L T : List VM.Val)
    (hc : compE Γ next d e = some (code, τ, n')) (hd : d ≤ T.length)
    (hcode : codeAt W.P pos (resolveAt pos lc code))
    (henv : EnvRel L Γ st.env) (hwf : WfΓ Γ next) (hlen : n' ≤ L.length) :
    match evalE fuel Pg st e with
    | .ok v st' => ∃ L', Steps W.P (W.cfg pos L T st.out) (W.cfg (pos + code.length) L' (T ++ pushed v τ) st'.out)
        ∧ EnvRel L' Γ st'.env ∧ HasTy v τ
    | .sig (.err k) st' => ∃ s1 s2, Steps W.P (W.cfg pos L T st.out) s1
        ∧ VM.step W.P s1 = .error (encErr k) s2 ∧ s1.out = st'.out
    | .sig .brk st' => ∃ L', Steps W.P (W.cfg pos L T st.out) (W.cfg lc.2 L' (dropPending T d) st'.out) ∧ EnvRel L' Γ st'.env
    | .sig .cont st' => ∃ L', Steps W.P (W.cfg pos L T st.out) (W.cfg lc.1 L' (dropPending T d) st'.out) ∧ EnvRel L' Γ st'.env
    | _ => True := by
  have h := (sim_all W Pg fuel).1 e st Γ next code τ n' lc d pos L T hc hd hcode henv hwf hlen
  cases hr : evalE fuel Pg st e with
  | ok v st' =>
    rw [hr] at h
    obtain ⟨L', h1, h2, _, h4⟩ := h
    exact ⟨L', h1, h2, h4⟩
  | sig g st' =>
    rw [hr] at h
    cases g with
    | err k => exact h
    | brk => obtain ⟨L', h1, h2, _⟩ := h; exact ⟨L', h1, h2⟩
    | cont => obtain ⟨L', h1, h2, _⟩ := h; exact ⟨L', h1, h2⟩
    | ret v => trivial
  | timeout => trivial
  | stuck w => trivial


theorem step_error_out {P : Program} {s s' : State} {k : VM.Err} (h : VM.step P s = .error k s') : s'.out = s.out := by
  unfold VM.step at h
  repeat' split at h
  all_goals first
    | (cases h; done)
    | (cases h; rfl)
    | (simp at h; done)

/-- how the final value of `<main>` shows on the VM stack: on top for int/bool, absent for void -/
def FinalOnTop (v : Sem.Val) (stack : List VM.Val) : Prop :=
  ∃ below τ, HasTy v τ ∧ stack = below ++ pushed v τ

/-- **Compiler correctness for whole F0 programs** (`<main>` = `PushNil`, the statements, `Stop`): the
    compiled program, run from the initial VM state, stops with the output and final value the reference
    interpreter computes, or with the same runtime error kind and the output printed before it. -/
theorem C02_compile_correct_F0_program (ss : Stmts) (code : Program) (fuel : Nat)
    (hc : compileMain ss = some code) :
    match Sem.run fuel ⟨[], [], ss⟩ with
    | .done v _ out => ∃ m s, VM.run code m State.init = .done s ∧ s.out = out ∧ FinalOnTop v s.stack
    | .error k out => ∃ m s, VM.run code m State.init = .error (encErr k) s ∧ s.out = out
    | .timeout => True
    | .stuck _ => True := by
  unfold compileMain at hc
  split at hc
  · rename_i c τ n heq
    simp only [Option.some.injEq] at hc
    subst hc
    let W : World := { P := resolveAt 0 (0, 0) ([.pushNil n] ++ c ++ [.stop]), pre := [], frames := [], heap := [] }
    have hP : W.P = [.pushNil n] ++ resolveAt 1 (0, 0) c ++ [.stop] := by
      simp only [W, resolveAt_append, resolveAt, mapT, List.length_cons, List.length_nil, Nat.zero_add]
    have hcodeAt : codeAt W.P 1 (resolveAt 1 (0, 0) c) := ⟨[.pushNil n], [.stop], hP, rfl⟩
    have h0 : W.P[0]? = some (.pushNil n) := by rw [hP]; rfl
    have hstop : W.P[1 + c.length]? = some .stop := by
      rw [hP, List.getElem?_append_right (by simp; omega)]
      have : 1 + c.length - ([Instr.pushNil n] ++ resolveAt 1 (0, 0) c).length = 0 := by simp; omega
      rw [this]; rfl
    let L0 : List VM.Val := List.replicate n (.int 0)
    have hinit : VM.step W.P State.init = .ok (W.cfg 1 L0 [] []) := by
      simp only [VM.step, State.init, h0, World.cfg, W, L0, List.nil_append, List.append_nil, Nat.zero_add,
        List.length_nil]
    have hsim := (sim_all W ⟨[], [], ss⟩ fuel).2.2 ss St.init [] 0 true c τ n (0, 0) 0 1 L0 [] heq (Nat.zero_le _) hcodeAt
      .nil trivial (by simp [L0])
    simp only [Sem.run]
    cases hr : evalSs fuel ⟨[], [], ss⟩ St.init ss with
    | ok v st' =>
      rw [hr] at hsim
      obtain ⟨L', hst, _, _, hty⟩ := hsim
      simp only [if_true, List.nil_append] at hst
      have hdone : VM.run W.P 1 (W.cfg (1 + c.length) L' (pushed v τ) st'.out)
          = .done (W.cfg (1 + c.length) L' (pushed v τ) st'.out) := by
        simp only [VM.run, VM.step, World.cfg, hstop]
      obtain ⟨m, hm⟩ := run_of_steps ((Steps.single hinit).trans hst) 1 _ hdone (by intro s h; cases h)
      refine ⟨m, _, hm, rfl, L', τ, hty rfl, ?_⟩
      simp [World.cfg, W]
    | sig g st' =>
      rw [hr] at hsim
      cases g with
      | err k =>
        obtain ⟨s1, s2, hst, hstep, hout⟩ := hsim
        have herr : VM.run W.P 1 s1 = .error (encErr k) s2 := by simp only [VM.run, hstep]
        obtain ⟨m, hm⟩ := run_of_steps ((Steps.single hinit).trans hst) 1 _ herr (by intro s h; cases h)
        exact ⟨m, s2, hm, by rw [step_error_out hstep, hout]⟩
      | brk => trivial
      | cont => trivial
      | ret v => exact hsim.elim
    | timeout => trivial
    | stuck w => trivial
  · simp at hc

/-- `Reg::encode` followed by the decoding of `load_offset_or_top` is the identity. -/
theorem C02_reg_roundtrip (r : Reg) (w : Nat) (h : encodeReg r = some w) : decodeReg w = r := by
  cases r with
  | top => simp [encodeReg] at h; subst h; decide
  | off n =>
    simp only [encodeReg] at h
    split at h
    · rename_i hr
      simp only [Option.some.injEq] at h
      subst h
      unfold decodeReg
      have h1 : ((n % 65536).toNat % 32768) / 32768 % 2 = 0 := by omega
      simp only [h1]
      simp
      omega
    · simp at h

/-- `Reg::encode` panics exactly on offsets outside the 15-bit range, and its result fits 16 bits. -/
theorem C02_reg_encode_range (r : Reg) :
    (encodeReg r = none ↔ ∃ n, r = .off n ∧ (n < -16384 ∨ 16383 < n)) ∧ (∀ w, encodeReg r = some w → w < 65536) := by
  cases r with
  | top => simp [encodeReg]
  | off n =>
    simp only [encodeReg]
    constructor
    · constructor
      · intro h
        split at h
        · simp at h
        · exact ⟨n, rfl, by omega⟩
      · rintro ⟨m, hm, hr⟩
        cases hm
        split
        · omega
        · rfl
    · intro w h
      split at h
      · simp only [Option.some.injEq] at h; omega
      · simp at h

/-- The former D21 witness: `var s = 10; let r = 100 + { while true { s + { if true { break } else { }; 1 } }; 5 };
    println(r)` — an F0 program in which `break` runs while two operands (`100`, `s`) are pending. -/
def d21Witness : Stmts :=
  Stmts.ofList [
    .let_ (.bind "s") (.int 10),
    .let_ (.bind "r") (.bin .add (.int 100) (.block (Stmts.ofList [
        .while_ (.bool true) (Stmts.ofList [
          .expr (.bin .add (.var "s") (.block (Stmts.ofList [
            .expr (.ite (.bool true) (.block (Stmts.ofList [.break_])) (.block .nil)),
            .expr (.int 1)])))]),
        .expr (.int 5)]))),
    .expr (.print (.var "r"))]

/-- `var i = 0; var acc = 0; while i < 4 { i += 1; acc = acc + i * { if i == 2 { continue } else { }; 10 } };
    println(acc)`: `continue` with `acc` and `i` pending, inside a compound right-hand side -/
def continueWitness : Stmts :=
  Stmts.ofList [
    .let_ (.bind "i") (.int 0),
    .let_ (.bind "acc") (.int 0),
    .while_ (.bin .lt (.var "i") (.int 4)) (Stmts.ofList [
      .assign "i" .add (.int 1),
      .assign "acc" .set (.bin .add (.var "acc") (.bin .mul (.var "i") (.block (Stmts.ofList [
        .expr (.ite (.bin .eq (.var "i") (.int 2)) (.block (Stmts.ofList [.continue_])) (.block .nil)),
        .expr (.int 10)]))))]),
    .expr (.print (.var "acc"))]

def semOut : Outcome → Option (List String)
  | .done _ _ out => some out
  | _ => none

def vmOut : RunResult → Option (List String)
  | .done s => some s.out
  | _ => none

/-- **The D21 counterexample is repaired.**  The witness is not DepthSafe (the historical side condition), the
    reference prints 105, and the code of the compile model — `Pop`s before the jump of `break`, as the translator
    emits them since 0c43abd — run by the VM core prints 105 too (15 before the fix).  The second program does the
    same for `continue` under two pending operands. -/
theorem C02_d21_witness_repaired :
    depthSafeSs 0 d21Witness = false ∧
    semOut (Sem.run 100 ⟨[], [], d21Witness⟩) = some ["105\n"] ∧
    (compileMain d21Witness).map (fun code => vmOut (VM.run code 100 State.init)) = some (some ["105\n"]) ∧
    depthSafeSs 0 continueWitness = false ∧
    semOut (Sem.run 100 ⟨[], [], continueWitness⟩) = some ["80\n"] ∧
    (compileMain continueWitness).map (fun code => vmOut (VM.run code 300 State.init)) = some (some ["80\n"]) := by
  refine ⟨by decide, by decide +kernel, by decide +kernel, by decide, by decide +kernel, by decide +kernel⟩

/-- `break`/`continue` translated where `d` operands are pending: `d` `Pop`s, then the jump (fix 0c43abd:
    `for _ in enclosing_loop.pending_operands..st.pending_operands { emit(Pop) }`) -/
theorem C02_break_pops_pending (Γ : TEnv) (next d : Nat) (il : Bool) :
    compS Γ next d il .break_ = some (List.replicate d .pop ++ [.jump .brk], .unit, Γ, next) ∧
    compS Γ next d il .continue_ = some (List.replicate d .pop ++ [.jump .cont], .unit, Γ, next) := ⟨rfl, rfl⟩

/-- a finished run does not depend on the fuel it was given -/
theorem run_done_unique {P : Program} : ∀ (n m : Nat) (s s1 s2 : State),
    VM.run P n s = .done s1 → VM.run P m s = .done s2 → s1 = s2 := by
  intro n
  induction n with
  | zero => intro m s s1 s2 h; simp [VM.run] at h
  | succ n ih =>
    intro m s s1 s2 h1 h2
    cases m with
    | zero => simp [VM.run] at h2
    | succ m =>
      simp only [VM.run] at h1 h2
      cases hs : VM.step P s with
      | ok s' => rw [hs] at h1 h2; exact ih m s' s1 s2 h1 h2
      | error k s' => rw [hs] at h1; cases h1
      | done s' => rw [hs] at h1 h2; cases h1; cases h2; rfl
      | fault f => rw [hs] at h1; cases h1

/-! ### non-vacuity: the hypotheses are satisfiable by non-trivial programs -/

/-- `var i = 0; var s = 0; while i < 3 { i += 1; if i == 2 { continue } else { }; s = s + i * 2 }; println(s); s` -/
def loopExample : Stmts :=
  Stmts.ofList [
    .let_ (.bind "i") (.int 0),
    .let_ (.bind "s") (.int 0),
    .while_ (.bin .lt (.var "i") (.int 3)) (Stmts.ofList [
      .assign "i" .add (.int 1),
      .expr (.ite (.bin .eq (.var "i") (.int 2)) (.block (Stmts.ofList [.continue_])) (.block .nil)),
      .assign "s" .set (.bin .add (.var "s") (.bin .mul (.var "i") (.int 2)))]),
    .expr (.print (.var "s")),
    .expr (.var "s")]

example : (compileMain loopExample).isSome = true ∧ (compileMain d21Witness).isSome = true ∧
    (compileMain continueWitness).isSome = true := by decide

/-- the expression theorem at depth 1: `{ if b { break } else { }; 7 }` compiled as the right operand of a `+` -/
example : (compE [("b", 0, .bool)] 1 1 (.block (Stmts.ofList [
      .expr (.ite (.var "b") (.block (Stmts.ofList [.break_])) (.block .nil)), .expr (.int 7)]))).isSome = true := by decide

example : semOut (Sem.run 100 ⟨[], [], loopExample⟩) = some ["8\n"] ∧
    (compileMain loopExample).map (fun code => vmOut (VM.run code 200 State.init)) = some (some ["8\n"]) := by
  refine ⟨by decide +kernel, by decide +kernel⟩

example : encodeReg (.off (-3)) = some 32765 ∧ decodeReg 32765 = .off (-3) ∧ encodeReg (.off 16384) = none := by decide

end Abra.Compile

namespace Abra.Pending

/-- The two models agree on the jump statements (both by definition): the depth model assigns `d` Pops to a
    `break`/`continue` reached at depth `d`, and the F0 compile model `compS` emits `d` `Pop`s and the jump there.  That `d`
    IS the number of operands on the stack is not this statement: for F0 it is what `C02_compile_correct_F0` shows, beyond
    F0 it is checked by the harness tie (`pending …`) only. -/
theorem C02_pending_jump_at_depth (d : Nat) (Γ : Abra.Compile.TEnv) (next : Nat) (il : Bool) :
    popsS d .brk = [d] ∧ popsS d .cont = [d] ∧
    Abra.Compile.compS Γ next d il .break_ = some (List.replicate d .pop ++ [.jump .brk], .unit, Γ, next) ∧
    Abra.Compile.compS Γ next d il .continue_ = some (List.replicate d .pop ++ [.jump .cont], .unit, Γ, next) :=
  ⟨rfl, rfl, rfl, rfl⟩

/-- Clause of the depth model `Abra.Pending` (true by its definition; the model is tied to the real translator by the
    harness, `pending …`). **The constant pushed by hand for unary minus is a pending operand** while the operand runs — for `int`
    (`PushInt 0`) and for `float` (`PushFloat -0.0`) alike (the line removed by seed C01-r3), and it adds up when
    negations nest. -/
theorem C02_pending_neg_constant_counted (d n : Nat) (v : Bool) (e : PE) :
    popsE d (.pre n v e) = popsE (d + n) e ∧
    popsE d (.pre 1 true (.pre 1 true (.block true (PSs.ofList [.brk])))) = [d + 2] :=
  ⟨by simp [popsE], by simp [popsE, popsSs, popsS, PSs.ofList]⟩

/-- Clause of the depth model `Abra.Pending` (true by its definition; the model is tied to the real translator by the
    harness, `pending …`). **Operands wait for the operands to their right**, void ones take no slot. -/
theorem C02_pending_operands_wait (d : Nat) (v : Bool) (a b : PE) :
    popsE d (.seq v (PEs.ofList [a, b])) = popsE d a ++ popsE (if a.valued then d + 1 else d) b := by
  simp [popsE, popsArgs, PEs.ofList, bump]

/-- Clause of the depth model `Abra.Pending` (true by its definition; the model is tied to the real translator by the
    harness, `pending …`). **`a[i] op= e`**: array and index go straight into their temporaries — nothing is pending while the index
    expression runs — and array, index and old element wait for the right-hand side. -/
theorem C02_pending_compound_index (d : Nat) (a i rhs : PE) :
    popsS d (.compoundIndex a i rhs) = popsE d a ++ popsE d i ++ popsE (d + 3) rhs := by
  simp [popsS]

/-- Clause of the depth model `Abra.Pending` (true by its definition; the model is tied to the real translator by the
    harness, `pending …`). **A loop body starts a new count; the loop head still belongs to the enclosing loop.** -/
theorem C02_pending_loop_resets (d : Nat) (c it : PE) (body : PSs) :
    popsS d (.while_ c body) = popsE d c ++ popsSs 0 body ∧ popsS d (.for_ it body) = popsE d it ++ popsSs 0 body := by
  simp [popsS]

/-- the former D21 witness in the depth model: `100 + { while true { s + { if true { break } else { }; 1 } }; 5 }` —
    `100` was pushed before the loop body began and stays, `s` is the one operand the `break` has to drop -/
example : popsSs 0 (PSs.ofList [.let_ (.seq true (PEs.ofList [.leaf true, .block true (PSs.ofList [
      .while_ (.leaf true) (PSs.ofList [.expr (.seq true (PEs.ofList [.leaf true, .block true (PSs.ofList [
        .expr (.ite false (.leaf true) (.block false (PSs.ofList [.brk])) (.block false .nil)), .expr (.leaf true)])]))]),
      .expr (.leaf true)])]))]) = [1] := by decide

end Abra.Pending
