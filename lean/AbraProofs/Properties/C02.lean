import AbraProofs.Lemmas.CompileSim6
/-!
# C02 — compiled programs compute what the language reference specifies (fragment F0)

Models: `Abra.Sem` (reference interpreter, M7), `Abra.Compile` (`compileF0`: `compE`/`compS`/`compSs`,
M8), `Abra.VM` (VM core, M4).  The theorems quantify over all F0 expressions / programs, all
environments and all fuel; loops are handled by induction on the fuel.

* `C02_compile_correct_F0` — Leroy-style simulation for expressions: if the reference interpreter
  evaluates `e` to `v` in store `ρ'`, the VM run of `compile e` from the encoding of `ρ` reaches the end of
  the code with `v` pushed (nothing for void) and locals encoding `ρ'`; runtime errors map to the same kind;
  `break`/`continue` reach the enclosing loop's exit/entry with the operand stack of the loop.
* `C02_compile_correct_F0_program` — the same for a whole `<main>` run from the initial state.
* `C02_depth_unsafe_counterexample` — without `DepthSafe` the statement is false (D21): a concrete F0
  program whose compiled code prints 15 where the reference prints 105.
* `C02_reg_roundtrip`, `C02_reg_encode_range` — `Reg::encode` and the decoding in `load_offset_or_top`.

-- OPEN: `compile_correct` for the whole core language (functions, heap data, closures, match) is not
-- proved; those tiers are covered by the end-to-end differential tie only (props/C02.py level_note).
-/
namespace Abra.Compile
open Abra.Sem Abra.VM

/-- **Compiler correctness for F0 expressions.**  `compE … e = some …` says `e` is in F0 and well typed;
    `depthSafeE 0 e` is the DepthSafe hypothesis. -/
theorem C02_compile_correct_F0 (W : World) (Pg : Prog) (fuel : Nat) (e : Expr) (st : St)
    (Γ : TEnv) (next : Nat) (code : Code) (τ : Ty) (n' : Nat) (lc : Nat × Nat) (pos : Nat) (L T : List VM.Val)
    (hc : compE Γ next e = some (code, τ, n')) (hd : depthSafeE 0 e = true)
    (hcode : codeAt W.P pos (resolveAt pos lc code))
    (henv : EnvRel L Γ st.env) (hwf : WfΓ Γ next) (hlen : n' ≤ L.length) :
    match evalE fuel Pg st e with
    | .ok v st' => ∃ L', Steps W.P (W.cfg pos L T st.out) (W.cfg (pos + code.length) L' (T ++ pushed v τ) st'.out)
        ∧ EnvRel L' Γ st'.env ∧ HasTy v τ
    | .sig (.err k) st' => ∃ s1 s2, Steps W.P (W.cfg pos L T st.out) s1
        ∧ VM.step W.P s1 = .error (encErr k) s2 ∧ s1.out = st'.out
    | .sig .brk st' => ∃ L', Steps W.P (W.cfg pos L T st.out) (W.cfg lc.2 L' T st'.out) ∧ EnvRel L' Γ st'.env
    | .sig .cont st' => ∃ L', Steps W.P (W.cfg pos L T st.out) (W.cfg lc.1 L' T st'.out) ∧ EnvRel L' Γ st'.env
    | _ => True := by
  have h := (sim_all W Pg fuel).1 e st Γ next code τ n' lc 0 pos L T hc hd hcode henv hwf hlen
  cases hr : evalE fuel Pg st e with
  | ok v st' =>
    rw [hr] at h
    obtain ⟨L', h1, h2, _, h4⟩ := h
    exact ⟨L', h1, h2, h4⟩
  | sig g st' =>
    rw [hr] at h
    cases g with
    | err k => exact h
    | brk => obtain ⟨_, L', h1, h2, _⟩ := h; exact ⟨L', h1, h2⟩
    | cont => obtain ⟨_, L', h1, h2, _⟩ := h; exact ⟨L', h1, h2⟩
    | ret v => trivial
  | timeout => trivial
  | stuck w => trivial


theorem step_error_out {P : Program} {s s' : State} {k : VM.Err} (h : VM.step P s = .error k s') : s'.out = s.out := by
  unfold VM.step at h
  repeat' split at h
  all_goals first
    | (cases h; done)
    | (cases h; rfl)
    | (simp at h; done)

/-- how the final value of `<main>` shows on the VM stack: on top for int/bool, absent for void -/
def FinalOnTop (v : Sem.Val) (stack : List VM.Val) : Prop :=
  ∃ below τ, HasTy v τ ∧ stack = below ++ pushed v τ

/-- **Compiler correctness for whole F0 programs** (`<main>` = `PushNil`, the statements, `Stop`): the
    compiled program, run from the initial VM state, stops with the output and final value the reference
    interpreter computes, or with the same runtime error kind and the output printed before it. -/
theorem C02_compile_correct_F0_program (ss : Stmts) (code : Program) (fuel : Nat)
    (hc : compileMain ss = some code) (hd : depthSafeSs 0 ss = true) :
    match Sem.run fuel ⟨[], [], ss⟩ with
    | .done v _ out => ∃ m s, VM.run code m State.init = .done s ∧ s.out = out ∧ FinalOnTop v s.stack
    | .error k out => ∃ m s, VM.run code m State.init = .error (encErr k) s ∧ s.out = out
    | .timeout => True
    | .stuck _ => True := by
  unfold compileMain at hc
  split at hc
  · rename_i c τ n heq
    simp only [Option.some.injEq] at hc
    subst hc
    let W : World := { P := resolveAt 0 (0, 0) ([.pushNil n] ++ c ++ [.stop]), pre := [], frames := [], heap := [] }
    have hP : W.P = [.pushNil n] ++ resolveAt 1 (0, 0) c ++ [.stop] := by
      simp only [W, resolveAt_append, resolveAt, mapT, List.length_cons, List.length_nil, Nat.zero_add]
    have hcodeAt : codeAt W.P 1 (resolveAt 1 (0, 0) c) := ⟨[.pushNil n], [.stop], hP, rfl⟩
    have h0 : W.P[0]? = some (.pushNil n) := by rw [hP]; rfl
    have hstop : W.P[1 + c.length]? = some .stop := by
      rw [hP, List.getElem?_append_right (by simp; omega)]
      have : 1 + c.length - ([Instr.pushNil n] ++ resolveAt 1 (0, 0) c).length = 0 := by simp; omega
      rw [this]; rfl
    let L0 : List VM.Val := List.replicate n (.int 0)
    have hinit : VM.step W.P State.init = .ok (W.cfg 1 L0 [] []) := by
      simp only [VM.step, State.init, h0, World.cfg, W, L0, List.nil_append, List.append_nil, Nat.zero_add,
        List.length_nil]
    have hsim := (sim_all W ⟨[], [], ss⟩ fuel).2.2 ss St.init [] 0 true c τ n (0, 0) 0 1 L0 [] heq hd hcodeAt
      .nil trivial (by simp [L0])
    simp only [Sem.run]
    cases hr : evalSs fuel ⟨[], [], ss⟩ St.init ss with
    | ok v st' =>
      rw [hr] at hsim
      obtain ⟨L', hst, _, _, hty⟩ := hsim
      simp only [if_true, List.nil_append] at hst
      have hdone : VM.run W.P 1 (W.cfg (1 + c.length) L' (pushed v τ) st'.out)
          = .done (W.cfg (1 + c.length) L' (pushed v τ) st'.out) := by
        simp only [VM.run, VM.step, World.cfg, hstop]
      obtain ⟨m, hm⟩ := run_of_steps ((Steps.single hinit).trans hst) 1 _ hdone (by intro s h; cases h)
      refine ⟨m, _, hm, rfl, L', τ, hty rfl, ?_⟩
      simp [World.cfg, W]
    | sig g st' =>
      rw [hr] at hsim
      cases g with
      | err k =>
        obtain ⟨s1, s2, hst, hstep, hout⟩ := hsim
        have herr : VM.run W.P 1 s1 = .error (encErr k) s2 := by simp only [VM.run, hstep]
        obtain ⟨m, hm⟩ := run_of_steps ((Steps.single hinit).trans hst) 1 _ herr (by intro s h; cases h)
        exact ⟨m, s2, hm, by rw [step_error_out hstep, hout]⟩
      | brk => trivial
      | cont => trivial
      | ret v => exact hsim.elim
    | timeout => trivial
    | stuck w => trivial
  · simp at hc

/-- `Reg::encode` followed by the decoding of `load_offset_or_top` is the identity. -/
theorem C02_reg_roundtrip (r : Reg) (w : Nat) (h : encodeReg r = some w) : decodeReg w = r := by
  cases r with
  | top => simp [encodeReg] at h; subst h; decide
  | off n =>
    simp only [encodeReg] at h
    split at h
    · rename_i hr
      simp only [Option.some.injEq] at h
      subst h
      unfold decodeReg
      have h1 : ((n % 65536).toNat % 32768) / 32768 % 2 = 0 := by omega
      simp only [h1]
      simp
      omega
    · simp at h

/-- `Reg::encode` panics exactly on offsets outside the 15-bit range, and its result fits 16 bits. -/
theorem C02_reg_encode_range (r : Reg) :
    (encodeReg r = none ↔ ∃ n, r = .off n ∧ (n < -16384 ∨ 16383 < n)) ∧ (∀ w, encodeReg r = some w → w < 65536) := by
  cases r with
  | top => simp [encodeReg]
  | off n =>
    simp only [encodeReg]
    constructor
    · constructor
      · intro h
        split at h
        · simp at h
        · exact ⟨n, rfl, by omega⟩
      · rintro ⟨m, hm, hr⟩
        cases hm
        split
        · omega
        · rfl
    · intro w h
      split at h
      · simp only [Option.some.injEq] at h; omega
      · simp at h

/-- The D21 witness: `var s = 10; let r = 100 + { while true { s + { if true { break } else { }; 1 } }; 5 };
    println(r)` — an F0 program that the compile model accepts and that is *not* DepthSafe. -/
def d21Witness : Stmts :=
  Stmts.ofList [
    .let_ (.bind "s") (.int 10),
    .let_ (.bind "r") (.bin .add (.int 100) (.block (Stmts.ofList [
        .while_ (.bool true) (Stmts.ofList [
          .expr (.bin .add (.var "s") (.block (Stmts.ofList [
            .expr (.ite (.bool true) (.block (Stmts.ofList [.break_])) (.block .nil)),
            .expr (.int 1)])))]),
        .expr (.int 5)]))),
    .expr (.print (.var "r"))]

def semOut : Outcome → Option (List String)
  | .done _ _ out => some out
  | _ => none

def vmOut : RunResult → Option (List String)
  | .done s => some s.out
  | _ => none

/-- **Without DepthSafe the correctness statement fails** (D21): the reference prints 105, the compiled
    code — which the VM runs to completion without any fault — prints 15 (the operand pushed before the
    `break` is consumed by the outer addition). -/
theorem C02_depth_unsafe_counterexample :
    depthSafeSs 0 d21Witness = false ∧
    semOut (Sem.run 100 ⟨[], [], d21Witness⟩) = some ["105\n"] ∧
    (compileMain d21Witness).map (fun code => vmOut (VM.run code 100 State.init)) = some (some ["15\n"]) := by
  refine ⟨by decide, by decide +kernel, by decide +kernel⟩

/-- a finished run does not depend on the fuel it was given -/
theorem run_done_unique {P : Program} : ∀ (n m : Nat) (s s1 s2 : State),
    VM.run P n s = .done s1 → VM.run P m s = .done s2 → s1 = s2 := by
  intro n
  induction n with
  | zero => intro m s s1 s2 h; simp [VM.run] at h
  | succ n ih =>
    intro m s s1 s2 h1 h2
    cases m with
    | zero => simp [VM.run] at h2
    | succ m =>
      simp only [VM.run] at h1 h2
      cases hs : VM.step P s with
      | ok s' => rw [hs] at h1 h2; exact ih m s' s1 s2 h1 h2
      | error k s' => rw [hs] at h1; cases h1
      | done s' => rw [hs] at h1 h2; cases h1; cases h2; rfl
      | fault f => rw [hs] at h1; cases h1

/-- the program theorem is false once the DepthSafe hypothesis is dropped -/
theorem C02_compile_correct_F0_needs_depth_safe :
    ¬ ∀ (ss : Stmts) (code : Program) (fuel : Nat), compileMain ss = some code →
      match Sem.run fuel ⟨[], [], ss⟩ with
      | .done v _ out => ∃ m s, VM.run code m State.init = .done s ∧ s.out = out ∧ FinalOnTop v s.stack
      | .error k out => ∃ m s, VM.run code m State.init = .error (encErr k) s ∧ s.out = out
      | .timeout => True
      | .stuck _ => True := by
  intro hall
  obtain ⟨_, hsem, hvm⟩ := C02_depth_unsafe_counterexample
  cases hc : compileMain d21Witness with
  | none => rw [hc] at hvm; simp at hvm
  | some code =>
    rw [hc] at hvm
    simp only [Option.map_some, Option.some.injEq] at hvm
    have h := hall d21Witness code 100 hc
    cases hr : Sem.run 100 ⟨[], [], d21Witness⟩ with
    | done v hp out =>
      rw [hr] at h hsem
      simp only [semOut, Option.some.injEq] at hsem
      obtain ⟨m, s, hrun, hout, _⟩ := h
      cases hr2 : VM.run code 100 State.init with
      | done s2 =>
        rw [hr2] at hvm
        simp only [vmOut, Option.some.injEq] at hvm
        have := run_done_unique m 100 _ _ _ hrun hr2
        subst this
        rw [hout, hsem] at hvm
        exact absurd hvm (by decide)
      | error k s2 => rw [hr2] at hvm; simp [vmOut] at hvm
      | fault f => rw [hr2] at hvm; simp [vmOut] at hvm
      | outOfFuel s2 => rw [hr2] at hvm; simp [vmOut] at hvm
    | error k out => rw [hr] at hsem; simp [semOut] at hsem
    | timeout => rw [hr] at hsem; simp [semOut] at hsem
    | stuck w => rw [hr] at hsem; simp [semOut] at hsem

/-! ### non-vacuity: the hypotheses are satisfiable by non-trivial programs -/

/-- `var i = 0; var s = 0; while i < 3 { i += 1; if i == 2 { continue } else { }; s = s + i * 2 }; println(s); s` -/
def loopExample : Stmts :=
  Stmts.ofList [
    .let_ (.bind "i") (.int 0),
    .let_ (.bind "s") (.int 0),
    .while_ (.bin .lt (.var "i") (.int 3)) (Stmts.ofList [
      .assign "i" .add (.int 1),
      .expr (.ite (.bin .eq (.var "i") (.int 2)) (.block (Stmts.ofList [.continue_])) (.block .nil)),
      .assign "s" .set (.bin .add (.var "s") (.bin .mul (.var "i") (.int 2)))]),
    .expr (.print (.var "s")),
    .expr (.var "s")]

example : (compileMain loopExample).isSome = true ∧ depthSafeSs 0 loopExample = true := by decide

example : semOut (Sem.run 100 ⟨[], [], loopExample⟩) = some ["8\n"] ∧
    (compileMain loopExample).map (fun code => vmOut (VM.run code 200 State.init)) = some (some ["8\n"]) := by
  refine ⟨by decide +kernel, by decide +kernel⟩

example : encodeReg (.off (-3)) = some 32765 ∧ decodeReg 32765 = .off (-3) ∧ encodeReg (.off 16384) = none := by decide

end Abra.Compile
