import AbraProofs.Properties.C12
/-!
# C13 — an arm is reported redundant exactly when no value can reach it

`check` returns one `useful` flag per arm (`match_expr_exhaustive_check` reports the arms whose flag
is `false` as redundant).  Both directions are read off the invariant `compute_good`
(Lemmas/PatMatrix.lean): the flag of arm `i` is `true` iff some well-typed value reaches arm `i`
first.  Float literal constructors carry the parsed bit pattern (the repaired behaviour of D15), so
`1.0` and `1.00` are the same constructor (the same `Pat.float bits` in the model).
-/
namespace Abra.PatMatrix

/-- **Reported redundant ⇒ unreachable**: every value the arm matches is matched by an earlier arm. -/
theorem C13_useless_sound {env : EnumEnv} (hinh : Inhabited' env) {fuel : Nat} {ty : Ty} {arms : List Pat}
    (htyped : ∀ p ∈ arms, patTyped env p ty = true) {flags : List Bool} {wits : List DPat}
    (h : check env fuel ty arms = some (flags, wits)) (i : Nat) (hi : i < arms.length)
    (hflag : flags.getD i false = false) :
    ∀ v, hasTy env v ty = true → pmatch arms[i] v = true → ∃ j, ∃ hj : j < i, pmatch (arms[j]'(by omega)) v = true := by
  intro v hv hm
  have G := check_good hinh htyped h
  -- some arm matches, so there is a first one; it is not `i`, because `i` is not flagged
  cases hf : arms.findIdx? (fun p => pmatch p v) with
  | none =>
    have := List.findIdx?_eq_none_iff.1 hf arms[i] (List.getElem_mem hi)
    simp [hm] at this
  | some k =>
    obtain ⟨hk, hpk, hmin⟩ := List.findIdx?_eq_some_iff_getElem.1 hf
    have hki : k ≤ i := by
      rcases Nat.lt_or_ge i k with h' | h'
      · exact absurd hm (by simpa using hmin i h')
      · exact h'
    rcases Nat.lt_or_eq_of_le hki with hlt | heq
    · exact ⟨k, hlt, hpk⟩
    · subst heq
      have := (G.useful k hi).2 ⟨v, hv, hf⟩
      rw [hflag] at this; exact absurd this (by simp)

/-- **Not reported ⇒ reachable**: a useful arm has a well-typed value that it matches and no earlier
    arm matches. -/
theorem C13_useful_complete {env : EnumEnv} (hinh : Inhabited' env) {fuel : Nat} {ty : Ty} {arms : List Pat}
    (htyped : ∀ p ∈ arms, patTyped env p ty = true) {flags : List Bool} {wits : List DPat}
    (h : check env fuel ty arms = some (flags, wits)) (i : Nat) (hi : i < arms.length)
    (hflag : flags.getD i false = true) :
    ∃ v, hasTy env v ty = true ∧ pmatch arms[i] v = true ∧
      ∀ j, ∀ hj : j < i, pmatch (arms[j]'(by omega)) v = false := by
  obtain ⟨v, hv, hf⟩ := ((check_good hinh htyped h).useful i hi).1 hflag
  obtain ⟨_, hp, hmin⟩ := List.findIdx?_eq_some_iff_getElem.1 hf
  exact ⟨v, hv, hp, fun j hj => by simpa using hmin j hj⟩

/-- the two directions as one statement: reported redundant iff no value reaches the arm first -/
theorem C13_redundant_iff {env : EnumEnv} (hinh : Inhabited' env) {fuel : Nat} {ty : Ty} {arms : List Pat}
    (htyped : ∀ p ∈ arms, patTyped env p ty = true) {flags : List Bool} {wits : List DPat}
    (h : check env fuel ty arms = some (flags, wits)) (i : Nat) (hi : i < arms.length) :
    flags.getD i false = false ↔
      ¬ ∃ v, hasTy env v ty = true ∧ arms.findIdx? (fun p => pmatch p v) = some i := by
  rw [← (check_good hinh htyped h).useful i hi]; simp

/-- one flag per arm -/
theorem C13_flags_length {env : EnumEnv} (hinh : Inhabited' env) {fuel : Nat} {ty : Ty} {arms : List Pat}
    (htyped : ∀ p ∈ arms, patTyped env p ty = true) {flags : List Bool} {wits : List DPat}
    (h : check env fuel ty arms = some (flags, wits)) : flags.length = arms.length :=
  (check_good hinh htyped h).len

/-- **A repeated pattern is redundant**: an arm whose pattern is the pattern of an earlier arm is never
    flagged useful, for every type and every pattern kind.  (Float literal patterns carry their parsed
    bits in the model, so two spellings of one double are the same `Pat`; that the harness and the
    checker parse `1.0` and `1.00` to the same bits is part of the tie, not of this theorem.) -/
theorem C13_repeated_arm_redundant {env : EnumEnv} (hinh : Inhabited' env) {fuel : Nat} {ty : Ty} {arms : List Pat}
    (htyped : ∀ p ∈ arms, patTyped env p ty = true) {flags : List Bool} {wits : List DPat}
    (h : check env fuel ty arms = some (flags, wits)) (i j : Nat) (hij : i < j) (hj : j < arms.length)
    (heq : arms[i]'(by omega) = arms[j]) : flags.getD j false = false := by
  cases hf : flags.getD j false with
  | false => rfl
  | true =>
    obtain ⟨v, _, hm, hmin⟩ := C13_useful_complete hinh htyped h j hj hf
    have h0 := hmin i hij
    rw [heq, hm] at h0
    exact absurd h0 (by simp)

/-- the special case "two leading arms with the same float bits": the second is redundant -/
theorem C13_equal_float_redundant {env : EnumEnv} (hinh : Inhabited' env) {fuel : Nat} (bits : Nat)
    (rest : List Pat) (hrest : ∀ p ∈ rest, patTyped env p .float = true) {flags : List Bool} {wits : List DPat}
    (h : check env fuel .float (.float bits :: .float bits :: rest) = some (flags, wits)) :
    flags.getD 1 false = false := by
  have htyped : ∀ p ∈ (Pat.float bits :: Pat.float bits :: rest), patTyped env p .float = true := by
    intro p hp
    simp only [List.mem_cons] at hp
    rcases hp with rfl | rfl | hp
    · rfl
    · rfl
    · exact hrest p hp
  cases hf : flags.getD 1 false with
  | false => rfl
  | true =>
    obtain ⟨v, _, hm, hmin⟩ := C13_useful_complete hinh htyped h 1 (by simp) hf
    have h0 := hmin 0 (by omega)
    simp only [List.getElem_cons_succ, List.getElem_cons_zero] at hm h0
    rw [hm] at h0; exact absurd h0 (by simp)

/-! Non-vacuity (the environment and arms of C12): every arm of `exArms` is useful; a repeated arm
    and an arm after a catch-all are not. -/

example : (check exEnv 20 exTy exArms).map (fun r => r.1) = some [true, true, true] := by decide +kernel

example : (check exEnv 20 exTy (exArms ++ [.wild, .tuple [.variant0 0 1, .bool true]])).map (fun r => r.1)
    = some [true, true, true, true, false] := by decide +kernel

example : (check exEnv 20 .float [.float 4607182418800017408, .float 4607182418800017408, .wild]).map
    (fun r => r.1) = some [true, false, true] := by decide +kernel

end Abra.PatMatrix
