import AbraProofs.Lemmas.Arr
import AbraProofs.Lemmas.ArrClone
/-!
# C26 — array operations match a list model and fail cleanly

Model: `Abra.Lib.Arr` (`AbraModel/Lib/Arr.lean`): the VM's array instructions on an explicit heap of
arrays (a value of array type is an address, so aliasing is visible) and the prelude's extension
functions written on top of them as the Abra source spells them.  Every theorem is about an
arbitrary heap `h`, an arbitrary allocated address `a` and arbitrary (64-bit) indices; the
specification side is in terms of `List` (`++`, `set`, `dropLast`, `getLast`, `getD`, `findIdx?`, `any`,
`replicate`, `map`).  "Frame" = every other array of the heap is untouched.
-/
namespace Abra.Lib.Arr

/-- what an operation on the array at `a` may change: only the contents of `a` -/
def Frame (a : Nat) (h h' : Heap) : Prop := h'.length = h.length ∧ ∀ b, b ≠ a → h'.arr b = h.arr b

/-! ## instructions -/

/-- `ArrayLength` is the length of the list. -/
theorem C26_len_spec (h : Heap) (a : Nat) (ha : a < h.length) :
    lenOp h (.ref a) = .ok ((h.arr a).length : Int) := by
  simp [lenOp, addrOf_ref ha]

/-- `GetIndex`: the element at `idx` when `0 ≤ idx < len`, the ArrayOutOfBounds error otherwise
    (negative and huge indices included). -/
theorem C26_get_spec (h : Heap) (a : Nat) (idx : Int) (ha : a < h.length) (hi : inI64 idx) :
    getIndex h (.ref a) idx =
      if 0 ≤ idx ∧ idx < (h.arr a).length then .ok ((h.arr a).getD idx.toNat .nil) else .error .oob := by
  simp only [getIndex, addrOf_ref ha]
  by_cases hr : 0 ≤ idx ∧ idx < (h.arr a).length
  · have hlt : idx.toNat < (h.arr a).length := by omega
    simp [hr, (outOfBounds_iff idx _ hi).mpr hr, List.getD, List.getElem?_eq_getElem hlt]
  · simp [hr, outOfBounds_true idx _ hi hr]

/-- `SetIndex`: `l.set idx x` when `0 ≤ idx < len` (nothing else changes), the error otherwise. -/
theorem C26_set_spec (h : Heap) (a : Nat) (idx : Int) (x : Val) (ha : a < h.length) (hi : inI64 idx) :
    if 0 ≤ idx ∧ idx < (h.arr a).length then
      ∃ h', setIndex h (.ref a) idx x = .ok h' ∧ h'.arr a = (h.arr a).set idx.toNat x ∧ Frame a h h'
    else setIndex h (.ref a) idx x = .error .oob := by
  simp only [setIndex, addrOf_ref ha]
  by_cases hr : 0 ≤ idx ∧ idx < (h.arr a).length
  · simp only [hr, and_self, if_true, (outOfBounds_iff idx _ hi).mpr hr]
    exact ⟨_, rfl, arr_set_same h a _ ha, length_set h a _, fun b hb => arr_set_other h a b _ hb⟩
  · simp [hr, outOfBounds_true idx _ hi hr]

/-- `ArrayPush` appends: `l ++ [x]`, never fails, nothing else changes. -/
theorem C26_push_spec (h : Heap) (a : Nat) (x : Val) (ha : a < h.length) :
    ∃ h', pushOp h (.ref a) x = .ok h' ∧ h'.arr a = h.arr a ++ [x] ∧ Frame a h h' := by
  simp only [pushOp, addrOf_ref ha]
  exact ⟨_, rfl, arr_set_same h a _ ha, length_set h a _, fun b hb => arr_set_other h a b _ hb⟩

/-- `ArrayPop` on an empty array is the ArrayOutOfBounds runtime error (not a host panic). -/
theorem C26_pop_empty_is_error (h : Heap) (a : Nat) (ha : a < h.length) (he : h.arr a = []) :
    popOp h (.ref a) = .error .oob := by
  simp [popOp, addrOf_ref ha, he]

/-- `ArrayPop` on a non-empty array returns `l.getLast` and leaves `l.dropLast`. -/
theorem C26_pop_spec (h : Heap) (a : Nat) (ha : a < h.length) (hne : h.arr a ≠ []) :
    ∃ h', popOp h (.ref a) = .ok (h', (h.arr a).getLast hne) ∧ h'.arr a = (h.arr a).dropLast ∧ Frame a h h' := by
  simp only [popOp, addrOf_ref ha, List.getLast?_eq_some_getLast hne]
  exact ⟨_, rfl, arr_set_same h a _ ha, length_set h a _, fun b hb => arr_set_other h a b _ hb⟩

/-- `ConstructArray n`: a fresh address holding the given values in order; old arrays untouched. -/
theorem C26_construct_spec (h : Heap) (vs : List Val) :
    (construct h vs).2 = .ref h.length ∧ (construct h vs).1.length = h.length + 1 ∧
    (construct h vs).1.arr h.length = vs ∧ ∀ b, b < h.length → (construct h vs).1.arr b = h.arr b := by
  refine ⟨rfl, by simp [construct], arr_append_new h vs, fun b hb => arr_append_old h vs b hb⟩

theorem pushAll_spec (a : Nat) : ∀ (xs : List Val) (h : Heap), a < h.length →
    ∃ h', pushAll (.ref a) xs h = .ok h' ∧ h'.arr a = h.arr a ++ xs ∧ Frame a h h' := by
  intro xs
  induction xs with
  | nil => intro h _; exact ⟨h, rfl, by simp, rfl, fun _ _ => rfl⟩
  | cons x xs ih =>
    intro h ha
    obtain ⟨h1, e1, arr1, len1, fr1⟩ := C26_push_spec h a x ha
    obtain ⟨h2, e2, arr2, len2, fr2⟩ := ih h1 (by omega)
    refine ⟨h2, by simp only [pushAll, e1, e2], by rw [arr2, arr1]; simp, by omega, fun b hb => by rw [fr2 b hb, fr1 b hb]⟩

/-- An array literal of ANY length — also beyond the 65535 elements one `ConstructArray` can count, where the
    compiler constructs the first 65535 and pushes the rest — is a fresh array holding exactly the listed
    values in order; existing arrays are untouched. -/
theorem C26_literal_spec (h : Heap) (vs : List Val) :
    ∃ h', constructLit h vs = .ok (h', .ref h.length) ∧ h'.arr h.length = vs ∧ h'.length = h.length + 1 ∧
      ∀ b, b < h.length → h'.arr b = h.arr b := by
  obtain ⟨c1, c2, c3, c4⟩ := C26_construct_spec h (vs.take maxCount)
  have hlt : h.length < (construct h (vs.take maxCount)).1.length := by omega
  obtain ⟨h', e, harr, hlen, hfr⟩ := pushAll_spec h.length (vs.drop maxCount) _ hlt
  refine ⟨h', ?_, ?_, by omega, ?_⟩
  · simp only [constructLit]
    rw [c1, e]
  · rw [harr, c3, List.take_append_drop]
  · intro b hb
    rw [hfr b (by omega), c4 b hb]

/-- Reference semantics: an update through one variable holding address `a` is what every other
    variable holding `a` then reads (here: push through `v`, read through `w`), and arrays at other
    addresses are not affected. -/
theorem C26_ref_semantics (h : Heap) (a : Nat) (v w x : Val) (ha : a < h.length)
    (hlen63 : (h.arr a).length < 9223372036854775807) (hv : v = .ref a) (hw : w = .ref a) :
    ∃ h', pushOp h v x = .ok h' ∧
      lenOp h' w = .ok (((h.arr a).length : Int) + 1) ∧
      getIndex h' w (h.arr a).length = .ok x ∧
      ∀ b, b ≠ a → b < h.length → lenOp h' (.ref b) = lenOp h (.ref b) ∧ h'.arr b = h.arr b := by
  subst hv hw
  obtain ⟨h', hp, harr, hlen, hframe⟩ := C26_push_spec h a x ha
  have ha' : a < h'.length := by omega
  refine ⟨h', hp, ?_, ?_, ?_⟩
  · rw [C26_len_spec h' a ha', harr]; simp
  · have hi : inI64 ((h.arr a).length : Int) := by unfold inI64; omega
    rw [C26_get_spec h' a _ ha' hi, harr]
    have hr : 0 ≤ ((h.arr a).length : Int) ∧ ((h.arr a).length : Int) < ((h.arr a ++ [x]).length : Nat) := by
      simp only [List.length_append, List.length_singleton]; omega
    simp only [hr, and_self, if_true, Int.toNat_natCast]
    simp [List.getD]
  · intro b hb hbl
    have hb' : b < h'.length := by omega
    rw [C26_len_spec h' b hb', C26_len_spec h b hbl, hframe b hb]
    exact ⟨rfl, rfl⟩

/-! ## prelude extension functions -/

/-- `is_empty` -/
theorem C26_is_empty_spec (h : Heap) (a : Nat) (ha : a < h.length) :
    isEmpty h (.ref a) = .ok ((h.arr a).isEmpty) := by
  simp only [isEmpty, C26_len_spec h a ha]
  cases h.arr a <;> simp <;> omega

/-- `swap(i, j)`: both indices in range → the two elements are exchanged and nothing else changes;
    otherwise the result is the ArrayOutOfBounds error (an error carries no heap in the model — the program
    stops there; that both reads precede the first write is visible in the definition of `swap`, not in this statement). -/
theorem C26_swap_spec (h : Heap) (a : Nat) (i j : Int) (ha : a < h.length) (hi : inI64 i) (hj : inI64 j) :
    if (0 ≤ i ∧ i < (h.arr a).length) ∧ (0 ≤ j ∧ j < (h.arr a).length) then
      ∃ h', swap h (.ref a) i j = .ok h' ∧
        h'.arr a = ((h.arr a).set i.toNat ((h.arr a).getD j.toNat .nil)).set j.toNat ((h.arr a).getD i.toNat .nil) ∧
        Frame a h h'
    else swap h (.ref a) i j = .error .oob := by
  unfold swap
  rw [C26_get_spec h a i ha hi]
  by_cases hri : 0 ≤ i ∧ i < (h.arr a).length
  · simp only [hri, and_self, if_true, true_and]
    rw [C26_get_spec h a j ha hj]
    by_cases hrj : 0 ≤ j ∧ j < (h.arr a).length
    · simp only [hrj, and_self, if_true]
      have s1 := C26_set_spec h a i ((h.arr a).getD j.toNat .nil) ha hi
      simp only [hri, and_self, if_true] at s1
      obtain ⟨h1, e1, arr1, len1, fr1⟩ := s1
      rw [e1]
      have ha1 : a < h1.length := by omega
      have s2 := C26_set_spec h1 a j ((h.arr a).getD i.toNat .nil) ha1 hj
      have hrj1 : 0 ≤ j ∧ j < (h1.arr a).length := by rw [arr1]; simpa using hrj
      simp only [hrj1, and_self, if_true] at s2
      obtain ⟨h2, e2, arr2, len2, fr2⟩ := s2
      refine ⟨h2, e2, by rw [arr2, arr1], by omega, fun b hb => by rw [fr2 b hb, fr1 b hb]⟩
    · simp [hrj]
  · simp [hri]

/-- `remove(idx)` = swap with the last element, then pop: `(l.set idx l.getLast).dropLast` (the
    order of the remaining elements is *not* preserved); out of range (in particular on an empty
    array) it is the ArrayOutOfBounds error. -/
theorem C26_remove_spec (h : Heap) (a : Nat) (idx : Int) (ha : a < h.length) (hi : inI64 idx)
    (hlen : (h.arr a).length < 9223372036854775808) :
    if hr : 0 ≤ idx ∧ idx < (h.arr a).length then
      ∃ h', remove h (.ref a) idx = .ok h' ∧
        h'.arr a = ((h.arr a).set idx.toNat ((h.arr a).getLast (by intro e; rw [e] at hr; simp at hr; omega))).dropLast ∧
        Frame a h h'
    else remove h (.ref a) idx = .error .oob := by
  unfold remove
  rw [C26_len_spec h a ha]
  simp only
  have hj : inI64 (((h.arr a).length : Int) - 1) := by unfold inI64; omega
  have sw := C26_swap_spec h a idx (((h.arr a).length : Int) - 1) ha hi hj
  by_cases hr : 0 ≤ idx ∧ idx < (h.arr a).length
  · have hne : h.arr a ≠ [] := by intro e; rw [e] at hr; simp at hr; omega
    have hpos : 0 < (h.arr a).length := List.length_pos_iff.mpr hne
    have hrl : 0 ≤ ((h.arr a).length : Int) - 1 ∧ ((h.arr a).length : Int) - 1 < (h.arr a).length := by omega
    simp only [hr, hrl, and_self, if_true] at sw
    obtain ⟨h1, e1, arr1, len1, fr1⟩ := sw
    simp only [hr, and_self, dite_true, e1]
    have ha1 : a < h1.length := by omega
    have hne1 : h1.arr a ≠ [] := by
      have hl1 : (h1.arr a).length = (h.arr a).length := by rw [arr1]; simp
      intro e; rw [e] at hl1; simp at hl1; omega
    obtain ⟨h2, e2, arr2, len2, fr2⟩ := C26_pop_spec h1 a ha1 hne1
    rw [e2]
    refine ⟨h2, rfl, ?_, by omega, fun b hb => by rw [fr2 b hb, fr1 b hb]⟩
    rw [arr2, arr1]
    -- dropping the last position forgets what was written there
    have hlast : (((h.arr a).length : Int) - 1).toNat = (h.arr a).length - 1 := by omega
    rw [hlast]
    have hget : (h.arr a).getD ((h.arr a).length - 1) .nil = (h.arr a).getLast hne := by
      rw [List.getLast_eq_getElem]; simp [List.getD, List.getElem?_eq_getElem (by omega : (h.arr a).length - 1 < (h.arr a).length)]
    rw [hget]
    generalize (h.arr a).getD idx.toNat .nil = y
    generalize (h.arr a).getLast hne = z
    have hk : idx.toNat < (h.arr a).length := by omega
    generalize idx.toNat = k at hk
    generalize h.arr a = l at hk hpos
    apply List.ext_getElem
    · simp
    · intro n h1 h2
      simp only [List.length_dropLast, List.length_set] at h1 h2
      simp only [List.getElem_dropLast, List.getElem_set]
      have : ¬ (l.length - 1 = n) := by omega
      simp [this]
  · simp only [hr, dite_false]
    have : ¬ ((0 ≤ idx ∧ idx < (h.arr a).length) ∧ (0 ≤ ((h.arr a).length : Int) - 1 ∧ ((h.arr a).length : Int) - 1 < (h.arr a).length)) := by
      intro hh; exact hr hh.1
    simp only [this, if_false] at sw
    rw [sw]

theorem clearLoop_spec (a : Nat) : ∀ (fuel : Nat) (h : Heap), a < h.length → (h.arr a).length < fuel →
    ∃ h', clearLoop (.ref a) fuel h = .ok h' ∧ h'.arr a = [] ∧ Frame a h h' := by
  intro fuel
  induction fuel with
  | zero => intro h _ hf; omega
  | succ fuel ih =>
    intro h ha hf
    simp only [clearLoop, C26_len_spec h a ha]
    by_cases hne : h.arr a = []
    · simp [hne, Frame]
    · have hpos : 0 < (h.arr a).length := List.length_pos_iff.mpr hne
      have : ((h.arr a).length : Int) > 0 := by omega
      simp only [this, if_true]
      obtain ⟨h1, e1, arr1, len1, fr1⟩ := C26_pop_spec h a ha hne
      rw [e1]
      simp only
      have hlt : (h1.arr a).length < fuel := by rw [arr1]; simp; omega
      obtain ⟨h2, e2, arr2, len2, fr2⟩ := ih h1 (by omega) hlt
      exact ⟨h2, e2, arr2, by omega, fun b hb => by rw [fr2 b hb, fr1 b hb]⟩

/-- `clear()` empties the array (by popping), never fails, nothing else changes. -/
theorem C26_clear_spec (h : Heap) (a : Nat) (ha : a < h.length) :
    ∃ h', clear h (.ref a) = .ok h' ∧ h'.arr a = [] ∧ Frame a h h' := by
  simp only [clear, C26_len_spec h a ha]
  exact clearLoop_spec a _ h ha (by simp)

theorem findLoop_spec (eq : Val → Val → Bool) (h : Heap) (a : Nat) (x : Val) (ha : a < h.length)
    (hlen : (h.arr a).length < 9223372036854775808) :
    ∀ (fuel k : Nat), k ≤ (h.arr a).length → (h.arr a).length - k < fuel →
      findLoop eq h (.ref a) x (h.arr a).length fuel k =
        .ok ((((h.arr a).drop k).findIdx? (fun y => eq y x)).map (fun i => ((i + k : Nat) : Int))) := by
  intro fuel
  induction fuel with
  | zero => intro k _ hf; omega
  | succ fuel ih =>
    intro k hk hf
    simp only [findLoop]
    by_cases hge : (k : Int) ≥ ((h.arr a).length : Int)
    · have : k = (h.arr a).length := by omega
      subst this
      simp
    · have hklt : k < (h.arr a).length := by omega
      simp only [hge, if_false]
      have hik : inI64 (k : Int) := by unfold inI64; omega
      rw [C26_get_spec h a k ha hik]
      have hr : 0 ≤ (k : Int) ∧ (k : Int) < (h.arr a).length := by omega
      simp only [hr, and_self, if_true, Int.toNat_natCast]
      have hdrop : (h.arr a).drop k = (h.arr a).getD k .nil :: (h.arr a).drop (k + 1) := by
        rw [List.drop_eq_getElem_cons hklt]; simp [List.getD, List.getElem?_eq_getElem hklt]
      rw [hdrop, List.findIdx?_cons]
      generalize (h.arr a).getD k .nil = y
      by_cases he : eq y x = true
      · simp only [he, if_true]; simp
      · simp only [he, Bool.false_eq_true, if_false]
        have := ih (k + 1) (by omega) (by omega)
        have e : ((k : Int) + 1) = ((k + 1 : Nat) : Int) := by omega
        rw [e, this]
        simp only [Option.map_map]
        congr 1
        cases ((h.arr a).drop (k + 1)).findIdx? (fun y => eq y x) with
        | none => rfl
        | some i => simp; omega

/-- `find(x)`: the least index whose element is `==` to `x` (`eq` is the element type's `Equal`),
    `none` when there is none; never fails. -/
theorem C26_find_spec (eq : Val → Val → Bool) (h : Heap) (a : Nat) (x : Val) (ha : a < h.length)
    (hlen : (h.arr a).length < 9223372036854775808) :
    find eq h (.ref a) x = .ok (((h.arr a).findIdx? (fun y => eq y x)).map (fun (i : Nat) => Int.ofNat i)) := by
  simp only [find, C26_len_spec h a ha]
  have := findLoop_spec eq h a x ha hlen ((h.arr a).length + 1) 0 (by omega) (by omega)
  rw [Int.toNat_natCast, show (0 : Int) = ((0 : Nat) : Int) from rfl, this]
  simp only [Nat.add_zero, List.drop_zero, Int.ofNat_eq_natCast]

/-- `contains(x)`: some element is `==` to `x`. -/
theorem C26_contains_spec (eq : Val → Val → Bool) (h : Heap) (a : Nat) (x : Val) (ha : a < h.length)
    (hlen : (h.arr a).length < 9223372036854775808) :
    contains eq h (.ref a) x = .ok ((h.arr a).any (fun y => eq y x)) := by
  simp only [contains, C26_find_spec eq h a x ha hlen]
  cases hf : (h.arr a).findIdx? (fun y => eq y x) with
  | none =>
    have := List.findIdx?_eq_none_iff.mp hf
    have hany : (h.arr a).any (fun y => eq y x) = false := by
      rw [List.any_eq_false]; intro y hy; simpa using this y hy
    simp [hany]
  | some i =>
    have := List.findIdx?_eq_some_iff_getElem.mp hf
    obtain ⟨hi, hp, _⟩ := this
    have hany : (h.arr a).any (fun y => eq y x) = true := by
      rw [List.any_eq_true]; exact ⟨_, List.getElem_mem hi, hp⟩
    simp [hany]

/-! ## clone and filled (values of nested array types, any nesting depth) -/

/-- `Clone.clone` on a value of array type of nesting depth `d` (well-typed in `h`): it succeeds, the
    clone denotes the same nested list (`den`), no existing array is modified, and every array the
    clone consists of — to any nesting depth — is a new one. -/
theorem C26_clone_spec (d : Nat) (h : Heap) (v : Val) (hwt : WT d h v) :
    ∃ h' v', cloneAt d h v = .ok (h', v') ∧
      den d h' v' = den d h v ∧
      (∀ b, b < h.length → h'.arr b = h.arr b) ∧
      (∀ b ∈ reach d h' v', h.length ≤ b) := by
  obtain ⟨h', v', e, ok⟩ := cloneSpec_all d h v hwt
  exact ⟨h', v', e, ok.den, ok.old, ok.fresh⟩

/-- The clone is independent of the original, in both directions and to any nesting depth:
    (1) whatever is later done to arrays that existed before the clone (`h''` differs from `h'` only
        below `h.length`) does not change what the clone denotes;
    (2) whatever is later done to the clone's arrays (`h''` differs from `h'` only from `h.length` on)
        does not change what any value `w` of the old heap denotes. -/
theorem C26_clone_independent (d : Nat) (h : Heap) (v : Val) (hwt : WT d h v)
    (h' : Heap) (v' : Val) (hc : cloneAt d h v = .ok (h', v')) :
    (∀ h'' : Heap, (∀ b, h.length ≤ b → h''.arr b = h'.arr b) → den d h'' v' = den d h' v') ∧
    (∀ (h'' : Heap) (e : Nat) (w : Val), WT e h w → (∀ b, b < h.length → h''.arr b = h'.arr b) →
        den e h'' w = den e h w) := by
  obtain ⟨h1, v1, e1, ok⟩ := cloneSpec_all d h v hwt
  rw [hc] at e1
  have eh : h' = h1 := by injection e1 with e; exact congrArg Prod.fst e
  have ev : v' = v1 := by injection e1 with e; exact congrArg Prod.snd e
  subst eh ev
  constructor
  · intro h'' hag
    exact (den_reach_congr d h' h'' v' (fun b hb => hag b (ok.fresh b hb))).1
  · intro h'' e w hw hag
    have hr := WT_reach_lt e h w hw
    exact (den_reach_congr e h h'' w (fun b hb => by rw [hag b (hr b hb), ok.old b (hr b hb)])).1

/-- `array.filled(x, n)` with `x` of nesting depth `d`: a new array denoting `n` copies of what `x`
    denotes (none for `n ≤ 0`), every copy a deep clone (all its arrays new), nothing old modified. -/
theorem C26_filled_spec (d : Nat) (h : Heap) (x : Val) (n : Int) (hwt : WT d h x) :
    ∃ h' v', filled d h x n = .ok (h', v') ∧
      den (d + 1) h' v' = .node (List.replicate n.toNat (den d h x)) ∧
      (∀ b, b < h.length → h'.arr b = h.arr b) ∧
      (∀ b ∈ reach (d + 1) h' v', h.length ≤ b) := by
  have hxs : ∀ y ∈ List.replicate n.toNat x, WT d h y := by
    intro y hy; rw [(List.mem_replicate.mp hy).2]; exact hwt
  obtain ⟨hf, ef, lenf, oldf, denf, freshf, wtf⟩ := freshLoop_spec d (cloneSpec_all d) h _ hxs
  refine ⟨hf, .ref h.length, ?_, ?_, oldf, freshf⟩
  · simp only [filled, filledLoop_eq, ef]; rfl
  · rw [denf, List.map_replicate]

/-! ## non-vacuity -/

-- an allocated address with a three-element array; a nested well-typed value
example : (1 : Nat) < ([[], [.int 0, .int 1, .int 2]] : Heap).length := by decide
example : inI64 (-1) ∧ inI64 9223372036854775807 := by unfold inI64; omega
example : WT 2 [[.int 1], [.ref 0, .ref 0]] (.ref 1) :=
  ⟨1, rfl, by decide, by
    intro x hx
    have : x = .ref 0 := by simp [Heap.arr] at hx; exact hx
    subst this
    exact ⟨0, rfl, by decide, by intro y hy; simp [Heap.arr] at hy; subst hy; intro a; simp⟩⟩
-- pop on the empty array is the error, remove swaps with the last element
example : popOp [[]] (.ref 0) = .error .oob := by rfl
example : remove [[.int 0, .int 1, .int 2]] (.ref 0) 0 = .ok [[.int 2, .int 1]] := by rfl
example : getIndex [[.int 0]] (.ref 0) (-1) = .error .oob ∧ getIndex [[.int 0]] (.ref 0) 4294967296 = .error .oob := ⟨by rfl, by rfl⟩

end Abra.Lib.Arr
