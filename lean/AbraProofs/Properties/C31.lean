import AbraProofs.Lemmas.PrattEval
/-!
# C31 — expressions parse according to the documented precedence table

Model: `Abra.Pratt` (`AbraModel/Pratt.lean`), the token-level Pratt loop of `parse_expr_bp` with the
code's precedence numbers.  Specification: `printMinimal` (`AbraModel/PrattPrint.lean`), which
parenthesises exactly where the *documented* table and left associativity require.

* `C31_doc_table_matches_code` — the code's `BinaryOperator::precedence`/`PrefixOp::precedence`
  numbers are the documented levels.
* `C31_parser_total` — the parser model returns a tree or a diagnostic on *every* token list (the
  fuel `fuelFor` always suffices), for each treatment of `-<literal>`.
* `C31_parse_print` — for every expression tree `t` the parser can produce at all (`t.WF`),
  parsing `printMinimal t` with the model of `/repo`'s parser gives back exactly `t`, every token
  consumed; `C31_parse_print_prefix` is the precedence-climbing invariant behind it.
* `C31_neg_literal_uniform` — replacing literal operands by variables (or back) in a printed tree
  never changes the grouping; `C31_code_agrees_with_reference` — on printed trees the code (which
  keeps `-<literal>` a literal when nothing tighter follows, so that `i64::MIN` can be written)
  coincides with the reference parser in which `-` is always an ordinary prefix operator.
* `C31_code_extends_reference` — on every token list (arbitrary left context, no parenthesisation
  assumed) the code yields the reference parser's tree whenever the reference yields one;
  `C31_reference_atom_blind` — the reference never looks at atoms when it decides about a `-`.
* `C31_newlines_at_operand_start`, `C31_newline_ends_expression` — line breaks are skipped exactly at
  operand starts (before the prefix-operator test) and never before a binary/postfix operator.
* `C31_fold_breaks_table` — the treatment before the fix of D11 (`FoldMode.always`) contradicts the
  table on `-2 % 3`.
-/
namespace Abra.Pratt

-- ---------------------------------------------------------------- small facts
theorem docLevel_eq_prec (o : BinOp) : docLevel o = o.prec := by cases o <;> rfl

theorem prec_le_9 (o : BinOp) : o.prec ≤ 9 := by cases o <;> simp [BinOp.prec]
theorem prec_pos (o : BinOp) : 1 ≤ o.prec := by cases o <;> simp [BinOp.prec]

theorem level_pos (e : Expr) : 1 ≤ e.level := by
  cases e <;> simp [Expr.level, docLevelNeg, docLevelNot, primaryLevel]
  rename_i o _ _; rw [docLevel_eq_prec]; exact prec_pos o

theorem level_le_16 (e : Expr) : e.level ≤ 16 := by
  cases e <;> simp [Expr.level, docLevelNeg, docLevelNot, primaryLevel]
  rename_i o _ _; rw [docLevel_eq_prec]; have := prec_le_9 o; omega

theorem stops_ge16 {m : Nat} (h : 16 ≤ m) (rest : List Tok) : stops m rest = true :=
  stops_mono (stops_primary rest) h

/-- tokens an expression can start with -/
def startTok : Tok → Bool
  | .atom _ | .op .sub | .not | .lparen | .lbrack => true
  | _ => false

def StartsOk (ts : List Tok) : Prop := ∃ t r, ts = t :: r ∧ startTok t = true

theorem StartsOk.wrapIf {ts : List Tok} (c : Bool) (h : StartsOk ts) : StartsOk (wrapIf c ts) := by
  cases c
  · simpa [Abra.Pratt.wrapIf] using h
  · exact ⟨.lparen, ts ++ [.rparen], by simp [Abra.Pratt.wrapIf, paren], rfl⟩

theorem StartsOk.append {ts : List Tok} (h : StartsOk ts) (r : List Tok) : StartsOk (ts ++ r) := by
  obtain ⟨t, r', rfl, ht⟩ := h
  exact ⟨t, r' ++ r, rfl, ht⟩

theorem print_starts : (e : Expr) → StartsOk e.print
  | .atom a => ⟨.atom a, [], by simp [Expr.print], rfl⟩
  | .neg e => ⟨.op .sub, _, by rw [Expr.print], rfl⟩
  | .not e => ⟨.not, _, by rw [Expr.print], rfl⟩
  | .bin o l r => by
    rw [Expr.print]; exact ((print_starts l).wrapIf _).append _
  | .member e s => by rw [Expr.print]; exact ((print_starts e).wrapIf _).append _
  | .index e i => by rw [Expr.print]; exact ((print_starts e).wrapIf _).append _
  | .unwrap e => by rw [Expr.print]; exact ((print_starts e).wrapIf _).append _
  | .try_ e => by rw [Expr.print]; exact ((print_starts e).wrapIf _).append _
  | .call f as => by rw [Expr.print]; exact ((print_starts f).wrapIf _).append _
  | .tuple as => ⟨.lparen, _, by rw [Expr.print], rfl⟩
  | .array as => ⟨.lbrack, _, by rw [Expr.print], rfl⟩

theorem StartsOk.skipNl {ts : List Tok} (h : StartsOk ts) : skipNl ts = ts := by
  obtain ⟨t, r, rfl, ht⟩ := h
  cases t <;> simp_all [startTok, Abra.Pratt.skipNl]

theorem prefixOp_sub_never (rest : List Tok) : prefixOp? .never (.op .sub :: rest) = some (.neg, rest) := by
  cases rest with
  | nil => rfl
  | cons t r => cases t <;> simp [prefixOp?, foldsHere]

/-- what `parse_prefix_op` does with a `-` (any mode but `always`): either it is the prefix operator,
    or a numeric literal follows, the mode is `loose` and nothing binding tighter comes after it -/
theorem prefixOp_sub_cases (mode : FoldMode) (hm : mode ≠ .always) (X : List Tok) :
    prefixOp? mode (.op .sub :: X) = some (.neg, X) ∨
    (∃ a r, X = .atom a :: r ∧ a.isNum = true ∧ bindsTighter r = false ∧
      prefixOp? mode (.op .sub :: X) = none) := by
  cases X with
  | nil => exact Or.inl rfl
  | cons t r =>
    cases t with
    | atom a =>
      simp only [prefixOp?]
      cases hn : a.isNum with
      | false => simp
      | true =>
        cases mode with
        | never => simp [foldsHere]
        | always => exact absurd rfl hm
        | loose =>
          cases hb : bindsTighter r with
          | true => simp [foldsHere, hb]
          | false => exact Or.inr ⟨a, r, rfl, hn, hb, by simp [foldsHere, hb]⟩
    | _ => exact Or.inl (by simp [prefixOp?])

theorem bindsTighter_append {ts : List Tok} (h : bindsTighter ts = true) (r : List Tok) :
    bindsTighter (ts ++ r) = true := by
  cases ts with
  | nil => simp [bindsTighter] at h
  | cons t ts => cases t <;> simp_all [bindsTighter]

theorem wrapIf_head_atom {c : Bool} {ts r : List Tok} {a : Atom} (h : wrapIf c ts = .atom a :: r) :
    c = false ∧ ts = .atom a :: r := by
  cases c
  · exact ⟨rfl, by simpa [wrapIf] using h⟩
  · simp [wrapIf, paren] at h

/-- a printed expression of level above unary minus that begins with an atom either *is* that atom
    or continues with a postfix operator / a binary operator binding tighter than unary minus -/
theorem print_atom_head : (e : Expr) → (a : Atom) → (r rest : List Tok) →
    e.print ++ rest = .atom a :: r → 6 < e.level → (e = .atom a ∧ r = rest) ∨ bindsTighter r = true
  | .atom b, a, r, rest, h, _ => by
    simp only [Expr.print, List.cons_append, List.nil_append, List.cons.injEq, Tok.atom.injEq] at h
    exact Or.inl ⟨by rw [h.1], h.2.symm⟩
  | .neg e, a, r, rest, h, _ => by simp [Expr.print] at h
  | .not e, a, r, rest, h, _ => by simp [Expr.print] at h
  | .tuple as, a, r, rest, h, _ => by simp [Expr.print] at h
  | .array as, a, r, rest, h, _ => by simp [Expr.print] at h
  | .bin o l rr, a, r, rest, h, hl => by
    right
    rw [Expr.print, List.append_assoc] at h
    obtain ⟨t, ts, hp, _⟩ := (print_starts l).wrapIf (decide (l.level < docLevel o))
    rw [hp, List.cons_append] at h
    simp only [List.cons.injEq] at h
    obtain ⟨ht, hr⟩ := h
    subst ht
    obtain ⟨hc, hlp⟩ := wrapIf_head_atom hp
    have hlv : ¬ (l.level < docLevel o) := of_decide_eq_false hc
    simp only [Expr.level] at hl
    rcases print_atom_head l a ts [] (by simpa using hlp) (by omega) with ⟨_, hts⟩ | hb
    · subst hts
      simp only [List.nil_append] at hr
      rw [← hr]
      simp only [List.cons_append, bindsTighter, PrefixOp.prec, ← docLevel_eq_prec]
      simpa using hl
    · rw [← hr]; exact bindsTighter_append hb _
  | .member e s, a, r, rest, h, _ => by
    right
    have e1 : (Expr.member e s).print ++ rest =
        wrapIf (decide (e.level < primaryLevel)) e.print ++ .dot :: .atom (.ident s) :: rest := by
      rw [Expr.print]; simp
    rw [e1] at h
    obtain ⟨t, ts, hp, _⟩ := (print_starts e).wrapIf (decide (e.level < primaryLevel))
    rw [hp, List.cons_append] at h
    simp only [List.cons.injEq] at h
    obtain ⟨ht, hr⟩ := h
    subst ht
    obtain ⟨hc, hlp⟩ := wrapIf_head_atom hp
    have hlv : ¬ (e.level < primaryLevel) := of_decide_eq_false hc
    simp only [primaryLevel] at hlv
    rcases print_atom_head e a ts [] (by simpa using hlp) (by omega) with ⟨_, hts⟩ | hb
    · subst hts; rw [← hr]; rfl
    · rw [← hr]; exact bindsTighter_append hb _
  | .index e i, a, r, rest, h, _ => by
    right
    have e1 : (Expr.index e i).print ++ rest =
        wrapIf (decide (e.level < primaryLevel)) e.print ++ .lbrack :: (i.print ++ .rbrack :: rest) := by
      rw [Expr.print]; simp
    rw [e1] at h
    obtain ⟨t, ts, hp, _⟩ := (print_starts e).wrapIf (decide (e.level < primaryLevel))
    rw [hp, List.cons_append] at h
    simp only [List.cons.injEq] at h
    obtain ⟨ht, hr⟩ := h
    subst ht
    obtain ⟨hc, hlp⟩ := wrapIf_head_atom hp
    have hlv : ¬ (e.level < primaryLevel) := of_decide_eq_false hc
    simp only [primaryLevel] at hlv
    rcases print_atom_head e a ts [] (by simpa using hlp) (by omega) with ⟨_, hts⟩ | hb
    · subst hts; rw [← hr]; rfl
    · rw [← hr]; exact bindsTighter_append hb _
  | .unwrap e, a, r, rest, h, _ => by
    right
    have e1 : (Expr.unwrap e).print ++ rest =
        wrapIf (decide (e.level < primaryLevel)) e.print ++ .bang :: rest := by
      rw [Expr.print]; simp
    rw [e1] at h
    obtain ⟨t, ts, hp, _⟩ := (print_starts e).wrapIf (decide (e.level < primaryLevel))
    rw [hp, List.cons_append] at h
    simp only [List.cons.injEq] at h
    obtain ⟨ht, hr⟩ := h
    subst ht
    obtain ⟨hc, hlp⟩ := wrapIf_head_atom hp
    have hlv : ¬ (e.level < primaryLevel) := of_decide_eq_false hc
    simp only [primaryLevel] at hlv
    rcases print_atom_head e a ts [] (by simpa using hlp) (by omega) with ⟨_, hts⟩ | hb
    · subst hts; rw [← hr]; rfl
    · rw [← hr]; exact bindsTighter_append hb _
  | .try_ e, a, r, rest, h, _ => by
    right
    have e1 : (Expr.try_ e).print ++ rest =
        wrapIf (decide (e.level < primaryLevel)) e.print ++ .question :: rest := by
      rw [Expr.print]; simp
    rw [e1] at h
    obtain ⟨t, ts, hp, _⟩ := (print_starts e).wrapIf (decide (e.level < primaryLevel))
    rw [hp, List.cons_append] at h
    simp only [List.cons.injEq] at h
    obtain ⟨ht, hr⟩ := h
    subst ht
    obtain ⟨hc, hlp⟩ := wrapIf_head_atom hp
    have hlv : ¬ (e.level < primaryLevel) := of_decide_eq_false hc
    simp only [primaryLevel] at hlv
    rcases print_atom_head e a ts [] (by simpa using hlp) (by omega) with ⟨_, hts⟩ | hb
    · subst hts; rw [← hr]; rfl
    · rw [← hr]; exact bindsTighter_append hb _
  | .call f as, a, r, rest, h, _ => by
    right
    have e1 : (Expr.call f as).print ++ rest =
        wrapIf (decide (f.level < primaryLevel)) f.print ++ .lparen :: (as.print ++ .rparen :: rest) := by
      rw [Expr.print]; simp
    rw [e1] at h
    obtain ⟨t, ts, hp, _⟩ := (print_starts f).wrapIf (decide (f.level < primaryLevel))
    rw [hp, List.cons_append] at h
    simp only [List.cons.injEq] at h
    obtain ⟨ht, hr⟩ := h
    subst ht
    obtain ⟨hc, hlp⟩ := wrapIf_head_atom hp
    have hlv : ¬ (f.level < primaryLevel) := of_decide_eq_false hc
    simp only [primaryLevel] at hlv
    rcases print_atom_head f a ts [] (by simpa using hlp) (by omega) with ⟨_, hts⟩ | hb
    · subst hts; rw [← hr]; rfl
    · rw [← hr]; exact bindsTighter_append hb _

-- ---------------------------------------------------------------- the precedence-climbing invariant
/-- `parse_expr_bp bp` started at the first token of `print t`, in a position where `bp` is weaker
    than `t`'s level and the token after `t` cannot extend `t`, builds `t` and continues its loop
    with `t` as the left-hand side. -/
def MainE (mode : FoldMode) (t : Expr) : Prop :=
  ∀ bp rest res, bp < t.level → bp ≤ 10 → stops t.level rest = true →
    LP mode bp t rest res → PB mode bp (t.print ++ rest) res

theorem paren_main {mode : FoldMode} {e : Expr} (ih : MainE mode e) {bp : Nat} {rest : List Tok} {res : Res Expr}
    (h : LP mode bp e rest res) : PB mode bp (paren e.print ++ rest) res := by
  obtain ⟨t, ts, hp, ht⟩ := print_starts e
  have hin : PB mode 0 (e.print ++ .rparen :: rest) (.ok e (.rparen :: rest)) :=
    ih 0 (.rparen :: rest) _ (level_pos e) (by omega) (by simp [stops])
      (LP.stop (by simp [stops]) (by omega))
  have hl : PL mode .rparen (e.print ++ .rparen :: rest) (.ok (.cons e .nil) rest) := by
    rw [hp] at hin ⊢
    refine PL.last (t := t) (rest := ts ++ .rparen :: rest) ?_ ?_ (by simp) hin
    · exact StartsOk.skipNl ⟨t, _, rfl, ht⟩
    · intro hc; subst hc; simp [startTok] at ht
  have : paren e.print ++ rest = .lparen :: (e.print ++ .rparen :: rest) := by simp [paren]
  rw [this]
  exact PB.of_term rfl (by simp [prefixOp?]) (PT.paren (by simp [skipNl]) hl) h

theorem wrap_main {mode : FoldMode} {e : Expr} (ih : MainE mode e) (c : Bool) {bp : Nat} {rest : List Tok} {res : Res Expr}
    (hbp : bp ≤ 10) (hc : c = false → bp < e.level ∧ stops e.level rest = true)
    (h : LP mode bp e rest res) : PB mode bp (wrapIf c e.print ++ rest) res := by
  cases c with
  | true => simpa [wrapIf] using paren_main ih h
  | false =>
    obtain ⟨h1, h2⟩ := hc rfl
    simpa [wrapIf] using ih bp rest res h1 hbp h2 h

mutual
theorem main_expr (mode : FoldMode) (hm : mode ≠ .always) : (t : Expr) → t.WF → MainE mode t
  | .atom a, hwf => by
    intro bp rest res _ _ _ h
    refine PB.of_term (by simp [Expr.print, skipNl]) (by simp [Expr.print, prefixOp?]) (PT.atom (by simp [Expr.print, skipNl]) ?_) h
    intro n hn; subst hn; simpa [Expr.WF] using hwf
  | .neg e, hwf => by
    intro bp rest res _ _ hs h
    have hwe : e.WF := by simpa [Expr.WF] using hwf
    have ih := main_expr mode hm e hwe
    simp only [Expr.level, docLevelNeg] at hs
    rw [Expr.print, List.cons_append]
    rcases prefixOp_sub_cases mode hm (wrapIf (decide (e.level ≤ docLevelNeg)) e.print ++ rest) with hp | ⟨a, r, hX, hn, hb, hp⟩
    · have h1 : PB mode 6 (wrapIf (decide (e.level ≤ docLevelNeg)) e.print ++ rest) (.ok e rest) := by
        refine wrap_main ih _ (by omega) ?_ (LP.stop hs (by omega))
        intro hc
        have : ¬ (e.level ≤ docLevelNeg) := of_decide_eq_false hc
        simp only [docLevelNeg] at this
        exact ⟨by omega, stops_mono hs (by omega)⟩
      exact PB.of_prefix rfl hp h1 h
    · -- the literal keeps its sign: `parse_expr_term` builds the same tree
      obtain ⟨t, ts, hpr, _⟩ := (print_starts e).wrapIf (decide (e.level ≤ docLevelNeg))
      rw [hpr, List.cons_append] at hX
      simp only [List.cons.injEq] at hX
      obtain ⟨ht, hr⟩ := hX
      subst ht
      obtain ⟨hc, hlp⟩ := wrapIf_head_atom hpr
      have hlv : ¬ (e.level ≤ docLevelNeg) := of_decide_eq_false hc
      simp only [docLevelNeg] at hlv
      rcases print_atom_head e a ts [] (by simpa using hlp) (by omega) with ⟨he, hts⟩ | hb2
      · subst hts he
        simp only [List.nil_append] at hr
        subst hr
        have hX' : wrapIf (decide ((Expr.atom a).level ≤ docLevelNeg)) (Expr.atom a).print ++ rest = .atom a :: rest := by
          rw [hpr]; rfl
        rw [hX'] at hp ⊢
        refine PB.of_term rfl hp (PT.negLit (by simp [skipNl]) hn ?_) h
        intro n hn'; subst hn'
        have : n ≤ I64_MAX := by simpa [Expr.WF] using hwe
        omega
      · rw [← hr] at hb
        rw [bindsTighter_append hb2 rest] at hb
        cases hb
  | .not e, hwf => by
    intro bp rest res _ _ hs h
    have ih := main_expr mode hm e (by simpa [Expr.WF] using hwf)
    simp only [Expr.level, docLevelNot] at hs
    have h1 : PB mode 10 (wrapIf (decide (e.level ≤ docLevelNot)) e.print ++ rest) (.ok e rest) := by
      refine wrap_main ih _ (by omega) ?_ (LP.stop hs (by omega))
      intro hc
      have : ¬ (e.level ≤ docLevelNot) := of_decide_eq_false hc
      simp only [docLevelNot] at this
      exact ⟨by omega, stops_mono hs (by omega)⟩
    rw [Expr.print, List.cons_append]
    exact PB.of_prefix (op := .not) rfl (by simp [prefixOp?]) h1 h
  | .bin o l r, hwf => by
    intro bp rest res hlv hbp hs h
    have hw : l.WF ∧ r.WF := by simpa [Expr.WF] using hwf
    have ihl := main_expr mode hm l hw.1
    have ihr := main_expr mode hm r hw.2
    simp only [Expr.level, docLevel_eq_prec] at hs hlv
    have h9 := prec_le_9 o
    have hR : PB mode o.prec (wrapIf (decide (r.level ≤ docLevel o)) r.print ++ rest) (.ok r rest) := by
      refine wrap_main ihr _ (by omega) ?_ (LP.stop hs (by omega))
      intro hc
      have : ¬ (r.level ≤ docLevel o) := of_decide_eq_false hc
      rw [docLevel_eq_prec] at this
      exact ⟨by omega, stops_mono hs (by omega)⟩
    have hL := LP.bin (lhs := l) hlv hR h
    rw [Expr.print, List.append_assoc, List.cons_append]
    refine wrap_main ihl _ hbp ?_ hL
    intro hc
    have : ¬ (l.level < docLevel o) := of_decide_eq_false hc
    rw [docLevel_eq_prec] at this
    have h2 : o.prec ≤ l.level := by omega
    exact ⟨by omega, by simp [stops, h2]⟩
  | .member e s, hwf => by
    intro bp rest res _ hbp _ h
    have ih := main_expr mode hm e (by simpa [Expr.WF] using hwf)
    have e1 : (Expr.member e s).print ++ rest =
        wrapIf (decide (e.level < primaryLevel)) e.print ++ .dot :: .atom (.ident s) :: rest := by
      rw [Expr.print]; simp
    rw [e1]
    refine wrap_main ih _ hbp ?_ (LP.member hbp h)
    intro hc
    have : ¬ (e.level < primaryLevel) := of_decide_eq_false hc
    simp only [primaryLevel] at this
    exact ⟨by omega, stops_ge16 (by omega) _⟩
  | .index e i, hwf => by
    intro bp rest res _ hbp _ h
    have hw : e.WF ∧ i.WF := by simpa [Expr.WF] using hwf
    have ih := main_expr mode hm e hw.1
    have ihi := main_expr mode hm i hw.2
    have hi : PB mode 0 (i.print ++ .rbrack :: rest) (.ok i (.rbrack :: rest)) :=
      ihi 0 (.rbrack :: rest) _ (level_pos i) (by omega) (by simp [stops])
        (LP.stop (by simp [stops]) (by omega))
    have e1 : (Expr.index e i).print ++ rest =
        wrapIf (decide (e.level < primaryLevel)) e.print ++ .lbrack :: (i.print ++ .rbrack :: rest) := by
      rw [Expr.print]; simp
    rw [e1]
    refine wrap_main ih _ hbp ?_ (LP.index (r := .rbrack :: rest) (r' := rest) hbp ?_ (by simp [skipNl]) h)
    · intro hc
      have : ¬ (e.level < primaryLevel) := of_decide_eq_false hc
      simp only [primaryLevel] at this
      exact ⟨by omega, stops_ge16 (by omega) _⟩
    · rw [((print_starts i).append _).skipNl]; exact hi
  | .unwrap e, hwf => by
    intro bp rest res _ hbp _ h
    have ih := main_expr mode hm e (by simpa [Expr.WF] using hwf)
    have e1 : (Expr.unwrap e).print ++ rest =
        wrapIf (decide (e.level < primaryLevel)) e.print ++ .bang :: rest := by
      rw [Expr.print]; simp
    rw [e1]
    refine wrap_main ih _ hbp ?_ (LP.unwrap hbp h)
    intro hc
    have : ¬ (e.level < primaryLevel) := of_decide_eq_false hc
    simp only [primaryLevel] at this
    exact ⟨by omega, stops_ge16 (by omega) _⟩
  | .try_ e, hwf => by
    intro bp rest res _ hbp _ h
    have ih := main_expr mode hm e (by simpa [Expr.WF] using hwf)
    have e1 : (Expr.try_ e).print ++ rest =
        wrapIf (decide (e.level < primaryLevel)) e.print ++ .question :: rest := by
      rw [Expr.print]; simp
    rw [e1]
    refine wrap_main ih _ hbp ?_ (LP.try_ hbp h)
    intro hc
    have : ¬ (e.level < primaryLevel) := of_decide_eq_false hc
    simp only [primaryLevel] at this
    exact ⟨by omega, stops_ge16 (by omega) _⟩
  | .call f as, hwf => by
    intro bp rest res _ hbp _ h
    have hw : f.WF ∧ as.WF := by simpa [Expr.WF] using hwf
    have ih := main_expr mode hm f hw.1
    have ha := main_args mode hm as hw.2 .rparen rest (Or.inl rfl)
    have e1 : (Expr.call f as).print ++ rest =
        wrapIf (decide (f.level < primaryLevel)) f.print ++ .lparen :: (as.print ++ .rparen :: rest) := by
      rw [Expr.print]; simp
    rw [e1]
    refine wrap_main ih _ hbp ?_ (LP.call hbp ha h)
    intro hc
    have : ¬ (f.level < primaryLevel) := of_decide_eq_false hc
    simp only [primaryLevel] at this
    exact ⟨by omega, stops_ge16 (by omega) _⟩
  | .tuple as, hwf => by
    intro bp rest res _ _ _ h
    have hw : as.WF ∧ 2 ≤ as.length := by simpa [Expr.WF] using hwf
    have ha := main_args mode hm as hw.1 .rparen rest (Or.inl rfl)
    have e1 : (Expr.tuple as).print ++ rest = .lparen :: (as.print ++ .rparen :: rest) := by
      rw [Expr.print]; simp
    rw [e1]
    exact PB.of_term rfl (by simp [prefixOp?]) (PT.tuple (rest := as.print ++ .rparen :: rest) (by simp [skipNl]) ha hw.2) h
  | .array as, hwf => by
    intro bp rest res _ _ _ h
    have hw : as.WF := by simpa [Expr.WF] using hwf
    have ha := main_args mode hm as hw .rbrack rest (Or.inr rfl)
    have e1 : (Expr.array as).print ++ rest = .lbrack :: (as.print ++ .rbrack :: rest) := by
      rw [Expr.print]; simp
    rw [e1]
    exact PB.of_term rfl (by simp [prefixOp?]) (PT.array (rest := as.print ++ .rbrack :: rest) (by simp [skipNl]) ha) h

theorem main_args (mode : FoldMode) (hm : mode ≠ .always) : (as : Args) → as.WF → ∀ close rest, (close = .rparen ∨ close = .rbrack) →
    PL mode close (as.print ++ close :: rest) (.ok as rest)
  | .nil, _, close, rest, hc => by
    refine PL.nil ?_
    rcases hc with rfl | rfl <;> simp [Args.print, skipNl]
  | .cons e .nil, hwf, close, rest, hc => by
    have hw : e.WF := by simpa [Args.WF] using hwf
    obtain ⟨t, ts, hp, ht⟩ := print_starts e
    have hstop : stops e.level (close :: rest) = true := by rcases hc with rfl | rfl <;> simp [stops]
    have hstop0 : stops 0 (close :: rest) = true := by rcases hc with rfl | rfl <;> simp [stops]
    have hin := main_expr mode hm e hw 0 (close :: rest) _ (level_pos e) (by omega) hstop
      (LP.stop hstop0 (by omega))
    rw [Args.print]
    rw [hp] at hin ⊢
    refine PL.last (t := t) (rest := ts ++ close :: rest) ?_ ?_ ?_ hin
    · exact StartsOk.skipNl ⟨t, _, rfl, ht⟩
    · intro h; subst h; rcases hc with rfl | rfl <;> simp [startTok] at ht
    · rcases hc with rfl | rfl <;> simp
  | .cons e (.cons e2 es), hwf, close, rest, hc => by
    have hw : e.WF ∧ (Args.cons e2 es).WF := by simpa [Args.WF] using hwf
    obtain ⟨t, ts, hp, ht⟩ := print_starts e
    have ih := main_args mode hm (.cons e2 es) hw.2 close rest hc
    have hin := main_expr mode hm e hw.1 0 (.comma :: ((Args.cons e2 es).print ++ close :: rest)) _
      (level_pos e) (by omega) (by simp [stops]) (LP.stop (by simp [stops]) (by omega))
    have hpr : (Args.cons e (.cons e2 es)).print = e.print ++ .comma :: (Args.cons e2 es).print := by
      rw [Args.print]; intro h; cases h
    rw [hpr, List.append_assoc, List.cons_append]
    rw [hp] at hin ⊢
    refine PL.cons (t := t) (sep := .comma) ?_ ?_ (Or.inl rfl) hin ih
    · exact StartsOk.skipNl ⟨t, _, rfl, ht⟩
    · intro h; subst h; rcases hc with rfl | rfl <;> simp [startTok] at ht
end


-- ---------------------------------------------------------------- atom substitution
mutual
def Expr.subst (σ : Atom → Atom) : Expr → Expr
  | .atom a => .atom (σ a)
  | .neg e => .neg (e.subst σ)
  | .not e => .not (e.subst σ)
  | .bin o l r => .bin o (l.subst σ) (r.subst σ)
  | .member e s => .member (e.subst σ) s
  | .index e i => .index (e.subst σ) (i.subst σ)
  | .unwrap e => .unwrap (e.subst σ)
  | .try_ e => .try_ (e.subst σ)
  | .call f as => .call (f.subst σ) (as.subst σ)
  | .tuple as => .tuple (as.subst σ)
  | .array as => .array (as.subst σ)
def Args.subst (σ : Atom → Atom) : Args → Args
  | .nil => .nil
  | .cons e es => .cons (e.subst σ) (es.subst σ)
end

def Tok.subst (σ : Atom → Atom) : Tok → Tok
  | .atom a => .atom (σ a)
  | t => t

theorem level_subst (σ : Atom → Atom) (e : Expr) : (e.subst σ).level = e.level := by
  cases e <;> simp [Expr.subst, Expr.level]

theorem map_wrapIf (σ : Atom → Atom) (c : Bool) (ts : List Tok) :
    (wrapIf c ts).map (Tok.subst σ) = wrapIf c (ts.map (Tok.subst σ)) := by
  cases c <;> simp [wrapIf, paren, Tok.subst]

theorem Args.print_cons_cons (a b : Expr) (c : Args) :
    (Args.cons a (.cons b c)).print = a.print ++ .comma :: (Args.cons b c).print := by
  rw [Args.print]; intro h; cases h

mutual
theorem print_subst (σ : Atom → Atom) (hid : ∀ s, σ (.ident s) = .ident s) :
    (e : Expr) → (e.subst σ).print = e.print.map (Tok.subst σ)
  | .atom a => by simp [Expr.subst, Expr.print, Tok.subst]
  | .neg e => by
    simp [Expr.subst, Expr.print, level_subst, map_wrapIf, Tok.subst, print_subst σ hid e]
  | .not e => by
    simp [Expr.subst, Expr.print, level_subst, map_wrapIf, Tok.subst, print_subst σ hid e]
  | .bin o l r => by
    simp [Expr.subst, Expr.print, level_subst, map_wrapIf, Tok.subst, print_subst σ hid l,
      print_subst σ hid r]
  | .member e s => by
    simp [Expr.subst, Expr.print, level_subst, map_wrapIf, Tok.subst, print_subst σ hid e, hid]
  | .index e i => by
    simp [Expr.subst, Expr.print, level_subst, map_wrapIf, Tok.subst, print_subst σ hid e,
      print_subst σ hid i]
  | .unwrap e => by
    simp [Expr.subst, Expr.print, level_subst, map_wrapIf, Tok.subst, print_subst σ hid e]
  | .try_ e => by
    simp [Expr.subst, Expr.print, level_subst, map_wrapIf, Tok.subst, print_subst σ hid e]
  | .call f as => by
    simp [Expr.subst, Expr.print, level_subst, map_wrapIf, Tok.subst, print_subst σ hid f,
      printArgs_subst σ hid as]
  | .tuple as => by simp [Expr.subst, Expr.print, Tok.subst, printArgs_subst σ hid as]
  | .array as => by simp [Expr.subst, Expr.print, Tok.subst, printArgs_subst σ hid as]
theorem printArgs_subst (σ : Atom → Atom) (hid : ∀ s, σ (.ident s) = .ident s) :
    (as : Args) → (as.subst σ).print = as.print.map (Tok.subst σ)
  | .nil => by simp [Args.subst, Args.print]
  | .cons e .nil => by simp [Args.subst, Args.print, print_subst σ hid e]
  | .cons e (.cons e2 es) => by
    have := printArgs_subst σ hid (.cons e2 es)
    simp only [Args.subst] at this ⊢
    rw [Args.print_cons_cons, Args.print_cons_cons, this, print_subst σ hid e]
    simp [Tok.subst]
end

theorem length_subst (σ : Atom → Atom) : (as : Args) → (as.subst σ).length = as.length
  | .nil => rfl
  | .cons e es => by simp [Args.subst, Args.length, length_subst σ es]

mutual
theorem wf_subst (σ : Atom → Atom) (hr : ∀ a n, σ a = .int n → n ≤ I64_MAX) :
    (e : Expr) → e.WF → (e.subst σ).WF
  | .atom a, _ => by
    simp only [Expr.subst]
    cases h : σ a <;> simp [Expr.WF]
    exact hr a _ h
  | .neg e, h => by simp only [Expr.subst, Expr.WF] at *; exact wf_subst σ hr e h
  | .not e, h => by simp only [Expr.subst, Expr.WF] at *; exact wf_subst σ hr e h
  | .bin o l r, h => by
    simp only [Expr.subst, Expr.WF] at *; exact ⟨wf_subst σ hr l h.1, wf_subst σ hr r h.2⟩
  | .member e s, h => by simp only [Expr.subst, Expr.WF] at *; exact wf_subst σ hr e h
  | .index e i, h => by
    simp only [Expr.subst, Expr.WF] at *; exact ⟨wf_subst σ hr e h.1, wf_subst σ hr i h.2⟩
  | .unwrap e, h => by simp only [Expr.subst, Expr.WF] at *; exact wf_subst σ hr e h
  | .try_ e, h => by simp only [Expr.subst, Expr.WF] at *; exact wf_subst σ hr e h
  | .call f as, h => by
    simp only [Expr.subst, Expr.WF] at *; exact ⟨wf_subst σ hr f h.1, wfArgs_subst σ hr as h.2⟩
  | .tuple as, h => by
    simp only [Expr.subst, Expr.WF, length_subst] at *; exact ⟨wfArgs_subst σ hr as h.1, h.2⟩
  | .array as, h => by simp only [Expr.subst, Expr.WF] at *; exact wfArgs_subst σ hr as h
theorem wfArgs_subst (σ : Atom → Atom) (hr : ∀ a n, σ a = .int n → n ≤ I64_MAX) :
    (as : Args) → as.WF → (as.subst σ).WF
  | .nil, _ => by simp [Args.subst, Args.WF]
  | .cons e es, h => by
    simp only [Args.subst, Args.WF] at *; exact ⟨wf_subst σ hr e h.1, wfArgs_subst σ hr es h.2⟩
end

-- ---------------------------------------------------------------- the code simulates the reference parser

theorem prefix_rel (toks : List Tok) :
    prefixOp? .loose toks = prefixOp? .never toks ∨
    (∃ a rest', toks = .op .sub :: .atom a :: rest' ∧ a.isNum = true ∧ bindsTighter rest' = false ∧
      prefixOp? .loose toks = none ∧ prefixOp? .never toks = some (.neg, .atom a :: rest')) := by
  cases toks with
  | nil => exact Or.inl rfl
  | cons t r =>
    cases t with
    | op o =>
      cases o <;> try (exact Or.inl rfl)
      cases r with
      | nil => exact Or.inl rfl
      | cons t2 r2 =>
        cases t2 with
        | atom a =>
          cases hn : a.isNum with
          | false => left; simp [prefixOp?, hn]
          | true =>
            cases hb : bindsTighter r2 with
            | true => left; simp [prefixOp?, foldsHere, hb]
            | false => right; exact ⟨a, r2, rfl, hn, hb, by simp [prefixOp?, foldsHere, hb, hn], by simp [prefixOp?, foldsHere]⟩
        | _ => exact Or.inl rfl
    | _ => exact Or.inl rfl

theorem loop_stop_eq (mode : FoldMode) (k : Nat) (lhs : Expr) (rest : List Tok) (h : bindsTighter rest = false) :
    loop mode (k + 1) 6 lhs rest = .ok lhs rest := by
  rw [loop_succ]
  unfold bindsTighter at h
  split at h
  all_goals (try (simp at h))
  · rename_i o _
    simp only [PrefixOp.prec] at h
    simp only
    rw [if_pos (by omega)]
  · split <;> simp_all


theorem sim_all : ∀ f,
    (∀ bp toks e r, parseBp .never f bp toks = .ok e r → parseBp .loose f bp toks = .ok e r) ∧
    (∀ bp lhs toks e r, loop .never f bp lhs toks = .ok e r → loop .loose f bp lhs toks = .ok e r) ∧
    (∀ toks e r, parseTerm .never f toks = .ok e r → parseTerm .loose f toks = .ok e r) ∧
    (∀ c toks as r, parseList .never f c toks = .ok as r → parseList .loose f c toks = .ok as r) := by
  intro f
  induction f with
  | zero => simp [parseBp, loop, parseTerm, parseList]
  | succ n ih =>
    obtain ⟨ihB, ihL, ihT, ihA⟩ := ih
    refine ⟨?_, ?_, ?_, ?_⟩
    · intro bp toks e r h
      rw [parseBp_succ] at h ⊢
      generalize skipNl toks = T at h ⊢
      rcases prefix_rel T with heq | ⟨a, rest', rfl, hn, hb, hl, hnv⟩
      · rw [heq]
        split at h
        · rename_i op rest hp
          cases hsub : parseBp .never n op.prec rest with
          | ok rhs r1 =>
            rw [hsub] at h; simp only at h
            rw [ihB _ _ _ _ hsub]; simp only
            exact ihL _ _ _ _ _ h
          | err => rw [hsub] at h; cases h
          | fuel => rw [hsub] at h; cases h
        · cases hsub : parseTerm .never n T with
          | ok lhs r1 =>
            rw [hsub] at h; simp only at h
            rw [ihT _ _ _ hsub]; simp only
            exact ihL _ _ _ _ _ h
          | err => rw [hsub] at h; cases h
          | fuel => rw [hsub] at h; cases h
      · -- `-` numeric-literal, nothing tighter follows: the code keeps the literal, the reference negates it
        rw [hnv] at h
        rw [hl]
        simp only [PrefixOp.prec] at h
        cases n with
        | zero => simp [parseBp] at h
        | succ m =>
          rw [parseBp_succ] at h
          have hsk : skipNl (.atom a :: rest') = .atom a :: rest' := rfl
          have hnone : prefixOp? .never (.atom a :: rest') = none := by simp [prefixOp?]
          rw [hsk, hnone] at h
          simp only at h
          cases m with
          | zero => simp [parseTerm] at h
          | succ k =>
            rw [parseTerm_succ] at h
            rw [parseTerm_succ]
            simp only [skipNl] at h ⊢
            cases a with
            | int v =>
              simp only at h ⊢
              by_cases hv : v ≤ I64_MAX
              · simp only [hv, if_true] at h
                rw [loop_stop_eq .never k _ _ hb] at h
                simp only [Expr.unop] at h
                have : v ≤ I64_MAX + 1 := by omega
                simp only [this, if_true]
                exact ihL _ _ _ _ _ h
              · simp only [hv, if_false] at h; cases h
            | float s =>
              simp only at h ⊢
              rw [loop_stop_eq .never k _ _ hb] at h
              simp only [Expr.unop] at h
              exact ihL _ _ _ _ _ h
            | _ => simp [Atom.isNum] at hn
    · intro bp lhs toks e r h
      rw [loop_succ] at h ⊢
      split at h
      · split at h
        · rename_i hc; rw [if_pos hc]; exact h
        · rename_i rest hc
          rw [if_neg hc]
          cases hsub : parseList .never n .rparen rest with
          | ok args r1 =>
            rw [hsub] at h; simp only at h
            rw [ihA _ _ _ _ hsub]; simp only
            exact ihL _ _ _ _ _ h
          | err => rw [hsub] at h; cases h
          | fuel => rw [hsub] at h; cases h
      · split at h
        · rename_i hc; rw [if_pos hc]; exact h
        · rename_i hc
          rw [if_neg hc]
          split at h
          · exact ihL _ _ _ _ _ h
          · cases h
      · split at h
        · rename_i hc; rw [if_pos hc]; exact h
        · rename_i rest hc
          rw [if_neg hc]
          cases hsub : parseBp .never n 0 (skipNl rest) with
          | ok i r1 =>
            rw [hsub] at h; simp only at h
            rw [ihB _ _ _ _ hsub]; simp only
            split at h
            · exact ihL _ _ _ _ _ h
            · cases h
          | err => rw [hsub] at h; cases h
          | fuel => rw [hsub] at h; cases h
      · split at h
        · rename_i hc; rw [if_pos hc]; exact h
        · rename_i hc; rw [if_neg hc]; exact ihL _ _ _ _ _ h
      · split at h
        · rename_i hc; rw [if_pos hc]; exact h
        · rename_i hc; rw [if_neg hc]; exact ihL _ _ _ _ _ h
      · split at h
        · rename_i hc; rw [if_pos hc]; exact h
        · rename_i o rest hc
          rw [if_neg hc]
          cases hsub : parseBp .never n o.prec rest with
          | ok rhs r1 =>
            rw [hsub] at h; simp only at h
            rw [ihB _ _ _ _ hsub]; simp only
            exact ihL _ _ _ _ _ h
          | err => rw [hsub] at h; cases h
          | fuel => rw [hsub] at h; cases h
      · exact h
    · intro toks e r h
      rw [parseTerm_succ] at h ⊢
      split at h
      · simp_all
      · simp_all
      · simp_all
      · simp_all
      · rename_i rest hs
        cases hsub : parseList .never n .rparen rest with
        | ok es r1 => have := ihA _ _ _ _ hsub; simp_all
        | err => simp_all
        | fuel => simp_all
      · rename_i rest hs
        cases hsub : parseList .never n .rbrack rest with
        | ok es r1 => have := ihA _ _ _ _ hsub; simp_all
        | err => simp_all
        | fuel => simp_all
      · simp_all
    · intro c toks as r h
      rw [parseList_succ] at h ⊢
      split at h
      · simp_all
      · rename_i t rest hs
        split at h
        · simp_all
        · cases hsub : parseBp .never n 0 (t :: rest) with
          | ok e1 r1 =>
            have := ihB _ _ _ _ hsub
            simp_all
            split at h
            · rename_i r'
              cases hsub2 : parseList .never n c r' with
              | ok es r2 => have := ihA _ _ _ _ hsub2; simp_all
              | err => simp_all
              | fuel => simp_all
            · rename_i r'
              cases hsub2 : parseList .never n c r' with
              | ok es r2 => have := ihA _ _ _ _ hsub2; simp_all
              | err => simp_all
              | fuel => simp_all
            · simp_all
            · simp_all
          | err => simp_all
          | fuel => simp_all

-- ---------------------------------------------------------------- the property theorems

/-- The precedence numbers in `parse.rs` are the documented levels (book, "Operator precedence"). -/
theorem C31_doc_table_matches_code :
    (∀ o : BinOp, o.prec = docLevel o) ∧ PrefixOp.neg.prec = docLevelNeg ∧
      PrefixOp.not.prec = docLevelNot ∧
      (∀ p ∈ [precMember, precIndex, precCall, precUnwrap, precTry], docLevelNot < p) :=
  ⟨fun o => (docLevel_eq_prec o).symm, rfl, rfl, by decide⟩

/-- Termination: on every token list, with any treatment of `-<literal>`, the parser model yields a
    tree with the remaining tokens or a diagnostic — `fuelFor` always suffices. -/
theorem C31_parser_total (mode : FoldMode) (toks : List Tok) :
    (∃ e rest, parseExprWith mode toks = .ok e rest) ∨ parseExprWith mode toks = .err := by
  have h := fuel_suffices mode toks
  cases hr : parseExprWith mode toks with
  | ok e rest => exact Or.inl ⟨e, rest, rfl⟩
  | err => exact Or.inr rfl
  | fuel => exact absurd hr h

/-- The precedence-climbing invariant, for every tree: at any binding power weaker than the tree's
    level, `parse_expr_bp` reads exactly the tokens of `printMinimal t` (the longest prefix whose
    top-level operators all bind tighter) when the next token cannot extend the expression.  Holds for
    the code today (`loose`) and for the reference treatment (`never`). -/
theorem C31_parse_print_prefix (mode : FoldMode) (hm : mode ≠ .always) (t : Expr) (h : t.WF)
    (rest : List Tok) (hs : stops 0 rest = true) :
    parseExprWith mode (printMinimal t ++ rest) = .ok t rest := by
  apply PB.parseExprWith
  unfold printMinimal
  rw [((print_starts t).append rest).skipNl]
  exact main_expr mode hm t h 0 rest _ (level_pos t) (by omega) (stops_mono hs (by omega))
    (LP.stop hs (by omega))

/-- **Round trip.** For every expression tree, the parser of `/repo` (`parseExpr`), run on the
    tree's minimally parenthesised print, gives back exactly that tree and consumes every token:
    operators group as the documented table and left associativity say. -/
theorem C31_parse_print (t : Expr) (h : t.WF) : parseExpr (printMinimal t) = .ok t [] := by
  have := C31_parse_print_prefix codeFoldMode (by decide) t h [] rfl
  simpa [parseExpr] using this

/-- The same for the reference parser in which `-<literal>` is *always* an ordinary prefix minus: on
    printed trees the code and the reference agree. -/
theorem C31_code_agrees_with_reference (t : Expr) (h : t.WF) :
    parseExpr (printMinimal t) = parseExprWith .never (printMinimal t) := by
  have := C31_parse_print_prefix .never (by decide) t h [] rfl
  rw [C31_parse_print t h]
  simpa using this.symm

/-- **Literal and variable operands group alike.** Substituting atoms in the token stream of any
    printed tree — e.g. every numeric literal by a variable, `-2 % 3` ↦ `-x % 3`, or the other way
    round — yields the same tree under the same substitution: the grouping does not depend on what
    the operands are.  (`σ` leaves identifiers alone only because member names are identifier
    tokens too; literals must stay in `i64` range.) -/
theorem C31_neg_literal_uniform (t : Expr) (h : t.WF) (σ : Atom → Atom)
    (hid : ∀ s, σ (.ident s) = .ident s) (hr : ∀ a n, σ a = .int n → n ≤ I64_MAX) :
    parseExpr ((printMinimal t).map (Tok.subst σ)) = .ok (t.subst σ) [] := by
  unfold printMinimal
  rw [← print_subst σ hid t]
  exact C31_parse_print _ (wf_subst σ hr t h)

/-- **Arbitrary context.** On *every* token list — any left context, any enclosing binding power,
    parenthesised or not — whenever the reference parser (in which `-` is a prefix operator of level 6
    whatever its operand and whatever encloses it) produces a tree, the parser of `/repo` produces
    exactly the same tree and remainder.  (One direction only: the converse is not claimed — the code
    accepts `-9223372036854775808`, see `C31_neg_literal_examples`, which the reference cannot spell.)  In particular whether a literal keeps its sign never depends on the
    operator to its left: `9 % -2 * 4` is `9 % (-(2 * 4))` like `9 % -x * 4`. -/
theorem C31_code_extends_reference (toks : List Tok) (e : Expr) (r : List Tok)
    (h : parseExprWith .never toks = .ok e r) : parseExpr toks = .ok e r :=
  (sim_all (fuelFor toks)).1 0 (skipNl toks) e r h

/-- The reference parser's decision "is this `-` a prefix operator?" does not look at atoms at all,
    so in it a literal and a variable operand are indistinguishable in every context. -/
theorem C31_reference_atom_blind (σ : Atom → Atom) (toks : List Tok) :
    prefixOp? .never (toks.map (Tok.subst σ)) =
      (prefixOp? .never toks).map (fun p => (p.1, p.2.map (Tok.subst σ))) := by
  cases toks with
  | nil => rfl
  | cons t r =>
    cases t with
    | op o =>
      cases o <;> try rfl
      cases r with
      | nil => rfl
      | cons t2 r2 => cases t2 <;> simp [prefixOp?, foldsHere, Tok.subst]
    | _ => rfl

theorem skipNl_nls (k : Nat) (Z : List Tok) : skipNl (List.replicate k .nl ++ Z) = skipNl Z := by
  induction k with
  | zero => rfl
  | succ k ih => simp [List.replicate_succ, skipNl, ih]

/-- **Continuation lines.** Line breaks in front of an operand are skipped *before* the parser looks
    for a prefix operator (fix 7fe8312), for every operand position, binding power and mode: an
    operand that starts with `-`, `not`, a negative literal or a parenthesis on the next line is read
    exactly as on the same line.  So `3 +⏎ -2 ^ 2` is `3 + -2 ^ 2`. -/
theorem C31_newlines_at_operand_start (mode : FoldMode) (f bp k : Nat) (toks : List Tok) :
    parseBp mode f bp (List.replicate k .nl ++ toks) = parseBp mode f bp toks := by
  cases f with
  | zero => rfl
  | succ f => rw [parseBp_succ, parseBp_succ, skipNl_nls]

/-- …and never in front of a binary or postfix operator: at a line break the loop of
    `parse_expr_bp` returns what it has, so `let p = 1⏎-x` stays two statements. -/
theorem C31_newline_ends_expression (mode : FoldMode) (f bp : Nat) (lhs : Expr) (rest : List Tok) :
    loop mode (f + 1) bp lhs (.nl :: rest) = .ok lhs (.nl :: rest) := rfl

/-- the regression for D85, and the statement boundary -/
theorem C31_continuation_examples :
    parseExpr [.atom (.int 3), .op .add, .nl, .op .sub, .atom (.int 2), .op .pow, .atom (.int 2)]
      = parseExpr [.atom (.int 3), .op .add, .op .sub, .atom (.int 2), .op .pow, .atom (.int 2)] ∧
    parseExpr [.atom (.int 3), .op .add, .nl, .op .sub, .atom (.ident "x")]
      = .ok (.bin .add (.atom (.int 3)) (.neg (.atom (.ident "x")))) [] ∧
    parseExpr [.atom (.bool true), .op .and, .nl, .nl, .not, .atom (.ident "b")]
      = .ok (.bin .and (.atom (.bool true)) (.not (.atom (.ident "b")))) [] ∧
    parseExpr [.atom (.int 1), .nl, .op .sub, .atom (.ident "x")]
      = .ok (.atom (.int 1)) [.nl, .op .sub, .atom (.ident "x")] := by
  refine ⟨?_, ?_, ?_, ?_⟩ <;> rfl

/-- `-2 % 3` and `-x % 3` (and `^`): both are `-(… % …)`, as the table says (unary minus is on the
    additive level, below `%` and `^`); and the smallest integer can still be written. -/
theorem C31_neg_literal_examples :
    parseExpr [.op .sub, .atom (.int 2), .op .mod, .atom (.int 3)]
      = .ok (.neg (.bin .mod (.atom (.int 2)) (.atom (.int 3)))) [] ∧
    parseExpr [.op .sub, .atom (.ident "x"), .op .mod, .atom (.int 3)]
      = .ok (.neg (.bin .mod (.atom (.ident "x")) (.atom (.int 3)))) [] ∧
    parseExpr [.op .sub, .atom (.int 2), .op .pow, .atom (.int 2)]
      = .ok (.neg (.bin .pow (.atom (.int 2)) (.atom (.int 2)))) [] ∧
    parseExpr [.op .sub, .atom (.int 9223372036854775808)]
      = .ok (.neg (.atom (.int 9223372036854775808))) [] ∧
    parseExpr [.op .sub, .atom (.int 9223372036854775808), .op .add, .atom (.int 1)]
      = .ok (.bin .add (.neg (.atom (.int 9223372036854775808))) (.atom (.int 1))) [] ∧
    parseExpr [.atom (.int 9), .op .mod, .op .sub, .atom (.int 2), .op .mul, .atom (.int 4)]
      = .ok (.bin .mod (.atom (.int 9)) (.neg (.bin .mul (.atom (.int 2)) (.atom (.int 4))))) [] ∧
    parseExpr [.atom (.int 9), .op .mod, .op .sub, .atom (.ident "x"), .op .mul, .atom (.int 4)]
      = .ok (.bin .mod (.atom (.int 9)) (.neg (.bin .mul (.atom (.ident "x")) (.atom (.int 4))))) [] := by
  refine ⟨?_, ?_, ?_, ?_, ?_, ?_, ?_⟩ <;> rfl

/-- What the treatment before the fix of D11 (`always`: the literal swallows the sign before binary
    operators are looked at) does to the same input: it contradicts the table. -/
theorem C31_fold_breaks_table :
    parseExprWith .always [.op .sub, .atom (.int 2), .op .mod, .atom (.int 3)]
      = .ok (.bin .mod (.neg (.atom (.int 2))) (.atom (.int 3))) [] ∧
    parseExprWith .always (printMinimal (.neg (.bin .mod (.atom (.int 2)) (.atom (.int 3)))))
      ≠ .ok (.neg (.bin .mod (.atom (.int 2)) (.atom (.int 3)))) [] := by
  constructor
  · rfl
  · have : parseExprWith .always (printMinimal (.neg (.bin .mod (.atom (.int 2)) (.atom (.int 3)))))
        = .ok (.bin .mod (.neg (.atom (.int 2))) (.atom (.int 3))) [] := rfl
    rw [this]; intro h; cases h

-- non-vacuity: a tree with every kind of node satisfies `WF`, and the round trip is computed
example : (Expr.bin .add (.neg (.atom (.int 2))) (.call (.member (.atom (.ident "a")) "f")
    (.cons (.tuple (.cons (.atom (.int 1)) (.cons (.not (.atom (.bool true))) .nil))) .nil))).WF := by
  simp [Expr.WF, Args.WF, Args.length, I64_MAX]
example : parseExpr (printMinimal (.bin .mul (.bin .add (.atom (.int 1)) (.atom (.int 2)))
    (.neg (.atom (.ident "x"))))) = .ok (.bin .mul (.bin .add (.atom (.int 1)) (.atom (.int 2)))
    (.neg (.atom (.ident "x")))) [] := by rfl
example : stops 0 [Tok.rparen] = true := rfl
example : FoldMode.loose ≠ FoldMode.always := by decide
example : ∃ σ : Atom → Atom, (∀ s, σ (.ident s) = .ident s) ∧ (∀ a n, σ a = .int n → n ≤ I64_MAX) ∧
    σ (.int 2) = .ident "x" :=
  ⟨fun a => match a with | .int _ => .ident "x" | b => b, fun _ => rfl,
    fun a n h => by cases a <;> simp at h, rfl⟩

end Abra.Pratt
