import AbraProofs.Lemmas.PatCompile
import AbraProofs.Properties.C12
/-!
# C14 — match and destructuring select the first matching arm and bind correctly

Model: `Abra.PatCompile` (the pattern part of M8: `translate_pat_comparison`,
`translate_product_pat_comparison`, `traverse_arm_pat`, `handle_pat_binding`, the `ExprKind::Match`
code) run on the model VM (`step`/`run`, forward jumps as skipping).  `pmatch` (M9) is the meaning
of source patterns; `repr` is the run-time representation of typed values.
-/
namespace Abra.PatCompile
open Abra.PatMatrix

/-- **Comparison code is correct** — for every enum environment, pattern, type, value of that type,
    decision set, label path and machine context: running `translate_pat_comparison`'s code with the
    value on top of the stack (nothing for `void`) replaces it by `Bool (matches p' v)` where `p'` is the
    alternative of each or-pattern that the decision set selects (`resolveP`), and leaves the rest of
    the stack, the locals and the control state untouched — in particular a product whose i-th
    component fails is cleaned up completely (`failChain`).  All pattern kinds are covered: literals,
    wildcard, binding, `nil`, tuples, structs, variants without data, with positional data (incl. the
    tuple encoding of several fields), with named fields (one field, several fields, void fields),
    or-patterns. -/
theorem C14_patCompare_correct (env : EnumEnv) (p : Pat) (π : Path) (ty : Ty) (D : List Path) (v : Val)
    (stk : List SVal) (locs : List (Nat × SVal)) (tk : Option Nat)
    (ht : patTyped env p ty = true) (hv : hasTy env v ty = true) :
    run (cmp env π ty p D) (mk (slot env ty v ++ stk) locs tk none) =
      some (mk (.bool (pmatch (resolveP env π ty p D) v) :: stk) locs tk none) :=
  cmp_ok env p π ty D v stk locs tk ht hv

/-- non-vacuity: the hypotheses hold for `(true | false, 2)` against `(false, 2)`; with the or-pattern
    already decided right the theorem yields `true` on top of the untouched `7` -/
example : patTyped (fun _ => []) (.tuple [.or (.bool true) (.bool false), .int 2]) (.tuple [.bool, .int]) = true ∧
    hasTy (fun _ => []) (.prod [.bool false, .int 2]) (.tuple [.bool, .int]) = true := by decide +kernel

example : run (cmp (fun _ => []) [0] (.tuple [.bool, .int]) (.tuple [.or (.bool true) (.bool false), .int 2]) [[0, 0]])
    (mk (slot (fun _ => []) (.tuple [.bool, .int]) (.prod [.bool false, .int 2]) ++ [.int 7]) [] none none) =
    some (mk [.bool (pmatch (resolveP (fun _ => []) [0] (.tuple [.bool, .int])
      (.tuple [.or (.bool true) (.bool false), .int 2]) [[0, 0]]) (.prod [.bool false, .int 2])), .int 7] [] none none) :=
  C14_patCompare_correct (fun _ => []) (.tuple [.or (.bool true) (.bool false), .int 2]) [0] (.tuple [.bool, .int])
    [[0, 0]] (.prod [.bool false, .int 2]) [.int 7] [] none (by decide +kernel) (by decide +kernel)

/-- **Binding code is correct** — the same `handle_pat_binding` serves `match` arms, `let` and `for`:
    on a value of the pattern's type that the selected alternative (`resolveP`) matches, the code
    consumes exactly the value's stack slot(s), leaves everything below untouched, and stores for
    every variable the representation of the component it stands for (`bindingsOf`: left to right,
    nothing for `void` components, through tuples, positional and named struct/variant fields). -/
theorem C14_patBind_correct (env : EnumEnv) (p : Pat) (π : Path) (ty : Ty) (D : List Path) (v : Val)
    (stk : List SVal) (locs : List (Nat × SVal)) (tk : Option Nat)
    (ht : patTyped env p ty = true) (hv : hasTy env v ty = true)
    (hm : pmatch (resolveP env π ty p D) v = true) :
    run (bind env π ty p D) (mk (slot env ty v ++ stk) locs tk none) =
      some (mk stk ((bindingsOf env ty (resolveP env π ty p D) v).reverse ++ locs) tk none) :=
  bind_ok env p π ty D v stk locs tk ht hv hm

/-- **`let` / `var` / `for` as the code is** (`bind_irrefutable_pat`, after D103; any or-patterns): the
    variables are bound under the FIRST combination of or-pattern alternatives, in the order of the arm
    loop, whose selected alternative matches the value; the value is consumed, nothing else touched. -/
theorem C14_let_binds_first_combination (env : EnumEnv) (ty : Ty) (p : Pat) (v : Val) (stk : List SVal)
    (hnv : ty.isVoid = false) (ht : patTyped env p ty = true) (hv : hasTy env v ty = true)
    (r : Nat) (D : List Path) (c : List Instr)
    (hr : (armPasses env ty 0 p (2 ^ orCount p) 0 []).findIdx? (fun x => pmatch (resolveP env [0] ty p x.1) v) = some r)
    (hx : (armPasses env ty 0 p (2 ^ orCount p) 0 [])[r]? = some (D, c)) :
    runLet env ty p v stk = some ((bindingsOf env ty (resolveP env [0] ty p D) v).reverse, stk) :=
  runLet_general env ty p v stk hnv ht hv r D c hr hx

/-- `let` / `for` destructuring: a pattern that is an or-chain `a | b | c` of or-free alternatives
    (a pattern without or-patterns is the chain of length one) and matches `v` binds exactly what it
    binds as a match arm — through its first alternative that matches — and restores the stack -/
theorem C14_let_destructuring (env : EnumEnv) (p : Pat) (ty : Ty) (v : Val) (stk : List SVal)
    (hnv : ty.isVoid = false) (ht : patTyped env p ty = true) (hv : hasTy env v ty = true) (hch : isChain p)
    (hm : pmatch p v = true) :
    runLet env ty p v stk = some ((bindingsOf env ty p v).reverse, stk) :=
  runLet_chain env ty p v stk hnv ht hch hv hm

/-- **Destructuring accepted by the checker binds like the matching arm would** (`_partial` only in
    that or-patterns must form a chain of or-free alternatives, e.g. `(d, _) | (_, d)`,
    `.A(x) | .B(x) | _`; NOT restricted to or-free patterns any more): for a pattern that `checkLet`
    (C12) accepts, `let p = v` / `var` / `for p in …` stores, for EVERY well-typed value, exactly what
    a match arm `p` would bind (`bindingsOf`: through the first alternative that matches), and
    restores the stack.  For or-patterns nested inside constructor patterns the proved statement is
    `C14_let_binds_first_combination`. -/
theorem C14_let_accepted_binds (env : EnumEnv) (hinh : Inhabited' env) (p : Pat) (ty : Ty) (fuel : Nat)
    (hnv : ty.isVoid = false) (ht : patTyped env p ty = true) (hch : isChain p)
    (hacc : checkLet env fuel ty p = some true)
    (v : Val) (hv : hasTy env v ty = true) (stk : List SVal) :
    runLet env ty p v stk = some ((bindingsOf env ty p v).reverse, stk) :=
  C14_let_destructuring env p ty v stk hnv ht hv hch (C12_let_accepted_irrefutable hinh ht hacc v hv)

def d103Env : EnumEnv := fun _ => [[.int, .int], [.int]]

/-- **D103 regression** (repaired by ae0a5b4): `let (Ee.Aa(_, _) | _) = Ee.Bb(0)` binds through the
    alternative that matches (nothing to bind, value consumed) instead of deconstructing `Bb`'s payload
    as `Aa`'s; and `let (Ee.Aa(x, _) | Ee.Bb(x)) = Ee.Bb(5)` binds `x` to 5 -/
theorem C14_d103_regression :
    (runLet d103Env (.enum 0) (.or (.variantPos 0 0 (.tuple [.wild, .wild])) .wild) (.variant 1 (.int 0)) []).map
        (fun r => (r.1.length, r.2.length)) = some (0, 0) ∧
    (runLet d103Env (.enum 0) (.or (.variantPos 0 0 (.tuple [.bind 0, .wild])) (.variantPos 0 1 (.bind 0)))
        (.variant 1 (.int 5)) []).map (fun r => (r.1.map (fun x => x.1), r.2.length)) = some ([0], 0) := by
  decide +kernel

/-- **The match as the code is** (every arm list, any or-patterns): the `ExprKind::Match` code enters
    the body of the FIRST PASS, in emission order, whose selected alternative (`passPat`) matches the
    value — and of no other pass —, binds exactly the variables of that alternative to their
    components, and leaves the stack below the scrutinee as it found it.  The passes are those of the
    arm loop (`allPasses`: per arm one pass for every combination of or-pattern alternatives,
    enumerated like a binary counter; a pass is bound under the decisions it was compared under). -/
theorem C14_match_takes_first_pass (env : EnumEnv) (ty : Ty) (arms : List Pat) (v : Val) (stk : List SVal)
    (hnv : ty.isVoid = false) (harms : ∀ p ∈ arms, patTyped env p ty = true) (hv : hasTy env v ty = true)
    (r : Nat) (x : Pass)
    (hr : (allPasses env ty 0 arms 0).findIdx? (fun x => pmatch (passPat env ty arms x) v) = some r)
    (hx : (allPasses env ty 0 arms 0)[r]? = some x) :
    runMatch env ty arms v stk =
      some (some x.1, some r, (bindingsOf env ty (passPat env ty arms x) v).reverse, stk) :=
  runMatch_general env ty arms v stk hnv harms hv r x hr hx

/-- **The match takes the first matching arm and binds through its first matching alternative**
    (`_partial`: every arm is an or-chain `a | b | c` of or-free alternatives — an arm without
    or-patterns is the chain of length one —, scrutinee type not `void`).  For every such arm list of
    well-typed patterns and every well-typed value whose first matching arm (source order,
    `List.findIdx?` over `pmatch`) is `k`: the code enters a body of arm `k` and of no other arm, with
    the variables bound as `bindingsOf` says (an or-pattern binds through its first alternative that
    matches), and leaves `stk` untouched.

    What is missing for the full statement: or-patterns NESTED inside tuple/struct/variant patterns
    (e.g. `(1 | 2, 3 | 4)`).  For those `C14_match_takes_first_pass` says what the code does (first
    matching pass), but that the binary-counter passes enumerate exactly the alternatives of the arm,
    in left-to-right order, is not proved here (it is checked by the correspondence on every run;
    the repaired D27 input is `C14_d27_regression`). -/
theorem C14_match_selects_first_partial (env : EnumEnv) (ty : Ty) (arms : List Pat) (v : Val) (stk : List SVal)
    (hnv : ty.isVoid = false) (harms : ∀ p ∈ arms, patTyped env p ty = true) (hch : ∀ p ∈ arms, isChain p)
    (hv : hasTy env v ty = true) (k : Nat) (hk : arms.findIdx? (fun p => pmatch p v) = some k) :
    ∃ r, runMatch env ty arms v stk =
      some (some k, some r, (bindingsOf env ty (arms.getD k .wild) v).reverse, stk) :=
  runMatch_chain env ty arms v stk hnv harms hch hv k hk

/-- arms without or-patterns are chains -/
theorem C14_orfree_is_chain {p : Pat} (h : orCount p = 0) : isChain p := isChain_orfree h

-- OPEN: C14_match_selects_first — the same conclusion for arms with or-patterns nested inside
-- constructor patterns (the binary-counter enumeration of `armPasses` is complete and ordered).
-- Checked by the correspondence on every run (nested and side-by-side or-patterns, with and without
-- bindings, are in the generator's main stream); not proved.

def d27Ty : Ty := .tuple [.int, .int]
def d27Arms : List Pat := [.tuple [.or (.int 1) (.int 2), .or (.int 3) (.int 4)], .wild]

/-- **D27 regression** (repaired by b67d291): with two or-patterns side by side every combination is
    tried — `(1, 4)`, `(2, 3)`, `(1, 3)`, `(2, 4)` take arm 0, `(1, 5)` takes arm 1. -/
theorem C14_d27_regression :
    ([(1, 4), (2, 3), (1, 3), (2, 4), (1, 5)] : List (Int × Int)).map (fun x =>
      (runMatch (fun _ => []) d27Ty d27Arms (.prod [.int x.1, .int x.2]) []).map (fun r => r.1)) =
    [some (some 0), some (some 0), some (some 0), some (some 0), some (some 1)] := by
  decide +kernel

/-! Non-vacuity of the hypotheses of the match and binding theorems. -/

def exArms14 : List Pat :=
  [.tuple [.variantPos 0 0 (.bind 0), .bool true], .tuple [.variant0 0 1, .bind 1], .tuple [.wild, .wild]]

example : (∀ p ∈ exArms14, orCount p = 0 ∧ patTyped Abra.PatMatrix.exEnv p Abra.PatMatrix.exTy = true) ∧
    (∀ p ∈ exArms14 ++ [Pat.or (.tuple [.wild, .bool true]) (.or (.tuple [.wild, .bool false]) .wild)],
      ∀ q ∈ alts p, orCount q = 0) ∧
    hasTy Abra.PatMatrix.exEnv (.prod [.variant 1 (.prod []), .bool false]) Abra.PatMatrix.exTy = true := by
  decide +kernel

example : exArms14.findIdx? (fun p => pmatch p (.prod [.variant 1 (.prod []), .bool false])) = some 1 := by
  simp [exArms14, List.findIdx?_cons, pmatch, pmatchAll]

end Abra.PatCompile
