import AbraModel.TryLower
import AbraProofs.Lemmas.VMCore
/-!
# C23 — `?` and `!` follow option/result semantics

* `C23_prelude_*` — the prelude's `branch` / `from_residual` / `unwrap` (transliterated, `Abra.TryLower`)
  evaluate to the documented variants, for every payload, state and sufficient fuel.
* `C23_try_follows_prelude`, `C23_unwrap_follows_prelude` — the reference interpreter's `e?` / `e!` are what
  the lowering composes out of those prelude functions.
* `C23_return_restores`, `C23_return_void_restores` — `Return` truncates the operand stack to the caller's
  pre-call stack plus the result, whatever temporaries the callee had pushed.
* `C23_try_lowering_continue`, `C23_try_lowering_break` — the instruction sequence emitted for `e?` on the VM core:
  with `branch`'s result on top it either continues with the payload, or calls `from_residual` and returns its
  result from the enclosing function with the caller's stack restored — from any operand position (`X`).
* `C23_unwrap_lowering` — `e!` is one call: its result replaces the argument on the caller's stack.
-/
namespace Abra.TryLower
open Abra.Sem Abra.VM

/-! ### the prelude functions -/

theorem C23_prelude_branch_option_some (k : Nat) (x : Sem.Val) (s : St) :
    callPrelude (k + 8) branchOption (.variant "some" [x]) s = .ok (.variant "Continue" [x]) s := by
  rfl

theorem C23_prelude_branch_option_none (k : Nat) (s : St) :
    callPrelude (k + 8) branchOption (.variant "none" []) s = .ok (.variant "Break" [.unit]) s := by
  rfl

theorem C23_prelude_from_residual_option (k : Nat) (r : Sem.Val) (s : St) :
    callPrelude (k + 8) fromResidualOption r s = .ok (.variant "none" []) s := by
  rfl

theorem C23_prelude_branch_result_ok (k : Nat) (x : Sem.Val) (s : St) :
    callPrelude (k + 8) branchResult (.variant "ok" [x]) s = .ok (.variant "Continue" [x]) s := by
  rfl

theorem C23_prelude_branch_result_err (k : Nat) (e : Sem.Val) (s : St) :
    callPrelude (k + 8) branchResult (.variant "err" [e]) s = .ok (.variant "Break" [e]) s := by
  rfl

theorem C23_prelude_from_residual_result (k : Nat) (r : Sem.Val) (s : St) :
    callPrelude (k + 8) fromResidualResult r s = .ok (.variant "err" [r]) s := by
  rfl

theorem C23_prelude_unwrap_option_some (k : Nat) (x : Sem.Val) (s : St) :
    callPrelude (k + 8) unwrapOption (.variant "some" [x]) s = .ok x s := by
  rfl

theorem C23_prelude_unwrap_option_none (k : Nat) (s : St) :
    callPrelude (k + 8) unwrapOption (.variant "none" []) s = .sig (.err .panic) s := by
  rfl

theorem C23_prelude_unwrap_result_ok (k : Nat) (x : Sem.Val) (s : St) :
    callPrelude (k + 8) unwrapResult (.variant "ok" [x]) s = .ok x s := by
  rfl

theorem C23_prelude_unwrap_result_err (k : Nat) (e : Sem.Val) (s : St) :
    callPrelude (k + 8) unwrapResult (.variant "err" [e]) s = .sig (.err .panic) s := by
  rfl

/-- option/result values -/
inductive IsOption : Sem.Val → Prop where
  | some (x : Sem.Val) : IsOption (.variant "some" [x])
  | none : IsOption (.variant "none" [])

inductive IsResult : Sem.Val → Prop where
  | ok (x : Sem.Val) : IsResult (.variant "ok" [x])
  | err (e : Sem.Val) : IsResult (.variant "err" [e])

/-- `e?` in the reference interpreter = `branch`, then payload or early return of `from_residual`. -/
theorem C23_try_follows_prelude (k : Nat) (v : Sem.Val) (s : St) :
    (IsOption v → tryVal v s = tryViaPrelude (k + 8) branchOption fromResidualOption v s) ∧
    (IsResult v → tryVal v s = tryViaPrelude (k + 8) branchResult fromResidualResult v s) := by
  constructor
  · intro h
    cases h with
    | some x => simp [tryVal, tryViaPrelude, C23_prelude_branch_option_some, Res.bind]
    | none => simp [tryVal, tryViaPrelude, C23_prelude_branch_option_none, C23_prelude_from_residual_option, Res.bind]
  · intro h
    cases h with
    | ok x => simp [tryVal, tryViaPrelude, C23_prelude_branch_result_ok, Res.bind]
    | err e => simp [tryVal, tryViaPrelude, C23_prelude_branch_result_err, C23_prelude_from_residual_result, Res.bind]

/-- `e!` in the reference interpreter = the prelude's `unwrap`. -/
theorem C23_unwrap_follows_prelude (k : Nat) (v : Sem.Val) (s : St) :
    (IsOption v → unwrapVal v s = callPrelude (k + 8) unwrapOption v s) ∧
    (IsResult v → unwrapVal v s = callPrelude (k + 8) unwrapResult v s) := by
  constructor
  · intro h
    cases h with
    | some x => simp [unwrapVal, C23_prelude_unwrap_option_some]
    | none => simp [unwrapVal, C23_prelude_unwrap_option_none]
  · intro h
    cases h with
    | ok x => simp [unwrapVal, C23_prelude_unwrap_result_ok]
    | err e => simp [unwrapVal, C23_prelude_unwrap_result_err]


/-! ### the VM side -/

theorem set_take_append (S R : List VM.Val) (v : VM.Val) (hR : R ≠ []) :
    ((S ++ R).set S.length v).take (S.length + 1) = S ++ [v] := by
  induction S with
  | nil =>
    cases R with
    | nil => exact absurd rfl hR
    | cons r rs => simp
  | cons a S ih => simpa using ih

/-- **`Return` restores the caller's operand stack.**  The callee was entered with `args` on top of the
    caller's stack `S`; whatever it pushed since (`X`: its locals and any pending temporaries), `Return`
    leaves exactly `S ++ [v]`, in the caller's frame. -/
theorem C23_return_restores (P : Program) (pc : Nat) (S args X : List VM.Val) (v : VM.Val) (fr : Frame)
    (rest : List Frame) (heap : List VM.Obj) (out : List String)
    (hi : P[pc]? = some (.ret args.length)) (hn : fr.nargs = args.length) :
    VM.step P { pc := pc, stack := S ++ args ++ X ++ [v], base := S.length + args.length, frames := fr :: rest,
                heap := heap, out := out }
      = .ok { pc := fr.pc, stack := S ++ [v], base := fr.base, frames := rest, heap := heap, out := out } := by
  have hlen : S.length < (S ++ args ++ X ++ [v]).length := by simp; omega
  have hset := set_take_append S (args ++ X ++ [v]) v (by simp)
  simp only [List.append_assoc] at hset hlen ⊢
  simp only [VM.step, hi, pop?_snoc, show pop? (S ++ (args ++ (X ++ [v]))) = some (v, S ++ (args ++ X)) from by
    rw [← List.append_assoc, ← List.append_assoc, List.append_assoc S]; exact pop?_snoc _ _]
  simp only [Nat.add_sub_cancel, Nat.le_add_left, hlen, and_self, if_true, hn, hset,
    show args.length ≤ S.length + args.length + 1 from by omega]

/-- `ReturnVoid`: the caller's stack without the arguments. -/
theorem C23_return_void_restores (P : Program) (pc : Nat) (S args X : List VM.Val) (fr : Frame)
    (rest : List Frame) (heap : List VM.Obj) (out : List String)
    (hi : P[pc]? = some .retVoid) (hn : fr.nargs = args.length) :
    VM.step P { pc := pc, stack := S ++ args ++ X, base := S.length + args.length, frames := fr :: rest,
                heap := heap, out := out }
      = .ok { pc := fr.pc, stack := S, base := fr.base, frames := rest, heap := heap, out := out } := by
  simp only [VM.step, hi, hn, Nat.le_add_left, if_true, Nat.add_sub_cancel, List.append_assoc, List.take_left']

/-- the code of `tryCode` sits in the program -/
def TryAt (P : Program) (pos residualArgs frAddr retNargs : Nat) (outVoid : Bool) : Prop :=
  ∀ i (h : i < (tryCode pos residualArgs frAddr retNargs outVoid).length),
    P[pos + i]? = some ((tryCode pos residualArgs frAddr retNargs outVoid)[i])

theorem TryAt.get {P : Program} {pos ra fa rn : Nat} {ov : Bool} (h : TryAt P pos ra fa rn ov) (i : Nat)
    (hi : i < 6) : P[pos + i]? = some ((tryCode pos ra fa rn ov)[i]'(by simp [tryCode]; omega)) :=
  h i (by simp [tryCode]; omega)

/-- the first four instructions: the variant is taken apart and its tag compared with `Break` -/
theorem try_prefix {P : Program} {pos ra fa rn : Nat} {ov : Bool} (h : TryAt P pos ra fa rn ov)
    (S : List VM.Val) (a tag : Nat) (payload : VM.Val) (base : Nat) (frames : List Frame) (heap : List VM.Obj)
    (out : List String) (hobj : heap[a]? = some (.variant tag payload)) :
    Steps P { pc := pos, stack := S ++ [.variant a], base := base, frames := frames, heap := heap, out := out }
      { pc := if tag = 0 then pos + 4 else pos + 6, stack := S ++ [payload], base := base, frames := frames,
        heap := heap, out := out } := by
  have h0 := h.get 0 (by omega)
  have h1 := h.get 1 (by omega)
  have h2 := h.get 2 (by omega)
  have h3 := h.get 3 (by omega)
  simp only [tryCode, List.cons_append, List.getElem_cons_zero, List.getElem_cons_succ, Nat.add_zero] at h0 h1 h2 h3
  have s0 : VM.step P { pc := pos, stack := S ++ [.variant a], base := base, frames := frames, heap := heap, out := out }
      = .ok { pc := pos + 1, stack := S ++ [payload, .int tag], base := base, frames := frames, heap := heap, out := out } := by
    simp only [VM.step, h0, pop?_snoc, hobj]
  have s1 : VM.step P { pc := pos + 1, stack := S ++ [payload, .int tag], base := base, frames := frames, heap := heap, out := out }
      = .ok { pc := pos + 2, stack := S ++ [payload, .int tag, .int 0], base := base, frames := frames, heap := heap, out := out } := by
    simp only [VM.step, h1, List.append_assoc, List.cons_append, List.nil_append]
  have e2 : S ++ [payload, VM.Val.int tag, VM.Val.int 0] = ((S ++ [payload]) ++ [.int tag]) ++ [.int 0] := by simp
  have s2 : VM.step P { pc := pos + 2, stack := S ++ [payload, .int tag, .int 0], base := base, frames := frames, heap := heap, out := out }
      = .ok { pc := pos + 3, stack := S ++ [payload, .bool (decide ((tag : Int) = 0))], base := base, frames := frames, heap := heap, out := out } := by
    rw [e2]
    simp only [VM.step, h2, loadReg, pop?_snoc, getInt, storeReg, CmpOp.eval]
    simp
  have e3 : S ++ [payload, VM.Val.bool (decide ((tag : Int) = 0))] = (S ++ [payload]) ++ [.bool (decide ((tag : Int) = 0))] := by simp
  have s3 : VM.step P { pc := pos + 3, stack := S ++ [payload, .bool (decide ((tag : Int) = 0))], base := base, frames := frames, heap := heap, out := out }
      = .ok { pc := if tag = 0 then pos + 4 else pos + 6, stack := S ++ [payload], base := base, frames := frames, heap := heap, out := out } := by
    simp only [VM.step, h3, e3, pop?_snoc, getBool]
    by_cases ht : tag = 0
    · subst ht; simp
    · have : ¬ ((tag : Int) = 0) := by omega
      simp [ht, this]
  exact (((Steps.single s0).snoc s1).snoc s2).snoc s3

/-- **`e?` on `Continue`** (tag ≠ 0, i.e. `some`/`ok`): execution continues after the sequence with the payload
    in place of the `ControlFlow` value; the enclosing function does not return. -/
theorem C23_try_lowering_continue {P : Program} {pos ra fa rn : Nat} (h : TryAt P pos ra fa rn false)
    (S : List VM.Val) (a tag : Nat) (payload : VM.Val) (base : Nat) (frames : List Frame) (heap : List VM.Obj)
    (out : List String) (hobj : heap[a]? = some (.variant tag payload)) (ht : tag ≠ 0) :
    Steps P { pc := pos, stack := S ++ [.variant a], base := base, frames := frames, heap := heap, out := out }
      { pc := pos + 6, stack := S ++ [payload], base := base, frames := frames, heap := heap, out := out } := by
  have := try_prefix h S a tag payload base frames heap out hobj
  simpa [ht] using this

/-- the same when the output type is void: the nil payload is popped -/
theorem C23_try_lowering_continue_void {P : Program} {pos ra fa rn : Nat} (h : TryAt P pos ra fa rn true)
    (S : List VM.Val) (a tag : Nat) (payload : VM.Val) (base : Nat) (frames : List Frame) (heap : List VM.Obj)
    (out : List String) (hobj : heap[a]? = some (.variant tag payload)) (ht : tag ≠ 0) :
    Steps P { pc := pos, stack := S ++ [.variant a], base := base, frames := frames, heap := heap, out := out }
      { pc := pos + 7, stack := S, base := base, frames := frames, heap := heap, out := out } := by
  have hp := try_prefix h S a tag payload base frames heap out hobj
  simp only [ht, if_false] at hp
  have h6 := h 6 (by simp [tryCode])
  simp only [tryCode, if_true, List.cons_append, List.nil_append, List.getElem_cons_succ, List.getElem_cons_zero] at h6
  refine hp.snoc ?_
  simp only [VM.step, h6, pop?_snoc]

/-- **`e?` on `Break`** (tag 0, i.e. `none`/`err`), from any operand position: the enclosing function was
    entered with `args` above the caller's stack `S0` and has pushed `X` (locals and pending temporaries) before
    the `ControlFlow` value.  If the call to `from_residual` made by the sequence comes back with `r'`
    (hypothesis `hfr`: the callee, started by `Call residualArgs`, returns to the instruction after the call with
    its arguments replaced by `r'`), then the enclosing function returns: the caller continues at its return
    address with exactly `S0 ++ [r']` — none of `X`, the residual or the rest of the body survives. -/
theorem C23_try_lowering_break {P : Program} {pos ra fa : Nat} {ov : Bool} (S0 args X : List VM.Val)
    (h : TryAt P pos ra fa args.length ov)
    (a : Nat) (payload r' : VM.Val) (fr : Frame) (rest : List Frame) (heap heap' : List VM.Obj) (out : List String)
    (hobj : heap[a]? = some (.variant 0 payload)) (hn : fr.nargs = args.length) (hra : ra ≤ 1)
    (hfr : Steps P
      { pc := fa, stack := S0 ++ args ++ X ++ [payload], base := (S0 ++ args ++ X ++ [payload]).length,
        frames := ({ pc := pos + 5, base := S0.length + args.length, nargs := ra } : Frame) :: fr :: rest, heap := heap, out := out }
      { pc := pos + 5, stack := (S0 ++ args ++ X ++ [payload]).take ((S0 ++ args ++ X ++ [payload]).length - ra) ++ [r'],
        base := S0.length + args.length, frames := fr :: rest, heap := heap', out := out }) :
    Steps P
      { pc := pos, stack := S0 ++ args ++ X ++ [.variant a], base := S0.length + args.length, frames := fr :: rest,
        heap := heap, out := out }
      { pc := fr.pc, stack := S0 ++ [r'], base := fr.base, frames := rest, heap := heap', out := out } := by
  have hp := try_prefix h (S0 ++ args ++ X) a 0 payload (S0.length + args.length) (fr :: rest) heap out hobj
  simp only [if_true] at hp
  have h4 := h.get 4 (by omega)
  have h5 := h.get 5 (by omega)
  simp only [tryCode, List.cons_append, List.getElem_cons_zero, List.getElem_cons_succ] at h4 h5
  have scall : VM.step P (⟨pos + 4, S0 ++ args ++ X ++ [payload], S0.length + args.length, fr :: rest, heap, out⟩ : State)
      = .ok (⟨fa, S0 ++ args ++ X ++ [payload], (S0 ++ args ++ X ++ [payload]).length,
          (⟨pos + 5, S0.length + args.length, ra⟩ : Frame) :: fr :: rest, heap, out⟩ : State) := by
    simp only [VM.step, h4]
  -- what is below `r'` when `from_residual` is back: `S0 ++ args ++ X'`
  obtain ⟨X', hX'⟩ : ∃ X', (S0 ++ args ++ X ++ [payload]).take ((S0 ++ args ++ X ++ [payload]).length - ra)
      = S0 ++ args ++ X' := by
    rcases Nat.le_one_iff_eq_zero_or_eq_one.mp hra with rfl | rfl
    · refine ⟨X ++ [payload], ?_⟩
      rw [Nat.sub_zero, List.take_length]
      simp
    · refine ⟨X, ?_⟩
      have e : (S0 ++ args ++ X ++ [payload]).length - 1 = (S0 ++ args ++ X).length := by simp; omega
      rw [e]
      exact List.take_left' rfl
  rw [hX'] at hfr
  have sret := C23_return_restores P (pos + 5) S0 args X' r' fr rest heap' out h5 hn
  exact ((hp.snoc scall).trans hfr).snoc sret

/-- **`e!`**: the lowering is a single `Call 1 unwrap`.  IF the callee, started in its own frame on the argument,
    comes back (hypothesis `hret`) with the payload in place of the argument, then so does the caller's `Call`.  The
    failing case is not part of this statement: `C23_prelude_unwrap_*` say when the prelude function panics and
    `C23_panic_instr` what the `Panic` instruction does. -/
theorem C23_unwrap_lowering {P : Program} {pc ua : Nat} (hcall : P[pc]? = some (.call 1 ua))
    (S : List VM.Val) (v payload : VM.Val) (base : Nat) (frames : List Frame) (heap heap' : List VM.Obj)
    (out : List String)
    (hret : Steps P
      { pc := ua, stack := S ++ [v], base := (S ++ [v]).length, frames := ({ pc := pc + 1, base := base, nargs := 1 } : Frame) :: frames,
        heap := heap, out := out }
      { pc := pc + 1, stack := S ++ [payload], base := base, frames := frames, heap := heap', out := out }) :
    Steps P { pc := pc, stack := S ++ [v], base := base, frames := frames, heap := heap, out := out }
      { pc := pc + 1, stack := S ++ [payload], base := base, frames := frames, heap := heap', out := out } := by
  refine .cons ?_ hret
  simp only [VM.step, hcall]

/-- the `Panic` instruction stops with the Panic error kind -/
theorem C23_panic_instr {P : Program} {pc : Nat} (hi : P[pc]? = some .panic) (S : List VM.Val) (a : Nat) (msg : String)
    (base : Nat) (frames : List Frame) (heap : List VM.Obj) (out : List String) (hobj : heap[a]? = some (.str msg)) :
    ∃ s', VM.step P { pc := pc, stack := S ++ [.str a], base := base, frames := frames, heap := heap, out := out }
      = .error .panic s' := by
  simp only [VM.step, hi, pop?_snoc, hobj]
  exact ⟨_, rfl⟩

/-! ### non-vacuity -/

/-- a program holding the try sequence for a one-argument function whose `from_residual` is
    `result.err`-like: `ConstructVariant 1; Return 1` -/
def demoProg : Program :=
  tryCode 0 1 6 1 false ++ [.constructVariant 1, .ret 1]

example : TryAt demoProg 0 1 6 1 false := by
  intro i h
  simp only [tryCode, demoProg, List.length_cons, List.length_nil, List.length_append] at h
  have : i = 0 ∨ i = 1 ∨ i = 2 ∨ i = 3 ∨ i = 4 ∨ i = 5 := by simp at h; omega
  rcases this with rfl | rfl | rfl | rfl | rfl | rfl <;> rfl

/-- the whole early return, executed: caller stack `[7]`, argument `5`, a pending temporary `9`,
    `Break(42)` on top → the caller resumes with `[7, err(42)]` -/
example :
    VM.run demoProg 8
      { pc := 0, stack := [.int 7, .int 5, .int 9, .variant 0], base := 2,
        frames := [{ pc := 100, base := 0, nargs := 1 }], heap := [.variant 0 (.int 42)], out := [] }
      = .outOfFuel
        { pc := 100, stack := [.int 7, .variant 1], base := 0, frames := [],
          heap := [.variant 0 (.int 42), .variant 1 (.int 42)], out := [] } := by decide +kernel

example : (IsOption (.variant "some" [.int 3])) ∧ tryVal (.variant "none" []) St.init = .sig (.ret (.variant "none" [])) St.init :=
  ⟨.some _, rfl⟩

/-! ### the static rule and why it is the right one -/

/-- **`?` is accepted exactly between equal families**: both options, or both results with the same error type. -/
theorem C23_try_accepted_iff (o r : TryFam) :
    tryAccepted o r = true ↔ (o = .option ∧ r = .option) ∨ ∃ e, o = .result e ∧ r = .result e := by
  cases o with
  | option => cases r <;> simp [tryAccepted]
  | plain => cases r <;> simp [tryAccepted]
  | result e =>
    cases r with
    | option => simp [tryAccepted]
    | plain => simp [tryAccepted]
    | result e' =>
      simp only [tryAccepted, beq_iff_eq, reduceCtorEq, false_and, false_or, TryFam.result.injEq]
      constructor
      · rintro rfl; exact ⟨e, rfl, rfl⟩
      · rintro ⟨x, rfl, rfl⟩; rfl

/-- **What `?` returns early belongs to the operand's family** (and the state is untouched): `none` for an option,
    `err(x)` with the operand's own payload for a result.  So the enclosing function has to return that family —
    the accepted combinations of `C23_try_accepted_iff` are exactly those where the early return is well typed. -/
theorem C23_try_residual_in_family (fam : TryFam) (v w : Sem.Val) (s s' : St)
    (hv : InFam fam v) (h : tryVal v s = .sig (.ret w) s') : InFam fam w ∧ s' = s ∧ fam ≠ .plain := by
  cases fam with
  | option =>
    rcases hv with rfl | ⟨x, rfl⟩
    · simp only [tryVal, Res.sig.injEq, Sig.ret.injEq] at h
      obtain ⟨rfl, rfl⟩ := h
      exact ⟨.inl rfl, rfl, by simp⟩
    · simp [tryVal] at h
  | result e =>
    rcases hv with ⟨x, rfl⟩ | ⟨x, rfl⟩
    · simp [tryVal] at h
    · simp only [tryVal, Res.sig.injEq, Sig.ret.injEq] at h
      obtain ⟨rfl, rfl⟩ := h
      exact ⟨.inr ⟨x, rfl⟩, rfl, by simp⟩
  | plain =>
    obtain ⟨h1, h2, h3, h4⟩ := hv
    exfalso
    unfold tryVal at h
    split at h <;> first | (cases h; done) | exact h1 rfl | exact h2 _ rfl | exact h3 _ rfl | exact h4 _ rfl

/-- on a value that is neither an option nor a result `?` has no meaning at all (the reference evaluation is stuck):
    the checker has to reject such an operand, and it does (`tryAccepted .plain _ = false`) -/
theorem C23_try_plain_has_no_meaning (v : Sem.Val) (s : St) (hv : InFam .plain v) :
    (∃ why, tryVal v s = .stuck why) ∧ ∀ r, tryAccepted .plain r = false := by
  obtain ⟨h1, h2, h3, h4⟩ := hv
  refine ⟨?_, fun r => by cases r <;> rfl⟩
  unfold tryVal
  split <;> first | exact ⟨_, rfl⟩ | exact absurd rfl h1 | exact absurd rfl (h2 _) | exact absurd rfl (h3 _) | exact absurd rfl (h4 _)

/-! non-vacuity of `InFam` -/
example : InFam .option (.variant "none" []) ∧ InFam (.result "string") (.variant "err" [.str "e"]) ∧ InFam .plain (.int 3) :=
  ⟨.inl rfl, .inr ⟨_, rfl⟩, by simp [InFam]⟩
example : tryVal (.variant "err" [.str "e"]) St.init = .sig (.ret (.variant "err" [.str "e"])) St.init := rfl
example : tryAccepted .option (.result "string") = false ∧ tryAccepted (.result "int") (.result "string") = false ∧
    tryAccepted (.result "string") (.result "string") = true := by decide

end Abra.TryLower
