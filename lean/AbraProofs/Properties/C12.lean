import AbraProofs.Lemmas.PatMatrix
import AbraProofs.Lemmas.PatMatrixTerm
/-!
# C12 — an accepted match always has a matching arm; reported gaps are real

Model: `Abra.PatMatrix` (M9, `pat_exhaustiveness.rs` function by function).  The theorems quantify over
every enum environment in which all types are inhabited, every scrutinee type, every arm list of
well-formed patterns and every fuel value for which the run finishes; the meaning of patterns
(`dmatch`, `pmatch`) and of types (`hasTy`) never mentions matrices.

The core is `compute_good` (Lemmas/PatMatrix.lean): by induction on the recursion of
`compute_exhaustiveness_and_usefulness`, using the specialisation lemma (`row_specialize`,
`class_real`), the default-matrix lemma (`row_default`, `class_default`), the or-expansion lemma
(`specializeOrAux_first`) and the facts about `ConstructorSet::split` (`split_cover`,
`split_missing`, `split_present_valid`).
-/
namespace Abra.PatMatrix

/-- all types of the environment have a value (an enum with an uninhabited payload would make a
    "missing variant" report unreal) -/
def Inhabited' (env : EnumEnv) : Prop := ∀ T, ∃ v, hasTy env v T = true

/-- **Accepted ⇒ exhaustive** (deconstructed patterns): no witness returned ⇒ every well-typed value
    is matched by some arm. -/
theorem C12_exhaustive_sound_dpat {env : EnumEnv} (hinh : Inhabited' env) {fuel : Nat} {ty : Ty}
    {pats : List DPat} (hwt : ∀ p ∈ pats, patWT env p ty = true) {flags : List Bool}
    (h : checkD env fuel ty pats = some (flags, [])) :
    ∀ v, hasTy env v ty = true → ∃ p ∈ pats, dmatch p v = true := by
  intro v hv
  have := (checkD_good hinh hwt h).exh rfl v hv
  cases hf : pats.findIdx? (fun p => dmatch p v) with
  | none => exact absurd hf this
  | some i =>
    obtain ⟨hi, hp, _⟩ := List.findIdx?_eq_some_iff_getElem.1 hf
    exact ⟨pats[i], List.getElem_mem hi, hp⟩

/-- **Reported gaps are real** (deconstructed patterns): every returned witness covers a well-typed
    value that no arm matches. -/
theorem C12_witness_sound_dpat {env : EnumEnv} (hinh : Inhabited' env) {fuel : Nat} {ty : Ty}
    {pats : List DPat} (hwt : ∀ p ∈ pats, patWT env p ty = true) {flags : List Bool} {wits : List DPat}
    (h : checkD env fuel ty pats = some (flags, wits)) :
    ∀ w ∈ wits, ∃ v, hasTy env v ty = true ∧ dmatch w v = true ∧ ∀ p ∈ pats, dmatch p v = false := by
  intro w hw
  obtain ⟨v, hv, hnone, hm⟩ := (checkD_good hinh hwt h).wit w hw
  refine ⟨v, hv, hm, ?_⟩
  intro p hp
  have := List.findIdx?_eq_none_iff.1 hnone p hp
  simpa using this

/-- hence a non-exhaustive report is real: some well-typed value matches no arm -/
theorem C12_nonexhaustive_real_dpat {env : EnumEnv} (hinh : Inhabited' env) {fuel : Nat} {ty : Ty}
    {pats : List DPat} (hwt : ∀ p ∈ pats, patWT env p ty = true) {flags : List Bool} {wits : List DPat}
    (h : checkD env fuel ty pats = some (flags, wits)) (hne : wits ≠ []) :
    ∃ v, hasTy env v ty = true ∧ ∀ p ∈ pats, dmatch p v = false := by
  cases wits with
  | nil => exact absurd rfl hne
  | cons w ws =>
    obtain ⟨v, hv, _, hn⟩ := C12_witness_sound_dpat hinh hwt h w (List.mem_cons_self ..)
    exact ⟨v, hv, hn⟩

/-! ### The property on source arms (`check` = `from_ast_pat` + the matrix algorithm) -/

/-- **C12, first half: an accepted match has a matching arm for every value.**  If the check of the
    arm list returns no witness (no `NonexhaustiveMatch` diagnostic), every well-typed value of the
    scrutinee type matches some arm — `pmatch` is the run-time meaning of source patterns. -/
theorem C12_exhaustive_sound {env : EnumEnv} (hinh : Inhabited' env) {fuel : Nat} {ty : Ty} {arms : List Pat}
    (htyped : ∀ p ∈ arms, patTyped env p ty = true) {flags : List Bool}
    (h : check env fuel ty arms = some (flags, [])) :
    ∀ v, hasTy env v ty = true → ∃ p ∈ arms, pmatch p v = true := by
  intro v hv
  have := (check_good hinh htyped h).exh rfl v hv
  cases hf : arms.findIdx? (fun p => pmatch p v) with
  | none => exact absurd hf this
  | some i =>
    obtain ⟨hi, hp, _⟩ := List.findIdx?_eq_some_iff_getElem.1 hf
    exact ⟨arms[i], List.getElem_mem hi, hp⟩

/-- **C12, second half: reported gaps are real.**  Every missing pattern listed in the diagnostic
    covers (`dmatch`) a well-typed value that matches no arm. -/
theorem C12_witness_sound {env : EnumEnv} (hinh : Inhabited' env) {fuel : Nat} {ty : Ty} {arms : List Pat}
    (htyped : ∀ p ∈ arms, patTyped env p ty = true) {flags : List Bool} {wits : List DPat}
    (h : check env fuel ty arms = some (flags, wits)) :
    ∀ w ∈ wits, ∃ v, hasTy env v ty = true ∧ dmatch w v = true ∧ ∀ p ∈ arms, pmatch p v = false := by
  intro w hw
  obtain ⟨v, hv, hnone, hm⟩ := (check_good hinh htyped h).wit w hw
  refine ⟨v, hv, hm, ?_⟩
  intro p hp
  have := List.findIdx?_eq_none_iff.1 hnone p hp
  simpa using this

/-- a non-exhaustive report is real: some well-typed value matches no arm -/
theorem C12_nonexhaustive_real {env : EnumEnv} (hinh : Inhabited' env) {fuel : Nat} {ty : Ty} {arms : List Pat}
    (htyped : ∀ p ∈ arms, patTyped env p ty = true) {flags : List Bool} {wits : List DPat}
    (h : check env fuel ty arms = some (flags, wits)) (hne : wits ≠ []) :
    ∃ v, hasTy env v ty = true ∧ ∀ p ∈ arms, pmatch p v = false := by
  cases wits with
  | nil => exact absurd rfl hne
  | cons w ws =>
    obtain ⟨v, hv, _, hn⟩ := C12_witness_sound hinh htyped h w (List.mem_cons_self ..)
    exact ⟨v, hv, hn⟩

/-- `from_ast_pat` (void-payload erasure, multi-field variants as one tuple field) preserves the
    meaning of every well-typed pattern on every well-typed value -/
theorem C12_fromAst_meaning (env : EnumEnv) (p : Pat) (ty : Ty) (ht : patTyped env p ty = true) (v : Val)
    (hv : hasTy env v ty = true) : dmatch (fromAst env ty p) v = pmatch p v :=
  (fromAst_ok env p ty ht).2 v hv

/-- **Termination**: the recursion of `compute_exhaustiveness_and_usefulness` ends — for every
    well-typed arm list the run with the fuel `fuelFor` (a measure that strictly decreases at every
    recursive call: or-expansion, every constructor specialisation, the default matrix) returns a
    result.  So the theorems above are not conditional on the fuel: take `fuel := fuelFor …`. -/
theorem C12_terminates {env : EnumEnv} {ty : Ty} {arms : List Pat}
    (htyped : ∀ p ∈ arms, patTyped env p ty = true) :
    ∃ flags wits, check env (fuelFor env ty (arms.map (fromAst env ty))) ty arms = some (flags, wits) := by
  have hwt : ∀ p ∈ arms.map (fromAst env ty), patWT env p ty = true := by
    intro p hp
    obtain ⟨a, ha, rfl⟩ := List.mem_map.1 hp
    exact (fromAst_ok env a ty (htyped a ha)).1
  have := checkD_isSome (env := env) (ty := ty) hwt
  unfold check
  cases hc : checkD env (fuelFor env ty (arms.map (fromAst env ty))) ty (arms.map (fromAst env ty)) with
  | none => simp [hc] at this
  | some r => exact ⟨r.1, r.2, rfl⟩

/-- the verdict does not depend on how much fuel was given, once it is enough -/
theorem C12_terminates_matrix {env : EnumEnv} (fuel : Nat) (Ts : List Ty) (rows : List Row)
    (hwt : rowsWT env Ts rows) (h : phi env Ts rows < fuel) : (compute env fuel Ts rows).isSome = true :=
  compute_isSome fuel Ts rows hwt h

/-! ### `let` / `var` / `for` destructuring: the pattern is the single arm of a match -/

/-- **An accepted destructuring pattern always matches**: if `checkLet` accepts `let p = e` (`for p in …`)
    then every well-typed value of the bound type matches `p` — so the binding code, which does not
    compare, never runs on a value of another shape (C14 `C14_let_accepted_binds`). -/
theorem C12_let_accepted_irrefutable {env : EnumEnv} (hinh : Inhabited' env) {fuel : Nat} {ty : Ty} {p : Pat}
    (htyped : patTyped env p ty = true) (h : checkLet env fuel ty p = some true) :
    ∀ v, hasTy env v ty = true → pmatch p v = true := by
  unfold checkLet at h
  cases hc : check env fuel ty [p] with
  | none => simp [hc] at h
  | some r =>
    obtain ⟨flags, wits⟩ := r
    simp only [hc, Option.map_some, Option.some.injEq, List.isEmpty_iff] at h
    subst h
    intro v hv
    obtain ⟨q, hq, hm⟩ := C12_exhaustive_sound hinh (arms := [p]) (by simpa using htyped) hc v hv
    simp at hq; subst hq; exact hm

/-- **A rejected destructuring pattern is refutable**: some well-typed value does not match it. -/
theorem C12_let_rejected_refutable {env : EnumEnv} (hinh : Inhabited' env) {fuel : Nat} {ty : Ty} {p : Pat}
    (htyped : patTyped env p ty = true) (h : checkLet env fuel ty p = some false) :
    ∃ v, hasTy env v ty = true ∧ pmatch p v = false := by
  unfold checkLet at h
  cases hc : check env fuel ty [p] with
  | none => simp [hc] at h
  | some r =>
    obtain ⟨flags, wits⟩ := r
    simp only [hc, Option.map_some, Option.some.injEq, List.isEmpty_eq_false_iff] at h
    obtain ⟨v, hv, hn⟩ := C12_nonexhaustive_real hinh (arms := [p]) (by simpa using htyped) hc h
    exact ⟨v, hv, hn p (by simp)⟩

/-- the let-check always finishes -/
theorem C12_let_terminates {env : EnumEnv} {ty : Ty} {p : Pat} (htyped : patTyped env p ty = true) :
    ∃ b, checkLet env (fuelFor env ty [fromAst env ty p]) ty p = some b := by
  obtain ⟨flags, wits, h⟩ := C12_terminates (env := env) (ty := ty) (arms := [p]) (by simpa using htyped)
  have h' : check env (fuelFor env ty [fromAst env ty p]) ty [p] = some (flags, wits) := by simpa using h
  exact ⟨wits.isEmpty, by simp [checkLet, h']⟩

/-! Non-vacuity: a concrete environment (one enum: `A(bool) | B`), a match on `(En0, bool)`. -/

def exEnv : EnumEnv := fun id => if id = 0 then [[.bool], []] else [[]]

theorem exEnv_inhabited : Inhabited' exEnv := by
  intro T
  -- every enum of `exEnv` has a nullary variant; products are inhabited componentwise
  suffices h : (∀ T : Ty, ∃ v, hasTy exEnv v T = true) ∧
      (∀ Ts : List Ty, ∃ vs, hasTys exEnv vs Ts = true) from h.1 T
  refine ⟨fun T => ?_, fun Ts => ?_⟩
  · exact Ty.rec (motive_1 := fun T => ∃ v, hasTy exEnv v T = true)
      (motive_2 := fun Ts => ∃ vs, hasTys exEnv vs Ts = true)
      ⟨.bool true, rfl⟩ ⟨.prod [], rfl⟩ ⟨.int 0, rfl⟩ ⟨.float 0, rfl⟩ ⟨.str [], rfl⟩
      (fun ts ⟨vs, h⟩ => ⟨.prod vs, by cases vs <;> simpa [hasTy] using h⟩)
      (fun id ts ⟨vs, h⟩ => ⟨.prod vs, by cases vs <;> simpa [hasTy] using h⟩)
      (fun id => by
        by_cases h : id = 0
        · subst h; exact ⟨.variant 1 (.prod []), by simp [hasTy, variantFields, exEnv, dataTyOfFields]⟩
        · exact ⟨.variant 0 (.prod []), by simp [hasTy, variantFields, exEnv, h, dataTyOfFields]⟩)
      ⟨[], rfl⟩
      (fun t ts ⟨v, hv⟩ ⟨vs, hvs⟩ => ⟨v :: vs, by simp [hasTys, hv, hvs]⟩) T
  · exact Ty.rec_1 (motive_1 := fun T => ∃ v, hasTy exEnv v T = true)
      (motive_2 := fun Ts => ∃ vs, hasTys exEnv vs Ts = true)
      ⟨.bool true, rfl⟩ ⟨.prod [], rfl⟩ ⟨.int 0, rfl⟩ ⟨.float 0, rfl⟩ ⟨.str [], rfl⟩
      (fun ts ⟨vs, h⟩ => ⟨.prod vs, by cases vs <;> simpa [hasTy] using h⟩)
      (fun id ts ⟨vs, h⟩ => ⟨.prod vs, by cases vs <;> simpa [hasTy] using h⟩)
      (fun id => by
        by_cases h : id = 0
        · subst h; exact ⟨.variant 1 (.prod []), by simp [hasTy, variantFields, exEnv, dataTyOfFields]⟩
        · exact ⟨.variant 0 (.prod []), by simp [hasTy, variantFields, exEnv, h, dataTyOfFields]⟩)
      ⟨[], rfl⟩
      (fun t ts ⟨v, hv⟩ ⟨vs, hvs⟩ => ⟨v :: vs, by simp [hasTys, hv, hvs]⟩) Ts

/-- the arms `(.V0(true), _)`, `(.V0(false), true)`, `(.V1, _)` over `(En0, bool)` -/
def exTy : Ty := .tuple [.enum 0, .bool]
def exArms : List Pat :=
  [.tuple [.variantPos 0 0 (.bool true), .wild],
   .tuple [.variantPos 0 0 (.bool false), .bool true],
   .tuple [.variant0 0 1, .bind 0]]

/-- non-vacuity of `C12_witness_sound` / `C12_nonexhaustive_real`: the run finishes, every arm is
    useful and exactly one gap is reported, which covers `(V0(false), false)` -/
example : (check exEnv 20 exTy exArms).map (fun r => (r.1, r.2.map (fun w =>
    dmatch w (.prod [.variant 0 (.bool false), .bool false])))) = some ([true, true, true], [true]) := by
  decide +kernel

example : ∀ p ∈ exArms, patTyped exEnv p exTy = true := by decide +kernel

/-- non-vacuity of `C12_exhaustive_sound`: with a fourth arm the match is accepted -/
example : (check exEnv 20 exTy (exArms ++ [.tuple [.wild, .bool false]])).map (fun r => r.2.length) = some 0 := by
  decide +kernel

/-- non-vacuity of the let theorems: `(V1, x)` is rejected, `(_, x)` accepted over `(En0, bool)` -/
example : checkLet exEnv 20 exTy (.tuple [.variant0 0 1, .bind 0]) = some false ∧
    checkLet exEnv 20 exTy (.tuple [.wild, .bind 0]) = some true := by decide +kernel

end Abra.PatMatrix
