import AbraProofs.Lemmas.SrcMap
/-!
# C32 — runtime errors report the failing file, line and call stack

Model: `Abra.SrcMap` (`create_source_location_tables`, `pc_to_error_location`, `make_stack_trace`, the
location order of `Display for VmError`).  All theorems quantify over *every* annotated line list
(any mix of labels and instructions, any annotations, any run lengths) and every reachable
control state; nothing is sampled.

What is *not* a theorem here (covered by the correspondence only): which (file, line, function) the code
generator attaches to an instruction, and that the peephole optimizer keeps the first instruction's
annotation for a fused window.
-/
namespace Abra.SrcMap

/-- **Tables + lookup.** For the tables built from ANY line list, looking up `pc + 1` (the VM's pc is
    already incremented when an instruction fails, and a frame stores the pc after its call) returns
    exactly the (file, line, function) annotation of instruction `pc`, for every `pc` in range — through
    both the `Ok` and the `Err` outcome of the binary search. -/
theorem C32_lookup_compress (ls : List SLine) (pc : Nat) (h : pc < (instrs ls).length) :
    lookup (build ls) (pc + 1) = some ((instrs ls)[pc]).1 := by
  unfold lookup
  rw [build_files, build_lines, build_funcs]
  have hf := lookupCol_compress (colOf (·.file) ls) pc (by simpa [colOf] using h)
  have hl := lookupCol_compress (colOf (·.line) ls) pc (by simpa [colOf] using h)
  have hn := lookupCol_compress (colOf (·.func) ls) pc (by simpa [colOf] using h)
  rw [hf, hl, hn]
  simp [colOf]

/-- both outcomes of the search occur: at a run boundary the search hits (`Ok`), inside a run it misses -/
example : search (build [.instr ⟨0, 1, 0⟩ .other, .instr ⟨0, 2, 0⟩ .other, .instr ⟨0, 2, 0⟩ .other]).lines 1
    = .ok 1 := by decide
example : search (build [.instr ⟨0, 1, 0⟩ .other, .instr ⟨0, 2, 0⟩ .other, .instr ⟨0, 2, 0⟩ .other]).lines 2
    = .err 2 := by decide
example : lookup (build [.instr ⟨0, 1, 0⟩ .other, .label, .instr ⟨0, 2, 5⟩ .call, .instr ⟨1, 2, 5⟩ .other]) 2
    = some ⟨0, 2, 5⟩ := by decide

/-- The invariant behind the trace: every saved pc is the successor of a call instruction's index. -/
def FramesOk (prog : List (Ann × Kind)) (frames : List Nat) : Prop :=
  ∀ r ∈ frames, ∃ a, 1 ≤ r ∧ prog[r - 1]? = some (a, Kind.call)

theorem framesOk_of_reachable (prog : List (Ann × Kind)) (s : CState) (h : Reachable prog s) :
    FramesOk prog s.frames := by
  induction h with
  | start entry => intro r hr; simp at hr
  | step s s' _ hstep ih =>
    cases hstep with
    | call a target hfetch =>
      intro r hr
      simp only [List.mem_append, List.mem_singleton] at hr
      rcases hr with hr | hr
      · exact ih r hr
      · subst hr; exact ⟨a, by omega, by simpa using hfetch⟩
    | ret a fs r hfetch hfs =>
      intro r' hr'
      exact ih r' (by rw [hfs]; simp [hr'])
    | other a next hfetch => exact ih

/-- **Frames.** In every state a thread can reach (any program, any interleaving of calls, returns,
    jumps), the `k`-th entry of `make_stack_trace` is the annotation of the `Call`/`CallFuncObj`
    instruction that created frame `k` — the call site, not the instruction after it. -/
theorem C32_trace_frames (ls : List SLine) (s : CState) (h : Reachable (instrs ls) s)
    (k : Nat) (hk : k < s.frames.length) :
    ∃ a, (instrs ls)[s.frames[k] - 1]? = some (a, Kind.call) ∧
         (stackTrace (build ls) s)[k]? = some (some a) := by
  have hinv := framesOk_of_reachable (instrs ls) s h
  obtain ⟨a, h1, hfetch⟩ := hinv s.frames[k] (List.getElem_mem hk)
  refine ⟨a, hfetch, ?_⟩
  have hlt : s.frames[k] - 1 < (instrs ls).length := by
    rcases Nat.lt_or_ge (s.frames[k] - 1) (instrs ls).length with h | h
    · exact h
    · rw [List.getElem?_eq_none h] at hfetch; cases hfetch
  have hl := C32_lookup_compress ls (s.frames[k] - 1) hlt
  have e : s.frames[k] - 1 + 1 = s.frames[k] := by omega
  rw [e] at hl
  have hget : (instrs ls)[s.frames[k] - 1] = (a, Kind.call) := by
    rw [List.getElem?_eq_getElem hlt] at hfetch; exact Option.some.inj hfetch
  simp [stackTrace, hk, hl, hget]

/-- call-site annotation of a saved pc -/
def callSite (prog : List (Ann × Kind)) (r : Nat) : Option Ann := (prog[r - 1]?).map (·.1)

/-- **Order.** When the instruction at `s.pc` of a reachable state fails, the printed location list is:
    first the annotation of the failing instruction itself, then the call sites of the active frames
    from the most recent call back to the oldest (`frames` is in call order — `Step.call` appends —
    so its reverse is innermost first). -/
theorem C32_trace_order (ls : List SLine) (s : CState) (h : Reachable (instrs ls) s)
    (hpc : s.pc < (instrs ls).length) :
    errorLocations (build ls) s =
      some ((instrs ls)[s.pc]).1 :: (s.frames.reverse.map (callSite (instrs ls))) := by
  unfold errorLocations
  rw [C32_lookup_compress ls s.pc hpc]
  congr 1
  unfold stackTrace
  rw [← List.map_reverse]
  apply List.map_congr_left
  intro r hr
  have hinv := framesOk_of_reachable (instrs ls) s h
  obtain ⟨a, h1, hfetch⟩ := hinv r (by simpa using hr)
  have hlt : r - 1 < (instrs ls).length := by
    rcases Nat.lt_or_ge (r - 1) (instrs ls).length with h | h
    · exact h
    · rw [List.getElem?_eq_none h] at hfetch; cases hfetch
  have hl := C32_lookup_compress ls (r - 1) hlt
  have e : r - 1 + 1 = r := by omega
  rw [e] at hl
  rw [hl, callSite, List.getElem?_eq_getElem hlt]
  rfl

/-- one `ret` step from the state right after a call (`frames ++ [pc + 1]`, any `target` holding a
    `ret` instruction) leads to `pc + 1` with the frames the caller had before the call.  (Only this single
    step is stated; that a whole callee body leaves the frames below its own untouched is not.) -/
theorem C32_call_ret_balanced (prog : List (Ann × Kind)) (s : CState) (b : Ann) (target : Nat)
    (hr : prog[target]? = some (b, .ret)) :
    Step prog { pc := target, frames := s.frames ++ [s.pc + 1] } { pc := s.pc + 1, frames := s.frames } :=
  Step.ret { pc := target, frames := s.frames ++ [s.pc + 1] } b s.frames (s.pc + 1) hr rfl

example : Step (instrs [.instr ⟨0, 1, 0⟩ .call, .instr ⟨0, 2, 0⟩ .ret]) { pc := 1, frames := [1] }
    { pc := 1, frames := [] } :=
  C32_call_ret_balanced _ { pc := 0, frames := [] } ⟨0, 2, 0⟩ 1 (by decide)

/-! Non-vacuity: a two-deep call chain across a label; the failing instruction (index 4, in the callee)
    is reported first, then the call site (index 1). -/
def exLines : List SLine :=
  [.instr ⟨0, 1, 0⟩ .other, .instr ⟨0, 2, 0⟩ .call, .instr ⟨0, 3, 0⟩ .other, .label,
   .instr ⟨1, 10, 1⟩ .other, .instr ⟨1, 11, 1⟩ .other, .instr ⟨1, 12, 1⟩ .ret]

theorem exReach : Reachable (instrs exLines) { pc := 4, frames := [2] } := by
  have h0 : Reachable (instrs exLines) { pc := 0, frames := [] } := .start 0
  have h1 : Reachable (instrs exLines) { pc := 1, frames := [] } :=
    .step _ _ h0 (Step.other { pc := 0, frames := [] } ⟨0, 1, 0⟩ 1 (by decide))
  have h2 : Reachable (instrs exLines) { pc := 3, frames := [2] } :=
    .step _ _ h1 (Step.call { pc := 1, frames := [] } ⟨0, 2, 0⟩ 3 (by decide))
  exact .step _ _ h2 (Step.other { pc := 3, frames := [2] } ⟨1, 10, 1⟩ 4 (by decide))

example : errorLocations (build exLines) { pc := 4, frames := [2] }
    = [some ⟨1, 11, 1⟩, some ⟨0, 2, 0⟩] := by decide
example : ∃ a, (instrs exLines)[1]? = some (a, Kind.call) ∧
    (stackTrace (build exLines) { pc := 4, frames := [2] })[0]? = some (some a) :=
  C32_trace_frames exLines _ exReach 0 (by decide)

end Abra.SrcMap
