import AbraProofs.Lemmas.LexLocal
import AbraProofs.Properties.C31
import AbraModel.TopLevel
/-!
# C29 — comments and optional separators never change a program

Lexer side (`Abra.Lex`, the model of `tokenize_file`):
* `C29_block_comment_skipped`, `C29_line_comment_skipped`, `C29_blank_skipped` — a block comment
  whose text does not contain `*/` (any other text: `*`, `/`, quotes, newlines, non-ASCII), a line
  comment (text without newline, up to the newline or the end of input), a space, a tab and a
  backslash-newline produce no token and leave the token kinds of everything after them unchanged.
* `C29_block_comment_transparent`, `C29_line_comment_transparent` — in front of any remaining input a
  comment is the same as a single space; behind a prefix that the lexer splits at that point
  (`Lexes`) the whole file has the same token kinds (`C29_comment_insertion_partial`).
Parser side (`Abra.Pratt.parseList`, the model of `parse_delimited_list`):
* `C29_separator_choice` — the items of a delimited list are the same whether they are separated by
  the separator, by a newline, by either followed by any number of blank lines, and with blank lines
  before the first item (a trailing separator before the closer is not covered by the statement).
* `C29_toplevel_terminator`, `C29_stray_semicolon_rejected` — on the model of `parse_file`'s item loop
  (`Abra.TopLevel`): the optional `;` directly behind an item never changes the verdict; a `;` anywhere
  else is a diagnostic.
-/
namespace Abra.Lex

-- ---------------------------------------------------------------- comments and blanks are skipped
/-- the comment text does not contain the closing delimiter -/
def noClose : List Char → Bool
  | [] => true
  | c :: r => !(c = '*' && r.head? = some '/') && noClose r

theorem blockCommentEnd_found (c X : List Char) (h : noClose c = true) :
    blockCommentEnd (c ++ '*' :: '/' :: X) = c.length + 2 := by
  induction c with
  | nil => simp [blockCommentEnd]
  | cons a r ih =>
    simp only [noClose, Bool.and_eq_true, Bool.not_eq_true', Bool.and_eq_false_iff, decide_eq_false_iff_not] at h
    obtain ⟨h1, h2⟩ := h
    have ih' := ih h2
    simp only [List.cons_append, List.length_cons, blockCommentEnd]
    have hcond : (decide (a = '*') && decide ((r ++ '*' :: '/' :: X).head? = some '/')) = false := by
      rcases h1 with h1 | h1
      · simp [h1]
      · cases r with
        | nil => simp
        | cons b r' =>
          simp only [List.head?_cons, Option.some.injEq] at h1
          simp [h1]
    rw [hcond]
    simp only [Bool.false_eq_true, if_false]
    rw [ih']; omega

theorem lexOne_block_comment (c X : List Char) (h : noClose c = true) :
    lexOne ('/' :: '*' :: (c ++ '*' :: '/' :: X)) = skip (c.length + 4) := by
  unfold lexOne
  have h1 : isIdentStart '/' = false := by decide
  have h2 : isDigit '/' = false := by decide
  simp only [h1, h2, Bool.false_eq_true, if_false, List.head?_cons]
  simp only [List.drop_succ_cons, List.drop_zero, blockCommentEnd_found c X h]
  simp only [List.length_cons, List.length_append]
  rw [if_neg (by decide), if_pos trivial]
  congr 1; omega

theorem lineCommentLen_append (c X : List Char) (hc : ∀ x ∈ c, x ≠ '\n')
    (hX : X = [] ∨ ∃ r, X = '\n' :: r) : lineCommentLen (c ++ X) = c.length := by
  induction c with
  | nil => rcases hX with rfl | ⟨r, rfl⟩ <;> simp [lineCommentLen]
  | cons a r ih =>
    have ha := hc a (by simp)
    simp only [List.cons_append, lineCommentLen, ha, if_false, List.length_cons]
    rw [ih (fun x hx => hc x (by simp [hx]))]; omega

theorem lexOne_line_comment (c X : List Char) (hc : ∀ x ∈ c, x ≠ '\n')
    (hX : X = [] ∨ ∃ r, X = '\n' :: r) :
    lexOne ('/' :: '/' :: (c ++ X)) = skip (c.length + 2) := by
  unfold lexOne
  have h1 : isIdentStart '/' = false := by decide
  have h2 : isDigit '/' = false := by decide
  simp only [h1, h2, Bool.false_eq_true, if_false, List.head?_cons]
  have : lineCommentLen ('/' :: (c ++ X)) = c.length + 1 := by
    rw [lineCommentLen]
    simp only [show ('/' : Char) ≠ '\n' by decide, if_false]
    rw [lineCommentLen_append c X hc hX]; omega
  rw [this, if_pos trivial]; congr 1; omega

/-- **Block comments.** Whatever the comment text (without `*/`), the token kinds are those of the
    rest of the input. -/
theorem C29_block_comment_skipped (c X : List Char) (h : noClose c = true) :
    kindsFrom ('/' :: '*' :: (c ++ '*' :: '/' :: X)) = kindsFrom X := by
  rw [kindsFrom_skip _ (c.length + 4) (by simp) (lexOne_block_comment c X h) (by omega)]
  have : ('/' :: '*' :: (c ++ '*' :: '/' :: X)).drop (c.length + 4) = X := by
    have e : '/' :: '*' :: (c ++ '*' :: '/' :: X) = ('/' :: '*' :: c ++ ['*', '/']) ++ X := by simp
    rw [e]
    exact List.drop_left' (by simp)
  rw [this]

/-- **Line comments.** A `//` comment (text without newline) running up to a newline or the end of
    the input leaves the token kinds of what follows — the newline token included. -/
theorem C29_line_comment_skipped (c X : List Char) (hc : ∀ x ∈ c, x ≠ '\n')
    (hX : X = [] ∨ ∃ r, X = '\n' :: r) :
    kindsFrom ('/' :: '/' :: (c ++ X)) = kindsFrom X := by
  rw [kindsFrom_skip _ (c.length + 2) (by simp) (lexOne_line_comment c X hc hX) (by omega)]
  have : ('/' :: '/' :: (c ++ X)).drop (c.length + 2) = X := by
    have e : '/' :: '/' :: (c ++ X) = ('/' :: '/' :: c) ++ X := by simp
    rw [e]
    exact List.drop_left' (by simp)
  rw [this]

/-- **Blanks.** A space, a tab and a backslash-newline (line continuation) produce no token. -/
theorem C29_blank_skipped (X : List Char) :
    kindsFrom (' ' :: X) = kindsFrom X ∧ kindsFrom ('\t' :: X) = kindsFrom X ∧
      kindsFrom ('\\' :: '\n' :: X) = kindsFrom X := by
  refine ⟨?_, ?_, ?_⟩
  · rw [kindsFrom_skip _ 1 (by simp) (by rfl) (by omega)]; rfl
  · rw [kindsFrom_skip _ 1 (by simp) (by rfl) (by omega)]; rfl
  · rw [kindsFrom_skip _ 2 (by simp) (by rfl) (by omega)]; rfl

/-- **Shebang.** A first line beginning with `#!` (any text, up to the line break or the end of the
    file) contributes no token: the file has the token kinds of what follows that line. -/
theorem C29_shebang_line_skipped (c X : List Char) (hc : ∀ x ∈ c, x ≠ '\n')
    (hX : X = [] ∨ ∃ r, X = '\n' :: r) :
    kinds ('#' :: '!' :: (c ++ X)) = kindsFrom X := by
  have hn : shebangLen ('#' :: '!' :: (c ++ X)) = c.length + 2 := by
    have := lineCommentLen_append c X hc hX
    simp only [shebangLen, lineCommentLen, show ('!' : Char) ≠ '\n' by decide, if_false, this]; omega
  have hd : ('#' :: '!' :: (c ++ X)).drop (c.length + 2) = X := by
    have e : '#' :: '!' :: (c ++ X) = ('#' :: '!' :: c) ++ X := by simp
    rw [e]; exact List.drop_left' (by simp)
  unfold kinds tokenize
  simp only [hn, hd]
  have hlen : X.length < ('#' :: '!' :: (c ++ X)).length + 1 := by
    simp only [List.length_cons, List.length_append]; omega
  rw [tokenizeAux_fuel _ (X.length + 1) (c.length + 2) X hlen (Nat.lt_succ_self _)]
  exact kinds_pos_irrelevant _ _ 0 X

/-- In front of any remaining input, a block comment is the same as one space. -/
theorem C29_block_comment_transparent (c X : List Char) (h : noClose c = true) :
    kindsFrom ('/' :: '*' :: (c ++ '*' :: '/' :: X)) = kindsFrom (' ' :: X) := by
  rw [C29_block_comment_skipped c X h, (C29_blank_skipped X).1]

/-- In front of a line end, a line comment is the same as one space. -/
theorem C29_line_comment_transparent (c X : List Char) (hc : ∀ x ∈ c, x ≠ '\n')
    (hX : X = [] ∨ ∃ r, X = '\n' :: r) :
    kindsFrom ('/' :: '/' :: (c ++ X)) = kindsFrom (' ' :: X) := by
  rw [C29_line_comment_skipped c X hc hX, (C29_blank_skipped X).1]

-- ---------------------------------------------------------------- behind a prefix
/-- `Lexes s Y ks`: started on `s ++ Y`, the lexer consumes exactly `s` in whole steps (every token,
    comment or blank that begins in `s` also ends in `s`), emitting the kinds `ks` -/
inductive Lexes : List Char → List Char → List TokenKind → Prop
  | done (Y : List Char) : Lexes [] Y []
  | step (c : Char) (s Y : List Char) (ks : List TokenKind)
      (hlen : stepLen (c :: s ++ Y) ≤ (c :: s).length)
      (h : Lexes ((c :: s).drop (stepLen (c :: s ++ Y))) Y ks) :
      Lexes (c :: s) Y ((match (lexOne (c :: s ++ Y)).tok with | some k => [k] | none => []) ++ ks)

theorem kindsFrom_of_Lexes {s Y : List Char} {ks : List TokenKind} (h : Lexes s Y ks) :
    kindsFrom (s ++ Y) = ks ++ kindsFrom Y := by
  induction h with
  | done Y => simp
  | step c s Y ks hlen _ ih =>
    rw [List.cons_append, kindsFrom_cons, List.append_assoc]
    congr 1
    rw [← List.cons_append, List.drop_append_of_le_length hlen]
    exact ih

/-- **Comment insertion at a token boundary (partial).** If the lexer splits the file after the
    prefix `s₁` — in front of the comment as well as in front of a space — and emits the same kinds
    for `s₁` both times, then inserting the block comment changes no token kind of the file.
    `C29_block_comment_insertion` / `C29_line_comment_insertion` below discharge the hypothesis (by
    the locality of `lexOne`, `Abra.Lex.lexOne_local`) when the comment is written behind a space and
    no triple-quoted literal precedes it.
    -- OPEN: (1) prefixes containing a triple-quoted literal (locality of `collectLines` not proved),
    --   (2) a comment written directly behind a token without a space (`/` differs from ` ` as
    --   look-ahead only after a `/` token).  Both are exercised by the correspondence. -/
theorem C29_comment_insertion_partial (s₁ s₂ c : List Char) (ks : List TokenKind)
    (h : noClose c = true)
    (h1 : Lexes s₁ ('/' :: '*' :: (c ++ '*' :: '/' :: s₂)) ks) (h2 : Lexes s₁ (' ' :: s₂) ks) :
    kindsFrom (s₁ ++ '/' :: '*' :: (c ++ '*' :: '/' :: s₂)) = kindsFrom (s₁ ++ ' ' :: s₂) := by
  rw [kindsFrom_of_Lexes h1, kindsFrom_of_Lexes h2, C29_block_comment_transparent c s₂ h]

/-- `LexesNT s Y ks`: as `Lexes`, and no step is a triple-quoted literal -/
inductive LexesNT : List Char → List Char → List TokenKind → Prop
  | done (Y : List Char) : LexesNT [] Y []
  | step (c : Char) (s Y : List Char) (ks : List TokenKind)
      (hnt : startsTriple (c :: s ++ Y) = false)
      (hlen : stepLen (c :: s ++ Y) ≤ (c :: s).length)
      (h : LexesNT ((c :: s).drop (stepLen (c :: s ++ Y))) Y ks) :
      LexesNT (c :: s) Y ((match (lexOne (c :: s ++ Y)).tok with | some k => [k] | none => []) ++ ks)

theorem LexesNT.toLexes {s Y : List Char} {ks : List TokenKind} (h : LexesNT s Y ks) : Lexes s Y ks := by
  induction h with
  | done Y => exact .done Y
  | step c s Y ks _ hlen _ ih => exact .step c s Y ks hlen ih

theorem startsTriple_three (c a b : Char) (X : List Char) :
    startsTriple (c :: a :: b :: X) = (decide (c = '"') && decide (a = '"') && decide (b = '"')) := by
  unfold startsTriple
  split
  · rename_i heq
    simp only [List.cons.injEq] at heq
    obtain ⟨rfl, rfl, rfl, _⟩ := heq
    rfl
  · rename_i hne
    by_cases h1 : c = '"'
    · by_cases h2 : a = '"'
      · by_cases h3 : b = '"'
        · subst h1 h2 h3; exact absurd rfl (hne X)
        · simp [h3]
      · simp [h2]
    · simp [h1]

theorem startsTriple_space (c : Char) (s W W' : List Char) :
    startsTriple (c :: (s ++ ' ' :: W)) = startsTriple (c :: (s ++ ' ' :: W')) := by
  cases s with
  | nil => simp [startsTriple]
  | cons a s' =>
    cases s' with
    | nil => simp [startsTriple]
    | cons b s'' => simp only [List.cons_append, startsTriple_three]

/-- the steps inside the prefix do not depend on what follows the space behind it -/
theorem LexesNT.transfer {s : List Char} {ks : List TokenKind} (Z Z' : List Char) :
    LexesNT s (' ' :: Z) ks → LexesNT s (' ' :: Z') ks := by
  intro h
  generalize hY : (' ' :: Z) = Y at h
  induction h with
  | done Y => exact .done _
  | step c s Y ks hnt hlen _ ih =>
    subst hY
    have hnt' : startsTriple (c :: (s ++ ' ' :: Z')) = false := by
      rw [← startsTriple_space c s Z Z']; simpa using hnt
    have hlen' : (lexOne (c :: ((s ++ [' ']) ++ Z))).len ≤ (s ++ [' ']).length := by
      have : stepLen (c :: (s ++ ' ' :: Z)) ≤ (c :: s).length := by simpa using hlen
      simp only [stepLen, List.length_cons] at this
      simp only [List.append_assoc, List.cons_append, List.nil_append, List.length_append, List.length_cons, List.length_nil]
      omega
    have hloc := lexOne_local c (s ++ [' ']) Z Z' (by simpa using hnt) (by simpa using hnt') hlen'
    simp only [List.append_assoc, List.cons_append, List.nil_append] at hloc
    have hstep : stepLen (c :: s ++ ' ' :: Z') = stepLen (c :: s ++ ' ' :: Z) := by
      simp only [stepLen, List.cons_append, hloc]
    have := LexesNT.step c s (' ' :: Z') ks (by simpa using hnt') (by rw [hstep]; exact hlen)
      (by rw [hstep]; exact ih rfl)
    simp only [List.cons_append] at this ⊢
    rw [hloc] at this
    exact this

/-- **Block comment at a token boundary.** Take any file `s₁ ++ " " ++ s₂` that the lexer splits
    after `s₁` (every token, comment and blank beginning in `s₁` ends in `s₁`; none of them is a
    triple-quoted literal).  Writing a block comment — any text without `*/` — behind that space
    changes no token kind of the file. -/
theorem C29_block_comment_insertion (s₁ s₂ c : List Char) (ks : List TokenKind) (h : noClose c = true)
    (hsplit : LexesNT s₁ (' ' :: s₂) ks) :
    kindsFrom (s₁ ++ ' ' :: '/' :: '*' :: (c ++ '*' :: '/' :: s₂)) = kindsFrom (s₁ ++ ' ' :: s₂) := by
  have h1 := (hsplit.transfer s₂ ('/' :: '*' :: (c ++ '*' :: '/' :: s₂))).toLexes
  rw [kindsFrom_of_Lexes h1, kindsFrom_of_Lexes hsplit.toLexes, (C29_blank_skipped _).1,
    (C29_blank_skipped _).1, C29_block_comment_skipped c s₂ h]

/-- **Line comment at a token boundary.** The same for a `//` comment (text without newline) written
    behind the space when the rest of the file begins with a line break or is empty. -/
theorem C29_line_comment_insertion (s₁ s₂ c : List Char) (ks : List TokenKind) (hc : ∀ x ∈ c, x ≠ '\n')
    (hs₂ : s₂ = [] ∨ ∃ r, s₂ = '\n' :: r) (hsplit : LexesNT s₁ (' ' :: s₂) ks) :
    kindsFrom (s₁ ++ ' ' :: '/' :: '/' :: (c ++ s₂)) = kindsFrom (s₁ ++ ' ' :: s₂) := by
  have h1 := (hsplit.transfer s₂ ('/' :: '/' :: (c ++ s₂))).toLexes
  rw [kindsFrom_of_Lexes h1, kindsFrom_of_Lexes hsplit.toLexes, (C29_blank_skipped _).1,
    (C29_blank_skipped _).1, C29_line_comment_skipped c s₂ hc hs₂]

-- non-vacuity
example : LexesNT "x +".toList (' ' :: "y".toList) [.ident ['x'], .plus] := by
  refine .step 'x' _ _ _ (by decide +kernel) (by decide +kernel) (.step ' ' _ _ _ (by decide +kernel) (by decide +kernel)
    (.step '+' _ _ _ (by decide +kernel) (by decide +kernel) (.done _)))
example : noClose "a * b / c \" ' é \n **".toList = true := by decide +kernel
example : Lexes "x +".toList " y".toList [.ident ['x'], .plus] := by
  refine .step 'x' _ _ _ (by decide +kernel) (.step ' ' _ _ _ (by decide +kernel) (.step '+' _ _ _ (by decide +kernel) (.done _)))
example : kindsFrom "a /* x * y */ b".toList = kindsFrom "a   b".toList := by decide +kernel

end Abra.Lex

namespace Abra.Pratt

-- ---------------------------------------------------------------- separators in delimited lists
/-- what stands between two items: the separator or a newline, then `nls` further newlines -/
structure Gap where
  comma : Bool
  nls : Nat

def Gap.toks (g : Gap) : List Tok := (if g.comma then Tok.comma else Tok.nl) :: List.replicate g.nls .nl

/-- the items printed with a chosen gap between consecutive items (`,` when the list of gaps runs out) -/
def printArgsWith : Args → List Gap → List Tok
  | .nil, _ => []
  | .cons e .nil, _ => e.print
  | .cons e es, [] => e.print ++ .comma :: printArgsWith es []
  | .cons e es, g :: gs => e.print ++ g.toks ++ printArgsWith es gs

theorem skipNl_replicate (k : Nat) (Z : List Tok) : skipNl (List.replicate k .nl ++ Z) = skipNl Z :=
  skipNl_nls k Z

/-- leading newlines are skipped by `parse_delimited_list` -/
theorem PL.skip_front {mode : FoldMode} {close : Tok} {k : Nat} {Z : List Tok} {res : Res Args}
    (h : PL mode close Z res) : PL mode close (List.replicate k .nl ++ Z) res := by
  obtain ⟨hne, f, hf⟩ := h
  refine ⟨hne, f, ?_⟩
  cases f with
  | zero => simpa [parseList] using hf
  | succ f => rw [parseList_succ] at hf ⊢; rw [skipNl_replicate]; exact hf

theorem PL.trailing {mode : FoldMode} {close : Tok} (hc : close = .rparen ∨ close = .rbrack)
    (trail : Option Gap) (rest : List Tok) :
    PL mode close ((match trail with | some g => List.replicate g.nls .nl | none => []) ++ close :: rest)
      (.ok .nil rest) := by
  have base : PL mode close (close :: rest) (.ok .nil rest) :=
    PL.nil (by rcases hc with rfl | rfl <;> simp [skipNl])
  cases trail with
  | none => simpa using base
  | some g => exact PL.skip_front base

theorem args_sep (mode : FoldMode) (hm : mode ≠ .always) : (as : Args) → as.WF → ∀ (gs : List Gap)
    (close : Tok) (rest : List Tok), (close = .rparen ∨ close = .rbrack) →
    PL mode close (printArgsWith as gs ++ close :: rest) (.ok as rest)
  | .nil, _, gs, close, rest, hc => by
    refine PL.nil ?_
    rcases hc with rfl | rfl <;> simp [printArgsWith, skipNl]
  | .cons e .nil, hwf, gs, close, rest, hc => by
    have := main_args mode hm (.cons e .nil) hwf close rest hc
    simpa [printArgsWith, Args.print] using this
  | .cons e (.cons e2 es), hwf, gs, close, rest, hc => by
    have hw : e.WF ∧ (Args.cons e2 es).WF := by simpa [Args.WF] using hwf
    obtain ⟨t, ts, hp, ht⟩ := print_starts e
    cases gs with
    | nil =>
      have ih := args_sep mode hm (.cons e2 es) hw.2 [] close rest hc
      have hin := main_expr mode hm e hw.1 0 (.comma :: (printArgsWith (.cons e2 es) [] ++ close :: rest)) _
        (level_pos e) (by omega) (by simp [stops]) (LP.stop (by simp [stops]) (by omega))
      have hpr : printArgsWith (.cons e (.cons e2 es)) [] = e.print ++ .comma :: printArgsWith (.cons e2 es) [] := by
        rw [printArgsWith]; intro h; cases h
      rw [hpr, List.append_assoc, List.cons_append]
      rw [hp] at hin ⊢
      refine PL.cons (t := t) (sep := .comma) ?_ ?_ (Or.inl rfl) hin ih
      · exact StartsOk.skipNl ⟨t, _, rfl, ht⟩
      · intro h; subst h; rcases hc with rfl | rfl <;> simp [startTok] at ht
    | cons g gs' =>
      have ih := args_sep mode hm (.cons e2 es) hw.2 gs' close rest hc
      have ih' : PL mode close (List.replicate g.nls .nl ++ (printArgsWith (.cons e2 es) gs' ++ close :: rest))
          (.ok (.cons e2 es) rest) := PL.skip_front ih
      have hsep : (if g.comma then Tok.comma else Tok.nl) = .comma ∨ (if g.comma then Tok.comma else Tok.nl) = .nl := by
        cases g.comma <;> simp
      have hstop : ∀ Z, stops 0 ((if g.comma then Tok.comma else Tok.nl) :: Z) = true := by
        intro Z; cases g.comma <;> simp [stops]
      have hstopL : ∀ Z, stops e.level ((if g.comma then Tok.comma else Tok.nl) :: Z) = true := by
        intro Z; cases g.comma <;> simp [stops]
      have hin := main_expr mode hm e hw.1 0
        ((if g.comma then Tok.comma else Tok.nl) ::
          (List.replicate g.nls .nl ++ (printArgsWith (.cons e2 es) gs' ++ close :: rest))) _
        (level_pos e) (by omega) (hstopL _) (LP.stop (hstop _) (by omega))
      have hpr : printArgsWith (.cons e (.cons e2 es)) (g :: gs') =
          e.print ++ g.toks ++ printArgsWith (.cons e2 es) gs' := by
        rw [printArgsWith]; intro h; cases h
      rw [hpr]
      simp only [Gap.toks, List.append_assoc, List.cons_append]
      rw [hp] at hin ⊢
      refine PL.cons (t := t) ?_ ?_ hsep hin ih'
      · exact StartsOk.skipNl ⟨t, _, rfl, ht⟩
      · intro h; subst h; rcases hc with rfl | rfl <;> simp [startTok] at ht

/-- **Separator choice.** For every list of items and every choice, between consecutive items, of the
    separator `,` or a newline followed by any number of blank lines (and any number of newlines
    before the first item), `parse_delimited_list` yields exactly the same items as for the plain
    `,`-separated spelling (`main_args`), for both closing delimiters. -/
theorem C29_separator_choice (as : Args) (h : as.WF) (lead : Nat) (gs : List Gap) (close : Tok)
    (hc : close = .rparen ∨ close = .rbrack) (rest : List Tok) :
    PL codeFoldMode close (List.replicate lead .nl ++ (printArgsWith as gs ++ close :: rest)) (.ok as rest) ∧
    PL codeFoldMode close (as.print ++ close :: rest) (.ok as rest) :=
  ⟨PL.skip_front (args_sep codeFoldMode (by decide) as h gs close rest hc),
    main_args codeFoldMode (by decide) as h close rest hc⟩

/-- the list `[1, 2 ⏎ 3, ⏎ ⏎ 4]` of the probe: same items as `[1, 2, 3, 4]` -/
example : parseExpr [.lbrack, .atom (.int 1), .comma, .atom (.int 2), .nl, .atom (.int 3), .comma, .nl, .nl,
      .atom (.int 4), .rbrack] =
    parseExpr [.lbrack, .atom (.int 1), .comma, .atom (.int 2), .comma, .atom (.int 3), .comma, .atom (.int 4), .rbrack] := by
  rfl

end Abra.Pratt

namespace Abra.TopLevel

/-- how one top-level item is written: blank lines in front, the item, optionally `;` directly behind
    it, then any number of line breaks -/
structure ItemLayout where
  lead : Nat
  semi : Bool
  trail : Nat

def ItemLayout.toks (l : ItemLayout) : List TTok :=
  List.replicate l.lead .nl ++ .item :: ((if l.semi then [.semi] else []) ++ List.replicate l.trail .nl)

theorem accepted_nls (k : Nat) (r : List TTok) : accepted (List.replicate k .nl ++ r) = accepted r := by
  induction k with
  | zero => rfl
  | succ k ih => simp [List.replicate_succ, accepted, ih]

/-- **Terminators at top level.** Every file made of items, each optionally terminated by `;` and
    followed by any number of line breaks (also after the LAST item, before the end of input, and
    also with no line break at all behind the final `;`), is accepted: the optional `;` never
    decides whether a file parses. -/
theorem C29_toplevel_terminator (ls : List ItemLayout) : accepted (ls.flatMap ItemLayout.toks) = true := by
  induction ls with
  | nil => rfl
  | cons l ls ih =>
    simp only [List.flatMap_cons, ItemLayout.toks, List.append_assoc, accepted_nls]
    cases l.semi
    · simp only [Bool.false_eq_true, if_false, List.nil_append, List.cons_append]
      cases ht : l.trail with
      | zero =>
        simp only [List.replicate_zero, List.nil_append]
        cases hr : ls.flatMap ItemLayout.toks with
        | nil => simp [accepted]
        | cons t r =>
          rw [hr] at ih
          cases t with
          | semi => simp [accepted] at ih
          | item => simpa [accepted] using ih
          | nl => simpa [accepted] using ih
      | succ k =>
        rw [List.replicate_succ]
        simp only [List.cons_append, accepted]
        rw [accepted_nls]; exact ih
    · simp only [if_true, List.cons_append, List.nil_append, accepted]
      rw [accepted_nls]; exact ih

/-- …while a `;` that does not directly follow an item is a diagnostic: at the start of the file,
    on a line of its own, or doubled. -/
theorem C29_stray_semicolon_rejected (r : List TTok) (k : Nat) :
    accepted (.semi :: r) = false ∧ accepted (.item :: .semi :: .semi :: r) = false ∧
      accepted (.item :: .nl :: (List.replicate k .nl ++ .semi :: r)) = false := by
  refine ⟨rfl, rfl, ?_⟩
  simp only [accepted]
  rw [accepted_nls]; rfl

end Abra.TopLevel
