import AbraProofs.Lemmas.PreludeCmp
/-!
# C24 — built-in equality, ordering and hashing are lawful

Model: `Abra.PreludeCmp`, a function-by-function transliteration of the `Equal`/`Ord`/`Hash`
implementations in `modules/prelude.abra` with the component comparisons as parameters; `int`,
`float`, `string` instantiate them from `Int`, `Abra.F64` (C16) and `Abra.StrOps` (C17).

`LawfulOrd o e` says: `e` (`==`) is an equivalence, exactly one of `a < b`, `a == b`, `b < a` holds,
`<` is transitive, `a > b` is `b < a`, `a <= b` is `not (b < a)`, `a >= b` is `not (a < b)`.
All theorems are for ALL values of the type (all ints, all 2^64 float patterns, all byte strings,
all tuples/arrays over lawful components, by induction) — no enumeration.
-/
namespace Abra.PreludeCmp

/-! ## scalars -/

theorem C24_void_lawful : LawfulOrd voidOrd voidEqual := void_lawful
/-- bool, with `>=` as repaired (D5) -/
theorem C24_bool_lawful : LawfulOrd boolOrd boolEqual := bool_lawful
theorem C24_int_lawful : LawfulOrd intOrd intEqual := int_lawful
/-- float: the `total_cmp` order on all bit patterns (NaNs included), `==` is equality of bits -/
theorem C24_float_lawful : LawfulOrd floatOrd floatEqual := float_lawful
/-- string: the byte-wise VM instructions run to completion -/
theorem C24_string_lawful : LawfulOrd strOrd strEqual := string_lawful

/-- string `==` is equality of the byte sequences and `<` is core's lexicographic order -/
theorem C24_string_is_lexicographic (a b : StrOps.Bytes) :
    strEqual a b = decide (a = b) ∧ strOrd.lt a b = decide (a < b) := by
  refine ⟨strRun_eq a b, ?_⟩
  show strRun (StrOps.cmpStep .lt) a b = _
  rw [strRun_cmp, StrOps.Cmp.spec, StrOps.lexLt_eq_decide]

/-- the pre-repair definition of bool `>=` (`a and not b`) was not lawful: `true >= true` was false -/
theorem C24_bool_ge_old_counterexample :
    let oldGe : Bool → Bool → Bool := fun a b => a && !b
    oldGe true true = false ∧ boolOrd.ge true true = true ∧ boolOrd.le true true = true := by decide

/-! ## tuples of 2, 3, 4 and arrays, over any lawful components -/

theorem C24_tuple2_lawful {α β : Type} {o1 : Ord' α} {e1 : Eq' α} {o2 : Ord' β} {e2 : Eq' β}
    (L1 : LawfulOrd o1 e1) (L2 : LawfulOrd o2 e2) :
    LawfulOrd (tuple2Ord o1 o2) (tuple2Equal e1 e2) := tuple2_lawful L1 L2

theorem C24_tuple3_lawful {α β γ : Type} {o1 : Ord' α} {e1 : Eq' α} {o2 : Ord' β} {e2 : Eq' β}
    {o3 : Ord' γ} {e3 : Eq' γ} (L1 : LawfulOrd o1 e1) (L2 : LawfulOrd o2 e2) (L3 : LawfulOrd o3 e3) :
    LawfulOrd (tuple3Ord o1 o2 o3) (tuple3Equal e1 e2 e3) := by
  rw [tuple3Ord_eq, tuple3Equal_eq]
  exact tuple2_lawful L1 (tuple2_lawful L2 L3)

theorem C24_tuple4_lawful {α β γ δ : Type} {o1 : Ord' α} {e1 : Eq' α} {o2 : Ord' β} {e2 : Eq' β}
    {o3 : Ord' γ} {e3 : Eq' γ} {o4 : Ord' δ} {e4 : Eq' δ}
    (L1 : LawfulOrd o1 e1) (L2 : LawfulOrd o2 e2) (L3 : LawfulOrd o3 e3) (L4 : LawfulOrd o4 e4) :
    LawfulOrd (tuple4Ord o1 o2 o3 o4) (tuple4Equal e1 e2 e3 e4) := by
  rw [tuple4Ord_eq, tuple4Equal_eq]
  exact tuple2_lawful L1 (tuple2_lawful L2 (tuple2_lawful L3 L4))

-- non-vacuity: concrete lawful instances, nested
example : LawfulOrd (tuple2Ord boolOrd intOrd) (tuple2Equal boolEqual intEqual) :=
  C24_tuple2_lawful C24_bool_lawful C24_int_lawful
example : LawfulOrd (tuple3Ord floatOrd strOrd voidOrd) (tuple3Equal floatEqual strEqual voidEqual) :=
  C24_tuple3_lawful C24_float_lawful C24_string_lawful C24_void_lawful
example : LawfulOrd (tuple4Ord boolOrd (tuple2Ord intOrd boolOrd) strOrd floatOrd)
    (tuple4Equal boolEqual (tuple2Equal intEqual boolEqual) strEqual floatEqual) :=
  C24_tuple4_lawful C24_bool_lawful (C24_tuple2_lawful C24_int_lawful C24_bool_lawful) C24_string_lawful
    C24_float_lawful

/-- the tuple order is the lexicographic order of the component orders (independent reading) -/
theorem C24_tuple_lt_is_lexicographic {α β : Type} {o1 : Ord' α} {e1 : Eq' α} {o2 : Ord' β}
    (L1 : LawfulOrd o1 e1) (a b : α × β) :
    (tuple2Ord o1 o2).lt a b = true ↔
      o1.lt a.1 b.1 = true ∨ (e1 a.1 b.1 = true ∧ o2.lt a.2 b.2 = true) := tuple2_lt_iff L1 a b

example : (tuple2Ord boolOrd intOrd).lt (false, 5) (true, 1) = true :=
  (C24_tuple_lt_is_lexicographic C24_bool_lawful (o2 := intOrd) (false, 5) (true, 1)).2 (Or.inl (by decide))

/-- array `==`: the index loop never leaves the arrays and computes "same length and element-wise
    equal" -/
theorem C24_array_equal_spec {α : Type} (e : Eq' α) (a b : List α) :
    arrayEqual? e a b = some (listAll2 e a b) ∧ arrayEqual e a b = listAll2 e a b :=
  arrayEqual_spec e a b

theorem C24_array_equal_lawful {α : Type} {e : Eq' α} (L : LawfulEq e) : LawfulEq (arrayEqual e) :=
  arrayEqual_lawful L

example : LawfulEq (arrayEqual (tuple2Equal boolEqual voidEqual)) :=
  C24_array_equal_lawful (tuple2Equal_lawful C24_bool_lawful.toLawfulEq C24_void_lawful.toLawfulEq)

/-! ## the laws as the property states them, for every lawful type -/

/-- `!=` is the negation of `==` -/
theorem C24_ne_is_negation {α : Type} (e : Eq' α) (a b : α) : ne e a b = !(e a b) := rfl

/-- for any `LawfulOrd`: `x <= y` exactly when not `y < x`; `x >= y` exactly when `y <= x`;
    `x > y` exactly when `y < x`; `<=` is `<` or `==`; `<` is irreflexive and incompatible with `==`;
    `<=` is total, transitive and antisymmetric up to `==` -/
theorem C24_order_laws {α : Type} {o : Ord' α} {e : Eq' α} (L : LawfulOrd o e) (a b c : α) :
    (o.le a b = true ↔ ¬ o.lt b a = true) ∧
    (o.ge a b = o.le b a) ∧
    (o.gt a b = o.lt b a) ∧
    (o.le a b = (o.lt a b || e a b)) ∧
    (o.ge a b = (o.gt a b || e a b)) ∧
    (o.lt a a = false) ∧
    (e a b = true → o.lt a b = false ∧ o.le a b = true ∧ o.ge a b = true) ∧
    (o.le a b = true ∨ o.le b a = true) ∧
    (o.le a b = true → o.le b c = true → o.le a c = true) ∧
    (o.le a b = true → o.le b a = true → e a b = true) := by
  have tab := L.tri a b
  have tbc := L.tri b c
  have tac := L.tri a c
  have taa := L.tri a a
  have raa := L.refl a
  refine ⟨?_, ?_, L.gt_def a b, ?_, ?_, ?_, ?_, ?_, ?_, ?_⟩
  · rw [L.le_def]; simp
  · rw [L.ge_def, L.le_def]
  · rw [L.le_def]; rcases tab with h | h | h <;> simp [h.1, h.2.1, h.2.2]
  · rw [L.ge_def, L.gt_def]; rcases tab with h | h | h <;> simp [h.1, h.2.1, h.2.2]
  · rcases taa with h | h | h <;> simp_all
  · intro h; rw [L.le_def, L.ge_def]; rcases tab with t | t | t <;> simp_all
  · rw [L.le_def, L.le_def]; rcases tab with h | h | h <;> simp [h.1, h.2.2]
  · rw [L.le_def, L.le_def, L.le_def]
    intro h1 h2
    -- ¬ b < a, ¬ c < b ⊢ ¬ c < a
    cases hca : o.lt c a with
    | false => rfl
    | true =>
      exfalso
      rcases tab with t | t | t
      · have := L.lt_trans c a b hca t.1
        simp_all
      · have := L.lt_of_lt_of_eq hca t.2.1
        simp_all
      · simp_all
  · rw [L.le_def, L.le_def]; rcases tab with h | h | h <;> simp [h.1, h.2.1, h.2.2]

example : (boolOrd.le true true = true ↔ ¬ boolOrd.lt true true = true) :=
  (C24_order_laws C24_bool_lawful true true true).1

/-! ## hashing -/

/-- equal values have equal hashes: scalars (int, void, bool, string) … -/
theorem C24_hash_congr_scalars :
    HashCongr voidEqual voidHash ∧ HashCongr boolEqual boolHash ∧ HashCongr intEqual intHash ∧
    HashCongr strEqual strHash := scalar_hash_congr

/-- the string hash as the prelude computes it — an index loop over `string_count_bytes` /
    `string_nth_byte` — never indexes out of range and is FNV-1a folded over the bytes -/
theorem C24_string_hash_loop (s : StrOps.Bytes) : strHashIndexed s = some (strHash s) :=
  strHashIndexed_eq s

example : strHashIndexed [97] = some 0xaf63dc4c8601ec8c := by decide

/-- … tuples of 2, 3, 4 and arrays over components with that property -/
theorem C24_hash_congr_compound {α β γ δ : Type} {e1 : Eq' α} {e2 : Eq' β} {e3 : Eq' γ} {e4 : Eq' δ}
    {h1 : Hash' α} {h2 : Hash' β} {h3 : Hash' γ} {h4 : Hash' δ}
    (H1 : HashCongr e1 h1) (H2 : HashCongr e2 h2) (H3 : HashCongr e3 h3) (H4 : HashCongr e4 h4) :
    HashCongr (tuple2Equal e1 e2) (tuple2Hash h1 h2) ∧
    HashCongr (tuple3Equal e1 e2 e3) (tuple3Hash h1 h2 h3) ∧
    HashCongr (tuple4Equal e1 e2 e3 e4) (tuple4Hash h1 h2 h3 h4) ∧
    HashCongr (arrayEqual e1) (arrayHash h1) :=
  ⟨tuple2Hash_congr H1 H2, tuple3Hash_congr H1 H2 H3, tuple4Hash_congr H1 H2 H3 H4, arrayHash_congr H1⟩

example : HashCongr (arrayEqual (tuple2Equal boolEqual strEqual)) (arrayHash (tuple2Hash boolHash strHash)) :=
  (C24_hash_congr_compound (e2 := voidEqual) (e3 := voidEqual) (e4 := voidEqual)
    (tuple2Hash_congr C24_hash_congr_scalars.2.1 C24_hash_congr_scalars.2.2.2)
    C24_hash_congr_scalars.1 C24_hash_congr_scalars.1 C24_hash_congr_scalars.1).2.2.2

end Abra.PreludeCmp
