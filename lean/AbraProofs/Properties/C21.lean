import AbraProofs.Lemmas.Names
/-!
# C21 — names resolve to the innermost visible declaration; imports are exact

Model: `Abra.Names` (`Namespace::add_declaration / add_other_pred`, `resolve_imports_file`,
`SymbolTable`, `resolve_names_stmt` of statics/resolve.rs).  All theorems hold for every world
(any number of files, names, imports) and every statement list (any nesting depth).

Specification side (in `Lemmas/Names.lean`, independent of the scope stack and of the insertion
loop): `specStmts` — the textbook environment semantics of lexical scoping; `visibleThrough` — the
four import forms as the property words them; `supply` — the list of everything handed to a file.
The for-loop variable is modelled as scoped to the loop (D39 repaired).
-/
namespace Abra.Names

variable {ν : Type} [DecidableEq ν]

/-- Symbol table: a lookup returns the binding of the innermost scope that has one
    (scopes innermost first, most recent insertion first inside a scope). -/
theorem C21_lookup_innermost_scope (st : SymTab ν) (x : ν) :
    lookup st x = Table.get st.flatten x :=
  lookup_eq_get_flatten st x

/-- Resolution of a whole statement list by the scope-stack algorithm coincides with lexical
    scoping: every use resolves to the most recent enclosing binder that is still in scope
    (`specStmts`: one environment, a block's bindings end with the block), else to the file-level
    declaration, else it is unresolved. -/
theorem C21_lookup_innermost (w : World ν) (st : SymTab ν) (ss : List (Stmt ν)) :
    (resolveStmts w true st ss).2 = (specStmts w st.flatten ss).2 :=
  (resolveStmts_refines w st st.flatten (lookup_eq_get_flatten st) ss).1

/-- The names visible at file level are exactly: builtins, the prelude, the file's own
    declarations and what each `use` item lets through — all of the imported file's names, only
    the listed ones, all but the `except` list, or just the `as` prefix. -/
theorem C21_import_exact (w : World ν) (file : Nat) (x : ν) :
    x ∈ keys (effective w file).table ↔
      x ∈ w.builtins ∨ x ∈ w.prelude ∨ x ∈ declsOf w file ∨
        ∃ i ∈ importsOf w file, visibleThrough w i x := by
  rw [(effective_eq w file).1, mem_keys_insertAll, mem_keys_builtinTable, mem_keys_supply]

/-- …and the declaration found under a visible name is the one of its first supplier
    (builtins, prelude, own file, then the imports in source order); an imported name denotes the
    imported file's own declaration. -/
theorem C21_import_first_supplier (w : World ν) (file : Nat) (x : ν) :
    (effective w file).table.get x = Table.get (builtinTable w ++ supply w file) x := by
  rw [(effective_eq w file).1, insertAll_get]

theorem C21_import_decl (w : World ν) (file m : Nat) (x : ν) :
    Table.get (importSupply w file (Import.glob m)) x =
      if x ∈ declsOf w m then some (Decl.fn m x) else none :=
  ownTable_get w m x

/-- Qualified access: with `use m as p`, `p.x` reaches exactly the declaration that `use m`
    supplies under the name `x`. -/
theorem C21_qualified_same_decl (w : World ν) (st : SymTab ν) (file f m : Nat) (p x : ν)
    (hp : lookup st p = some (Decl.alias f p m)) :
    resolveQualified w st p x = Res.ofOption (Table.get (importSupply w file (Import.glob m)) x) := by
  simp [resolveQualified, hp, memberOf, importSupply]

/-- Clash: `x` is reported for a file's effective namespace exactly when it is supplied at least
    twice (two visible declarations with one name); one report per extra supply. -/
theorem C21_clash_count (w : World ν) (file : Nat) (x : ν) :
    (effective w file).clashes.count x =
      (keys (builtinTable w) ++ keys (supply w file)).count x - 1 := by
  rw [(effective_eq w file).2, insertAll_clashes, mem_dupsAfter_count, List.count_append]
  by_cases hx : x ∈ keys (builtinTable w)
  · have h1 : (keys (builtinTable w)).count x = 1 := by
      rw [List.Nodup.count (nodup_keys_builtinTable w)]; simp [hx]
    simp [hx, h1]
  · have h0 : (keys (builtinTable w)).count x = 0 := List.count_eq_zero.2 hx
    simp [hx, h0]

theorem C21_clash_iff (w : World ν) (file : Nat) (x : ν) :
    x ∈ (effective w file).clashes ↔
      2 ≤ (keys (builtinTable w) ++ keys (supply w file)).count x := by
  rw [← List.count_pos_iff, C21_clash_count]
  omega

/-- the same inside one file: a name declared twice is reported -/
theorem C21_clash_iff_own (w : World ν) (file : Nat) (x : ν) :
    x ∈ (ownTable w file).2 ↔ 2 ≤ (declsOf w file).count x := by
  unfold ownTable declsOf
  cases w.files[file]? with
  | none => simp
  | some f =>
    simp only [gather_eq, insertAll_clashes]
    rw [← List.count_pos_iff, mem_dupsAfter_count]
    have : keys (f.decls.map fun y => (y, Decl.fn file y)) = f.decls := by
      simp [keys, Function.comp_def]
    rw [this]
    simp [keys]
    omega

/-! ### non-vacuity: two files, shadowing three deep, every import form -/

private def w2 : World Nat :=
  { builtins := [100], prelude := [101],
    files := [
      { decls := [1, 2], imports := [.incl 1 [3, 9], .as_ 1 7], probe := [],
        top := [.use 3, .letv 3 50, .use 3,
                .block [.letv 1 51, .use 1, .forv 3 52 [.use 3, .matchv 3 53 [.use 3]], .use 3],
                .use 1, .quse 7 4, .use 4] },
      { decls := [3, 4], imports := [.glob 0, .excl 0 [2], .missing], probe := [], top := [] } ] }

example : resolveTop w2 true 0 =
    [.to (.fn 1 3), .to (.loc 50), .to (.loc 51), .to (.loc 52), .to (.loc 53), .to (.loc 50),
     .to (.fn 0 1), .to (.fn 1 4), .unresolved] := by decide
example : (effective w2 0).clashes = [] := by decide
example : (effective w2 1).clashes = [1] := by decide    -- `1` supplied by `use main` and again by `use main except (2)`
example : lookup (fileSymTab w2 0) 7 = some (Decl.alias 0 7 1) := by decide

end Abra.Names
