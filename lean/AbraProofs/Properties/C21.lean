import AbraProofs.Lemmas.Names
/-!
# C21 — names resolve to the innermost visible declaration; imports are exact

Model: `Abra.Names` (`Namespace::add_declaration / add_other_pred`, `resolve_imports_file`,
`SymbolTable`, `resolve_names_stmt` of statics/resolve.rs).  All theorems hold for every world
(any number of files, names, imports) and every statement list (any nesting depth).

Specification side (in `Lemmas/Names.lean`, independent of the scope stack and of the insertion
loop): `specStmts` — the textbook environment semantics of lexical scoping; `visibleThrough` — the
four import forms as the property words them; `supply` — the list of everything handed to a file.
The for-loop variable is modelled as scoped to the loop (D39 repaired).
-/
namespace Abra.Names

variable {ν : Type} [DecidableEq ν]

/-- Symbol table: a lookup returns the binding of the innermost scope that has one
    (scopes innermost first, most recent insertion first inside a scope). -/
theorem C21_lookup_innermost_scope (st : SymTab ν) (x : ν) :
    lookup st x = Table.get st.flatten x :=
  lookup_eq_get_flatten st x

/-- Resolution of a whole statement list by the scope-stack algorithm coincides with lexical
    scoping: every use resolves to the most recent enclosing binder that is still in scope
    (`specStmts`: one environment, a block's bindings end with the block), else to the file-level
    declaration, else it is unresolved. -/
theorem C21_lookup_innermost (w : World ν) (kids : Table ν) (st : SymTab ν) (ss : List (Stmt ν)) :
    (resolveStmts w true kids st ss).2 = (specStmts w kids st.flatten ss).2 :=
  (resolveStmts_refines w kids st st.flatten (lookup_eq_get_flatten st) ss).1

/-- Sibling scopes: every arm of a `match` (and each branch of an `if`/`else`) is resolved from the
    table of the whole statement — what an earlier arm's pattern binds is not visible in a later
    arm — and the statement leaves the table unchanged.  (`C21_lookup_innermost` covers these
    forms: the textbook semantics `specArms` gives each arm the environment of the match.) -/
theorem C21_arms_independent (w : World ν) (kids : Table ν) (st : SymTab ν)
    (arm : Option (ν × Nat) × List (Stmt ν)) (rest : List (Option (ν × Nat) × List (Stmt ν))) :
    resolveArms w true kids st (arm :: rest) =
      resolveArms w true kids st [arm] ++ resolveArms w true kids st rest ∧
    (resolveStmt w true kids st (.marms (arm :: rest))).1 = st := by
  obtain ⟨b, body⟩ := arm
  cases b with
  | none => simp [resolveArms, resolveStmt]
  | some xb => obtain ⟨x, id⟩ := xb; simp [resolveArms, resolveStmt]

/-- A binder is visible only AFTER (let) / INSIDE (for, match arm) its construct: the defining
    expression — the `let` initialiser, the `for` iterable, the `match` scrutinee, modelled as a use
    that precedes the binder — is resolved in the table before the binding, so a name equal to the
    one being bound means the OUTER declaration there (or is unresolved when there is none). -/
theorem C21_defining_expression_outside (w : World ν) (kids : Table ν) (st : SymTab ν)
    (x : ν) (id : Nat) (body rest : List (Stmt ν)) :
    (resolveStmts w true kids st (.use x :: .letv x id :: rest)).2.head? = some (Res.ofOption (lookup st x)) ∧
    (resolveStmts w true kids st (.use x :: .forv x id body :: rest)).2.head? = some (Res.ofOption (lookup st x)) ∧
    (resolveStmts w true kids st (.use x :: .matchv x id body :: rest)).2.head? = some (Res.ofOption (lookup st x)) := by
  simp [resolveStmts, resolveStmt]

/-- The names visible at file level are exactly: builtins, the prelude, the file's own
    declarations and what each `use` item lets through — all of the imported file's names, only
    the listed ones, all but the `except` list, or just the `as` prefix. -/
theorem C21_import_exact (w : World ν) (file : Nat) (x : ν) :
    x ∈ keys (effective w file).table ↔
      x ∈ w.builtins ∨ x ∈ w.prelude ∨ x ∈ declsOf w file ∨
        ∃ i ∈ importsOf w file, visibleThrough w i x := by
  rw [(effective_eq w file).1, mem_keys_insertAll, mem_keys_builtinTable, mem_keys_supply]

/-- …and the declaration found under a visible name is the one of its first supplier
    (builtins, prelude, own file, then the imports in source order); an imported name denotes the
    imported file's own declaration. -/
theorem C21_import_first_supplier (w : World ν) (file : Nat) (x : ν) :
    (effective w file).table.get x = Table.get (builtinTable w ++ supply w file) x := by
  rw [(effective_eq w file).1, insertAll_get]

theorem C21_import_decl (w : World ν) (file m : Nat) (x : ν) :
    Table.get (importSupply w file (Import.glob m)) x = Table.get (ownEntries w m) x :=
  ownTable_get w m x

/-- Qualified access: with `use m as p`, `p.x` reaches exactly the declaration that `use m`
    supplies under the name `x`. -/
theorem C21_qualified_same_decl (w : World ν) (st : SymTab ν) (file f m : Nat) (p x : ν)
    (hp : lookup st p = some (Decl.alias f p m)) :
    resolveQualified w st p x = Res.ofOption (Table.get (importSupply w file (Import.glob m)) x) := by
  simp [resolveQualified, hp, memberOf, importSupply]

/-- Clash: `x` is reported for a file's effective namespace exactly when it is supplied at least
    twice (two visible declarations with one name); one report per extra supply. -/
theorem C21_clash_count (w : World ν) (file : Nat) (x : ν) :
    (effective w file).clashes.count x =
      (keys (builtinTable w) ++ keys (supply w file)).count x - 1 := by
  rw [(effective_eq w file).2, insertAll_clashes, mem_dupsAfter_count, List.count_append]
  by_cases hx : x ∈ keys (builtinTable w)
  · have h1 : (keys (builtinTable w)).count x = 1 := by
      rw [List.Nodup.count (nodup_keys_builtinTable w)]; simp [hx]
    simp [hx, h1]
  · have h0 : (keys (builtinTable w)).count x = 0 := List.count_eq_zero.2 hx
    simp [hx, h0]

theorem C21_clash_iff (w : World ν) (file : Nat) (x : ν) :
    x ∈ (effective w file).clashes ↔
      2 ≤ (keys (builtinTable w) ++ keys (supply w file)).count x := by
  rw [← List.count_pos_iff, C21_clash_count]
  omega

/-- the same inside one file: a name declared twice is reported -/
theorem C21_clash_iff_own (w : World ν) (file : Nat) (x : ν) :
    x ∈ (ownTable w file).2 ↔ 2 ≤ (declsOf w file).count x := by
  unfold ownTable declsOf
  rw [gather_eq, insertAll_clashes, ← List.count_pos_iff, mem_dupsAfter_count]
  simp [keys]
  omega

theorem dupNames_eq (seen xs : List ν) : dupNames seen xs = dupsAfter seen xs := by
  induction xs generalizing seen with
  | nil => rfl
  | cons x xs ih => simp only [dupNames, dupsAfter, ih]

/-- …and inside one enum / interface: a variant or method name declared twice is reported,
    once per extra declaration -/
theorem C21_clash_iff_members (members : List ν) (x : ν) :
    x ∈ dupNames [] members ↔ 2 ≤ members.count x := by
  rw [dupNames_eq, ← List.count_pos_iff, mem_dupsAfter_count]
  simp
  omega

/-! ### child namespaces (enum variants, interface methods, `as` prefixes) -/

/-- The child namespaces visible at file level are exactly those of the file's own enums and
    interfaces and those each `use` item brings along; an item brings a child namespace along
    exactly when it makes the owning declaration visible (`C21_child_visible_iff`): all of them,
    only the listed ones, all but the `except` list, or just the `as` prefix. -/
theorem C21_children_exact (w : World ν) (file : Nat) (x : ν) :
    x ∈ keys (effective w file).kids ↔
      x ∈ typeNames w file ∨ ∃ i ∈ importsOf w file, kidVisibleThrough w i x :=
  effective_kids w file x

theorem C21_child_visible_iff (w : World ν) (i : Import ν) (x : ν) :
    kidVisibleThrough w i x ↔ visibleThrough w i x ∧
      (match i with
       | .glob m | .incl m _ | .excl m _ => x ∈ typeNames w m
       | _ => True) :=
  kidVisibleThrough_iff w i x

/-- A name that no source supplies as an enum / interface / prefix has no child namespace: a
    filtered-out enum of an imported file is not reachable through a qualified pattern. -/
theorem C21_filtered_child_invisible (w : World ν) (file : Nat) (x : ν) (v : ν)
    (hown : x ∉ typeNames w file) (himp : ∀ i ∈ importsOf w file, ¬ kidVisibleThrough w i x) :
    resolvePat w (effective w file).kids none x v = Res.unresolved := by
  have : x ∉ keys (effective w file).kids := by
    rw [C21_children_exact]
    rintro (h | ⟨i, hi, hx⟩)
    · exact hown h
    · exact himp i hi hx
  simp [resolvePat, (get_eq_none_iff _ _).2 this, variantOf]

theorem nodup_of_no_clash (w : World ν) (file : Nat) (h : (effective w file).clashes = []) :
    (keys (builtinTable w ++ supply w file)).Nodup := by
  rw [List.nodup_iff_count]
  intro x
  have := C21_clash_count w file x
  rw [h] at this
  simp only [List.count_nil] at this
  simp only [keys, List.map_append] at this ⊢
  omega

theorem nodup_of_no_own_clash (w : World ν) (m : Nat) (h : (ownTable w m).2 = []) :
    (keys (ownEntries w m)).Nodup := by
  rw [List.nodup_iff_count]
  intro x
  have hc : (ownTable w m).2.count x = 0 := by rw [h]; rfl
  unfold ownTable at hc
  rw [gather_eq, insertAll_clashes, mem_dupsAfter_count] at hc
  simp [keys] at hc
  simp only [keys]
  omega

/-- In a program without name clashes the child namespace found under a name is the one of the
    declaration found under that name (and there is none when that declaration is a function, a
    builtin or a prelude item): namespaces and declarations never drift apart. -/
theorem C21_children_follow_decls (w : World ν) (file : Nat)
    (hown : ∀ m, (ownTable w m).2 = []) (hc : (effective w file).clashes = []) (x : ν) :
    (effective w file).kids.get x = nsOnly ((effective w file).table.get x) :=
  effective_kids_get w file (fun m => nodup_of_no_own_clash w m (hown m)) (nodup_of_no_clash w file hc) x

theorem variantOf_nsOnly (w : World ν) (v : ν) (o : Option (Decl ν)) :
    variantOf w v (nsOnly o) = variantOf w v o := by
  cases o with
  | none => rfl
  | some d => cases d <;> simp [nsOnly, isNs, variantOf]

/-- Qualified variant pattern = variant expression: in a clash-free program the arm `Ty.V`
    resolves (through the namespaces) to the variant of the very enum that the expression `Ty.V`
    resolves to (through the declarations) at file level — the innermost visible `Ty`. -/
theorem C21_pattern_same_decl (w : World ν) (file : Nat)
    (hown : ∀ m, (ownTable w m).2 = []) (hc : (effective w file).clashes = []) (ty v : ν) :
    resolvePat w (effective w file).kids none ty v =
      resolveEnumExpr w (fileSymTab w file) none ty v := by
  simp only [resolvePat, resolveEnumExpr, enumExprWith, fileSymTab, lookup]
  rw [C21_children_follow_decls w file hown hc, variantOf_nsOnly]
  cases (effective w file).table.get ty <;> rfl

/-- a variant written through a prefix reaches the enum `use m` supplies under that name -/
theorem C21_qualified_variant_same_decl (w : World ν) (st : SymTab ν) (file f m : Nat) (p ty v : ν)
    (hp : lookup st p = some (Decl.alias f p m)) :
    resolveEnumExpr w st (some p) ty v =
      variantOf w v (Table.get (importSupply w file (Import.glob m)) ty) := by
  simp [resolveEnumExpr, enumExprWith, hp, declOfPrefix, importSupply]

/-! ### non-vacuity: two files, shadowing three deep, every import form -/

private def w2 : World Nat :=
  { builtins := [100], prelude := [101],
    files := [
      { decls := [1, 2], types := [⟨22, true, [30, 31]⟩], imports := [.incl 1 [3, 9], .as_ 1 7], probe := [],
        top := [.use 3, .letv 3 50, .use 3,
                .block [.letv 1 51, .use 1, .forv 3 52 [.use 3, .matchv 3 53 [.use 3]], .use 3],
                .use 1, .quse 7 4, .use 4] },
      { decls := [3, 4], types := [⟨20, true, [31, 32]⟩, ⟨21, false, [33]⟩], imports := [.glob 0, .excl 0 [2], .missing], probe := [], top := [] } ] }

example : resolveTop w2 true 0 =
    [.to (.fn 1 3), .to (.loc 50), .to (.loc 51), .to (.loc 52), .to (.loc 53), .to (.loc 50),
     .to (.fn 0 1), .to (.fn 1 4), .unresolved] := by decide
example : (effective w2 0).clashes = [] := by decide
example : (effective w2 1).clashes = [1, 22] := by decide    -- supplied by `use main` and again by `use main except (2)`
example : lookup (fileSymTab w2 0) 7 = some (Decl.alias 0 7 1) := by decide

/-- an earlier arm binds `1`, the later arm's `1` is the outer `let` (id 50), not the arm binder 60 -/
example : (resolveStmts w2 true [] [[]] [.letv 1 50, .marms [(some (1, 60), [.use 1]), (none, [.use 1]), (some (2, 61), [.use 1, .use 2])],
      .ifelse [.letv 1 62, .use 1] [.use 1]]).2 =
    [.to (.loc 60), .to (.loc 50), .to (.loc 50), .to (.loc 61), .to (.loc 62), .to (.loc 50)] := by decide

/-- the shape `use f except Name` with an own enum `Name`: the arm `Name.V` means the own enum;
    a variant that only the excluded enum has does not resolve -/
private def w3 : World Nat :=
  { builtins := [], prelude := [],
    files := [
      { decls := [], types := [⟨20, true, [30, 31]⟩], imports := [.excl 1 [20]], probe := [],
        top := [.pmatch none 20 30, .euse none 20 31, .pmatch none 20 33, .use 5] },
      { decls := [5], types := [⟨20, true, [31, 32, 33]⟩], imports := [], probe := [], top := [] } ] }

example : resolveTop w3 true 0 =
    [.to (.variant 0 0 20 30), .to (.variant 0 0 20 31), .unresolved, .to (.fn 1 5)] := by decide
example : (effective w3 0).clashes = [] := by decide
example : (effective w3 0).kids.get 20 = some (Decl.enum_ 0 0 20) := by decide
example : (∀ m, (ownTable w3 m).2 = []) := by
  intro m
  match m with
  | 0 => decide
  | 1 => decide
  | n + 2 => rfl

end Abra.Names
