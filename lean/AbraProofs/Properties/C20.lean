import AbraModel.Assign
import AbraProofs.Lemmas.Names
/-!
# C20 — immutable bindings cannot be assigned; assignment never crashes

Model: `Abra.Assign` — the checker's decision (`generate_constraints_stmt`, `record_pat_mutability`),
the compiler's reaction (`translate_stmt`), and the store it emits for a variable.
The table is over *all* targets (every binding form, captured or not, array element, struct field,
non-variable name) and all six assignment operators.

A variable captured by a lambda or task is rejected with a diagnostic (D20 repaired, fdfd074), so the
table is total: every target × operator yields accept or a diagnostic.  `oldDecision` is the table
of the code before the repair; `C20_assign_total_old_counterexample` documents that it crashed.
-/
namespace Abra.Assign

/-- a `let` binding cannot be assigned, with any operator, captured or not -/
theorem C20_let_rejected (captured : Bool) (op : AOp) :
    assignDecision (.name .letB captured) op = .diagImmutable := by
  cases captured <;> rfl

/-- `var` bindings, array elements and struct fields are accepted, with every operator -/
theorem C20_var_accepted (op : AOp) :
    assignDecision (.name .varB false) op = .accept ∧
    assignDecision .elem op = .accept ∧ assignDecision .field op = .accept := by
  cases op <;> exact ⟨rfl, rfl, rfl⟩

/-- for-loop variables and match bindings are rejected with the diagnostic, parameters are accepted
    (both allowed by the property); assigning to a function name is a diagnostic -/
theorem C20_other_forms (op : AOp) :
    assignDecision (.name .forB false) op = .diagImmutable ∧
    assignDecision (.name .matchB false) op = .diagImmutable ∧
    assignDecision (.name .paramB false) op = .accept ∧
    assignDecision (.name .lamParamB false) op = .accept ∧
    assignDecision .nonVar op = .diagNotVar := by
  cases op <;> exact ⟨rfl, rfl, rfl, rfl, rfl⟩

/-- The accepted store takes effect: the code emitted for `x op= e` leaves in `x`'s slot the value
    the operator defines (exact 64-bit arithmetic of `Abra.I64`, C15) and touches nothing else, or
    stops with that operator's runtime error. -/
theorem C20_store_takes_effect (op : AOp) (idx : Nat) (rhs : Int) (frame : List Int)
    (h : idx < frame.length) :
    run frame [] (assignCode op idx rhs) =
      match newValue op frame[idx] rhs with
      | .val n => .ok (frame.set idx n) []
      | e => .err e := by
  have hget : frame[idx]? = some frame[idx] := List.getElem?_eq_getElem h
  have hcomp : ∀ a : Abra.I64.Op,
      run frame [] [.loadOffset idx, .push rhs, .arith a, .storeOffset idx] =
        match Abra.I64.apply a frame[idx] rhs with
        | .val n => .ok (frame.set idx n) []
        | e => .err e := by
    intro a
    cases hap : Abra.I64.apply a frame[idx] rhs <;> simp [run, step, hget, h, hap]
  cases op
  · simp [assignCode, AOp.arith?, newValue, run, step, h]
  all_goals exact hcomp _

/-- Assigning to a captured variable is rejected with a diagnostic, for every binding form and
    operator (immutable bindings with the `let` message, the others with the capture message). -/
theorem C20_capture_rejected (b : Base) (op : AOp) :
    assignDecision (.name b true) op = .diagImmutable ∨ assignDecision (.name b true) op = .diagCaptured := by
  cases b <;> simp [assignDecision, checker, patMutable]

/-- Totality: every target × operator yields accept or a diagnostic, never a compiler crash. -/
theorem C20_assign_total (t : Target) (op : AOp) : assignDecision t op ≠ .crash := by
  cases t with
  | name b captured => cases captured <;> cases b <;> simp [assignDecision, checker, patMutable]
  | elem => simp [assignDecision, checker]
  | field => simp [assignDecision, checker]
  | nonVar => simp [assignDecision, checker]

/-- the complete table in one statement -/
theorem C20_table (t : Target) (op : AOp) :
    assignDecision t op =
      match t with
      | .name .letB _ | .name .forB _ | .name .matchB _ => .diagImmutable
      | .name .varB c | .name .paramB c | .name .lamParamB c => if c then .diagCaptured else .accept
      | .elem | .field => .accept
      | .nonVar => .diagNotVar := by
  cases t with
  | name b captured => cases captured <;> cases b <;> rfl
  | elem => rfl
  | field => rfl
  | nonVar => rfl

/-- before fdfd074 (D20): `var x = 10   let f = () -> { x = 3 }` passed the checker and the
    compiler panicked — the old table was not total, and it crashed exactly on the captured
    variables the old checker accepted -/
theorem C20_assign_total_old_counterexample :
    ¬ (∀ (t : Target) (op : AOp), oldDecision t op ≠ .crash) := by
  intro h; exact h (.name .varB true) .eq rfl

theorem C20_old_crash_iff (t : Target) (op : AOp) :
    oldDecision t op = .crash ↔ ∃ b, t = .name b true ∧ patMutable b ≠ some false := by
  cases t with
  | name b captured => cases captured <;> cases b <;> simp [oldDecision, patMutable]
  | elem => simp [oldDecision]
  | field => simp [oldDecision]
  | nonVar => simp [oldDecision]

/-- the repair changed the table only there -/
theorem C20_old_agrees (t : Target) (op : AOp) (h : oldDecision t op ≠ .crash) :
    assignDecision t op = oldDecision t op := by
  cases t with
  | name b captured => cases captured <;> cases b <;> simp_all [oldDecision, assignDecision, checker, patMutable]
  | elem => rfl
  | field => rfl
  | nonVar => rfl

mutual
theorem recordPat_eq (m : Bool) : (p : Pat) → recordPat m p = (binders p).map (fun id => (id, m))
  | .wild => rfl
  | .bind id => rfl
  | .tuple es => by simp only [recordPat, binders]; exact recordPats_eq m es
  | .variant ds => by simp only [recordPat, binders]; exact recordPats_eq m ds
  | .struct fs => by simp only [recordPat, binders]; exact recordPats_eq m fs
  | .or l r => by simp only [recordPat, binders, List.map_append, recordPat_eq m l, recordPat_eq m r]

theorem recordPats_eq (m : Bool) : (ps : List Pat) → recordPats m ps = (bindersList ps).map (fun id => (id, m))
  | [] => rfl
  | p :: ps => by simp only [recordPats, bindersList, List.map_append, recordPat_eq m p, recordPats_eq m ps]
end

/-- `let` / `var` reaches every binding of the pattern, however deep (tuple, variant payload, named
    fields, struct pattern, both sides of an or-pattern): exactly the pattern's bindings are
    recorded, each with the statement's flag — so every name bound by a `let` pattern is immutable
    and every name bound by a `var` pattern is assignable. -/
theorem C20_pat_mutability (isMutable : Bool) (p : Pat) :
    recordPat isMutable p = (binders p).map (fun id => (id, isMutable)) :=
  recordPat_eq isMutable p

/-! ### which declaration the target means: the innermost visible one (Names model) -/

open Abra.Names in
/-- every statement form except `let` leaves the symbol table as it found it: what a block, a loop
    body, an if/else branch, a match arm or a lambda body declares ends with it -/
theorem resolveStmt_table {ν : Type} [DecidableEq ν] (w : World ν) (kids : Table ν) (st : SymTab ν)
    (s : Stmt ν) (h : ∀ x id, s ≠ .letv x id) : (resolveStmt w true kids st s).1 = st := by
  cases s <;> simp [resolveStmt] at h ⊢

open Abra.Names in
/-- The assignment target `x` written AFTER a scope-opening construct (block, while/for body, if/else,
    match, lambda) resolves exactly as it would without the construct: a same-named declaration
    inside the construct — whatever its mutability — never decides the verdict of an assignment
    outside of it. -/
theorem C20_target_after_scope {ν : Type} [DecidableEq ν] (w : World ν) (kids : Table ν) (st : SymTab ν)
    (s : Stmt ν) (h : ∀ y id, s ≠ .letv y id) (x : ν) :
    (resolveStmts w true kids st [s, .use x]).2 =
      (resolveStmt w true kids st s).2 ++ [Res.ofOption (lookup st x)] := by
  simp only [resolveStmts, resolveStmt_table w kids st s h, resolveStmt, List.append_nil]

/-! ### non-vacuity -/
example : oldDecision (.name .letB true) .add ≠ .crash := by decide
example : run [7, 10, 9] [] (assignCode .sub 1 3) = .ok [7, 7, 9] [] := by rfl
example : run [7, 10, 9] [] (assignCode .div 1 0) = .err .divZero := by rfl
example : (1 : Nat) < [7, 10, 9].length := by decide
example : (∀ y id, (Abra.Names.Stmt.block [Abra.Names.Stmt.letv 5 2] : Abra.Names.Stmt Nat) ≠ .letv y id) := by
  intro y id h; cases h
example : recordPat false (.tuple [.variant [.bind 1, .wild], .or (.bind 2) (.bind 2), .struct [.bind 3]]) =
    [(1, false), (2, false), (2, false), (3, false)] := by decide

end Abra.Assign
