import AbraModel.Assign
/-!
# C20 — immutable bindings cannot be assigned; assignment never crashes

Model: `Abra.Assign` — the checker's decision (`generate_constraints_stmt`, `record_pat_mutability`),
the compiler's reaction (`translate_stmt`), and the store it emits for a variable.
The table is over *all* targets (every binding form, captured or not, array element, struct field,
non-variable name) and all six assignment operators.

The property demands a diagnostic for a variable captured by a lambda.  The code has no notion of
"captured" in the checker and the compiler panics (D20, recorded finding): the full totality
statement is therefore false of the code as it is; its negation is proved with the witness and the
`_partial` theorem excludes exactly the captured variables the checker lets through.
-/
namespace Abra.Assign

/-- a `let` binding cannot be assigned, with any operator, captured or not -/
theorem C20_let_rejected (captured : Bool) (op : AOp) :
    assignDecision (.name .letB captured) op = .diagImmutable := by
  cases captured <;> rfl

/-- `var` bindings, array elements and struct fields are accepted, with every operator -/
theorem C20_var_accepted (op : AOp) :
    assignDecision (.name .varB false) op = .accept ∧
    assignDecision .elem op = .accept ∧ assignDecision .field op = .accept := by
  cases op <;> exact ⟨rfl, rfl, rfl⟩

/-- for-loop variables and match bindings are rejected with the diagnostic, parameters are accepted
    (both allowed by the property); assigning to a function name is a diagnostic -/
theorem C20_other_forms (op : AOp) :
    assignDecision (.name .forB false) op = .diagImmutable ∧
    assignDecision (.name .matchB false) op = .diagImmutable ∧
    assignDecision (.name .paramB false) op = .accept ∧
    assignDecision (.name .lamParamB false) op = .accept ∧
    assignDecision .nonVar op = .diagNotVar := by
  cases op <;> exact ⟨rfl, rfl, rfl, rfl, rfl⟩

/-- The accepted store takes effect: the code emitted for `x op= e` leaves in `x`'s slot the value
    the operator defines (exact 64-bit arithmetic of `Abra.I64`, C15) and touches nothing else, or
    stops with that operator's runtime error. -/
theorem C20_store_takes_effect (op : AOp) (idx : Nat) (rhs : Int) (frame : List Int)
    (h : idx < frame.length) :
    run frame [] (assignCode op idx rhs) =
      match newValue op frame[idx] rhs with
      | .val n => .ok (frame.set idx n) []
      | e => .err e := by
  have hget : frame[idx]? = some frame[idx] := List.getElem?_eq_getElem h
  have hcomp : ∀ a : Abra.I64.Op,
      run frame [] [.loadOffset idx, .push rhs, .arith a, .storeOffset idx] =
        match Abra.I64.apply a frame[idx] rhs with
        | .val n => .ok (frame.set idx n) []
        | e => .err e := by
    intro a
    cases hap : Abra.I64.apply a frame[idx] rhs <;> simp [run, step, hget, h, hap]
  cases op
  · simp [assignCode, AOp.arith?, newValue, run, step, h]
  all_goals exact hcomp _

-- OPEN (false of the code as it is, D20):
--   theorem C20_assign_total (t : Target) (op : AOp) : assignDecision t op ≠ .crash
--   theorem C20_capture_rejected (b : Base) (op : AOp) : assignDecision (.name b true) op = .diagImmutable
-- a variable captured by a lambda and declared with `var` (or a parameter) passes the checker and
-- the compiler panics on the missing offset-table entry.

/-- the witness: `var x = 10   let f = () -> { x = 3 }` -/
theorem C20_assign_total_counterexample :
    ¬ (∀ (t : Target) (op : AOp), assignDecision t op ≠ .crash) := by
  intro h; exact h (.name .varB true) .eq rfl

theorem C20_capture_rejected_counterexample :
    ¬ (∀ (b : Base) (op : AOp), assignDecision (.name b true) op = .diagImmutable) := by
  intro h; have := h .varB .eq; cases this

/-- Totality outside the recorded finding: unless the target is a captured variable that the checker
    accepts (`var`, parameter), every target × operator yields accept or a diagnostic. -/
theorem C20_assign_total_partial (t : Target) (op : AOp)
    (h : ∀ b, t = .name b true → patMutable b = some false) :
    assignDecision t op ≠ .crash := by
  cases t with
  | name b captured =>
    cases captured with
    | false => cases b <;> simp [assignDecision, checker, patMutable, compilerPanics]
    | true =>
      have := h b rfl
      cases b <;> simp_all [assignDecision, checker, patMutable]
  | elem => simp [assignDecision, checker, compilerPanics]
  | field => simp [assignDecision, checker, compilerPanics]
  | nonVar => simp [assignDecision, checker]

/-- and the crash happens *only* there -/
theorem C20_crash_iff (t : Target) (op : AOp) :
    assignDecision t op = .crash ↔ ∃ b, t = .name b true ∧ patMutable b ≠ some false := by
  cases t with
  | name b captured =>
    cases captured <;> cases b <;> simp [assignDecision, checker, patMutable, compilerPanics]
  | elem => simp [assignDecision, checker, compilerPanics]
  | field => simp [assignDecision, checker, compilerPanics]
  | nonVar => simp [assignDecision, checker]

/-! ### non-vacuity -/
example : (∀ b, Target.name Base.letB true = .name b true → patMutable b = some false) := by
  intro b h; cases h; rfl
example : run [7, 10, 9] [] (assignCode .sub 1 3) = .ok [7, 7, 9] [] := by rfl
example : run [7, 10, 9] [] (assignCode .div 1 0) = .err .divZero := by rfl
example : (1 : Nat) < [7, 10, 9].length := by decide

end Abra.Assign
