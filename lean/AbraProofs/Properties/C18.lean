import AbraProofs.Lemmas.CallOrder
/-!
# C18 — named and default arguments behave like the positional call

Model: `Abra.CallOrder` (`update_function_arg_info`, `calculate_func_call_order`,
`calculate_named_arg_order` of `statics/resolve.rs`).  The theorems quantify over *all* parameter
lists with pairwise distinct names (any name type, any arity, any subset of defaults) and *all*
call shapes (any sequence of positional / named arguments, any payload).

`WellFormed` (in `Lemmas/CallOrder.lean`) is the property's own notion of a correct call and
`specEntry` the argument the equivalent positional call passes for parameter `i`; neither mentions
the decision loop or the slot vector.
-/
namespace Abra.CallOrder

variable {ν : Type} [DecidableEq ν] {α : Type}

/-- A call is accepted (no diagnostic) exactly when it is well-formed: positional arguments come
    first and are no more than the parameters, every name is a parameter, none is given twice by
    name or by name and position, and every parameter without a default is supplied — for
    parameter lists whose names are pairwise distinct (hypothesis `hnd`).  `decide` is a total
    function with no crash outcome, so under that hypothesis every misuse yields a diagnostic
    (`C18_misuse_rejected`). -/
theorem C18_accept_iff_wellformed (ps : List (Param ν)) (args : List (Arg ν α))
    (hnd : (ps.map (·.name)).Nodup) :
    (decide ps args).diags = [] ↔ WellFormed ps args := by
  have hok := mkInfo_ok ps hnd
  obtain ⟨hm, hsur, hd, _⟩ := loop_final ps args _ hok
  unfold decide
  rw [decideInfo_diags_nil, hd, hsur, List.eq_nil_iff_forall_not_mem]
  simp only [hm]
  have hnames := namedNames_dropWhile args
  constructor
  · rintro ⟨hk, hmiss, hall, hnodup⟩
    refine ⟨?_, ?_, ?_, hnodup, ?_, ?_⟩
    · intro a ha
      obtain ⟨n, hn, _⟩ := hall a ha
      simp [hn]
    · rcases hk with hk | hk
      · omega
      · exact hk
    · intro n hn
      rw [hnames] at hn
      obtain ⟨a, ha, han⟩ := List.mem_filterMap.1 hn
      obtain ⟨m, hm1, hm2, _⟩ := hall a ha
      rw [hm1] at han; cases han; exact hm2
    · intro n hn
      rw [hnames] at hn
      obtain ⟨a, ha, han⟩ := List.mem_filterMap.1 hn
      obtain ⟨m, hm1, _, hm3⟩ := hall a ha
      rw [hm1] at han; cases han; exact hm3
    · intro p hp hdef
      have hpps : p ∈ ps := List.mem_of_mem_drop hp
      have hreq : p.name ∈ (mkInfo false ps).required := (hok.req _).2 ⟨p, hpps, rfl, hdef⟩
      have hnt : p.name ∉ (ps.map (·.name)).take (posCount args) := by
        -- names are pairwise distinct, so a name of the dropped part is not in the taken part
        have hsplit : ps.map (·.name) = (ps.map (·.name)).take (posCount args) ++ (ps.map (·.name)).drop (posCount args) :=
          (List.take_append_drop _ _).symm
        rw [hsplit] at hnd
        have hdis := (List.nodup_append.1 hnd).2.2
        intro hin
        refine hdis _ hin _ ?_ rfl
        rw [← List.map_drop]; exact List.mem_map.2 ⟨p, hp, rfl⟩
      have := hmiss p.name
      simp only [not_and, Decidable.not_not] at this
      exact this hreq hnt
  · intro wf
    refine ⟨Or.inr wf.pos_le, ?_, ?_, wf.named_once⟩
    · intro x ⟨hreq, hnt, hnn⟩
      obtain ⟨p, hp, hpn, hpd⟩ := (hok.req x).1 hreq
      have hsplit : ps = ps.take (posCount args) ++ ps.drop (posCount args) := (List.take_append_drop _ _).symm
      rw [hsplit] at hp
      rcases List.mem_append.1 hp with hp | hp
      · apply hnt
        rw [← List.map_take, ← hpn]; exact List.mem_map.2 ⟨p, hp, rfl⟩
      · exact hnn (hpn ▸ wf.required_given p hp hpd)
    · intro a ha
      have hne := wf.pos_first a ha
      cases han : a.name with
      | none => exact absurd han hne
      | some n =>
        have hn : n ∈ namedNames args := by
          rw [hnames]; exact List.mem_filterMap.2 ⟨a, ha, han⟩
        exact ⟨n, rfl, wf.names_known n hn, wf.not_both n hn⟩

/-- Misuse is a diagnostic: a call that is not well-formed is never accepted. -/
theorem C18_misuse_rejected (ps : List (Param ν)) (args : List (Arg ν α))
    (hnd : (ps.map (·.name)).Nodup) (h : ¬ WellFormed ps args) :
    (decide ps args).diags ≠ [] :=
  fun hd => h ((C18_accept_iff_wellformed ps args hnd).1 hd)

/-- An accepted call emits exactly one entry per parameter, in parameter order, and entry `i` is what
    the equivalent positional call passes (`specEntry`): the positional argument `i`, else the
    argument named like parameter `i`, else default `i`. -/
theorem C18_reorder_correct (ps : List (Param ν)) (args : List (Arg ν α))
    (hnd : (ps.map (·.name)).Nodup) (hacc : (decide ps args).diags = []) :
    ∃ l, (decide ps args).order = some l ∧ l.length = ps.length ∧
      ∀ i, i < ps.length → l[i]? = specEntry ps args i := by
  have wf := (C18_accept_iff_wellformed ps args hnd).1 hacc
  have hok := mkInfo_ok ps hnd
  obtain ⟨_, _, _, hu⟩ := loop_final ps args _ hok
  unfold decide at hacc ⊢
  obtain ⟨hsur, hmiss, hdiag⟩ := (decideInfo_diags_nil _ _).1 hacc
  have hunk := hu hdiag
  have hord : (decideInfo (mkInfo false ps) args).order = some (reorder (mkInfo false ps) args) := by
    simp only [decideInfo, hsur, hmiss, hunk]; simp
  let f : Nat → Entry α := fun j => match specEntry ps args j with
    | some e => e
    | none => Entry.dflt j
  have hslots : ∀ j, j < ps.length →
      (fillDefaults (mkInfo false ps).defaults
        (placeAll (mkInfo false ps) 0 args (List.replicate (mkInfo false ps).nargs none)))[j]? = some (some (f j)) := by
    intro j hj
    obtain ⟨e, he1, he2⟩ := slots_spec ps args _ hok hnd wf j hj
    rw [he2]; simp [f, he1]
  have hl : reorder (mkInfo false ps) args = (List.range ps.length).map f := by
    unfold reorder
    exact filterMap_id_of_getElem? _ _ f
      (by rw [fillDefaults_length, placeAll_length]; simp [hok.nargs]) hslots
  refine ⟨_, hord, by rw [hl]; simp, ?_⟩
  intro i hi
  obtain ⟨e, he1, _⟩ := slots_spec ps args _ hok hnd wf i hi
  rw [hl]; simp [hi, f, he1]

/-- Member functions: a leading `self` parameter is skipped, the rest is decided like a free
    function (the receiver is passed separately, first). -/
theorem C18_method_skips_self (self : ν) (d : Bool) (ps : List (Param ν)) (args : List (Arg ν α)) :
    decideMethod self (⟨self, d⟩ :: ps) args = decide ps args := by
  simp [decideMethod, decide, mkInfo]

/-! ### non-vacuity: concrete accepted / rejected calls of `f(a, b = …, c = …)` -/

private def ps3 : List (Param Nat) := [⟨0, false⟩, ⟨1, true⟩, ⟨2, true⟩]
private def call1 : List (Arg Nat Nat) := [⟨none, 10⟩, ⟨some 2, 11⟩]          -- f(10, c = 11)
private def call2 : List (Arg Nat Nat) := [⟨some 2, 10⟩, ⟨some 0, 11⟩]        -- f(c = 10, a = 11)
private def call3 : List (Arg Nat Nat) := [⟨some 1, 10⟩, ⟨none, 11⟩]          -- f(b = 10, 11)

example : (ps3.map (·.name)).Nodup := by decide
example : (decide ps3 call1).diags = [] := by decide
example : (decide ps3 call1).order = some [.arg 10, .dflt 1, .arg 11] := by decide
example : (decide ps3 call2).order = some [.arg 11, .dflt 1, .arg 10] := by decide
example : (decide ps3 call3).diags = [.posAfter, .missing] := by decide
example : WellFormed ps3 call2 := (C18_accept_iff_wellformed ps3 call2 (by decide)).1 (by decide)
example : ¬ WellFormed ps3 call3 := fun h =>
  absurd ((C18_accept_iff_wellformed ps3 call3 (by decide)).2 h) (by decide)

end Abra.CallOrder
