import AbraModel.Lib.Render
/-!
# C28 — values are rendered as text exactly as documented

`render` below is the specification, written from the documentation (book: `println([1,2,3])` prints
`[ 1, 2, 3 ]`, strings are spliced verbatim, `"got " .. arr` is `"got [ 1, 2, 3 ]"`) and the property
statement: ints in decimal, `true`/`false`, `nil`, strings verbatim, `[ a, b ]`, `(a, b)`, `some(x)`/`none`,
`ok(x)`/`err(e)`, recursively.  The documentation is silent about the empty array; the code prints
`[  ]` (two spaces) and the specification follows the code there — recorded in the evidence.
The model `strV` (`AbraModel/Lib/Render.lean`) is the prelude's `ToString` code.
The theorems hold for every value of the nested built-in types, of any depth and size.
-/
namespace Abra.Lib.Render

/-- `a, b, c`: the texts separated by `", "` -/
def joinComma : List String → String
  | [] => ""
  | [a] => a
  | a :: b :: rest => a ++ ", " ++ joinComma (b :: rest)

mutual
  /-- the documented text of a value -/
  def render : Val → String
    | .int n => toString n
    | .bool b => if b then "true" else "false"
    | .nil => "nil"
    | .str s => s
    | .arr xs => "[ " ++ joinComma (renderAll xs) ++ " ]"
    | .tup2 a b => "(" ++ joinComma [render a, render b] ++ ")"
    | .tup3 a b c => "(" ++ joinComma [render a, render b, render c] ++ ")"
    | .tup4 a b c d => "(" ++ joinComma [render a, render b, render c, render d] ++ ")"
    | .some x => "some(" ++ render x ++ ")"
    | .none => "none"
    | .ok x => "ok(" ++ render x ++ ")"
    | .err x => "err(" ++ render x ++ ")"
    | .ext t => t
  def renderAll : List Val → List String
    | [] => []
    | x :: xs => render x :: renderAll xs
end

theorem renderAll_eq_map (xs : List Val) : renderAll xs = xs.map render := by
  induction xs with
  | nil => simp [renderAll]
  | cons x xs ih => simp [renderAll, ih]

mutual
  /-- `ToString.str` produces exactly the documented text, for every value. -/
  theorem C28_str_eq_render : ∀ v : Val, strV v = render v
    | .int n => by simp [strV, render, stringFromInt]
    | .bool b => by simp [strV, render]
    | .nil => by simp [strV, render]
    | .str s => by simp [strV, render]
    | .arr xs => by simp only [strV, render, C28_helper_eq_join xs, String.append_assoc]
    | .tup2 a b => by
      simp only [strV, render, joinComma, C28_str_eq_render a, C28_str_eq_render b, String.append_assoc]
    | .tup3 a b c => by
      simp only [strV, render, joinComma, C28_str_eq_render a, C28_str_eq_render b, C28_str_eq_render c,
        String.append_assoc]
    | .tup4 a b c d => by
      simp only [strV, render, joinComma, C28_str_eq_render a, C28_str_eq_render b, C28_str_eq_render c,
        C28_str_eq_render d, String.append_assoc]
    | .some x => by simp only [strV, render, C28_str_eq_render x, String.append_assoc]
    | .none => by simp [strV, render]
    | .ok x => by simp only [strV, render, C28_str_eq_render x, String.append_assoc]
    | .err x => by simp only [strV, render, C28_str_eq_render x, String.append_assoc]
    | .ext t => by simp [strV, render]
  /-- `array_to_string_helper(arr, idx)` is the `", "`-separated list of the texts of `arr[idx ..]`. -/
  theorem C28_helper_eq_join : ∀ xs : List Val, helper xs = joinComma (renderAll xs)
    | [] => by simp [helper, renderAll, joinComma]
    | [x] => by simp [helper, renderAll, joinComma, C28_str_eq_render x]
    | x :: y :: rest => by
      have ih := C28_helper_eq_join (y :: rest)
      simp only [renderAll] at ih
      simp only [helper, renderAll, joinComma, C28_str_eq_render x, ih, String.append_assoc]
end

/-- `a .. b` renders as the text of `a` followed by the text of `b`. -/
theorem C28_format_append_spec (a b : Val) : formatAppend a b = render a ++ render b := by
  simp [formatAppend, C28_str_eq_render]

/-- `print(x)` emits the documented text, `println(x)` the text followed by a newline. -/
theorem C28_print_spec (x : Val) : printed x = render x ∧ printedLn x = render x ++ "\n" := by
  simp [printed, printedLn, formatAppend, strV, C28_str_eq_render]

/-- arrays: `[ a, b, c ]` with the element texts separated by `", "`; the empty array is `[  ]`. -/
theorem C28_array_shape (xs : List Val) :
    strV (.arr xs) = "[ " ++ joinComma (xs.map render) ++ " ]" ∧ strV (.arr []) = "[  ]" := by
  constructor
  · rw [C28_str_eq_render, render, renderAll_eq_map]
  · simp [strV, helper]

/-- strings are spliced verbatim, also inside containers (no quotes, no escaping). -/
theorem C28_string_verbatim (s : String) : strV (.str s) = s ∧ strV (.some (.str s)) = "some(" ++ s ++ ")" := by
  constructor
  · simp [strV]
  · simp [strV, String.append_assoc]

theorem foldl_formatAppend (vs : List Val) (acc : String) :
    vs.foldl (fun acc w => formatAppend (.str acc) w) acc = acc ++ String.join (vs.map render) := by
  induction vs generalizing acc with
  | nil => simp
  | cons w vs ih =>
    rw [List.foldl_cons, ih, C28_format_append_spec]
    simp only [render, List.map_cons, String.join_cons, String.append_assoc]

/-- a chain `v1 .. v2 .. … .. vn` renders as the texts of its operands one after the other -/
theorem C28_format_chain_spec (vs : List Val) : formatChain vs = String.join (vs.map render) := by
  cases vs with
  | nil => simp [formatChain]
  | cons v vs => simp only [formatChain, foldl_formatAppend, C28_str_eq_render, List.map_cons, String.join_cons]

/-- the documented text of one rendering statement -/
def Stmt.spec : Stmt → String
  | .print v => render v
  | .println v => render v ++ "\n"
  | .str v => render v
  | .chain vs => String.join (vs.map render)
  | .lit s => s

/-- In the model a sequence of rendering statements (`print`, `println`, `ToString.str`, `..` in any mix, over the
    same values, any number of times) prints, statement by statement, the documented text of that statement's
    operands.  The model has no store — its values are immutable terms — so this is what "rendering is pure"
    means at the model level: the text of the k-th rendering cannot depend on earlier renderings.  That the
    implementation (which does have a heap of shared string objects) behaves like this store-free model is not
    proved here; it is what the purity stream of the correspondence checks on every run. -/
theorem C28_rendering_is_pure (l : List Stmt) : emitAll l = String.join (l.map Stmt.spec) := by
  unfold emitAll
  congr 1
  apply List.map_congr_left
  intro s _
  cases s with
  | print v => exact (C28_print_spec v).1
  | println v => exact (C28_print_spec v).2
  | str v => exact C28_str_eq_render v
  | chain vs => exact C28_format_chain_spec vs
  | lit s => rfl

/-- An int renders as its canonical decimal numeral: the sign first (only for negative numbers), then the
    digits of the magnitude — decimal digits only, denoting exactly the magnitude, and as few of them as the
    magnitude needs (`len ≤ k ↔ m < 10^k`, so 999999999999999 has 15 digits and 10^15 has 16: a leading `0`
    is impossible, and so is a dropped digit). -/
theorem C28_int_decimal (m : Nat) :
    render (.int (Int.ofNat m)) = m.repr ∧
    render (.int (Int.negSucc m)) = "-" ++ (m + 1).repr ∧
    (∀ c ∈ m.repr.toList, c.isDigit = true) ∧
    Nat.ofDigitChars 10 m.repr.toList 0 = m ∧
    (∀ k, 0 < k → (m.repr.length ≤ k ↔ m < 10 ^ k)) := by
  refine ⟨rfl, rfl, ?_, ?_, fun k hk => Nat.length_repr_le_iff hk⟩
  · intro c hc
    rw [Nat.toList_repr] at hc
    exact Nat.isDigit_of_mem_toDigits (by decide) (by decide) hc
  · rw [Nat.toList_repr]; exact Nat.ofDigitChars_ten_toDigits

/-- values of other types (floats, user types and channels with their own `ToString`) are spliced into the
    built-in containers with exactly the text their own `str` yields -/
theorem C28_foreign_leaf_spliced (t : String) :
    strV (.arr [.ext t, .ext t]) = "[ " ++ t ++ ", " ++ t ++ " ]" ∧ strV (.some (.tup2 (.ext t) (.bool true))) = "some(" ++ ("(" ++ t ++ ", " ++ "true" ++ ")") ++ ")" := by
  constructor <;> simp [strV, helper, String.append_assoc]

-- the statement is about concrete text: a nested sample evaluated through the model
example : strV (.arr [.tup2 (.int 1) (.str "a, b"), .tup2 (.int (-2)) (.str "")]) = "[ (1, a, b), (-2, ) ]" := by
  simp [strV, helper, stringFromInt]; rfl
example : strV (.ok (.some (.arr [.bool true, .bool false]))) = "ok(some([ true, false ]))" := by
  simp [strV, helper]

end Abra.Lib.Render
