import AbraProofs.Lemmas.GCCycle
import AbraProofs.Lemmas.GCProgress
import AbraProofs.Lemmas.GCPacingBound
/-!
# C07 — unreachable memory is reclaimed; a dropped runtime frees everything

Model: `Abra.GC` (M5) for reclamation, `Abra.GCP` (M5p: object sizes and the counters `heap_size`,
`last_gc_heap_size`, `gc_debt` on top of M5) for the byte arithmetic of the pacing and the heap bound, and an
allocation ledger for `Drop`.
-/
namespace Abra.GC

/-- A run inside one collection cycle, carrying the ghost set "reachable when the cycle started, or
    allocated since".  Collector increments are taken only while a cycle is in progress (a new cycle
    is a new statement); mutator steps are arbitrary contract-abiding VM instructions. -/
inductive CycleRun : (Nat → Prop) → St → (Nat → Prop) → St → Prop
  | refl (L : Nat → Prop) (σ : St) : CycleRun L σ L σ
  | gc {L L' : Nat → Prop} {σ σ' : St} :
      CycleRun L σ L' σ' → σ'.phase ≠ .idle → CycleRun L σ L' (gcStep σ')
  | mutator {L L' : Nat → Prop} {σ σ' σ'' : St} {new pushed : List Nat} :
      CycleRun L σ L' σ' → MutatorOK σ' σ'' new pushed →
      CycleRun L σ (fun a => L' a ∨ a ∈ new) σ''

theorem cycleRun_inv {L L' : Nat → Prop} {σ σ' : St} (r : CycleRun L σ L' σ') (hi : Inv σ)
    (hl : InvL σ L) (hidle0 : σ.phase = .idle → ∀ a ∈ σ.heap, L a) :
    Inv σ' ∧ InvL σ' L' ∧ (σ'.phase = .idle → ∀ a ∈ σ'.heap, L' a) := by
  induction r with
  | refl => exact ⟨hi, hl, hidle0⟩
  | gc _ hne ih =>
    obtain ⟨i1, l1, _⟩ := ih hi hl hidle0
    exact ⟨gcStep_inv i1, gcStep_invL i1 l1, fun hid => gcStep_idleL i1 l1 hne hid⟩
  | mutator _ m ih =>
    obtain ⟨i1, l1, id1⟩ := ih hi hl hidle0
    refine ⟨mutator_inv i1 m, mutator_invL i1 m l1, ?_⟩
    intro hid a ha
    have hp := hid
    rw [m.phase] at hp
    have hd := i1
    unfold Inv at hd; rw [hp] at hd
    have hd' := hd.done
    unfold St.heap at ha
    rw [m.done, m.todo, hd'] at ha
    simp only [List.nil_append] at ha
    rcases List.mem_append.1 ha with h1 | h1
    · exact Or.inl (id1 hp a (by simp [St.heap, h1]))
    · exact Or.inr h1

/-- **C07, reclamation.** Start a collection cycle in any idle state and let it run to completion under
    any interleaving with the program: every object still allocated when the collector is idle again
    was reachable when the cycle started or was allocated during the cycle.  Hence an object that is
    unreachable when a cycle starts is reclaimed by that cycle, and garbage created during a cycle
    survives at most until the end of the next one. -/
theorem C07_cycle_complete {σ0 σ : St} {L' : Nat → Prop} (h0 : Inv σ0) (hp : σ0.phase = .idle)
    (r : CycleRun (Reach σ0) (gcStart σ0) L' σ) (hidle : σ.phase = .idle) :
    ∀ a ∈ σ.heap, L' a := by
  have hstart : InvL (gcStart σ0) (Reach σ0) := by
    have hI : InvI σ0 := by unfold Inv at h0; rw [hp] at h0; exact h0
    have hroots : (gcStart σ0).roots = σ0.roots := by
      have := gcStep_roots σ0; unfold gcStep at this; rw [hp] at this; exact this
    have hch : ∀ x, (gcStart σ0).children x = σ0.children x := by
      intro x; have := gcStep_children σ0 x; unfold gcStep at this; rw [hp] at this; exact this
    refine ⟨fun a ha => reach_congr hroots hch a ha, ?_, ?_, ?_⟩
    · intro a _ hl c hc; rw [hch] at hc; exact Reach.step hl hc
    · intro a ha hm
      unfold gcStart at ha hm; rw [hp] at ha hm; simp only at ha hm
      have hm' : (markAll σ0 σ0.roots).marked a = true := hm
      rw [markAll_marked] at hm'
      have ha' : a ∈ σ0.todo := by simpa using ha
      rw [hI.white a ha'] at hm'
      exact Reach.root (by simpa using hm')
    · intro a ha
      unfold gcStart at ha; rw [hp] at ha; simp only at ha
      have : a ∈ (markAll σ0 σ0.roots).done := ha
      rw [markAll_done, hI.done] at this; simp at this
  have hphase : (gcStart σ0).phase ≠ .idle := by
    unfold gcStart; rw [hp]; simp
  have hstartInv : Inv (gcStart σ0) := gcStart_inv h0
  exact (cycleRun_inv r hstartInv hstart (fun h => absurd h hphase)).2.2 hidle

/-- the quiet case: if the program does nothing, a full cycle leaves exactly reachable objects -/
theorem C07_quiet_cycle_leaves_only_reachable {σ0 σ : St} (h0 : Inv σ0) (hp : σ0.phase = .idle)
    (r : CycleRun (Reach σ0) (gcStart σ0) (Reach σ0) σ) (hidle : σ.phase = .idle) :
    ∀ a ∈ σ.heap, Reach σ0 a :=
  C07_cycle_complete h0 hp r hidle

/-! ### progress -/

/-- `n` collector increments in a row (the program is quiet) -/
def gcIter : Nat → St → St
  | 0, σ => σ
  | n + 1, σ => gcIter n (gcStep σ)

/-- **C07, progress.** While a cycle is running, every collector increment strictly decreases the
    remaining work `mu` (marking: 2·white + gray + heap + 2; sweeping: unswept + 1). -/
theorem C07_collector_progress {σ : St} (h : Inv σ) (hne : σ.phase ≠ .idle) :
    mu (gcStep σ) < mu σ :=
  gcStep_measure h hne

/-- **C07, a cycle terminates.** From any state of a running cycle, at most `mu σ` increments
    (≤ 3·heap + gray + 2) bring the collector back to Idle when the program does not allocate. -/
theorem C07_quiet_cycle_terminates : ∀ (k : Nat) (σ : St), Inv σ → mu σ ≤ k →
    ∃ n, n ≤ mu σ ∧ (gcIter n σ).phase = .idle := by
  intro k
  induction k with
  | zero =>
    intro σ _ hk
    refine ⟨0, Nat.zero_le _, ?_⟩
    show σ.phase = .idle
    cases hp : σ.phase with
    | idle => rfl
    | marking => unfold mu at hk; rw [hp] at hk; simp at hk
    | sweeping => unfold mu at hk; rw [hp] at hk; simp at hk
  | succ k ih =>
    intro σ hi hk
    by_cases hp : σ.phase = .idle
    · exact ⟨0, Nat.zero_le _, hp⟩
    · have hlt := gcStep_measure hi hp
      obtain ⟨n, hn, hidle⟩ := ih (gcStep σ) (gcStep_inv hi) (by omega)
      exact ⟨n + 1, by omega, hidle⟩

/-! ### the allocation ledger and `Drop` -/

/-- who owns the allocations of one runtime: each green thread owns its `heap_list`; the shared
    read-only part owns the static strings -/
structure Ledger where
  threads : List (List Nat)
  statics : List Nat

def Ledger.live (l : Ledger) : List Nat := l.threads.flatten ++ l.statics

/-- `Drop for VmGreenThread` deallocates every `heap_list` entry; `Drop for VmSharedReadonly`
    deallocates every static string; dropping the runtime drops all of them -/
def dropRuntime (l : Ledger) : List Nat × Ledger :=
  (l.threads.flatten ++ l.statics, { threads := [], statics := [] })

/-- **C07, drop.** Dropping a runtime frees every allocation it owned exactly once and leaves none. -/
theorem C07_drop_frees_all (l : Ledger) :
    (dropRuntime l).1 = l.live ∧ (dropRuntime l).2.live = [] := by
  simp [dropRuntime, Ledger.live]

/-- non-vacuity: a cycle run exists (start, and one increment) -/
example : CycleRun (Reach init) (gcStart init) (Reach init) (gcStep (gcStart init)) :=
  CycleRun.gc (CycleRun.refl _ _) (by decide)

end Abra.GC

/-! ## The pacing: when cycles start, how much an increment does, hence the peak heap -/
namespace Abra.GCP
open Abra.GC

/-- **C07, the debt covers the heap.** `heap_size ≤ gc_debt` (with `heap_size` the sum of the object sizes, a
    duplicate-free gray stack and the invariant of M5) holds for a fresh thread and is preserved by every call
    of `maybe_gc` (whatever the budget charge `leak`) and by every VM instruction that respects the contract. -/
theorem C07_debt_covers_heap :
    PInv pinit ∧ (∀ p leak, PInv p → PInv (maybeGc p leak)) ∧
    (∀ p p' new pushed, PInv p → PMutatorOK p p' new pushed → PInv p') ∧
    (∀ p, PInv p → p.heapBytes = sumSize p.size p.g.heap ∧ p.heapBytes ≤ p.debt) :=
  ⟨pinit_pinv, fun _ leak h => maybeGc_pinv leak h, fun _ _ _ _ h m => pmut_pinv h m,
   fun _ h => ⟨h.acct, h.debt⟩⟩

theorem finishMark_sweeps {σ : St} (hg : σ.gray = []) (hr : ∀ r ∈ σ.roots, σ.marked r = true) :
    (finishMark σ).phase = .sweeping := by
  unfold finishMark
  rw [hg]; simp only
  cases hg' : (markAll σ σ.roots).gray with
  | nil => rfl
  | cons x g' =>
    exfalso
    have hx : x ∈ (markAll σ σ.roots).gray := by rw [hg']; simp
    rcases markAll_gray_mem _ _ _ hx with h1 | ⟨h1, h2⟩
    · rw [hg] at h1; simp at h1
    · rw [hr x h1] at h2; cases h2

/-- **C07, one increment covers the heap.** Under the invariant (debt ≥ heap), with no foreign charge or one
    that leaves the slice above the heap size: a marking increment runs `process_gray` until the gray stack is
    empty — and enters the sweep phase unless the root rescan finds a root that is still unmarked; a sweeping
    increment reaches the end of the heap list: the collector is idle again and `last_gc_heap_size` is the new
    `heap_size`, the sum of the sizes of the survivors.  (Objects of size 0 and the saturating subtraction do
    not matter: the slice `2 * gc_debt` exceeds the bytes of all gray and white objects together.) -/
theorem C07_increment_covers_heap {p : PSt} {leak : Nat} (h : PInv p) (hl : LeakOK p leak) :
    (p.g.phase = .marking →
      (markLoop p.size (markFuel p.g) (stepFactor * p.debt - leak) p.g).gray = [] ∧
      ((∀ r ∈ p.g.roots, (markLoop p.size (markFuel p.g) (stepFactor * p.debt - leak) p.g).marked r = true) →
        (maybeGc p leak).g.phase = .sweeping) ∧
      (maybeGc p leak).g.phase ≠ .idle ∧ (maybeGc p leak).heapBytes = p.heapBytes) ∧
    (p.g.phase = .sweeping →
      (maybeGc p leak).g.phase = .idle ∧ (maybeGc p leak).lastGc = (maybeGc p leak).heapBytes ∧
      (maybeGc p leak).heapBytes = sumSize (maybeGc p leak).size (maybeGc p leak).g.heap ∧
      (maybeGc p leak).heapBytes ≤ p.heapBytes) := by
  constructor
  · intro hp
    have hc := leak_cover h (by rw [hp]; simp) hl
    have hm : maybeGc p leak = markIncr p leak := by unfold maybeGc; rw [hp]
    have h1 := markIncr_cover (L := fun _ => True) leak h hp (invL_top _) hc
    have h2 := markIncr_spec (L := fun _ => True) leak h hp (invL_top _)
    refine ⟨h1.1, ?_, by rw [hm]; exact h2.2.2.1, by rw [hm]; rfl⟩
    intro hr
    rw [hm, markIncr_g]
    apply finishMark_sweeps h1.1
    intro r hr'
    rw [(markLoop_ext _ _ _ _).roots] at hr'
    exact hr r hr'
  · intro hp
    have hm : maybeGc p leak = sweepIncr p := by unfold maybeGc; rw [hp]
    have h1 := sweepIncr_cover (L := fun _ => True) h hp (invL_top _)
    have h2 := sweepIncr_spec (L := fun _ => True) h hp (invL_top _)
    rw [hm]
    exact ⟨h1.1, h1.2.1, h2.1.acct, h2.2.2.1⟩

theorem sweepIncr_idle_heap {p : PSt} {L : Nat → Prop} (h : PInv p) (hp : p.g.phase = .sweeping)
    (hL : InvL p.g L) (hid : (sweepIncr p).g.phase = .idle) : ∀ a ∈ (sweepIncr p).g.heap, L a := by
  have hsw := (sweepLoop_spec (L := L) p.g.todo.length 0 (stepFactor * p.debt) p (swInv_of h hp hL)).1
  revert hid
  unfold sweepIncr
  simp only
  cases ht : (sweepLoop p.g.todo.length 0 (stepFactor * p.debt) p).g.todo with
  | cons a r =>
    simp only
    intro hid; rw [hsw.phase] at hid; cases hid
  | nil =>
    simp only
    intro _ a ha
    unfold sweepTail at ha
    rw [ht] at ha
    simp only [St.heap, List.nil_append] at ha
    exact hsw.invL.doneL a ha

/-- A run inside one collection cycle of the pacing model, counting the calls of `maybe_gc` (each with an
    acceptable foreign charge) and carrying the ghost set; mutator steps are arbitrary contract-abiding VM
    instructions (and host calls). -/
inductive PCycleRun : (Nat → Prop) → PSt → (Nat → Prop) → PSt → Nat → Prop
  | refl (L : Nat → Prop) (p : PSt) : PCycleRun L p L p 0
  | gc {L L' : Nat → Prop} {p q : PSt} {n : Nat} (leak : Nat) :
      PCycleRun L p L' q n → q.g.phase ≠ .idle → LeakOK q leak → PCycleRun L p L' (maybeGc q leak) (n + 1)
  | mutator {L L' : Nat → Prop} {p q q' : PSt} {n : Nat} {new pushed : List Nat} :
      PCycleRun L p L' q n → PMutatorOK q q' new pushed →
      PCycleRun L p (fun a => L' a ∨ a ∈ new) q' n

theorem pcycleRun_inv {L L' : Nat → Prop} {ps q : PSt} {n c : Nat} (r : PCycleRun L ps L' q n)
    (h1 : PInv ps) (h2 : InvL ps.g L) (h3 : rho ps L ≤ c) (h4 : ps.g.phase ≠ .idle) :
    PInv q ∧ InvL q.g L' ∧ n + rho q L' ≤ c ∧ (q.g.phase = .idle → ∀ a ∈ q.g.heap, L' a) := by
  induction r with
  | refl => exact ⟨h1, h2, by omega, fun hid => absurd hid h4⟩
  | gc leak _ hne hl ih =>
    obtain ⟨i1, i2, i3, _⟩ := ih h1 h2 h3 h4
    obtain ⟨g1, g2, g3, _⟩ := gc_cycle_step i1 hne i2 hl
    refine ⟨g1, g2, by omega, ?_⟩
    intro hid a ha
    rename_i _ q0 _ _ _ _
    cases hq : q0.g.phase with
    | idle => exact absurd hq hne
    | marking =>
      have hm : maybeGc q0 leak = markIncr q0 leak := by unfold maybeGc; rw [hq]
      rw [hm] at hid
      exact absurd hid (markIncr_spec (L := fun _ => True) leak i1 hq (invL_top _)).2.2.1
    | sweeping =>
      have hm : maybeGc q0 leak = sweepIncr q0 := by unfold maybeGc; rw [hq]
      rw [hm] at ha hid
      exact sweepIncr_idle_heap i1 hq i2 hid a ha
  | mutator _ m ih =>
    obtain ⟨i1, i2, i3, i4⟩ := ih h1 h2 h3 h4
    refine ⟨pmut_pinv i1 m, mutator_invL i1.inv m.graph i2, ?_, ?_⟩
    · rename_i L1 _ _ _ _ _ _ _
      have := pmut_rho L1 m; omega
    · intro hid a ha
      have hp' := hid
      rw [m.graph.phase] at hp'
      rw [pmut_heap m] at ha
      rcases List.mem_append.1 ha with h1 | h1
      · exact Or.inl (i4 hp' a h1)
      · exact Or.inr h1

/-- **C07, a cycle spans a bounded number of VM steps.** If the call of `maybe_gc` before step `t` starts a
    cycle in state `p0`, then under any interleaving with the program at most `reachCount p0 + 2` further calls
    are made while the collector is not idle (one marking increment per white object that was reachable at the
    start and that the program moves onto the stack behind the collector's back, plus the increment that ends
    marking, plus one sweep increment): the collector is idle again by step `t + reachCount p0 + 3` at the
    latest.  Moreover what is then allocated was reachable at the start or allocated since.  (The three-call
    case is the separate theorem `C07_quiet_cycle_three_steps`, proved for collector calls with no program
    step in between.) -/
theorem C07_cycle_spans_k_steps {p0 q : PSt} {L' : Nat → Prop} {n leak0 : Nat} (h0 : PInv p0)
    (hp : p0.g.phase = .idle) (hgt : p0.heapBytes > p0.lastGc * pauseFactor)
    (r : PCycleRun (Reach p0.g) (maybeGc p0 leak0) L' q n) :
    n + rho q L' ≤ reachCount p0 + 2 ∧ (q.g.phase ≠ .idle → n ≤ reachCount p0 + 1) ∧
    (q.g.phase = .idle → ∀ a ∈ q.g.heap, L' a) := by
  have hs := gc_start_step leak0 h0 hp hgt
  have key := pcycleRun_inv r hs.1 hs.2.2.1 hs.2.2.2.2.2.2 (by rw [hs.2.1]; simp)
  refine ⟨key.2.2.1, ?_, key.2.2.2⟩
  intro hne
  have := rho_pos L' hne
  have := key.2.2.1
  omega

/-- **C07, the common case: three calls.** When the threshold is exceeded in an idle state and the program does
    not run in between, the cycle is: start, one marking increment, one sweeping increment — the collector is
    idle again after three calls of `maybe_gc`.  (With program steps in between the same holds as long as no
    unmarked root appears; that generalisation is NOT proved here, it is what the harness observes: 1261 of
    1290 real cycles.) -/
theorem C07_quiet_cycle_three_steps {p : PSt} (h : PInv p) (hp : p.g.phase = .idle)
    (hgt : p.heapBytes > p.lastGc * pauseFactor) :
    (maybeGc (maybeGc (maybeGc p 0) 0) 0).g.phase = .idle ∧
    (maybeGc (maybeGc (maybeGc p 0) 0) 0).lastGc = (maybeGc (maybeGc (maybeGc p 0) 0) 0).heapBytes := by
  have hs := gc_start_step 0 h hp hgt
  have hm : maybeGc p 0 = { p with g := gcStart p.g } := by
    unfold maybeGc; rw [hp]; simp only [hgt, if_true]
  have h1 := (C07_increment_covers_heap (leak := 0) hs.1 (Or.inl rfl)).1 hs.2.1
  have hroots : ∀ r ∈ (maybeGc p 0).g.roots, (maybeGc p 0).g.marked r = true := by
    intro r hr
    rw [hm] at hr ⊢
    have hr' : r ∈ (gcStart p.g).roots := hr
    show (gcStart p.g).marked r = true
    unfold gcStart at hr' ⊢
    rw [hp] at hr' ⊢
    simp only at hr' ⊢
    have hr2 : r ∈ (markAll p.g p.g.roots).roots := hr'
    rw [markAll_roots] at hr2
    show (markAll p.g p.g.roots).marked r = true
    rw [markAll_marked]; simp [hr2]
  have h2 := h1.2.1 (fun r hr => (markLoop_ext _ _ _ _).mono r (hroots r hr))
  have hp2 := maybeGc_pinv 0 hs.1
  have h3 := (C07_increment_covers_heap (leak := 0) hp2 (Or.inl rfl)).2 h2
  exact ⟨h3.1, h3.2.1⟩

/-! ### the heap bound -/

/-- Runs of one green thread under the real pacing, from a fresh thread: calls of `maybe_gc` (constructor `gc`)
    interleaved with contract-abiding mutator steps (`mutator`: VM instructions and host calls).  The second index
    is the number of bytes allocated since the last call of `maybe_gc`.  The hypotheses of the bound are the
    premises of the constructors: whenever a call of `maybe_gc` starts a cycle the reachable objects have at most
    `R` bytes and are at most `N`, a foreign budget charge is acceptable (`LeakOK`), and at most `A` bytes are
    allocated between two calls (one VM instruction, plus the host call it may trigger). -/
inductive BRun (R A N : Nat) : PSt → Nat → Prop
  | init : BRun R A N pinit 0
  | gc {p : PSt} {s : Nat} (leak : Nat) : BRun R A N p s →
      (StartsCycle p → reachBytes p ≤ R ∧ reachCount p ≤ N) → LeakOK p leak → BRun R A N (maybeGc p leak) 0
  | mutator {p p' : PSt} {s : Nat} {new pushed : List Nat} : BRun R A N p s → PMutatorOK p p' new pushed →
      s + (p'.heapBytes - p.heapBytes) ≤ A → BRun R A N p' (s + (p'.heapBytes - p.heapBytes))

theorem brun_rinv {R A N : Nat} {p : PSt} {s : Nat} (r : BRun R A N p s) : RInv R A (N + 3) p s (rho p) := by
  induction r with
  | init => exact rinv_init R A (N + 3) _
  | gc leak _ hRN hl ih => exact rinvN_gc leak ih hl hRN
  | mutator _ m hA ih => exact rinvN_mut ih m hA

/-- **C07, bounded heap.** If, whenever a cycle starts, the reachable objects have at most `R` bytes and are at
    most `N`, and at most `A` bytes are allocated between two calls of `maybe_gc`, then at every point of every
    run `heap_size ≤ 2·R + (3·N + 9)·A`; moreover `heap_size ≤ gc_debt`, and `last_gc_heap_size ≤ R + (N + 3)·A`.
    (With positive object sizes `N` may be taken as `R`: `C07_reach_count_le_bytes`.) -/
theorem C07_bounded_heap {R A N : Nat} {p : PSt} {s : Nat} (r : BRun R A N p s) :
    p.heapBytes ≤ boundB R A N ∧ p.heapBytes ≤ p.debt ∧ p.lastGc ≤ R + (N + 3) * A := by
  refine ⟨?_, (brun_rinv r).pinv.debt, (brun_rinv r).last⟩
  rw [boundB_eq]
  exact rinv_bound (by omega) (brun_rinv r)

/-- The same runs, with the number of calls per cycle bounded through the program's behaviour instead of the
    number of reachable objects: the third index counts, in the running cycle, the marking increments that stayed
    in Marking — by `C07_increment_covers_heap` that happens only when the root rescan finds an unmarked root,
    i.e. when the program has moved a not yet marked object from the heap onto the stack since the last scan
    (consecutive pops of nested containers) — and every call keeps that count at most `M`. -/
inductive BRunH (R A M : Nat) : PSt → Nat → Nat → Prop
  | init : BRunH R A M pinit 0 0
  | gc {p : PSt} {s hc : Nat} (leak : Nat) : BRunH R A M p s hc → (StartsCycle p → reachBytes p ≤ R) →
      LeakOK p leak → hitsAfter p leak hc ≤ M → BRunH R A M (maybeGc p leak) 0 (hitsAfter p leak hc)
  | mutator {p p' : PSt} {s hc : Nat} {new pushed : List Nat} : BRunH R A M p s hc →
      PMutatorOK p p' new pushed → s + (p'.heapBytes - p.heapBytes) ≤ A →
      BRunH R A M p' (s + (p'.heapBytes - p.heapBytes)) hc

theorem brunH_rinv {R A M : Nat} {p : PSt} {s hc : Nat} (r : BRunH R A M p s hc) :
    RInv R A (M + 3) p s (fun _ => rhoH M p hc) := by
  induction r with
  | init => exact rinv_init R A (M + 3) _
  | gc leak _ hR hl hM ih => exact rinvH_gc leak ih hl hR hM
  | mutator _ m hA ih => exact rinvH_mut ih m hA

/-- **C07, bounded heap, sharp form.** If the reachable objects have at most `R` bytes whenever a cycle starts,
    at most `A` bytes are allocated between two calls of `maybe_gc`, and in every cycle at most `M` marking
    increments end with an unmarked root on the stack (`M = 0` for a program that never pops nested containers in
    consecutive instructions), then at every point of every run `heap_size ≤ 2·R + (3·M + 9)·A`.  (That a cycle
    then takes at most `M + 3` calls is the internal invariant `brunH_rinv` of the proof, not part of this
    statement; the bound on `M` is a hypothesis carried by `BRunH`, measured on real runs, not proved for any
    program.) -/
theorem C07_bounded_heap_hits {R A M : Nat} {p : PSt} {s hc : Nat} (r : BRunH R A M p s hc) :
    p.heapBytes ≤ boundB R A M ∧ p.heapBytes ≤ p.debt ∧ p.lastGc ≤ R + (M + 3) * A := by
  refine ⟨?_, (brunH_rinv r).pinv.debt, (brunH_rinv r).last⟩
  rw [boundB_eq]
  exact rinv_bound (by omega) (brunH_rinv r)

/-- The same from any observed state that satisfies the run invariant (e.g. a thread created with a copied
    heap, whose bytes count as allocated before its first call): the invariant is preserved by both kinds of
    steps and implies the bound. -/
theorem C07_bounded_heap_from {R A N : Nat} :
    (∀ p s leak, RInv R A (N + 3) p s (rho p) → (StartsCycle p → reachBytes p ≤ R ∧ reachCount p ≤ N) →
      LeakOK p leak → RInv R A (N + 3) (maybeGc p leak) 0 (rho (maybeGc p leak))) ∧
    (∀ p p' s new pushed, RInv R A (N + 3) p s (rho p) → PMutatorOK p p' new pushed →
      s + (p'.heapBytes - p.heapBytes) ≤ A → RInv R A (N + 3) p' (s + (p'.heapBytes - p.heapBytes)) (rho p')) ∧
    (∀ p s, RInv R A (N + 3) p s (rho p) → p.heapBytes ≤ boundB R A N) ∧
    (∀ p s, PInv p → p.g.phase = .idle → p.heapBytes ≤ 2 * p.lastGc + s → s ≤ A → p.lastGc ≤ R + (N + 3) * A →
      RInv R A (N + 3) p s (rho p)) :=
  ⟨fun _ _ leak h hRN hl => rinvN_gc leak h hl hRN, fun _ _ _ _ _ h m hA => rinvN_mut h m hA,
   fun _ _ h => by rw [boundB_eq]; exact rinv_bound (by omega) h,
   fun _ _ h hp hi hs hl => ⟨h, hs, hl, fun _ => hi, fun hne => absurd hp hne⟩⟩

/-- with positive object sizes the object-count hypothesis follows from the byte hypothesis (`N := R`) -/
theorem C07_reach_count_le_bytes {p : PSt} {R : Nat} (h : ∀ a ∈ p.g.heap, 1 ≤ p.size a)
    (hR : reachBytes p ≤ R) : reachCount p ≤ R :=
  Nat.le_trans (reachCount_le_bytes h) hR

/-- **Tie to the driver.** If the executable contract check accepts a before/after pair of pacing states
    observed on the real VM, the pair satisfies the contract of the theorems; with the invariant in the
    before-state it holds in the after-state. -/
theorem C07_checked_pacing_step {p p' : PSt} {fuel : Nat} (h : PInv p) (hb : pmutatorOKb p p' fuel = true) :
    PMutatorOK p p' (p'.g.todo.drop p.g.todo.length) (p'.g.gray.take (p'.g.gray.length - p.g.gray.length)) ∧
    PInv p' :=
  ⟨pmutatorOKb_sound hb, pmut_pinv h (pmutatorOKb_sound hb)⟩

/-! ### non-vacuity: a loop that allocates garbage -/

namespace Example
/-- strings only: no children; `ms` lists the marked addresses -/
def st (ms done todo roots gray : List Nat) (ph : Phase) : St :=
  { obj := fun a => ⟨[], ms.contains a⟩, done := done, todo := todo, roots := roots, gray := gray, phase := ph }
def sz (a : Nat) : Nat := if a = 4 then 40 else 10

/-- after the first instruction: string 1 allocated and on the stack -/
def e1 : PSt := { g := st [] [] [1] [1] [] .idle, size := sz, heapBytes := 10, lastGc := 0, debt := 10 }
/-- (cycle 1 started) string 2 allocated while marking, string 1 dropped -/
def e2 : PSt := { g := st [1, 2] [] [1, 2] [2] [2, 1] .marking, size := sz, heapBytes := 20, lastGc := 0, debt := 20 }
/-- string 3 allocated while sweeping, string 2 dropped -/
def e3 : PSt := { g := st [1, 2, 3] [] [1, 2, 3] [3] [] .sweeping, size := sz, heapBytes := 30, lastGc := 0, debt := 30 }
/-- (cycle 1 over: everything survived, `last_gc_heap_size = 30`) a 40-byte string 4 allocated, 3 dropped -/
def e4 : PSt := { g := st [] [] [1, 2, 3, 4] [4] [] .idle, size := sz, heapBytes := 70, lastGc := 30, debt := 70 }
/-- (cycle 2 started: 70 > 2·30) string 5 allocated while marking, 4 dropped -/
def e5 : PSt := { g := st [4, 5] [] [1, 2, 3, 4, 5] [5] [5, 4] .marking, size := sz, heapBytes := 80, lastGc := 30, debt := 80 }

theorem gcB {R A N : Nat} {p : PSt} {s : Nat} (S : List Nat) (r : BRun R A N p s)
    (h : reachBoundB p S R N = true) : BRun R A N (maybeGc p 0) 0 :=
  BRun.gc 0 r (fun _ => reachBoundB_sound h) (Or.inl rfl)

theorem mutB {R A N : Nat} {p p' : PSt} {s : Nat} (fuel : Nat) (r : BRun R A N p s)
    (h : pmutatorOKb p p' fuel = true) (hA : s + (p'.heapBytes - p.heapBytes) ≤ A) :
    BRun R A N p' (s + (p'.heapBytes - p.heapBytes)) :=
  BRun.mutator r (pmutatorOKb_sound h) hA

/-- seven VM steps of `while true { s = "…" }` with bounded live data (R = 40 bytes, N = 1 object, A = 40):
    two complete cycles, the second one reclaims the garbage of the first -/
theorem run : BRun 40 40 1 (maybeGc (maybeGc e5 0) 0) 0 := by
  have r0 : BRun 40 40 1 (maybeGc pinit 0) 0 := gcB [] BRun.init (by decide)
  have r1 := mutB (p' := e1) 10 r0 (by decide) (by decide)
  have r2 := gcB [1] r1 (by decide)
  have r3 := mutB (p' := e2) 10 r2 (by decide) (by decide)
  have r4 := gcB [2] r3 (by decide)
  have r5 := mutB (p' := e3) 10 r4 (by decide) (by decide)
  have r6 := gcB [3] r5 (by decide)
  have r7 := mutB (p' := e4) 10 r6 (by decide) (by decide)
  have r8 := gcB [4] r7 (by decide)
  have r9 := mutB (p' := e5) 10 r8 (by decide) (by decide)
  have r10 := gcB [5] r9 (by decide)
  exact gcB [5] r10 (by decide)

theorem gcHB {R A M : Nat} {p : PSt} {s hc : Nat} (S : List Nat) (r : BRunH R A M p s hc)
    (h : reachBoundB p S R (p.g.heap.length) = true) (hM : hitsAfter p 0 hc ≤ M) :
    BRunH R A M (maybeGc p 0) 0 (hitsAfter p 0 hc) :=
  BRunH.gc 0 r (fun _ => (reachBoundB_sound h).1) (Or.inl rfl) hM

theorem mutHB {R A M : Nat} {p p' : PSt} {s hc : Nat} (fuel : Nat) (r : BRunH R A M p s hc)
    (h : pmutatorOKb p p' fuel = true) (hA : s + (p'.heapBytes - p.heapBytes) ≤ A) :
    BRunH R A M p' (s + (p'.heapBytes - p.heapBytes)) hc :=
  BRunH.mutator r (pmutatorOKb_sound h) hA

/-- the same seven steps as a run without rescan hits (`M = 0`: every cycle takes three calls) -/
theorem runH : ∃ hc, BRunH 40 40 0 (maybeGc (maybeGc e5 0) 0) 0 hc := by
  have r0 : BRunH 40 40 0 (maybeGc pinit 0) 0 _ := gcHB [] BRunH.init (by decide) (by decide)
  have r1 := mutHB (p' := e1) 10 r0 (by decide) (by decide)
  have r2 := gcHB [1] r1 (by decide) (by decide)
  have r3 := mutHB (p' := e2) 10 r2 (by decide) (by decide)
  have r4 := gcHB [2] r3 (by decide) (by decide)
  have r5 := mutHB (p' := e3) 10 r4 (by decide) (by decide)
  have r6 := gcHB [3] r5 (by decide) (by decide)
  have r7 := mutHB (p' := e4) 10 r6 (by decide) (by decide)
  have r8 := gcHB [4] r7 (by decide) (by decide)
  have r9 := mutHB (p' := e5) 10 r8 (by decide) (by decide)
  have r10 := gcHB [5] r9 (by decide) (by decide)
  exact ⟨_, gcHB [5] r10 (by decide) (by decide)⟩
end Example

/-- non-vacuity of `C07_bounded_heap`: the run above satisfies every hypothesis; the peak was 80 bytes, and the
    second cycle has reclaimed strings 1, 2, 3 (heap list `[5, 4]`, 50 bytes), within the bound 560 -/
example : (maybeGc (maybeGc Example.e5 0) 0).heapBytes = 50 ∧
    (maybeGc (maybeGc Example.e5 0) 0).g.heap = [5, 4] ∧
    (maybeGc (maybeGc Example.e5 0) 0).g.phase = .idle ∧ boundB 40 40 1 = 560 ∧
    (maybeGc (maybeGc Example.e5 0) 0).heapBytes ≤ boundB 40 40 1 :=
  ⟨by decide, by decide, by decide, by decide, (C07_bounded_heap Example.run).1⟩

/-- non-vacuity of `C07_bounded_heap_hits`: the sharp bound for the example is 2·40 + 9·40 = 440 -/
example : (maybeGc (maybeGc Example.e5 0) 0).heapBytes ≤ boundB 40 40 0 ∧ boundB 40 40 0 = 440 := by
  obtain ⟨hc, r⟩ := Example.runH
  exact ⟨(C07_bounded_heap_hits r).1, by decide⟩

/-- non-vacuity of `C07_cycle_spans_k_steps` and `C07_increment_covers_heap`: the second cycle of the example
    (started from `e4`) is a `PCycleRun` of two increments -/
example : PCycleRun (Reach Example.e4.g) (maybeGc Example.e4 0) (Reach Example.e4.g)
    (maybeGc (maybeGc (maybeGc Example.e4 0) 0) 0) 2 :=
  PCycleRun.gc 0 (PCycleRun.gc 0 (PCycleRun.refl _ _) (by decide) (Or.inl rfl)) (by decide) (Or.inl rfl)

end Abra.GCP
