import AbraProofs.Lemmas.GCCycle
import AbraProofs.Lemmas.GCProgress
/-!
# C07 — unreachable memory is reclaimed; a dropped runtime frees everything

Model: `Abra.GC` (M5) for reclamation, and an allocation ledger for `Drop`.
-/
namespace Abra.GC

/-- A run inside one collection cycle, carrying the ghost set "reachable when the cycle started, or
    allocated since".  Collector increments are taken only while a cycle is in progress (a new cycle
    is a new statement); mutator steps are arbitrary contract-abiding VM instructions. -/
inductive CycleRun : (Nat → Prop) → St → (Nat → Prop) → St → Prop
  | refl (L : Nat → Prop) (σ : St) : CycleRun L σ L σ
  | gc {L L' : Nat → Prop} {σ σ' : St} :
      CycleRun L σ L' σ' → σ'.phase ≠ .idle → CycleRun L σ L' (gcStep σ')
  | mutator {L L' : Nat → Prop} {σ σ' σ'' : St} {new pushed : List Nat} :
      CycleRun L σ L' σ' → MutatorOK σ' σ'' new pushed →
      CycleRun L σ (fun a => L' a ∨ a ∈ new) σ''

theorem cycleRun_inv {L L' : Nat → Prop} {σ σ' : St} (r : CycleRun L σ L' σ') (hi : Inv σ)
    (hl : InvL σ L) (hidle0 : σ.phase = .idle → ∀ a ∈ σ.heap, L a) :
    Inv σ' ∧ InvL σ' L' ∧ (σ'.phase = .idle → ∀ a ∈ σ'.heap, L' a) := by
  induction r with
  | refl => exact ⟨hi, hl, hidle0⟩
  | gc _ hne ih =>
    obtain ⟨i1, l1, _⟩ := ih hi hl hidle0
    exact ⟨gcStep_inv i1, gcStep_invL i1 l1, fun hid => gcStep_idleL i1 l1 hne hid⟩
  | mutator _ m ih =>
    obtain ⟨i1, l1, id1⟩ := ih hi hl hidle0
    refine ⟨mutator_inv i1 m, mutator_invL i1 m l1, ?_⟩
    intro hid a ha
    have hp := hid
    rw [m.phase] at hp
    have hd := i1
    unfold Inv at hd; rw [hp] at hd
    have hd' := hd.done
    unfold St.heap at ha
    rw [m.done, m.todo, hd'] at ha
    simp only [List.nil_append] at ha
    rcases List.mem_append.1 ha with h1 | h1
    · exact Or.inl (id1 hp a (by simp [St.heap, h1]))
    · exact Or.inr h1

/-- **C07, reclamation.** Start a collection cycle in any idle state and let it run to completion under
    any interleaving with the program: every object still allocated when the collector is idle again
    was reachable when the cycle started or was allocated during the cycle.  Hence an object that is
    unreachable when a cycle starts is reclaimed by that cycle, and garbage created during a cycle
    survives at most until the end of the next one. -/
theorem C07_cycle_complete {σ0 σ : St} {L' : Nat → Prop} (h0 : Inv σ0) (hp : σ0.phase = .idle)
    (r : CycleRun (Reach σ0) (gcStart σ0) L' σ) (hidle : σ.phase = .idle) :
    ∀ a ∈ σ.heap, L' a := by
  have hstart : InvL (gcStart σ0) (Reach σ0) := by
    have hI : InvI σ0 := by unfold Inv at h0; rw [hp] at h0; exact h0
    have hroots : (gcStart σ0).roots = σ0.roots := by
      have := gcStep_roots σ0; unfold gcStep at this; rw [hp] at this; exact this
    have hch : ∀ x, (gcStart σ0).children x = σ0.children x := by
      intro x; have := gcStep_children σ0 x; unfold gcStep at this; rw [hp] at this; exact this
    refine ⟨fun a ha => reach_congr hroots hch a ha, ?_, ?_, ?_⟩
    · intro a _ hl c hc; rw [hch] at hc; exact Reach.step hl hc
    · intro a ha hm
      unfold gcStart at ha hm; rw [hp] at ha hm; simp only at ha hm
      have hm' : (markAll σ0 σ0.roots).marked a = true := hm
      rw [markAll_marked] at hm'
      have ha' : a ∈ σ0.todo := by simpa using ha
      rw [hI.white a ha'] at hm'
      exact Reach.root (by simpa using hm')
    · intro a ha
      unfold gcStart at ha; rw [hp] at ha; simp only at ha
      have : a ∈ (markAll σ0 σ0.roots).done := ha
      rw [markAll_done, hI.done] at this; simp at this
  have hphase : (gcStart σ0).phase ≠ .idle := by
    unfold gcStart; rw [hp]; simp
  have hstartInv : Inv (gcStart σ0) := gcStart_inv h0
  exact (cycleRun_inv r hstartInv hstart (fun h => absurd h hphase)).2.2 hidle

/-- the quiet case: if the program does nothing, a full cycle leaves exactly reachable objects -/
theorem C07_quiet_cycle_leaves_only_reachable {σ0 σ : St} (h0 : Inv σ0) (hp : σ0.phase = .idle)
    (r : CycleRun (Reach σ0) (gcStart σ0) (Reach σ0) σ) (hidle : σ.phase = .idle) :
    ∀ a ∈ σ.heap, Reach σ0 a :=
  C07_cycle_complete h0 hp r hidle

/-! ### progress -/

/-- `n` collector increments in a row (the program is quiet) -/
def gcIter : Nat → St → St
  | 0, σ => σ
  | n + 1, σ => gcIter n (gcStep σ)

/-- **C07, progress.** While a cycle is running, every collector increment strictly decreases the
    remaining work `mu` (marking: 2·white + gray + heap + 2; sweeping: unswept + 1). -/
theorem C07_collector_progress {σ : St} (h : Inv σ) (hne : σ.phase ≠ .idle) :
    mu (gcStep σ) < mu σ :=
  gcStep_measure h hne

/-- **C07, a cycle terminates.** From any state of a running cycle, at most `mu σ` increments
    (≤ 3·heap + gray + 2) bring the collector back to Idle when the program does not allocate. -/
theorem C07_quiet_cycle_terminates : ∀ (k : Nat) (σ : St), Inv σ → mu σ ≤ k →
    ∃ n, n ≤ mu σ ∧ (gcIter n σ).phase = .idle := by
  intro k
  induction k with
  | zero =>
    intro σ _ hk
    refine ⟨0, Nat.zero_le _, ?_⟩
    show σ.phase = .idle
    cases hp : σ.phase with
    | idle => rfl
    | marking => unfold mu at hk; rw [hp] at hk; simp at hk
    | sweeping => unfold mu at hk; rw [hp] at hk; simp at hk
  | succ k ih =>
    intro σ hi hk
    by_cases hp : σ.phase = .idle
    · exact ⟨0, Nat.zero_le _, hp⟩
    · have hlt := gcStep_measure hi hp
      obtain ⟨n, hn, hidle⟩ := ih (gcStep σ) (gcStep_inv hi) (by omega)
      exact ⟨n + 1, by omega, hidle⟩

/-! ### the allocation ledger and `Drop` -/

/-- who owns the allocations of one runtime: each green thread owns its `heap_list`; the shared
    read-only part owns the static strings -/
structure Ledger where
  threads : List (List Nat)
  statics : List Nat

def Ledger.live (l : Ledger) : List Nat := l.threads.flatten ++ l.statics

/-- `Drop for VmGreenThread` deallocates every `heap_list` entry; `Drop for VmSharedReadonly`
    deallocates every static string; dropping the runtime drops all of them -/
def dropRuntime (l : Ledger) : List Nat × Ledger :=
  (l.threads.flatten ++ l.statics, { threads := [], statics := [] })

/-- **C07, drop.** Dropping a runtime frees every allocation it owned exactly once and leaves none. -/
theorem C07_drop_frees_all (l : Ledger) :
    (dropRuntime l).1 = l.live ∧ (dropRuntime l).2.live = [] := by
  simp [dropRuntime, Ledger.live]

/-- non-vacuity: a cycle run exists (start, and one increment) -/
example : CycleRun (Reach init) (gcStart init) (Reach init) (gcStep (gcStart init)) :=
  CycleRun.gc (CycleRun.refl _ _) (by decide)

end Abra.GC
