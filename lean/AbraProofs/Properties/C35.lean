import AbraProofs.Lemmas.SpanTreeWF
/- C35 — go-to-definition and hover agree with the compiler (partial).

   Theorems: the two AST searches behind `definition_at` / `type_at`
   (`lsp_helper.rs: find_identifier_at_offset, find_innermost_node_at_offset`), modelled in
   `AbraModel/SpanTree.lean`, return what their purpose says, at every offset.
   Not a theorem (checked by the correspondence only): that `resolution_map` holds the innermost visible
   declaration (C21 has the model of that), that `declaration_location` returns the declaration's own
   span, and the types the checker solved. -/
namespace Abra.SpanTree

/-- On a search tree whose identifier spans are pairwise disjoint (`Unique`) and lie inside the ranges of
    the nodes above them (`Nested`; `CutOK`: a match arm does not overlap the arms after it) the identifier
    search returns the identifier whose span contains the offset, if there is one, and nothing otherwise. -/
theorem C35_search_spec (t : STree) (hn : Nested t) (hc : CutOK t) (hu : Unique t) (off : Nat) :
    (∀ id, search off t = some id ↔ Hit off id t) ∧ (search off t = none ↔ ∀ id, ¬ Hit off id t) :=
  search_spec t hn hc hu off

/-- The same for a parsed file: `find_identifier_at_offset` on the rendering `file` of the AST. -/
theorem C35_findIdentifier_spec (file : Ast) (t : STree) (hp : identPlan file = some t)
    (hn : Nested t) (hc : CutOK t) (hu : Unique t) (off : Nat) :
    (∀ id, findIdentifier file off = some (some id) ↔ Hit off id t) ∧
    (findIdentifier file off = some none ↔ ∀ id, ¬ Hit off id t) := by
  have h := search_spec t hn hc hu off
  simp only [findIdentifier, hp, Option.map_some, Option.some.injEq]
  exact h

/-- Without any hypothesis on the tree: what the identifier search returns is an identifier of the tree
    whose span contains the offset (so go-to-definition never answers for a place the cursor is not on). -/
theorem C35_search_sound (t : STree) (off id : Nat) (h : search off t = some id) : Hit off id t :=
  search_sound off id t h

/-- The node returned by the innermost-node search contains the offset and no node below it does. -/
theorem C35_searchI_spec (t : ITree) (hn : NestedI t) (off id : Nat) (h : searchI off t = some id) :
    Innermost off id t ∧ Cand off id t :=
  ⟨searchI_sound off id t hn h, Innermost.cand off id t (searchI_sound off id t hn h)⟩

/-- Without any hypothesis on the tree (the spans the parser handed out were not always nested: D60 and D106,
    both repaired since): the node returned is *reachable* at the offset — its own span and the spans of all nodes
    above it contain the offset — and no node below it is; and the search answers exactly when some node is
    reachable.  On a properly nested tree "reachable" is "its span contains the offset" (`reach_iff_cand`). -/
theorem C35_searchI_spec_unconditional (t : ITree) (off : Nat) :
    (∀ id, searchI off t = some id → InnermostR off id t ∧ Reach off id t) ∧
    ((∃ id, searchI off t = some id) ↔ ∃ id, Reach off id t) := by
  refine ⟨fun id h => ⟨searchI_sound_reach off id t h, InnermostR.reach off id t (searchI_sound_reach off id t h)⟩, ?_, ?_⟩
  · rintro ⟨id, h⟩
    exact ⟨id, InnermostR.reach off id t (searchI_sound_reach off id t h)⟩
  · rintro ⟨id, h⟩
    cases hs : searchI off t with
    | some r => exact ⟨r, rfl⟩
    | none => exact absurd h (searchI_none_reach off t hs id)

/-- The same for a parsed file: `find_innermost_node_at_offset`. -/
theorem C35_findInnermost_spec (file : Ast) (t : ITree) (hp : innerPlan file = some t) (hn : NestedI t)
    (off id : Nat) (h : findInnermost file off = some (some id)) : Innermost off id t ∧ Cand off id t := by
  simp only [findInnermost, hp, Option.map_some, Option.some.injEq] at h
  exact C35_searchI_spec t hn off id h

/-- The innermost-node search answers exactly when some node contains the offset. -/
theorem C35_searchI_answers_iff (t : ITree) (hn : NestedI t) (off : Nat) :
    (∃ id, searchI off t = some id) ↔ ∃ id, Cand off id t := by
  constructor
  · rintro ⟨id, h⟩
    exact ⟨id, (C35_searchI_spec t hn off id h).2⟩
  · rintro ⟨id, h⟩
    exact searchI_complete off id t hn h

/-- If every identifier span of the tree ends at or before `n` (hypothesis `hb`), the identifier search answers
    `none` at every offset `off ≥ n` — in particular past the end of the file.  (That the searches are defined
    at every offset is immediate: they are total functions.) -/
theorem C35_search_past_end (t : STree) (n : Nat) (hb : ∀ off id, Hit off id t → off < n)
    (off : Nat) (h : n ≤ off) : search off t = none := by
  cases hs : search off t with
  | none => rfl
  | some id => exact absurd (hb off id (search_sound off id t hs)) (by omega)

theorem C35_searchI_past_end (t : ITree) (hn : NestedI t) (n : Nat) (hb : ∀ off id, Cand off id t → off < n)
    (off : Nat) (h : n ≤ off) : searchI off t = none := by
  cases hs : searchI off t with
  | none => rfl
  | some id => exact absurd (hb off id (C35_searchI_spec t hn off id hs).2) (by omega)

/-- The hypotheses are decidable per tree: when the executable check `wfB` (reported by the driver for
    every tree of the correspondence) accepts a search tree, the identifier search on it is exactly
    "the identifier whose span contains the offset, else nothing". -/
theorem C35_search_spec_checked (t : STree) (h : wfB t = true) (off : Nat) :
    (∀ id, search off t = some id ↔ Hit off id t) ∧ (search off t = none ↔ ∀ id, ¬ Hit off id t) := by
  obtain ⟨hn, hc, hu⟩ := wfB_sound t h
  exact search_spec t hn hc hu off

/-- likewise for the innermost-node search and the executable check `nestedIB` -/
theorem C35_searchI_spec_checked (t : ITree) (h : nestedIB t = true) (off id : Nat)
    (hs : searchI off t = some id) : Innermost off id t ∧ Cand off id t :=
  C35_searchI_spec t (nestedIB_sound t h) off id hs

/-! ### non-vacuity -/

/-- `f(a, b)` inside an item `[0, 10)`: identifiers `f`=[0,1) id 1, `a`=[2,3) id 2, `b`=[5,6) id 3 -/
def exS : STree := .node (some (0, 10)) false [.ident 0 1 1, .node none false [.ident 2 3 2, .ident 5 6 3]]

theorem exS_hit (off id : Nat) :
    Hit off id exS ↔ (id = 1 ∧ off < 1) ∨ (id = 2 ∧ 2 ≤ off ∧ off < 3) ∨ (id = 3 ∧ 5 ≤ off ∧ off < 6) := by
  simp only [exS, Hit, HitL]
  constructor
  · rintro (⟨rfl, _, h⟩ | ⟨rfl, h⟩ | ⟨rfl, h⟩ | h) <;> simp_all
  · rintro (⟨rfl, h⟩ | ⟨rfl, h⟩ | ⟨rfl, h⟩) <;> simp_all

example : Nested exS ∧ CutOK exS ∧ Unique exS := by
  refine ⟨?_, ?_, ?_⟩
  · simp only [exS, Nested, NestedL, HitL, Hit, inSpan]
    refine ⟨?_, trivial, ⟨?_, trivial, trivial, trivial⟩, trivial⟩
    · intro off id h
      rcases h with ⟨_, _, h⟩ | ⟨_, _, h⟩ | ⟨_, _, h⟩ | h <;> simp_all <;> omega
    · intro off id _; trivial
  · simp [exS, CutOK, CutOKL, STree.cuts]
  · intro off a b ha hb
    rw [exS_hit] at ha hb
    omega

example : wfB exS = true := by decide

example : search 5 exS = some 3 ∧ search 4 exS = none ∧ search 12 exS = none := by decide

/-- a match arm `[0, 4)` (cut) holding an identifier [1,2), followed by a sibling [6,7) -/
example : CutOK (.node none false [.node (some (0, 4)) true [.ident 1 2 1], .ident 6 7 2]) := by
  simp only [CutOK, CutOKL, STree.cuts, HitL, Hit, inSpan]
  refine ⟨⟨trivial, ?_, trivial⟩, ?_, trivial, ?_, trivial⟩
  · intro off id _ h; exact h
  · intro off id h1 h2
    simp at h1
    rcases h2 with ⟨_, h, _⟩ | h
    · omega
    · exact h
  · intro off id h; simp at h

/-- `x + 1` as a statement `[0, 5)`: BinOp id 9 over Variable [0,1) id 7 and Int [4,5) id 8 -/
def exI : ITree := .node (some (0, 5)) none [.node (some (0, 5)) (some 9) [.leaf 0 1 7, .leaf 4 5 8]]

example : NestedI exI := by
  simp only [exI, NestedI, NestedIL, CandL, Cand, inSpan]
  refine ⟨?_, ⟨?_, trivial, trivial, trivial⟩, trivial⟩
  · intro off id h
    rcases h with (⟨_, h⟩ | ⟨_, _, _⟩ | ⟨_, _, _⟩ | h) | h <;> simp_all <;> omega
  · intro off id h
    rcases h with ⟨_, _, _⟩ | ⟨_, _, _⟩ | h <;> simp_all <;> omega

example : nestedIB exI = true := by decide

example : searchI 0 exI = some 7 ∧ searchI 2 exI = some 9 ∧ searchI 5 exI = none := by decide

example : ∃ id, Cand 2 id exI := ⟨9, by simp [exI, Cand, CandL, inSpan]⟩

end Abra.SpanTree
