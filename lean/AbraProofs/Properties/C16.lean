import AbraProofs.Lemmas.F64
/-!
# C16 — float comparisons are one total order, division checks for zero, conversions and constants

Model: `Abra.F64` on the 64 bit patterns.  Every theorem quantifies over ALL bit patterns
(`UInt64`), NaNs of both signs and every payload included.  IEEE arithmetic (`+ - * / powf`) is a
parameter (`arith`, `fdiv`, `fsub`) of the statements that mention it: it is trusted and tied to
the implementation by the correspondence harness only.
No `bv_decide`: the order facts are `omega` facts about the arithmetic reading of the key, and the
bit-level key is shown equal to it with `Nat.testBit` lemmas (`keyBits_toNat`).
-/
namespace Abra.F64

/-! ## comparisons: one strict total order, equality = equality of bits -/

/-- the six instructions are the six relations of the order of `key` -/
theorem C16_fcmp_relations (a b : Bits) :
    (flt a b = true ↔ key a < key b) ∧ (fle a b = true ↔ key a ≤ key b) ∧
    (fgt a b = true ↔ key b < key a) ∧ (fge a b = true ↔ key b ≤ key a) ∧
    (feq a b = true ↔ a = b) ∧ (fne a b = true ↔ a ≠ b) := by
  refine ⟨flt_iff a b, fle_iff a b, fgt_iff a b, fge_iff a b, feq_iff a b, ?_⟩
  unfold fne
  rw [Bool.not_eq_true', ← Bool.not_eq_true, feq_iff]

/-- the key is injective: the order is an order on bit patterns, not on a quotient -/
theorem C16_key_injective (a b : Bits) : key a = key b ↔ a = b := key_inj

/-- the bit-twiddling form (flip all bits if the sign is set, else flip the sign bit) computes `key` -/
theorem C16_key_bits (b : Bits) : (keyBits b).toNat = key b := keyBits_toNat b

/-- strict total order: irreflexive, transitive, trichotomous -/
theorem C16_fcmp_total_order :
    (∀ a, flt a a = false) ∧
    (∀ a b c, flt a b = true → flt b c = true → flt a c = true) ∧
    (∀ a b, (flt a b = true ∧ a ≠ b ∧ flt b a = false) ∨ (flt a b = false ∧ a = b ∧ flt b a = false) ∨
            (flt a b = false ∧ a ≠ b ∧ flt b a = true)) := by
  refine ⟨?_, ?_, ?_⟩
  · intro a
    rw [← Bool.not_eq_true, flt_iff]; omega
  · intro a b c h1 h2
    rw [flt_iff] at *; omega
  · intro a b
    have hinj := @key_inj a b
    rcases Nat.lt_trichotomy (key a) (key b) with h | h | h
    · left
      refine ⟨(flt_iff a b).2 h, fun e => by rw [e] at h; omega, ?_⟩
      rw [← Bool.not_eq_true, flt_iff]; omega
    · right; left
      refine ⟨?_, hinj.1 h, ?_⟩ <;> (rw [← Bool.not_eq_true, flt_iff]; omega)
    · right; right
      refine ⟨?_, fun e => by rw [e] at h; omega, (flt_iff b a).2 h⟩
      rw [← Bool.not_eq_true, flt_iff]; omega

/-- the other five relations are determined by `<` and bit equality, consistently -/
theorem C16_fcmp_consistent (a b : Bits) :
    (fle a b = !fgt a b) ∧ (fge a b = !flt a b) ∧ (fgt a b = flt b a) ∧ (fge a b = fle b a) ∧
    (fle a b = (flt a b || feq a b)) ∧ (fge a b = (fgt a b || feq a b)) ∧ (fne a b = !feq a b) ∧
    (feq a b = decide (a = b)) := by
  have h1 := flt_iff a b
  have h2 := fle_iff a b
  have h3 := fgt_iff a b
  have h4 := fge_iff a b
  have h5 := feq_iff a b
  have h6 := flt_iff b a
  have h7 := fle_iff b a
  have hinj := @key_inj a b
  have e : ∀ (x y : Bool), (x = true ↔ y = true) → x = y := by
    intro x y h; cases x <;> cases y <;> simp_all
  refine ⟨e _ _ ?_, e _ _ ?_, e _ _ ?_, e _ _ ?_, e _ _ ?_, e _ _ ?_, rfl, e _ _ ?_⟩
  · rw [h2, Bool.not_eq_true', ← Bool.not_eq_true, h3]; omega
  · rw [h4, Bool.not_eq_true', ← Bool.not_eq_true, h1]; omega
  · rw [h3, h6]
  · rw [h4, h7]
  · rw [h2, Bool.or_eq_true, h1, h5, ← hinj]; omega
  · rw [h4, Bool.or_eq_true, h3, h5, ← hinj]; omega
  · rw [h5]; simp

/-- the order is IEEE 754 `totalOrder`: sign first (negative below positive), then magnitude —
    ascending for positive patterns, descending for negative ones; so
    -NaN < -inf < … < -0 < +0 < … < +inf < +NaN (stated independently of `key`) -/
theorem C16_fcmp_is_ieee_total_order (a b : Bits) :
    flt a b = true ↔
      (sign a = true ∧ sign b = false) ∨
      (sign a = false ∧ sign b = false ∧ magnitude a < magnitude b) ∨
      (sign a = true ∧ sign b = true ∧ magnitude b < magnitude a) := by
  rw [flt_iff]
  have ha := toNat_lt a
  have hb := toNat_lt b
  unfold key sign magnitude signBit
  simp only [decide_eq_true_eq, decide_eq_false_iff_not]
  split <;> split <;> omega

/-! ## division -/

/-- `b == 0.0` holds for exactly the two zero patterns: the magnitude bits are all clear -/
theorem C16_isZero_iff (b : Bits) : isZero b = true ↔ magnitude b = 0 := by
  have hb := toNat_lt b
  unfold isZero magnitude signBit
  simp only [Bool.or_eq_true, decide_eq_true_eq]
  omega

/-- division raises DivisionByZero exactly when the divisor is ±0, whatever IEEE division is,
    and in every operand form: variable/variable and variable/literal (`DivFloat`, `DivFloatImm`
    have the same test) and literal/literal (the fold declines, the VM instruction runs) -/
theorem C16_div_zero_check (arith : Arith → Bits → Bits → Bits) (a b : Bits) :
    (divide (arith .div) a b = .divZero ↔ magnitude b = 0) ∧
    (computed arith .div a b = .divZero ↔ magnitude b = 0) ∧
    (folded arith .div a b = .divZero ↔ magnitude b = 0) := by
  rw [← C16_isZero_iff]
  unfold computed folded divide
  refine ⟨?_, ?_, ?_⟩
  · cases isZero b <;> simp
  · cases isZero b <;> simp
  · cases isZero b <;> simp <;> split <;> simp

/-- NaN and non-zero divisors never raise; the other operators never raise -/
theorem C16_no_other_error (arith : Arith → Bits → Bits → Bits) (op : Arith) (a b : Bits)
    (h : op ≠ .div ∨ magnitude b ≠ 0) : computed arith op a b = .val (arith op a b) := by
  unfold computed divide
  rcases h with h | h
  · simp [h]
  · have : isZero b = false := by
      rw [← Bool.not_eq_true, C16_isZero_iff]; exact h
    by_cases hd : op = .div <;> simp [hd, this]

example : computed (fun _ x _ => x) .div 7 0x7FF8000000000000 = .val 7 :=
  C16_no_other_error _ _ _ _ (Or.inr (by decide))

/-! ## constants -/

/-- a folded constant denotes the same bits as the computation it replaces — for every operator
    and all operands, NaN results included (the fold leaves them to the VM; D32) — given Rust's
    documented guarantee that a non-NaN `f64` survives `to_string` + `parse` (that is `viaString`) -/
theorem C16_const_consistent (arith : Arith → Bits → Bits → Bits) (op : Arith) (a b : Bits) :
    folded arith op a b = computed arith op a b := by
  unfold folded computed divide viaString
  by_cases hd : op = .div
  · subst hd
    cases hz : isZero b <;> cases hn : isNaN (arith .div a b) <;> simp [hn]
  · cases hn : isNaN (arith op a b) <;> simp [hd, hn]

/-- going through the decimal spelling keeps every non-NaN pattern, and keeps NaN-ness -/
theorem C16_viaString (c : Bits) :
    (isNaN c = false → viaString c = c) ∧ (isNaN c = true → isNaN (viaString c) = true) := by
  unfold viaString
  constructor
  · intro h; simp [h]
  · intro h; simp [h]; decide

example : viaString 0x3FF0000000000000 = 0x3FF0000000000000 := (C16_viaString _).1 (by decide)
example : isNaN (viaString 0xFFF8000000000001) = true := (C16_viaString _).2 (by decide)

/-- why a NaN result must not be folded: the decimal spelling loses the sign, which the total
    order sees -/
theorem C16_nan_spelling_loses_sign :
    ∃ c, isNaN c = true ∧ viaString c ≠ c ∧ flt c 0 = true ∧ flt (viaString c) 0 = false :=
  ⟨0xFFF8000000000000, by decide, by decide, by decide, by decide⟩

/-! ## chains of operations with literal operands -/

/-- a chain is evaluated strictly left to right: appending one more `op b` applies ONE more
    instruction to the value of the chain so far (so `v + a + b` is `(v + a) + b` with two roundings,
    never `v + (a + b)`), and an earlier division by zero wins -/
theorem C16_chain_left_to_right (arith : Arith → Bits → Bits → Bits) (r : Res)
    (steps : List (Arith × Bits)) (op : Arith) (b : Bits) :
    evalChain arith r (steps ++ [(op, b)]) =
      match evalChain arith r steps with
      | .val x => computed arith op x b
      | .divZero => .divZero := by
  induction steps generalizing r with
  | nil => cases r <;> simp [evalChain]
  | cons s rest ih =>
    obtain ⟨o, a⟩ := s
    cases r with
    | divZero =>
      have : ∀ l, evalChain arith .divZero l = .divZero := by intro l; cases l <;> simp [evalChain]
      simp [this]
    | val x => simp only [List.cons_append, evalChain]; exact ih _

example : evalChain (fun _ x _ => x) (.val 5) [(.add, 1), (.div, 0)] = .divZero := by decide

/-- the two-operation case spelled out, and the right-grouped form `v op₁ (a op₂ b)` is one
    instruction applied to the value of the literal sub-expression, folded or not -/
theorem C16_chain_two (arith : Arith → Bits → Bits → Bits) (v a b : Bits) (op1 op2 : Arith) :
    (evalChain arith (.val v) [(op1, a), (op2, b)] =
      match computed arith op1 v a with
      | .val x => computed arith op2 x b
      | .divZero => .divZero) ∧
    (evalRight arith v op1 a op2 b =
      match computed arith op2 a b with
      | .val t => computed arith op1 v t
      | .divZero => .divZero) := by
  constructor
  · simp only [evalChain]
    cases computed arith op1 v a <;> simp [evalChain]
  · unfold evalRight
    rw [C16_const_consistent]
    cases computed arith op2 a b <;> rfl

/-! ## `int_from_float` -/

/-- NaN ↦ 0, ±inf saturate, every finite value is truncated toward zero (`Int.tdiv` of the exact
    rational value) and saturated to the 64-bit range -/
theorem C16_int_from_float_spec (b : Bits) :
    (isNaN b = true → intFromFloat b = 0) ∧
    (isInf b = true → intFromFloat b = if sign b then i64Min else i64Max) ∧
    (isNaN b = false → isInf b = false →
      intFromFloat b = clamp (Int.tdiv (finiteValue b).1 (finiteValue b).2)) := by
  refine ⟨?_, ?_, intFromFloat_finite b⟩
  · intro h
    simp only [isNaN, Bool.and_eq_true, decide_eq_true_eq] at h
    unfold intFromFloat
    simp [h.1, h.2]
  · intro h
    simp only [isInf, Bool.and_eq_true, decide_eq_true_eq] at h
    unfold intFromFloat
    simp [h.1, h.2]

example : intFromFloat 0xC00C000000000000 = -3 := by decide  -- -3.5 ↦ -3
example : isNaN 0xFFF8000000000000 = true ∧ intFromFloat 0xFFF8000000000000 = 0 :=
  ⟨by decide, (C16_int_from_float_spec _).1 (by decide)⟩
example : isInf 0xFFF0000000000000 = true := by decide

/-- the result is always a 64-bit integer -/
theorem C16_int_from_float_range (b : Bits) : i64Min ≤ intFromFloat b ∧ intFromFloat b ≤ i64Max := by
  by_cases hn : isNaN b = true
  · rw [(C16_int_from_float_spec b).1 hn]; decide
  · by_cases hi : isInf b = true
    · rw [(C16_int_from_float_spec b).2.1 hi]; cases sign b <;> decide
    · rw [(C16_int_from_float_spec b).2.2 (by simpa using hn) (by simpa using hi)]
      unfold clamp i64Min i64Max
      split <;> (try split) <;> omega

/-! ## `floor`, `ceil`, `round` -/

/-- the integer `floor` and `ceil` pick, stated with inequalities on the exact rational `n/d`
    (`d > 0`): floor is the largest integer below or at it, ceil the smallest at or above it
    (`round` is characterised separately in `C16_roundInt_round_spec`) -/
theorem C16_roundInt_spec (n : Int) (d : Nat) (hd : 0 < d) :
    (roundInt .floor n d * d ≤ n ∧ n < (roundInt .floor n d + 1) * d) ∧
    ((roundInt .ceil n d - 1) * d < n ∧ n ≤ roundInt .ceil n d * d) := by
  have hd' : (0 : Int) < d := by omega
  have e1 := Int.mul_ediv_add_emod n d
  have e2 := Int.emod_nonneg n (show (d : Int) ≠ 0 by omega)
  have e3 := Int.emod_lt_of_pos n hd'
  have f1 := Int.mul_ediv_add_emod (-n) d
  have f2 := Int.emod_nonneg (-n) (show (d : Int) ≠ 0 by omega)
  have f3 := Int.emod_lt_of_pos (-n) hd'
  simp only [roundInt]
  generalize n / (d : Int) = q at *
  generalize n % (d : Int) = r at *
  generalize (-n) / (d : Int) = q' at *
  generalize (-n) % (d : Int) = r' at *
  have m1 : q * (d : Int) = (d : Int) * q := Int.mul_comm _ _
  have m2 : (q + 1) * (d : Int) = (d : Int) * q + d := by rw [Int.add_mul, m1]; omega
  have m3 : (-q') * (d : Int) = -((d : Int) * q') := by rw [Int.neg_mul, Int.mul_comm]
  have m4 : (-q' - 1) * (d : Int) = -((d : Int) * q') - d := by rw [Int.sub_mul, m3]; omega
  refine ⟨⟨by omega, by omega⟩, ⟨by omega, by omega⟩⟩

/-- `round` picks the integer nearest to `n/d` (`d > 0`), a tie going away from zero:
    `|r - n/d| ≤ 1/2`, with the half-way point included on the far side of zero only -/
theorem C16_roundInt_round_spec (n : Int) (d : Nat) (hd : 0 < d) :
    (0 ≤ n → (2 * roundInt .round n d - 1) * d ≤ 2 * n ∧ 2 * n < (2 * roundInt .round n d + 1) * d) ∧
    (n < 0 → (2 * roundInt .round n d - 1) * d < 2 * n ∧ 2 * n ≤ (2 * roundInt .round n d + 1) * d) := by
  have hd' : (0 : Int) < 2 * d := by omega
  constructor
  · intro hn
    have e1 := Int.mul_ediv_add_emod (2 * n + d) (2 * d)
    have e2 := Int.emod_nonneg (2 * n + d) (show (2 * (d : Int)) ≠ 0 by omega)
    have e3 := Int.emod_lt_of_pos (2 * n + d) hd'
    have hr : roundInt .round n d = (2 * n + d) / (2 * d) := by simp [roundInt, hn]
    rw [hr]
    generalize (2 * n + (d : Int)) / (2 * d) = q at *
    generalize (2 * n + (d : Int)) % (2 * d) = r at *
    have m0 : 2 * (d : Int) * q = 2 * ((d : Int) * q) := Int.mul_assoc _ _ _
    have m1 : (2 * q - 1) * (d : Int) = 2 * ((d : Int) * q) - d := by
      rw [Int.sub_mul, Int.mul_assoc, Int.mul_comm q]; omega
    have m2 : (2 * q + 1) * (d : Int) = 2 * ((d : Int) * q) + d := by
      rw [Int.add_mul, Int.mul_assoc, Int.mul_comm q]; omega
    generalize (d : Int) * q = X at *
    omega
  · intro hn
    have e1 := Int.mul_ediv_add_emod (2 * -n + d) (2 * d)
    have e2 := Int.emod_nonneg (2 * -n + d) (show (2 * (d : Int)) ≠ 0 by omega)
    have e3 := Int.emod_lt_of_pos (2 * -n + d) hd'
    have hr : roundInt .round n d = -((2 * -n + d) / (2 * d)) := by
      have : ¬ n ≥ 0 := by omega
      simp [roundInt, this]
    rw [hr]
    generalize (2 * -n + (d : Int)) / (2 * d) = q at *
    generalize (2 * -n + (d : Int)) % (2 * d) = r at *
    have m0 : 2 * (d : Int) * q = 2 * ((d : Int) * q) := Int.mul_assoc _ _ _
    have m1 : (2 * -q - 1) * (d : Int) = -(2 * ((d : Int) * q)) - d := by
      rw [Int.sub_mul, Int.mul_assoc, Int.neg_mul, Int.mul_comm q]; omega
    have m2 : (2 * -q + 1) * (d : Int) = -(2 * ((d : Int) * q)) + d := by
      rw [Int.add_mul, Int.mul_assoc, Int.neg_mul, Int.mul_comm q]; omega
    generalize (d : Int) * q = X at *
    omega

example : roundInt .floor (-7) 2 = -4 ∧ roundInt .ceil (-7) 2 = -3 ∧ roundInt .round (-7) 2 = -4 ∧
    roundInt .round 5 2 = 3 ∧ roundInt .round 1 4 = 0 := by decide

/-- `floor`/`ceil`/`round` on ALL bit patterns: a NaN stays a NaN; a pattern with exponent field
    ≥ 1075 (`|x| ≥ 2^52`, ±inf) is already integral and is returned unchanged; any other pattern
    gives a finite pattern that denotes EXACTLY the integer the exact value rounds to (in the mode's
    sense, `round` = half away from zero), with the sign of that integer, and a zero result keeps
    the operand's sign (`floor(-0.0) = -0.0`, `ceil(-0.3) = -0.0`, `round(-0.3) = -0.0`) -/
theorem C16_round_spec (mode : Rounding) (x : Bits) :
    (isNaN x = true → isNaN (roundBits mode x) = true) ∧
    (isNaN x = false → expField x ≥ 1075 → roundBits mode x = x) ∧
    (isNaN x = false → expField x < 1075 →
      let n := roundInt mode (finiteValue x).1 (finiteValue x).2
      let r := roundBits mode x
      isNaN r = false ∧ isInf r = false ∧
      (finiteValue r).1 = n * (finiteValue r).2 ∧
      (n = 0 → r = if sign x then 0x8000000000000000 else 0) ∧
      (n ≠ 0 → sign r = decide (n < 0))) := roundBits_spec mode x

example : roundBits .floor 0xC00C000000000000 = 0xC010000000000000 := by decide  -- floor(-3.5) = -4
example : roundBits .round 0x4004000000000000 = 0x4008000000000000 := by decide  -- round(2.5) = 3
example : roundBits .ceil 0xBFD3333333333333 = 0x8000000000000000 := by decide   -- ceil(-0.3) = -0.0
example : isNaN 0xC00C000000000000 = false ∧ expField 0xC00C000000000000 < 1075 := by decide

/-- these three math instructions do not depend on libm at all -/
theorem C16_math_exact_ones (libm libm' : Math1 → Bits → Bits) (x : Bits) :
    math1 libm .floor x = math1 libm' .floor x ∧ math1 libm .ceil x = math1 libm' .ceil x ∧
    math1 libm .round x = math1 libm' .round x := ⟨rfl, rfl, rfl⟩

/-! ## `float_from_int` -/

/-- for every 64-bit integer `n` the result is a finite pattern with the sign of `n`; it denotes `n`
    exactly whenever `|n| ≤ 2^53` — and, beyond, whenever `n` is representable (its low `k-52` bits
    are clear); otherwise it is within half a unit in the last place (`2^(k-53)`, `k` = position of
    the leading bit of `|n|`) of `n`, and at exactly half the significand is even: round to
    nearest, ties to even.  (`finiteValue` = exact rational value numerator/denominator.) -/
theorem C16_float_from_int_spec (n : Int) (hlo : i64Min ≤ n) (hhi : n ≤ i64Max) :
    let r := floatFromInt n
    let v := finiteValue r
    let k := msb 64 n.natAbs
    isNaN r = false ∧ isInf r = false ∧ sign r = decide (n < 0) ∧
    (n.natAbs ≤ 2 ^ 53 → v.1 = n * v.2) ∧
    (2 ^ 53 < n.natAbs → v.2 = 1 ∧ (v.1 - n).natAbs ≤ 2 ^ (k - 53) ∧
      ((v.1 - n).natAbs = 2 ^ (k - 53) → mantissa r % 2 = 0) ∧
      (n.natAbs % 2 ^ (k - 52) = 0 → v.1 = n)) :=
  float_from_int_spec n hlo hhi

example : floatFromInt 9007199254740993 = 0x4340000000000000 := by decide  -- 2^53 + 1 ↦ 2^53 (tie, even)
example : floatFromInt 9007199254740995 = 0x4340000000000002 := by decide  -- 2^53 + 3 ↦ 2^53 + 4 (tie, even)
example : floatFromInt (-3) = 0xC008000000000000 := by decide
example : i64Min ≤ (9007199254740993 : Int) ∧ (9007199254740993 : Int) ≤ i64Max := by decide

/-- the position of the leading bit used above is the real one: `2^k ≤ |n| < 2^(k+1)` -/
theorem C16_msb_spec (a : Nat) (h1 : 1 ≤ a) (h2 : a < 2 ^ 64) :
    2 ^ msb 64 a ≤ a ∧ a < 2 ^ (msb 64 a + 1) := msb_spec 64 a h1 h2

example : 2 ^ msb 64 5 ≤ 5 ∧ 5 < 2 ^ (msb 64 5 + 1) := C16_msb_spec 5 (by decide) (by decide)

end Abra.F64
