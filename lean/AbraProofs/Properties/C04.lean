import AbraProofs.Properties.C33
import AbraProofs.Lemmas.Pratt
import AbraProofs.Lemmas.PatMatrixTerm
/- C04 — the compiler terminates with a result or diagnostics on any text (partial).

   The theorems: the three loops of the front end whose termination is not obvious from their shape —
   the lexer's main loop (`tokenize_file`), the Pratt expression parser (`parse_expr_bp`) and the
   exhaustiveness / usefulness recursion (`compute_exhaustiveness_and_usefulness`) — terminate on EVERY
   input of their models (`Abra.Lex`, `Abra.Pratt`, `Abra.PatMatrix`, built for C29–C33 / C31 / C12–C13 and
   tied to the code there), and the lexer never reads or slices outside the text.  Each is restated here
   about the imported model and proved from its lemmas.
   Not modelled (crash search only): item/statement parser, resolver, type checker. -/

namespace Abra.Lex

/-- **The lexer returns on every input, and every slice it takes is in bounds.**
    (1) The main loop ends because the input is used up, never because the model's fuel ran out: any fuel
        above the length gives the same result as `tokenize`.
    (2) Each step on a non-empty rest consumes at least one character (progress) and at most what is left
        (the `drop`/slice of the rest is in bounds) — whatever the characters are: unterminated strings,
        unterminated block comments, a lone `\` at the end, `"""`, non-ASCII.
    (3) The result is a list of tokens with non-empty spans inside the text, followed by the `eof` token.
    (4) The byte offsets handed out for every token are increasing and within the byte length of the text. -/
theorem C04_lexer_total (src : List Char) :
    (∀ g, src.length < g → tokenizeAux g (shebangLen src) (src.drop (shebangLen src)) = tokenize src) ∧
    (∀ (c : Char) (rest : List Char), 1 ≤ stepLen (c :: rest) ∧ stepLen (c :: rest) ≤ (c :: rest).length) ∧
    (∃ body e, (tokenize src).1 = body ++ [e] ∧ e.kind = .eof ∧
      ∀ t ∈ body, t.lo < t.hi ∧ t.hi ≤ src.length) ∧
    (∀ t ∈ (tokenize src).1, t.kind ≠ .eof →
      bytePos src t.lo < bytePos src t.hi ∧ bytePos src t.hi ≤ utf8Len src) := by
  refine ⟨?_, ?_, ?_, ?_⟩
  · intro g hg
    have hs := shebangLen_le src
    exact tokenizeAux_fuel g (src.length + 1) _ _ (by simp only [List.length_drop]; omega)
      (by simp only [List.length_drop]; omega)
  · intro c rest
    exact ⟨stepLen_pos _, stepLen_le c rest⟩
  · obtain ⟨_, body, hb, hall⟩ := C33_spans_cover src
    exact ⟨body, _, hb, rfl, hall⟩
  · intro t ht hk
    obtain ⟨a, b, _⟩ := C33_token_byte_span src t ht hk
    exact ⟨a, b⟩

/-- after a step the rest is strictly shorter: the measure of the loop -/
theorem C04_lexer_progress (c : Char) (rest : List Char) :
    ((c :: rest).drop (stepLen (c :: rest))).length < (c :: rest).length := by
  have h1 := stepLen_pos (c :: rest)
  simp only [List.length_drop, List.length_cons]
  omega

-- non-vacuity: an unterminated string, an unterminated block comment, a lone backslash — tokens and `eof` come back
example : ((tokenize "let s = \"abc".toList).1.getLast?.map (·.kind)) = some .eof := by decide +kernel
example : (tokenize "x /* never closed".toList).1.map (·.kind) = [.ident ['x'], .eof] := by decide +kernel
example : (tokenize "\\".toList).1.map (·.kind) = [.eof] := by decide +kernel

end Abra.Lex

namespace Abra.Pratt

/-- **The expression parser terminates on every token list**: with the fuel `fuelFor toks` (linear in the
    number of tokens) the model of `parse_expr_bp` never runs out of fuel — it returns an expression with the
    unconsumed rest or a parse error — for every fold mode, so in particular for the code's. -/
theorem C04_expr_parser_terminates (toks : List Tok) :
    (∀ mode, parseExprWith mode toks ≠ .fuel) ∧
    ((∃ e rest, parseExpr toks = .ok e rest) ∨ parseExpr toks = .err) := by
  refine ⟨fun mode => fuel_suffices mode toks, ?_⟩
  have h := fuel_suffices codeFoldMode toks
  unfold parseExpr
  cases hr : parseExprWith codeFoldMode toks with
  | ok e rest => exact Or.inl ⟨e, rest, rfl⟩
  | err => exact Or.inr rfl
  | fuel => exact absurd hr h

/-- more fuel never changes the answer (so the bound is not an artefact of the model) -/
theorem C04_expr_parser_fuel_irrelevant {mode : FoldMode} {f g bp : Nat} {toks : List Tok} {res : Res Expr}
    (h : parseBp mode f bp toks = res) (hne : res ≠ .fuel) (hfg : f ≤ g) : parseBp mode g bp toks = res :=
  parseBp_lift h hne hfg

example : ∃ e rest, parseExpr [.lparen, .lparen, .rparen] = .ok e rest ∨ parseExpr [.lparen, .lparen, .rparen] = .err := by
  rcases (C04_expr_parser_terminates [.lparen, .lparen, .rparen]).2 with ⟨e, r, h⟩ | h
  · exact ⟨e, r, Or.inl h⟩
  · exact ⟨default, [], Or.inr h⟩

end Abra.Pratt

namespace Abra.PatMatrix

/-- **The exhaustiveness / usefulness recursion returns** on every well-typed pattern matrix (`rowsWT`) with any
    fuel above the measure `phi env Ts rows`: `compute` is not out of fuel.  (That `phi` strictly decreases along
    every recursive call, or-pattern expansion and wildcard specialisation included, is the content of
    `AbraProofs/Lemmas/PatMatrixTerm.lean`, from which this is restated.) -/
theorem C04_exhaustiveness_terminates {env : EnumEnv} (Ts : List Ty) (rows : List Row)
    (hwt : rowsWT env Ts rows) (fuel : Nat) (hf : phi env Ts rows < fuel) :
    (compute env fuel Ts rows).isSome = true :=
  compute_isSome fuel Ts rows hwt hf

/-- the entry point used for a `match`: with the driver's fuel the check of well-typed arms always returns -/
theorem C04_match_check_returns {env : EnumEnv} {ty : Ty} {pats : List DPat}
    (hwt : ∀ p ∈ pats, patWT env p ty = true) :
    (checkD env (fuelFor env ty pats) ty pats).isSome = true :=
  checkD_isSome hwt

/-! non-vacuity: a `match` on a bool with arms `true`, `_` — well typed, so both theorems apply -/
def exEnv04 : EnumEnv := fun _ => [[]]
def exPats04 : List DPat := [fromAst exEnv04 .bool (.bool true), fromAst exEnv04 .bool .wild]

theorem exPats04_wt : ∀ p ∈ exPats04, patWT exEnv04 p .bool = true := by decide +kernel

example : (checkD exEnv04 (fuelFor exEnv04 .bool exPats04) .bool exPats04).isSome = true :=
  C04_match_check_returns exPats04_wt

example : (compute exEnv04 (phi exEnv04 [.bool] (initRows 0 exPats04) + 1) [.bool] (initRows 0 exPats04)).isSome = true :=
  C04_exhaustiveness_terminates [.bool] (initRows 0 exPats04) (rowsWT_initRows exPats04_wt 0) _ (Nat.lt_succ_self _)

end Abra.PatMatrix
