import AbraProofs.Lemmas.GC
/-!
# C06 — garbage collection never frees an object the program can still reach

Model: `Abra.GC` (M5).  The collector's transitions are the functions `gcStart`, `gcMarkStep`,
`gcSweepStep` (one loop iteration each, so every byte budget of the real pacing is a finite
repetition of them); the mutator is any step satisfying the contract `MutatorOK` (what one VM
instruction may do; validated on every real step by the correspondence check through
`mutatorOKb`).  The theorems quantify over **all** interleavings of collector increments and
mutator steps, of any length.
-/
namespace Abra.GC

/-- one step of the system: a collector increment (`maybe_gc` with the smallest budget) or one VM
    instruction obeying the mutator contract -/
inductive Step : St → St → Prop
  | gc (σ : St) : Step σ (gcStep σ)
  | mutator {σ σ' : St} {new pushed : List Nat} : MutatorOK σ σ' new pushed → Step σ σ'

inductive Run : St → St → Prop
  | refl (σ : St) : Run σ σ
  | tail {σ σ' σ'' : St} : Run σ σ' → Step σ' σ'' → Run σ σ''

/-- a fresh green thread: empty heap, empty stack, collector idle -/
def init : St :=
  { obj := fun _ => ⟨[], false⟩, done := [], todo := [], roots := [], gray := [], phase := .idle }

theorem init_inv : Inv init := by
  unfold Inv init; simp only
  exact ⟨rfl, rfl, by intro a ha; simp at ha, by intro a ha; simp at ha, by intro a ha; simp at ha⟩

theorem step_inv {σ σ' : St} (h : Inv σ) (s : Step σ σ') : Inv σ' := by
  cases s with
  | gc => exact gcStep_inv h
  | mutator m => exact mutator_inv h m

theorem run_inv {σ σ' : St} (h : Inv σ) (r : Run σ σ') : Inv σ' := by
  induction r with
  | refl => exact h
  | tail _ s ih => exact step_inv ih s

/-- **C06, safety.** In every state reachable from a fresh thread by any interleaving of collector
    increments and contract-abiding mutator steps, every object reachable from the roots (operand
    stack, locals, in-flight string operands; what a closure captured through the closure object)
    is still allocated.  (Since fix 97d7808 a queued channel message is a snapshot owned by the
    channel, not an object of any thread's heap: a channel object has no children.) -/
theorem C06_gc_safe {σ : St} (r : Run init σ) : Safe σ :=
  inv_safe (run_inv init_inv r)

/-- The same from any state satisfying the invariant (e.g. a state observed from the real VM). -/
theorem C06_gc_safe_from {σ σ' : St} (h : Inv σ) (r : Run σ σ') : Safe σ' :=
  inv_safe (run_inv h r)

/-- **C06, the collector itself never touches reclaimed memory**: whenever it is about to
    dereference something — a root at cycle start or at the rescan, a gray-stack entry, a child of
    an object being scanned, a heap-list entry — that address is allocated. -/
theorem C06_collector_derefs_valid {σ : St} (r : Run init σ) :
    (∀ x ∈ σ.roots, x ∈ σ.heap) ∧
    (σ.phase = .marking → (∀ g ∈ σ.gray, g ∈ σ.heap) ∧ ∀ a ∈ σ.heap, ∀ c ∈ σ.children a, c ∈ σ.heap) := by
  have hi := run_inv init_inv r
  refine ⟨fun x hx => inv_safe hi x (Reach.root hx), ?_⟩
  intro hp
  unfold Inv at hi; rw [hp] at hi; simp only at hi
  have hh : σ.heap = σ.todo := heap_of_done_nil hi.done
  rw [hh]
  exact ⟨fun g hg => (hi.gray g hg).1, fun a ha c hc => hi.closed a ha c hc⟩

/-! ### transparency: collector increments do not change what the program can see -/

theorem finishMark_roots (σ : St) : (finishMark σ).roots = σ.roots := by
  unfold finishMark; split
  · rfl
  · simp only; split <;> simp
theorem finishMark_children (σ : St) (x : Nat) : (finishMark σ).children x = σ.children x := by
  unfold finishMark; split
  · rfl
  · simp only; split
    · show (markAll σ σ.roots).children x = _; simp
    · simp

theorem gcStep_roots (σ : St) : (gcStep σ).roots = σ.roots := by
  unfold gcStep gcStart gcMarkStep gcSweepStep
  cases hp : σ.phase <;> simp only
  · show (markAll σ σ.roots).roots = _; simp
  · split
    · exact finishMark_roots σ
    · rw [finishMark_roots]; simp
  · unfold sweepTail sweepOne
    split <;> split <;> (try split) <;> (try split) <;> simp_all

theorem gcStep_children (σ : St) (x : Nat) : (gcStep σ).children x = σ.children x := by
  unfold gcStep gcStart gcMarkStep gcSweepStep
  cases hp : σ.phase <;> simp only
  · show (markAll σ σ.roots).children x = _; simp
  · split
    · exact finishMark_children σ x
    · rw [finishMark_children, markAll_children]; simp [St.children]
  · unfold sweepTail sweepOne
    split <;> split <;> (try split) <;> (try split) <;> simp_all [St.children]

theorem reach_congr {σ τ : St} (hr : τ.roots = σ.roots) (hc : ∀ x, τ.children x = σ.children x) :
    ∀ a, Reach τ a → Reach σ a := by
  intro a h
  induction h with
  | root h => exact Reach.root (by rw [← hr]; exact h)
  | step _ hc' ih => exact Reach.step ih (by rw [← hc]; exact hc')

/-- **C06, transparency.** A collector increment leaves the roots, the children of every object and
    hence the reachable graph exactly as they were, and (by safety) every reachable object allocated.
    This is the model-level content of "the program behaves as with collection disabled": everything
    the mutator can read (roots, children of reachable objects) is unchanged by an increment; that the
    real program's OUTPUT is the same is checked by the harness (runs with collection disabled), not proved. -/
theorem C06_gc_transparent {σ : St} (h : Inv σ) :
    (gcStep σ).roots = σ.roots ∧ (∀ x, (gcStep σ).children x = σ.children x) ∧
    (∀ a, Reach (gcStep σ) a ↔ Reach σ a) ∧ (∀ a, Reach σ a → a ∈ (gcStep σ).heap) := by
  refine ⟨gcStep_roots σ, gcStep_children σ, ?_, ?_⟩
  · intro a
    exact ⟨reach_congr (gcStep_roots σ) (gcStep_children σ) a,
      reach_congr (σ := gcStep σ) (τ := σ) (gcStep_roots σ).symm (fun x => (gcStep_children σ x).symm) a⟩
  · intro a ha
    apply inv_safe (gcStep_inv h)
    exact reach_congr (σ := gcStep σ) (τ := σ) (gcStep_roots σ).symm (fun x => (gcStep_children σ x).symm) a ha

/-- **Tie to the driver.** If the executable contract check accepts a before/after pair observed on
    the real VM and the before-state satisfies the invariant, so does the after-state. -/
theorem C06_checked_step_inv {σ σ' : St} {fuel : Nat} (h : Inv σ)
    (hb : mutatorOKb σ σ' fuel = true) : Inv σ' :=
  mutator_inv h (mutatorOKb_sound hb)

/-! ### the collector as it was before the repair is unsafe (defect D22) -/

namespace Witness
/-- array `1` (gray, being marked) holds the only reference to string `2` (white) -/
def σ0 : St :=
  { obj := fun a => if a = 1 then ⟨[2], true⟩ else ⟨[], false⟩,
    done := [], todo := [1, 2], roots := [1], gray := [1], phase := .marking }
/-- after `ArrayPop`: `2` is on the operand stack and no longer a child of `1` -/
def σ1 : St :=
  { obj := fun a => if a = 1 then ⟨[], true⟩ else ⟨[], false⟩,
    done := [], todo := [1, 2], roots := [1, 2], gray := [1], phase := .marking }
def final : St := gcSweepStep (gcSweepStep (gcMarkStepNoRescan σ1))
end Witness

open Witness in
/-- With roots scanned only at cycle start, a contract-abiding mutator step followed by collector
    increments reclaims a reachable object.  (`σ0` satisfies the marking invariant; the pop is
    accepted by the contract check.) -/
theorem C06_norescan_counterexample :
    InvM σ0 ∧ mutatorOKb σ0 σ1 10 = true ∧ Reach final 2 ∧ 2 ∉ final.heap := by
  refine ⟨⟨rfl, ?_, ?_, ?_, ?_⟩, by decide, Reach.root (by decide), by decide⟩
  · intro a ha c hc
    simp only [σ0, St.children] at *
    split at hc <;> simp_all
  · intro r hr; simp [σ0] at *; simp [hr]
  · intro g hg; simp [σ0, St.marked] at *; simp [hg]
  · intro a ha hm hng; simp [σ0, St.marked] at *; split at hm <;> simp_all

open Witness in
/-- the repaired collector, on the same trace, rescans the roots and keeps marking -/
example : (gcMarkStep σ1).phase = .marking ∧ (gcMarkStep σ1).gray = [2] := by decide

/-- non-vacuity of `C06_gc_safe`: a run with an allocation and a full cycle exists -/
example : Run init (gcStep init) := Run.tail (Run.refl _) (Step.gc _)

end Abra.GC
