import AbraProofs.Lemmas.Int64
/-!
# C15 — integer arithmetic is exact or fails with the documented error

Model: `Abra.I64` (the VM arms and the optimizer folds, as the code calls Rust's `checked_*`).
Every theorem quantifies over *all* pairs of 64-bit integers (no grid, no sample).
-/
namespace Abra.I64

/-- `+`: exact when it fits, otherwise the overflow error. Same shape for `-`, `*`, unary `-`. -/
theorem C15_add_spec (a b : Int) :
    add a b = if MIN ≤ a + b ∧ a + b ≤ MAX then .val (a + b) else .overflow := by
  unfold add checked ofChecked
  by_cases h : MIN ≤ a + b ∧ a + b ≤ MAX
  · simp [h, (inRange_iff _).2 h]
  · have : inRange (a + b) = false := by
      cases hr : inRange (a + b) with
      | false => rfl
      | true => exact absurd ((inRange_iff _).1 hr) h
    simp [h, this]

theorem C15_sub_spec (a b : Int) :
    sub a b = if MIN ≤ a - b ∧ a - b ≤ MAX then .val (a - b) else .overflow := by
  unfold sub checked ofChecked
  by_cases h : MIN ≤ a - b ∧ a - b ≤ MAX
  · simp [h, (inRange_iff _).2 h]
  · have : inRange (a - b) = false := by
      cases hr : inRange (a - b) with
      | false => rfl
      | true => exact absurd ((inRange_iff _).1 hr) h
    simp [h, this]

theorem C15_mul_spec (a b : Int) :
    mul a b = if MIN ≤ a * b ∧ a * b ≤ MAX then .val (a * b) else .overflow := by
  unfold mul checked ofChecked
  by_cases h : MIN ≤ a * b ∧ a * b ≤ MAX
  · simp [h, (inRange_iff _).2 h]
  · have : inRange (a * b) = false := by
      cases hr : inRange (a * b) with
      | false => rfl
      | true => exact absurd ((inRange_iff _).1 hr) h
    simp [h, this]

/-- unary minus: exact, and the only overflow is `-MIN`. -/
theorem C15_neg_spec (a : Int) (ha : inRange a = true) :
    neg a = if a = MIN then .overflow else .val (-a) := by
  have hr := (inRange_iff a).1 ha
  unfold neg
  rw [C15_sub_spec]
  simp only [MIN, MAX] at *
  by_cases h : a = -9223372036854775808
  · subst h; decide
  · have : -9223372036854775808 ≤ 0 - a ∧ 0 - a ≤ 9223372036854775807 := by omega
    simp [h]; omega

/-- `/`: division by zero error for a zero divisor; otherwise truncation toward zero, with the
    overflow error exactly when the exact quotient does not fit — which is `MIN / -1` only. -/
theorem C15_div_spec (a b : Int) (ha : inRange a = true) (hb : inRange b = true) :
    div a b =
      if b = 0 then .divZero
      else if a = MIN ∧ b = -1 then .overflow
      else .val (Int.tdiv a b) := by
  have hra := (inRange_iff a).1 ha
  unfold div
  by_cases h0 : b = 0
  · simp [h0]
  · simp only [h0, if_false]
    by_cases hm : a = MIN ∧ b = -1
    · obtain ⟨h1, h2⟩ := hm; subst h1 h2; decide
    · simp only [hm, if_false]
      have hq : inRange (Int.tdiv a b) = true := by
        rw [inRange_iff]
        simp only [MIN, MAX] at *
        have habs : (Int.tdiv a b).natAbs ≤ a.natAbs := by
          rw [Int.natAbs_tdiv]; exact Nat.div_le_self _ _
        constructor
        · omega
        · -- the only way to exceed MAX is |a| = 2^63 with |q| = |a|, i.e. a = MIN, b = -1
          by_cases hq : Int.tdiv a b = 9223372036854775808
          · exfalso
            have hna : a.natAbs = 9223372036854775808 := by omega
            have haa : a = -9223372036854775808 := by omega
            have hdiv : a.natAbs / b.natAbs = a.natAbs := by
              have h1 := Int.natAbs_tdiv a b
              have h2 : (Int.tdiv a b).natAbs = 9223372036854775808 := by rw [hq]; rfl
              change (Int.tdiv a b).natAbs = a.natAbs / b.natAbs at h1
              omega
            have hb1 : b.natAbs = 1 := by
              rcases Nat.lt_or_ge b.natAbs 2 with hlt | hge
              · omega
              · exfalso
                have : a.natAbs / b.natAbs ≤ a.natAbs / 2 := Nat.div_le_div_left hge (by omega)
                omega
            have hbb : b = 1 ∨ b = -1 := by omega
            rcases hbb with hbb | hbb
            · subst hbb haa; simp at hq
            · exact hm ⟨haa, hbb⟩
          · omega
      simp [ofChecked, checked, hq]

/-- `%`: division by zero error for a zero divisor; otherwise the value `a % b` of Lean's `Int.emod`
    (that this is the Euclidean remainder, `0 ≤ r < |b|` and `a = b * q + r`, is `C15_mod_euclidean`;
    that it fits 64 bits is `C15_mod_result_fits`). -/
theorem C15_mod_spec (a b : Int) :
    mod a b = if b = 0 then .divZero else .val (a % b) := by
  unfold mod; rfl

theorem C15_mod_euclidean (a b : Int) (hb : b ≠ 0) :
    0 ≤ a % b ∧ a % b < b.natAbs ∧ a = b * (a / b) + a % b := by
  refine ⟨Int.emod_nonneg a hb, ?_, (Int.mul_ediv_add_emod a b).symm⟩
  have := Int.emod_lt a hb
  omega

theorem C15_mod_result_fits (a b : Int) (hb : b ≠ 0) (hrb : inRange b = true) :
    inRange (a % b) = true := by
  have ⟨h0, h1, _⟩ := C15_mod_euclidean a b hb
  have := (inRange_iff b).1 hrb
  rw [inRange_iff]; simp only [MIN, MAX] at *; omega

/-- `^` with a non-negative exponent of any size: the exact power when it fits, else overflow. -/
theorem C15_pow_spec (a b : Int) (hb : 0 ≤ b) :
    pow a b = if MIN ≤ a ^ b.toNat ∧ a ^ b.toNat ≤ MAX then .val (a ^ b.toNat) else .overflow := by
  unfold pow
  simp only [hb, if_true]
  rw [checkedPow_eq]
  unfold checked ofChecked
  by_cases h : MIN ≤ a ^ b.toNat ∧ a ^ b.toNat ≤ MAX
  · simp [h, (inRange_iff _).2 h]
  · have : inRange (a ^ b.toNat) = false := by
      cases hr : inRange (a ^ b.toNat) with
      | false => rfl
      | true => exact absurd ((inRange_iff _).1 hr) h
    simp [h, this]

/-- Literal operands (constant-folded by the optimizer) behave as variable operands:
    a fold never changes the value and never hides an error. -/
theorem C15_forms_agree (op : Op) (a b : Int) : applyFolded op a b = apply op a b := by
  unfold applyFolded
  cases op <;> simp only [fold, apply]
  · unfold add ofChecked; cases checked (a + b) <;> rfl
  · unfold sub ofChecked; cases checked (a - b) <;> rfl
  · unfold mul ofChecked; cases checked (a * b) <;> rfl
  · unfold div ofChecked
    by_cases h : b = 0
    · simp [h]
    · simp only [h, if_false]; cases checked (Int.tdiv a b) <;> rfl
  · cases pow a b <;> rfl

/-- A chain `(x op1 c1) op2 c2` is exact or fails exactly where the FIRST inexact step is: when the
    intermediate result does not fit, the chain stops with that error whatever `c2` would have
    brought back into range. -/
theorem C15_chain_spec (op1 op2 : Op) (x c1 c2 : Int) :
    (∀ y, apply op1 x c1 = .val y → chain op1 op2 x c1 c2 = apply op2 y c2) ∧
    (apply op1 x c1 = .overflow → chain op1 op2 x c1 c2 = .overflow) ∧
    (apply op1 x c1 = .divZero → chain op1 op2 x c1 c2 = .divZero) := by
  refine ⟨?_, ?_, ?_⟩ <;> intro h <;> (try intro h') <;> simp_all [chain]

/-- Checked addition is not associative: folding the two constants of `x + c1 + c2` into `x + (c1 + c2)`
    (a tempting peephole rule, guarded or not by `c1 + c2` fitting) loses the overflow of the
    intermediate sum.  This is why the optimizer model has no such rule, and the point a seeded
    reassociation rule fails at. -/
theorem C15_reassociation_counterexample :
    chain .add .add MAX 1 (-1) = .overflow ∧ add MAX (1 + -1) = .val MAX ∧ inRange (1 + -1) = true ∧
    chain .add .add (MIN + 1) (-2) 5 = .overflow ∧ add (MIN + 1) (-2 + 5) = .val (MIN + 4) := by decide

/-! Non-vacuity: the boundary points at which the unrepaired code failed are covered by the
    hypotheses (in-range operands) and give the documented answers. -/
example : div MIN (-1) = .overflow := by decide
example : mod MIN (-1) = .val 0 := by decide
example : pow 2 4294967298 = .overflow := by decide
example : inRange MIN = true ∧ inRange (-1) = true := by decide

end Abra.I64
