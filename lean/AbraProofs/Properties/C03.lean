import AbraProofs.Lemmas.Analysis
/-!
# C03 — every program accepted by the checker compiles (analysis tables and loop context)

Model: `Abra.Analysis` (the repaired `collect_locals_*`, `collect_captures_*`,
`calculate_args_captures_locals`, the offset table, the two loop stacks).

* `C03_offsets_complete` (`_task`, `_own_assign`) — every key the translator looks up in a function's offset table
  (variable reads, pattern binders, hidden temporaries, assigned variables, the captures loaded when a nested
  lambda/task is created) has an entry, for every lambda/task the checker accepts (the checker rejects assignment
  to a captured variable, fdfd074).
* `C03_checker_rejects_captured_assign` — the former D20 shape is rejected by the checker model.
* `C03_loop_ctx_agree` — a `break`/`continue` the checker's loop stack accepts finds a loop on the code
  generator's loop stack (lambda/task bodies start with an empty stack on both sides).

-- OPEN: the other panic sites of translate_bytecode.rs (`unreachable!`, `panic!("unexpected pattern")`) are not
-- modelled; they are reached only through the tie (accepted ⇒ compiles, over the nesting stream and the template
-- families of harness/src/bg9cov.rs).  (The `unimplemented!()` for compound assignment through a user `Index` is gone:
-- D79, 33617bc.)
-/
namespace Abra.Analysis

/-- lookups are covered once every assigned variable is one the function owns or reads -/
theorem offsets_complete_of_assign (ps : List Nat) (body : RExpr)
    (hassign : ∀ x ∈ assignedE body, x ∈ ps ∨ x ∈ localsE body ∨ x ∈ usesE body) :
    ∀ k ∈ lookupsE body, k ∈ tableKeys ps body := by
  intro k hk
  rw [tableKeys_eq]
  simp only [List.mem_append, List.mem_reverse]
  have key : ∀ k, k ∈ usesE body → (k ∈ ps ∨ k ∈ capturesOf ps body) ∨ k ∈ localsE body := by
    intro k hu
    by_cases hl : k ∈ localsE body
    · exact .inr hl
    · by_cases hp : k ∈ ps
      · exact .inl (.inl hp)
      · exact .inl (.inr (by rw [capturesOf, mem_filter_not]; exact ⟨hu, hl, hp⟩))
  rcases lookupsE_sub body k hk with h | h | h
  · exact key k h
  · exact .inr h
  · rcases hassign k h with h | h | h
    · exact .inl (.inl h)
    · exact .inr h
    · exact key k h

/-- **Offset tables are complete** for every lambda `(ps) -> body` (and, with `ps = []`, `localsE body` alone, every
    task) that the checker accepts: each key looked up while translating `body` — variable reads, pattern binders,
    hidden temporaries, assigned variables, the captures loaded when a nested lambda/task is created — has an entry
    in the table `translate_func_body_helper` builds.  The checker's rule (fdfd074) is what makes assigned variables
    the function's own. -/
theorem C03_offsets_complete (ps : List Nat) (body : RExpr)
    (hchk : checkerAssignE none (.lam ps body) = true) :
    ∀ k ∈ lookupsE body, k ∈ tableKeys ps body := by
  simp only [checkerAssignE] at hchk
  apply offsets_complete_of_assign
  intro x hx
  have := assignedE_own body _ hchk x hx
  simp only [List.mem_append] at this
  rcases this with h | h
  · exact .inl h
  · exact .inr (.inl h)

theorem C03_offsets_complete_task (body : RExpr) (hchk : checkerAssignE none (.task body) = true) :
    ∀ k ∈ lookupsE body, k ∈ tableKeys [] body := by
  simp only [checkerAssignE] at hchk
  apply offsets_complete_of_assign
  intro x hx
  exact .inr (.inl (assignedE_own body _ hchk x hx))

/-- named functions and `<main>` (no enclosing function: every resolved local they assign is their own
    parameter or local — a fact of name resolution, taken as hypothesis) -/
theorem C03_offsets_complete_own_assign (ps : List Nat) (body : RExpr)
    (hassign : ∀ x ∈ assignedE body, x ∈ ps ∨ x ∈ localsE body) :
    ∀ k ∈ lookupsE body, k ∈ tableKeys ps body :=
  offsets_complete_of_assign ps body (fun x hx => (hassign x hx).elim .inl (fun h => .inr (.inl h)))

/-- the former D20 shape `() -> { x = 3 }` (x bound outside) is rejected by the checker model; it is also exactly
    the shape for which a lookup would have no entry -/
theorem C03_checker_rejects_captured_assign :
    checkerAssignE none (.lam [] (.block (RStmts.ofList [.assignVar 7 .lit]))) = false ∧
    (∃ k ∈ lookupsE (.block (RStmts.ofList [.assignVar 7 .lit])), k ∉ tableKeys [] (.block (RStmts.ofList [.assignVar 7 .lit]))) :=
  ⟨by decide, 7, by decide, by decide⟩

/-- **The loop contexts agree**: whatever the checker's loop stack lets through (starting outside any loop,
    as at the top of a function body) does not make the code generator unwrap an empty loop stack. -/
theorem C03_loop_ctx_agree (e : RExpr) (h : checkerLoopsE false e = true) : codegenLoopsE 0 e = true :=
  loops_agreeE e false 0 (by intro h; cases h) h

/-- and the checker does reject a `break` that only an enclosing function's loop surrounds -/
theorem C03_loop_ctx_rejects_break_in_lambda :
    checkerLoopsS false (.while_ .lit (RStmts.ofList [.expr (.lam [] (.block (RStmts.ofList [.break_])))])) = false := by
  decide

/-! ### non-vacuity -/

/-- `(a) -> { let t = a + k; for i in n { if c { break }; arr[{ let j = i; j }] += t }; (b) -> b + t + k }` -/
def demoBody : RExpr :=
  .block (RStmts.ofList [
    .let_ [10] (.op (RExprs.ofList [.var 1, .var 2])),
    .for_ [11] (.var 3) (RStmts.ofList [
      .expr (.ite (.var 4) (.block (RStmts.ofList [.break_])) (.block .nil)),
      .assignPlace [30, 31] (.op (RExprs.ofList [.var 5, .block (RStmts.ofList [.let_ [12] (.var 11), .expr (.var 12)])])) (.var 10)]),
    .expr (.lam [20] (.op (RExprs.ofList [.var 20, .var 10, .var 2])))])

example : checkerAssignE none (.lam [1] demoBody) = true
    ∧ lookupsE demoBody ≠ [] ∧ checkerLoopsE false demoBody = true := by decide

example : capturesOf [1] demoBody = [2, 3, 4, 5, 2] ∧ localsE demoBody = [10, 11, 30, 31, 12] := by decide

end Abra.Analysis
