import AbraProofs.Lemmas.Arena
/-!
# C38 — arena allocation is memory-safe for values of any size

Model: `Abra.Arena` (`utils/src/arena.rs`, `Arena::with_capacity` / `Arena::alloc`, repaired D14).
A history is any list of requests `(size, align, fresh)`; `fresh` is the address the global allocator
would return for a new buffer at that moment, so every theorem below holds **for every address the
allocator may choose** (the buffers are `Box<[MaybeUninit<u8>]>`, alignment 1), for every initial
capacity and base address, and for histories of any length.  The only hypothesis on a request is
`0 < align` (Rust alignments are powers of two).
-/
namespace Abra.Arena

/-- every request carries a positive alignment -/
def Valid (rs : List Req) : Prop := ∀ r ∈ rs, 0 < r.align

instance (rs : List Req) : Decidable (Valid rs) := by unfold Valid; infer_instance

/-- absolute address range `[lo, hi)` of a placement, given the buffer it names -/
def Placement.lo (bs : List Buf) (p : Placement) : Nat := (bs[p.buf]?.getD default).base + p.start
def Placement.hi (bs : List Buf) (p : Placement) : Nat := p.lo bs + p.size

/-- **No allocation writes outside the arena's buffers**: every placement of every history names a
    buffer the arena owns and `start + size ≤ len` of that buffer. -/
theorem C38_alloc_in_bounds (base cap : Nat) (rs : List Req) (hv : Valid rs) :
    ∀ p ∈ (run (withCapacity base cap) rs).2,
      ∃ b, (run (withCapacity base cap) rs).1.bufs[p.buf]? = some b ∧ p.start + p.size ≤ b.len := by
  intro p hp
  have h := inv_run rs _ [] (inv_init base cap) hv
  obtain ⟨b, hb, h1, _⟩ := h.ok p (by simpa using hp)
  exact ⟨b, hb, h1⟩

example : Valid [⟨8, 8, 1001⟩, ⟨16, 16, 2003⟩, ⟨0, 1, 5⟩] := by decide

/-- **Correctly aligned**: the *absolute* address (`base + start`) of every placement is a multiple
    of the requested alignment — whatever base addresses the allocator chose. -/
theorem C38_alloc_aligned (base cap : Nat) (rs : List Req) (hv : Valid rs) :
    ∀ p ∈ (run (withCapacity base cap) rs).2,
      ∃ b, (run (withCapacity base cap) rs).1.bufs[p.buf]? = some b ∧ (b.base + p.start) % p.align = 0 := by
  intro p hp
  have h := inv_run rs _ [] (inv_init base cap) hv
  obtain ⟨b, hb, _, h2⟩ := h.ok p (by simpa using hp)
  exact ⟨b, hb, h2⟩

/-- **Non-overlapping**: two placements of one history are in different buffers or occupy disjoint
    byte ranges of the same buffer. -/
theorem C38_alloc_disjoint (base cap : Nat) (rs : List Req) (hv : Valid rs) :
    (run (withCapacity base cap) rs).2.Pairwise
      (fun p q => p.buf ≠ q.buf ∨ p.start + p.size ≤ q.start ∨ q.start + q.size ≤ p.start) := by
  have h := inv_run rs _ [] (inv_init base cap) hv
  simp only [List.nil_append] at h
  exact h.disj

/-- the allocator's contract: distinct live boxes do not share a byte -/
def BufsDisjoint (bs : List Buf) : Prop :=
  bs.Pairwise (fun a b => a.base + a.len ≤ b.base ∨ b.base + b.len ≤ a.base)

instance (bs : List Buf) : Decidable (BufsDisjoint bs) := by unfold BufsDisjoint; infer_instance

/-- **Non-overlapping, in absolute addresses**: if the buffers handed out by the global allocator are
    pairwise disjoint (its contract for simultaneously live boxes), the address ranges of all
    placements are pairwise disjoint. -/
theorem C38_alloc_disjoint_abs (base cap : Nat) (rs : List Req) (hv : Valid rs)
    (hb : BufsDisjoint (run (withCapacity base cap) rs).1.bufs) :
    (run (withCapacity base cap) rs).2.Pairwise
      (fun p q => p.hi (run (withCapacity base cap) rs).1.bufs ≤ q.lo (run (withCapacity base cap) rs).1.bufs
                ∨ q.hi (run (withCapacity base cap) rs).1.bufs ≤ p.lo (run (withCapacity base cap) rs).1.bufs) := by
  have h := inv_run rs _ [] (inv_init base cap) hv
  simp only [List.nil_append] at h
  generalize (run (withCapacity base cap) rs).1 = s at *
  generalize (run (withCapacity base cap) rs).2 = log at *
  have hd := h.disj
  refine List.Pairwise.imp_of_mem ?_ hd
  intro p q hp hq hpq
  obtain ⟨bp, hbp, hp1, _⟩ := h.ok p hp
  obtain ⟨bq, hbq, hq1, _⟩ := h.ok q hq
  simp only [Placement.hi, Placement.lo, hbp, hbq, Option.getD_some]
  by_cases e : p.buf = q.buf
  · rw [e, hbq] at hbp
    cases hbp
    rcases hpq with h1 | h1 | h1
    · exact absurd e h1
    · left; omega
    · right; omega
  · -- different buffers: use the allocator's contract
    have hip : p.buf < s.bufs.length := by
      rcases Nat.lt_or_ge p.buf s.bufs.length with h | h
      · exact h
      · rw [List.getElem?_eq_none h] at hbp; cases hbp
    have hiq : q.buf < s.bufs.length := by
      rcases Nat.lt_or_ge q.buf s.bufs.length with h | h
      · exact h
      · rw [List.getElem?_eq_none h] at hbq; cases hbq
    rw [List.getElem?_eq_getElem hip] at hbp
    rw [List.getElem?_eq_getElem hiq] at hbq
    cases hbp; cases hbq
    unfold BufsDisjoint at hb
    rw [List.pairwise_iff_getElem] at hb
    rcases Nat.lt_or_gt_of_ne e with hlt | hlt
    · rcases hb p.buf q.buf hip hiq hlt with h1 | h1
      · left; omega
      · right; omega
    · rcases hb q.buf p.buf hiq hip hlt with h1 | h1
      · right; omega
      · left; omega

example : BufsDisjoint (run (withCapacity 1001 8) [⟨8, 8, 3001⟩, ⟨16, 16, 5003⟩]).1.bufs := by decide

/-- **References stay valid (stable)**: allocating more never moves, shrinks or drops a buffer, and
    never changes where an earlier value was placed — the buffer list after a longer history extends
    the one after a shorter history, and so does the placement log. -/
theorem C38_alloc_stable (s : State) (rs₁ rs₂ : List Req) :
    (run s rs₁).1.bufs <+: (run s (rs₁ ++ rs₂)).1.bufs ∧
    (run s rs₁).2 <+: (run s (rs₁ ++ rs₂)).2 := by
  rw [run_append]
  exact ⟨bufs_run_prefix rs₂ _, List.prefix_append _ _⟩

/-- in particular: a placement valid after `rs₁` names the same buffer (same base, same length)
    after any continuation `rs₂` -/
theorem C38_alloc_stable_buf (s : State) (rs₁ rs₂ : List Req) (i : Nat) (b : Buf)
    (h : (run s rs₁).1.bufs[i]? = some b) : (run s (rs₁ ++ rs₂)).1.bufs[i]? = some b :=
  getElem?_of_prefix (C38_alloc_stable s rs₁ rs₂).1 h

example : (run (withCapacity 1001 8) [⟨8, 8, 3001⟩]).1.bufs[0]? = some ⟨1001, 8⟩ := by decide

/-- The log answers the requests: the i-th placement has the i-th request's size and alignment
    (values "of any size": there is no bound on `size`). -/
theorem C38_log_matches_requests (rs : List Req) : ∀ s : State,
    (run s rs).2.map (fun p => (p.size, p.align)) = rs.map (fun r => (r.size, r.align)) := by
  induction rs with
  | nil => intro s; rfl
  | cons r rs ih =>
    intro s
    rw [run_cons]
    simp only [List.map_cons, ih]
    congr 1
    rw [alloc_eq]; split <;> rfl

/-- Arithmetic of `padding` only: for `0 < align`, `addr + padding addr align` is a multiple of
    `align`, and `padding addr align ≤ k` for every `k` with `(addr + k) % align = 0` (the padding is
    the least number of bytes that aligns the address). -/
theorem C38_padding_minimal (addr align k : Nat) (ha : 0 < align) (hk : (addr + k) % align = 0) :
    (addr + padding addr align) % align = 0 ∧ padding addr align ≤ k :=
  ⟨padding_aligned addr align ha, padding_least addr align k ha hk⟩

example : (13 + 3) % 8 = 0 := by decide

/-- The defect D14 of the unrepaired code, as arithmetic: padding computed from the offset alone
    (`(align - offset % align) % align`) does not align the address when the base is odd, and an
    offset kept across a buffer switch (`with_capacity(8)`, a `u64`, then a 16-byte value into the new
    16-byte buffer at the old offset 8) ends at 24 > 16. -/
theorem C38_d14_arithmetic_witness :
    (1001 + (0 + padding 0 8)) % 8 ≠ 0 ∧ (8 + padding 8 8) + 16 > max (2 * 8) 16 := by decide

end Abra.Arena
