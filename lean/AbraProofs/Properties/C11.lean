import AbraProofs.Lemmas.SchedStatus
import AbraProofs.Lemmas.SchedSolo
import AbraModel.MiniVM
/-!
# C11 — the runtime reports completion, errors, step counts and host calls truthfully

Model: `Abra.Sched` (M4) for ANY thread step function; the host-call protocol on the concrete
stack machine `Abra.MiniVM`.  `MainQueued r` = the main thread is in the run queue, unfinished, and
no finished thread and no failed task waits in a queue (true for `Runtime.new`, kept by every call that does not report
completion — part of `C11_done_iff_main_stopped`).
-/
namespace Abra.Sched
variable {T V E : Type}

/-- A step budget of `k` executes at most `k` instructions — for every state, no hypothesis. -/
theorem C11_steps_le_budget (step : T → Action T V E) (b : Nat) (r : Runtime T V E) :
    (runN step b r).steps ≤ b := by
  unfold runN; simp only
  split <;> exact roundRobin_steps_le step b r

/-- `steps_consumed` is exactly the number of instructions executed by the call (one `trace` event
    each, whichever thread ran it) — for every state, no hypothesis. -/
theorem C11_steps_eq_executed (step : T → Action T V E) (b : Nat) (r : Runtime T V E) :
    (runN step b r).rt.trace.length = r.trace.length + (runN step b r).steps := by
  unfold runN; simp only
  split <;> exact roundRobin_trace step b r

theorem mainQueued_new (m : T) : MainQueued (Runtime.new m : Runtime T V E) :=
  ⟨noDone_new m, rfl, ⟨{ id := 0, isMain := true, st := m }, by simp [Runtime.new], rfl⟩, by simp [Runtime.new]⟩

theorem mainQueued_drain (r : Runtime T V E) (hm : MainQueued r) :
    (drainNewThreads r).2 = false ∧ MainQueued (drainNewThreads r).1 ∧ (drainNewThreads r).1.newThreads = [] := by
  have hf := drainAux_flag r.newThreads r hm.noDone.2
  have hq := drainAux_queue r.newThreads r hm.noDone.2
  refine ⟨hf, ⟨drain_noDone r hm.noDone, ?_, ?_, ?_⟩, drain_newThreads r hf⟩
  · show (drainAux r r.newThreads).1.finishedMain = none
    rw [hq.2]; exact hm.fin
  · obtain ⟨m, hmq, hmm⟩ := hm.main
    refine ⟨m, ?_, hmm⟩
    show m ∈ (drainAux r r.newThreads).1.runQueue
    rw [hq.1]; simp [hmq]
  · intro t ht
    rw [drain_newThreads r hf] at ht; simp at ht

/-- **Completion.**  With the main thread queued, whatever the other threads are doing (running,
    blocked on reads, waiting for the host, failed):
    * the call reports `Done` exactly when `run_threads_round_robin` returned `main_thread_done`;
    * that happens exactly in the call in which the main thread executes `Stop`: the last instruction
      executed by the call is the main thread's `Stop`, the call returns at once, and the finished main
      thread (whose stack holds the program's result) is kept in `finished_main_thread`;
    * otherwise the main thread is still queued afterwards, so `Done` is never reported early. -/
theorem C11_done_iff_main_stopped (step : T → Action T V E) (b : Nat) (r : Runtime T V E) (hm : MainQueued r) :
    ((runN step b r).status = .done ↔ (runN step b r).doneNow = true) ∧
    ((runN step b r).doneNow = true →
        ∃ m, (runN step b r).rt.finishedMain = some m ∧ m.isMain = true ∧ m.done = true ∧
          (runN step b r).rt.trace.getLast? = some ⟨m.id, .stop⟩ ∧ 1 ≤ (runN step b r).steps) ∧
    ((runN step b r).doneNow = false → MainQueued (runN step b r).rt) := by
  obtain ⟨hd2, hdm, hdn⟩ := mainQueued_drain r hm
  have hl := loop_main step b 0 _ hdn hdm
  unfold runN roundRobin
  simp only [hd2, Bool.false_eq_true, if_false]
  by_cases hf : (loop step b 0 (drainNewThreads r).1).2.1 = true
  · simp only [hf, if_true]
    refine ⟨by simp, fun _ => ?_, by simp⟩
    obtain ⟨m, h1, h2, h3, h4⟩ := hl.1 hf
    refine ⟨m, h1, h2, h3, h4, ?_⟩
    have := loop_done_steps step b 0 _ hdn hdm hf
    omega
  · have hf' : (loop step b 0 (drainNewThreads r).1).2.1 = false := by simpa using hf
    simp only [hf', Bool.false_eq_true, if_false]
    have hq := hl.2 hf'
    exact ⟨by simp [updateStatus_not_done _ hq], by simp, fun _ => hq⟩

example : ∃ r : Runtime Nat Nat Nat, MainQueued r := ⟨Runtime.new 0, mainQueued_new 0⟩

/-- **Errors.**  With the main thread queued, a call reports `MainThreadError e` exactly when it did
    not report completion and the main thread found by `try_get_main` has no pending host call and has
    `error = Some(e)`; in particular an error is never reported as `Done` (by
    `C11_done_iff_main_stopped`, `Done` needs the main thread to execute `Stop`, and a failed thread
    never runs again). -/
theorem C11_main_error_reported (step : T → Action T V E) (b : Nat) (r : Runtime T V E) (hm : MainQueued r) (e : E) :
    (runN step b r).status = .mainError e ↔
      ((runN step b r).doneNow = false ∧
        ∃ m, tryGetMain (runN step b r).rt = some m ∧ m.pending = none ∧ m.err = some e) := by
  have h3 := (C11_done_iff_main_stopped step b r hm).2.2
  by_cases hdn : (runN step b r).doneNow = true
  · have : (runN step b r).status = .done := ((C11_done_iff_main_stopped step b r hm).1).mpr hdn
    simp [this, hdn]
  · have hdn' : (runN step b r).doneNow = false := by simpa using hdn
    have hq := h3 hdn'
    obtain ⟨m, hmq, _, hg⟩ := tryGetMain_queued _ hq.main
    have hmd := gone_done (hq.noDone.1 m hmq)
    have hst : (runN step b r).status = updateStatus (runN step b r).rt := by
      unfold runN at hdn' ⊢; simp only at hdn' ⊢; split <;> simp_all
    rw [hst]
    simp only [hdn', true_and]
    have hex : (∃ m', tryGetMain (runN step b r).rt = some m' ∧ m'.pending = none ∧ m'.err = some e) ↔
        (m.pending = none ∧ m.err = some e) := by
      rw [hg]; constructor
      · rintro ⟨m', h1, h2⟩; cases h1; exact h2
      · intro h; exact ⟨m, rfl, h⟩
    rw [hex]
    unfold updateStatus
    rw [hg]
    simp only [Thread.status, hmd]
    cases hp : m.pending with
    | some n => simp
    | none =>
      cases he : m.err with
      | none => simp [anyPending]; split <;> simp
      | some e' => simp

/-- the kind of the error is the one set by the failing instruction -/
theorem C11_error_kind_from_instruction (step : T → Action T V E) (r : Runtime T V E) (th : Thread T E)
    (e : E) (t : T) (h : step th.st = .error e t) :
    (exec step r th).2.err = some e ∧ (exec step r th).1.trace = r.trace ++ [⟨th.id, .error e⟩] := by
  unfold exec; rw [h]; exact ⟨rfl, rfl⟩

/-- **Priority of the status** (`update_status_helper`): the main thread's pending host call or error
    first; only when the main thread is merely out of steps does another thread's pending call show. -/
theorem C11_status_priority (r : Runtime T V E) (m : Thread T E) (h : tryGetMain r = some m) (hd : m.gone = false) :
    updateStatus r =
      match m.pending, m.err with
      | some _, _ => .pendingHost
      | none, some e => .mainError e
      | none, none => if r.runQueue.any (fun t => t.pending.isSome) then .pendingHost else .outOfSteps := by
  unfold updateStatus
  rw [h]
  simp only [Thread.status, gone_done hd]
  cases m.pending <;> cases m.err <;> simp [anyPending]

end Abra.Sched

/-! ### the host-call protocol on the stack machine -/
namespace Abra.MiniVM
open Abra.Sched

theorem popN_append (k : Nat) (S args acc : List Int) (h : args.length = k) :
    popN k (S ++ args) acc = (args ++ acc, S) := by
  induction k generalizing args acc with
  | zero => simp [List.length_eq_zero_iff.mp h, popN]
  | succ k ih =>
    rcases List.eq_nil_or_concat args with rfl | ⟨as, a, rfl⟩
    · simp at h
    · simp only [List.concat_eq_append] at h ⊢
      simp at h
      rw [popN]
      have : (S ++ (as ++ [a])).getLast? = some a := by simp
      simp only [this]
      have hd : (S ++ (as ++ [a])).dropLast = S ++ as := by
        rw [← List.append_assoc, List.dropLast_concat]
      rw [hd, ih as (a :: acc) h]
      simp

/-- a lone main thread about to run the tail `args.map pushInt ++ [hostFunc n]` of its program -/
theorem run_pushes (prog : List Instr) (n : Nat) (args : List Int) :
    ∀ (S : List Int) (pc b : Nat) (r : Runtime St Int String) (m : Thread St String),
      r.runQueue = [m] → r.newThreads = [] → m.canRun = true → m.isMain = true → m.st = ⟨pc, S⟩ →
      (∀ i (h : i < args.length), prog[pc + i]? = some (.pushInt args[i])) →
      prog[pc + args.length]? = some (.hostFunc n) →
      args.length + 1 ≤ b →
      (runN (stepI prog) b r).status = .pendingHost ∧ (runN (stepI prog) b r).steps = args.length + 1 ∧
      (runN (stepI prog) b r).rt.runQueue =
        [{ m with st := ⟨pc + args.length + 1, S ++ args⟩, pending := some n }] ∧
      (runN (stepI prog) b r).rt.newThreads = [] := by
  induction args with
  | nil =>
    intro S pc b r m hq hn hc hmain hst _ hhost hb
    obtain ⟨b', rfl⟩ : ∃ b', b = 1 + b' := ⟨b - 1, by simp at hb; omega⟩
    have hd : NoDone r := ⟨by simp [hq]; exact canRun_done hc, by simp [hn]⟩
    have hstep : stepI prog m.st = .host n ⟨pc + 1, S⟩ := by
      have hhost' : prog[pc]? = some (.hostFunc n) := by simpa using hhost
      simp [stepI, hst, hhost']
    have h1 := runN_one_exact (stepI prog) r m hn hq hc
    simp only [exec, hstep, finishThreadTurn, canRun_done' hc, hmain, hn, drainNewThreads, drainAux, Bool.not_true, Bool.false_and,
      Bool.and_false, Bool.false_eq_true, if_false, List.nil_append] at h1
    rw [runN_add (stepI prog) 1 b' r hd, h1]
    simp only [Bool.false_eq_true, if_false]
    rw [runN_stuck (stepI prog) b' _ (by refine ⟨rfl, ?_⟩; simp [Thread.canRun, Thread.gone, canRun_done' hc, hmain])]
    simp [updateStatus, tryGetMain, hmain, Thread.status, canRun_done' hc]
  | cons a args ih =>
    intro S pc b r m hq hn hc hmain hst hargs hhost hb
    obtain ⟨b', rfl⟩ : ∃ b', b = 1 + b' := ⟨b - 1, by simp at hb; omega⟩
    have hd : NoDone r := ⟨by simp [hq]; exact canRun_done hc, by simp [hn]⟩
    have hstep : stepI prog m.st = .cont ⟨pc + 1, S ++ [a]⟩ := by
      have := hargs 0 (by simp)
      simp at this
      simp [stepI, hst, this]
    have h1 := runN_one_exact (stepI prog) r m hn hq hc
    simp only [exec, hstep, finishThreadTurn, canRun_done' hc, hmain, hn, drainNewThreads, drainAux, Bool.not_true, Bool.false_and,
      Bool.and_false, Bool.false_eq_true, if_false, List.nil_append] at h1
    rw [runN_add (stepI prog) 1 b' r hd]
    have hdn : (runN (stepI prog) 1 r).doneNow = false := by rw [h1]
    have hs1 : (runN (stepI prog) 1 r).steps = 1 := by rw [h1]
    have hq' : (runN (stepI prog) 1 r).rt.runQueue = [{ m with st := ⟨pc + 1, S ++ [a]⟩ }] := by
      rw [h1]; simp [canRun_done' hc, hmain]
    have hn' : (runN (stepI prog) 1 r).rt.newThreads = [] := by rw [h1]
    simp only [hdn, Bool.false_eq_true, if_false, hs1]
    have hc' : ({ m with st := (⟨pc + 1, S ++ [a]⟩ : St) } : Thread St String).canRun = true := by
      simpa [Thread.canRun] using hc
    have := ih (S ++ [a]) (pc + 1) b' (runN (stepI prog) 1 r).rt { m with st := ⟨pc + 1, S ++ [a]⟩ } hq' hn' hc' hmain rfl
      (fun i h => by
        have := hargs (i + 1) (by simp; omega)
        simpa [Nat.add_assoc, Nat.add_comm 1 i] using this)
      (by simpa [Nat.add_assoc, Nat.add_comm 1] using hhost)
      (by simp at hb; omega)
    obtain ⟨i1, i2, i3, i4⟩ := this
    refine ⟨i1, ?_, ?_, i4⟩
    · simp [i2]; omega
    · rw [i3]; simp [Nat.add_assoc, Nat.add_comm 1]

end Abra.MiniVM

namespace Abra.Sched
open Abra.MiniVM

/-- **Host calls.**  A program whose main thread evaluates the arguments `args` (in parameter order)
    and executes `HostFunc(n)`, run with any sufficient budget:
    * the call reports `PendingHostFunc` after exactly `|args| + 1` instructions;
    * the pending thread's operand stack holds exactly the arguments, in parameter order, last on top
      (above whatever was there: `S`), its pc is already past the `HostFunc` instruction;
    * the embedder's binding (pop `|args|` values, last parameter first; push the result; clear the
      flag) sees exactly `(n, args)` and leaves the thread runnable with the result on top of `S`, so
      execution resumes after the instruction with the host's value on top. -/
theorem C11_host_call_args (args : List Int) (n : Nat) (rest : List Instr) (f : Nat → List Int → Int)
    (arity : Nat → Nat) (ha : arity n = args.length) (b : Nat) (hb : args.length + 1 ≤ b) :
    let prog := args.map Instr.pushInt ++ [Instr.hostFunc n] ++ rest
    let r0 : Runtime St Int String := Runtime.new ⟨0, []⟩
    let x := runN (stepI prog) b r0
    x.status = .pendingHost ∧ x.steps = args.length + 1 ∧
    x.rt.runQueue = [{ id := 0, isMain := true, st := ⟨args.length + 1, args⟩, pending := some n }] ∧
    (serviceAll (echoHost arity f) [] x.rt).1 = [(n, args)] ∧
    (serviceAll (echoHost arity f) [] x.rt).2.runQueue =
      [{ id := 0, isMain := true, st := ⟨args.length + 1, [f n args]⟩, pending := none }] := by
  intro prog r0 x
  have hp : ∀ i (h : i < args.length), prog[0 + i]? = some (.pushInt args[i]) := by
    intro i h
    simp [prog, List.getElem?_append, h]
  have hh : prog[0 + args.length]? = some (.hostFunc n) := by
    simp [prog, List.getElem?_append]
  have := run_pushes prog n args [] 0 b r0 { id := 0, isMain := true, st := ⟨0, []⟩ } rfl rfl rfl rfl rfl hp hh hb
  obtain ⟨h1, h2, h3, h4⟩ := this
  refine ⟨h1, h2, by simpa using h3, ?_, ?_⟩
  · simp only [serviceAll, x, h3, serviceList, echoHost, ha]
    have := popN_append args.length [] args [] rfl
    simp at this
    simp [this]
  · simp only [serviceAll, x, h3, serviceList, echoHost, ha]
    have := popN_append args.length [] args [] rfl
    simp at this
    simp [this]

example : ∃ (arity : Nat → Nat) (args : List Int) (n b : Nat), arity n = args.length ∧ args.length + 1 ≤ b :=
  ⟨fun _ => 3, [7, 8, 9], 5, 10, rfl, by decide⟩

end Abra.Sched
