import AbraProofs.Lemmas.StrOps
/-!
# C17 — string concatenation and comparison are byte-exact, at every step budget

Model: `Abra.StrOps` — the six resumable string instructions of `vm.rs`, one byte per VM step, the
progress kept in the thread registers `string_op_index1/2`, `string_operand1/2`,
`concat_string_builder`.  All theorems quantify over ALL byte strings `a b` (the register
operands), over every register file `r` a thread can be in when it reaches the instruction (only
`string_op_index1 = 0` — and `string_op_index2 = 0` for concatenation — is required, which every
finished string instruction re-establishes: that is part of each conclusion), and over every way
the embedder slices execution into budgets.

The specification side uses library notions only: `decide (a = b)`, core's lexicographic order
`<`/`≤` on `List UInt8` (`List.lt`), and `a ++ b`.
-/
namespace Abra.StrOps

/-- registers as the instruction leaves them: operands latched, indices back at 0 -/
def Regs.after (r : Regs) (a b : Bytes) : Regs := { r with op1 := a, op2 := b, idx1 := 0 }

theorem mid_of_latch (a b : Bytes) (r : Regs) (h : r.idx1 = 0) :
    Mid a b (latch a b r) [] a b := by
  refine ⟨?_, ?_, ?_, ?_⟩ <;> simp [latch, h]

/-- `==`: started with index 0, `EqualString` finishes within `min |a| |b| + 1` steps (hence with
    any larger allowance) and stores exactly `a = b`; no fault; registers are reset. -/
theorem C17_eq_spec (a b : Bytes) (r : Regs) (h0 : r.idx1 = 0) (fuel : Nat)
    (hf : min a.length b.length + 1 ≤ fuel) :
    run (eqStep a b) fuel r = .finished (decide (a = b)) (r.after a b) := by
  obtain ⟨n, rfl⟩ : ∃ n, fuel = n + 1 := ⟨fuel - 1, by omega⟩
  have hs : eqStep a b (latch a b r) = eqStep a b r := by
    simp only [eqStep, latch_latch]
  have := eq_run a b a b [] (latch a b r) (n + 1) (mid_of_latch a b r h0) hf
  simp only [run, hs] at this
  simp only [run, this]
  simp [latch, h0, Regs.after]

example : run (eqStep [104, 105] [104, 105]) 3 {} = .finished true (Regs.after {} [104, 105] [104, 105]) :=
  C17_eq_spec _ _ _ rfl _ (by decide)

/-- `!=` (EqualString then Not) is the negation -/
theorem C17_ne_spec (a b : Bytes) (r : Regs) (h0 : r.idx1 = 0) (fuel : Nat)
    (hf : min a.length b.length + 1 ≤ fuel) :
    ∃ v, run (eqStep a b) fuel r = .finished v (r.after a b) ∧ neOfEq v = decide (a ≠ b) :=
  ⟨_, C17_eq_spec a b r h0 fuel hf, by simp [neOfEq]⟩

example : ∃ v, run (eqStep [1] [2]) 2 {} = .finished v (Regs.after {} [1] [2]) ∧ neOfEq v = true :=
  C17_ne_spec _ _ _ rfl _ (by decide)

/-- the answer each ordering instruction must give, in core's order on `List UInt8` -/
def Cmp.libSpec : Cmp → Bytes → Bytes → Bool
  | .lt, a, b => decide (a < b)
  | .le, a, b => decide (a ≤ b)
  | .gt, a, b => decide (a > b)
  | .ge, a, b => decide (a ≥ b)

theorem Cmp.spec_eq_libSpec (c : Cmp) (a b : Bytes) : c.spec a b = c.libSpec a b := by
  have hle : ∀ x y : Bytes, decide (x ≤ y) = !decide (y < x) := fun x y => by
    by_cases h : y < x
    · have : ¬ x ≤ y := fun h' => (List.not_lt.2 h') h
      simp [h, this]
    · simp [h, List.not_lt.1 h]
  cases c
  · simp only [Cmp.spec, Cmp.libSpec, lexLt_eq_decide]
  · simp only [Cmp.spec, Cmp.libSpec, lexLt_eq_decide, hle]
  · simp only [Cmp.spec, Cmp.libSpec, lexLt_eq_decide, GT.gt]
  · simp only [Cmp.spec, Cmp.libSpec, lexLt_eq_decide, GE.ge, hle]

/-- `<`, `<=`, `>`, `>=`: started with index 0, the instruction finishes within `min |a| |b| + 1`
    steps and stores the lexicographic comparison of the byte lists (shorter prefix first). -/
theorem C17_cmp_spec (c : Cmp) (a b : Bytes) (r : Regs) (h0 : r.idx1 = 0) (fuel : Nat)
    (hf : min a.length b.length + 1 ≤ fuel) :
    run (cmpStep c a b) fuel r = .finished (c.libSpec a b) (r.after a b) := by
  obtain ⟨n, rfl⟩ : ∃ n, fuel = n + 1 := ⟨fuel - 1, by omega⟩
  have hs : cmpStep c a b (latch a b r) = cmpStep c a b r := by
    simp only [cmpStep, latch_latch]
  have := cmp_run c a b a b [] (latch a b r) (n + 1) (mid_of_latch a b r h0) hf
  simp only [run, hs] at this
  simp only [run, this, Cmp.spec_eq_libSpec]
  simp [latch, h0, Regs.after]

example : run (cmpStep .lt [97] [97, 98]) 2 {} = .finished true (Regs.after {} [97] [97, 98]) :=
  C17_cmp_spec .lt _ _ _ rfl _ (by decide)

theorem C17_lt_spec (a b : Bytes) (r : Regs) (h0 : r.idx1 = 0) (fuel : Nat)
    (hf : min a.length b.length + 1 ≤ fuel) :
    run (cmpStep .lt a b) fuel r = .finished (decide (a < b)) (r.after a b) :=
  C17_cmp_spec .lt a b r h0 fuel hf

theorem C17_le_spec (a b : Bytes) (r : Regs) (h0 : r.idx1 = 0) (fuel : Nat)
    (hf : min a.length b.length + 1 ≤ fuel) :
    run (cmpStep .le a b) fuel r = .finished (decide (a ≤ b)) (r.after a b) :=
  C17_cmp_spec .le a b r h0 fuel hf

theorem C17_gt_spec (a b : Bytes) (r : Regs) (h0 : r.idx1 = 0) (fuel : Nat)
    (hf : min a.length b.length + 1 ≤ fuel) :
    run (cmpStep .gt a b) fuel r = .finished (decide (b < a)) (r.after a b) :=
  C17_cmp_spec .gt a b r h0 fuel hf

theorem C17_ge_spec (a b : Bytes) (r : Regs) (h0 : r.idx1 = 0) (fuel : Nat)
    (hf : min a.length b.length + 1 ≤ fuel) :
    run (cmpStep .ge a b) fuel r = .finished (decide (b ≤ a)) (r.after a b) :=
  C17_cmp_spec .ge a b r h0 fuel hf

example : run (cmpStep .ge [200] [199, 255]) 2 {} = .finished true (Regs.after {} [200] [199, 255]) :=
  C17_ge_spec _ _ _ rfl _ (by decide)

/-- `..`: started with both indices 0, `ConcatStrings` finishes within `|a| + |b| + 1` steps with
    exactly `a ++ b`, for valid UTF-8 operands (what every Abra string is); the
    `from_utf8(..).unwrap()` cannot fail; the builder is left empty and the indices at 0. -/
theorem C17_concat_spec (a b : Bytes) (r : Regs) (h1 : r.idx1 = 0) (h2 : r.idx2 = 0)
    (va : utf8Valid a = true) (vb : utf8Valid b = true) (fuel : Nat)
    (hf : a.length + b.length + 1 ≤ fuel) :
    run (catStep a b) fuel r =
      .finished (a ++ b) { r with op1 := a, op2 := b, builder := [], idx1 := 0, idx2 := 0 } := by
  obtain ⟨n, rfl⟩ : ∃ n, fuel = n + 1 := ⟨fuel - 1, by omega⟩
  have hl : catLatch a b r = { r with op2 := b, op1 := a, builder := [] } := by
    simp [catLatch, h1, h2]
  have hs : catStep a b (catLatch a b r) = catStep a b r := by
    simp only [catStep]
    congr 1
    rw [hl]
    simp [catLatch, h1, h2]
  have := cat_run1 a b a [] (catLatch a b r) (n + 1)
    (by intro _; simp [hl]) (by simp [hl]) (by simp [hl, h1]) (by simp [hl, h2]) (by simp [hl])
    (by simpa [hl] using utf8Valid_append a b va vb) (by simpa [hl] using hf)
  simp only [run, hs] at this
  simp only [run, this]
  simp [hl]

example : run (catStep [97] [0xC3, 0xA9]) 4 {} =
    .finished [97, 0xC3, 0xA9] { op1 := [97], op2 := [0xC3, 0xA9] } :=
  C17_concat_spec _ _ _ rfl rfl (by decide) (by decide) _ (by decide)

/-- the well-formedness half stated on its own: the concatenation of valid UTF-8 is valid UTF-8 -/
theorem C17_concat_utf8 (a b : Bytes) (va : utf8Valid a = true) (vb : utf8Valid b = true) :
    utf8Valid (a ++ b) = true := utf8Valid_append a b va vb

example : utf8Valid ([0xE2, 0x82, 0xAC] ++ [0xF0, 0x9F, 0x98, 0x80]) = true :=
  C17_concat_utf8 _ _ (by decide) (by decide)

/-- slicing: however the embedder cuts execution into budgets `k₁, k₂, …` (the registers persist in
    the thread between slices), an instruction ends with the same result as in one uninterrupted
    run, as soon as the budgets add up to the step bound. -/
theorem C17_budget_independent {ρ : Type} (step : Regs → Step ρ) (ks : List Nat) (n : Nat)
    (r r' : Regs) (v : ρ) (h : run step n r = .finished v r') (hk : n ≤ ks.sum) :
    runBudgets step ks r = .finished v r' := by
  rw [runBudgets_eq_run]
  exact run_mono step n ks.sum r r' v h hk

example : runBudgets (catStep [97] [98]) [1, 1, 1] {} = .finished [97, 98] { op1 := [97], op2 := [98] } :=
  C17_budget_independent _ _ 3 _ _ _ rfl (by decide)

/-- the results of all six instructions in one statement: from registers with both indices 0, for valid
    UTF-8 operands, at every slicing `ks` whose budgets add up to at least `|a| + |b| + 1` steps -/
theorem C17_all_budgets (a b : Bytes) (r : Regs) (h1 : r.idx1 = 0) (h2 : r.idx2 = 0)
    (va : utf8Valid a = true) (vb : utf8Valid b = true) (ks : List Nat)
    (hk : a.length + b.length + 1 ≤ ks.sum) :
    runBudgets (eqStep a b) ks r = .finished (decide (a = b)) (r.after a b) ∧
    (∀ c, runBudgets (cmpStep c a b) ks r = .finished (c.libSpec a b) (r.after a b)) ∧
    runBudgets (catStep a b) ks r =
      .finished (a ++ b) { r with op1 := a, op2 := b, builder := [], idx1 := 0, idx2 := 0 } := by
  have hm : min a.length b.length + 1 ≤ ks.sum := by omega
  refine ⟨?_, ?_, ?_⟩
  · exact C17_budget_independent _ ks _ r _ _ (C17_eq_spec a b r h1 _ (Nat.le_refl _)) hm
  · intro c
    exact C17_budget_independent _ ks _ r _ _ (C17_cmp_spec c a b r h1 _ (Nat.le_refl _)) hm
  · exact C17_budget_independent _ ks _ r _ _ (C17_concat_spec a b r h1 h2 va vb _ (Nat.le_refl _)) hk

example : runBudgets (cmpStep .lt [1, 2] [1, 3]) [1, 1, 1, 1, 1] {} =
    .finished true (Regs.after {} [1, 2] [1, 3]) :=
  ((C17_all_budgets [1, 2] [1, 3] {} rfl rfl (by decide) (by decide) [1, 1, 1, 1, 1] (by decide)).2.1 .lt)

/-- frame condition of `..`: the result is a NEW object holding `a ++ b`; every object that existed
    before — the two operands included, also when they are the same object (`s .. s`) — still holds
    exactly its bytes afterwards, at every slicing.  Strings are immutable values. -/
theorem C17_concat_frame (h : Heap) (p q : Nat) (a b : Bytes) (ks : List Nat) (r : Regs)
    (hp : h[p]? = some a) (hq : h[q]? = some b) (h1 : r.idx1 = 0) (h2 : r.idx2 = 0)
    (va : utf8Valid a = true) (vb : utf8Valid b = true) (hk : a.length + b.length + 1 ≤ ks.sum) :
    ∃ r', concatHeap h p q ks r = some (h ++ [a ++ b], h.length, r') ∧ r'.idx1 = 0 ∧ r'.idx2 = 0 ∧
      (h ++ [a ++ b])[h.length]? = some (a ++ b) ∧
      ∀ i, i < h.length → (h ++ [a ++ b])[i]? = h[i]? := by
  have hrun := (C17_all_budgets a b r h1 h2 va vb ks hk).2.2
  refine ⟨{ r with op1 := a, op2 := b, builder := [], idx1 := 0, idx2 := 0 }, ?_, rfl, rfl, by simp, ?_⟩
  · unfold concatHeap
    simp only [hp, hq, hrun]
  · intro i hi
    exact List.getElem?_append_left hi

example : ∃ r', concatHeap [[105, 100], [55]] 0 0 [2, 2, 2] {} =
    some ([[105, 100], [55]] ++ [[105, 100] ++ [105, 100]], 2, r') :=
  (C17_concat_frame [[105, 100], [55]] 0 0 [105, 100] [105, 100] [2, 2, 2] {} rfl rfl rfl rfl
    (by decide) (by decide) (by decide)).imp fun _ h => h.1

/-- the byte intrinsics: `string_nth_byte(s, n)` is the `n`-th byte for `0 ≤ n < string_count_bytes(s)`
    and the out-of-bounds error for every other `n` (negative ones included); reading all indices
    below the count gives back exactly the bytes of the string -/
theorem C17_byte_intrinsics (s : Bytes) :
    (∀ n : Int, 0 ≤ n → n < countBytes s → ∃ b, s[n.toNat]? = some b ∧ nthByte s n = .val b.toNat) ∧
    (∀ n : Int, (n < 0 ∨ countBytes s ≤ n) → nthByte s n = .outOfBounds) ∧
    (List.range s.length).map (fun (i : Nat) => nthByte s (i : Int)) = s.map (fun b => ByteRes.val b.toNat) := by
  refine ⟨?_, ?_, ?_⟩
  · intro n h0 h1
    have hlt : n.toNat < s.length := by unfold countBytes at h1; omega
    refine ⟨s[n.toNat], List.getElem?_eq_getElem hlt, ?_⟩
    unfold nthByte
    have : ¬ (n < 0 ∨ n.toNat ≥ s.length) := by omega
    simp [this, List.getElem?_eq_getElem hlt]
  · intro n h
    unfold nthByte
    have : n < 0 ∨ n.toNat ≥ s.length := by unfold countBytes at h; omega
    simp [this]
  · apply List.ext_getElem
    · simp
    · intro i h1 h2
      have hi : i < s.length := by simpa using h1
      have : ¬ (((i : Nat) : Int) < 0 ∨ ((i : Nat) : Int).toNat ≥ s.length) := by omega
      simp [nthByte, List.getElem?_eq_getElem hi]
      exact hi

example : nthByte [97, 98, 99] 2 = .val 99 ∧ nthByte [97, 98, 99] 3 = .outOfBounds ∧
    nthByte [97, 98, 99] (-1) = .outOfBounds := by decide

/-- concatenation takes exactly `|a| + |b| + 1` steps: with one step less it is still in flight
    (so the bound above is tight and a budget boundary really can fall inside the instruction) -/
theorem C17_concat_steps_exact (a b : Bytes) (r : Regs) (h1 : r.idx1 = 0) (h2 : r.idx2 = 0) :
    ∃ r', run (catStep a b) (a.length + b.length) r = .running r' := by
  have hl : catLatch a b r = { r with op2 := b, op1 := a, builder := [] } := by
    simp [catLatch, h1, h2]
  have hs : catStep a b (catLatch a b r) = catStep a b r := by
    simp only [catStep]
    congr 1
    rw [hl]
    simp [catLatch, h1, h2]
  cases hn : a.length + b.length with
  | zero => exact ⟨r, rfl⟩
  | succ n =>
    have := cat_running a b (n + 1) (catLatch a b r) (by intro _; simp [hl]) (by simp [hl, h1])
      (by simp [hl, h2]) (by simp [hl, h1, h2]; omega)
    simpa only [run, hs] using this

example : ∃ r', run (catStep [97] [98]) 2 {} = .running r' :=
  C17_concat_steps_exact [97] [98] {} rfl rfl

end Abra.StrOps
