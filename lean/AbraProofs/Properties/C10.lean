import AbraProofs.Lemmas.Sched
/-!
# C10 — results do not depend on how the embedder slices execution

Model: `Abra.Sched` (M4), for ANY deterministic thread step function `step : T → Action T V E`.
`NoDone r` ("no finished thread is waiting in a queue") holds for `Runtime.new` and is preserved by
every operation (`C10_noDone_*`); it is needed: on a state with a finished task at the head of the run
queue the real loop counts the dropped thread as skipped and can end the call early.
-/
namespace Abra.Sched
variable {T V E : Type}

/-- `NoDone` is an invariant of everything an embedder can do. -/
theorem C10_noDone_invariant (step : T → Action T V E) :
    (∀ m : T, NoDone (Runtime.new m : Runtime T V E)) ∧
    (∀ b (r : Runtime T V E), NoDone r → NoDone (runN step b r).rt) ∧
    (∀ {H : Type} (host : H → Nat → T → H × T) h (r : Runtime T V E), NoDone r → NoDone (serviceAll host h r).2) := by
  refine ⟨noDone_new, ?_, fun host h r hd => serviceAll_noDone host h r hd⟩
  intro b r hd
  unfold runN
  simp only
  split <;> exact (roundRobin_inv step b r hd).1

/-- **Budgets add up**: `run_n_steps(a + b)` is `run_n_steps(a)` followed by `run_n_steps(b)` — same
    runtime state (run queue order, channels, trace of executed instructions), same final status, the
    step counts add — unless the first call is the one in which the main thread finished (then the
    embedder has its answer and `a + b` stops at the very same point).  In particular whenever the
    first call returned `OutOfSteps`, `PendingHostFunc` or `MainThreadError`. -/
theorem C10_runN_add (step : T → Action T V E) (a b : Nat) (r : Runtime T V E) (hd : NoDone r) :
    runN step (a + b) r =
      (if (runN step a r).doneNow then runN step a r
       else { runN step b (runN step a r).rt with
              steps := (runN step a r).steps + (runN step b (runN step a r).rt).steps }) := by
  unfold runN roundRobin
  simp only
  by_cases hdr : (drainNewThreads r).2 = true
  · simp [hdr]
  · have hdr' : (drainNewThreads r).2 = false := by simpa using hdr
    have hn := drain_newThreads r hdr'
    have hnd := drain_noDone r hd
    simp only [hdr', Bool.false_eq_true, if_false]
    rw [loop_add step a b 0 _ hn hnd]
    by_cases hl : (loop step a 0 (drainNewThreads r).1).2.1 = true
    · simp [hl]
    · have hl' : (loop step a 0 (drainNewThreads r).1).2.1 = false := by simpa using hl
      have hinv := loop_inv step a 0 _ hn hnd
      have hn2 := hinv.2 hl'
      simp only [hl', Bool.false_eq_true, if_false]
      rw [drain_nil _ hn2]
      simp only [Bool.false_eq_true, if_false]
      rw [loop_steps_shift step b (loop step a 0 (drainNewThreads r).1).2.2]
      split <;> simp

example : ∃ r : Runtime Nat Nat Nat, NoDone r := ⟨Runtime.new 0, noDone_new 0⟩

/-- the special case named in the design: the first part ended `OutOfSteps` -/
theorem C10_runN_add_outOfSteps (step : T → Action T V E) (a b : Nat) (r : Runtime T V E) (hd : NoDone r)
    (h : (runN step a r).status = .outOfSteps) :
    (runN step (a + b) r).rt = (runN step b (runN step a r).rt).rt ∧
    (runN step (a + b) r).status = (runN step b (runN step a r).rt).status ∧
    (runN step (a + b) r).steps = (runN step a r).steps + (runN step b (runN step a r).rt).steps := by
  have hnd : (runN step a r).doneNow = false := by
    unfold runN at h ⊢
    simp only at h ⊢
    split <;> simp_all
  rw [C10_runN_add step a b r hd]
  simp [hnd]

/-- **Slicing invariance**: calling `run_n_steps` with the budgets `bs` one after the other is the same
    as one call with their sum. -/
theorem C10_runSeq_eq_sum (step : T → Action T V E) (bs : List Nat) (r : Runtime T V E) (hd : NoDone r) :
    runSeq step bs r = runN step bs.sum r := by
  induction bs generalizing r with
  | nil => rfl
  | cons b bs ih =>
    have hnd := (C10_noDone_invariant step).2.1 b r hd
    simp only [runSeq, List.sum_cons]
    rw [C10_runN_add step b bs.sum r hd, ih _ hnd]

/-- Any two budget sequences with the same total reach the same runtime state — run queue, every
    thread's state, channel contents, the whole interleaving of executed instructions (`trace`) — with the
    same status and the same total `steps_consumed`. -/
theorem C10_slicing_invariant (step : T → Action T V E) (bs₁ bs₂ : List Nat) (r : Runtime T V E)
    (hd : NoDone r) (h : bs₁.sum = bs₂.sum) : runSeq step bs₁ r = runSeq step bs₂ r := by
  rw [C10_runSeq_eq_sum step bs₁ r hd, C10_runSeq_eq_sum step bs₂ r hd, h]

example : ([1, 2, 3] : List Nat).sum = [3, 3].sum := rfl

/-- **Host delay**: while every thread is blocked (pending host call or error) and nothing waits to be
    enqueued, any further `run_n_steps` call executes nothing and leaves the runtime exactly as it was. -/
theorem C10_host_delay_invariant (step : T → Action T V E) (b : Nat) (r : Runtime T V E) (h : Stuck r) :
    runN step b r = ⟨r, updateStatus r, 0, false⟩ := by
  simp [runN, roundRobin_stuck step b r h]

/-- the single-thread case of the property: main alone, waiting for the host -/
theorem C10_host_delay_single (step : T → Action T V E) (b n : Nat) (r : Runtime T V E) (m : Thread T E)
    (hq : r.runQueue = [m]) (hn : r.newThreads = []) (hm : m.isMain = true) (hp : m.pending = some n)
    (hdone : m.done = false) :
    runN step b r = ⟨r, .pendingHost, 0, false⟩ := by
  have hs : Stuck r := ⟨hn, by simp [hq, Thread.canRun, hp, hdone]⟩
  rw [C10_host_delay_invariant step b r hs]
  simp [updateStatus, tryGetMain, hq, hm, Thread.status, hp]

example : ∃ (r : Runtime Nat Nat Nat) (m : Thread Nat Nat), r.runQueue = [m] ∧ r.newThreads = [] ∧
    m.isMain = true ∧ m.pending = some 2 ∧ m.done = false :=
  ⟨{ runQueue := [{ id := 0, isMain := true, st := 0, pending := some 2 }], nextId := 1 }, _, rfl, rfl, rfl, rfl, rfl⟩

end Abra.Sched
