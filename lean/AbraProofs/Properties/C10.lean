import AbraProofs.Lemmas.Sched
import AbraProofs.Lemmas.SchedSolo
/-!
# C10 — results do not depend on how the embedder slices execution

Model: `Abra.Sched` (M4), for ANY deterministic thread step function `step : T → Action T V E`.
`NoDone r` ("no thread that `finish_thread_turn` releases — finished, or a task stopped by an error — is waiting in a queue") holds for `Runtime.new` and is preserved by
every operation (`C10_noDone_*`); it is needed: on a state with a finished task at the head of the run
queue the real loop counts the dropped thread as skipped and can end the call early.
-/
namespace Abra.Sched
variable {T V E : Type}

/-- `NoDone` is an invariant of everything an embedder can do. -/
theorem C10_noDone_invariant (step : T → Action T V E) :
    (∀ m : T, NoDone (Runtime.new m : Runtime T V E)) ∧
    (∀ b (r : Runtime T V E), NoDone r → NoDone (runN step b r).rt) ∧
    (∀ {H : Type} (host : H → Nat → T → H × T) h (r : Runtime T V E), NoDone r → NoDone (serviceAll host h r).2) := by
  refine ⟨noDone_new, ?_, fun host h r hd => serviceAll_noDone host h r hd⟩
  intro b r hd
  unfold runN
  simp only
  split <;> exact (roundRobin_inv step b r hd).1

/-- **Budgets add up**: `run_n_steps(a + b)` is `run_n_steps(a)` followed by `run_n_steps(b)` — same
    runtime state (run queue order, channels, trace of executed instructions), same final status, the
    step counts add — unless the first call is the one in which the main thread finished (then the
    embedder has its answer and `a + b` stops at the very same point).  In particular whenever the
    first call returned `OutOfSteps`, `PendingHostFunc` or `MainThreadError`. -/
theorem C10_runN_add (step : T → Action T V E) (a b : Nat) (r : Runtime T V E) (hd : NoDone r) :
    runN step (a + b) r =
      (if (runN step a r).doneNow then runN step a r
       else { runN step b (runN step a r).rt with
              steps := (runN step a r).steps + (runN step b (runN step a r).rt).steps }) :=
  runN_add step a b r hd

example : ∃ r : Runtime Nat Nat Nat, NoDone r := ⟨Runtime.new 0, noDone_new 0⟩

/-- the special case named in the design: the first part ended `OutOfSteps` -/
theorem C10_runN_add_outOfSteps (step : T → Action T V E) (a b : Nat) (r : Runtime T V E) (hd : NoDone r)
    (h : (runN step a r).status = .outOfSteps) :
    (runN step (a + b) r).rt = (runN step b (runN step a r).rt).rt ∧
    (runN step (a + b) r).status = (runN step b (runN step a r).rt).status ∧
    (runN step (a + b) r).steps = (runN step a r).steps + (runN step b (runN step a r).rt).steps := by
  have hnd : (runN step a r).doneNow = false := by
    unfold runN at h ⊢
    simp only at h ⊢
    split <;> simp_all
  rw [C10_runN_add step a b r hd]
  simp [hnd]

/-- **Slicing invariance**: calling `run_n_steps` with the budgets `bs` one after the other is the same
    as one call with their sum. -/
theorem C10_runSeq_eq_sum (step : T → Action T V E) (bs : List Nat) (r : Runtime T V E) (hd : NoDone r) :
    runSeq step bs r = runN step bs.sum r := by
  induction bs generalizing r with
  | nil => rfl
  | cons b bs ih =>
    have hnd := (C10_noDone_invariant step).2.1 b r hd
    simp only [runSeq, List.sum_cons]
    rw [C10_runN_add step b bs.sum r hd, ih _ hnd]

/-- Any two budget sequences with the same total reach the same runtime state — run queue, every
    thread's state, channel contents, the whole interleaving of executed instructions (`trace`) — with the
    same status and the same total `steps_consumed`. -/
theorem C10_slicing_invariant (step : T → Action T V E) (bs₁ bs₂ : List Nat) (r : Runtime T V E)
    (hd : NoDone r) (h : bs₁.sum = bs₂.sum) : runSeq step bs₁ r = runSeq step bs₂ r := by
  rw [C10_runSeq_eq_sum step bs₁ r hd, C10_runSeq_eq_sum step bs₂ r hd, h]

example : ([1, 2, 3] : List Nat).sum = [3, 3].sum := rfl

/-- **The one-call slicings `Runtime::run()` / `run_with_granularity(n)`.**  Whenever the loop returns (after
    `k` calls of `run_n_steps(n)`, the first `k - 1` of which answered `OutOfSteps`), the runtime state and the
    status are exactly those of the single call `run_n_steps(k * n)` — one more way to slice, same result. -/
theorem C10_run_with_granularity (step : T → Action T V E) (n : Nat) :
    ∀ (fuel : Nat) (r : Runtime T V E) (x : RunResult T V E), NoDone r → runG step n fuel r = some x →
      ∃ k, 1 ≤ k ∧ k ≤ fuel ∧ x.rt = (runN step (k * n) r).rt ∧ x.status = (runN step (k * n) r).status ∧
        x.status ≠ .outOfSteps := by
  intro fuel
  induction fuel with
  | zero => intro r x _ h; simp [runG] at h
  | succ fuel ih =>
    intro r x hd h
    rw [runG] at h
    by_cases hs : (runN step n r).status = .outOfSteps
    · simp only [hs] at h
      have hnd := (C10_noDone_invariant step).2.1 n r hd
      obtain ⟨k, hk1, hk2, e1, e2, e3⟩ := ih _ x hnd h
      have hadd := C10_runN_add_outOfSteps step n (k * n) r hd hs
      refine ⟨k + 1, by omega, by omega, ?_, ?_, e3⟩
      · rw [show (k + 1) * n = n + k * n by rw [Nat.succ_mul]; omega, hadd.1, e1]
      · rw [show (k + 1) * n = n + k * n by rw [Nat.succ_mul]; omega, hadd.2.1, e2]
    · have : some (runN step n r) = some x := by
        cases hst : (runN step n r).status <;> simp_all
      cases this
      exact ⟨1, by omega, by omega, by simp, by simp, hs⟩

example : ∃ x, runG (fun (t : Nat) => if t < 5 then (Action.cont (t + 1) : Action Nat Nat Nat) else .stop t) 2 10
    (Runtime.new 0) = some x ∧ x.status = .done := ⟨_, rfl, rfl⟩

/-- **Host delay**: while every thread is blocked (pending host call or error) and nothing waits to be
    enqueued, any further `run_n_steps` call executes nothing and leaves the runtime exactly as it was. -/
theorem C10_host_delay_invariant (step : T → Action T V E) (b : Nat) (r : Runtime T V E) (h : Stuck r) :
    runN step b r = ⟨r, updateStatus r, 0, false⟩ := by
  simp [runN, roundRobin_stuck step b r h]

/-- the single-thread case of the property: main alone, waiting for the host -/
theorem C10_host_delay_single (step : T → Action T V E) (b n : Nat) (r : Runtime T V E) (m : Thread T E)
    (hq : r.runQueue = [m]) (hn : r.newThreads = []) (hm : m.isMain = true) (hp : m.pending = some n)
    (hdone : m.gone = false) :
    runN step b r = ⟨r, .pendingHost, 0, false⟩ := by
  have hs : Stuck r := ⟨hn, by simp [hq, Thread.canRun, hp, hdone]⟩
  rw [C10_host_delay_invariant step b r hs]
  simp [updateStatus, tryGetMain, hq, hm, Thread.status, hp]

example : ∃ (r : Runtime Nat Nat Nat) (m : Thread Nat Nat), r.runQueue = [m] ∧ r.newThreads = [] ∧
    m.isMain = true ∧ m.pending = some 2 ∧ m.gone = false :=
  ⟨{ runQueue := [{ id := 0, isMain := true, st := 0, pending := some 2 }], nextId := 1 }, _, rfl, rfl, rfl, rfl, rfl⟩


/-- **Programs without tasks (first sentence of the property), for every embedder.**  `drive` is an
    embedder that makes the `run_n_steps` calls of a schedule — any budgets, and after each call either
    services the pending host call or, being slow, calls again first — and stops when main finishes or
    fails.  For a program that never spawns, the output collected by the host, the whole runtime state
    (program state, result value, error) and the status are, up to servicing a still pending call, those of the reference
    embedder (`canon`: service at once, one instruction at a time) after the same number of executed
    instructions — so two schedules that executed equally many instructions cannot be told apart.
    Partial with respect to the whole property: the hypothesis `NoSpawn` excludes tasks (see the
    findings below for what happens with tasks). -/
theorem C10_output_schedule_invariant_partial {H : Type} (step : T → Action T V E) (hs : NoSpawn step)
    (host : H → Nat → T → H × T) (s₁ s₂ : List (Nat × Bool)) (h : H) (main : T)
    (hk : (drive step host s₁ h (Runtime.new main) 0).2.2.1 = (drive step host s₂ h (Runtime.new main) 0).2.2.1) :
    serviceAll host (drive step host s₁ h (Runtime.new main) 0).1 (drive step host s₁ h (Runtime.new main) 0).2.1 =
    serviceAll host (drive step host s₂ h (Runtime.new main) 0).1 (drive step host s₂ h (Runtime.new main) 0).2.1 := by
  have hr : Single (Runtime.new main : Runtime T V E) := ⟨rfl, Or.inr ⟨_, rfl, rfl⟩⟩
  obtain ⟨k₁, h1, e1⟩ := drive_single_canon step hs host s₁ h _ 0 hr
  obtain ⟨k₂, h2, e2⟩ := drive_single_canon step hs host s₂ h _ 0 hr
  have : k₁ = k₂ := by omega
  subst this
  rw [e1, e2]

/-- the same with the reference embedder named: every schedule is `canon` after as many instructions -/
theorem C10_schedule_is_reference_partial {H : Type} (step : T → Action T V E) (hs : NoSpawn step)
    (host : H → Nat → T → H × T) (s : List (Nat × Bool)) (h : H) (main : T) :
    serviceAll host (drive step host s h (Runtime.new main) 0).1 (drive step host s h (Runtime.new main) 0).2.1 =
    serviceAll host (canon step host (drive step host s h (Runtime.new main) 0).2.2.1 (h, (Runtime.new main : Runtime T V E))).1
      (canon step host (drive step host s h (Runtime.new main) 0).2.2.1 (h, Runtime.new main)).2 := by
  have hr : Single (Runtime.new main : Runtime T V E) := ⟨rfl, Or.inr ⟨_, rfl, rfl⟩⟩
  obtain ⟨k, h1, e1⟩ := drive_single_canon step hs host s h _ 0 hr
  have : (drive step host s h (Runtime.new main) 0).2.2.1 = k := by omega
  rw [this, e1]

/-- **Runs to the end agree.**  For a program without tasks, any two embedder schedules that both ran the
    program to its end — the run queue is empty (main finished) or holds only the failed main thread —
    end with the same host state (the complete output) and the same runtime (final value, error kind and
    location carried by the main thread, total number of executed instructions = length of `trace`). -/
theorem C10_finished_runs_agree_partial {H : Type} (step : T → Action T V E) (hs : NoSpawn step)
    (host : H → Nat → T → H × T) (s₁ s₂ : List (Nat × Bool)) (h : H) (main : T)
    (hf₁ : Fin (drive step host s₁ h (Runtime.new main : Runtime T V E) 0).2.1)
    (hf₂ : Fin (drive step host s₂ h (Runtime.new main : Runtime T V E) 0).2.1) :
    (drive step host s₁ h (Runtime.new main : Runtime T V E) 0).1 = (drive step host s₂ h (Runtime.new main) 0).1 ∧
    (drive step host s₁ h (Runtime.new main : Runtime T V E) 0).2.1 = (drive step host s₂ h (Runtime.new main) 0).2.1 := by
  have hr : Single (Runtime.new main : Runtime T V E) := ⟨rfl, Or.inr ⟨_, rfl, rfl⟩⟩
  have := drive_single_finished step hs host s₁ s₂ h _ hr hf₁ hf₂
  exact ⟨(Prod.mk.inj this).1, (Prod.mk.inj this).2⟩

/-- non-vacuity: a three-instruction program (`cont`, `host`, `stop`) run to its end under two schedules -/
example :
    let step : Nat → Action Nat Nat Nat := fun t =>
      if t = 0 then .cont 1 else if t = 1 then .host 0 2 else .stop 3
    Fin (drive step (fun (h : List Nat) n t => (h ++ [n], t)) (List.replicate 4 (1, true)) [] (Runtime.new 0 : Runtime Nat Nat Nat) 0).2.1 ∧
    Fin (drive step (fun (h : List Nat) n t => (h ++ [n], t)) [(5, false), (2, true), (9, true)] [] (Runtime.new 0 : Runtime Nat Nat Nat) 0).2.1 := by
  refine ⟨⟨rfl, Or.inl rfl⟩, ⟨rfl, Or.inl rfl⟩⟩

example : NoSpawn (fun (t : Nat) => (Action.cont (t + 1) : Action Nat Nat Nat)) := by
  intro t c t' h; cases h

/-! ### Where slicing does change the output (recorded findings, replayed by the harness)

A host call is serviced only between `run_n_steps` calls, so a thread waiting for the host waits until
the end of the slice while the other threads keep running.  Two consequences, each with a witness in the
model (the harness replays the corresponding Abra programs on the implementation):
* a task that prints races with the end of the main thread (completion is reported as soon as main stops);
* two writers to one channel are merged in an order that depends on when main's host call was serviced.
With one reader and one writer per channel and a main thread that joins the printing task (the
generator's discipline) no difference is found; a proof of that (Kahn determinism of the model) is
-- OPEN: `∀ sched₁ sched₂, SingleReaderWriter p → both finish → output equal` — not attempted: it needs a
-- confluence argument over all interleavings, not an induction over one run.
-/
namespace Witness

/-- a tiny thread language for witnesses: one register, constants written, the register printed -/
inductive I where
  | o | n | r (c : Nat) | w (c v : Nat) | s (child : List I) | h | x

structure MT where
  code : List I
  reg : Nat := 0

def mstep : MT → Action MT Nat Nat
  | ⟨[], r⟩ => .error 0 ⟨[], r⟩
  | ⟨.o :: c, r⟩ => .cont ⟨c, r⟩
  | ⟨.n :: c, r⟩ => .newChan fun _ => ⟨c, r⟩
  | ⟨.r ch :: c, _⟩ => .read ch fun v => ⟨c, v⟩
  | ⟨.w ch v :: c, r⟩ => .write ch v ⟨c, r⟩
  | ⟨.s child :: c, r⟩ => .spawn ⟨child, 0⟩ ⟨c, r⟩
  | ⟨.h :: c, r⟩ => .host 0 ⟨c, r⟩
  | ⟨.x :: c, r⟩ => .stop ⟨c, r⟩

/-- the host prints the register -/
def mhost (out : List Nat) (_ : Nat) (t : MT) : List Nat × MT := (out ++ [t.reg], t)

def output (main : List I) (sched : List (Nat × Bool)) : List Nat × Bool :=
  let d := drive mstep mhost sched [] (Runtime.new ⟨main, 0⟩ : Runtime MT Nat Nat) 0
  (d.1, match d.2.2.2 with | some .done => true | _ => false)

/-- `task { print }` racing with the end of main -/
def taskPrint : List I := [.s [.h, .x], .o, .o, .o, .x]

/-- main prints, releases task 1 (`go`), and reads twice from `out`, which both tasks write -/
def mergeRace : List I :=
  [.n, .n, .s [.r 0, .w 1 1, .x], .s [.o, .o, .o, .o, .o, .o, .o, .o, .w 1 2, .x],
   .h, .w 0 0, .r 1, .h, .r 1, .h, .x]

end Witness

open Witness in
/-- **Finding (task print race).**  Output of a program that prints only from one task depends on the
    slicing: with budget 1 the task's print is serviced before main stops, with one large budget main
    stops first and completion is reported with the print still pending.  Both runs end `Done`. -/
theorem C10_task_print_race_counterexample :
    output taskPrint (List.replicate 7 (1, true)) = ([0], true) ∧
    output taskPrint [(100, true)] = ([], true) := by
  decide

open Witness in
/-- **Finding (merge race).**  Tasks communicate only through channels and only main prints, yet the
    order in which two writers reach one channel — and so the output — depends on the slicing. -/
theorem C10_channel_merge_race_counterexample :
    output mergeRace (List.replicate 60 (1, true)) = ([0, 1, 2], true) ∧
    output mergeRace (List.replicate 10 (100, true)) = ([0, 2, 1], true) := by
  decide

end Abra.Sched
