import AbraProofs.Lemmas.Completion
import AbraProofs.Lemmas.SpanTree
/- C34 — editor analysis never crashes on incomplete code (partial).

   Theorems: the two places of `completions_at` that can panic cannot (index in bounds; the `str` slice ends
   on char boundaries — stated with core's `String.Pos.Raw.IsValid`, "the bytes before the position are valid
   UTF-8", for every Lean `String`, i.e. every valid UTF-8 text); the AST searches behind `definition_at` /
   `type_at` are total at every offset.  Everything else (the analysis of partial ASTs) is covered by the
   crash search only. -/
namespace Abra.Completion

/-- For every valid UTF-8 text and every cursor offset (also past the end, also inside a multi-byte
    character): the backward scan never indexes out of bounds, and when a slice `&source[a..b]` is taken,
    `a < b < len` and both ends are char boundaries — so neither the index expression nor the slice panics. -/
theorem C34_completion_slice_safe (s : String) (offset : Nat) :
    completionScan s.toByteArray offset ≠ .panic ∧
    ∀ a b, completionScan s.toByteArray offset = .slice a b →
      a < b ∧ b < s.utf8ByteSize ∧ (⟨a⟩ : String.Pos.Raw).IsValid s ∧ (⟨b⟩ : String.Pos.Raw).IsValid s := by
  unfold completionScan
  by_cases hc : offset > 0 ∧ byteAt s.toByteArray (offset - 1) = some 46
  · simp only [hc, and_self, if_true]
    obtain ⟨hi, hdot⟩ := byteAt_some hc.2
    obtain ⟨a, ha, hle, hall⟩ := scanBack_spec s.toByteArray (offset - 1) (Nat.le_of_lt hi)
    rw [ha]
    have hsz : s.toByteArray.size = s.utf8ByteSize := rfl
    refine ⟨?_, ?_⟩
    · dsimp only; split <;> simp
    · intro a' b' h
      dsimp only at h
      split at h
      · cases h
      · rename_i hlt
        injection h with h1 h2
        subst h1; subst h2
        have hab : a < offset - 1 := by omega
        refine ⟨hab, by omega, ?_, ?_⟩
        · obtain ⟨hj, hid⟩ := hall a (Nat.le_refl a) hab
          refine String.Pos.Raw.isValid_iff_isUTF8FirstByte.2 (Or.inr ⟨?_, ?_⟩)
          · simp only [String.Pos.Raw.lt_iff, String.byteIdx_rawEndPos]; omega
          · rw [String.getUTF8Byte_eq_getElem]
            exact identByte_first _ hid
        · refine String.Pos.Raw.isValid_iff_isUTF8FirstByte.2 (Or.inr ⟨?_, ?_⟩)
          · simp only [String.Pos.Raw.lt_iff, String.byteIdx_rawEndPos]; omega
          · rw [String.getUTF8Byte_eq_getElem]
            have : s.toByteArray[offset - 1] = 46 := hdot
            simp only [this]
            exact dot_first
  · simp only [hc, if_false]
    exact ⟨by simp, by intro a b h; cases h⟩

/-- the scan is total on arbitrary bytes as well: started at a `.` inside the buffer it never indexes out of bounds -/
theorem C34_completion_scan_inbounds (bs : ByteArray) (offset : Nat) : completionScan bs offset ≠ .panic := by
  unfold completionScan
  split
  · rename_i hc
    obtain ⟨hi, _⟩ := byteAt_some hc.2
    obtain ⟨a, ha, _, _⟩ := scanBack_spec bs (offset - 1) (Nat.le_of_lt hi)
    rw [ha]
    dsimp only; split <;> simp
  · simp

/-! non-vacuity: `"é.x"`-like texts — a slice is taken, and a cursor inside a multi-byte character is harmless -/
example : completionScan "ab.".toByteArray 3 = .slice 0 2 := by decide
example : completionScan "é.".toByteArray 3 = .noIdent := by decide
example : completionScan "éa.".toByteArray 4 = .slice 2 3 := by decide
example : completionScan "é.".toByteArray 1 = .fileScope := by decide
example : completionScan "a.".toByteArray 9 = .fileScope := by decide

end Abra.Completion

namespace Abra.SpanTree

/-- Whenever the model has a plan for the rendered file (`identPlan` / `innerPlan` succeed, i.e. every node has a
    shape the model knows), the corresponding search returns an answer (a node or nothing) at every offset:
    there is no offset, inside or past the file, at which it is undefined.  (What the answer is past the end
    is `C34_findNode_none_past_end`.) -/
theorem C34_findNode_total (file : Ast) (off : Nat) :
    ((identPlan file).isSome → ∃ r, findIdentifier file off = some r) ∧
    ((innerPlan file).isSome → ∃ r, findInnermost file off = some r) := by
  constructor
  · intro h
    obtain ⟨t, ht⟩ := Option.isSome_iff_exists.1 h
    exact ⟨search off t, by simp [findIdentifier, ht]⟩
  · intro h
    obtain ⟨t, ht⟩ := Option.isSome_iff_exists.1 h
    exact ⟨searchI off t, by simp [findInnermost, ht]⟩

theorem C34_findNode_none_past_end (t : STree) (n : Nat) (hb : ∀ off id, Hit off id t → off < n)
    (off : Nat) (h : n ≤ off) : search off t = none := by
  cases hs : search off t with
  | none => rfl
  | some id => exact absurd (hb off id (search_sound off id t hs)) (by omega)

example : ∀ off id, Hit off id (.node (some (0, 4)) false [.ident 1 3 7]) → off < 4 := by
  intro off id h
  simp [Hit, HitL] at h
  omega

end Abra.SpanTree
