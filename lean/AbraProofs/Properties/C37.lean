import AbraProofs.Lemmas.IdSetOps
/-!
# C37 — the interning set is a sound, order-preserving id map; every safe history is UB-free

Model: `Abra.IdSet` (`utils/src/id_set.rs`): a world of buffers with owners and liveness, set
records holding raw pointers `(buffer, index)`, the operations `new / insert / try_get_id / contains /
index / len / iter / into_iter / clear / clone / drop` on any number of sets; a dereference of a
pointer into a freed buffer (or past its length), a push that would reallocate, and a double free
answer `Out.ub`.

Specification (independent of the model, `List` notions only): a handle denotes a list of distinct
values in insertion order; `insert` appends iff new and answers `idxOf`, lookups are `idxOf`/`∈`/`[i]?`,
`clone` copies the list, `clear` empties it, `drop`/`into_iter` end the handle.

All theorems quantify over **every** history (any number of sets, any interleaving, any length).
-/
namespace Abra.IdSet

variable {α : Type}

/-! ## the list specification -/

/-- the list behind a live handle -/
def Spec.get (σ : List (Option (List α))) (h : Nat) : Option (List α) :=
  match σ[h]? with
  | some (some l) => some l
  | _ => none

def Spec.step [DecidableEq α] (σ : List (Option (List α))) : Op α → List (Option (List α)) × Out α
  | .new => (σ ++ [some []], .handle σ.length)
  | .insert h v =>
    match Spec.get σ h with
    | none => (σ, .bad)
    | some l => if v ∈ l then (σ.set h (some l), .id (l.idxOf v)) else (σ.set h (some (l ++ [v])), .id l.length)
  | .tryGetId h v =>
    match Spec.get σ h with
    | none => (σ, .bad)
    | some l => (σ, .optId (if v ∈ l then some (l.idxOf v) else none))
  | .contains h v =>
    match Spec.get σ h with
    | none => (σ, .bad)
    | some l => (σ, .bool (decide (v ∈ l)))
  | .index h id =>
    match Spec.get σ h with
    | none => (σ, .bad)
    | some l => (σ, match l[id]? with | some x => .val x | none => .panic)
  | .len h =>
    match Spec.get σ h with
    | none => (σ, .bad)
    | some l => (σ, .num l.length)
  | .iter h =>
    match Spec.get σ h with
    | none => (σ, .bad)
    | some l => (σ, .list l)
  | .intoIter h =>
    match Spec.get σ h with
    | none => (σ, .bad)
    | some l => (σ.set h none, .list l)
  | .clear h =>
    match Spec.get σ h with
    | none => (σ, .bad)
    | some _ => (σ.set h (some []), .unit)
  | .clone h =>
    match Spec.get σ h with
    | none => (σ, .bad)
    | some l => (σ ++ [some l], .handle σ.length)
  | .drop h =>
    match Spec.get σ h with
    | none => (σ, .bad)
    | some _ => (σ.set h none, .unit)

def Spec.run [DecidableEq α] (σ : List (Option (List α))) : List (Op α) → List (Option (List α)) × List (Out α)
  | [] => (σ, [])
  | op :: ops =>
    let (σ1, o) := Spec.step σ op
    let (σ2, os) := Spec.run σ1 ops
    (σ2, o :: os)

/-! ## refinement -/

theorem spec_get_of_getSet {w : World α} {h : Nat} {s : SetS} (hs : w.getSet h = some s) :
    Spec.get (absW w) h = some (w.contents s) := by
  unfold Spec.get; rw [abs_of_getSet hs]

theorem spec_get_of_getSet_none {w : World α} {h : Nat} (hs : w.getSet h = none) :
    Spec.get (absW w) h = none := by
  unfold Spec.get
  have := abs_of_getSet_none hs
  cases hh : (absW w)[h]? with
  | none => rfl
  | some o =>
    cases o with
    | none => rfl
    | some l => exact absurd hh (this l)

theorem set_self_of_get {β : Type} {l : List β} {i : Nat} {x : β} (h : l[i]? = some x) : l.set i x = l := by
  apply List.ext_getElem?
  intro j
  by_cases e : i = j
  · subst e; rw [List.getElem?_set_self (getElem?_some_lt h)]; exact h.symm
  · rw [List.getElem?_set_ne e]

/-- **One step refines the list specification**: under the invariant, an operation keeps the
    invariant, changes the abstraction exactly as the list operation does, and gives the same answer. -/
theorem C37_step_refines [DecidableEq α] (w : World α) (hw : WInv w) (op : Op α) :
    WInv (w.step op).1 ∧ absW (w.step op).1 = (Spec.step (absW w) op).1 ∧
      (w.step op).2 = (Spec.step (absW w) op).2 := by
  cases op with
  | new =>
    obtain ⟨h1, h2, h3⟩ := new_spec w hw
    exact ⟨h1, h2, h3⟩
  | insert h v =>
    cases hs : w.getSet h with
    | none =>
      simp only [World.step, World.insert, hs, Spec.step, spec_get_of_getSet_none hs]
      refine ⟨hw, ?_, ?_⟩ <;> first | rfl | trivial
    | some s =>
      obtain ⟨h1, h2, h3⟩ := insert_spec hw hs v
      simp only [World.step, Spec.step, spec_get_of_getSet hs]
      refine ⟨h1, ?_, ?_⟩
      · rw [h2]; by_cases hv : v ∈ w.contents s <;> simp [hv]
      · rw [h3]; by_cases hv : v ∈ w.contents s <;> simp [hv]
  | tryGetId h v =>
    cases hs : w.getSet h with
    | none =>
      simp only [World.step, World.tryGetId, hs, Spec.step, spec_get_of_getSet_none hs]
      refine ⟨hw, ?_, ?_⟩ <;> first | rfl | trivial
    | some s =>
      simp only [World.step, Spec.step, spec_get_of_getSet hs, tryGetId_spec hw hs v]
      refine ⟨hw, ?_, ?_⟩ <;> first | rfl | trivial
  | contains h v =>
    cases hs : w.getSet h with
    | none =>
      simp only [World.step, World.contains, World.tryGetId, hs, Spec.step, spec_get_of_getSet_none hs]
      refine ⟨hw, ?_, ?_⟩ <;> first | rfl | trivial
    | some s =>
      simp only [World.step, Spec.step, spec_get_of_getSet hs, contains_spec hw hs v]
      refine ⟨hw, ?_, ?_⟩ <;> first | rfl | trivial
  | index h id =>
    cases hs : w.getSet h with
    | none =>
      simp only [World.step, World.index, hs, Spec.step, spec_get_of_getSet_none hs]
      refine ⟨hw, ?_, ?_⟩ <;> first | rfl | trivial
    | some s =>
      simp only [World.step, Spec.step, spec_get_of_getSet hs, index_spec hw hs id]
      refine ⟨hw, ?_, ?_⟩ <;> first | rfl | trivial
  | len h =>
    cases hs : w.getSet h with
    | none =>
      simp only [World.step, World.len, hs, Spec.step, spec_get_of_getSet_none hs]
      refine ⟨hw, ?_, ?_⟩ <;> first | rfl | trivial
    | some s =>
      simp only [World.step, Spec.step, spec_get_of_getSet hs, len_spec hw hs]
      refine ⟨hw, ?_, ?_⟩ <;> first | rfl | trivial
  | iter h =>
    cases hs : w.getSet h with
    | none =>
      simp only [World.step, World.iter, hs, Spec.step, spec_get_of_getSet_none hs]
      refine ⟨hw, ?_, ?_⟩ <;> first | rfl | trivial
    | some s =>
      simp only [World.step, Spec.step, spec_get_of_getSet hs, iter_spec hw hs]
      refine ⟨hw, ?_, ?_⟩ <;> first | rfl | trivial
  | intoIter h =>
    cases hs : w.getSet h with
    | none =>
      simp only [World.step, World.intoIter, World.iter, hs, Spec.step, spec_get_of_getSet_none hs]
      refine ⟨hw, ?_, ?_⟩ <;> first | rfl | trivial
    | some s =>
      obtain ⟨h1, h2, h3⟩ := intoIter_spec hw hs
      simp only [World.step, Spec.step, spec_get_of_getSet hs]
      refine ⟨h1, ?_, ?_⟩ <;> first | assumption | rfl | trivial
  | clear h =>
    cases hs : w.getSet h with
    | none =>
      simp only [World.step, World.clear, hs, Spec.step, spec_get_of_getSet_none hs]
      refine ⟨hw, ?_, ?_⟩ <;> first | rfl | trivial
    | some s =>
      obtain ⟨h1, h2, h3⟩ := clear_spec hw hs
      simp only [World.step, Spec.step, spec_get_of_getSet hs]
      refine ⟨h1, ?_, ?_⟩ <;> first | assumption | rfl | trivial
  | clone h =>
    cases hs : w.getSet h with
    | none =>
      simp only [World.step, World.clone, World.iter, hs, Spec.step, spec_get_of_getSet_none hs]
      refine ⟨hw, ?_, ?_⟩ <;> first | rfl | trivial
    | some s =>
      obtain ⟨h1, h2, h3⟩ := clone_spec hw hs
      simp only [World.step, Spec.step, spec_get_of_getSet hs]
      refine ⟨h1, ?_, ?_⟩ <;> first | assumption | rfl | trivial
  | drop h =>
    cases hs : w.getSet h with
    | none =>
      simp only [World.step, World.drop, hs, Spec.step, spec_get_of_getSet_none hs]
      refine ⟨hw, ?_, ?_⟩ <;> first | rfl | trivial
    | some s =>
      obtain ⟨h1, h2, h3⟩ := drop_spec hw hs
      simp only [World.step, Spec.step, spec_get_of_getSet hs]
      refine ⟨h1, ?_, ?_⟩ <;> first | assumption | rfl | trivial

example : WInv (World.empty : World Nat) := by intro h s hs; simp [World.empty] at hs

theorem winv_empty : WInv (World.empty : World α) := by
  intro h s hs; simp [World.empty] at hs

theorem run_refines [DecidableEq α] (ops : List (Op α)) : ∀ (w : World α), WInv w →
    WInv (w.run ops).1 ∧ absW (w.run ops).1 = (Spec.run (absW w) ops).1 ∧
      (w.run ops).2 = (Spec.run (absW w) ops).2 := by
  induction ops with
  | nil => intro w hw; exact ⟨hw, rfl, rfl⟩
  | cons op ops ih =>
    intro w hw
    obtain ⟨h1, h2, h3⟩ := C37_step_refines w hw op
    obtain ⟨k1, k2, k3⟩ := ih (w.step op).1 h1
    simp only [World.run, Spec.run]
    rw [h2] at k2 k3
    exact ⟨k1, k2, by rw [k3, h3]⟩

/-- **Refinement for every history**: whatever sequence of operations is run on however many sets,
    every answer of the pointer-level model is the answer of the list specification — ids are
    insertion ranks of distinct values, `try_get_id/contains/index/len/iter/into_iter` agree with the
    list, a clone behaves as an independent copy — and the final abstraction is the spec's state. -/
theorem C37_refines [DecidableEq α] (ops : List (Op α)) :
    ((World.empty : World α).run ops).2 = (Spec.run [] ops).2 ∧
    absW ((World.empty : World α).run ops).1 = (Spec.run [] ops).1 := by
  obtain ⟨_, h2, h3⟩ := run_refines ops (World.empty : World α) winv_empty
  exact ⟨h3, h2⟩

/-- the list specification never answers `ub` -/
theorem spec_step_ne_ub [DecidableEq α] (σ : List (Option (List α))) (op : Op α) :
    (Spec.step σ op).2 ≠ .ub := by
  cases op <;> simp only [Spec.step] <;> (try split) <;> (try split) <;> simp

theorem spec_run_no_ub [DecidableEq α] (ops : List (Op α)) : ∀ σ : List (Option (List α)),
    Out.ub ∉ (Spec.run σ ops).2 := by
  induction ops with
  | nil => intro σ; simp [Spec.run]
  | cons op ops ih =>
    intro σ
    simp only [Spec.run, List.mem_cons, not_or]
    exact ⟨fun e => spec_step_ne_ub σ op e.symm, ih _⟩

/-- **Every sequence of safe operations is free of undefined behaviour** — including cloning a set
    and then dropping or clearing the original and going on using the clone: no operation of any
    history dereferences a dangling pointer, reallocates a buffer under live pointers or frees twice. -/
theorem C37_no_ub [DecidableEq α] (ops : List (Op α)) :
    Out.ub ∉ ((World.empty : World α).run ops).2 := by
  rw [(C37_refines ops).1]; exact spec_run_no_ub ops []

/-- **ptrs_valid**: in every reachable state of any number of sets created by `new`/`clone`, every
    pointer stored in a live set (in `id_to_ptr` or as a key of `map`) targets a live buffer *owned by
    that set*, inside its current length. -/
theorem C37_ptrs_valid [DecidableEq α] (ops : List (Op α)) (h : Nat) (s : SetS)
    (hs : ((World.empty : World α).run ops).1.sets[h]? = some s) (hl : s.live = true) :
    ∀ p ∈ s.idToPtr ++ s.map.map Prod.fst,
      ∃ B, ((World.empty : World α).run ops).1.bufs[p.buf]? = some B ∧ B.live = true ∧ B.owner = h ∧
        p.idx < B.elems.length := by
  obtain ⟨hw, _, _⟩ := run_refines ops (World.empty : World α) winv_empty
  have i := hw h s hs hl
  have hkeys : s.map.map Prod.fst = s.idToPtr := by
    rw [i.mapEq]
    apply List.ext_getElem?
    intro n
    simp
  intro p hp
  rw [hkeys] at hp
  have hp : p ∈ s.idToPtr := by rcases List.mem_append.1 hp with h | h <;> exact h
  obtain ⟨B, hB, hlive, hown, _⟩ := i.owned p.buf (i.ptrBufs p hp)
  obtain ⟨x, hx⟩ := i.deref_some p hp
  refine ⟨B, hB, hlive, hown, ?_⟩
  unfold World.deref at hx
  rw [hB] at hx
  simp only [hlive, if_true] at hx
  exact getElem?_some_lt hx

/-- every buffer a live set iterates over (`old_bufs` and `current_buf`) exists, is live, has this
    set as its owner, and holds no more elements than its capacity -/
theorem C37_buffers_owned [DecidableEq α] (ops : List (Op α)) (h : Nat) (s : SetS)
    (hs : ((World.empty : World α).run ops).1.sets[h]? = some s) (hl : s.live = true) :
    ∀ b ∈ s.bufIds, ∃ B, ((World.empty : World α).run ops).1.bufs[b]? = some B ∧ B.live = true ∧
      B.owner = h ∧ B.elems.length ≤ B.cap := by
  obtain ⟨hw, _, _⟩ := run_refines ops (World.empty : World α) winv_empty
  exact (hw h s hs hl).owned

/-- two distinct live sets share no buffer (a buffer has one owner) -/
theorem C37_sets_share_no_buffer [DecidableEq α] (ops : List (Op α)) (h h' : Nat) (s s' : SetS)
    (hs : ((World.empty : World α).run ops).1.sets[h]? = some s) (hl : s.live = true)
    (hs' : ((World.empty : World α).run ops).1.sets[h']? = some s') (hl' : s'.live = true)
    (hne : h ≠ h') : ∀ b ∈ s.bufIds, b ∉ s'.bufIds := by
  intro b hb hb'
  obtain ⟨B, hB, _, ho, _⟩ := C37_buffers_owned ops h s hs hl b hb
  obtain ⟨B', hB', _, ho', _⟩ := C37_buffers_owned ops h' s' hs' hl' b hb'
  rw [hB] at hB'; cases hB'
  exact hne (ho.symm.trans ho')

-- two live sets exist after `new; new` (handles 0 and 1)
example : (((World.empty : World Nat).run [.new, .new]).1.sets.map (·.live)) = [true, true] := by decide

/-- the values of a set are pairwise distinct in every reachable state -/
theorem C37_contents_nodup [DecidableEq α] (ops : List (Op α)) (h : Nat) (l : List α)
    (hs : (Spec.run ([] : List (Option (List α))) ops).1[h]? = some (some l)) : l.Nodup := by
  obtain ⟨hw, h2, _⟩ := run_refines ops (World.empty : World α) winv_empty
  have h2' : absW ((World.empty : World α).run ops).1 = (Spec.run [] ops).1 := h2
  rw [← h2'] at hs
  obtain ⟨s, hg, hc⟩ := getSet_of_abs hs
  obtain ⟨h1, hl⟩ := getSet_some hg
  rw [← hc]; exact (hw h s h1 hl).nodup

/-! ## ids are stable -/

/-- operations that do not end or empty handle `h` -/
def Op.keeps (h : Nat) : Op α → Bool
  | .clear g => g != h
  | .drop g => g != h
  | .intoIter g => g != h
  | _ => true

theorem spec_get_set_ne {σ : List (Option (List α))} {h g : Nat} {x : Option (List α)} (hne : g ≠ h) :
    Spec.get (σ.set g x) h = Spec.get σ h := by
  unfold Spec.get; rw [List.getElem?_set_ne hne]

theorem spec_get_lt {σ : List (Option (List α))} {h : Nat} {l : List α} (hg : Spec.get σ h = some l) :
    σ[h]? = some (some l) := by
  unfold Spec.get at hg
  split at hg
  · cases hg; assumption
  · cases hg

theorem spec_get_set_self {σ : List (Option (List α))} {h : Nat} {l l' : List α}
    (hg : Spec.get σ h = some l) : Spec.get (σ.set h (some l')) h = some l' := by
  unfold Spec.get
  rw [List.getElem?_set_self (getElem?_some_lt (spec_get_lt hg))]

theorem spec_get_append {σ : List (Option (List α))} {h : Nat} {l : List α} {x : Option (List α)}
    (hg : Spec.get σ h = some l) : Spec.get (σ ++ [x]) h = some l := by
  have := spec_get_lt hg
  unfold Spec.get
  rw [List.getElem?_append_left (getElem?_some_lt this), this]

/-- a step that keeps `h` only ever appends to its list -/
theorem spec_step_prefix [DecidableEq α] (σ : List (Option (List α))) (op : Op α) (h : Nat) (l : List α)
    (hg : Spec.get σ h = some l) (hk : op.keeps h = true) :
    ∃ l', Spec.get (Spec.step σ op).1 h = some l' ∧ l <+: l' := by
  cases op with
  | new => exact ⟨l, spec_get_append hg, List.prefix_refl _⟩
  | insert g v =>
    simp only [Spec.step]
    cases hgg : Spec.get σ g with
    | none => exact ⟨l, hg, List.prefix_refl _⟩
    | some lg =>
      simp only
      by_cases e : g = h
      · subst e
        rw [hg] at hgg; cases hgg
        by_cases hv : v ∈ l
        · simp only [hv, if_true]
          exact ⟨l, spec_get_set_self hg, List.prefix_refl _⟩
        · simp only [hv, if_false]
          exact ⟨l ++ [v], spec_get_set_self hg, List.prefix_append _ _⟩
      · by_cases hv : v ∈ lg
        · simp only [hv, if_true]
          exact ⟨l, by rw [spec_get_set_ne e]; exact hg, List.prefix_refl _⟩
        · simp only [hv, if_false]
          exact ⟨l, by rw [spec_get_set_ne e]; exact hg, List.prefix_refl _⟩
  | tryGetId g v =>
    simp only [Spec.step]; cases Spec.get σ g <;> exact ⟨l, hg, List.prefix_refl _⟩
  | contains g v =>
    simp only [Spec.step]; cases Spec.get σ g <;> exact ⟨l, hg, List.prefix_refl _⟩
  | index g n =>
    simp only [Spec.step]; cases Spec.get σ g <;> exact ⟨l, hg, List.prefix_refl _⟩
  | len g =>
    simp only [Spec.step]; cases Spec.get σ g <;> exact ⟨l, hg, List.prefix_refl _⟩
  | iter g =>
    simp only [Spec.step]; cases Spec.get σ g <;> exact ⟨l, hg, List.prefix_refl _⟩
  | intoIter g =>
    have e : g ≠ h := by simpa [Op.keeps] using hk
    simp only [Spec.step]
    cases Spec.get σ g with
    | none => exact ⟨l, hg, List.prefix_refl _⟩
    | some _ => exact ⟨l, by simp only; rw [spec_get_set_ne e]; exact hg, List.prefix_refl _⟩
  | clear g =>
    have e : g ≠ h := by simpa [Op.keeps] using hk
    simp only [Spec.step]
    cases Spec.get σ g with
    | none => exact ⟨l, hg, List.prefix_refl _⟩
    | some _ => exact ⟨l, by simp only; rw [spec_get_set_ne e]; exact hg, List.prefix_refl _⟩
  | clone g =>
    simp only [Spec.step]
    cases Spec.get σ g with
    | none => exact ⟨l, hg, List.prefix_refl _⟩
    | some _ => exact ⟨l, spec_get_append hg, List.prefix_refl _⟩
  | drop g =>
    have e : g ≠ h := by simpa [Op.keeps] using hk
    simp only [Spec.step]
    cases Spec.get σ g with
    | none => exact ⟨l, hg, List.prefix_refl _⟩
    | some _ => exact ⟨l, by simp only; rw [spec_get_set_ne e]; exact hg, List.prefix_refl _⟩

theorem spec_run_prefix [DecidableEq α] (ops : List (Op α)) : ∀ (σ : List (Option (List α))) (h : Nat)
    (l : List α), Spec.get σ h = some l → (∀ op ∈ ops, op.keeps h = true) →
    ∃ l', Spec.get (Spec.run σ ops).1 h = some l' ∧ l <+: l' := by
  induction ops with
  | nil => intro σ h l hg _; exact ⟨l, hg, List.prefix_refl _⟩
  | cons op ops ih =>
    intro σ h l hg hk
    obtain ⟨l1, h1, p1⟩ := spec_step_prefix σ op h l hg (hk op (by simp))
    obtain ⟨l2, h2, p2⟩ := ih (Spec.step σ op).1 h l1 h1 (fun o ho => hk o (by simp [ho]))
    exact ⟨l2, by simpa [Spec.run] using h2, List.IsPrefix.trans p1 p2⟩

theorem idxOf_prefix [DecidableEq α] {l l' : List α} {v : α} (hp : l <+: l') (hv : v ∈ l) :
    l'.idxOf v = l.idxOf v := by
  obtain ⟨t, rfl⟩ := hp
  rw [List.idxOf_append]; simp [hv]

/-- **Ids are stable**: once `try_get_id(v)` on a set answers `Some(i)`, it answers `Some(i)` after
    any further history on any sets that does not clear, drop or consume *that* set — in particular
    after any number of later inserts into it, and after cloning it and dropping the clone; and
    `set[i]` keeps answering `v`. -/
theorem C37_ids_stable [DecidableEq α] (pre post : List (Op α)) (h : Nat) (v : α) (i : Nat)
    (hk : ∀ op ∈ post, op.keeps h = true)
    (hid : (((World.empty : World α).run pre).1.tryGetId h v).2 = .optId (some i)) :
    (((World.empty : World α).run (pre ++ post)).1.tryGetId h v).2 = .optId (some i) ∧
    (((World.empty : World α).run (pre ++ post)).1.index h i).2 = .val v := by
  obtain ⟨hw, _, _⟩ := run_refines pre (World.empty : World α) winv_empty
  have hrun : ∀ (ops₁ ops₂ : List (Op α)) (w : World α), (w.run (ops₁ ++ ops₂)).1 = ((w.run ops₁).1.run ops₂).1 := by
    intro ops₁
    induction ops₁ with
    | nil => intro _ _; rfl
    | cons o os ih => intro ops₂ w; simp only [List.cons_append, World.run]; exact ih ops₂ _
  rw [hrun]
  generalize ((World.empty : World α).run pre).1 = w at hw hid
  cases hs : w.getSet h with
  | none => simp [World.tryGetId, hs] at hid
  | some s =>
    rw [tryGetId_spec hw hs v] at hid
    simp only [Out.optId.injEq] at hid
    have hv : v ∈ w.contents s := by
      by_cases hv : v ∈ w.contents s
      · exact hv
      · simp [hv] at hid
    simp only [hv, if_true, Option.some.injEq] at hid
    obtain ⟨hw', h2, _⟩ := run_refines post w hw
    obtain ⟨l', hg', hp⟩ := spec_run_prefix post (absW w) h (w.contents s) (spec_get_of_getSet hs) hk
    rw [← h2] at hg'
    obtain ⟨s', hs', hc'⟩ := getSet_of_abs (spec_get_lt hg')
    have hv' : v ∈ l' := by
      obtain ⟨t, rfl⟩ := hp; exact List.mem_append_left _ hv
    constructor
    · rw [tryGetId_spec hw' hs' v, hc']
      simp only [hv', if_true, idxOf_prefix hp hv, hid]
    · rw [index_spec hw' hs' i, hc']
      have hlt : i < l'.length := by
        rw [← hid, ← idxOf_prefix hp hv]; exact List.idxOf_lt_length_iff.2 hv'
      have : l'[i]? = some v := by
        rw [List.getElem?_eq_getElem hlt]
        congr 1
        have e : i = l'.idxOf v := by rw [idxOf_prefix hp hv, hid]
        subst e
        exact List.getElem_idxOf hlt
      simp [this]

example : ∀ op ∈ ([.insert 0 7, .clone 0, .drop 1, .new] : List (Op Nat)), op.keeps 0 = true := by decide

/-! ## the defect D13 (derived `Clone`), as a theorem about the old code -/

/-- With the *derived* `Clone` (pointers copied verbatim) the history
    `new; insert a; clone; drop original; try_get_id(a) on the clone` dereferences a pointer into a
    freed buffer: undefined behaviour.  (Confirmed on the unrepaired code under Miri.) -/
theorem C37_derived_clone_dangles :
    let w0 := (World.empty : World Nat).new.1
    let w1 := (w0.insert 0 5).1
    let w2 := (w1.cloneDerived 0).1
    let w3 := (w2.drop 0).1
    (w3.tryGetId 1 5).2 = .ub := by decide

/-- the same history with the repaired `clone` answers `Some(0)` -/
theorem C37_repaired_clone_ok :
    ((World.empty : World Nat).run [.new, .insert 0 5, .clone 0, .drop 0, .tryGetId 1 5]).2
      = [.handle 0, .id 0, .handle 1, .unit, .optId (some 0)] := by decide

end Abra.IdSet
