import AbraProofs.Lemmas.LexSteps
/-!
# C33 — diagnostics point at the offending source text

Parser and checker diagnostics carry the spans of tokens (`Location { lo, hi }` copied from
`Token.span`), lexer diagnostics the positions the lexer hands out; so the property rests on the
token spans.  Model: `Abra.Lex.tokenize` (character positions, as the lexer scans) and
`tokenizeBytes` (what it hands out: `Lexer::byte_pos`, byte offsets into the source).

* `C33_spans_cover` — for every source text: the tokens' spans are increasing and pairwise
  disjoint, every token but `eof` is non-empty and lies within the text, `eof` is the empty span at its end; and each span
  is exactly what the lexer consumed to produce that token (`C33_span_is_token`): lexing the text
  from `lo` yields the token and stops at `hi`.
* `C33_byte_span` — the byte offsets handed out: `lo' < hi' ≤ |source|` in bytes, both are the byte
  length of a whole-character prefix (char boundaries), and `hi' - lo'` is the UTF-8 length of the
  token's characters — also with non-ASCII text anywhere in the file.
* `C33_eof_position` — the stand-in position of `Parser::eof()` (diagnostics raised after the parser
  has stepped past the `Eof` token) is a character boundary within the source.
-/
namespace Abra.Lex

/-- spans start at or after `p`, and each starts at or after the end of the previous one (so they
    are increasing and pairwise disjoint) -/
def Chain : Nat → List Token → Prop
  | _, [] => True
  | p, t :: r => p ≤ t.lo ∧ t.lo ≤ t.hi ∧ Chain t.hi r

theorem chain_tokenizeAux : ∀ (f pos : Nat) (cs : List Char), Chain pos (tokenizeAux f pos cs).1 := by
  intro f
  induction f with
  | zero => intro pos cs; simp [tokenizeAux, Chain]
  | succ f ih =>
    intro pos cs
    cases cs with
    | nil => simp [tokenizeAux_nil, Chain]
    | cons c rest =>
      rw [tokenizeAux_cons]
      have hpos := stepLen_pos (c :: rest)
      have := ih (pos + stepLen (c :: rest)) ((c :: rest).drop (stepLen (c :: rest)))
      cases h : (lexOne (c :: rest)).tok with
      | none =>
        simp only
        -- nothing emitted: the chain of the rest starts later
        revert this
        generalize (tokenizeAux f (pos + stepLen (c :: rest)) ((c :: rest).drop (stepLen (c :: rest)))).1 = ts
        intro hc
        cases ts with
        | nil => trivial
        | cons t r => exact ⟨by have := hc.1; omega, hc.2.1, hc.2.2⟩
      | some k =>
        simp only [Chain]
        exact ⟨Nat.le_refl _, by omega, this⟩

/-- every token produced from position `pos` on the remaining input `cs` of a text `src`
    (`cs = src.drop pos`): within the text, and its span is what one lexer step at `lo` consumes -/
theorem tokens_tokenizeAux (src : List Char) : ∀ (f pos : Nat) (cs : List Char), cs.length < f →
    cs = src.drop pos → pos + cs.length = src.length →
    ∃ body, (tokenizeAux f pos cs).1 = body ++ [⟨.eof, src.length, src.length⟩] ∧
      ∀ t ∈ body, t.hi ≤ src.length ∧ (lexOne (src.drop t.lo)).tok = some t.kind ∧
        t.hi = t.lo + stepLen (src.drop t.lo) := by
  intro f
  induction f with
  | zero => intro pos cs h; omega
  | succ f ih =>
    intro pos cs hf hcs hlen
    cases cs with
    | nil =>
      refine ⟨[], ?_, by simp⟩
      simp only [List.length_nil, Nat.add_zero] at hlen
      simp [tokenizeAux_nil, hlen]
    | cons c rest =>
      rw [tokenizeAux_cons]
      have hle := stepLen_le c rest
      have hpos := stepLen_pos (c :: rest)
      have hdrop : (c :: rest).drop (stepLen (c :: rest)) = src.drop (pos + stepLen (c :: rest)) := by
        rw [hcs, List.drop_drop]
      have hl2 : pos + stepLen (c :: rest) + ((c :: rest).drop (stepLen (c :: rest))).length = src.length := by
        simp only [List.length_drop]; omega
      obtain ⟨body, hb, hall⟩ := ih (pos + stepLen (c :: rest)) _
        (by simp only [List.length_drop, List.length_cons] at hf ⊢; omega) hdrop hl2
      cases h : (lexOne (c :: rest)).tok with
      | none => exact ⟨body, by simp only [hb], hall⟩
      | some k =>
        refine ⟨⟨k, pos, pos + stepLen (c :: rest)⟩ :: body, by simp only [hb, List.cons_append], ?_⟩
        intro t ht
        rcases List.mem_cons.mp ht with rfl | ht
        · refine ⟨by simp only; omega, ?_, ?_⟩
          · simp only; rw [← hcs]; exact h
          · simp only; rw [← hcs]
        · exact hall t ht

theorem shebangLen_le (src : List Char) : shebangLen src ≤ src.length := by
  unfold shebangLen
  split
  · rename_i rest
    have := lineCommentLen_le ('!' :: rest)
    simp only [List.length_cons] at this ⊢; omega
  · omega

/-- **Token spans (characters).** For every source text the spans are non-empty, increasing and
    disjoint (from the position after a `#!` line on), every token except the final `eof` lies
    within the text and `eof` is the empty span at the end of the text. -/
theorem C33_spans_cover (src : List Char) :
    Chain (shebangLen src) (tokenize src).1 ∧
    ∃ body, (tokenize src).1 = body ++ [⟨.eof, src.length, src.length⟩] ∧
      ∀ t ∈ body, t.lo < t.hi ∧ t.hi ≤ src.length := by
  have hs := shebangLen_le src
  refine ⟨chain_tokenizeAux _ _ _, ?_⟩
  obtain ⟨body, hb, hall⟩ := tokens_tokenizeAux src (src.length + 1) (shebangLen src) (src.drop (shebangLen src))
    (by simp only [List.length_drop]; omega) rfl (by simp only [List.length_drop]; omega)
  refine ⟨body, hb, fun t ht => ?_⟩
  obtain ⟨h1, _, h3⟩ := hall t ht
  have := stepLen_pos (src.drop t.lo)
  exact ⟨by omega, h1⟩

/-- **The span is the token.** Each token's span is exactly what the lexer consumes to produce it:
    started at `lo`, one lexer step yields this token kind and ends at `hi`. -/
theorem C33_span_is_token (src : List Char) (t : Token) (ht : t ∈ (tokenize src).1) (hk : t.kind ≠ .eof) :
    (lexOne (src.drop t.lo)).tok = some t.kind ∧ t.hi = t.lo + stepLen (src.drop t.lo) := by
  have hs := shebangLen_le src
  obtain ⟨body, hb, hall⟩ := tokens_tokenizeAux src (src.length + 1) (shebangLen src) (src.drop (shebangLen src))
    (by simp only [List.length_drop]; omega) rfl (by simp only [List.length_drop]; omega)
  have ht' : t ∈ body ++ [⟨.eof, src.length, src.length⟩] := by
    have : (tokenize src).1 = (tokenizeAux (src.length + 1) (shebangLen src) (src.drop (shebangLen src))).1 := rfl
    rw [this, hb] at ht; exact ht
  rcases List.mem_append.mp ht' with h | h
  · exact (hall t h).2
  · simp only [List.mem_singleton] at h; subst h; exact absurd rfl hk

-- ---------------------------------------------------------------- bytes
theorem utf8Len_append (a b : List Char) : utf8Len (a ++ b) = utf8Len a + utf8Len b := by
  induction a with
  | nil => simp [utf8Len]
  | cons c r ih => simp only [List.cons_append, utf8Len, ih]; omega

theorem utf8Len_pos_of_ne_nil {a : List Char} (h : a ≠ []) : 0 < utf8Len a := by
  cases a with
  | nil => exact absurd rfl h
  | cons c r => have := Char.utf8Size_pos c; simp only [utf8Len]; omega

theorem take_split (src : List Char) (i j : Nat) (hij : i ≤ j) :
    src.take j = src.take i ++ (src.drop i).take (j - i) := by
  have : j = i + (j - i) := by omega
  rw [this, List.take_add]
  simp

/-- **Byte ranges.** For a span `[lo, hi)` of characters inside the text, the byte offsets handed out
    satisfy `lo' < hi' ≤ |source|` (bytes), each is the byte length of a whole-character prefix of the
    source — so it falls on a character boundary — and the range covers exactly the UTF-8 bytes of
    the span's characters. -/
theorem C33_byte_span (src : List Char) (lo hi : Nat) (h1 : lo < hi) (h2 : hi ≤ src.length) :
    bytePos src lo = utf8Len (src.take lo) ∧ bytePos src hi = utf8Len (src.take hi) ∧
    bytePos src lo < bytePos src hi ∧ bytePos src hi ≤ utf8Len src ∧
    bytePos src hi - bytePos src lo = utf8Len ((src.drop lo).take (hi - lo)) := by
  have e1 : bytePos src lo = utf8Len (src.take lo) := rfl
  have e2 : bytePos src hi = utf8Len (src.take hi) := rfl
  have hsplit := take_split src lo hi (by omega)
  have hne : (src.drop lo).take (hi - lo) ≠ [] := by
    intro h
    have := congrArg List.length h
    simp only [List.length_take, List.length_drop, List.length_nil] at this
    omega
  have hpos := utf8Len_pos_of_ne_nil hne
  have hwhole : utf8Len src = utf8Len (src.take hi) + utf8Len (src.drop hi) := by
    rw [← utf8Len_append, List.take_append_drop]
  refine ⟨e1, e2, ?_, ?_, ?_⟩
  · rw [e1, e2, hsplit, utf8Len_append]; omega
  · rw [e2]; omega
  · rw [e1, e2, hsplit, utf8Len_append]; omega

/-- Every token of every source text (except `eof`) gets such a byte range. -/
theorem C33_token_byte_span (src : List Char) (t : Token) (ht : t ∈ (tokenize src).1) (hk : t.kind ≠ .eof) :
    bytePos src t.lo < bytePos src t.hi ∧ bytePos src t.hi ≤ utf8Len src ∧
    bytePos src t.hi - bytePos src t.lo = utf8Len ((src.drop t.lo).take (t.hi - t.lo)) := by
  obtain ⟨_, body, hb, hall⟩ := C33_spans_cover src
  rw [hb] at ht
  rcases List.mem_append.mp ht with h | h
  · obtain ⟨a, b⟩ := hall t h
    obtain ⟨_, _, c, d, e⟩ := C33_byte_span src t.lo t.hi a b
    exact ⟨c, d, e⟩
  · simp only [List.mem_singleton] at h; subst h; exact absurd rfl hk

/-- the stand-in position `parse_file` gives `Parser::eof()` (used when the parser has stepped past
    the lexer's `Eof` token): the byte offset of the last character of the source (0 for the empty
    source) — `source.char_indices().next_back().map_or(0, |(i, _)| i)` -/
def parserEofPos (src : List Char) : Nat := bytePos src (src.length - 1)

/-- **End-of-input position.** The position used for diagnostics raised past the end of the token
    list is the byte length of a whole-character prefix of the source (a character boundary) and lies
    within the source — strictly before its end when the source is not empty, whatever the width of
    the last character.  (That `parse_file` computes exactly this number is checked by the
    correspondence: files ending in 1- to 4-byte characters where more input is required.) -/
theorem C33_eof_position (src : List Char) :
    parserEofPos src = utf8Len (src.take (src.length - 1)) ∧ parserEofPos src ≤ utf8Len src ∧
      (src ≠ [] → parserEofPos src < utf8Len src) := by
  have hwhole : utf8Len src = utf8Len (src.take (src.length - 1)) + utf8Len (src.drop (src.length - 1)) := by
    rw [← utf8Len_append, List.take_append_drop]
  refine ⟨rfl, ?_, ?_⟩
  · show utf8Len (src.take (src.length - 1)) ≤ utf8Len src
    omega
  · intro hne
    have hd : src.drop (src.length - 1) ≠ [] := by
      intro h
      have := congrArg List.length h
      simp only [List.length_drop, List.length_nil] at this
      have : 0 < src.length := List.length_pos_iff.mpr hne
      omega
    have := utf8Len_pos_of_ne_nil hd
    show utf8Len (src.take (src.length - 1)) < utf8Len src
    omega

example : parserEofPos "fn // café".toList = 9 ∧ utf8Len "fn // café".toList = 11 := by decide +kernel

-- non-vacuity / worked instance: `é` (2 bytes) and `漢` (3 bytes) before the token `$`-position
example : (tokenizeBytes "let s = \"é漢\" + x".toList).1.map (fun t => (t.lo, t.hi)) =
    [(0, 3), (4, 5), (6, 7), (8, 15), (16, 17), (18, 19), (19, 19)] := by decide +kernel
example : (3 : Nat) < 5 ∧ 5 ≤ "aé漢bc".toList.length := by decide
example : ∃ t ∈ (tokenize "x + 1".toList).1, t.kind ≠ .eof := ⟨⟨.plus, 2, 3⟩, by decide +kernel, by decide⟩

end Abra.Lex
