import AbraProofs.Lemmas.Sort
import AbraProofs.Lemmas.SortLoops
/-!
# C25 — sorting yields a sorted permutation, stably for sort_by

Model: `Abra.Lib.sortBy` (`AbraModel/Lib/Sort.lean`), a loop-by-loop transliteration of the prelude's
`sort_by` / `insertion_sort_by` / `merge_by` with the comparator as a parameter.  All theorems
quantify over every list (no length bound) and every comparator of the stated kind; the
specification side uses only `List.Perm`, `List.Pairwise` and `List.filter`.
-/
namespace Abra.Lib

variable {α : Type}

/-- The result is a permutation of the input — for ANY comparator, lawful or not. -/
theorem C25_sort_perm (le : α → α → Bool) (l : List α) : (sortBy le l).Perm l :=
  (mergeLoop_perm le _ _ _).trans (runs_perm le 32 l)

/-- For a total, transitive comparator the result is sorted: every element is `le` every later one. -/
theorem C25_sort_sorted (le : α → α → Bool)
    (total : ∀ a b, le a b = true ∨ le b a = true)
    (trans : ∀ a b c, le a b = true → le b c = true → le a c = true) (l : List α) :
    (sortBy le l).Pairwise (fun a b => le a b = true) :=
  mergeLoop_sorted le total trans l.length 32 (by decide) (runs le 32 l)
    (runs_perm le 32 l).length_eq (runs_blocks le total trans 32 (by decide) l)

/-- Stability: for every `x`, the elements equivalent to `x` (`le x y ∧ le y x`) appear in the
    result in exactly their original relative order. -/
theorem C25_sort_stable (le : α → α → Bool)
    (total : ∀ a b, le a b = true ∨ le b a = true)
    (trans : ∀ a b c, le a b = true → le b c = true → le a c = true) (l : List α) (x : α) :
    (sortBy le l).filter (fun y => le x y && le y x) = l.filter (fun y => le x y && le y x) := by
  have h1 := filter_mergeLoop le total trans x l.length 32 (runs le 32 l) (runs_blocks le total trans 32 (by decide) l)
  have h2 := filter_runs le trans x 32 l
  exact h1.trans h2

/-- `sort` on an element type whose `<=` is a total preorder (instantiated for `int` below). -/
theorem C25_sort_spec (leT : α → α → Bool)
    (total : ∀ a b, leT a b = true ∨ leT b a = true)
    (trans : ∀ a b c, leT a b = true → leT b c = true → leT a c = true) (l : List α) :
    (sort leT l).Perm l ∧ (sort leT l).Pairwise (fun a b => leT a b = true) :=
  ⟨C25_sort_perm _ l, C25_sort_sorted _ total trans l⟩

/-- `array<int>.sort()`: a permutation in non-decreasing order. -/
theorem C25_sort_int (l : List Int) :
    (sort (fun a b => decide (a ≤ b)) l).Perm l ∧ (sort (fun a b => decide (a ≤ b)) l).Pairwise (· ≤ ·) := by
  have h := C25_sort_spec (fun a b : Int => decide (a ≤ b))
    (by intro a b; simp only [decide_eq_true_eq]; omega)
    (by intro a b c; simp only [decide_eq_true_eq]; omega) l
  refine ⟨h.1, ?_⟩
  exact h.2.imp (by intro a b; simp)

/-- `sort_by_key(key)` for a key type whose `<=` is a total preorder: a permutation, sorted by key,
    and elements with equivalent keys keep their original order. -/
theorem C25_sort_by_key_spec {κ : Type} (leK : κ → κ → Bool) (key : α → κ)
    (total : ∀ a b, leK a b = true ∨ leK b a = true)
    (trans : ∀ a b c, leK a b = true → leK b c = true → leK a c = true) (l : List α) :
    (sortByKey leK key l).Perm l ∧
    (sortByKey leK key l).Pairwise (fun a b => leK (key a) (key b) = true) ∧
    ∀ x, (sortByKey leK key l).filter (fun y => leK (key x) (key y) && leK (key y) (key x))
          = l.filter (fun y => leK (key x) (key y) && leK (key y) (key x)) :=
  ⟨C25_sort_perm _ l,
   C25_sort_sorted (fun a b => leK (key a) (key b)) (fun a b => total (key a) (key b))
     (fun a b c => trans (key a) (key b) (key c)) l,
   fun x => C25_sort_stable (fun a b => leK (key a) (key b)) (fun a b => total (key a) (key b))
     (fun a b c => trans (key a) (key b) (key c)) l x⟩

/-- `sort_by_key` with integer keys: for every key value `k`, the elements with key `k` come out in
    their original order. -/
theorem C25_sort_by_key_int (key : α → Int) (l : List α) :
    (sortByKey (fun a b : Int => decide (a ≤ b)) key l).Perm l ∧
    (sortByKey (fun a b : Int => decide (a ≤ b)) key l).Pairwise (fun a b => key a ≤ key b) ∧
    ∀ k : Int, (sortByKey (fun a b : Int => decide (a ≤ b)) key l).filter (fun y => key y == k)
          = l.filter (fun y => key y == k) := by
  have h := C25_sort_by_key_spec (fun a b : Int => decide (a ≤ b)) key
    (by intro a b; simp only [decide_eq_true_eq]; omega)
    (by intro a b c; simp only [decide_eq_true_eq]; omega) l
  refine ⟨h.1, h.2.1.imp (by intro a b; simp), ?_⟩
  intro k
  -- if no element has key `k` both filters are empty; otherwise use such an element as `x`
  by_cases hk : ∃ x ∈ l, key x = k
  · obtain ⟨x, _, hx⟩ := hk
    have e : (fun y => decide (key x ≤ key y) && decide (key y ≤ key x)) = (fun y => key y == k) := by
      funext y; subst hx
      by_cases h1 : key y = key x
      · simp [h1]
      · have h2 : (key y == key x) = false := by simpa using h1
        rw [h2]
        by_cases h3 : key x ≤ key y
        · have : ¬ key y ≤ key x := by omega
          simp [this]
        · simp [h3]
    have := h.2.2 x
    rw [e] at this; exact this
  · have hnone : ∀ m : List α, m.Perm l → m.filter (fun y => key y == k) = [] := by
      intro m hm
      rw [List.filter_eq_nil_iff]
      intro y hy hyk
      exact hk ⟨y, hm.mem_iff.mp hy, by simpa using hyk⟩
    rw [hnone _ h.1, hnone l (List.Perm.refl _)]

theorem lexLe_iff (a b : Int × Int) : lexLe a b = true ↔ (a.1 < b.1 ∨ (a.1 = b.1 ∧ a.2 ≤ b.2)) := by
  unfold lexLe
  by_cases h1 : a.1 < b.1
  · simp [h1]
  · by_cases h2 : a.1 > b.1
    · simp only [h1, h2, if_false, if_true]
      constructor
      · intro h; cases h
      · intro h; exfalso; rcases h with h | ⟨h, _⟩ <;> omega
    · simp only [h1, h2, if_false, decide_eq_true_eq]
      constructor
      · intro h; right; exact ⟨by omega, h⟩
      · intro h; rcases h with h | ⟨_, h⟩
        · exact h.elim
        · exact h

/-- `array<(int, int)>.sort()`: the prelude's tuple `<=` is the lexicographic order, so the result is
    a permutation in lexicographic order. -/
theorem C25_sort_lex_pairs (l : List (Int × Int)) :
    (sort lexLe l).Perm l ∧
    (sort lexLe l).Pairwise (fun a b => a.1 < b.1 ∨ (a.1 = b.1 ∧ a.2 ≤ b.2)) := by
  have h := C25_sort_spec lexLe
    (by intro a b; rw [lexLe_iff, lexLe_iff]; omega)
    (by intro a b c; rw [lexLe_iff, lexLe_iff, lexLe_iff]; omega) l
  exact ⟨h.1, h.2.imp (fun h => (lexLe_iff _ _).mp h)⟩

/-- The sweep at width `w` follows the source's index arithmetic: starting at `left` (the head of
    `l`), the blocks `[left, left+w)` and `[left+w, left+2w)` are merged exactly when the second one
    is non-empty (`mid < right`); a lone (possibly short) block is left alone; then `left += 2w`. -/
theorem C25_mergePass_structure (le : α → α → Bool) (w : Nat) (l : List α) (hw : 0 < w) (hl : l ≠ []) :
    mergePass le w l =
      (if w < l.length then merge le (l.take w) ((l.drop w).take w) else l.take w)
        ++ mergePass le w (l.drop (2 * w)) :=
  mergePass_eq le w l hw hl

/-- `merge` is left-biased: on a tie the element of the left run comes first. -/
theorem C25_merge_left_wins (le : α → α → Bool) (a b : α) (l r : List α) (h : le a b = true) :
    merge le (a :: l) (b :: r) = a :: merge le l (b :: r) := by
  simp [merge, h]

/-! ## from the array and its indices to the list model

`Abra.Lib.sortByA` (`AbraModel/Lib/SortLoops.lean`) is `sort_by` once more, this time on the whole array with the
source's variables — `i`, `end`, `size`, `left`, `mid`, `right`, the scratch array `temp`, `i_curr`, `j`, `k`, the
in-place writes `self[k] = …` and `self[j+1] = self[j]` — and it is what the model driver runs against the real VM.
The theorems below carry everything proved about `sortBy` over to it. -/

/-- `merge_by(left, mid, right)` with its scratch copy and in-place writes puts `merge` of the two runs into
    `[left, right]` and touches nothing else (no write ever lands on an unread element of the right run). -/
theorem C25_merge_by_in_place (le : α → α → Bool) (arr : List α) (left mid right : Nat)
    (h1 : left ≤ mid) (h2 : mid < right) (h3 : right < arr.length) :
    mergeByA le arr left mid right =
      arr.take left ++ merge le ((arr.drop left).take (mid - left + 1)) ((arr.drop (mid + 1)).take (right - mid))
        ++ arr.drop (right + 1) :=
  mergeByA_eq le arr left mid right h1 h2 h3

/-- `insertion_sort_by(left, right)` with its shifting loop is `insertRun` on the segment, nothing else touched. -/
theorem C25_insertion_sort_in_place (le : α → α → Bool) (arr : List α) (left right : Nat)
    (h1 : left ≤ right) (h2 : right < arr.length) :
    insertionSortByA le arr left right =
      arr.take left ++ insertRun le ((arr.drop left).take (right - left + 1)) ++ arr.drop (right + 1) :=
  insertionSortByA_eq le arr left right h1 h2

/-- The index-level `sort_by` computes exactly the list-level `sortBy`, for every comparator. -/
theorem C25_sort_by_index_level (le : α → α → Bool) (arr : List α) : sortByA le arr = sortBy le arr :=
  sortByA_eq le arr

/-- Hence the index-level `sort_by`: a permutation for any comparator; sorted and stable for a total,
    transitive one. -/
theorem C25_sort_array_level (le : α → α → Bool) (arr : List α) :
    (sortByA le arr).Perm arr ∧
    ((∀ a b, le a b = true ∨ le b a = true) → (∀ a b c, le a b = true → le b c = true → le a c = true) →
      (sortByA le arr).Pairwise (fun a b => le a b = true) ∧
      ∀ x, (sortByA le arr).filter (fun y => le x y && le y x) = arr.filter (fun y => le x y && le y x)) := by
  rw [C25_sort_by_index_level]
  exact ⟨C25_sort_perm le arr, fun total trans =>
    ⟨C25_sort_sorted le total trans arr, fun x => C25_sort_stable le total trans arr x⟩⟩

/-! ## non-vacuity and unlawful comparators -/

-- the hypotheses of the lawful theorems are satisfiable (integers with `≤`), and the theorem applies
example : (sortBy (fun a b : Int => decide (a ≤ b)) [3, 1, 2]).Pairwise (fun a b => decide (a ≤ b) = true) :=
  C25_sort_sorted _ (by intro a b; simp only [decide_eq_true_eq]; omega)
    (by intro a b c; simp only [decide_eq_true_eq]; omega) _

example : sortBy (fun a b : Int => decide (a ≤ b)) [3, 1, 2] = [1, 2, 3] := by
  simp [sortBy, runs, mergeLoop, insertRun, insRev]
example : sortBy (fun a b : Int × Int => decide (a.1 ≤ b.1)) [(3, 0), (1, 1), (3, 2), (1, 3)]
    = [(1, 1), (1, 3), (3, 0), (3, 2)] := by
  simp [sortBy, runs, mergeLoop, insertRun, insRev]
-- with the strict (unlawful) comparator equal keys are *reversed* by the insertion pass:
-- sortedness/stability genuinely need the hypotheses, the permutation theorem does not
example : sortBy (fun a b : Int × Int => decide (a.1 < b.1)) [(1, 0), (1, 1)] = [(1, 1), (1, 0)] := by
  simp [sortBy, runs, mergeLoop, insertRun, insRev]
example : (0 : Nat) < 32 ∧ ([1] : List Int) ≠ [] := by decide
-- index bounds of the in-place lemmas are satisfiable
example : (0 : Nat) ≤ 0 ∧ (0 : Nat) < 1 ∧ 1 < ([5, 3] : List Int).length := by decide

end Abra.Lib
