import AbraProofs.Lemmas.HashMapRemove
/-!
# C27 — core/map and core/set behave like a dictionary and a set

Model: `Abra.Lib.HashMap` (`AbraModel/Lib/HashMap.lean`): the chained hash table of `core/map.abra` in
struct-of-arrays form (buckets, entry_keys/values/hashes/nexts/occupied, free list through entry_nexts,
resize when slots ≥ buckets, count), with `Hash.hash` and `Equal.equal` of the key type as parameters.
`Models hash eq t d` (in `Lemmas/HashMapInv.lean`): the table `t` satisfies the representation
invariant `Inv` and represents the dictionary `d : K → Option V`.
All theorems hold for ANY `hash`/`eq` pair that is `Lawful` (equality an equivalence, equal keys hash
equally) — constant and colliding hashes included — and for any table, however it was reached.
-/
namespace Abra.Lib.HashMap

variable {K V : Type}

theorem option_ext {α : Type} {a b : Option α} (h : ∀ v, a = some v ↔ b = some v) : a = b := by
  cases a with
  | none =>
    cases b with
    | none => rfl
    | some y => exact absurd ((h y).mpr rfl) (by simp)
  | some x => exact ((h x).mp rfl).symm

/-- The bucket index `hash % len` is in range for every hash code — `MIN` included (D9 repaired:
    `%` is the Euclidean remainder and `len > 0`), and it is that remainder. -/
theorem C27_bucket_index_in_range (h : Int) (len : Nat) (hl : len ≠ 0) :
    ∃ b : Nat, bucketIdx h len = .ok (b : Int) ∧ b < len ∧ (b : Int) = h % (len : Int) :=
  bucketIdx_range h len hl

/-- `map.new()` is the empty dictionary, of length 0. -/
theorem C27_new_refines (hash : K → Int) (eq : K → K → Bool) :
    Models hash eq (Table.new : Table K V) (fun _ => none) ∧ (Table.new : Table K V).len = 0 :=
  ⟨new_models hash eq, rfl⟩

/-- `try_get` is dictionary lookup (chain walk through colliding entries included). -/
theorem C27_try_get_refines (hash : K → Int) (eq : K → K → Bool) (law : Lawful hash eq)
    (t : Table K V) (d : K → Option V) (hm : Models hash eq t d) (k : K) :
    tryGet hash eq t k = .ok (d k) := by
  obtain ⟨⟨ch, fr, wf⟩, hd⟩ := hm
  obtain ⟨r, hr, hspec⟩ := tryGet_spec law wf k
  rw [hr]
  congr 1
  exact option_ext (fun v => (hspec v).trans (hd k v).symm)

/-- `contains` = the key is in the dictionary. -/
theorem C27_contains_refines (hash : K → Int) (eq : K → K → Bool) (law : Lawful hash eq)
    (t : Table K V) (d : K → Option V) (hm : Models hash eq t d) (k : K) :
    contains hash eq t k = .ok (d k).isSome := by
  simp [contains, C27_try_get_refines hash eq law t d hm k]

/-- `get` and `m[k]`: the value when present, the `panic` runtime error when absent. -/
theorem C27_get_refines (hash : K → Int) (eq : K → K → Bool) (law : Lawful hash eq)
    (t : Table K V) (d : K → Option V) (hm : Models hash eq t d) (k : K) :
    get hash eq t k = (match d k with | some v => .ok v | none => .error .panic) ∧
    indexGet hash eq t k = get hash eq t k := by
  refine ⟨?_, rfl⟩
  simp only [get, C27_try_get_refines hash eq law t d hm k]
  cases d k <;> rfl

/-- The chain walks never run out of fuel under the invariant (chains are acyclic and have at most as
    many links as there are slots). -/
theorem C27_fuel_enough_lookup (hash : K → Int) (eq : K → K → Bool) (law : Lawful hash eq)
    (t : Table K V) (hinv : Inv hash eq t) (k : K) :
    tryGet hash eq t k ≠ .error .fuel ∧ contains hash eq t k ≠ .error .fuel ∧ get hash eq t k ≠ .error .fuel := by
  obtain ⟨ch, fr, wf⟩ := hinv
  obtain ⟨r, hr, _⟩ := tryGet_spec law wf k
  refine ⟨by rw [hr]; simp, by simp [contains, hr], ?_⟩
  simp only [get, hr]
  cases r <;> simp

/-- `insert` (and `m[k] = v`): afterwards the table represents the updated dictionary — whether the key
    was updated in place, put into a slot taken from the free list, or appended, with or without a
    resize before — and `len` grows by one exactly when the key was absent. -/
theorem C27_insert_refines (hash : K → Int) (eq : K → K → Bool) (law : Lawful hash eq)
    (t : Table K V) (d : K → Option V) (hm : Models hash eq t d) (k : K) (v : V) :
    ∃ t', insert hash eq t k v = .ok t' ∧ indexSet hash eq t k v = .ok t' ∧
      Models hash eq t' (fun k' => if eq k k' = true then some v else d k') ∧
      t'.len = t.len + (if d k = none then 1 else 0) := by
  obtain ⟨t', e, hm', hc⟩ := insert_spec law t d hm k v
  exact ⟨t', e, e, hm', hc⟩

/-- `remove`: answers whether the key was present; afterwards the table represents the dictionary
    without the key (the slot is unlinked from its chain and pushed on the free list) and `len` shrinks
    by one exactly when the key was present. -/
theorem C27_remove_refines (hash : K → Int) (eq : K → K → Bool) (law : Lawful hash eq)
    (t : Table K V) (d : K → Option V) (hm : Models hash eq t d) (k : K) :
    ∃ t', remove hash eq t k = .ok (t', (d k).isSome) ∧
      Models hash eq t' (fun k' => if eq k k' = true then none else d k') ∧
      t'.len = t.len - (if (d k).isSome then 1 else 0) :=
  remove_spec law t d hm k

/-- `m[k] op= v` through the `Index` impl of the map (`index_get`, then `index_set`): the `panic` of `get` when
    the key is absent (nothing is inserted), otherwise the value is replaced by `f` of the old one and `len`
    stays as it is. -/
theorem C27_index_update_refines (hash : K → Int) (eq : K → K → Bool) (law : Lawful hash eq)
    (t : Table K V) (d : K → Option V) (hm : Models hash eq t d) (k : K) (f : V → V) :
    (d k = none → indexUpdate hash eq t k f = .error .panic) ∧
    (∀ x, d k = some x → ∃ t', indexUpdate hash eq t k f = .ok t' ∧
      Models hash eq t' (fun k' => if eq k k' = true then some (f x) else d k') ∧ t'.len = t.len) := by
  have hg := (C27_get_refines hash eq law t d hm k).1
  constructor
  · intro hn
    simp only [indexUpdate, indexGet, hg, hn]
  · intro x hx
    obtain ⟨t', e, e2, hm', hc⟩ := C27_insert_refines hash eq law t d hm k (f x)
    refine ⟨t', by simp only [indexUpdate, indexGet, hg, hx, e2], hm', ?_⟩
    rw [hc, hx]; simp

/-- `resize` keeps the invariant and the represented dictionary, doubles the buckets (4 at first). -/
theorem C27_resize_refines (hash : K → Int) (eq : K → K → Bool)
    (t : Table K V) (d : K → Option V) (hm : Models hash eq t d) :
    ∃ t', resize t = .ok t' ∧ Models hash eq t' d ∧ t'.len = t.len ∧
      t'.buckets.length = (if t.buckets.length = 0 then 4 else t.buckets.length * 2) := by
  obtain ⟨t', e, hm', hc, hl, _⟩ := resize_spec t d hm
  exact ⟨t', e, hm', hc, hl⟩

/-! ## histories: the table against a reference dictionary -/

/-- the reference dictionary: an association list, looked up / updated / erased with the key type's `Equal` -/
def dlookup (eq : K → K → Bool) (k : K) : List (K × V) → Option V
  | [] => none
  | (k', v) :: r => if eq k' k = true then some v else dlookup eq k r

def dinsert (eq : K → K → Bool) (k : K) (v : V) : List (K × V) → List (K × V)
  | [] => [(k, v)]
  | (k', v') :: r => if eq k' k = true then (k', v) :: r else (k', v') :: dinsert eq k v r

def derase (eq : K → K → Bool) (k : K) : List (K × V) → List (K × V)
  | [] => []
  | (k', v') :: r => if eq k' k = true then r else (k', v') :: derase eq k r

inductive Op (K V : Type) where
  | insert (k : K) (v : V) | indexSet (k : K) (v : V)
  | tryGet (k : K) | get (k : K) | indexGet (k : K) | contains (k : K) | remove (k : K) | len
  | indexUpd (k : K) (f : V → V)      -- `m[k] op= v`

/-- what the program prints for an operation (`fault` = the model hit an internal error) -/
inductive Out (V : Type) where
  | unit | opt (o : Option V) | val (v : V) | bool (b : Bool) | int (n : Int) | panic | fault (e : Err)

/-- the history run on the hash table; a `get` of an absent key panics and ends the program -/
def runTable (hash : K → Int) (eq : K → K → Bool) : Table K V → List (Op K V) → List (Out V × Int)
  | _, [] => []
  | t, .insert k v :: ops | t, .indexSet k v :: ops =>
    match insert hash eq t k v with
    | .ok t' => (.unit, t'.len) :: runTable hash eq t' ops
    | .error e => [(.fault e, 0)]
  | t, .tryGet k :: ops =>
    match tryGet hash eq t k with
    | .ok o => (.opt o, t.len) :: runTable hash eq t ops
    | .error e => [(.fault e, 0)]
  | t, .get k :: ops | t, .indexGet k :: ops =>
    match get hash eq t k with
    | .ok v => (.val v, t.len) :: runTable hash eq t ops
    | .error .panic => [(.panic, 0)]
    | .error e => [(.fault e, 0)]
  | t, .contains k :: ops =>
    match contains hash eq t k with
    | .ok b => (.bool b, t.len) :: runTable hash eq t ops
    | .error e => [(.fault e, 0)]
  | t, .remove k :: ops =>
    match remove hash eq t k with
    | .ok (t', b) => (.bool b, t'.len) :: runTable hash eq t' ops
    | .error e => [(.fault e, 0)]
  | t, .len :: ops => (.int t.len, t.len) :: runTable hash eq t ops
  | t, .indexUpd k f :: ops =>
    match indexUpdate hash eq t k f with
    | .ok t' => (.unit, t'.len) :: runTable hash eq t' ops
    | .error .panic => [(.panic, 0)]
    | .error e => [(.fault e, 0)]

/-- the same history on the reference dictionary -/
def runDict (eq : K → K → Bool) : List (K × V) → List (Op K V) → List (Out V × Int)
  | _, [] => []
  | s, .insert k v :: ops | s, .indexSet k v :: ops =>
    (.unit, ((dinsert eq k v s).length : Int)) :: runDict eq (dinsert eq k v s) ops
  | s, .tryGet k :: ops => (.opt (dlookup eq k s), (s.length : Int)) :: runDict eq s ops
  | s, .get k :: ops | s, .indexGet k :: ops =>
    match dlookup eq k s with
    | some v => (.val v, (s.length : Int)) :: runDict eq s ops
    | none => [(.panic, 0)]
  | s, .contains k :: ops => (.bool (dlookup eq k s).isSome, (s.length : Int)) :: runDict eq s ops
  | s, .remove k :: ops =>
    (.bool (dlookup eq k s).isSome, ((derase eq k s).length : Int)) :: runDict eq (derase eq k s) ops
  | s, .len :: ops => (.int s.length, (s.length : Int)) :: runDict eq s ops
  | s, .indexUpd k f :: ops =>
    match dlookup eq k s with
    | some x => (.unit, ((dinsert eq k (f x) s).length : Int)) :: runDict eq (dinsert eq k (f x) s) ops
    | none => [(.panic, 0)]

/-- no two entries of the association list have equal keys -/
def NoDupKeys (eq : K → K → Bool) (s : List (K × V)) : Prop := s.Pairwise (fun a b => eq a.1 b.1 = false)

section dict
variable {eq : K → K → Bool} {hash : K → Int}

theorem dlookup_dinsert (law : Lawful hash eq) (k : K) (v : V) (k' : K) (s : List (K × V)) :
    dlookup eq k' (dinsert eq k v s) = if eq k k' = true then some v else dlookup eq k' s := by
  induction s with
  | nil => simp [dinsert, dlookup]
  | cons p r ih =>
    obtain ⟨k1, v1⟩ := p
    simp only [dinsert]
    by_cases h1 : eq k1 k = true
    · simp only [h1, if_true, dlookup]
      by_cases h2 : eq k1 k' = true
      · have : eq k k' = true := law.trans _ _ _ (law.symm _ _ h1) h2
        simp [h2, this]
      · have : ¬ eq k k' = true := fun h => h2 (law.trans _ _ _ h1 h)
        simp [h2, this]
    · simp only [h1, Bool.false_eq_true, if_false, dlookup, ih]
      by_cases h2 : eq k1 k' = true
      · have : ¬ eq k k' = true := fun h => h1 (law.trans _ _ _ h2 (law.symm _ _ h))
        simp [h2, this]
      · simp [h2]

theorem dinsert_length (k : K) (v : V) (s : List (K × V)) :
    ((dinsert eq k v s).length : Int) = s.length + (if dlookup eq k s = none then 1 else 0) := by
  induction s with
  | nil => simp [dinsert, dlookup]
  | cons p r ih =>
    obtain ⟨k1, v1⟩ := p
    simp only [dinsert, dlookup]
    by_cases h1 : eq k1 k = true
    · simp [h1]
    · simp only [h1, Bool.false_eq_true, if_false, List.length_cons]
      push_cast
      rw [ih]; omega

theorem mem_dinsert_key (k : K) (v : V) (s : List (K × V)) (p : K × V) (hp : p ∈ dinsert eq k v s) :
    p.1 = k ∨ ∃ q ∈ s, q.1 = p.1 := by
  induction s with
  | nil => simp [dinsert] at hp; left; rw [hp]
  | cons q r ih =>
    obtain ⟨k1, v1⟩ := q
    simp only [dinsert] at hp
    by_cases h1 : eq k1 k = true
    · simp only [h1, if_true, List.mem_cons] at hp
      cases hp with
      | inl e => right; exact ⟨(k1, v1), by simp, by rw [e]⟩
      | inr h => right; exact ⟨p, by simp [h], rfl⟩
    · simp only [h1, Bool.false_eq_true, if_false, List.mem_cons] at hp
      cases hp with
      | inl e => right; exact ⟨(k1, v1), by simp, by rw [e]⟩
      | inr h =>
        cases ih h with
        | inl e => left; exact e
        | inr h => obtain ⟨q, hq, e⟩ := h; right; exact ⟨q, by simp [hq], e⟩

theorem dinsert_nodup (law : Lawful hash eq) (k : K) (v : V) (s : List (K × V)) (h : NoDupKeys eq s) :
    NoDupKeys eq (dinsert eq k v s) := by
  induction s with
  | nil => simp [dinsert, NoDupKeys]
  | cons p r ih =>
    obtain ⟨k1, v1⟩ := p
    have hp := List.pairwise_cons.mp h
    simp only [dinsert]
    by_cases h1 : eq k1 k = true
    · simp only [h1, if_true]
      exact List.pairwise_cons.mpr ⟨fun b hb => hp.1 b hb, hp.2⟩
    · simp only [h1, Bool.false_eq_true, if_false]
      refine List.pairwise_cons.mpr ⟨?_, ih hp.2⟩
      intro b hb
      cases mem_dinsert_key k v r b hb with
      | inl e => simp only; rw [e]; simpa using h1
      | inr hq =>
        obtain ⟨q, hq, e⟩ := hq
        have := hp.1 q hq
        simp only at this ⊢
        rw [← e]; exact this

theorem dlookup_none_of_nodup (law : Lawful hash eq) (k1 : K) (k' : K) (r : List (K × V))
    (h : ∀ b ∈ r, eq k1 b.1 = false) (hk : eq k1 k' = true) : dlookup eq k' r = none := by
  induction r with
  | nil => rfl
  | cons q r ih =>
    obtain ⟨k2, v2⟩ := q
    simp only [dlookup]
    have h2 : ¬ eq k2 k' = true := by
      intro e
      have := h (k2, v2) (by simp)
      have : eq k1 k2 = true := law.trans _ _ _ hk (law.symm _ _ e)
      simp_all
    simp only [h2, if_false]
    exact ih (fun b hb => h b (by simp [hb]))

theorem dlookup_derase (law : Lawful hash eq) (k k' : K) (s : List (K × V)) (h : NoDupKeys eq s) :
    dlookup eq k' (derase eq k s) = if eq k k' = true then none else dlookup eq k' s := by
  induction s with
  | nil => simp [derase, dlookup]
  | cons p r ih =>
    obtain ⟨k1, v1⟩ := p
    have hp := List.pairwise_cons.mp h
    simp only [derase]
    by_cases h1 : eq k1 k = true
    · simp only [h1, if_true, dlookup]
      by_cases h2 : eq k k' = true
      · have h3 : eq k1 k' = true := law.trans _ _ _ h1 h2
        simp only [h2, if_true]
        exact dlookup_none_of_nodup law k1 k' r (fun b hb => hp.1 b hb) h3
      · have h3 : ¬ eq k1 k' = true := fun e => h2 (law.trans _ _ _ (law.symm _ _ h1) e)
        simp [h2, h3]
    · simp only [h1, Bool.false_eq_true, if_false, dlookup, ih hp.2]
      by_cases h2 : eq k1 k' = true
      · have : ¬ eq k k' = true := fun e => h1 (law.trans _ _ _ h2 (law.symm _ _ e))
        simp [h2, this]
      · simp [h2]

theorem derase_length (k : K) (s : List (K × V)) :
    ((derase eq k s).length : Int) = s.length - (if (dlookup eq k s).isSome then 1 else 0) := by
  induction s with
  | nil => simp [derase, dlookup]
  | cons p r ih =>
    obtain ⟨k1, v1⟩ := p
    simp only [derase, dlookup]
    by_cases h1 : eq k1 k = true
    · simp [h1]
    · simp only [h1, Bool.false_eq_true, if_false, List.length_cons]
      push_cast
      rw [ih]; omega

theorem derase_sublist (k : K) (s : List (K × V)) : (derase eq k s).Sublist s := by
  induction s with
  | nil => exact List.Sublist.refl _
  | cons p r ih =>
    obtain ⟨k1, v1⟩ := p
    simp only [derase]
    by_cases h1 : eq k1 k = true
    · simp only [h1, if_true]; exact List.sublist_cons_self _ _
    · simp only [h1, Bool.false_eq_true, if_false]; exact ih.cons₂ _

end dict

/-- the simulation relation between a table and a reference dictionary -/
def Sim (hash : K → Int) (eq : K → K → Bool) (t : Table K V) (s : List (K × V)) : Prop :=
  Models hash eq t (fun k => dlookup eq k s) ∧ t.len = (s.length : Int) ∧ NoDupKeys eq s

theorem sim_run (hash : K → Int) (eq : K → K → Bool) (law : Lawful hash eq) :
    ∀ (ops : List (Op K V)) (t : Table K V) (s : List (K × V)), Sim hash eq t s →
      runTable hash eq t ops = runDict eq s ops := by
  intro ops
  induction ops with
  | nil => intro t s _; rfl
  | cons op ops ih =>
    intro t s hsim
    obtain ⟨hm, hlen, hnd⟩ := hsim
    have ins : ∀ k v, ∃ t', insert hash eq t k v = .ok t' ∧ Sim hash eq t' (dinsert eq k v s) ∧
        t'.len = ((dinsert eq k v s).length : Int) := by
      intro k v
      obtain ⟨t', e, _, hm', hc⟩ := C27_insert_refines hash eq law t _ hm k v
      have hl : t'.len = ((dinsert eq k v s).length : Int) := by rw [hc, hlen, dinsert_length]
      exact ⟨t', e, ⟨models_congr hm' (fun k' => dlookup_dinsert law k v k' s), hl, dinsert_nodup law k v s hnd⟩, hl⟩
    have getc : ∀ k, get hash eq t k = (match dlookup eq k s with | some v => .ok v | none => .error .panic) :=
      fun k => (C27_get_refines hash eq law t _ hm k).1
    cases op with
    | insert k v =>
      obtain ⟨t', e, hs', hl⟩ := ins k v
      simp only [runTable, runDict, e, hl]
      rw [ih t' _ hs']
    | indexSet k v =>
      obtain ⟨t', e, hs', hl⟩ := ins k v
      simp only [runTable, runDict, e, hl]
      rw [ih t' _ hs']
    | tryGet k =>
      simp only [runTable, runDict, C27_try_get_refines hash eq law t _ hm k, hlen]
      rw [ih t s ⟨hm, hlen, hnd⟩]
    | get k =>
      simp only [runTable, runDict, getc k]
      cases dlookup eq k s with
      | none => rfl
      | some v => simp only [hlen]; rw [ih t s ⟨hm, hlen, hnd⟩]
    | indexGet k =>
      simp only [runTable, runDict, getc k]
      cases dlookup eq k s with
      | none => rfl
      | some v => simp only [hlen]; rw [ih t s ⟨hm, hlen, hnd⟩]
    | contains k =>
      simp only [runTable, runDict, C27_contains_refines hash eq law t _ hm k, hlen]
      rw [ih t s ⟨hm, hlen, hnd⟩]
    | remove k =>
      obtain ⟨t', e, hm', hc⟩ := C27_remove_refines hash eq law t _ hm k
      have hl : t'.len = ((derase eq k s).length : Int) := by rw [hc, hlen, derase_length]
      have hs' : Sim hash eq t' (derase eq k s) :=
        ⟨models_congr hm' (fun k' => dlookup_derase law k k' s hnd), hl, hnd.sublist (derase_sublist k s)⟩
      simp only [runTable, runDict, e, hl]
      rw [ih t' _ hs']
    | len =>
      simp only [runTable, runDict, hlen]
      rw [ih t s ⟨hm, hlen, hnd⟩]
    | indexUpd k f =>
      have hu := C27_index_update_refines hash eq law t _ hm k f
      simp only [runTable, runDict]
      cases hx : dlookup eq k s with
      | none => simp only [hu.1 hx]
      | some x =>
        obtain ⟨t', e, hm', hc⟩ := hu.2 x hx
        have hl : t'.len = ((dinsert eq k (f x) s).length : Int) := by
          rw [hc, hlen, dinsert_length, hx]; simp
        have hs' : Sim hash eq t' (dinsert eq k (f x) s) :=
          ⟨models_congr hm' (fun k' => dlookup_dinsert law k (f x) k' s), hl, dinsert_nodup law k (f x) s hnd⟩
        simp only [e, hl]
        rw [ih t' _ hs']

/-- **The map refines the dictionary.**  For ANY history of insert / `m[k] = v` / `m[k] op= v` / try_get / get / `m[k]` /
    contains / remove / len, starting from `map.new()`, the hash table prints exactly what the
    reference dictionary (an association list) prints — results and `len()` after every operation, and
    the `panic` of `get` on an absent key — for any `Hash`/`Equal` pair where equality is an
    equivalence and equal keys hash equally: colliding and constant hashes, every resize, every slot
    reuse through the free list included.  No internal fault (bounds, fuel) is ever reached. -/
theorem C27_map_refines_dict (hash : K → Int) (eq : K → K → Bool) (law : Lawful hash eq) (ops : List (Op K V)) :
    runTable hash eq (Table.new : Table K V) ops = runDict eq [] ops :=
  sim_run hash eq law ops Table.new [] ⟨new_models hash eq, rfl, List.Pairwise.nil⟩

/-- `set<T>` is `map<T, void>`: the same theorem at `V = Unit` (insert / contains / remove / len). -/
theorem C27_set_refines_set (hash : K → Int) (eq : K → K → Bool) (law : Lawful hash eq) (ops : List (Op K Unit)) :
    runTable hash eq (Table.new : Table K Unit) ops = runDict eq [] ops :=
  C27_map_refines_dict hash eq law ops

/-- The walks of `insert` and `remove` never run out of fuel either (and no bound check fails): under the
    invariant every operation ends normally. -/
theorem C27_fuel_enough (hash : K → Int) (eq : K → K → Bool) (law : Lawful hash eq)
    (t : Table K V) (hinv : Inv hash eq t) (k : K) (v : V) :
    (∃ t', insert hash eq t k v = .ok t' ∧ Inv hash eq t') ∧ (∃ t' b, remove hash eq t k = .ok (t', b) ∧ Inv hash eq t') := by
  -- every table satisfying the invariant represents some dictionary: the one read off its slots
  obtain ⟨ch, fr, wf⟩ := hinv
  have hmod : Models hash eq t (fun k' => match tryGet hash eq t k' with | .ok o => o | .error _ => none) := by
    refine ⟨⟨ch, fr, wf⟩, ?_⟩
    intro k' v'
    obtain ⟨r, hr, hspec⟩ := tryGet_spec law wf k'
    simp only [hr]
    exact hspec v'
  obtain ⟨t1, e1, _, hm1, _⟩ := C27_insert_refines hash eq law t _ hmod k v
  obtain ⟨t2, e2, hm2, _⟩ := C27_remove_refines hash eq law t _ hmod k
  exact ⟨⟨t1, e1, hm1.1⟩, ⟨t2, _, e2, hm2.1⟩⟩

/-! ## non-vacuity: the hypotheses are satisfiable by colliding hashes, and the theorem computes -/

/-- propositional equality with ANY hash function is lawful: identity, constant and modulo-64 hashes alike -/
theorem lawful_of_eq (hash : Int → Int) : Lawful hash (fun a b => decide (a = b)) where
  refl := fun a => by simp
  symm := fun a b h => by simp only [decide_eq_true_eq] at *; exact h.symm
  trans := fun a b c h1 h2 => by simp only [decide_eq_true_eq] at *; exact h1.trans h2
  hash_eq := fun a b h => by simp only [decide_eq_true_eq] at h; rw [h]

example : Lawful (fun k : Int => k) (fun a b => decide (a = b)) := lawful_of_eq _
example : Lawful (fun _ : Int => 7) (fun a b => decide (a = b)) := lawful_of_eq _
example : Lawful (fun k : Int => k % 64) (fun a b => decide (a = b)) := lawful_of_eq _
-- a table reached by a history satisfies `Models` (so the hypotheses of the per-operation theorems are inhabited)
example : Models (fun _ : Int => 7) (fun a b => decide (a = b)) (Table.new : Table Int Int) (fun _ => none) :=
  new_models _ _

end Abra.Lib.HashMap
