import Lean
/-!
Axiom audit, run from the compiled environment (not from the text): for every theorem declared in
the given module, print its name and the axioms it depends on.  Used by `/verif/check`.
-/
open Lean Elab Command

elab "#audit_module " m:ident : command => do
  let env ← getEnv
  let some idx := env.getModuleIdx? m.getId
    | throwError "module {m.getId} is not imported"
  let mut n : Nat := 0
  for (name, ci) in env.constants.map₁.toList do
    if env.getModuleIdxFor? name == some idx then
      if let .thmInfo _ := ci then
        if !name.isInternalDetail then
          let axs ← Lean.collectAxioms name
          let axs := axs.toList.map toString
          logInfo m!"AUDIT {name} :: {String.intercalate " " axs}"
          n := n + 1
  logInfo m!"AUDIT-COUNT {n}"
