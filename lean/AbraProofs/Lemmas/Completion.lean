import AbraModel.Completion
/- Lemmas for C34: the identifier slice of `completions_at` ends on char boundaries. -/
namespace Abra.Completion

theorem byteAt_lt {bs : ByteArray} {i : Nat} (h : i < bs.size) : byteAt bs i = some bs[i] := by
  simp [byteAt, h]

theorem byteAt_some {bs : ByteArray} {i : Nat} {b : UInt8} (h : byteAt bs i = some b) :
    ∃ hi : i < bs.size, bs[i] = b := by
  unfold byteAt at h
  split at h
  · rename_i hi
    exact ⟨hi, by simpa using h⟩
  · cases h

/-- the loop never indexes out of bounds when started inside the buffer, stops at or before its start,
    and every byte it stepped over is an identifier byte -/
theorem scanBack_spec (bs : ByteArray) : ∀ i, i ≤ bs.size →
    ∃ a, scanBack bs i = some a ∧ a ≤ i ∧ ∀ j, a ≤ j → j < i → ∃ hj : j < bs.size, isIdentByte bs[j] = true
  | 0, _ => ⟨0, rfl, Nat.le_refl 0, fun j _ h => absurd h (Nat.not_lt_zero j)⟩
  | i + 1, h => by
    have hi : i < bs.size := h
    unfold scanBack
    rw [byteAt_lt hi]
    by_cases hb : isIdentByte bs[i] = true
    · simp only [hb, if_true]
      obtain ⟨a, ha, hle, hall⟩ := scanBack_spec bs i (Nat.le_of_lt hi)
      refine ⟨a, ha, Nat.le_succ_of_le hle, ?_⟩
      intro j h1 h2
      by_cases hji : j < i
      · exact hall j h1 hji
      · have : j = i := by omega
        subst this
        exact ⟨hi, hb⟩
    · simp only [hb]
      exact ⟨i + 1, rfl, Nat.le_refl _, fun j h1 h2 => by omega⟩

theorem identByte_lt (n : Fin 256) (h : isIdentByte (UInt8.ofNat n.val) = true) :
    (UInt8.ofNat n.val) &&& 0x80 = 0 := by
  revert h
  revert n
  decide +kernel

/-- an identifier byte is ASCII, hence the first (and only) byte of a character -/
theorem identByte_first (b : UInt8) (h : isIdentByte b = true) : b.IsUTF8FirstByte := by
  have hb : b = UInt8.ofNat (⟨b.toNat, b.toNat_lt⟩ : Fin 256).val := by simp
  rw [hb] at h ⊢
  exact Or.inl (identByte_lt _ h)

theorem dot_first : (46 : UInt8).IsUTF8FirstByte := Or.inl (by decide)

end Abra.Completion
