import AbraProofs.Lemmas.Sched
/-! Step accounting and status reporting of `Abra.Sched` (for C11). -/
namespace Abra.Sched
variable {T V E : Type}

/-! #### step accounting — no hypothesis on the state -/

theorem loop_steps_bounds (step : T → Action T V E) (rem s : Nat) (r : Runtime T V E) :
    s ≤ (loop step rem s r).2.2 ∧ (loop step rem s r).2.2 ≤ s + rem := by
  induction rem generalizing s r with
  | zero => simp [loop]
  | succ rem ih =>
    rw [loop]
    split
    · simp
    · simp
    · simp only
      split
      · simp
      · split
        · simp
        · rename_i th r0 _ _ _
          have := ih (s + 1) (drainNewThreads (finishThreadTurn (exec step r0 th).1 (exec step r0 th).2).1).1
          omega

@[simp] theorem ftt_trace (r : Runtime T V E) (th : Thread T E) :
    (finishThreadTurn r th).1.trace = r.trace := by
  unfold finishThreadTurn; split
  · rfl
  · split <;> rfl

theorem drainAux_trace (ts : List (Thread T E)) (r : Runtime T V E) :
    (drainAux r ts).1.trace = r.trace := by
  induction ts generalizing r with
  | nil => rfl
  | cons t rest ih =>
    simp only [drainAux]
    split
    · simp
    · rw [ih]; simp

@[simp] theorem drain_trace (r : Runtime T V E) : (drainNewThreads r).1.trace = r.trace :=
  drainAux_trace _ _

theorem exec_trace_length (step : T → Action T V E) (r : Runtime T V E) (th : Thread T E) :
    (exec step r th).1.trace.length = r.trace.length + 1 := by
  unfold exec; split <;> try simp
  split <;> simp

/-- the runtime carried by a `skipPhase` result -/
def SkipRes.rt : SkipRes T V E → Runtime T V E
  | .exit r => r
  | .mainDone r => r
  | .run _ r => r

/-- the turns that skip threads log nothing -/
theorem skipPhase_trace (f k : Nat) (r : Runtime T V E) : (skipPhase f k r).rt.trace = r.trace := by
  induction f generalizing k r with
  | zero => simp [skipPhase, SkipRes.rt]
  | succ f ih =>
    rw [skipPhase]
    split
    · rfl
    · split
      · rfl
      · simp only
        split
        · rfl
        · split
          · simp [SkipRes.rt]
          · split
            · simp [SkipRes.rt]
            · rw [ih]; simp

/-- `steps_run` counts exactly the executed instructions (one logged event each) -/
theorem loop_trace (step : T → Action T V E) (rem s : Nat) (r : Runtime T V E) :
    (loop step rem s r).1.trace.length + s = r.trace.length + (loop step rem s r).2.2 := by
  induction rem generalizing s r with
  | zero => simp [loop]
  | succ rem ih =>
    rw [loop]
    have hsk := skipPhase_trace (r.runQueue.length + r.newThreads.length + 1) 0 r
    split
    · rename_i h; rw [h] at hsk; simp only [SkipRes.rt] at hsk; simp [hsk]
    · rename_i h; rw [h] at hsk; simp only [SkipRes.rt] at hsk; simp [hsk]
    · rename_i th r0 h
      rw [h] at hsk
      simp only [SkipRes.rt] at hsk ⊢
      have he := exec_trace_length step r0 th
      split
      · simp [he, hsk]; omega
      · split
        · simp [he, hsk]; omega
        · have := ih (s + 1) (drainNewThreads (finishThreadTurn (exec step r0 th).1 (exec step r0 th).2).1).1
          simp [he, hsk] at this
          omega

theorem roundRobin_steps_le (step : T → Action T V E) (b : Nat) (r : Runtime T V E) :
    (roundRobin step b r).2.2 ≤ b := by
  unfold roundRobin; simp only
  split
  · simp
  · have := (loop_steps_bounds step b 0 (drainNewThreads r).1).2; omega

theorem roundRobin_trace (step : T → Action T V E) (b : Nat) (r : Runtime T V E) :
    (roundRobin step b r).1.trace.length = r.trace.length + (roundRobin step b r).2.2 := by
  unfold roundRobin; simp only
  split
  · simp
  · have := loop_trace step b 0 (drainNewThreads r).1
    simp at this; omega

/-! #### who is reported -/

/-- the main thread is queued (and running or blocked, not finished) -/
structure MainQueued (r : Runtime T V E) : Prop where
  noDone : NoDone r
  fin : r.finishedMain = none
  main : ∃ m ∈ r.runQueue, m.isMain = true
  newNoMain : ∀ t ∈ r.newThreads, t.isMain = false

theorem drainAux_flag (ts : List (Thread T E)) (r : Runtime T V E) (h : ∀ t ∈ ts, t.gone = false) :
    (drainAux r ts).2 = false := by
  induction ts generalizing r with
  | nil => rfl
  | cons t rest ih =>
    have ht := h t (by simp)
    simp only [drainAux, ftt_notDone r t ht, Bool.false_eq_true, if_false]
    exact ih _ (fun u hu => h u (by simp [hu]))

theorem drainAux_queue (ts : List (Thread T E)) (r : Runtime T V E) (h : ∀ t ∈ ts, t.gone = false) :
    (drainAux r ts).1.runQueue = r.runQueue ++ ts ∧ (drainAux r ts).1.finishedMain = r.finishedMain := by
  induction ts generalizing r with
  | nil => simp [drainAux]
  | cons t rest ih =>
    have ht := h t (by simp)
    simp only [drainAux, ftt_notDone r t ht, Bool.false_eq_true, if_false]
    have := ih { r with runQueue := r.runQueue ++ [t] } (fun u hu => h u (by simp [hu]))
    simpa using this

theorem exec_thread_flags (step : T → Action T V E) (r : Runtime T V E) (th : Thread T E) :
    (exec step r th).2.isMain = th.isMain ∧ (exec step r th).2.id = th.id := by
  unfold exec; split <;> try exact ⟨rfl, rfl⟩
  split <;> exact ⟨rfl, rfl⟩

theorem exec_finishedMain (step : T → Action T V E) (r : Runtime T V E) (th : Thread T E) :
    (exec step r th).1.finishedMain = r.finishedMain := by
  unfold exec; split <;> try rfl
  split <;> rfl

theorem exec_newNoMain (step : T → Action T V E) (r : Runtime T V E) (th : Thread T E)
    (h : ∀ t ∈ r.newThreads, t.isMain = false) : ∀ t ∈ (exec step r th).1.newThreads, t.isMain = false := by
  unfold exec; split <;> try exact h
  · split <;> exact h
  · intro t ht
    simp only [List.mem_append, List.mem_singleton] at ht
    rcases ht with ht | rfl
    · exact h t ht
    · rfl

/-- an executed instruction finishes the thread only by `Stop`, and then the event says so -/
theorem exec_done (step : T → Action T V E) (r : Runtime T V E) (th : Thread T E) (hd : th.done = false)
    (h : (exec step r th).2.done = true) :
    (exec step r th).1.trace = r.trace ++ [⟨th.id, .stop⟩] := by
  unfold exec at h ⊢
  split <;> simp_all
  split <;> simp_all

/-- one executed turn on a clean state with the main thread queued: either the main thread executed
    `Stop` (reported at once) or the main thread is queued again -/
theorem turn_main (step : T → Action T V E) (r : Runtime T V E) (hn : r.newThreads = []) (hm : MainQueued r)
    (th : Thread T E) (A2 : List (Thread T E))
    (hdw : r.runQueue.dropWhile (fun t => !t.canRun) = th :: A2) :
    let r0 : Runtime T V E := { r with runQueue := A2 ++ r.runQueue.takeWhile (fun t => !t.canRun) }
    let e := exec step r0 th
    let p := finishThreadTurn e.1 e.2
    let q := drainNewThreads p.1
    (p.2 = true → p.1.finishedMain = some e.2 ∧ e.2.isMain = true ∧ e.2.done = true ∧
        p.1.trace = r.trace ++ [⟨e.2.id, .stop⟩]) ∧
    (p.2 = false → q.2 = false ∧ MainQueued q.1 ∧ q.1.newThreads = []) := by
  intro r0 e p q
  have hr0 : NoDone r0 := noDone_r0 r hm.noDone th A2 hdw
  have hthq : th ∈ r.runQueue := (mem_of_dropWhile _ _ _ _ hdw).1
  have hthd : th.gone = false := hm.noDone.1 th hthq
  have hfl := exec_thread_flags step r0 th
  have hsplit : r.runQueue = r.runQueue.takeWhile (fun t => !t.canRun) ++ th :: A2 := by
    rw [← hdw]; exact (List.takeWhile_append_dropWhile).symm
  constructor
  · intro hp
    have : e.2.isMain = true ∧ e.2.done = true := by
      have : p.2 = true := hp
      simp only [p, finishThreadTurn] at this
      split at this
      · rename_i h; simpa using h
      · split at this <;> simp at this
    refine ⟨?_, this.1, this.2, ?_⟩
    · simp [p, finishThreadTurn, this.1, this.2]
    · have ht := exec_done step r0 th (gone_done hthd) this.2
      simp only [p, ftt_trace]
      rw [hfl.2]; exact ht
  · intro hp
    have he : NoDone e.1 := exec_NoDone step r0 th hr0
    have hpn : NoDone p.1 := ftt_NoDone _ _ he
    have hq2 : q.2 = false := drainAux_flag _ _ hpn.2
    have hqq := drainAux_queue p.1.newThreads p.1 hpn.2
    refine ⟨hq2, ⟨drain_noDone _ hpn, ?_, ?_, ?_⟩, drain_newThreads _ hq2⟩
    · -- finishedMain untouched
      show (drainAux p.1 p.1.newThreads).1.finishedMain = none
      rw [hqq.2]
      have : p.1.finishedMain = e.1.finishedMain := by
        have : p.2 = false := hp
        simp only [p, finishThreadTurn] at this ⊢
        split
        · rename_i h; simp [h] at this
        · split <;> rfl
      rw [this, exec_finishedMain]; exact hm.fin
    · -- the main thread is queued
      obtain ⟨m, hmq, hmm⟩ := hm.main
      show ∃ m ∈ (drainAux p.1 p.1.newThreads).1.runQueue, m.isMain = true
      rw [hqq.1]
      by_cases hmt : th.isMain = true
      · -- the main thread ran and did not stop: it is pushed back
        have hem : e.2.isMain = true := by rw [hfl.1]; exact hmt
        have hed : e.2.done = false := by
          cases hd : e.2.done with
          | false => rfl
          | true =>
            have : p.2 = true := by simp [p, finishThreadTurn, hem, hd]
            rw [this] at hp; cases hp
        refine ⟨e.2, ?_, hem⟩
        simp [p, finishThreadTurn, hem, hed]
      · -- another thread ran: main is still among the others
        have hne : m ≠ th := by intro h; subst h; exact hmt hmm
        have hmr0 : m ∈ e.1.runQueue := by
          rw [exec_runQueue]
          show m ∈ A2 ++ r.runQueue.takeWhile (fun t => !t.canRun)
          rw [hsplit] at hmq
          simp only [List.mem_append, List.mem_cons] at hmq ⊢
          rcases hmq with h | h | h
          · exact Or.inr h
          · exact absurd h hne
          · exact Or.inl h
        refine ⟨m, ?_, hmm⟩
        have : m ∈ p.1.runQueue := by
          simp only [p, finishThreadTurn]
          split
          · exact hmr0
          · split
            · exact hmr0
            · simp [hmr0]
        simp [this]
    · -- nothing waits any more
      intro t ht
      have : (drainNewThreads p.1).1.newThreads = [] := drain_newThreads _ hq2
      rw [show q.1.newThreads = [] from this] at ht
      simp at ht

/-- **Who is reported done.**  On a clean state with the main thread queued, `loop` returns
    `main_thread_done = true` exactly when the main thread executed `Stop` (the last logged event),
    and otherwise leaves the main thread queued. -/
theorem loop_main (step : T → Action T V E) (rem s : Nat) (r : Runtime T V E)
    (hn : r.newThreads = []) (hm : MainQueued r) :
    ((loop step rem s r).2.1 = true →
        ∃ m, (loop step rem s r).1.finishedMain = some m ∧ m.isMain = true ∧ m.done = true ∧
          (loop step rem s r).1.trace.getLast? = some ⟨m.id, .stop⟩) ∧
    ((loop step rem s r).2.1 = false → MainQueued (loop step rem s r).1) := by
  induction rem generalizing s r with
  | zero => simp [loop, hm]
  | succ rem ih =>
    rw [loop_succ step rem s r hn hm.noDone]
    cases hdw : r.runQueue.dropWhile (fun t => !t.canRun) with
    | nil => simp [hm]
    | cons th A2 =>
      have ht := turn_main step r hn hm th A2 hdw
      simp only at ht ⊢
      split
      · rename_i hp
        obtain ⟨h1, h2, h3, h4⟩ := ht.1 hp
        exact ⟨fun _ => ⟨_, h1, h2, h3, by rw [h4]; simp⟩, by simp⟩
      · rename_i hp
        have hp' := ht.2 (by simpa using hp)
        simp only [hp'.1, Bool.false_eq_true, if_false]
        exact ih (s + 1) _ hp'.2.2 hp'.2.1

/-- when `loop` reports the main thread done it has executed at least one instruction -/
theorem loop_done_steps (step : T → Action T V E) (rem s : Nat) (r : Runtime T V E)
    (hn : r.newThreads = []) (hm : MainQueued r) (hf : (loop step rem s r).2.1 = true) :
    s + 1 ≤ (loop step rem s r).2.2 := by
  induction rem generalizing s r with
  | zero => simp [loop] at hf
  | succ rem ih =>
    rw [loop_succ step rem s r hn hm.noDone] at hf ⊢
    cases hdw : r.runQueue.dropWhile (fun t => !t.canRun) with
    | nil => rw [hdw] at hf; simp at hf
    | cons th A2 =>
      rw [hdw] at hf
      have ht := turn_main step r hn hm th A2 hdw
      simp only at ht hf ⊢
      split
      · simp
      · rename_i hp
        have hp' := ht.2 (by simpa using hp)
        simp only [hp, hp'.1, Bool.false_eq_true, if_false] at hf ⊢
        have := ih (s + 1) _ hp'.2.2 hp'.2.1 hf
        omega

theorem tryGetMain_queued (r : Runtime T V E) (h : ∃ m ∈ r.runQueue, m.isMain = true) :
    ∃ m ∈ r.runQueue, m.isMain = true ∧ tryGetMain r = some m := by
  obtain ⟨m, hm, hmm⟩ := h
  unfold tryGetMain
  cases hf : r.runQueue.find? (·.isMain) with
  | none =>
    have := List.find?_eq_none.mp hf m hm
    simp [hmm] at this
  | some m' =>
    exact ⟨m', List.mem_of_find?_eq_some hf, by simpa using List.find?_some hf, rfl⟩

theorem status_not_done (m : Thread T E) (h : m.gone = false) : m.status ≠ VmStatus.done := by
  unfold Thread.status
  split
  · simp
  · simp [gone_done h]; split <;> simp

theorem updateStatus_not_done (r : Runtime T V E) (hm : MainQueued r) : updateStatus r ≠ Status.done := by
  obtain ⟨m, hmq, _, hg⟩ := tryGetMain_queued r hm.main
  have hd := hm.noDone.1 m hmq
  have hs := status_not_done m hd
  unfold updateStatus
  rw [hg]
  simp only
  split
  · rename_i h; exact absurd h hs
  · simp
  · simp
  · unfold anyPending; split <;> simp

end Abra.Sched
