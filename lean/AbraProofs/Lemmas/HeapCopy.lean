import AbraProofs.Lemmas.Heap
/-! The repaired deep copy (`deepCopyM`, fix 0cb8741): what the map of copies guarantees. -/
namespace Abra.Heap

/-- the map only grows, recorded copies never change -/
def Sub (M M' : CopyMap) : Prop := ∀ a c, mlookup M a = some c → mlookup M' a = some c

theorem Sub.refl (M : CopyMap) : Sub M M := fun _ _ h => h
theorem Sub.trans {M1 M2 M3 : CopyMap} (h12 : Sub M1 M2) (h23 : Sub M2 M3) : Sub M1 M3 :=
  fun a c h => h23 a c (h12 a c h)

theorem mlookup_cons (M : CopyMap) (k : Addr) (c : Val) (a : Addr) :
    mlookup ((k, c) :: M) a = if k = a then some c else mlookup M a := rfl

theorem sub_cons (M : CopyMap) (k : Addr) (c : Val) (h : mlookup M k = none) : Sub M ((k, c) :: M) := by
  intro a x hx
  rw [mlookup_cons]
  by_cases hk : k = a
  · subst hk; rw [h] at hx; cases hx
  · simp [hk, hx]

/-- image of a value under the map: a scalar is itself, a pointer is its recorded copy -/
def mapVal? (M : CopyMap) (w : Val) : Option Val :=
  match ptr? w with
  | none => some w
  | some a => mlookup M a

def mapList? (M : CopyMap) : List Val → Option (List Val)
  | [] => some []
  | w :: ws =>
    match mapVal? M w, mapList? M ws with
    | some x, some xs => some (x :: xs)
    | _, _ => none

theorem mapVal_sub {M M' : CopyMap} (h : Sub M M') (w w' : Val) (hw : mapVal? M w = some w') :
    mapVal? M' w = some w' := by
  unfold mapVal? at *
  cases hp : ptr? w with
  | none => simpa [hp] using hw
  | some a => simp only [hp] at hw ⊢; exact h a w' hw

theorem mapList_sub {M M' : CopyMap} (h : Sub M M') : ∀ ws ws', mapList? M ws = some ws' → mapList? M' ws = some ws' := by
  intro ws
  induction ws with
  | nil => intro ws' h; exact h
  | cons w ws ih =>
    intro ws' hw
    simp only [mapList?] at hw ⊢
    cases h1 : mapVal? M w with
    | none => simp [h1] at hw
    | some x =>
      cases h2 : mapList? M ws with
      | none => simp [h1, h2] at hw
      | some xs =>
        simp only [h1, h2, Option.some.injEq] at hw
        simp [mapVal_sub h w x h1, ih xs h2, hw]

theorem mapList_length (M : CopyMap) : ∀ ws ws', mapList? M ws = some ws' → ws'.length = ws.length := by
  intro ws
  induction ws with
  | nil => intro ws' h; simp [mapList?] at h; simp [← h]
  | cons w ws ih =>
    intro ws' hw
    simp only [mapList?] at hw
    cases h1 : mapVal? M w with
    | none => simp [h1] at hw
    | some x =>
      cases h2 : mapList? M ws with
      | none => simp [h1, h2] at hw
      | some xs =>
        simp only [h1, h2, Option.some.injEq] at hw
        subst hw; simp [ih xs h2]

/-- every element of the image list is the image of the element at the same place -/
theorem mapList_mem (M : CopyMap) : ∀ ws ws', mapList? M ws = some ws' →
    ∀ k' ∈ ws', ∃ k ∈ ws, mapVal? M k = some k' := by
  intro ws
  induction ws with
  | nil => intro ws' h k' hk; simp [mapList?] at h; subst h; simp at hk
  | cons w ws ih =>
    intro ws' hw k' hk
    simp only [mapList?] at hw
    cases h1 : mapVal? M w with
    | none => simp [h1] at hw
    | some x =>
      cases h2 : mapList? M ws with
      | none => simp [h1, h2] at hw
      | some xs =>
        simp only [h1, h2, Option.some.injEq] at hw
        subst hw
        simp only [List.mem_cons] at hk
        rcases hk with rfl | hk
        · exact ⟨w, by simp, h1⟩
        · obtain ⟨k, hk1, hk2⟩ := ih xs h2 k' hk
          exact ⟨k, by simp [hk1], hk2⟩

theorem mapList_mem_src (M : CopyMap) : ∀ ws ws', mapList? M ws = some ws' →
    ∀ k ∈ ws, ∃ k', mapVal? M k = some k' := by
  intro ws
  induction ws with
  | nil => intro ws' _ k hk; simp at hk
  | cons w ws ih =>
    intro ws' hw k hk
    simp only [mapList?] at hw
    cases h1 : mapVal? M w with
    | none => simp [h1] at hw
    | some x =>
      cases h2 : mapList? M ws with
      | none => simp [h1, h2] at hw
      | some xs =>
        simp only [List.mem_cons] at hk
        rcases hk with rfl | hk
        · exact ⟨x, h1⟩
        · exact ih xs h2 k hk

/-- the copy of `a` recorded as `c` is complete: it holds the image of the source object -/
def Done (S H' : Heaps) (M' : CopyMap) (a : Addr) (c : Val) : Prop :=
  ∃ obj ks a', lookup S a = some obj ∧ ptr? c = some a' ∧ mapList? M' obj.kids = some ks ∧
    lookup H' a' = some (obj.withKids ks) ∧ tagOk c obj = true

/-- the copy `c` was allocated in thread `t`'s heap at an index in `[lo, hi)` -/
def InRange (t lo hi : Nat) (c : Val) : Prop :=
  ∃ a', ptr? c = some a' ∧ a'.tid = t ∧ lo ≤ a'.idx ∧ a'.idx < hi

/-- all recorded copies live in thread `t`'s heap, below its current end -/
def MapOk (t : Nat) (H : Heaps) (M : CopyMap) : Prop :=
  ∀ a c, mlookup M a = some c → InRange t 0 (H t).length c

/-- distinct source objects have distinct copies -/
def Inj (M : CopyMap) : Prop :=
  ∀ a1 a2 c1 c2 x, mlookup M a1 = some c1 → mlookup M a2 = some c2 → ptr? c1 = some x → ptr? c2 = some x → a1 = a2

/-- what one (nested) call of `deep_copy_helper` does to heaps and map -/
structure Post (S : Heaps) (t : Nat) (H : Heaps) (M : CopyMap) (H' : Heaps) (M' : CopyMap) : Prop where
  sub : Sub M M'
  ext : Ext H H'
  len : (H t).length ≤ (H' t).length
  other : ∀ t', t' ≠ t → H' t' = H t'
  fresh : ∀ a c, mlookup M' a = some c → mlookup M a = none → InRange t (H t).length (H' t).length c
  done : ∀ a c, mlookup M' a = some c → mlookup M a = none → Done S H' M' a c
  ok : MapOk t H M → MapOk t H' M'
  inj : MapOk t H M → Inj M → Inj M'

theorem Post.refl (S : Heaps) (t : Nat) (H : Heaps) (M : CopyMap) : Post S t H M H M :=
  ⟨Sub.refl M, Ext.refl H, Nat.le_refl _, fun _ _ => rfl,
   fun a c h1 h2 => (by rw [h2] at h1; cases h1), fun a c h1 h2 => (by rw [h2] at h1; cases h1), id, fun _ h => h⟩

theorem done_mono {S H1 H2 : Heaps} {M1 M2 : CopyMap} {a : Addr} {c : Val}
    (he : Ext H1 H2) (hs : Sub M1 M2) (h : Done S H1 M1 a c) : Done S H2 M2 a c := by
  obtain ⟨obj, ks, a', h1, h2, h3, h4, h5⟩ := h
  exact ⟨obj, ks, a', h1, h2, mapList_sub hs _ _ h3, he _ _ h4, h5⟩

theorem Post.trans {S : Heaps} {t : Nat} {H H1 H2 : Heaps} {M M1 M2 : CopyMap}
    (p1 : Post S t H M H1 M1) (p2 : Post S t H1 M1 H2 M2) : Post S t H M H2 M2 := by
  refine ⟨p1.sub.trans p2.sub, p1.ext.trans p2.ext, Nat.le_trans p1.len p2.len, ?_, ?_, ?_,
    fun h => p2.ok (p1.ok h), fun h hi => p2.inj (p1.ok h) (p1.inj h hi)⟩
  · intro t' ht; rw [p2.other t' ht, p1.other t' ht]
  · intro a c h2 h0
    cases h1 : mlookup M1 a with
    | none =>
      obtain ⟨a', e1, e2, e3, e4⟩ := p2.fresh a c h2 h1
      exact ⟨a', e1, e2, Nat.le_trans p1.len e3, e4⟩
    | some c1 =>
      have : c = c1 := by have := p2.sub a c1 h1; rw [h2] at this; exact Option.some.inj this
      subst this
      obtain ⟨a', e1, e2, e3, e4⟩ := p1.fresh a c h1 h0
      exact ⟨a', e1, e2, e3, Nat.lt_of_lt_of_le e4 p2.len⟩
  · intro a c h2 h0
    cases h1 : mlookup M1 a with
    | none => exact p2.done a c h2 h1
    | some c1 =>
      have : c = c1 := by have := p2.sub a c1 h1; rw [h2] at this; exact Option.some.inj this
      subst this
      exact done_mono p2.ext p2.sub (p1.done a c h1 h0)

/-- the `for` loop over the children (or over the captures of a `SpawnTask`) -/
theorem copyListM_post (S : Heaps) (t : Nat) (cp : Heaps → CopyMap → Val → Option (Val × Heaps × CopyMap))
    (hcp : ∀ H M w w' H' M', cp H M w = some (w', H', M') → Post S t H M H' M' ∧ mapVal? M' w = some w') :
    ∀ vs H M vs' H' M', copyListM cp H M vs = some (vs', H', M') →
      Post S t H M H' M' ∧ mapList? M' vs = some vs' := by
  intro vs
  induction vs with
  | nil =>
    intro H M vs' H' M' h
    simp only [copyListM, Option.some.injEq, Prod.mk.injEq] at h
    obtain ⟨rfl, rfl, rfl⟩ := h
    exact ⟨Post.refl _ _ _ _, rfl⟩
  | cons v vs ih =>
    intro H M vs' H' M' h
    simp only [copyListM] at h
    cases h1 : cp H M v with
    | none => simp [h1] at h
    | some r1 =>
      obtain ⟨v1, H1, M1⟩ := r1
      simp only [h1] at h
      cases h2 : copyListM cp H1 M1 vs with
      | none => simp [h2] at h
      | some r2 =>
        obtain ⟨vs2, H2, M2⟩ := r2
        simp only [h2, Option.some.injEq, Prod.mk.injEq] at h
        obtain ⟨rfl, rfl, rfl⟩ := h
        obtain ⟨p1, m1⟩ := hcp H M v v1 H1 M1 h1
        obtain ⟨p2, m2⟩ := ih H1 M1 vs2 H2 M2 h2
        refine ⟨p1.trans p2, ?_⟩
        simp [mapList?, mapVal_sub p2.sub v v1 m1, m2]

theorem ptr_retag (v : Val) (a a' : Addr) (h : ptr? v = some a) : ptr? (retag v a') = some a' := by
  cases v <;> simp [ptr?, retag] at h ⊢

theorem tagOk_retag (v : Val) (a' : Addr) (obj : Obj) (h : tagOk v obj = true) : tagOk (retag v a') obj = true := by
  cases v <;> cases obj <;> simp_all [tagOk, retag]

theorem lookup_putObj_same (H : Heaps) (a : Addr) (o : Obj) (h : a.idx < (H a.tid).length) :
    lookup (putObj H a o) a = some o := by
  simp [lookup, putObj, h]

theorem lookup_putObj_other (H : Heaps) (a x : Addr) (o : Obj) (h : x ≠ a) :
    lookup (putObj H a o) x = lookup H x := by
  unfold lookup putObj
  by_cases ht : x.tid = a.tid
  · simp only [ht, if_true]
    have hi : a.idx ≠ x.idx := by
      intro hi; apply h
      cases x; cases a; simp_all
    rw [List.getElem?_set_ne hi]
  · simp [ht]

theorem putObj_length (H : Heaps) (a : Addr) (o : Obj) (t : Nat) : (putObj H a o t).length = (H t).length := by
  unfold putObj; split <;> simp_all

theorem alloc_length (H : Heaps) (t : Nat) (o : Obj) : ((alloc H t o).2 t).length = (H t).length + 1 := by
  simp [alloc]

theorem alloc_other (H : Heaps) (t t' : Nat) (o : Obj) (h : t' ≠ t) : (alloc H t o).2 t' = H t' := by
  simp [alloc, h]

theorem lookup_none_of_ge (H : Heaps) (a : Addr) (h : (H a.tid).length ≤ a.idx) : lookup H a = none := by
  simp [lookup, List.getElem?_eq_none h]

/-- **Main induction.**  A successful `deepCopyM` returns the image of its argument and satisfies `Post`. -/
theorem deepCopyM_post (S : Heaps) (t : Nat) : ∀ f H M v v' H' M',
    deepCopyM f S H M t v = some (v', H', M') → Post S t H M H' M' ∧ mapVal? M' v = some v' := by
  intro f
  induction f with
  | zero => intro H M v v' H' M' h; simp [deepCopyM] at h
  | succ f ih =>
    intro H M v v' H' M' h
    rw [deepCopyM] at h
    cases hp : ptr? v with
    | none =>
      simp only [hp, Option.some.injEq, Prod.mk.injEq] at h
      obtain ⟨rfl, rfl, rfl⟩ := h
      exact ⟨Post.refl _ _ _ _, by simp [mapVal?, hp]⟩
    | some a =>
      simp only [hp] at h
      cases hm : mlookup M a with
      | some c =>
        simp only [hm, Option.some.injEq, Prod.mk.injEq] at h
        obtain ⟨rfl, rfl, rfl⟩ := h
        exact ⟨Post.refl _ _ _ _, by simp [mapVal?, hp, hm]⟩
      | none =>
        simp only [hm] at h
        cases hl : lookup S a with
        | none => simp [hl] at h
        | some obj =>
          simp only [hl] at h
          by_cases htag : tagOk v obj = true
          · simp only [htag, if_true] at h
            -- names for the allocation
            generalize hal : alloc H t (obj.withKids (obj.kids.map fun _ => Val.int 0)) = al at h
            have hal1 : al.1 = ⟨t, (H t).length⟩ := by rw [← hal]; rfl
            have hext0 : Ext H al.2 := by rw [← hal]; exact alloc_ext _ _ _
            have hlen0 : (al.2 t).length = (H t).length + 1 := by rw [← hal]; exact alloc_length _ _ _
            have hoth0 : ∀ t', t' ≠ t → al.2 t' = H t' := by intro t' ht; rw [← hal]; exact alloc_other _ _ _ _ ht
            cases hc : copyListM (fun H M w => deepCopyM f S H M t w) al.2 ((a, retag v al.1) :: M) obj.kids with
            | none => simp [hc] at h
            | some r =>
              obtain ⟨ks, H2, M2⟩ := r
              simp only [hc, Option.some.injEq, Prod.mk.injEq] at h
              obtain ⟨rfl, rfl, rfl⟩ := h
              obtain ⟨p, mk⟩ := copyListM_post S t _ (fun H M w w' H' M' hh => ih H M w w' H' M' hh)
                obj.kids al.2 _ ks H2 M2 hc
              have hsub0 : Sub M ((a, retag v al.1) :: M) := sub_cons M a _ hm
              have hkey : mlookup M2 a = some (retag v al.1) := p.sub a _ (by simp [mlookup_cons])
              have hidx : al.1.idx < (H2 al.1.tid).length := by
                rw [hal1]; simp only
                have := p.len; omega
              have hne : ∀ x, lookup H x ≠ none → x ≠ al.1 := by
                intro x hx he; apply hx; rw [he, hal1]
                exact lookup_none_of_ge H _ (by simp)
              refine ⟨⟨hsub0.trans p.sub, ?_, ?_, ?_, ?_, ?_, ?_, ?_⟩, by simp [mapVal?, hp, hkey]⟩
              · -- ext
                intro x o hx
                rw [lookup_putObj_other _ _ _ _ (hne x (by rw [hx]; simp))]
                exact p.ext x o (hext0 x o hx)
              · -- len
                rw [putObj_length]; have := p.len; omega
              · -- other
                intro t' ht
                have : (putObj H2 al.1 (obj.withKids ks)) t' = H2 t' := by
                  unfold putObj; rw [hal1]; simp [ht]
                rw [this, p.other t' ht, hoth0 t' ht]
              · -- fresh
                intro b c hb h0
                rw [putObj_length]
                by_cases hba : a = b
                · subst hba
                  rw [hkey] at hb; cases hb
                  refine ⟨al.1, ptr_retag v a al.1 hp, by rw [hal1], by rw [hal1]; simp, ?_⟩
                  rw [hal1]; simp only; have := p.len; omega
                · have h1 : mlookup ((a, retag v al.1) :: M) b = none := by simp [mlookup_cons, hba, h0]
                  obtain ⟨b', e1, e2, e3, e4⟩ := p.fresh b c hb h1
                  exact ⟨b', e1, e2, by omega, e4⟩
              · -- done
                intro b c hb h0
                by_cases hba : a = b
                · subst hba
                  rw [hkey] at hb; cases hb
                  exact ⟨obj, ks, al.1, hl, ptr_retag v a al.1 hp, mk,
                    lookup_putObj_same _ _ _ hidx, tagOk_retag v al.1 obj htag⟩
                · have h1 : mlookup ((a, retag v al.1) :: M) b = none := by simp [mlookup_cons, hba, h0]
                  obtain ⟨o, ks', b', d1, d2, d3, d4, d5⟩ := p.done b c hb h1
                  obtain ⟨b'', e1, e2, e3, e4⟩ := p.fresh b c hb h1
                  have hbb : b'' = b' := by rw [d2] at e1; exact (Option.some.inj e1).symm
                  subst hbb
                  refine ⟨o, ks', b'', d1, d2, d3, ?_, d5⟩
                  rw [lookup_putObj_other]; exact d4
                  intro he; rw [he, hal1] at e3; simp at e3; omega
              · -- ok
                intro hok b c hb
                rw [putObj_length]
                have hok1 : MapOk t al.2 ((a, retag v al.1) :: M) := by
                  intro b c hb
                  rw [mlookup_cons] at hb
                  by_cases hba : a = b
                  · simp only [hba, if_true, Option.some.injEq] at hb
                    subst hb
                    exact ⟨al.1, ptr_retag v a al.1 hp, by rw [hal1], Nat.zero_le _, by rw [hal1, hlen0]; simp⟩
                  · simp only [hba, if_false] at hb
                    obtain ⟨b', e1, e2, e3, e4⟩ := hok b c hb
                    exact ⟨b', e1, e2, e3, by omega⟩
                exact p.ok hok1 b c hb
              · -- inj
                intro hok hinj
                have hok1 : MapOk t al.2 ((a, retag v al.1) :: M) := by
                  intro b c hb
                  rw [mlookup_cons] at hb
                  by_cases hba : a = b
                  · simp only [hba, if_true, Option.some.injEq] at hb
                    subst hb
                    exact ⟨al.1, ptr_retag v a al.1 hp, by rw [hal1], Nat.zero_le _, by rw [hal1, hlen0]; simp⟩
                  · simp only [hba, if_false] at hb
                    obtain ⟨b', e1, e2, e3, e4⟩ := hok b c hb
                    exact ⟨b', e1, e2, e3, by omega⟩
                have hinj1 : Inj ((a, retag v al.1) :: M) := by
                  intro a1 a2 c1 c2 x h1 h2 hx1 hx2
                  rw [mlookup_cons] at h1 h2
                  by_cases e1 : a = a1 <;> by_cases e2 : a = a2
                  · rw [← e1, ← e2]
                  · simp only [e1, if_true, Option.some.injEq] at h1
                    simp only [e2, if_false] at h2
                    subst h1
                    rw [ptr_retag v a al.1 hp] at hx1
                    obtain ⟨b', f1, _, _, f4⟩ := hok a2 c2 h2
                    rw [hx2] at f1
                    have : x = b' := Option.some.inj f1
                    have hx : x = al.1 := (Option.some.inj hx1).symm
                    rw [← this, hx, hal1] at f4; simp at f4
                  · simp only [e2, if_true, Option.some.injEq] at h2
                    simp only [e1, if_false] at h1
                    subst h2
                    rw [ptr_retag v a al.1 hp] at hx2
                    obtain ⟨b', f1, _, _, f4⟩ := hok a1 c1 h1
                    rw [hx1] at f1
                    have : x = b' := Option.some.inj f1
                    have hx : x = al.1 := (Option.some.inj hx2).symm
                    rw [← this, hx, hal1] at f4; simp at f4
                  · simp only [e1, e2, if_false] at h1 h2
                    exact hinj a1 a2 c1 c2 x h1 h2 hx1 hx2
                exact p.inj hok1 hinj1
          · simp [htag] at h

end Abra.Heap
