import AbraModel.GC
/-! Invariants of the incremental collector (M5) and their preservation. -/
namespace Abra.GC

/-- reachability from the roots through the children of objects -/
inductive Reach (σ : St) : Nat → Prop
  | root {a} : a ∈ σ.roots → Reach σ a
  | step {p c} : Reach σ p → c ∈ σ.children p → Reach σ c

def Closed (σ : St) (S : Nat → Prop) : Prop := ∀ a, S a → ∀ c ∈ σ.children a, S c

/-- survivors of the running sweep: already swept, or still to be swept and marked -/
def Keep (σ : St) (a : Nat) : Prop := a ∈ σ.done ∨ (a ∈ σ.todo ∧ σ.marked a = true)

theorem reach_subset {σ : St} {S : Nat → Prop} (hr : ∀ r ∈ σ.roots, S r) (hc : Closed σ S) :
    ∀ a, Reach σ a → S a := by
  intro a h
  induction h with
  | root h => exact hr _ h
  | step _ hc' ih => exact hc _ ih _ hc'

/-- the marking-phase invariant (strong tri-colour), independent of the phase field -/
structure InvM (σ : St) : Prop where
  done : σ.done = []
  closed : Closed σ (· ∈ σ.todo)
  roots : ∀ r ∈ σ.roots, r ∈ σ.todo
  gray : ∀ g ∈ σ.gray, g ∈ σ.todo ∧ σ.marked g = true
  black : ∀ a ∈ σ.todo, σ.marked a = true → a ∉ σ.gray → ∀ c ∈ σ.children a, σ.marked c = true

structure InvI (σ : St) : Prop where
  done : σ.done = []
  gray : σ.gray = []
  white : ∀ a ∈ σ.todo, σ.marked a = false
  closed : Closed σ (· ∈ σ.todo)
  roots : ∀ r ∈ σ.roots, r ∈ σ.todo

structure InvS (σ : St) : Prop where
  gray : σ.gray = []
  white : ∀ a ∈ σ.done, σ.marked a = false
  closed : Closed σ (Keep σ)
  roots : ∀ r ∈ σ.roots, Keep σ r

def Inv (σ : St) : Prop :=
  match σ.phase with
  | .idle => InvI σ
  | .marking => InvM σ
  | .sweeping => InvS σ

/-- The property: nothing reachable has been reclaimed. -/
def Safe (σ : St) : Prop := ∀ a, Reach σ a → a ∈ σ.heap

theorem keep_heap {σ : St} {a : Nat} (h : Keep σ a) : a ∈ σ.heap := by
  unfold St.heap; rcases h with h | ⟨h, _⟩ <;> simp [h]

theorem inv_safe {σ : St} (h : Inv σ) : Safe σ := by
  intro a ha
  unfold Inv at h
  cases hp : σ.phase <;> rw [hp] at h <;> simp only at h
  · have := reach_subset (S := (· ∈ σ.todo)) h.roots h.closed a ha
    simp [St.heap, this]
  · have := reach_subset (S := (· ∈ σ.todo)) h.roots h.closed a ha
    simp [St.heap, this]
  · exact keep_heap (reach_subset h.roots h.closed a ha)

/-! ### marking helpers -/

@[simp] theorem setMarked_children (f : Nat → Obj) (a x : Nat) (b : Bool) :
    (setMarked f a b x).children = (f x).children := by
  unfold setMarked; split <;> rfl

theorem setMarked_marked (f : Nat → Obj) (a x : Nat) (b : Bool) :
    (setMarked f a b x).marked = if x = a then b else (f x).marked := by
  unfold setMarked; split <;> rfl

section markPush
variable (σ : St) (a : Nat)

@[simp] theorem markPush_phase : (markPush σ a).phase = σ.phase := by unfold markPush; split <;> rfl
@[simp] theorem markPush_done : (markPush σ a).done = σ.done := by unfold markPush; split <;> rfl
@[simp] theorem markPush_todo : (markPush σ a).todo = σ.todo := by unfold markPush; split <;> rfl
@[simp] theorem markPush_roots : (markPush σ a).roots = σ.roots := by unfold markPush; split <;> rfl
@[simp] theorem markPush_children (x : Nat) : (markPush σ a).children x = σ.children x := by
  unfold markPush; split <;> simp [St.children]

theorem markPush_marked (x : Nat) :
    (markPush σ a).marked x = (σ.marked x || decide (x = a)) := by
  unfold markPush
  cases h : σ.marked a with
  | true =>
    simp only [if_true]
    by_cases hx : x = a
    · subst hx; simp [h]
    · simp [hx]
  | false =>
    simp only [Bool.false_eq_true, if_false]
    show (setMarked σ.obj a true x).marked = _
    rw [setMarked_marked]
    by_cases hx : x = a <;> simp [hx, St.marked]

theorem markPush_gray (x : Nat) :
    x ∈ (markPush σ a).gray ↔ x ∈ σ.gray ∨ (x = a ∧ σ.marked a = false) := by
  unfold markPush
  by_cases h : σ.marked a = true
  · simp [h]
  · simp only [h]; simp at h; simp [h]
    constructor
    · rintro (h1 | h1)
      · exact Or.inr h1
      · exact Or.inl h1
    · rintro (h1 | h1)
      · exact Or.inr h1
      · exact Or.inl h1
end markPush

theorem markPush_invM {σ : St} {a : Nat} (h : InvM σ) (ha : a ∈ σ.todo) : InvM (markPush σ a) := by
  refine ⟨by simpa using h.done, ?_, by simpa using h.roots, ?_, ?_⟩
  · intro x hx c hc; simp at *; exact h.closed x hx c hc
  · intro g hg
    rw [markPush_gray] at hg
    rw [markPush_marked, markPush_todo]
    rcases hg with hg | ⟨rfl, _⟩
    · have := h.gray g hg; simp [this]
    · simp [ha]
  · intro x hx hm hng c hc
    rw [markPush_children] at hc
    rw [markPush_gray] at hng
    rw [markPush_marked] at hm ⊢
    rw [markPush_todo] at hx
    have hxa : ¬ (x = a ∧ σ.marked a = false) := fun hh => hng (Or.inr hh)
    have hxg : x ∉ σ.gray := fun hh => hng (Or.inl hh)
    have hmx : σ.marked x = true := by
      by_cases hxa' : x = a
      · subst hxa'
        cases hma : σ.marked x with
        | true => rfl
        | false => exact absurd ⟨rfl, hma⟩ hxa
      · simpa [hxa'] using hm
    simp [h.black x hx hmx hxg c hc]

section markAll
theorem markAll_nil (σ : St) : markAll σ [] = σ := rfl
theorem markAll_cons (σ : St) (a : Nat) (as : List Nat) : markAll σ (a :: as) = markAll (markPush σ a) as := rfl

@[simp] theorem markAll_phase (σ : St) (as : List Nat) : (markAll σ as).phase = σ.phase := by
  induction as generalizing σ with
  | nil => rfl
  | cons a as ih => rw [markAll_cons, ih]; simp
@[simp] theorem markAll_done (σ : St) (as : List Nat) : (markAll σ as).done = σ.done := by
  induction as generalizing σ with
  | nil => rfl
  | cons a as ih => rw [markAll_cons, ih]; simp
@[simp] theorem markAll_todo (σ : St) (as : List Nat) : (markAll σ as).todo = σ.todo := by
  induction as generalizing σ with
  | nil => rfl
  | cons a as ih => rw [markAll_cons, ih]; simp
@[simp] theorem markAll_roots (σ : St) (as : List Nat) : (markAll σ as).roots = σ.roots := by
  induction as generalizing σ with
  | nil => rfl
  | cons a as ih => rw [markAll_cons, ih]; simp
@[simp] theorem markAll_children (σ : St) (as : List Nat) (x : Nat) :
    (markAll σ as).children x = σ.children x := by
  induction as generalizing σ with
  | nil => rfl
  | cons a as ih => rw [markAll_cons, ih]; simp
@[simp] theorem markAll_heap (σ : St) (as : List Nat) : (markAll σ as).heap = σ.heap := by
  simp [St.heap]

theorem markAll_marked (σ : St) (as : List Nat) (x : Nat) :
    (markAll σ as).marked x = (σ.marked x || decide (x ∈ as)) := by
  induction as generalizing σ with
  | nil => simp [markAll_nil]
  | cons a as ih =>
    rw [markAll_cons, ih, markPush_marked]
    by_cases h1 : x = a <;> by_cases h2 : x ∈ as <;> simp [h1, h2]

theorem markAll_invM {σ : St} {as : List Nat} (h : InvM σ) (has : ∀ a ∈ as, a ∈ σ.todo) :
    InvM (markAll σ as) := by
  induction as generalizing σ with
  | nil => exact h
  | cons a as ih =>
    rw [markAll_cons]
    apply ih (markPush_invM h (has a (by simp)))
    intro x hx; simp; exact has x (by simp [hx])

theorem markAll_gray_sub (σ : St) (as : List Nat) (x : Nat) (hx : x ∈ σ.gray) :
    x ∈ (markAll σ as).gray := by
  induction as generalizing σ with
  | nil => exact hx
  | cons a as ih => rw [markAll_cons]; apply ih; rw [markPush_gray]; exact Or.inl hx
end markAll


theorem markAll_gray_mem (σ : St) (as : List Nat) (x : Nat) (hx : x ∈ (markAll σ as).gray) :
    x ∈ σ.gray ∨ (x ∈ as ∧ σ.marked x = false) := by
  induction as generalizing σ with
  | nil => exact Or.inl hx
  | cons a as ih =>
    rw [markAll_cons] at hx
    rcases ih _ hx with h | ⟨h1, h2⟩
    · rw [markPush_gray] at h
      rcases h with h | ⟨rfl, h⟩
      · exact Or.inl h
      · exact Or.inr ⟨by simp, h⟩
    · rw [markPush_marked] at h2
      have : σ.marked x = false := by
        cases hm : σ.marked x with
        | false => rfl
        | true => simp [hm] at h2
      exact Or.inr ⟨by simp [h1], this⟩

theorem markAll_gray_new (σ : St) (as : List Nat) (x : Nat) (hx : x ∈ as) (hm : σ.marked x = false) :
    x ∈ (markAll σ as).gray := by
  induction as generalizing σ with
  | nil => simp at hx
  | cons a as ih =>
    rw [markAll_cons]
    by_cases hxa : x = a
    · subst hxa
      apply markAll_gray_sub
      rw [markPush_gray]; exact Or.inr ⟨rfl, hm⟩
    · have hx' : x ∈ as := by simpa [hxa] using hx
      apply ih _ hx'
      rw [markPush_marked]; simp [hm, hxa]

theorem InvM.setPhase {σ : St} (h : InvM σ) (p : Phase) : InvM { σ with phase := p } :=
  ⟨h.done, h.closed, h.roots, h.gray, h.black⟩

theorem InvI.toInvM {σ : St} (h : InvI σ) : InvM σ := by
  refine ⟨h.done, h.closed, h.roots, ?_, ?_⟩
  · intro g hg; rw [h.gray] at hg; simp at hg
  · intro a ha hm; rw [h.white a ha] at hm; simp at hm

theorem gcStart_inv {σ : St} (h : Inv σ) : Inv (gcStart σ) := by
  unfold gcStart
  cases hp : σ.phase with
  | idle =>
    simp only
    unfold Inv at h ⊢; rw [hp] at h; simp only at h ⊢
    exact (markAll_invM h.toInvM h.roots).setPhase _
  | marking => simpa [hp] using h
  | sweeping => simpa [hp] using h

/-- entering the sweep phase: gray stack empty and every root marked -/
theorem sweep_entry_invS {σ S : St} (h : InvM σ) (hg : σ.gray = [])
    (hr : ∀ r ∈ σ.roots, σ.marked r = true)
    (e_gray : S.gray = []) (e_done : S.done = []) (e_todo : S.todo = σ.todo)
    (e_roots : S.roots = σ.roots)
    (m : ∀ x, S.marked x = σ.marked x) (c : ∀ x, S.children x = σ.children x) : InvS S := by
  refine ⟨e_gray, by intro a ha; rw [e_done] at ha; simp at ha, ?_, ?_⟩
  · intro x hx y hy
    rw [c] at hy
    have hx' : x ∈ σ.todo ∧ σ.marked x = true := by
      rcases hx with hx | ⟨hx1, hx2⟩
      · rw [e_done] at hx; simp at hx
      · exact ⟨by rwa [e_todo] at hx1, by rwa [m] at hx2⟩
    have hmy := h.black x hx'.1 hx'.2 (by rw [hg]; simp) y hy
    exact Or.inr ⟨by rw [e_todo]; exact h.closed x hx'.1 y hy, by rw [m]; exact hmy⟩
  · intro r hr'
    rw [e_roots] at hr'
    exact Or.inr ⟨by rw [e_todo]; exact h.roots r hr', by rw [m]; exact hr r hr'⟩

/-- the end-of-call test of `process_gray`, with the root rescan -/
theorem finishMark_inv {σ : St} (h : InvM σ) (hp : σ.phase = .marking) : Inv (finishMark σ) := by
  unfold finishMark
  cases hg : σ.gray with
  | cons a g => simp only; unfold Inv; rw [hp]; exact h
  | nil =>
    simp only
    have h' : InvM (markAll σ σ.roots) := markAll_invM h h.roots
    cases hg' : (markAll σ σ.roots).gray with
    | cons a g => simp only; unfold Inv; simp [hp]; exact h'
    | nil =>
      simp only
      unfold Inv; simp only
      apply sweep_entry_invS h' hg'
      · intro r hr; rw [markAll_marked]; simp at hr; simp [hr]
      · rfl
      · rfl
      · simp [St.heap, h.done]
      · rfl
      · intro x; rfl
      · intro x; rfl

/-- blackening the top gray object: pop it, mark its children -/
theorem blacken_invM {σ σ1 : St} {a : Nat} {g : List Nat} (hM : InvM σ) (hg : σ.gray = a :: g)
    (e_done : σ1.done = σ.done) (e_todo : σ1.todo = σ.todo) (e_roots : σ1.roots = σ.roots)
    (e_gray : σ1.gray = g)
    (m1 : ∀ x, σ1.marked x = (if x = a then true else σ.marked x))
    (c1 : ∀ x, σ1.children x = σ.children x) :
    InvM (markAll σ1 (σ.children a)) := by
  have ha := hM.gray a (by rw [hg]; simp)
  have mono : ∀ x, σ.marked x = true → (markAll σ1 (σ.children a)).marked x = true := by
    intro x hx; rw [markAll_marked, m1]; by_cases hxa : x = a <;> simp [hxa, hx]
  refine ⟨by simpa [e_done] using hM.done, ?_, by simpa [e_roots, e_todo] using hM.roots, ?_, ?_⟩
  · intro x hx c hc
    simp only [markAll_todo, markAll_children, e_todo] at *
    rw [c1] at hc; exact hM.closed x hx c hc
  · intro x hx
    rcases markAll_gray_mem _ _ _ hx with hx' | ⟨hx', _⟩
    · rw [e_gray] at hx'
      have := hM.gray x (by rw [hg]; simp [hx'])
      exact ⟨by simpa [e_todo] using this.1, mono x this.2⟩
    · refine ⟨by simpa [e_todo] using hM.closed a ha.1 x hx', ?_⟩
      rw [markAll_marked]; simp [hx']
  · intro x hx hm hng c hc
    simp only [markAll_todo, markAll_children, e_todo] at hx hc
    rw [c1] at hc
    rw [markAll_marked]
    by_cases hxa : x = a
    · subst hxa; simp [hc]
    · rw [markAll_marked, m1] at hm
      simp only [hxa, if_false] at hm
      cases hmx : σ.marked x with
      | true =>
        have hxg : x ∉ σ.gray := by
          rw [hg]; intro hh
          rcases List.mem_cons.1 hh with hh | hh
          · exact hxa hh
          · exact hng (markAll_gray_sub _ _ _ (by rw [e_gray]; exact hh))
        have := hM.black x hx hmx hxg c hc
        rw [m1]; by_cases hca : c = a <;> simp [hca, this]
      | false =>
        exfalso
        rw [hmx] at hm
        have hxin : x ∈ σ.children a := by simpa using hm
        apply hng
        apply markAll_gray_new _ _ _ hxin
        rw [m1]; simp [hxa, hmx]

theorem gcMarkStep_inv {σ : St} (h : Inv σ) : Inv (gcMarkStep σ) := by
  unfold gcMarkStep
  cases hp : σ.phase with
  | idle => simpa [hp] using h
  | sweeping => simpa [hp] using h
  | marking =>
    simp only
    have hM : InvM σ := by unfold Inv at h; rw [hp] at h; exact h
    cases hg : σ.gray with
    | nil => simp only; exact finishMark_inv hM hp
    | cons a g =>
      simp only
      apply finishMark_inv
      · apply blacken_invM (σ1 := { obj := setMarked σ.obj a true, done := σ.done, todo := σ.todo, roots := σ.roots, gray := g, phase := Phase.marking }) hM hg rfl rfl rfl rfl
        · intro x; show (setMarked σ.obj a true x).marked = _; rw [setMarked_marked]; rfl
        · intro x; show (setMarked σ.obj a true x).children = _; simp [St.children]
      · simp


/-! ### sweeping -/

theorem mem_swapRemoveHead (a : Nat) (rest : List Nat) (x : Nat) :
    x ∈ swapRemoveHead (a :: rest) ↔ x ∈ rest := by
  cases rest with
  | nil => simp [swapRemoveHead]
  | cons y r =>
    simp only [swapRemoveHead]
    have hne : (y :: r) ≠ [] := by simp
    have hl : (y :: r).getLast! = (y :: r).getLast hne := by
      simp [List.getLast!_eq_getLast?_getD, List.getLast?_eq_some_getLast hne]
    rw [hl]
    have := List.dropLast_concat_getLast hne
    constructor
    · intro h
      rw [← this]
      rcases List.mem_cons.1 h with h | h
      · simp [h]
      · simp [h]
    · intro h
      rw [← this] at h
      rcases List.mem_append.1 h with h | h
      · exact List.mem_cons_of_mem _ h
      · simp at h; simp [h]

theorem sweep_keep_invS {σ S : St} {a : Nat} {rest : List Nat} (h : InvS σ)
    (ht : σ.todo = a :: rest) (hm : σ.marked a = true)
    (e_gray : S.gray = σ.gray) (e_done : S.done = σ.done ++ [a]) (e_todo : S.todo = rest)
    (e_roots : S.roots = σ.roots)
    (m : ∀ x, S.marked x = (if x = a then false else σ.marked x))
    (c : ∀ x, S.children x = σ.children x) : InvS S := by
  have keq : ∀ x, Keep S x ↔ Keep σ x := by
    intro x
    unfold Keep
    rw [e_done, e_todo, ht, m]
    by_cases hxa : x = a
    · subst hxa; simp [hm]
    · simp [hxa]
  refine ⟨by rw [e_gray]; exact h.gray, ?_, ?_, ?_⟩
  · intro x hx
    rw [e_done] at hx
    rw [m]
    by_cases hxa : x = a
    · simp [hxa]
    · simp only [hxa, if_false]
      apply h.white
      simpa [hxa] using hx
  · intro x hx y hy
    rw [c] at hy
    exact (keq y).2 (h.closed x ((keq x).1 hx) y hy)
  · intro r hr
    rw [e_roots] at hr
    exact (keq r).2 (h.roots r hr)

theorem sweep_free_invS {σ S : St} {a : Nat} {rest : List Nat} (h : InvS σ)
    (ht : σ.todo = a :: rest) (hm : σ.marked a = false)
    (e_gray : S.gray = σ.gray) (e_done : S.done = σ.done)
    (e_todo : S.todo = swapRemoveHead (a :: rest)) (e_roots : S.roots = σ.roots)
    (m : ∀ x, S.marked x = σ.marked x) (c : ∀ x, S.children x = σ.children x) : InvS S := by
  have keq : ∀ x, Keep S x ↔ Keep σ x := by
    intro x
    unfold Keep
    rw [e_done, e_todo, ht, m, mem_swapRemoveHead]
    by_cases hxa : x = a
    · subst hxa; simp [hm]
    · simp [hxa]
  refine ⟨by rw [e_gray]; exact h.gray, ?_, ?_, ?_⟩
  · intro x hx; rw [e_done] at hx; rw [m]; exact h.white x hx
  · intro x hx y hy
    rw [c] at hy
    exact (keq y).2 (h.closed x ((keq x).1 hx) y hy)
  · intro r hr
    rw [e_roots] at hr
    exact (keq r).2 (h.roots r hr)

theorem sweep_finish_invI {S T : St} (h : InvS S) (ht : S.todo = [])
    (e_gray : T.gray = []) (e_done : T.done = []) (e_todo : T.todo = S.done)
    (e_roots : T.roots = S.roots)
    (m : ∀ x, T.marked x = S.marked x) (c : ∀ x, T.children x = S.children x) : InvI T := by
  have keq : ∀ x, Keep S x ↔ x ∈ S.done := by
    intro x; unfold Keep; rw [ht]; simp
  refine ⟨e_done, e_gray, ?_, ?_, ?_⟩
  · intro a ha; rw [e_todo] at ha; rw [m]; exact h.white a ha
  · intro x hx y hy
    rw [e_todo] at hx ⊢
    rw [c] at hy
    exact (keq y).1 (h.closed x ((keq x).2 hx) y hy)
  · intro r hr
    rw [e_roots] at hr; rw [e_todo]
    exact (keq r).1 (h.roots r hr)

theorem sweepTail_inv {S : St} (h : InvS S) (hp : S.phase = .sweeping) : Inv (sweepTail S) := by
  unfold sweepTail
  cases ht : S.todo with
  | nil =>
    simp only
    unfold Inv; simp only
    exact sweep_finish_invI h ht h.gray rfl rfl rfl (fun _ => rfl) (fun _ => rfl)
  | cons a r => simp only; unfold Inv; rw [hp]; exact h

theorem sweepOne_phase (σ : St) : (sweepOne σ).phase = σ.phase := by
  unfold sweepOne; split
  · rfl
  · split <;> rfl

theorem sweepOne_invS {σ : St} (hS : InvS σ) : InvS (sweepOne σ) := by
  unfold sweepOne
  cases ht : σ.todo with
  | nil => exact hS
  | cons a rest =>
    simp only
    cases hm : σ.marked a with
    | true =>
      simp only [if_true]
      exact sweep_keep_invS hS ht hm rfl rfl rfl rfl
        (by intro x; show (setMarked σ.obj a false x).marked = _; rw [setMarked_marked]; rfl)
        (by intro x; show (setMarked σ.obj a false x).children = _; simp [St.children])
    | false =>
      simp only [Bool.false_eq_true, if_false]
      exact sweep_free_invS hS ht hm rfl rfl rfl rfl (fun _ => rfl) (fun _ => rfl)

theorem gcSweepStep_inv {σ : St} (h : Inv σ) : Inv (gcSweepStep σ) := by
  unfold gcSweepStep
  cases hp : σ.phase with
  | idle => simpa [hp] using h
  | marking => simpa [hp] using h
  | sweeping =>
    simp only
    have hS : InvS σ := by unfold Inv at h; rw [hp] at h; exact h
    exact sweepTail_inv (sweepOne_invS hS) (by rw [sweepOne_phase, hp])

theorem gcStep_inv {σ : St} (h : Inv σ) : Inv (gcStep σ) := by
  unfold gcStep
  cases hp : σ.phase with
  | idle => exact gcStart_inv h
  | marking => exact gcMarkStep_inv h
  | sweeping => exact gcSweepStep_inv h


/-! ### the mutator contract -/

/-- What one VM instruction may do to the collector-visible state (see `mutatorOKb`). -/
structure MutatorOK (σ σ' : St) (new pushed : List Nat) : Prop where
  phase : σ'.phase = σ.phase
  done : σ'.done = σ.done
  todo : σ'.todo = σ.todo ++ new
  fresh : ∀ a ∈ new, a ∉ σ.heap
  newMark : ∀ a ∈ new, σ'.marked a = (σ.phase != .idle)
  newGray : σ.phase = .marking → ∀ a ∈ new, a ∈ σ'.gray
  marks : ∀ a ∈ σ.heap, σ'.marked a = σ.marked a ∨
    (σ.phase = .marking ∧ σ.marked a = false ∧ σ'.marked a = true ∧ a ∈ σ'.gray ∧ Reach σ a)
  gray : σ'.gray = pushed ++ σ.gray
  pushedOk : ∀ a ∈ pushed, a ∈ σ'.heap ∧ σ'.marked a = true
  pushedMarking : σ.phase ≠ .marking → pushed = []
  refs : ∀ a ∈ σ'.heap, ∀ c ∈ σ'.children a,
    (a ∈ σ.heap ∧ c ∈ σ.children a) ∨ Reach σ c ∨ c ∈ new
  roots : ∀ r ∈ σ'.roots, Reach σ r ∨ r ∈ new
  barrier : σ.phase = .marking → ∀ p ∈ σ'.heap, σ'.marked p = true → p ∉ σ'.gray →
    ∀ c ∈ σ'.children p, (p ∈ σ.heap ∧ c ∈ σ.children p) ∨ σ'.marked c = true

theorem heap_of_done_nil {σ : St} (h : σ.done = []) : σ.heap = σ.todo := by simp [St.heap, h]

theorem mutator_inv {σ σ' : St} {new pushed : List Nat} (h : Inv σ) (m : MutatorOK σ σ' new pushed) :
    Inv σ' := by
  have hsafe := inv_safe h
  unfold Inv at h ⊢
  rw [m.phase]
  cases hp : σ.phase with
  | idle =>
    rw [hp] at h; simp only at h ⊢
    have hh : σ.heap = σ.todo := heap_of_done_nil h.done
    have hh' : σ'.heap = σ'.todo := heap_of_done_nil (by rw [m.done]; exact h.done)
    have pe : pushed = [] := m.pushedMarking (by rw [hp]; simp)
    refine ⟨by rw [m.done]; exact h.done, by rw [m.gray, pe, h.gray]; rfl, ?_, ?_, ?_⟩
    · intro a ha
      rw [m.todo] at ha
      rcases List.mem_append.1 ha with ha | ha
      · rcases m.marks a (by rw [hh]; exact ha) with e | ⟨e, _⟩
        · rw [e]; exact h.white a ha
        · rw [hp] at e; cases e
      · rw [m.newMark a ha, hp]; rfl
    · intro x hx c hc
      rcases m.refs x (by rw [hh']; exact hx) c hc with ⟨h1, h2⟩ | h1 | h1
      · rw [m.todo]; apply List.mem_append_left; exact h.closed x (by rw [← hh]; exact h1) c h2
      · rw [m.todo]; apply List.mem_append_left; rw [← hh]; exact hsafe c h1
      · rw [m.todo]; exact List.mem_append_right _ h1
    · intro r hr
      rcases m.roots r hr with h1 | h1
      · rw [m.todo]; apply List.mem_append_left; rw [← hh]; exact hsafe r h1
      · rw [m.todo]; exact List.mem_append_right _ h1
  | marking =>
    rw [hp] at h; simp only at h ⊢
    have hh : σ.heap = σ.todo := heap_of_done_nil h.done
    have hh' : σ'.heap = σ'.todo := heap_of_done_nil (by rw [m.done]; exact h.done)
    have mono : ∀ a ∈ σ.todo, σ.marked a = true → σ'.marked a = true := by
      intro a ha hm
      rcases m.marks a (by rw [hh]; exact ha) with e | ⟨_, _, e, _, _⟩
      · rw [e]; exact hm
      · exact e
    refine ⟨by rw [m.done]; exact h.done, ?_, ?_, ?_, ?_⟩
    · intro x hx c hc
      rcases m.refs x (by rw [hh']; exact hx) c hc with ⟨h1, h2⟩ | h1 | h1
      · rw [m.todo]; apply List.mem_append_left; exact h.closed x (by rw [← hh]; exact h1) c h2
      · rw [m.todo]; apply List.mem_append_left; rw [← hh]; exact hsafe c h1
      · rw [m.todo]; exact List.mem_append_right _ h1
    · intro r hr
      rcases m.roots r hr with h1 | h1
      · rw [m.todo]; apply List.mem_append_left; rw [← hh]; exact hsafe r h1
      · rw [m.todo]; exact List.mem_append_right _ h1
    · intro g hg
      rw [m.gray] at hg
      rcases List.mem_append.1 hg with hg | hg
      · have := m.pushedOk g hg; rw [hh'] at this; exact this
      · have := h.gray g hg
        exact ⟨by rw [m.todo]; exact List.mem_append_left _ this.1, mono g this.1 this.2⟩
    · intro p hpt hm hng c hc
      rcases m.barrier hp p (by rw [hh']; exact hpt) hm hng c hc with ⟨h1, h2⟩ | h1
      · have hp1 : p ∈ σ.todo := by rw [← hh]; exact h1
        cases hmp : σ.marked p with
        | true =>
          have hpg : p ∉ σ.gray := fun hh2 => hng (by rw [m.gray]; exact List.mem_append_right _ hh2)
          have := h.black p hp1 hmp hpg c h2
          exact mono c (h.closed p hp1 c h2) this
        | false =>
          exfalso
          rcases m.marks p h1 with e | ⟨_, _, _, e, _⟩
          · rw [e, hmp] at hm; cases hm
          · exact hng e
      · exact h1
  | sweeping =>
    rw [hp] at h; simp only at h ⊢
    have pe : pushed = [] := m.pushedMarking (by rw [hp]; simp)
    have sameMark : ∀ a ∈ σ.heap, σ'.marked a = σ.marked a := by
      intro a ha
      rcases m.marks a ha with e | ⟨e, _⟩
      · exact e
      · rw [hp] at e; cases e
    have keepOf : ∀ x, Keep σ x → Keep σ' x := by
      intro x hx
      rcases hx with hx | ⟨hx1, hx2⟩
      · exact Or.inl (by rw [m.done]; exact hx)
      · refine Or.inr ⟨by rw [m.todo]; exact List.mem_append_left _ hx1, ?_⟩
        rw [sameMark x (by simp [St.heap, hx1])]; exact hx2
    have keepNew : ∀ x ∈ new, Keep σ' x := by
      intro x hx
      refine Or.inr ⟨by rw [m.todo]; exact List.mem_append_right _ hx, ?_⟩
      rw [m.newMark x hx, hp]; rfl
    have keepInv : ∀ x, Keep σ' x → Keep σ x ∨ x ∈ new := by
      intro x hx
      rcases hx with hx | ⟨hx1, hx2⟩
      · exact Or.inl (Or.inl (by rw [m.done] at hx; exact hx))
      · rw [m.todo] at hx1
        rcases List.mem_append.1 hx1 with hx1 | hx1
        · refine Or.inl (Or.inr ⟨hx1, ?_⟩)
          rw [← sameMark x (by simp [St.heap, hx1])]; exact hx2
        · exact Or.inr hx1
    have reachKeep : ∀ c, Reach σ c → Keep σ c := reach_subset h.roots h.closed
    refine ⟨by rw [m.gray, pe, h.gray]; rfl, ?_, ?_, ?_⟩
    · intro a ha
      rw [m.done] at ha
      rw [sameMark a (by simp [St.heap, ha])]; exact h.white a ha
    · intro x hx c hc
      rcases m.refs x (keep_heap hx) c hc with ⟨h1, h2⟩ | h1 | h1
      · rcases keepInv x hx with hk | hk
        · exact keepOf c (h.closed x hk c h2)
        · exact absurd h1 (m.fresh x hk)
      · exact keepOf c (reachKeep c h1)
      · exact keepNew c h1
    · intro r hr
      rcases m.roots r hr with h1 | h1
      · exact keepOf r (reachKeep r h1)
      · exact keepNew r h1


/-! ### the executable checks are sound -/

theorem reachLoop_sound (σ : St) : ∀ (fuel : Nat) (work seen : List Nat),
    (∀ a ∈ work, Reach σ a) → (∀ a ∈ seen, Reach σ a) →
    ∀ a ∈ reachLoop σ fuel work seen, Reach σ a := by
  intro fuel
  induction fuel with
  | zero => intro work seen _ hs a ha; simp [reachLoop] at ha; exact hs a ha
  | succ fuel ih =>
    intro work seen hw hs a ha
    cases work with
    | nil => simp [reachLoop] at ha; exact hs a ha
    | cons w work =>
      simp only [reachLoop] at ha
      split at ha
      · exact ih work seen (fun x hx => hw x (List.mem_cons_of_mem _ hx)) hs a ha
      · apply ih _ _ _ _ a ha
        · intro x hx
          rcases List.mem_append.1 hx with hx | hx
          · exact Reach.step (hw w (by simp)) hx
          · exact hw x (List.mem_cons_of_mem _ hx)
        · intro x hx
          rcases List.mem_cons.1 hx with hx | hx
          · rw [hx]; exact hw w (by simp)
          · exact hs x hx

theorem reachList_sound (σ : St) (fuel : Nat) : ∀ a ∈ reachList σ fuel, Reach σ a :=
  reachLoop_sound σ fuel σ.roots [] (fun _ h => Reach.root h) (by intro a ha; simp at ha)

theorem mutatorOKb_sound {σ σ' : St} {fuel : Nat} (h : mutatorOKb σ σ' fuel = true) :
    MutatorOK σ σ' (σ'.todo.drop σ.todo.length) (σ'.gray.take (σ'.gray.length - σ.gray.length)) := by
  simp only [mutatorOKb, allB, Bool.and_eq_true, Bool.or_eq_true, List.all_eq_true, decide_eq_true_eq,
    Bool.not_eq_true', beq_iff_eq, bne_iff_ne, ne_eq, List.contains_eq_mem,
    decide_eq_false_iff_not, Bool.not_eq_eq_eq_not, Bool.not_true] at h
  obtain ⟨⟨⟨⟨⟨⟨⟨⟨⟨⟨h1, h2⟩, h3⟩, h4⟩, h5⟩, h6⟩, h7⟩, ⟨⟨⟨h8a, h8b⟩, h8c⟩, h8d⟩⟩, h9⟩, h10⟩, h11⟩ := h
  have okRef : ∀ c, (c ∈ reachList σ fuel ∨ c ∈ σ'.todo.drop σ.todo.length) →
      Reach σ c ∨ c ∈ σ'.todo.drop σ.todo.length := by
    intro c hc
    rcases hc with hc | hc
    · exact Or.inl (reachList_sound σ fuel c hc)
    · exact Or.inr hc
  refine ⟨h1, h2, ?_, ?_, ?_, ?_, ?_, ?_, ?_, ?_, ?_, ?_, ?_⟩
  · have := List.take_append_drop σ.todo.length σ'.todo; rw [h3] at this; exact this.symm
  · intro a ha; exact h4 a ha
  · intro a ha
    have := h5 a ha
    cases hp : σ.phase <;> simp [hp] at this ⊢ <;> exact this
  · intro hp a ha
    rcases h6 a ha with h | h
    · exact absurd hp h
    · exact h
  · intro a ha
    rcases h7 a ha with h | ⟨⟨⟨⟨ha1, ha2⟩, ha3⟩, ha4⟩, ha5⟩
    · exact Or.inl h
    · exact Or.inr ⟨ha1, ha2, ha3, ha4, reachList_sound σ fuel a ha5⟩
  · have := List.take_append_drop (σ'.gray.length - σ.gray.length) σ'.gray; rw [h8a] at this; exact this.symm
  · intro a ha; exact h8c a ha
  · intro hp
    rcases h8d with h | h
    · exact absurd h hp
    · simp [h]
  · intro a ha c hc
    rcases h9 a ha c hc with h | h
    · exact Or.inl h
    · exact Or.inr (okRef c h)
  · intro r hr; exact okRef r (h10 r hr)
  · intro hp p hpp hm hng c hc
    rcases h11 with h | h
    · exact absurd hp h
    · rcases h p hpp with h | h
      · rcases h with h | h
        · rw [h] at hm; cases hm
        · exact absurd h hng
      · exact h c hc

end Abra.GC
