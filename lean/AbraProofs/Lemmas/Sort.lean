import AbraModel.Lib.Sort
/-! Lemmas for C25: unfolding equations, permutation, sortedness and stability of the sort model. -/
namespace Abra.Lib

variable {α : Type}

/-! ## unfolding equations in take/drop form -/

theorem runs_nil (le : α → α → Bool) (run : Nat) : runs le run [] = [] := by
  rw [runs]; simp

theorem runs_eq (le : α → α → Bool) (run : Nat) (l : List α) (hr : 0 < run) (hl : l ≠ []) :
    runs le run l = insertRun le (l.take run) ++ runs le run (l.drop run) := by
  rw [runs]
  have : ¬ (l = [] ∨ run = 0) := by
    intro h; cases h with
    | inl h => exact hl h
    | inr h => omega
  simp [this]

theorem mergePass_nil (le : α → α → Bool) (w : Nat) : mergePass le w [] = [] := by
  rw [mergePass]; simp

theorem mergePass_zero (le : α → α → Bool) (l : List α) : mergePass le 0 l = l := by
  rw [mergePass]; simp

/-- The sweep in block form: the first two `w`-blocks are merged when the second is non-empty
    (`mid < right`), a lone block is left as it is. -/
theorem mergePass_eq (le : α → α → Bool) (w : Nat) (l : List α) (hw : 0 < w) (hl : l ≠ []) :
    mergePass le w l =
      (if w < l.length then merge le (l.take w) ((l.drop w).take w) else l.take w)
        ++ mergePass le w (l.drop (2 * w)) := by
  rw [mergePass]
  have h0 : ¬ (l = [] ∨ w = 0) := by
    intro h; cases h with
    | inl h => exact hl h
    | inr h => omega
  have hlen : 0 < l.length := List.length_pos_iff.mpr hl
  simp only [h0, dite_false]
  congr 1
  by_cases h1 : w < l.length
  · have hm : w - 1 < (if 2 * w - 1 < l.length - 1 then 2 * w - 1 else l.length - 1) := by
      split <;> omega
    simp only [hm, h1, if_true]
    have e1 : w - 1 + 1 = w := by omega
    rw [e1]
    congr 1
    apply List.ext_getElem
    · simp only [List.length_take, List.length_drop]; split <;> omega
    · intro i h2 h3; simp
  · have hm : ¬ (w - 1 < (if 2 * w - 1 < l.length - 1 then 2 * w - 1 else l.length - 1)) := by
      split <;> omega
    simp only [hm, h1, if_false]
    rw [List.take_of_length_le (by omega), List.take_of_length_le (by omega)]

theorem mergeLoop_eq (le : α → α → Bool) (n w : Nat) (l : List α) :
    mergeLoop le n w l = if w < n ∧ 0 < w then mergeLoop le n (2 * w) (mergePass le w l) else l := by
  rw [mergeLoop]

/-! ## permutation (any comparator) -/

theorem insRev_perm (le : α → α → Bool) (key : α) (rp : List α) : (insRev le key rp).Perm (key :: rp) := by
  induction rp with
  | nil => simp [insRev]
  | cons x rest ih =>
    simp only [insRev]
    split
    · exact List.Perm.refl _
    · exact (List.Perm.cons x ih).trans (List.Perm.swap key x rest)

theorem foldl_insRev_perm (le : α → α → Bool) (l acc : List α) :
    (l.foldl (fun rp key => insRev le key rp) acc).Perm (l.reverse ++ acc) := by
  induction l generalizing acc with
  | nil => simp
  | cons a l ih =>
    simp only [List.foldl_cons, List.reverse_cons, List.append_assoc, List.singleton_append]
    exact (ih _).trans (List.Perm.append_left _ (insRev_perm le a acc))

theorem insertRun_perm (le : α → α → Bool) (l : List α) : (insertRun le l).Perm l := by
  unfold insertRun
  have h := foldl_insRev_perm le l []
  simp only [List.append_nil] at h
  exact (List.reverse_perm _).trans (h.trans (List.reverse_perm _))

theorem insertRun_length (le : α → α → Bool) (l : List α) : (insertRun le l).length = l.length :=
  (insertRun_perm le l).length_eq

theorem merge_perm (le : α → α → Bool) (a b : List α) : (merge le a b).Perm (a ++ b) := by
  fun_induction merge le a b with
  | case1 r => simp
  | case2 l _ => simp
  | case3 a l b r h ih => exact List.Perm.cons a ih
  | case4 a l b r h ih =>
    refine (List.Perm.cons b ih).trans ?_
    have : (b :: (a :: l ++ r)).Perm ((a :: l) ++ b :: r) := by
      simpa using (List.perm_middle (a := b) (l₁ := a :: l) (l₂ := r)).symm
    exact this

theorem merge_length (le : α → α → Bool) (a b : List α) : (merge le a b).length = a.length + b.length := by
  simpa using (merge_perm le a b).length_eq

theorem runs_perm (le : α → α → Bool) (run : Nat) (l : List α) : (runs le run l).Perm l := by
  fun_induction runs le run l with
  | case1 l h => exact List.Perm.refl _
  | case2 l h ih =>
    have := List.Perm.append (insertRun_perm le (l.take run)) ih
    simpa using this

theorem take_take_drop (w : Nat) (l : List α) : l.take w ++ (l.drop w).take w = l.take (2 * w) := by
  have : 2 * w = w + w := by omega
  rw [this, List.take_add]

theorem mergePass_perm (le : α → α → Bool) (w : Nat) (l : List α) : (mergePass le w l).Perm l := by
  induction h : l.length using Nat.strongRecOn generalizing l with
  | _ n ih =>
    by_cases hw : w = 0
    · subst hw; rw [mergePass_zero]
    by_cases hl : l = []
    · subst hl; rw [mergePass_nil]
    have hw' : 0 < w := by omega
    have hlen : 0 < l.length := List.length_pos_iff.mpr hl
    rw [mergePass_eq le w l hw' hl]
    have hrest := ih (l.drop (2 * w)).length (by simp only [List.length_drop]; omega) (l.drop (2 * w)) rfl
    have hfirst : (if w < l.length then merge le (l.take w) ((l.drop w).take w) else l.take w).Perm (l.take (2 * w)) := by
      split
      · rw [← take_take_drop]; exact merge_perm le _ _
      · rw [List.take_of_length_le (by omega), List.take_of_length_le (by omega)]
    have := List.Perm.append hfirst hrest
    simpa using this

theorem mergePass_length (le : α → α → Bool) (w : Nat) (l : List α) : (mergePass le w l).length = l.length :=
  (mergePass_perm le w l).length_eq

theorem mergeLoop_perm (le : α → α → Bool) (n w : Nat) (l : List α) : (mergeLoop le n w l).Perm l := by
  fun_induction mergeLoop le n w l with
  | case1 w l h ih => exact ih.trans (mergePass_perm le w l)
  | case2 w l h => exact List.Perm.refl _

/-! ## sortedness (total, transitive comparator) -/

section lawful
variable (le : α → α → Bool)
variable (total : ∀ a b, le a b = true ∨ le b a = true)
variable (trans : ∀ a b c, le a b = true → le b c = true → le a c = true)

/-- `Sorted le l`: every element is `le` every later one. -/
abbrev Sorted (l : List α) : Prop := l.Pairwise (fun a b => le a b = true)

include total trans in
theorem insRev_sorted (key : α) (rp : List α) (h : rp.Pairwise (fun a b => le b a = true)) :
    (insRev le key rp).Pairwise (fun a b => le b a = true) := by
  induction rp with
  | nil => simp [insRev]
  | cons x rest ih =>
    simp only [insRev]
    have hx := List.pairwise_cons.mp h
    split
    · rename_i hle
      refine List.pairwise_cons.mpr ⟨?_, h⟩
      intro y hy
      cases List.mem_cons.mp hy with
      | inl e => subst e; exact hle
      | inr hy => exact trans _ _ _ (hx.1 y hy) hle
    · rename_i hle
      refine List.pairwise_cons.mpr ⟨?_, ih hx.2⟩
      intro y hy
      have := (insRev_perm le key rest).mem_iff.mp hy
      cases List.mem_cons.mp this with
      | inl e =>
        subst e
        cases total x y with
        | inl h1 => exact absurd h1 hle
        | inr h1 => exact h1
      | inr hy => exact hx.1 y hy

include total trans in
theorem foldl_insRev_sorted (l acc : List α) (h : acc.Pairwise (fun a b => le b a = true)) :
    (l.foldl (fun rp key => insRev le key rp) acc).Pairwise (fun a b => le b a = true) := by
  induction l generalizing acc with
  | nil => simpa using h
  | cons a l ih => exact ih _ (insRev_sorted le total trans a acc h)

include total trans in
theorem insertRun_sorted (l : List α) : Sorted le (insertRun le l) := by
  unfold insertRun Sorted
  rw [List.pairwise_reverse]
  exact foldl_insRev_sorted le total trans l [] List.Pairwise.nil

theorem mem_merge {a b : List α} {y : α} (h : y ∈ merge le a b) : y ∈ a ∨ y ∈ b := by
  have := (merge_perm le a b).mem_iff.mp h
  exact List.mem_append.mp this

include total trans in
theorem merge_sorted (a b : List α) (ha : Sorted le a) (hb : Sorted le b) : Sorted le (merge le a b) := by
  fun_induction merge le a b with
  | case1 r => exact hb
  | case2 l _ => exact ha
  | case3 a l b r h ih =>
    have ha' := List.pairwise_cons.mp ha
    have hb' := List.pairwise_cons.mp hb
    refine List.pairwise_cons.mpr ⟨?_, ih ha'.2 hb⟩
    intro y hy
    cases mem_merge le hy with
    | inl hy => exact ha'.1 y hy
    | inr hy =>
      cases List.mem_cons.mp hy with
      | inl e => subst e; exact h
      | inr hy => exact trans _ _ _ h (hb'.1 y hy)
  | case4 a l b r h ih =>
    have ha' := List.pairwise_cons.mp ha
    have hb' := List.pairwise_cons.mp hb
    have hba : le b a = true := by
      cases total a b with
      | inl h1 => exact absurd h1 h
      | inr h1 => exact h1
    refine List.pairwise_cons.mpr ⟨?_, ih ha hb'.2⟩
    intro y hy
    cases mem_merge le hy with
    | inl hy =>
      cases List.mem_cons.mp hy with
      | inl e => subst e; exact hba
      | inr hy => exact trans _ _ _ hba (ha'.1 y hy)
    | inr hy => exact hb'.1 y hy

/-- every block `[k·w, (k+1)·w)` of `l` is sorted -/
def Blocks (w : Nat) (l : List α) : Prop := ∀ k : Nat, Sorted le ((l.drop (k * w)).take w)

theorem Blocks.head {w : Nat} {l : List α} (h : Blocks le w l) : Sorted le (l.take w) := by
  simpa using h 0

theorem Blocks.tail {w : Nat} {l : List α} (h : Blocks le w l) : Blocks le w (l.drop w) := by
  intro k
  have := h (k + 1)
  rw [List.drop_drop]
  have e : (k + 1) * w = k * w + w := by rw [Nat.add_mul]; omega
  rw [e] at this
  have e2 : w + k * w = k * w + w := by omega
  rw [e2]; exact this

theorem Blocks.of_head_tail {w : Nat} {l : List α} (h0 : Sorted le (l.take w)) (h1 : Blocks le w (l.drop w)) :
    Blocks le w l := by
  intro k
  cases k with
  | zero => simpa using h0
  | succ k =>
    have := h1 k
    rw [List.drop_drop] at this
    have e : (k + 1) * w = w + k * w := by rw [Nat.add_mul]; omega
    rw [e]; exact this

theorem Blocks.nil (w : Nat) : Blocks le w ([] : List α) := by
  intro k; simp [Sorted]

include total trans in
theorem runs_blocks (run : Nat) (hr : 0 < run) (l : List α) : Blocks le run (runs le run l) := by
  induction h : l.length using Nat.strongRecOn generalizing l with
  | _ n ih =>
    by_cases hl : l = []
    · subst hl; rw [runs_nil]; exact Blocks.nil le run
    have hlen : 0 < l.length := List.length_pos_iff.mpr hl
    rw [runs_eq le run l hr hl]
    have hrest := ih (l.drop run).length (by simp only [List.length_drop]; omega) (l.drop run) rfl
    have hlenI : (insertRun le (l.take run)).length = min run l.length := by
      rw [insertRun_length, List.length_take]
    apply Blocks.of_head_tail
    · by_cases hc : run ≤ l.length
      · rw [List.take_append_of_le_length (by omega), List.take_of_length_le (by omega)]
        exact insertRun_sorted le total trans _
      · have : l.drop run = [] := List.drop_eq_nil_of_le (by omega)
        rw [this, runs_nil, List.append_nil, List.take_of_length_le (by omega)]
        exact insertRun_sorted le total trans _
    · by_cases hc : run ≤ l.length
      · have : (insertRun le (l.take run)).length = run := by omega
        rw [List.drop_append_of_le_length (by omega), List.drop_of_length_le (by omega), List.nil_append]
        exact hrest
      · have : l.drop run = [] := List.drop_eq_nil_of_le (by omega)
        rw [this, runs_nil, List.append_nil, List.drop_of_length_le (by omega)]
        exact Blocks.nil le run

include total trans in
theorem mergePass_blocks (w : Nat) (hw : 0 < w) (l : List α) (hb : Blocks le w l) :
    Blocks le (2 * w) (mergePass le w l) := by
  induction h : l.length using Nat.strongRecOn generalizing l with
  | _ n ih =>
    by_cases hl : l = []
    · subst hl; rw [mergePass_nil]; exact Blocks.nil le _
    have hlen : 0 < l.length := List.length_pos_iff.mpr hl
    rw [mergePass_eq le w l hw hl]
    have hb2 : Blocks le w (l.drop (2 * w)) := by
      have := hb.tail.tail
      rw [List.drop_drop] at this
      have e : w + w = 2 * w := by omega
      rw [e] at this; exact this
    have hrest := ih (l.drop (2 * w)).length (by simp only [List.length_drop]; omega) (l.drop (2 * w)) hb2 rfl
    -- the first (merged or lone) block
    have hfirst_sorted : Sorted le (if w < l.length then merge le (l.take w) ((l.drop w).take w) else l.take w) := by
      split
      · exact merge_sorted le total trans _ _ hb.head hb.tail.head
      · exact hb.head
    have hfirst_len : (if w < l.length then merge le (l.take w) ((l.drop w).take w) else l.take w).length
        = min (2 * w) l.length := by
      split
      · rw [merge_length]; simp only [List.length_take, List.length_drop]; omega
      · simp only [List.length_take]; omega
    generalize (if w < l.length then merge le (l.take w) ((l.drop w).take w) else l.take w) = F at *
    apply Blocks.of_head_tail
    · by_cases hc : 2 * w ≤ l.length
      · rw [List.take_append_of_le_length (by omega), List.take_of_length_le (by omega)]
        exact hfirst_sorted
      · have : l.drop (2 * w) = [] := List.drop_eq_nil_of_le (by omega)
        rw [this, mergePass_nil, List.append_nil, List.take_of_length_le (by omega)]
        exact hfirst_sorted
    · by_cases hc : 2 * w ≤ l.length
      · rw [List.drop_append_of_le_length (by omega), List.drop_of_length_le (by omega), List.nil_append]
        exact hrest
      · have : l.drop (2 * w) = [] := List.drop_eq_nil_of_le (by omega)
        rw [this, mergePass_nil, List.append_nil, List.drop_of_length_le (by omega)]
        exact Blocks.nil le _

include total trans in
theorem mergeLoop_sorted (n w : Nat) (hw : 0 < w) (l : List α) (hn : l.length = n) (hb : Blocks le w l) :
    Sorted le (mergeLoop le n w l) := by
  fun_induction mergeLoop le n w l with
  | case1 w l h ih =>
    exact ih (by omega) (by rw [mergePass_length]; exact hn) (mergePass_blocks le total trans w hw l hb)
  | case2 w l h =>
    have : l.take w = l := List.take_of_length_le (by omega)
    rw [← this]; exact hb.head

/-! ## stability -/

/-- `a` and `b` are equivalent under the comparator -/
def eqv (x y : α) : Bool := le x y && le y x

include trans in
theorem filter_insRev (x key : α) (rp : List α) :
    (insRev le key rp).filter (eqv le x) = (key :: rp).filter (eqv le x) := by
  induction rp with
  | nil => simp [insRev]
  | cons y rest ih =>
    simp only [insRev]
    split
    · rfl
    · rename_i hle
      rw [List.filter_cons, ih]
      by_cases hy : eqv le x y = true
      · by_cases hk : eqv le x key = true
        · exfalso
          simp only [eqv, Bool.and_eq_true] at hy hk
          exact hle (trans _ _ _ hy.2 hk.1)
        · simp [hy, hk]
      · simp [List.filter_cons, hy]

include trans in
theorem filter_foldl_insRev (x : α) (l acc : List α) :
    (l.foldl (fun rp key => insRev le key rp) acc).filter (eqv le x) = (l.reverse ++ acc).filter (eqv le x) := by
  induction l generalizing acc with
  | nil => simp
  | cons a l ih =>
    simp only [List.foldl_cons, List.reverse_cons, List.append_assoc, List.singleton_append]
    rw [ih, List.filter_append, List.filter_append, filter_insRev le trans]

include trans in
theorem filter_insertRun (x : α) (l : List α) : (insertRun le l).filter (eqv le x) = l.filter (eqv le x) := by
  unfold insertRun
  rw [List.filter_reverse, filter_foldl_insRev le trans]
  simp [List.filter_reverse]

include total trans in
theorem filter_merge (x : α) (a b : List α) (ha : Sorted le a) :
    (merge le a b).filter (eqv le x) = a.filter (eqv le x) ++ b.filter (eqv le x) := by
  fun_induction merge le a b with
  | case1 r => simp
  | case2 l _ => simp
  | case3 a l b r h ih =>
    have ha' := List.pairwise_cons.mp ha
    rw [List.filter_cons, ih ha'.2]
    by_cases hx : eqv le x a = true <;> simp [List.filter_cons, hx]
  | case4 a l b r h ih =>
    have ha' := List.pairwise_cons.mp ha
    rw [List.filter_cons, ih ha]
    by_cases hx : eqv le x b = true
    · -- nothing in `a :: l` is equivalent to `x`, since `b < a ≤ everything in l`
      have hnone : (a :: l).filter (eqv le x) = [] := by
        rw [List.filter_eq_nil_iff]
        intro y hy hxy
        simp only [eqv, Bool.and_eq_true] at hx hxy
        have hay : le a y = true := by
          cases List.mem_cons.mp hy with
          | inl e => subst e; cases total y y with
            | inl h1 => exact h1
            | inr h1 => exact h1
          | inr hy => exact ha'.1 y hy
        exact h (trans _ _ _ hay (trans _ _ _ hxy.2 hx.1))
      rw [hnone]; simp [hx]
    · simp [List.filter_cons, hx]

include trans in
theorem filter_runs (x : α) (run : Nat) (l : List α) : (runs le run l).filter (eqv le x) = l.filter (eqv le x) := by
  fun_induction runs le run l with
  | case1 l h => rfl
  | case2 l h ih =>
    rw [List.filter_append, ih, filter_insertRun le trans, ← List.filter_append, List.take_append_drop]

include total trans in
theorem filter_mergePass (x : α) (w : Nat) (l : List α) (hb : Blocks le w l) :
    (mergePass le w l).filter (eqv le x) = l.filter (eqv le x) := by
  induction h : l.length using Nat.strongRecOn generalizing l with
  | _ n ih =>
    by_cases hw0 : w = 0
    · subst hw0; rw [mergePass_zero]
    have hw : 0 < w := by omega
    by_cases hl : l = []
    · subst hl; rw [mergePass_nil]
    have hlen : 0 < l.length := List.length_pos_iff.mpr hl
    rw [mergePass_eq le w l hw hl]
    have hb2 : Blocks le w (l.drop (2 * w)) := by
      have := hb.tail.tail
      rw [List.drop_drop] at this
      have e : w + w = 2 * w := by omega
      rw [e] at this; exact this
    have hrest := ih (l.drop (2 * w)).length (by simp only [List.length_drop]; omega) (l.drop (2 * w)) hb2 rfl
    rw [List.filter_append, hrest]
    have hfirst : (if w < l.length then merge le (l.take w) ((l.drop w).take w) else l.take w).filter (eqv le x)
        = (l.take (2 * w)).filter (eqv le x) := by
      split
      · rw [filter_merge le total trans x _ _ hb.head, ← List.filter_append, take_take_drop]
      · rw [List.take_of_length_le (by omega), List.take_of_length_le (by omega)]
    rw [hfirst, ← List.filter_append, List.take_append_drop]

include total trans in
theorem filter_mergeLoop (x : α) (n w : Nat) (l : List α) (hb : Blocks le w l) :
    (mergeLoop le n w l).filter (eqv le x) = l.filter (eqv le x) := by
  fun_induction mergeLoop le n w l with
  | case1 w l h ih =>
    rw [ih (mergePass_blocks le total trans w h.2 l hb), filter_mergePass le total trans x w l hb]
  | case2 w l h => rfl

end lawful
end Abra.Lib
