import AbraModel.VMCore
/-! Basic facts about the VM core: multi-step closure, `pop?`, frame-relative indexing. -/
namespace Abra.VM

/-- reflexive-transitive closure of non-terminal steps -/
inductive Steps (P : Program) : State → State → Prop where
  | refl (s : State) : Steps P s s
  | cons {s s' s'' : State} : VM.step P s = .ok s' → Steps P s' s'' → Steps P s s''

theorem Steps.single {P : Program} {s s' : State} (h : VM.step P s = .ok s') : Steps P s s' :=
  .cons h (.refl _)

theorem Steps.trans {P : Program} {a b c : State} (h1 : Steps P a b) (h2 : Steps P b c) : Steps P a c := by
  induction h1 with
  | refl _ => exact h2
  | cons hs _ ih => exact .cons hs (ih h2)

theorem Steps.snoc {P : Program} {a b c : State} (h1 : Steps P a b) (h2 : VM.step P b = .ok c) : Steps P a c :=
  h1.trans (.single h2)

/-- a `Steps` prefix can be put in front of a bounded run -/
theorem run_of_steps {P : Program} {a b : State} (h : Steps P a b) :
    ∀ (n : Nat) (r : RunResult), run P n b = r → (∀ s, r ≠ .outOfFuel s) → ∃ m, run P m a = r := by
  induction h with
  | refl _ => intro n r hr _; exact ⟨n, hr⟩
  | cons hs _ ih =>
    intro n r hr hne
    obtain ⟨m, hm⟩ := ih n r hr hne
    exact ⟨m + 1, by simp [run, hs, hm]⟩

@[simp] theorem pop?_snoc (l : List Val) (v : Val) : pop? (l ++ [v]) = some (v, l) := by
  induction l with
  | nil => rfl
  | cons a r ih =>
    cases r with
    | nil => simp [pop?]
    | cons b r' =>
      have : (a :: b :: r') ++ [v] = a :: ((b :: r') ++ [v]) := rfl
      rw [this]
      simp only [List.cons_append] at ih ⊢
      simp [pop?, ih]

theorem slotIdx_nat (base i : Nat) : slotIdx base (i : Int) = some (base + i) := by
  unfold slotIdx
  have h : (0 : Int) ≤ (base : Int) + (i : Int) := by omega
  simp only [h, if_true]
  congr 1

end Abra.VM
