import AbraProofs.Lemmas.Arr
/-! Lemmas for C26 (`clone`, `filled`): abstraction of a value to a tree, reachable addresses,
    and the invariant of the `for x in arr { new.push(Clone.clone(x)) }` loop. -/
namespace Abra.Lib.Arr

/-- the abstract (heap-free) value denoted by `v` at nesting depth `d` -/
inductive Tree where
  | leaf (v : Val)
  | node (ts : List Tree)

def den : Nat → Heap → Val → Tree
  | 0, _, v => .leaf v
  | d + 1, h, .ref a => .node ((h.arr a).map (den d h))
  | _ + 1, _, v => .leaf v

/-- addresses reachable from `v` at nesting depth `d` -/
def reach : Nat → Heap → Val → List Nat
  | 0, _, _ => []
  | d + 1, h, .ref a => a :: (h.arr a).flatMap (reach d h)
  | _ + 1, _, _ => []

/-- `v` is a value of an array type of nesting depth `d` over scalars, living in `h` -/
def WT : Nat → Heap → Val → Prop
  | 0, _, v => ∀ a, v ≠ .ref a
  | d + 1, h, v => ∃ a, v = .ref a ∧ a < h.length ∧ ∀ x ∈ h.arr a, WT d h x

theorem den_reach_congr : ∀ (d : Nat) (h h' : Heap) (v : Val),
    (∀ b ∈ reach d h v, h'.arr b = h.arr b) → den d h' v = den d h v ∧ reach d h' v = reach d h v := by
  intro d
  induction d with
  | zero => intro h h' v _; exact ⟨rfl, rfl⟩
  | succ d ih =>
    intro h h' v hag
    cases v with
    | ref a =>
      have ha : h'.arr a = h.arr a := hag a (by simp [reach])
      have hx : ∀ x ∈ h.arr a, den d h' x = den d h x ∧ reach d h' x = reach d h x := by
        intro x hx
        apply ih
        intro b hb
        apply hag
        simp only [reach, List.mem_cons, List.mem_flatMap]
        exact Or.inr ⟨x, hx, hb⟩
      constructor
      · simp only [den, ha]
        congr 1
        exact List.map_congr_left (fun x hx' => (hx x hx').1)
      · simp only [reach, ha]
        congr 1
        simp only [List.flatMap]
        congr 1
        exact List.map_congr_left (fun x hx' => (hx x hx').2)
    | int _ => exact ⟨rfl, rfl⟩
    | bool _ => exact ⟨rfl, rfl⟩
    | nil => exact ⟨rfl, rfl⟩
    | str _ => exact ⟨rfl, rfl⟩

theorem WT_reach_lt : ∀ (d : Nat) (h : Heap) (v : Val), WT d h v → ∀ b ∈ reach d h v, b < h.length := by
  intro d
  induction d with
  | zero => intro h v _ b hb; simp [reach] at hb
  | succ d ih =>
    intro h v hwt b hb
    obtain ⟨a, rfl, ha, hel⟩ := hwt
    simp only [reach, List.mem_cons, List.mem_flatMap] at hb
    cases hb with
    | inl e => omega
    | inr hb =>
      obtain ⟨x, hx, hbx⟩ := hb
      exact ih h x (hel x hx) b hbx

theorem WT_congr : ∀ (d : Nat) (h h' : Heap) (v : Val),
    (∀ b ∈ reach d h v, h'.arr b = h.arr b) → h.length ≤ h'.length → WT d h v → WT d h' v := by
  intro d
  induction d with
  | zero => intro h h' v _ _ hwt; exact hwt
  | succ d ih =>
    intro h h' v hag hlen hwt
    obtain ⟨a, rfl, ha, hel⟩ := hwt
    have haa : h'.arr a = h.arr a := hag a (by simp [reach])
    refine ⟨a, rfl, by omega, ?_⟩
    rw [haa]
    intro x hx
    apply ih h h' x _ hlen (hel x hx)
    intro b hb
    apply hag
    simp only [reach, List.mem_cons, List.mem_flatMap]
    exact Or.inr ⟨x, hx, hb⟩

/-- what `Clone.clone` promises at depth `d` -/
structure CloneOK (d : Nat) (h : Heap) (v : Val) (h' : Heap) (v' : Val) : Prop where
  len : h.length ≤ h'.length
  old : ∀ b, b < h.length → h'.arr b = h.arr b
  den : den d h' v' = den d h v
  fresh : ∀ b ∈ reach d h' v', h.length ≤ b
  wt : WT d h' v'

def CloneSpec (d : Nat) : Prop :=
  ∀ (h : Heap) (v : Val), WT d h v → ∃ h' v', cloneAt d h v = .ok (h', v') ∧ CloneOK d h v h' v'

/-- invariant of `for x in xs { new.push(Clone.clone(x)) }` where `new = ref n` -/
theorem cloneLoop_spec (d : Nat) (ihd : CloneSpec d) (n : Nat) :
    ∀ (xs : List Val) (hk : Heap), n < hk.length →
      (∀ x ∈ xs, WT d hk x ∧ ∀ b ∈ reach d hk x, b < n) →
      ∃ hf cs, cloneLoop (cloneAt d) (.ref n) xs hk = .ok hf ∧ hk.length ≤ hf.length ∧
        (∀ b, b < hk.length → b ≠ n → hf.arr b = hk.arr b) ∧
        hf.arr n = hk.arr n ++ cs ∧
        cs.map (den d hf) = xs.map (den d hk) ∧
        (∀ c ∈ cs, WT d hf c ∧ ∀ b ∈ reach d hf c, hk.length ≤ b) := by
  intro xs
  induction xs with
  | nil =>
    intro hk _ _
    exact ⟨hk, [], rfl, Nat.le_refl _, fun _ _ _ => rfl, by simp, rfl, by simp⟩
  | cons x xs ih =>
    intro hk hn hxs
    have hx := hxs x (by simp)
    obtain ⟨h1, c, e1, ok1⟩ := ihd hk x hx.1
    simp only [cloneLoop, e1]
    have hlen1 : hk.length ≤ h1.length := ok1.len
    have hn1 : n < h1.length := Nat.lt_of_lt_of_le hn ok1.len
    simp only [pushOp, addrOf_ref hn1]
    -- the heap after the push
    have h1n : h1.arr n = hk.arr n := ok1.old n hn
    have h2len : (h1.set n (h1.arr n ++ [c]) : Heap).length = h1.length := length_set _ _ _
    have h2n : Heap.arr (h1.set n (h1.arr n ++ [c])) n = hk.arr n ++ [c] := by
      rw [arr_set_same _ _ _ hn1, h1n]
    have h2o : ∀ b, b ≠ n → Heap.arr (h1.set n (h1.arr n ++ [c])) b = h1.arr b :=
      fun b hb => arr_set_other _ _ _ _ hb
    generalize (h1.set n (h1.arr n ++ [c]) : Heap) = h2 at h2len h2n h2o
    -- old elements are untouched below n
    have hlow : ∀ b, b < n → Heap.arr h2 b = hk.arr b := by
      intro b hb
      rw [h2o b (by omega), ok1.old b (by omega)]
    have hxs2 : ∀ x' ∈ xs, WT d h2 x' ∧ ∀ b ∈ reach d h2 x', b < n := by
      intro x' hx'
      have := hxs x' (by simp [hx'])
      have hag : ∀ b ∈ reach d hk x', Heap.arr h2 b = hk.arr b := fun b hb => hlow b (this.2 b hb)
      refine ⟨WT_congr d hk h2 x' hag (by omega) this.1, ?_⟩
      rw [(den_reach_congr d hk h2 x' hag).2]
      exact this.2
    obtain ⟨hf, cs, ef, lenf, frf, arrf, denf, wtf⟩ := ih h2 (by omega) hxs2
    -- the clone `c` is not disturbed by the push or by the rest of the loop
    have hc_reach_ge : ∀ b ∈ reach d h1 c, hk.length ≤ b := ok1.fresh
    have hc_reach_lt : ∀ b ∈ reach d h1 c, b < h1.length := WT_reach_lt d h1 c ok1.wt
    have hc_ag : ∀ b ∈ reach d h1 c, hf.arr b = h1.arr b := by
      intro b hb
      have h1' := hc_reach_ge b hb
      have h2' := hc_reach_lt b hb
      rw [frf b (by omega) (by omega), h2o b (by omega)]
    refine ⟨hf, c :: cs, ef, by omega, ?_, ?_, ?_, ?_⟩
    · intro b hb hbn
      rw [frf b (by omega) hbn, h2o b hbn, ok1.old b hb]
    · rw [arrf, h2n]; simp
    · simp only [List.map_cons]
      congr 1
      · rw [(den_reach_congr d h1 hf c hc_ag).1, ok1.den]
      · rw [denf]
        apply List.map_congr_left
        intro x' hx'
        have := hxs x' (by simp [hx'])
        exact (den_reach_congr d hk h2 x' (fun b hb => hlow b (this.2 b hb))).1
    · intro c' hc'
      cases List.mem_cons.mp hc' with
      | inl e =>
        subst e
        refine ⟨WT_congr d h1 hf c' hc_ag (by omega) ok1.wt, ?_⟩
        rw [(den_reach_congr d h1 hf c' hc_ag).2]
        exact hc_reach_ge
      | inr hc' =>
        have := wtf c' hc'
        exact ⟨this.1, fun b hb => by have := this.2 b hb; omega⟩

/-- a fresh empty array followed by the clone loop over `xs` (elements of depth `d` living in `h`):
    the common shape of `Clone.clone` for arrays and of `array.filled` -/
theorem freshLoop_spec (d : Nat) (ihd : CloneSpec d) (h : Heap) (xs : List Val) (hxs : ∀ x ∈ xs, WT d h x) :
    ∃ hf, cloneLoop (cloneAt d) (construct h []).2 xs (construct h []).1 = .ok hf ∧
      h.length < hf.length ∧ (∀ b, b < h.length → hf.arr b = h.arr b) ∧
      den (d + 1) hf (.ref h.length) = .node (xs.map (den d h)) ∧
      (∀ b ∈ reach (d + 1) hf (.ref h.length), h.length ≤ b) ∧
      WT (d + 1) hf (.ref h.length) := by
  have hag0 : ∀ x ∈ xs, ∀ b ∈ reach d h x, Heap.arr (h ++ [[]]) b = h.arr b := by
    intro x hx b hb
    exact arr_append_old h [] b (WT_reach_lt d h x (hxs x hx) b hb)
  have hpre : ∀ x ∈ xs, WT d (h ++ [[]]) x ∧ ∀ b ∈ reach d (h ++ [[]]) x, b < h.length := by
    intro x hx
    refine ⟨WT_congr d h _ x (hag0 x hx) (by simp) (hxs x hx), ?_⟩
    rw [(den_reach_congr d h _ x (hag0 x hx)).2]
    exact WT_reach_lt d h x (hxs x hx)
  obtain ⟨hf, cs, ef, lenf, frf, arrf, denf, wtf⟩ :=
    cloneLoop_spec d ihd h.length xs (h ++ [[]]) (by simp) hpre
  have hl0 : (h ++ [[]] : Heap).length = h.length + 1 := by simp
  have harr : hf.arr h.length = cs := by rw [arrf, arr_append_new]; simp
  refine ⟨hf, ef, by omega, ?_, ?_, ?_, ?_⟩
  · intro b hb
    rw [frf b (by omega) (by omega), arr_append_old h [] b hb]
  · simp only [den, harr, denf]
    congr 1
    apply List.map_congr_left
    intro x hx
    exact (den_reach_congr d h _ x (hag0 x hx)).1
  · intro b hb
    simp only [reach, harr, List.mem_cons, List.mem_flatMap] at hb
    cases hb with
    | inl e => omega
    | inr hb =>
      obtain ⟨c, hc, hbc⟩ := hb
      have := (wtf c hc).2 b hbc
      omega
  · exact ⟨h.length, rfl, by omega, by rw [harr]; exact fun c hc => (wtf c hc).1⟩

theorem cloneSpec_all : ∀ d, CloneSpec d := by
  intro d
  induction d with
  | zero =>
    intro h v hwt
    exact ⟨h, v, rfl, ⟨Nat.le_refl _, fun _ _ => rfl, rfl, by simp [reach], hwt⟩⟩
  | succ d ihd =>
    intro h v hwt
    obtain ⟨a, rfl, ha, hel⟩ := hwt
    obtain ⟨hf, ef, lenf, oldf, denf, freshf, wtf⟩ := freshLoop_spec d ihd h (h.arr a) hel
    refine ⟨hf, .ref h.length, ?_, ⟨by omega, oldf, ?_, freshf, wtf⟩⟩
    · simp only [cloneAt, addrOf_ref ha, ef]; rfl
    · rw [denf]; rfl

theorem filledLoop_eq (d : Nat) (x ret : Val) : ∀ (k : Nat) (h : Heap),
    filledLoop d x ret k h = cloneLoop (cloneAt d) ret (List.replicate k x) h := by
  intro k
  induction k with
  | zero => intro h; rfl
  | succ k ih =>
    intro h
    simp only [filledLoop, List.replicate_succ, cloneLoop]
    cases cloneAt d h x with
    | error e => rfl
    | ok p =>
      obtain ⟨h1, c⟩ := p
      simp only
      cases pushOp h1 ret c with
      | error e => rfl
      | ok h2 => exact ih h2

end Abra.Lib.Arr
