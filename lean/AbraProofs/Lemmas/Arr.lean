import AbraModel.Lib.Arr
/-! Lemmas for C26: heap access, the bound test, and the abstraction of a value to a tree. -/
namespace Abra.Lib.Arr

/-! ## heap access -/

theorem addrOf_ref {h : Heap} {a : Nat} (ha : a < h.length) : addrOf h (.ref a) = .ok a := by
  simp [addrOf, ha]

theorem arr_set_same (h : Heap) (a : Nat) (l : List Val) (ha : a < h.length) : Heap.arr (h.set a l) a = l := by
  simp [Heap.arr, List.getD, ha]

theorem arr_set_other (h : Heap) (a b : Nat) (l : List Val) (hb : b ≠ a) : Heap.arr (h.set a l) b = Heap.arr h b := by
  simp [Heap.arr, List.getD, List.getElem?_set, Ne.symm hb]

theorem length_set (h : Heap) (a : Nat) (l : List Val) : (h.set a l : Heap).length = h.length := by
  simp

theorem arr_append_old (h : Heap) (l : List Val) (b : Nat) (hb : b < h.length) : Heap.arr (h ++ [l]) b = Heap.arr h b := by
  simp [Heap.arr, List.getD, List.getElem?_append_left hb]

theorem arr_append_new (h : Heap) (l : List Val) : Heap.arr (h ++ [l]) h.length = l := by
  simp [Heap.arr, List.getD]

theorem arr_out (h : Heap) (b : Nat) (hb : h.length ≤ b) : Heap.arr h b = [] := by
  simp [Heap.arr, List.getD, List.getElem?_eq_none hb]

/-! ## the bound test -/

/-- 64-bit signed range -/
def inI64 (i : Int) : Prop := -9223372036854775808 ≤ i ∧ i ≤ 9223372036854775807

/-- `idx as usize >= len || idx < 0` is exactly the two-sided bound `¬ (0 ≤ idx < len)` -/
theorem outOfBounds_iff (idx : Int) (len : Nat) (hi : inI64 idx) :
    outOfBounds idx len = false ↔ (0 ≤ idx ∧ idx < len) := by
  unfold inI64 at hi
  simp only [outOfBounds, asUsize, Bool.or_eq_false_iff, decide_eq_false_iff_not, Int.not_lt, ge_iff_le, Nat.not_le]
  constructor
  · rintro ⟨h1, h2⟩
    refine ⟨h2, ?_⟩
    have : idx % 18446744073709551616 = idx := Int.emod_eq_of_lt h2 (by omega)
    rw [this] at h1
    omega
  · rintro ⟨h1, h2⟩
    refine ⟨?_, h1⟩
    have : idx % 18446744073709551616 = idx := Int.emod_eq_of_lt h1 (by omega)
    rw [this]
    omega

theorem outOfBounds_true (idx : Int) (len : Nat) (hi : inI64 idx) (h : ¬ (0 ≤ idx ∧ idx < len)) :
    outOfBounds idx len = true := by
  cases hb : outOfBounds idx len with
  | true => rfl
  | false => exact absurd ((outOfBounds_iff idx len hi).mp hb) h

end Abra.Lib.Arr
