import AbraProofs.Lemmas.HashMapChain
/-! Lemmas for C27, part 2: the representation invariant, what a table means, lookups. -/
namespace Abra.Lib.HashMap

variable {K V : Type}

/-- what the theorems need of the key type's `Hash` / `Equal`: equality is an equivalence and equal keys
    hash equally.  Nothing else — colliding and constant hashes are lawful. -/
structure Lawful (hash : K → Int) (eq : K → K → Bool) : Prop where
  refl : ∀ a, eq a a = true
  symm : ∀ a b, eq a b = true → eq b a = true
  trans : ∀ a b c, eq a b = true → eq b c = true → eq a c = true
  hash_eq : ∀ a b, eq a b = true → hash a = hash b

/-- The representation invariant, with the bucket chains `ch` and the free chain `fr` as witnesses. -/
structure WF (hash : K → Int) (eq : K → K → Bool) (t : Table K V) (ch : Nat → List Nat) (fr : List Nat) : Prop where
  lenV : t.values.length = t.keys.length
  lenH : t.hashes.length = t.keys.length
  lenN : t.nexts.length = t.keys.length
  lenO : t.occupied.length = t.keys.length
  /-- without buckets there are no entries -/
  noBuckets : t.buckets.length = 0 → ∀ i : Nat, t.occupied[i]? ≠ some true
  /-- each bucket heads an acyclic chain … -/
  chain : ∀ b, b < t.buckets.length → ∃ s, t.buckets[b]? = some s ∧ Chain t.nexts s (ch b)
  nodup : ∀ b, b < t.buckets.length → (ch b).Nodup
  /-- … of occupied entries hashing to it … -/
  inBucket : ∀ b, b < t.buckets.length → ∀ i ∈ ch b,
    t.occupied[i]? = some true ∧ ∃ h, t.hashes[i]? = some h ∧ h % (t.buckets.length : Int) = b
  /-- … that enumerates all of them -/
  complete : ∀ (i : Nat) (h : Int), t.occupied[i]? = some true → t.hashes[i]? = some h →
    i ∈ ch (h % (t.buckets.length : Int)).toNat
  /-- stored hashes are the hashes of the stored keys -/
  hashOk : ∀ (i : Nat) (k : K), t.occupied[i]? = some true → t.keys[i]? = some k → t.hashes[i]? = some (hash k)
  /-- occupied keys are pairwise distinct w.r.t. `Equal` -/
  distinct : ∀ (i j : Nat) (ki kj : K), t.occupied[i]? = some true → t.occupied[j]? = some true →
    t.keys[i]? = some ki → t.keys[j]? = some kj → eq ki kj = true → i = j
  /-- the free list enumerates exactly the unoccupied slots -/
  freeChain : Chain t.nexts t.freeList fr
  freeNodup : fr.Nodup
  freeIff : ∀ i : Nat, i ∈ fr ↔ t.occupied[i]? = some false
  /-- `count` is the number of occupied slots -/
  countOk : t.count = ((t.occupied.count true : Nat) : Int)

/-- the representation invariant -/
def Inv (hash : K → Int) (eq : K → K → Bool) (t : Table K V) : Prop := ∃ ch fr, WF hash eq t ch fr

/-- slot `i` holds (a key equal to) `k` -/
def Holds (eq : K → K → Bool) (t : Table K V) (k : K) (i : Nat) : Prop :=
  t.occupied[i]? = some true ∧ ∃ ki, t.keys[i]? = some ki ∧ eq ki k = true

/-- `t` represents the dictionary `d` -/
def Models (hash : K → Int) (eq : K → K → Bool) (t : Table K V) (d : K → Option V) : Prop :=
  Inv hash eq t ∧ ∀ k v, d k = some v ↔ ∃ i, Holds eq t k i ∧ t.values[i]? = some v

theorem nodup_bound : ∀ (n : Nat) (l : List Nat), l.Nodup → (∀ i ∈ l, i < n) → l.length ≤ n := by
  intro n
  induction n with
  | zero =>
    intro l _ hb
    cases l with
    | nil => simp
    | cons a l => have := hb a (by simp); omega
  | succ n ih =>
    intro l hnd hb
    have hnd' : (l.erase n).Nodup := hnd.sublist List.erase_sublist
    have hb' : ∀ i ∈ l.erase n, i < n := by
      intro i hi
      have h1 := (List.Nodup.mem_erase_iff hnd).mp hi
      have := hb i h1.2
      omega
    have := ih (l.erase n) hnd' hb'
    have hl := List.length_erase (a := n) (l := l)
    split at hl <;> omega

section lookup
variable {hash : K → Int} {eq : K → K → Bool} {t : Table K V} {ch : Nat → List Nat} {fr : List Nat}

theorem WF.chain_len (wf : WF hash eq t ch fr) (b : Nat) (hb : b < t.buckets.length) :
    (ch b).length < t.keys.length + 1 := by
  obtain ⟨s, _, hch⟩ := wf.chain b hb
  have := nodup_bound t.keys.length (ch b) (wf.nodup b hb) (fun i hi => by have := hch.lt i hi; rw [wf.lenN] at this; exact this)
  omega

theorem WF.free_len (wf : WF hash eq t ch fr) : fr.length < t.keys.length + 1 := by
  have := nodup_bound t.keys.length fr wf.freeNodup (fun i hi => by have := wf.freeChain.lt i hi; rw [wf.lenN] at this; exact this)
  omega

theorem Holds.lt (h : Holds eq t k i) : i < t.keys.length := by
  obtain ⟨_, ki, hk, _⟩ := h
  exact getElem?_lt hk

theorem Holds.unique (law : Lawful hash eq) (wf : WF hash eq t ch fr) {k : K} {i j : Nat}
    (hi : Holds eq t k i) (hj : Holds eq t k j) : i = j := by
  obtain ⟨oi, ki, hki, ei⟩ := hi
  obtain ⟨oj, kj, hkj, ej⟩ := hj
  exact wf.distinct i j ki kj oi oj hki hkj (law.trans _ _ _ ei (law.symm _ _ ej))

/-- the first match of the walk over the right bucket chain is the slot holding the key, if any -/
theorem WF.find_some (law : Lawful hash eq) (wf : WF hash eq t ch fr) (k : K) (b : Nat) (hb : b < t.buckets.length)
    (i : Nat) (hf : (ch b).find? (matchP eq t (hash k) k) = some i) : Holds eq t k i := by
  have hmem := List.mem_of_find?_eq_some hf
  have hp := List.find?_some hf
  obtain ⟨hocc, _⟩ := wf.inBucket b hb i hmem
  simp only [matchP] at hp
  cases hh : t.hashes[i]? with
  | none => simp [hh] at hp
  | some h =>
    cases hk : t.keys[i]? with
    | none => simp [hh, hk] at hp
    | some ki =>
      simp only [hh, hk, Bool.and_eq_true, decide_eq_true_eq] at hp
      exact ⟨hocc, ki, hk, hp.2⟩

theorem WF.find_none (law : Lawful hash eq) (wf : WF hash eq t ch fr) (k : K) (b : Nat)
    (hbm : (b : Int) = hash k % (t.buckets.length : Int))
    (hf : (ch b).find? (matchP eq t (hash k) k) = none) : ∀ j, ¬ Holds eq t k j := by
  intro j hj
  obtain ⟨hocc, kj, hkj, hej⟩ := hj
  have hh := wf.hashOk j kj hocc hkj
  rw [law.hash_eq _ _ hej] at hh
  have hmem := wf.complete j _ hocc hh
  have hb' : (hash k % (t.buckets.length : Int)).toNat = b := by omega
  rw [hb'] at hmem
  have := List.find?_eq_none.mp hf j hmem
  simp [matchP, hh, hkj, hej] at this

/-- `try_get` answers the value of the slot holding the key, `none` when no slot holds it -/
theorem tryGet_spec (law : Lawful hash eq) (wf : WF hash eq t ch fr) (k : K) :
    ∃ r, tryGet hash eq t k = .ok r ∧ ∀ v, r = some v ↔ ∃ i, Holds eq t k i ∧ t.values[i]? = some v := by
  unfold tryGet
  by_cases hm : t.buckets.length = 0
  · refine ⟨none, by simp [hm], ?_⟩
    intro v
    constructor
    · intro h; cases h
    · rintro ⟨i, ⟨hocc, _⟩, _⟩
      exact absurd hocc (wf.noBuckets hm i)
  · simp only [hm, if_false]
    obtain ⟨b, hbi, hb, hbm⟩ := bucketIdx_range (hash k) t.buckets.length hm
    obtain ⟨s, hs, hch⟩ := wf.chain b hb
    simp only [hbi, getI_nat _ b s hs]
    rw [findLoop_chain eq t (hash k) k wf.lenH wf.lenN (ch b) s _ hch (wf.chain_len b hb)]
    cases hf : (ch b).find? (matchP eq t (hash k) k) with
    | none =>
      refine ⟨none, by simp, ?_⟩
      intro v
      constructor
      · intro h; cases h
      · rintro ⟨i, hi, _⟩
        exact absurd hi (wf.find_none law k b hbm hf i)
    | some i =>
      have hi := wf.find_some law k b hb i hf
      have hlt : i < t.values.length := by rw [wf.lenV]; exact hi.lt
      refine ⟨some t.values[i], ?_, ?_⟩
      · simp only [Option.map_some, Int.ofNat_eq_natCast]
        rw [getI_nat _ i _ (List.getElem?_eq_getElem hlt)]
      · intro v
        constructor
        · intro h
          cases h
          exact ⟨i, hi, List.getElem?_eq_getElem hlt⟩
        · rintro ⟨j, hj, hv⟩
          have := Holds.unique law wf hj hi
          subst this
          rw [List.getElem?_eq_getElem hlt] at hv
          exact hv

end lookup

/-- the empty table satisfies the invariant and represents the empty dictionary -/
theorem new_models (hash : K → Int) (eq : K → K → Bool) : Models hash eq (Table.new : Table K V) (fun _ => none) := by
  refine ⟨⟨fun _ => [], [], ?_⟩, ?_⟩
  · refine ⟨rfl, rfl, rfl, rfl, ?_, ?_, ?_, ?_, ?_, ?_, ?_, ?_, ?_, ?_, ?_⟩
    · intro _ i; simp [Table.new]
    · intro b hb; simp [Table.new] at hb
    · intro b hb; simp [Table.new] at hb
    · intro b hb; simp [Table.new] at hb
    · intro i h ho; simp [Table.new] at ho
    · intro i k ho; simp [Table.new] at ho
    · intro i j ki kj ho; simp [Table.new] at ho
    · exact Chain.nil
    · exact List.nodup_nil
    · intro i; simp [Table.new]
    · simp [Table.new]
  · intro k v
    constructor
    · intro h; cases h
    · rintro ⟨i, ⟨ho, _⟩, _⟩; simp [Table.new] at ho

end Abra.Lib.HashMap
