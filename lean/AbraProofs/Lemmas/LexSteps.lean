import AbraProofs.Lemmas.Lex
/-! Stepping lemmas for `tokenizeAux`: fuel irrelevance, unfolding by one `lexOne` step. -/
namespace Abra.Lex

/-- characters consumed by one step (at least one) -/
def stepLen (cs : List Char) : Nat := max (lexOne cs).len 1

/-- diagnostics of one step at position `pos` -/
def stepErrs (pos : Nat) (cs : List Char) : List LexError :=
  (if (lexOne cs).unrecognized then [LexError.unrecognized pos] else []) ++
    (lexOne cs).badEscapes.map (fun (lo, hi) => LexError.badEscape (pos + lo) (pos + hi))

theorem tokenizeAux_cons (f pos : Nat) (c : Char) (rest : List Char) :
    tokenizeAux (f + 1) pos (c :: rest) =
      match (lexOne (c :: rest)).tok with
      | some k =>
        (⟨k, pos, pos + stepLen (c :: rest)⟩ ::
            (tokenizeAux f (pos + stepLen (c :: rest)) ((c :: rest).drop (stepLen (c :: rest)))).1,
          stepErrs pos (c :: rest) ++
            (tokenizeAux f (pos + stepLen (c :: rest)) ((c :: rest).drop (stepLen (c :: rest)))).2)
      | none =>
        ((tokenizeAux f (pos + stepLen (c :: rest)) ((c :: rest).drop (stepLen (c :: rest)))).1,
          stepErrs pos (c :: rest) ++
            (tokenizeAux f (pos + stepLen (c :: rest)) ((c :: rest).drop (stepLen (c :: rest)))).2) := by
  rw [tokenizeAux]
  simp only [stepLen, stepErrs]
  cases h : (lexOne (c :: rest)).tok <;> simp [List.append_assoc]

theorem tokenizeAux_nil (f pos : Nat) : tokenizeAux (f + 1) pos [] = ([⟨.eof, pos, pos + 1⟩], []) := by
  rw [tokenizeAux]

/-- any fuel above the input length gives the same answer -/
theorem tokenizeAux_fuel : ∀ (f g pos : Nat) (cs : List Char), cs.length < f → cs.length < g →
    tokenizeAux f pos cs = tokenizeAux g pos cs := by
  intro f
  induction f with
  | zero => intro g pos cs h; omega
  | succ f ih =>
    intro g pos cs hf hg
    cases g with
    | zero => omega
    | succ g =>
      cases cs with
      | nil => rw [tokenizeAux_nil, tokenizeAux_nil]
      | cons c rest =>
        rw [tokenizeAux_cons, tokenizeAux_cons]
        have hlen : ((c :: rest).drop (stepLen (c :: rest))).length < (c :: rest).length := by
          simp only [List.length_drop, List.length_cons, stepLen]; omega
        rw [ih g _ _ (by omega) (by omega)]

/-- token kinds from a given remaining input (positions do not matter for kinds) -/
def kindsFrom (cs : List Char) : List TokenKind := (tokenizeAux (cs.length + 1) 0 cs).1.map (·.kind)

theorem kinds_pos_irrelevant : ∀ (f pos pos' : Nat) (cs : List Char),
    (tokenizeAux f pos cs).1.map (·.kind) = (tokenizeAux f pos' cs).1.map (·.kind) := by
  intro f
  induction f with
  | zero => intro pos pos' cs; simp [tokenizeAux]
  | succ f ih =>
    intro pos pos' cs
    cases cs with
    | nil => simp [tokenizeAux_nil]
    | cons c rest =>
      rw [tokenizeAux_cons, tokenizeAux_cons]
      have := ih (pos + stepLen (c :: rest)) (pos' + stepLen (c :: rest))
        ((c :: rest).drop (stepLen (c :: rest)))
      cases h : (lexOne (c :: rest)).tok <;> simp [this]

theorem kindsFrom_nil : kindsFrom [] = [.eof] := by simp [kindsFrom, tokenizeAux_nil]

/-- one step of the lexer, on kinds -/
theorem kindsFrom_cons (c : Char) (rest : List Char) :
    kindsFrom (c :: rest) =
      (match (lexOne (c :: rest)).tok with | some k => [k] | none => []) ++
        kindsFrom ((c :: rest).drop (stepLen (c :: rest))) := by
  have hlen : ((c :: rest).drop (stepLen (c :: rest))).length < rest.length + 1 := by
    simp only [List.length_drop, List.length_cons, stepLen]; omega
  unfold kindsFrom
  rw [List.length_cons, tokenizeAux_cons]
  generalize (c :: rest).drop (stepLen (c :: rest)) = D at hlen ⊢
  have hf := tokenizeAux_fuel (rest.length + 1) (D.length + 1) (0 + stepLen (c :: rest)) D hlen
    (Nat.lt_succ_self _)
  have hp := kinds_pos_irrelevant (D.length + 1) (0 + stepLen (c :: rest)) 0 D
  rw [hf]
  cases h : (lexOne (c :: rest)).tok with
  | none => simp only [List.nil_append]; exact hp
  | some k => simp only [List.map_cons, List.singleton_append]; rw [hp]

theorem kinds_eq_kindsFrom (src : List Char) (h : shebangLen src = 0) : kinds src = kindsFrom src := by
  simp [kinds, tokenize, h, kindsFrom]

/-- a step that emits nothing and consumes `n ≥ 1` characters is invisible in the kind stream -/
theorem kindsFrom_skip (cs : List Char) (n : Nat) (hne : cs ≠ []) (h : lexOne cs = skip n) (hn : 1 ≤ n) :
    kindsFrom cs = kindsFrom (cs.drop n) := by
  cases cs with
  | nil => exact absurd rfl hne
  | cons c rest =>
    rw [kindsFrom_cons, stepLen, h]
    simp only [skip, List.nil_append]
    rw [Nat.max_eq_left hn]

end Abra.Lex
