import AbraProofs.Lemmas.Lex
/-! Stepping lemmas for `tokenizeAux`: fuel irrelevance, unfolding by one `lexOne` step. -/
namespace Abra.Lex

/-- characters consumed by one step (at least one) -/
def stepLen (cs : List Char) : Nat := max (lexOne cs).len 1

/-- diagnostics of one step at position `pos` -/
def stepErrs (pos : Nat) (cs : List Char) : List LexError :=
  (if (lexOne cs).unrecognized then [LexError.unrecognized pos (pos + 1)] else []) ++
    (lexOne cs).badEscapes.map (fun (lo, hi) => LexError.badEscape (pos + lo) (pos + hi))

theorem tokenizeAux_cons (f pos : Nat) (c : Char) (rest : List Char) :
    tokenizeAux (f + 1) pos (c :: rest) =
      match (lexOne (c :: rest)).tok with
      | some k =>
        (⟨k, pos, pos + stepLen (c :: rest)⟩ ::
            (tokenizeAux f (pos + stepLen (c :: rest)) ((c :: rest).drop (stepLen (c :: rest)))).1,
          stepErrs pos (c :: rest) ++
            (tokenizeAux f (pos + stepLen (c :: rest)) ((c :: rest).drop (stepLen (c :: rest)))).2)
      | none =>
        ((tokenizeAux f (pos + stepLen (c :: rest)) ((c :: rest).drop (stepLen (c :: rest)))).1,
          stepErrs pos (c :: rest) ++
            (tokenizeAux f (pos + stepLen (c :: rest)) ((c :: rest).drop (stepLen (c :: rest)))).2) := by
  rw [tokenizeAux]
  simp only [stepLen, stepErrs]
  cases h : (lexOne (c :: rest)).tok <;> simp [List.append_assoc]

theorem tokenizeAux_nil (f pos : Nat) : tokenizeAux (f + 1) pos [] = ([⟨.eof, pos, pos⟩], []) := by
  rw [tokenizeAux]

/-- any fuel above the input length gives the same answer -/
theorem tokenizeAux_fuel : ∀ (f g pos : Nat) (cs : List Char), cs.length < f → cs.length < g →
    tokenizeAux f pos cs = tokenizeAux g pos cs := by
  intro f
  induction f with
  | zero => intro g pos cs h; omega
  | succ f ih =>
    intro g pos cs hf hg
    cases g with
    | zero => omega
    | succ g =>
      cases cs with
      | nil => rw [tokenizeAux_nil, tokenizeAux_nil]
      | cons c rest =>
        rw [tokenizeAux_cons, tokenizeAux_cons]
        have hlen : ((c :: rest).drop (stepLen (c :: rest))).length < (c :: rest).length := by
          simp only [List.length_drop, List.length_cons, stepLen]; omega
        rw [ih g _ _ (by omega) (by omega)]

/-- token kinds from a given remaining input (positions do not matter for kinds) -/
def kindsFrom (cs : List Char) : List TokenKind := (tokenizeAux (cs.length + 1) 0 cs).1.map (·.kind)

theorem kinds_pos_irrelevant : ∀ (f pos pos' : Nat) (cs : List Char),
    (tokenizeAux f pos cs).1.map (·.kind) = (tokenizeAux f pos' cs).1.map (·.kind) := by
  intro f
  induction f with
  | zero => intro pos pos' cs; simp [tokenizeAux]
  | succ f ih =>
    intro pos pos' cs
    cases cs with
    | nil => simp [tokenizeAux_nil]
    | cons c rest =>
      rw [tokenizeAux_cons, tokenizeAux_cons]
      have := ih (pos + stepLen (c :: rest)) (pos' + stepLen (c :: rest))
        ((c :: rest).drop (stepLen (c :: rest)))
      cases h : (lexOne (c :: rest)).tok <;> simp [this]

theorem kindsFrom_nil : kindsFrom [] = [.eof] := by simp [kindsFrom, tokenizeAux_nil]

/-- one step of the lexer, on kinds -/
theorem kindsFrom_cons (c : Char) (rest : List Char) :
    kindsFrom (c :: rest) =
      (match (lexOne (c :: rest)).tok with | some k => [k] | none => []) ++
        kindsFrom ((c :: rest).drop (stepLen (c :: rest))) := by
  have hlen : ((c :: rest).drop (stepLen (c :: rest))).length < rest.length + 1 := by
    simp only [List.length_drop, List.length_cons, stepLen]; omega
  unfold kindsFrom
  rw [List.length_cons, tokenizeAux_cons]
  generalize (c :: rest).drop (stepLen (c :: rest)) = D at hlen ⊢
  have hf := tokenizeAux_fuel (rest.length + 1) (D.length + 1) (0 + stepLen (c :: rest)) D hlen
    (Nat.lt_succ_self _)
  have hp := kinds_pos_irrelevant (D.length + 1) (0 + stepLen (c :: rest)) 0 D
  rw [hf]
  cases h : (lexOne (c :: rest)).tok with
  | none => simp only [List.nil_append]; exact hp
  | some k => simp only [List.map_cons, List.singleton_append]; rw [hp]

theorem kinds_eq_kindsFrom (src : List Char) (h : shebangLen src = 0) : kinds src = kindsFrom src := by
  simp [kinds, tokenize, h, kindsFrom]

/-- a step that emits nothing and consumes `n ≥ 1` characters is invisible in the kind stream -/
theorem kindsFrom_skip (cs : List Char) (n : Nat) (hne : cs ≠ []) (h : lexOne cs = skip n) (hn : 1 ≤ n) :
    kindsFrom cs = kindsFrom (cs.drop n) := by
  cases cs with
  | nil => exact absurd rfl hne
  | cons c rest =>
    rw [kindsFrom_cons, stepLen, h]
    simp only [skip, List.nil_append]
    rw [Nat.max_eq_left hn]

-- ------------------------------------------------------------ a step never reads past the input

theorem lineCommentLen_le (cs : List Char) : lineCommentLen cs ≤ cs.length := by
  induction cs with
  | nil => simp [lineCommentLen]
  | cons c r ih => simp only [lineCommentLen, List.length_cons]; split <;> omega

theorem scanDelim_lt (q : Char) : ∀ (n : Nat) (cs : List Char), cs.length ≤ n → ∀ k, scanDelim [q] cs = some k → k < cs.length := by
  intro n
  induction n with
  | zero => intro cs h k hk; cases cs with
    | nil => simp [scanDelim] at hk
    | cons _ _ => simp at h
  | succ n ih =>
    intro cs h k hk
    cases cs with
    | nil => simp [scanDelim] at hk
    | cons c r =>
      rw [scanDelim.eq_def] at hk
      simp only at hk
      split at hk
      · cases r with
        | nil => simp at hk
        | cons c2 r2 =>
          simp only [Option.map_eq_some_iff] at hk
          obtain ⟨k', hk', rfl⟩ := hk
          have := ih r2 (by simp at h ⊢; omega) k' hk'
          simp; omega
      · split at hk
        · cases hk; simp
        · simp only [Option.map_eq_some_iff] at hk
          obtain ⟨k', hk', rfl⟩ := hk
          have := ih r (by simp at h ⊢; omega) k' hk'
          simp; omega

theorem takeWhile_len_le (p : Char → Bool) (cs : List Char) : (cs.takeWhile p).length ≤ cs.length := by
  induction cs with
  | nil => simp
  | cons c r ih => simp only [List.takeWhile]; split <;> simp <;> omega

theorem lexNum_len_le (cs : List Char) : (lexNum cs).2 ≤ cs.length := by
  unfold lexNum
  simp only
  have h1 := takeWhile_len_le isNumChar cs
  split
  · rename_i rest' heq
    have h2 := takeWhile_len_le isNumChar rest'
    have : (cs.drop (cs.takeWhile isNumChar).length).length = rest'.length + 1 := by rw [heq]; simp
    simp only [List.length_drop] at this
    simp only; omega
  · simp only; omega


theorem startsTriple_len {cs : List Char} (h : startsTriple cs = true) : 3 ≤ cs.length := by
  unfold startsTriple at h
  split at h
  · simp
  · cases h

theorem lexQuoted_len_le (q : Char) (rest : List Char) : (lexQuoted q rest).2.1 ≤ rest.length + 1 := by
  unfold lexQuoted
  split
  · rename_i k hk
    have := scanDelim_lt q rest.length rest (Nat.le_refl _) k hk
    simp only; omega
  · simp only; omega

theorem lexTriple_len_le (afterOpen : List Char) : (lexTriple afterOpen).2.1 ≤ afterOpen.length := by
  unfold lexTriple
  simp only
  omega

theorem lexOne_len_le (c : Char) (rest : List Char) : (lexOne (c :: rest)).len ≤ rest.length + 1 := by
  rw [lexOne]
  by_cases hid : isIdentStart c = true
  · simp only [hid, if_true]
    have := takeWhile_len_le isIdentMid rest
    split
    · simp [punct]
    · split
      · simp only [punct, List.length_cons]; omega
      · split <;> (simp only [punct, List.length_cons]; omega)
  · simp only [hid, Bool.false_eq_true, if_false]
    by_cases hd : isDigit c = true
    · simp only [hd, if_true]
      have := lexNum_len_le (c :: rest)
      simp only [punct, List.length_cons] at this ⊢
      exact this
    · simp only [hd, Bool.false_eq_true, if_false]
      have hq := lexQuoted_len_le '"' rest
      have hs := lexQuoted_len_le '\'' rest
      have ht : (lexTriple (rest.drop 2)).2.1 ≤ rest.length - 2 := by
        have := lexTriple_len_le (rest.drop 2); simpa using this
      have hl := lineCommentLen_le rest
      have hdl : (rest.drop 2).length = rest.length - 2 := by simp
      have hnext : ∀ x, rest.head? = some x → 1 ≤ rest.length := by
        intro x hx; cases rest <;> simp at hx ⊢
      split
      all_goals (try (simp only [punct, skip]; omega))
      all_goals (try (split <;> simp only [punct, skip] <;> first | omega | (have := hnext _ ‹_›; omega)))
      · -- `-`
        split
        · rename_i h; have := hnext _ h; simp only [punct]; omega
        · split
          · rename_i h; have := hnext _ h; simp only [punct]; omega
          · simp only [punct]; omega
      · -- `"`
        split
        · rename_i h
          have := startsTriple_len h
          simp only [List.length_cons] at this
          show (lexTriple (rest.drop 2)).2.1 + 3 ≤ rest.length + 1
          omega
        · simp only; omega
      · -- `/`
        split
        · simp only [skip]; omega
        · split
          · simp only [skip]; omega
          · split
            · rename_i h; have := hnext _ h; simp only [punct]; omega
            · simp only [punct]; omega

theorem stepLen_le (c : Char) (rest : List Char) : stepLen (c :: rest) ≤ (c :: rest).length := by
  have := lexOne_len_le c rest
  simp only [stepLen, List.length_cons]; omega

theorem stepLen_pos (cs : List Char) : 1 ≤ stepLen cs := by simp only [stepLen]; omega

end Abra.Lex
