import AbraModel.Mono
/-! Helper lemmas for C22: substitution instances, consistency of the monomorphisation environment. -/
namespace Abra.Mono

mutual
/-- applying a total substitution `σ` to a type: the specification of "instance" -/
def applySubst (σ : Nat → Ty) : Ty → Ty
  | .func args out => .func (applySubstList σ args) (applySubst σ out)
  | .nominal n ps => .nominal n (applySubstList σ ps)
  | .poly p => σ p
  | .tuple es => .tuple (applySubstList σ es)
  | t => t

def applySubstList (σ : Nat → Ty) : List Ty → List Ty
  | [] => []
  | t :: ts => applySubst σ t :: applySubstList σ ts
end

mutual
/-- the type variables occurring in a type -/
def polys : Ty → List Nat
  | .func args out => polysList args ++ polys out
  | .nominal _ ps => polysList ps
  | .poly p => [p]
  | .tuple es => polysList es
  | _ => []

def polysList : List Ty → List Nat
  | [] => []
  | t :: ts => polys t ++ polysList ts
end

/-- every binding of the environment agrees with `σ` -/
def Consistent (env : Env) (σ : Nat → Ty) : Prop := ∀ p t, env.lookup p = some t → t = σ p

theorem lookup_extend (env : Env) (p : Nat) (t : Ty) (q : Nat) :
    (env.extend p t).lookup q = if p = q then some t else env.lookup q := rfl

theorem consistent_extend (env : Env) (σ : Nat → Ty) (h : Consistent env σ) (p : Nat) :
    Consistent (env.extend p (σ p)) σ := by
  intro q t hq
  rw [lookup_extend] at hq
  split at hq
  · rename_i hpq; cases hq; rw [hpq]
  · exact h q t hq

/-- what `update` guarantees, given an environment that agrees with `σ`:
    it still agrees, keeps every old binding, and binds every variable of the signature -/
structure UpdOk (env env' : Env) (σ : Nat → Ty) (ps : List Nat) : Prop where
  cons : Consistent env' σ
  mono : ∀ p t, env.lookup p = some t → env'.lookup p = some t
  bound : ∀ p ∈ ps, env'.lookup p = some (σ p)

theorem UpdOk.refl (env : Env) (σ : Nat → Ty) (h : Consistent env σ) : UpdOk env env σ [] :=
  ⟨h, fun _ _ h => h, fun _ hp => by cases hp⟩

theorem UpdOk.trans {e1 e2 e3 : Env} {σ : Nat → Ty} {p1 p2 : List Nat}
    (a : UpdOk e1 e2 σ p1) (b : UpdOk e2 e3 σ p2) : UpdOk e1 e3 σ (p1 ++ p2) :=
  ⟨b.cons, fun p t h => b.mono p t (a.mono p t h), fun p hp => by
    rcases List.mem_append.1 hp with hp | hp
    · exact b.mono p _ (a.bound p hp)
    · exact b.bound p hp⟩

mutual
theorem update_ok (σ : Nat → Ty) (env : Env) (h : Consistent env σ) :
    (s : Ty) → UpdOk env (update env s (applySubst σ s)) σ (polys s)
  | .func args out => by
    simp only [applySubst, update, polys]
    have a := updateList_ok σ env h args
    exact a.trans (update_ok σ _ a.cons out)
  | .nominal n ps => by
    simp only [applySubst, update, polys]
    exact updateList_ok σ env h ps
  | .poly p => by
    simp only [applySubst, update, polys]
    refine ⟨consistent_extend env σ h p, ?_, ?_⟩
    · intro q t hq
      rw [lookup_extend]
      split
      · rename_i hpq; subst hpq; rw [h p t hq]
      · exact hq
    · intro q hq
      simp at hq; subst hq
      simp [lookup_extend]
  | .tuple es => by
    simp only [applySubst, update, polys]
    exact updateList_ok σ env h es
  | .int => by simp only [applySubst, update, polys]; exact UpdOk.refl env σ h
  | .float => by simp only [applySubst, update, polys]; exact UpdOk.refl env σ h
  | .bool => by simp only [applySubst, update, polys]; exact UpdOk.refl env σ h
  | .string => by simp only [applySubst, update, polys]; exact UpdOk.refl env σ h
  | .void => by simp only [applySubst, update, polys]; exact UpdOk.refl env σ h

theorem updateList_ok (σ : Nat → Ty) (env : Env) (h : Consistent env σ) :
    (ss : List Ty) → UpdOk env (updateList env ss (applySubstList σ ss)) σ (polysList ss)
  | [] => by simp only [applySubstList, updateList, polysList]; exact UpdOk.refl env σ h
  | s :: ss => by
    simp only [applySubstList, updateList, polysList]
    have a := update_ok σ env h s
    exact a.trans (updateList_ok σ _ a.cons ss)
end

mutual
theorem subst_eq_applySubst (σ : Nat → Ty) (env : Env) :
    (s : Ty) → (∀ p ∈ polys s, env.lookup p = some (σ p)) → subst env s = applySubst σ s
  | .func args out, h => by
    simp only [subst, applySubst, polys] at h ⊢
    rw [substList_eq_applySubstList σ env args (fun p hp => h p (List.mem_append.2 (Or.inl hp))),
        subst_eq_applySubst σ env out (fun p hp => h p (List.mem_append.2 (Or.inr hp)))]
  | .nominal n ps, h => by
    simp only [subst, applySubst, polys] at h ⊢
    rw [substList_eq_applySubstList σ env ps h]
  | .poly p, h => by
    simp only [subst, applySubst, polys] at h ⊢
    rw [h p (by simp)]
  | .tuple es, h => by
    simp only [subst, applySubst, polys] at h ⊢
    rw [substList_eq_applySubstList σ env es h]
  | .int, _ => rfl
  | .float, _ => rfl
  | .bool, _ => rfl
  | .string, _ => rfl
  | .void, _ => rfl

theorem substList_eq_applySubstList (σ : Nat → Ty) (env : Env) :
    (ss : List Ty) → (∀ p ∈ polysList ss, env.lookup p = some (σ p)) →
      substList env ss = applySubstList σ ss
  | [], _ => rfl
  | s :: ss, h => by
    simp only [substList, applySubstList, polysList] at h ⊢
    rw [subst_eq_applySubst σ env s (fun p hp => h p (List.mem_append.2 (Or.inl hp))),
        substList_eq_applySubstList σ env ss (fun p hp => h p (List.mem_append.2 (Or.inr hp)))]
end

/-! ### the monotype rendering is a prefix code -/

mutual
theorem codeBy_prefix (short : Nat → Nat) (hinj : ∀ a b, short a = short b → a = b) :
    (t t' : Ty) → (r r' : List Nat) → Ty.codeBy short t ++ r = Ty.codeBy short t' ++ r' → t = t' ∧ r = r'
  | .int, t', r, r', h => by cases t' <;> simp_all [Ty.codeBy]
  | .float, t', r, r', h => by cases t' <;> simp_all [Ty.codeBy]
  | .bool, t', r, r', h => by cases t' <;> simp_all [Ty.codeBy]
  | .string, t', r, r', h => by cases t' <;> simp_all [Ty.codeBy]
  | .void, t', r, r', h => by cases t' <;> simp_all [Ty.codeBy]
  | .poly p, t', r, r', h => by cases t' <;> simp_all [Ty.codeBy]
  | .nominal n ps, t', r, r', h => by
    cases t' with
    | nominal n' ps' =>
      simp only [Ty.codeBy, List.cons_append, List.cons.injEq] at h
      obtain ⟨_, hn, hl, hrest⟩ := h
      have := hinj _ _ hn
      subst this
      obtain ⟨hp, hr⟩ := codeListBy_prefix short hinj ps ps' r r' hl hrest
      exact ⟨by rw [hp], hr⟩
    | _ => simp [Ty.codeBy] at h
  | .func args out, t', r, r', h => by
    cases t' with
    | func args' out' =>
      simp only [Ty.codeBy, List.cons_append, List.cons.injEq, List.append_assoc] at h
      obtain ⟨_, hl, hrest⟩ := h
      obtain ⟨ha, hr1⟩ := codeListBy_prefix short hinj args args' _ _ hl hrest
      obtain ⟨ho, hr⟩ := codeBy_prefix short hinj out out' r r' hr1
      exact ⟨by rw [ha, ho], hr⟩
    | _ => simp [Ty.codeBy] at h
  | .tuple es, t', r, r', h => by
    cases t' with
    | tuple es' =>
      simp only [Ty.codeBy, List.cons_append, List.cons.injEq] at h
      obtain ⟨_, hl, hrest⟩ := h
      obtain ⟨he, hr⟩ := codeListBy_prefix short hinj es es' r r' hl hrest
      exact ⟨by rw [he], hr⟩
    | _ => simp [Ty.codeBy] at h

theorem codeListBy_prefix (short : Nat → Nat) (hinj : ∀ a b, short a = short b → a = b) :
    (ts ts' : List Ty) → (r r' : List Nat) → ts.length = ts'.length →
      Ty.codeListBy short ts ++ r = Ty.codeListBy short ts' ++ r' → ts = ts' ∧ r = r'
  | [], [], r, r', _, h => by simpa [Ty.codeListBy] using h
  | [], _ :: _, _, _, hl, _ => by simp at hl
  | _ :: _, [], _, _, hl, _ => by simp at hl
  | t :: ts, t' :: ts', r, r', hl, h => by
    simp only [Ty.codeListBy, List.append_assoc] at h
    obtain ⟨ht, hr1⟩ := codeBy_prefix short hinj t t' _ _ h
    obtain ⟨hts, hr⟩ := codeListBy_prefix short hinj ts ts' r r' (by simpa using hl) hr1
    exact ⟨by rw [ht, hts], hr⟩
end

theorem code_injective (t t' : Ty) (h : t.code = t'.code) : t = t' := by
  have := codeBy_prefix id (fun _ _ h => h) t t' [] [] (by simpa [Ty.code] using h)
  exact this.1

end Abra.Mono
