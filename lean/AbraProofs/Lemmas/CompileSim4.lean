import AbraProofs.Lemmas.CompileSim3
/-!
Part 5 of the simulation: the three statements and the expression step.
-/
namespace Abra.Compile
open Abra.Sem Abra.VM

def SimE (W : World) (Pg : Prog) (n : Nat) : Prop :=
  ∀ (e : Expr) (st : St) (Γ : TEnv) (next : Nat) (code : Code) (τ : Ty) (n' : Nat) (lc : Nat × Nat) (d pos : Nat)
    (L T : List VM.Val),
    compE Γ next d e = some (code, τ, n') → d ≤ T.length →
    codeAt W.P pos (resolveAt pos lc code) → EnvRel L Γ st.env → WfΓ Γ next → n' ≤ L.length →
    Out W lc d pos (pos + code.length) L T st.out (fun v => pushed v τ)
      (fun L' ρ => EnvRel L' Γ ρ) (fun L' ρ => EnvRel L' Γ ρ) (fun v => HasTy v τ) (evalE n Pg st e)

def SimS (W : World) (Pg : Prog) (n : Nat) : Prop :=
  ∀ (s : Stmt) (st : St) (Γ : TEnv) (next : Nat) (il : Bool) (code : Code) (τ : Ty) (Γ' : TEnv) (n' : Nat)
    (lc : Nat × Nat) (d pos : Nat) (L T : List VM.Val),
    compS Γ next d il s = some (code, τ, Γ', n') → d ≤ T.length →
    codeAt W.P pos (resolveAt pos lc code) → EnvRel L Γ st.env → WfΓ Γ next → n' ≤ L.length →
    Out W lc d pos (pos + code.length) L T st.out (fun v => if il then pushed v τ else [])
      (fun L' ρ => EnvRel L' Γ' ρ) (fun L' ρ => EnvRel L' Γ ρ) (fun v => il = true → HasTy v τ) (evalS n Pg st s)

def SimSs (W : World) (Pg : Prog) (n : Nat) : Prop :=
  ∀ (ss : Stmts) (st : St) (Γ : TEnv) (next : Nat) (blk : Bool) (code : Code) (τ : Ty) (n' : Nat)
    (lc : Nat × Nat) (d pos : Nat) (L T : List VM.Val),
    compSs Γ next d blk ss = some (code, τ, n') → d ≤ T.length →
    codeAt W.P pos (resolveAt pos lc code) → EnvRel L Γ st.env → WfΓ Γ next → n' ≤ L.length →
    Out W lc d pos (pos + code.length) L T st.out (fun v => if blk then pushed v τ else [])
      (fun L' ρ => EnvRel L' Γ (popEnv ρ st.env.length) ∧ st.env.length ≤ ρ.length)
      (fun L' ρ => EnvRel L' Γ (popEnv ρ st.env.length) ∧ st.env.length ≤ ρ.length)
      (fun v => blk = true → HasTy v τ) (evalSs n Pg st ss)

/-- a signal raised by the first stage of a fragment (same start, same pending operands) -/
theorem Out.sig_mono {W : World} {lc : Nat × Nat} {d pos e1 e2 : Nat} {L T : List VM.Val} {out0 : List String}
    {r1 r2 : Sem.Val → List VM.Val} {ok1 ok2 sg1 sg2 : List VM.Val → Env → Prop} {v1 v2 : Sem.Val → Prop}
    {g : Sig} {s' : St}
    (h : Out W lc d pos e1 L T out0 r1 ok1 sg1 v1 (.sig g s')) (hs : ∀ L' ρ, sg1 L' ρ → sg2 L' ρ) :
    Out W lc d pos e2 L T out0 r2 ok2 sg2 v2 (.sig g s') := by
  cases g with
  | err k => exact h
  | brk => obtain ⟨L', hst, he, hl⟩ := h; exact ⟨L', hst, hs _ _ he, hl⟩
  | cont => obtain ⟨L', hst, he, hl⟩ := h; exact ⟨L', hst, hs _ _ he, hl⟩
  | ret v => exact h

/-- a signal raised by a later stage, after `hst`; `hT`: what a `break`/`continue` of that stage leaves on the
    stack is what one of the whole fragment leaves (the operands this fragment pushed in between are counted in `d'`) -/
theorem Out.sig_after {W : World} {lc : Nat × Nat} {d d' pos0 pos e1 e2 : Nat} {L0 L T0 T : List VM.Val}
    {out0 out : List String}
    {r1 r2 : Sem.Val → List VM.Val} {ok1 ok2 sg1 sg2 : List VM.Val → Env → Prop} {v1 v2 : Sem.Val → Prop}
    {g : Sig} {s' : St}
    (hst : Steps W.P (W.cfg pos0 L0 T0 out0) (W.cfg pos L T out)) (hl0 : L.length = L0.length)
    (h : Out W lc d' pos e1 L T out r1 ok1 sg1 v1 (.sig g s')) (hs : ∀ L' ρ, sg1 L' ρ → sg2 L' ρ)
    (hT : dropPending T d' = dropPending T0 d) :
    Out W lc d pos0 e2 L0 T0 out0 r2 ok2 sg2 v2 (.sig g s') := by
  cases g with
  | err k =>
    obtain ⟨s1, s2, h1, h2, h3⟩ := h
    exact ⟨s1, s2, hst.trans h1, h2, h3⟩
  | brk =>
    obtain ⟨L', h1, he, hl⟩ := h
    rw [hT] at h1
    exact ⟨L', hst.trans h1, hs _ _ he, by omega⟩
  | cont =>
    obtain ⟨L', h1, he, hl⟩ := h
    rw [hT] at h1
    exact ⟨L', hst.trans h1, hs _ _ he, by omega⟩
  | ret v => exact h

theorem pushed_unit (v : Sem.Val) : pushed v .unit = [] := rfl

theorem pushed_of_hasTy {v : Sem.Val} {t : Ty} (h : HasTy v t) (hne : t ≠ .unit) : pushed v t = [encV v] := by
  cases h <;> first | rfl | exact absurd rfl hne


theorem Out.popTo {W : World} {lc : Nat × Nat} {d pos e : Nat} {L T : List VM.Val} {out0 : List String}
    {res : Sem.Val → List VM.Val} {okP sgP : List VM.Val → Env → Prop} {vP : Sem.Val → Prop} {len : Nat}
    {r : Res Sem.Val}
    (h : Out W lc d pos e L T out0 res (fun L' ρ => okP L' (popEnv ρ len)) (fun L' ρ => sgP L' (popEnv ρ len)) vP r) :
    Out W lc d pos e L T out0 res okP sgP vP (r.popTo len) := by
  cases r with
  | ok v s => exact h
  | sig g s => cases g <;> exact h
  | timeout => trivial
  | stuck w => trivial

theorem resolveAt_single (pos : Nat) (lc : Nat × Nat) (i : Instr Target) :
    resolveAt pos lc [i] = [mapT (resolveT pos lc) i] := rfl

theorem resolveT_rel (pos : Nat) (lc : Nat × Nat) (k : Nat) : resolveT pos lc (.rel (k : Int)) = pos + 1 + k := by
  simp only [resolveT]; omega



theorem strictOp_ne_unit {op : BinOp} {ta tb : Ty} {r : Code × Ty} (h : strictOp op ta tb = some r) :
    ta ≠ .unit ∧ tb ≠ .unit := by
  cases ta <;> cases tb <;> cases op <;> simp [strictOp] at h <;> exact ⟨by decide, by decide⟩

theorem compE_bin_strict (op : BinOp) (h1 : op ≠ .and) (h2 : op ≠ .or) (a b : Expr) (Γ : TEnv) (next d : Nat)
    (code : Code) (τ : Ty) (n' : Nat) (h : compE Γ next d (.bin op a b) = some (code, τ, n')) :
    ∃ ca ta n1 cb tb is, compE Γ next d a = some (ca, ta, n1) ∧ compE Γ n1 (d + 1) b = some (cb, tb, n') ∧
      strictOp op ta tb = some (is, τ) ∧ code = ca ++ cb ++ is := by
  cases op <;> first
    | exact absurd rfl h1
    | exact absurd rfl h2
    | (simp only [compE] at h
       split at h
       · simp at h
       · rename_i ca ta n1 heq1
         split at h
         · simp at h
         · rename_i cb tb n2 heq2
           split at h
           · rename_i is t heq3
             simp only [Option.some.injEq, Prod.mk.injEq] at h
             obtain ⟨rfl, rfl, rfl⟩ := h
             exact ⟨ca, ta, n1, cb, tb, is, heq1, heq2, heq3, rfl⟩
           · simp at h)

theorem evalE_bin_strict (Pg : Prog) (n : Nat) (op : BinOp) (h1 : op ≠ .and) (h2 : op ≠ .or) (a b : Expr) (st : St) :
    evalE (n + 1) Pg st (.bin op a b) =
      (evalE n Pg st a).bind fun va s1 => (evalE n Pg s1 b).bind fun vb s2 => binop n op va vb s2 := by
  cases op <;> first | exact absurd rfl h1 | exact absurd rfl h2 | (simp only [evalE])

theorem simE_bin_strict {W : World} {Pg : Prog} {n : Nat} (hE : SimE W Pg n) (op : BinOp) (a b : Expr)
    (h1 : op ≠ .and) (h2 : op ≠ .or)
    (st : St) (Γ : TEnv) (next : Nat) (code : Code) (t : Ty) (n2 : Nat) (lc : Nat × Nat) (d pos : Nat)
    (L T : List VM.Val)
    (hc : compE Γ next d (.bin op a b) = some (code, t, n2)) (hd : d ≤ T.length)
    (hcode : codeAt W.P pos (resolveAt pos lc code)) (henv : EnvRel L Γ st.env) (hwf : WfΓ Γ next)
    (hlen : n2 ≤ L.length) :
    Out W lc d pos (pos + code.length) L T st.out (fun v => pushed v t)
      (fun L' ρ => EnvRel L' Γ ρ) (fun L' ρ => EnvRel L' Γ ρ) (fun v => HasTy v t)
      (evalE (n + 1) Pg st (.bin op a b)) := by
  obtain ⟨ca, ta, n1, cb, tb, is, heq1, heq2, heq3, rfl⟩ := compE_bin_strict op h1 h2 a b Γ next d code t n2 hc
  obtain ⟨hne1, _⟩ := strictOp_ne_unit heq3
  have heval := evalE_bin_strict Pg n op h1 h2 a b
  have goal : Out W lc d pos (pos + (ca ++ cb ++ is).length) L T st.out (fun v => pushed v t)
      (fun L' ρ => EnvRel L' Γ ρ) (fun L' ρ => EnvRel L' Γ ρ) (fun v => HasTy v t)
      (evalE (n + 1) Pg st (.bin op a b)) := by
    have hm1 := compE_mono a _ _ _ _ _ _ heq1
    have hm2 := compE_mono b _ _ _ _ _ _ heq2
    simp only [resolveAt_append] at hcode
    have hca := codeAt_append_left (codeAt_append_left hcode)
    have hcb := codeAt_append_right (codeAt_append_left hcode)
    have his := codeAt_append_right hcode
    simp only [resolveAt_length, List.length_append] at hcb his
    have iha := hE a st Γ next ca ta n1 lc d pos L T heq1 hd hca henv hwf (by omega)
    rw [heval]
    cases hra : evalE n Pg st a with
    | ok va s1 =>
      rw [hra] at iha
      obtain ⟨L1, hst1, henv1, hl1, hty1⟩ := iha
      simp only [Res.bind]
      dsimp only at hst1
      rw [pushed_of_hasTy hty1 hne1] at hst1
      have ihb := hE b s1 Γ n1 cb tb n2 lc (d + 1) (pos + ca.length) L1 (T ++ [encV va]) heq2
        (by simp only [List.length_append, List.length_cons, List.length_nil]; omega) hcb henv1
        (hwf.mono hm1) (by omega)
      cases hrb : evalE n Pg s1 b with
      | ok vb s2 =>
        rw [hrb] at ihb
        obtain ⟨L2, hst2, henv2, hl2, hty2⟩ := ihb
        obtain ⟨m, rfl⟩ := fuel_pos_of_ok hrb
        simp only [Res.bind]
        obtain ⟨hpa, hpb, hres⟩ :=
          strictOp_sound W heq3 hty1 hty2 m s2 lc (pos + (ca.length + cb.length)) his L2 T
        dsimp only at hst2
        rw [hpb] at hst2
        have e2 : (T ++ [encV va]) ++ [encV vb] = T ++ [encV va, encV vb] := by simp
        rw [e2] at hst2
        have hpos : pos + ca.length + cb.length = pos + (ca.length + cb.length) := by omega
        rw [hpos] at hst2
        cases hbin : binop (m + 1) op va vb s2 with
        | ok v s3 =>
          rw [hbin] at hres
          obtain ⟨rfl, hty3, hp3, hst3⟩ := hres
          refine ⟨L2, ?_, henv2, by omega, hty3⟩
          dsimp only
          rw [hp3]
          have : pos + (ca ++ cb ++ is).length = pos + (ca.length + cb.length) + is.length := by
            simp only [List.length_append]; omega
          rw [this]
          exact (hst1.trans hst2).trans hst3
        | sig g s3 =>
          rw [hbin] at hres
          cases g with
          | err k =>
            obtain ⟨rfl, x1, x2, hx1, hx2, hx3⟩ := hres
            exact ⟨x1, x2, (hst1.trans hst2).trans hx1, hx2, hx3⟩
          | brk => exact hres.elim
          | cont => exact hres.elim
          | ret v => exact hres.elim
        | timeout => rw [hbin] at hres; exact hres.elim
        | stuck w => rw [hbin] at hres; exact hres.elim
      | sig g s' =>
        rw [hrb] at ihb
        simp only [Res.bind]
        exact Out.sig_after hst1 hl1 ihb (fun _ _ h => h) (dropPending_snoc T _ d)
      | timeout => trivial
      | stuck w => trivial
    | sig g s' =>
      rw [hra] at iha
      simp only [Res.bind]
      exact iha.sig_mono (fun _ _ h => h)
    | timeout => trivial
    | stuck w => trivial
  exact goal

theorem simE_succ {W : World} {Pg : Prog} {n : Nat} (hE : SimE W Pg n) (hSs : SimSs W Pg n) : SimE W Pg (n + 1) := by
  intro e st Γ next code τ n' lc d pos L T hc hd hcode henv hwf hlen
  cases e with
  | int k =>
    simp only [compE, Option.some.injEq, Prod.mk.injEq] at hc
    obtain ⟨rfl, rfl, rfl⟩ := hc
    simp only [evalE]
    exact ⟨L, .single (step_pushInt W (codeAt_head hcode) L T st.out), henv, rfl, .int k⟩
  | bool b =>
    simp only [compE, Option.some.injEq, Prod.mk.injEq] at hc
    obtain ⟨rfl, rfl, rfl⟩ := hc
    simp only [evalE]
    exact ⟨L, .single (step_pushBool W (codeAt_head hcode) L T st.out), henv, rfl, .bool b⟩
  | unit =>
    simp only [compE, Option.some.injEq, Prod.mk.injEq] at hc
    obtain ⟨rfl, rfl, rfl⟩ := hc
    simp only [evalE]
    refine ⟨L, ?_, henv, rfl, .unit⟩
    simp only [pushed, List.append_nil, List.length_nil, Nat.add_zero]
    exact .refl _
  | var x =>
    simp only [compE] at hc
    split at hc
    · -- a void variable: no such binding in F0 environments
      rename_i s heq
      obtain ⟨v, _, _, hne, _⟩ := henv.lookup heq
      exact absurd rfl hne
    · rename_i s t hnu heq
      simp only [Option.some.injEq, Prod.mk.injEq] at hc
      obtain ⟨rfl, rfl, rfl⟩ := hc
      obtain ⟨v, hlk, hty, hne, hL⟩ := henv.lookup heq
      simp only [evalE, hlk]
      refine ⟨L, ?_, henv, rfl, hty⟩
      dsimp only
      rw [pushed_of_hasTy hty hne]
      exact .single (step_load W (codeAt_head hcode) L T st.out hL)
    · simp at hc
  | un op a =>
    cases op with
    | neg =>
      simp only [compE] at hc
      split at hc
      · rename_i ca n1 heq
        simp only [Option.some.injEq, Prod.mk.injEq] at hc
        obtain ⟨rfl, rfl, rfl⟩ := hc
        simp only [resolveAt_append, List.cons_append, List.nil_append, resolveAt] at hcode
        have h0 : W.P[pos]? = some (.pushInt 0) := codeAt_head hcode
        have hca := codeAt_append_left (codeAt_tail hcode)
        have hop := codeAt_append_right (codeAt_tail hcode)
        simp only [resolveAt_length] at hop
        have ih := hE a st Γ next ca .int _ lc (d + 1) (pos + 1) L (T ++ [.int 0]) heq
          (by simp only [List.length_append, List.length_cons, List.length_nil]; omega) hca henv hwf hlen
        have st0 : Steps W.P (W.cfg pos L T st.out) (W.cfg (pos + 1) L (T ++ [.int 0]) st.out) :=
          .single (step_pushInt W h0 L T st.out)
        simp only [evalE]
        cases hra : evalE n Pg st a with
        | ok va s1 =>
          rw [hra] at ih
          obtain ⟨L1, hst1, henv1, hl1, hty1⟩ := ih
          cases hty1 with
          | int k =>
            simp only [Res.bind, unop]
            have hi : W.P[pos + 1 + ca.length]? = some (.intOp .sub .top .top .top) := codeAt_head hop
            have har := arith_sound W hi 0 k s1 L1 T
            have e1 : (T ++ [VM.Val.int 0]) ++ pushed (Sem.Val.int k) .int = T ++ [.int 0, .int k] := by
              simp [pushed, encV]
            rw [e1] at hst1
            have hneg : I64.neg k = I64.apply IntOp.sub.toI64 0 k := rfl
            rw [hneg]
            cases hv : I64.apply IntOp.sub.toI64 0 k with
            | val c =>
              simp only [hv, ofOut] at har ⊢
              obtain ⟨c', hc', _, hstep⟩ := har
              cases hc'
              refine ⟨L1, ?_, henv1, hl1, .int _⟩
              have : pos + ([Instr.pushInt 0] ++ ca ++ [Instr.intOp IntOp.sub Reg.top Reg.top Reg.top]).length
                  = pos + 1 + ca.length + 1 := by simp; omega
              rw [this]
              exact (st0.trans hst1).snoc hstep
            | overflow =>
              simp only [hv, ofOut] at har ⊢
              obtain ⟨_, s2, hstep⟩ := har
              exact ⟨_, s2, st0.trans hst1, hstep, rfl⟩
            | divZero =>
              simp only [hv, ofOut] at har ⊢
              obtain ⟨_, s2, hstep⟩ := har
              exact ⟨_, s2, st0.trans hst1, hstep, rfl⟩
        | sig g s' =>
          rw [hra] at ih
          simp only [Res.bind]
          exact Out.sig_after st0 rfl ih (fun _ _ h => h) (dropPending_snoc T _ d)
        | timeout => trivial
        | stuck w => trivial
      · simp at hc
    | not =>
      simp only [compE] at hc
      split at hc
      · rename_i ca n1 heq
        simp only [Option.some.injEq, Prod.mk.injEq] at hc
        obtain ⟨rfl, rfl, rfl⟩ := hc
        simp only [resolveAt_append, resolveAt] at hcode
        have hca := codeAt_append_left hcode
        have hop := codeAt_append_right hcode
        simp only [resolveAt_length] at hop
        have ih := hE a st Γ next ca .bool _ lc d pos L T heq hd hca henv hwf hlen
        simp only [evalE]
        cases hra : evalE n Pg st a with
        | ok va s1 =>
          rw [hra] at ih
          obtain ⟨L1, hst1, henv1, hl1, hty1⟩ := ih
          cases hty1 with
          | bool b =>
            simp only [Res.bind, unop]
            refine ⟨L1, ?_, henv1, hl1, .bool _⟩
            have : pos + (ca ++ [Instr.not Reg.top Reg.top]).length = pos + ca.length + 1 := by simp; omega
            rw [this]
            exact hst1.snoc (step_not W (codeAt_head hop) L1 T b s1.out)
        | sig g s' =>
          rw [hra] at ih
          simp only [Res.bind]
          exact ih.sig_mono (fun _ _ h => h)
        | timeout => trivial
        | stuck w => trivial
      · simp at hc
  | block ss =>
    simp only [compE] at hc
    have ih := hSs ss st Γ next true code τ n' lc d pos L T hc hd hcode henv hwf hlen
    simp only [evalE]
    apply Out.popTo
    cases hr : evalSs n Pg st ss with
    | ok v s1 =>
      rw [hr] at ih
      obtain ⟨L1, hst1, henv1, hl1, hty1⟩ := ih
      exact ⟨L1, by simpa using hst1, henv1.1, hl1, hty1 rfl⟩
    | sig g s1 =>
      rw [hr] at ih
      exact ih.sig_mono (fun _ _ h => h.1)
    | timeout => trivial
    | stuck w => trivial
  | print a =>
    have key : ∀ (ca : Code) (pt : PTy) (ta : Ty), compE Γ next d a = some (ca, ta, n') → ta ≠ .unit →
        (∀ v, HasTy v ta → ∃ txt, (∀ m h, render (m + 1) h v = some txt) ∧ renderVal pt (encV v) = .ok txt) →
        codeAt W.P pos (resolveAt pos lc (ca ++ [.print pt])) →
        Out W lc d pos (pos + (ca ++ [Instr.print pt]).length) L T st.out (fun v => pushed v .unit)
          (fun L' ρ => EnvRel L' Γ ρ) (fun L' ρ => EnvRel L' Γ ρ) (fun v => HasTy v .unit)
          (evalE (n + 1) Pg st (.print a)) := by
      intro ca pt ta heq hne hrender hcode
      simp only [resolveAt_append, resolveAt] at hcode
      have hca := codeAt_append_left hcode
      have hop := codeAt_append_right hcode
      simp only [resolveAt_length] at hop
      have ih := hE a st Γ next ca ta n' lc d pos L T heq hd hca henv hwf hlen
      simp only [evalE]
      cases hra : evalE n Pg st a with
      | ok va s1 =>
        rw [hra] at ih
        obtain ⟨L1, hst1, henv1, hl1, hty1⟩ := ih
        obtain ⟨m, rfl⟩ := fuel_pos_of_ok hra
        obtain ⟨txt, hr1, hr2⟩ := hrender va hty1
        simp only [Res.bind, hr1]
        refine ⟨L1, ?_, henv1, hl1, .unit⟩
        dsimp only at hst1 ⊢
        rw [pushed_of_hasTy hty1 hne] at hst1
        have : pos + (ca ++ [Instr.print pt]).length = pos + ca.length + 1 := by simp; omega
        rw [this]
        simp only [pushed, List.append_nil]
        exact hst1.snoc (step_print W (codeAt_head hop) L1 T (encV va) s1.out hr2)
      | sig g s' =>
        rw [hra] at ih
        simp only [Res.bind]
        exact ih.sig_mono (fun _ _ h => h)
      | timeout => trivial
      | stuck w => trivial
    simp only [compE] at hc
    split at hc
    · rename_i ca n1 heq
      simp only [Option.some.injEq, Prod.mk.injEq] at hc
      obtain ⟨rfl, rfl, rfl⟩ := hc
      refine key ca .int .int heq (by decide) ?_ hcode
      intro v hv
      cases hv
      exact ⟨_, fun m h => rfl, rfl⟩
    · rename_i ca n1 heq
      simp only [Option.some.injEq, Prod.mk.injEq] at hc
      obtain ⟨rfl, rfl, rfl⟩ := hc
      refine key ca .bool .bool heq (by decide) ?_ hcode
      intro v hv
      cases hv
      exact ⟨_, fun m h => rfl, rfl⟩
    · simp at hc
  | bin op a b =>
    by_cases h1 : op = .and
    · subst h1
      simp only [compE] at hc
      split at hc
      · rename_i ca n1 heq1
        split at hc
        · rename_i cb n2 heq2
          simp only [Option.some.injEq, Prod.mk.injEq] at hc
          obtain ⟨rfl, rfl, rfl⟩ := hc
          have hm1 := compE_mono a _ _ _ _ _ _ heq1
          have hm2 := compE_mono b _ _ _ _ _ _ heq2
          simp only [resolveAt_append, resolveAt, List.length_append, List.length_cons, List.length_nil,
            resolveAt_length] at hcode
          have hca := codeAt_append_left (codeAt_append_left (codeAt_append_left hcode))
          have hj := codeAt_head (codeAt_append_right (codeAt_append_left (codeAt_append_left hcode)))
          have hcb := codeAt_append_right (codeAt_append_left hcode)
          have htl := codeAt_append_right hcode
          simp only [resolveAt_length, List.length_append, List.length_cons, List.length_nil, mapT] at hj hcb htl
          have hjmp := codeAt_head htl
          have hpb := codeAt_head (codeAt_tail htl)
          have hjt : resolveT (pos + ca.length) lc (.rel (↑cb.length + 1)) = pos + ca.length + 1 + cb.length + 1 := by
            simp only [resolveT]; omega
          have hjt2 : resolveT (pos + (ca.length + (0 + 1) + cb.length)) lc (.rel 1)
              = pos + ca.length + 1 + cb.length + 2 := by
            simp only [resolveT]; omega
          rw [hjt] at hj
          rw [hjt2] at hjmp
          have hend : pos + (ca ++ [Instr.jumpIfFalse (Target.rel (↑cb.length + 1))] ++ cb
              ++ [Instr.jump (Target.rel 1), Instr.pushBool false]).length = pos + ca.length + 1 + cb.length + 2 := by
            simp only [List.length_append, List.length_cons, List.length_nil]; omega
          rw [hend]
          have iha := hE a st Γ next ca .bool n1 lc d pos L T heq1 hd hca henv hwf (by omega)
          simp only [evalE]
          cases hra : evalE n Pg st a with
          | ok va s1 =>
            rw [hra] at iha
            obtain ⟨L1, hst1, henv1, hl1, hty1⟩ := iha
            simp only [Res.bind]
            cases hty1 with
            | bool x =>
              simp only [pushed, encV] at hst1
              have hstep := step_jumpIfFalse W hj L1 T x s1.out
              cases x with
              | false =>
                simp only [if_false, Bool.false_eq_true] at hstep
                refine ⟨L1, ?_, henv1, hl1, .bool _⟩
                have hp : W.P[pos + ca.length + 1 + cb.length + 1]? = some (.pushBool false) := by
                  have : pos + (ca.length + (0 + 1) + cb.length) + 1 = pos + ca.length + 1 + cb.length + 1 := by omega
                  rw [← this]; exact hpb
                have := step_pushBool W hp L1 T s1.out
                exact (hst1.snoc hstep).snoc this
              | true =>
                simp only [if_true, Bool.false_eq_true] at hstep
                have hcb' : codeAt W.P (pos + ca.length + 1) (resolveAt (pos + ca.length + 1) lc cb) := by
                  have : pos + (ca.length + (0 + 1)) = pos + ca.length + 1 := by omega
                  rw [← this]; exact hcb
                have ihb := hE b s1 Γ n1 cb .bool n2 lc d (pos + ca.length + 1) L1 T heq2 hd hcb' henv1
                  (hwf.mono hm1) (by omega)
                cases hrb : evalE n Pg s1 b with
                | ok vb s2 =>
                  rw [hrb] at ihb
                  obtain ⟨L2, hst2, henv2, hl2, hty2⟩ := ihb
                  refine ⟨L2, ?_, henv2, by omega, hty2⟩
                  have hj2 : W.P[pos + ca.length + 1 + cb.length]? = some (.jump (pos + ca.length + 1 + cb.length + 2)) := by
                    have e : pos + (ca.length + (0 + 1) + cb.length) = pos + ca.length + 1 + cb.length := by omega
                    rw [e] at hjmp; exact hjmp
                  exact ((hst1.snoc hstep).trans hst2).snoc (step_jump W hj2 L2 _ s2.out)
                | sig g s' =>
                  rw [hrb] at ihb
                  exact Out.sig_after (hst1.snoc hstep) hl1 ihb (fun _ _ h => h) rfl
                | timeout => trivial
                | stuck w => trivial
          | sig g s' =>
            rw [hra] at iha
            simp only [Res.bind]
            exact iha.sig_mono (fun _ _ h => h)
          | timeout => trivial
          | stuck w => trivial
        · simp at hc
      · simp at hc
    · by_cases h2 : op = .or
      · subst h2
        simp only [compE] at hc
        split at hc
        · rename_i ca n1 heq1
          split at hc
          · rename_i cb n2 heq2
            simp only [Option.some.injEq, Prod.mk.injEq] at hc
            obtain ⟨rfl, rfl, rfl⟩ := hc
            have hm1 := compE_mono a _ _ _ _ _ _ heq1
            have hm2 := compE_mono b _ _ _ _ _ _ heq2
            simp only [resolveAt_append, resolveAt, List.length_append, List.length_cons, List.length_nil,
              resolveAt_length] at hcode
            have hca := codeAt_append_left (codeAt_append_left (codeAt_append_left hcode))
            have hj := codeAt_head (codeAt_append_right (codeAt_append_left (codeAt_append_left hcode)))
            have hcb := codeAt_append_right (codeAt_append_left hcode)
            have htl := codeAt_append_right hcode
            simp only [resolveAt_length, List.length_append, List.length_cons, List.length_nil, mapT] at hj hcb htl
            have hjmp := codeAt_head htl
            have hpb := codeAt_head (codeAt_tail htl)
            have hjt : resolveT (pos + ca.length) lc (.rel (↑cb.length + 1)) = pos + ca.length + 1 + cb.length + 1 := by
              simp only [resolveT]; omega
            have hjt2 : resolveT (pos + (ca.length + (0 + 1) + cb.length)) lc (.rel 1)
                = pos + ca.length + 1 + cb.length + 2 := by
              simp only [resolveT]; omega
            rw [hjt] at hj
            rw [hjt2] at hjmp
            have hend : pos + (ca ++ [Instr.jumpIf (Target.rel (↑cb.length + 1))] ++ cb
                ++ [Instr.jump (Target.rel 1), Instr.pushBool true]).length = pos + ca.length + 1 + cb.length + 2 := by
              simp only [List.length_append, List.length_cons, List.length_nil]; omega
            rw [hend]
            have iha := hE a st Γ next ca .bool n1 lc d pos L T heq1 hd hca henv hwf (by omega)
            simp only [evalE]
            cases hra : evalE n Pg st a with
            | ok va s1 =>
              rw [hra] at iha
              obtain ⟨L1, hst1, henv1, hl1, hty1⟩ := iha
              simp only [Res.bind]
              cases hty1 with
              | bool x =>
                simp only [pushed, encV] at hst1
                have hstep := step_jumpIf W hj L1 T x s1.out
                cases x with
                | true =>
                  simp only [if_true, Bool.false_eq_true] at hstep
                  refine ⟨L1, ?_, henv1, hl1, .bool _⟩
                  have hp : W.P[pos + ca.length + 1 + cb.length + 1]? = some (.pushBool true) := by
                    have : pos + (ca.length + (0 + 1) + cb.length) + 1 = pos + ca.length + 1 + cb.length + 1 := by omega
                    rw [← this]; exact hpb
                  have := step_pushBool W hp L1 T s1.out
                  exact (hst1.snoc hstep).snoc this
                | false =>
                  simp only [if_false, Bool.false_eq_true] at hstep
                  have hcb' : codeAt W.P (pos + ca.length + 1) (resolveAt (pos + ca.length + 1) lc cb) := by
                    have : pos + (ca.length + (0 + 1)) = pos + ca.length + 1 := by omega
                    rw [← this]; exact hcb
                  have ihb := hE b s1 Γ n1 cb .bool n2 lc d (pos + ca.length + 1) L1 T heq2 hd hcb' henv1
                    (hwf.mono hm1) (by omega)
                  cases hrb : evalE n Pg s1 b with
                  | ok vb s2 =>
                    rw [hrb] at ihb
                    obtain ⟨L2, hst2, henv2, hl2, hty2⟩ := ihb
                    refine ⟨L2, ?_, henv2, by omega, hty2⟩
                    have hj2 : W.P[pos + ca.length + 1 + cb.length]? = some (.jump (pos + ca.length + 1 + cb.length + 2)) := by
                      have e : pos + (ca.length + (0 + 1) + cb.length) = pos + ca.length + 1 + cb.length := by omega
                      rw [e] at hjmp; exact hjmp
                    exact ((hst1.snoc hstep).trans hst2).snoc (step_jump W hj2 L2 _ s2.out)
                  | sig g s' =>
                    rw [hrb] at ihb
                    exact Out.sig_after (hst1.snoc hstep) hl1 ihb (fun _ _ h => h) rfl
                  | timeout => trivial
                  | stuck w => trivial
            | sig g s' =>
              rw [hra] at iha
              simp only [Res.bind]
              exact iha.sig_mono (fun _ _ h => h)
            | timeout => trivial
            | stuck w => trivial
          · simp at hc
        · simp at hc
      · exact simE_bin_strict hE op a b h1 h2 st Γ next code τ n' lc d pos L T hc hd hcode henv hwf hlen
  | ite c t f =>
    simp only [compE] at hc
    split at hc
    · rename_i cc n1 heq1
      split at hc
      · simp at hc
      · rename_i ct tt n2 heq2
        split at hc
        · simp at hc
        · rename_i cf tf n3 heq3
          split at hc
          · rename_i htt
            simp only [Option.some.injEq, Prod.mk.injEq] at hc
            obtain ⟨rfl, rfl, rfl⟩ := hc
            subst htt
            have hm1 := compE_mono c _ _ _ _ _ _ heq1
            have hm2 := compE_mono t _ _ _ _ _ _ heq2
            have hm3 := compE_mono f _ _ _ _ _ _ heq3
            simp only [resolveAt_append, resolveAt, List.length_append, List.length_cons, List.length_nil] at hcode
            have hcc := codeAt_append_left (codeAt_append_left (codeAt_append_left (codeAt_append_left hcode)))
            have hjf := codeAt_head (codeAt_append_right (codeAt_append_left (codeAt_append_left (codeAt_append_left hcode))))
            have hct := codeAt_append_right (codeAt_append_left (codeAt_append_left hcode))
            have hjm := codeAt_head (codeAt_append_right (codeAt_append_left hcode))
            have hcf := codeAt_append_right hcode
            simp only [resolveAt_length, List.length_append, List.length_cons, List.length_nil, mapT] at hjf hct hjm hcf
            have e1 : resolveT (pos + cc.length) lc (.rel (↑ct.length + 1)) = pos + cc.length + 1 + ct.length + 1 := by
              simp only [resolveT]; omega
            have e2 : resolveT (pos + (cc.length + (0 + 1) + ct.length)) lc (.rel ↑cf.length)
                = pos + cc.length + 1 + ct.length + 1 + cf.length := by
              simp only [resolveT]; omega
            rw [e1] at hjf
            rw [e2] at hjm
            have hend : pos + (cc ++ [Instr.jumpIfFalse (Target.rel (↑ct.length + 1))] ++ ct
                ++ [Instr.jump (Target.rel ↑cf.length)] ++ cf).length = pos + cc.length + 1 + ct.length + 1 + cf.length := by
              simp only [List.length_append, List.length_cons, List.length_nil]; omega
            rw [hend]
            have ihc := hE c st Γ next cc .bool n1 lc d pos L T heq1 hd hcc henv hwf (by omega)
            simp only [evalE]
            cases hrc : evalE n Pg st c with
            | ok vc s1 =>
              rw [hrc] at ihc
              obtain ⟨L1, hst1, henv1, hl1, hty1⟩ := ihc
              simp only [Res.bind]
              cases hty1 with
              | bool x =>
                simp only [pushed, encV] at hst1
                have hstep := step_jumpIfFalse W hjf L1 T x s1.out
                cases x with
                | true =>
                  simp only [if_true] at hstep
                  have hct' : codeAt W.P (pos + cc.length + 1) (resolveAt (pos + cc.length + 1) lc ct) := by
                    have e : pos + (cc.length + (0 + 1)) = pos + cc.length + 1 := by omega
                    rw [e] at hct; exact hct
                  have iht := hE t s1 Γ n1 ct tt n2 lc d (pos + cc.length + 1) L1 T heq2 hd hct' henv1
                    (hwf.mono hm1) (by omega)
                  cases hrt : evalE n Pg s1 t with
                  | ok vt s2 =>
                    rw [hrt] at iht
                    obtain ⟨L2, hst2, henv2, hl2, hty2⟩ := iht
                    refine ⟨L2, ?_, henv2, by omega, hty2⟩
                    have hj2 : W.P[pos + cc.length + 1 + ct.length]?
                        = some (.jump (pos + cc.length + 1 + ct.length + 1 + cf.length)) := by
                      have e : pos + (cc.length + (0 + 1) + ct.length) = pos + cc.length + 1 + ct.length := by omega
                      rw [e] at hjm; exact hjm
                    exact ((hst1.snoc hstep).trans hst2).snoc (step_jump W hj2 L2 _ s2.out)
                  | sig g s' =>
                    rw [hrt] at iht
                    exact Out.sig_after (hst1.snoc hstep) hl1 iht (fun _ _ h => h) rfl
                  | timeout => trivial
                  | stuck w => trivial
                | false =>
                  simp only [if_false, Bool.false_eq_true] at hstep
                  have hcf' : codeAt W.P (pos + cc.length + 1 + ct.length + 1)
                      (resolveAt (pos + cc.length + 1 + ct.length + 1) lc cf) := by
                    have e : pos + (cc.length + (0 + 1) + ct.length + (0 + 1)) = pos + cc.length + 1 + ct.length + 1 := by omega
                    rw [e] at hcf; exact hcf
                  have ihf := hE f s1 Γ n2 cf tt n3 lc d (pos + cc.length + 1 + ct.length + 1) L1 T heq3 hd hcf' henv1
                    (hwf.mono (by omega)) (by omega)
                  cases hrf : evalE n Pg s1 f with
                  | ok vf s2 =>
                    rw [hrf] at ihf
                    obtain ⟨L2, hst2, henv2, hl2, hty2⟩ := ihf
                    exact ⟨L2, (hst1.snoc hstep).trans hst2, henv2, by omega, hty2⟩
                  | sig g s' =>
                    rw [hrf] at ihf
                    exact Out.sig_after (hst1.snoc hstep) hl1 ihf (fun _ _ h => h) rfl
                  | timeout => trivial
                  | stuck w => trivial
            | sig g s' =>
              rw [hrc] at ihc
              simp only [Res.bind]
              exact ihc.sig_mono (fun _ _ h => h)
            | timeout => trivial
            | stuck w => trivial
          · simp at hc
    · simp at hc
  | _ => simp [compE] at hc

end Abra.Compile
