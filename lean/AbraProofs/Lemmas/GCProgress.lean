import AbraProofs.Lemmas.GC
/-! Progress of the collector (for C07): every increment of a running cycle strictly decreases a
    natural-number measure, so a cycle completes after finitely many increments when the program is quiet. -/
namespace Abra.GC

def whiteOf (m : Nat → Bool) (l : List Nat) : Nat := (l.filter (fun a => !m a)).length

def white (σ : St) : Nat := whiteOf σ.marked σ.heap

/-- remaining collector work -/
def mu (σ : St) : Nat :=
  match σ.phase with
  | .idle => 0
  | .marking => 2 * white σ + σ.gray.length + σ.heap.length + 2
  | .sweeping => σ.todo.length + 1

theorem whiteOf_mono {m m' : Nat → Bool} (h : ∀ x, m x = true → m' x = true) (l : List Nat) :
    whiteOf m' l ≤ whiteOf m l := by
  induction l with
  | nil => simp [whiteOf]
  | cons x xs ih =>
    have hcons : ∀ f : Nat → Bool, whiteOf f (x :: xs) = (if f x then 0 else 1) + whiteOf f xs := by
      intro f; unfold whiteOf; rw [List.filter_cons]
      cases f x <;> simp <;> omega
    rw [hcons m, hcons m']
    cases hm : m x with
    | true => simp [h x hm]; exact ih
    | false => cases m' x <;> simp <;> omega

theorem whiteOf_mark {m m' : Nat → Bool} {a : Nat} {l : List Nat}
    (h1 : ∀ x, m x = true → m' x = true) (h2 : m' a = true) (ha : a ∈ l) (hm : m a = false) :
    whiteOf m' l + 1 ≤ whiteOf m l := by
  induction l with
  | nil => simp at ha
  | cons x xs ih =>
    have hcons : ∀ f : Nat → Bool, whiteOf f (x :: xs) = (if f x then 0 else 1) + whiteOf f xs := by
      intro f; unfold whiteOf; rw [List.filter_cons]
      cases f x <;> simp <;> omega
    rw [hcons m, hcons m']
    by_cases hxa : x = a
    · subst hxa
      have := whiteOf_mono h1 xs
      simp [hm, h2]; omega
    · have ha' : a ∈ xs := by
        rcases List.mem_cons.1 ha with h | h
        · exact absurd h.symm hxa
        · exact h
      have := ih ha'
      cases hmx : m x with
      | true => simp [h1 x hmx]; omega
      | false => cases m' x <;> simp <;> omega

theorem markPush_measure {σ : St} {a : Nat} (ha : a ∈ σ.heap) :
    white (markPush σ a) + (markPush σ a).gray.length ≤ white σ + σ.gray.length ∧
    σ.gray.length ≤ (markPush σ a).gray.length := by
  unfold markPush
  cases hm : σ.marked a with
  | true => simp
  | false =>
    simp only [Bool.false_eq_true, if_false]
    constructor
    · have hw : white { σ with obj := setMarked σ.obj a true, gray := a :: σ.gray } + 1 ≤ white σ := by
        unfold white
        apply whiteOf_mark (a := a) _ _ ha hm
        · intro x hx
          show (setMarked σ.obj a true x).marked = true
          rw [setMarked_marked]; by_cases hxa : x = a <;> simp [hxa]; exact hx
        · show (setMarked σ.obj a true a).marked = true
          rw [setMarked_marked]; simp
      simp only [List.length_cons]
      omega
    · simp

theorem markAll_measure {σ : St} {as : List Nat} (has : ∀ a ∈ as, a ∈ σ.heap) :
    white (markAll σ as) + (markAll σ as).gray.length ≤ white σ + σ.gray.length ∧
    σ.gray.length ≤ (markAll σ as).gray.length := by
  induction as generalizing σ with
  | nil => simp [markAll_nil]
  | cons a as ih =>
    rw [markAll_cons]
    have h1 := markPush_measure (σ := σ) (has a (by simp))
    have h2 := ih (σ := markPush σ a) (by
      intro x hx
      have : (markPush σ a).heap = σ.heap := by simp [St.heap]
      rw [this]; exact has x (by simp [hx]))
    omega

theorem length_swapRemoveHead (a : Nat) (rest : List Nat) :
    (swapRemoveHead (a :: rest)).length = rest.length := by
  cases rest with
  | nil => simp [swapRemoveHead]
  | cons y r => simp [swapRemoveHead]

/-- the end-of-call test never increases the measure, and decreases it when the gray stack was empty -/
theorem finishMark_measure {τ : St} (hp : τ.phase = .marking) (hd : τ.done = [])
    (hr : ∀ r ∈ τ.roots, r ∈ τ.heap) :
    mu (finishMark τ) ≤ mu τ ∧ (τ.gray = [] → mu (finishMark τ) < mu τ) := by
  unfold finishMark
  cases hg : τ.gray with
  | cons a g => simp
  | nil =>
    simp only
    have hm := markAll_measure (σ := τ) (as := τ.roots) hr
    rw [hg] at hm
    simp only [List.length_nil, Nat.add_zero, Nat.zero_le, and_true] at hm
    have hheap : (markAll τ τ.roots).heap = τ.heap := by simp
    have key : (match (markAll τ τ.roots).gray with
        | [] => mu { markAll τ τ.roots with phase := .sweeping, done := [], todo := (markAll τ τ.roots).heap }
        | _ :: _ => mu (markAll τ τ.roots)) < mu τ := by
      cases hg' : (markAll τ τ.roots).gray with
      | nil =>
        simp only
        unfold mu; simp only [hp]
        rw [hheap]; omega
      | cons b g' =>
        simp only
        unfold mu; simp only [markAll_phase, hp]
        rw [hg'] at hm
        rw [hheap, hg, hg']
        simp only [List.length_cons, List.length_nil] at hm ⊢
        omega
    constructor
    · exact Nat.le_of_lt (by
        split at key <;> rename_i h <;> simp only [h] <;> exact key)
    · intro _
      split at key <;> rename_i h <;> simp only [h] <;> exact key

theorem blacken_measure {σ σ1 : St} {a : Nat} {g : List Nat} (h : InvM σ) (hp : σ.phase = .marking)
    (hg : σ.gray = a :: g)
    (e_heap : σ1.heap = σ.heap) (e_gray : σ1.gray = g) (e_roots : σ1.roots = σ.roots)
    (e_done : σ1.done = []) (e_phase : σ1.phase = .marking)
    (m1 : ∀ x, σ.marked x = true → σ1.marked x = true) :
    mu (finishMark (markAll σ1 (σ.children a))) < mu σ := by
  have hh : σ.heap = σ.todo := by simp [St.heap, h.done]
  have ha := h.gray a (by rw [hg]; simp)
  have hw1 : white σ1 ≤ white σ := by
    unfold white; rw [e_heap]; exact whiteOf_mono m1 _
  have hch : ∀ c ∈ σ.children a, c ∈ σ1.heap := by
    intro c hc; rw [e_heap, hh]; exact h.closed a ha.1 c hc
  have hm := markAll_measure (σ := σ1) (as := σ.children a) hch
  have hfm := (finishMark_measure (τ := markAll σ1 (σ.children a))
    (by simp [e_phase]) (by simpa using e_done)
    (by intro r hr
        simp only [markAll_roots, markAll_heap] at hr ⊢
        rw [e_heap, hh]; rw [e_roots] at hr; exact h.roots r hr)).1
  refine Nat.lt_of_le_of_lt hfm ?_
  unfold mu
  simp only [markAll_phase, e_phase, hp, markAll_heap]
  rw [e_heap, hg]
  rw [e_gray] at hm
  simp only [List.length_cons]
  omega

theorem gcMarkStep_measure {σ : St} (h : InvM σ) (hp : σ.phase = .marking) :
    mu (gcMarkStep σ) < mu σ := by
  unfold gcMarkStep
  rw [hp]; simp only
  have hh : σ.heap = σ.todo := by simp [St.heap, h.done]
  cases hg : σ.gray with
  | nil =>
    simp only
    exact (finishMark_measure hp h.done (by intro r hr; rw [hh]; exact h.roots r hr)).2 hg
  | cons a g =>
    simp only
    apply blacken_measure (σ1 := { obj := setMarked σ.obj a true, done := σ.done, todo := σ.todo, roots := σ.roots, gray := g, phase := Phase.marking }) h hp hg rfl rfl rfl h.done rfl
    intro x hx
    show (setMarked σ.obj a true x).marked = true
    rw [setMarked_marked]; by_cases hxa : x = a <;> simp [hxa]; exact hx

theorem gcSweepStep_measure {σ : St} (hp : σ.phase = .sweeping) : mu (gcSweepStep σ) < mu σ := by
  unfold gcSweepStep
  rw [hp]; simp only
  have hlen : (sweepOne σ).todo.length + 1 ≤ σ.todo.length + 1 ∧
      (σ.todo ≠ [] → (sweepOne σ).todo.length < σ.todo.length) := by
    unfold sweepOne
    cases ht : σ.todo with
    | nil => simp [ht]
    | cons a rest =>
      simp only
      split
      · simp
      · simp [length_swapRemoveHead]
  unfold sweepTail
  cases ht' : (sweepOne σ).todo with
  | nil =>
    simp only
    unfold mu; simp [hp]
  | cons b r =>
    simp only
    unfold mu
    rw [sweepOne_phase, hp]; simp only
    have hne : σ.todo ≠ [] := by
      intro he
      have : sweepOne σ = σ := by unfold sweepOne; rw [he]
      rw [this, he] at ht'; cases ht'
    have := hlen.2 hne
    omega

/-- every collector increment of a running cycle strictly decreases the measure -/
theorem gcStep_measure {σ : St} (h : Inv σ) (hne : σ.phase ≠ .idle) : mu (gcStep σ) < mu σ := by
  unfold gcStep
  cases hp : σ.phase with
  | idle => exact absurd hp hne
  | marking =>
    simp only
    have hM : InvM σ := by unfold Inv at h; rw [hp] at h; exact h
    exact gcMarkStep_measure hM hp
  | sweeping => simp only; exact gcSweepStep_measure hp

end Abra.GC
