import AbraModel.Analysis
/-! Lemmas about the analysis tables: what `usesE` collects (against an independent inductive reading of
"occurs free"), and that every key the translator looks up is collected. -/
namespace Abra.Analysis

/- `id` is read in the body, possibly only inside nested lambdas/tasks, and is not bound on the way
   (by a parameter or a local of a nested function).  This is the specification side: it does not mention
   `usesE`. -/
mutual
inductive FreeE : Nat → RExpr → Prop where
  | var (id : Nat) : FreeE id (.var id)
  | op {id es} : FreeEs id es → FreeE id (.op es)
  | ite_c {id c t f} : FreeE id c → FreeE id (.ite c t f)
  | ite_t {id c t f} : FreeE id t → FreeE id (.ite c t f)
  | ite_f {id c t f} : FreeE id f → FreeE id (.ite c t f)
  | block {id ss} : FreeSs id ss → FreeE id (.block ss)
  | match_s {id s arms} : FreeE id s → FreeE id (.matchE s arms)
  | match_a {id s arms} : FreeArms id arms → FreeE id (.matchE s arms)
  | lam {id ps body} : FreeE id body → ¬ id ∈ ps → ¬ id ∈ localsE body → FreeE id (.lam ps body)
  | task {id body} : FreeE id body → ¬ id ∈ localsE body → FreeE id (.task body)
inductive FreeS : Nat → RStmt → Prop where
  | let_ {id bs e} : FreeE id e → FreeS id (.let_ bs e)
  | assignVar {id x e} : FreeE id e → FreeS id (.assignVar x e)
  | assignPlace_t {id ts t e} : FreeE id t → FreeS id (.assignPlace ts t e)
  | assignPlace_e {id ts t e} : FreeE id e → FreeS id (.assignPlace ts t e)
  | expr {id e} : FreeE id e → FreeS id (.expr e)
  | while_c {id c body} : FreeE id c → FreeS id (.while_ c body)
  | while_b {id c body} : FreeSs id body → FreeS id (.while_ c body)
  | for_it {id bs it body} : FreeE id it → FreeS id (.for_ bs it body)
  | for_b {id bs it body} : FreeSs id body → FreeS id (.for_ bs it body)
  | ret {id e} : FreeE id e → FreeS id (.ret e)
inductive FreeSs : Nat → RStmts → Prop where
  | head {id s r} : FreeS id s → FreeSs id (.cons s r)
  | tail {id s r} : FreeSs id r → FreeSs id (.cons s r)
inductive FreeEs : Nat → RExprs → Prop where
  | head {id e r} : FreeE id e → FreeEs id (.cons e r)
  | tail {id e r} : FreeEs id r → FreeEs id (.cons e r)
inductive FreeArms : Nat → RArms → Prop where
  | head {id bs body r} : FreeE id body → FreeArms id (.cons bs body r)
  | tail {id bs body r} : FreeArms id r → FreeArms id (.cons bs body r)
end

theorem mem_filter_not {l a b : List Nat} {i : Nat} :
    i ∈ l.filter (fun i => !a.contains i && !b.contains i) ↔ i ∈ l ∧ ¬ i ∈ a ∧ ¬ i ∈ b := by
  simp [List.mem_filter]

theorem mem_filter_not1 {l a : List Nat} {i : Nat} :
    i ∈ l.filter (fun i => !a.contains i) ↔ i ∈ l ∧ ¬ i ∈ a := by
  simp [List.mem_filter]

mutual
theorem usesE_iff : ∀ (e : RExpr) (id : Nat), id ∈ usesE e ↔ FreeE id e
  | .lit, id => by simp only [usesE, List.not_mem_nil, false_iff]; intro h; cases h
  | .var x, id => by
    simp only [usesE, List.mem_singleton]
    constructor
    · rintro rfl; exact .var _
    · intro h; cases h; rfl
  | .op es, id => by
    simp only [usesE]
    rw [usesEs_iff es id]
    exact ⟨.op, fun h => by cases h; assumption⟩
  | .ite c t f, id => by
    simp only [usesE, List.mem_append]
    rw [usesE_iff c id, usesE_iff t id, usesE_iff f id]
    constructor
    · rintro ((h | h) | h)
      · exact .ite_c h
      · exact .ite_t h
      · exact .ite_f h
    · intro h
      cases h with
      | ite_c h => exact .inl (.inl h)
      | ite_t h => exact .inl (.inr h)
      | ite_f h => exact .inr h
  | .block ss, id => by
    simp only [usesE]
    rw [usesSs_iff ss id]
    exact ⟨.block, fun h => by cases h; assumption⟩
  | .matchE s arms, id => by
    simp only [usesE, List.mem_append]
    rw [usesE_iff s id, usesArms_iff arms id]
    constructor
    · rintro (h | h)
      · exact .match_s h
      · exact .match_a h
    · intro h
      cases h with
      | match_s h => exact .inl h
      | match_a h => exact .inr h
  | .lam ps body, id => by
    simp only [usesE]
    rw [mem_filter_not, usesE_iff body id]
    constructor
    · rintro ⟨h1, h2, h3⟩; exact .lam h1 h3 h2
    · intro h; cases h with | lam h1 h2 h3 => exact ⟨h1, h3, h2⟩
  | .task body, id => by
    simp only [usesE]
    rw [mem_filter_not1, usesE_iff body id]
    constructor
    · rintro ⟨h1, h2⟩; exact .task h1 h2
    · intro h; cases h with | task h1 h2 => exact ⟨h1, h2⟩

theorem usesS_iff : ∀ (s : RStmt) (id : Nat), id ∈ usesS s ↔ FreeS id s
  | .let_ bs e, id => by
    simp only [usesS]; rw [usesE_iff e id]
    exact ⟨.let_, fun h => by cases h; assumption⟩
  | .assignVar x e, id => by
    simp only [usesS]; rw [usesE_iff e id]
    exact ⟨.assignVar, fun h => by cases h; assumption⟩
  | .assignPlace _ t e, id => by
    simp only [usesS, List.mem_append]; rw [usesE_iff t id, usesE_iff e id]
    constructor
    · rintro (h | h)
      · exact .assignPlace_t h
      · exact .assignPlace_e h
    · intro h
      cases h with
      | assignPlace_t h => exact .inl h
      | assignPlace_e h => exact .inr h
  | .expr e, id => by
    simp only [usesS]; rw [usesE_iff e id]
    exact ⟨.expr, fun h => by cases h; assumption⟩
  | .while_ c body, id => by
    simp only [usesS, List.mem_append]; rw [usesE_iff c id, usesSs_iff body id]
    constructor
    · rintro (h | h)
      · exact .while_c h
      · exact .while_b h
    · intro h
      cases h with
      | while_c h => exact .inl h
      | while_b h => exact .inr h
  | .for_ bs it body, id => by
    simp only [usesS, List.mem_append]; rw [usesE_iff it id, usesSs_iff body id]
    constructor
    · rintro (h | h)
      · exact .for_it h
      · exact .for_b h
    · intro h
      cases h with
      | for_it h => exact .inl h
      | for_b h => exact .inr h
  | .break_, id => by simp only [usesS, List.not_mem_nil, false_iff]; intro h; cases h
  | .continue_, id => by simp only [usesS, List.not_mem_nil, false_iff]; intro h; cases h
  | .ret e, id => by
    simp only [usesS]; rw [usesE_iff e id]
    exact ⟨.ret, fun h => by cases h; assumption⟩

theorem usesSs_iff : ∀ (ss : RStmts) (id : Nat), id ∈ usesSs ss ↔ FreeSs id ss
  | .nil, id => by simp only [usesSs, List.not_mem_nil, false_iff]; intro h; cases h
  | .cons s r, id => by
    simp only [usesSs, List.mem_append]; rw [usesS_iff s id, usesSs_iff r id]
    constructor
    · rintro (h | h)
      · exact .head h
      · exact .tail h
    · intro h
      cases h with
      | head h => exact .inl h
      | tail h => exact .inr h

theorem usesEs_iff : ∀ (es : RExprs) (id : Nat), id ∈ usesEs es ↔ FreeEs id es
  | .nil, id => by simp only [usesEs, List.not_mem_nil, false_iff]; intro h; cases h
  | .cons e r, id => by
    simp only [usesEs, List.mem_append]; rw [usesE_iff e id, usesEs_iff r id]
    constructor
    · rintro (h | h)
      · exact .head h
      · exact .tail h
    · intro h
      cases h with
      | head h => exact .inl h
      | tail h => exact .inr h

theorem usesArms_iff : ∀ (arms : RArms) (id : Nat), id ∈ usesArms arms ↔ FreeArms id arms
  | .nil, id => by simp only [usesArms, List.not_mem_nil, false_iff]; intro h; cases h
  | .cons bs body r, id => by
    simp only [usesArms, List.mem_append]; rw [usesE_iff body id, usesArms_iff r id]
    constructor
    · rintro (h | h)
      · exact .head h
      · exact .tail h
    · intro h
      cases h with
      | head h => exact .inl h
      | tail h => exact .inr h
end


/-! ### every key the translator looks up is collected by one of the analyses -/

mutual
theorem lookupsE_sub : ∀ (e : RExpr) (k : Nat), k ∈ lookupsE e → k ∈ usesE e ∨ k ∈ localsE e ∨ k ∈ assignedE e
  | .lit, k, h => by simp [lookupsE] at h
  | .var x, k, h => by simp only [lookupsE, List.mem_singleton] at h; subst h; exact .inl (by simp [usesE])
  | .op es, k, h => by
    simp only [lookupsE] at h
    simpa only [usesE, localsE, assignedE] using lookupsEs_sub es k h
  | .ite c t f, k, h => by
    simp only [lookupsE, List.mem_append] at h
    simp only [usesE, localsE, assignedE, List.mem_append]
    rcases h with (h | h) | h
    · rcases lookupsE_sub c k h with h | h | h <;> simp [h]
    · rcases lookupsE_sub t k h with h | h | h <;> simp [h]
    · rcases lookupsE_sub f k h with h | h | h <;> simp [h]
  | .block ss, k, h => by
    simp only [lookupsE] at h
    simpa only [usesE, localsE, assignedE] using lookupsSs_sub ss k h
  | .matchE s arms, k, h => by
    simp only [lookupsE, List.mem_append] at h
    simp only [usesE, localsE, assignedE, List.mem_append]
    rcases h with h | h
    · rcases lookupsE_sub s k h with h | h | h <;> simp [h]
    · rcases lookupsArms_sub arms k h with h | h | h <;> simp [h]
  | .lam ps body, k, h => by
    simp only [lookupsE, capturesOf] at h
    exact .inl (by simpa only [usesE] using h)
  | .task body, k, h => by
    simp only [lookupsE, capturesOf] at h
    refine .inl ?_
    simp only [usesE]
    rw [mem_filter_not1]
    rw [mem_filter_not] at h
    exact ⟨h.1, h.2.1⟩

theorem lookupsS_sub : ∀ (s : RStmt) (k : Nat), k ∈ lookupsS s → k ∈ usesS s ∨ k ∈ localsS s ∨ k ∈ assignedS s
  | .let_ bs e, k, h => by
    simp only [lookupsS, List.mem_append] at h
    simp only [usesS, localsS, assignedS, List.mem_append]
    rcases h with h | h
    · rcases lookupsE_sub e k h with h | h | h <;> simp [h]
    · simp [h]
  | .assignVar x e, k, h => by
    simp only [lookupsS, List.mem_cons] at h
    simp only [usesS, localsS, assignedS, List.mem_cons]
    rcases h with h | h
    · simp [h]
    · rcases lookupsE_sub e k h with h | h | h <;> simp [h]
  | .assignPlace ts t e, k, h => by
    simp only [lookupsS, List.mem_append] at h
    simp only [usesS, localsS, assignedS, List.mem_append]
    rcases h with (h | h) | h
    · simp [h]
    · rcases lookupsE_sub e k h with h | h | h <;> simp [h]
    · rcases lookupsE_sub t k h with h | h | h <;> simp [h]
  | .expr e, k, h => by
    simp only [lookupsS] at h
    simpa only [usesS, localsS, assignedS] using lookupsE_sub e k h
  | .while_ c body, k, h => by
    simp only [lookupsS, List.mem_append] at h
    simp only [usesS, localsS, assignedS, List.mem_append]
    rcases h with h | h
    · rcases lookupsE_sub c k h with h | h | h <;> simp [h]
    · rcases lookupsSs_sub body k h with h | h | h <;> simp [h]
  | .for_ bs it body, k, h => by
    simp only [lookupsS, List.mem_append] at h
    simp only [usesS, localsS, assignedS, List.mem_append]
    rcases h with (h | h) | h
    · rcases lookupsE_sub it k h with h | h | h <;> simp [h]
    · simp [h]
    · rcases lookupsSs_sub body k h with h | h | h <;> simp [h]
  | .break_, k, h => by simp [lookupsS] at h
  | .continue_, k, h => by simp [lookupsS] at h
  | .ret e, k, h => by
    simp only [lookupsS] at h
    simpa only [usesS, localsS, assignedS] using lookupsE_sub e k h

theorem lookupsSs_sub : ∀ (ss : RStmts) (k : Nat), k ∈ lookupsSs ss → k ∈ usesSs ss ∨ k ∈ localsSs ss ∨ k ∈ assignedSs ss
  | .nil, k, h => by simp [lookupsSs] at h
  | .cons s r, k, h => by
    simp only [lookupsSs, List.mem_append] at h
    simp only [usesSs, localsSs, assignedSs, List.mem_append]
    rcases h with h | h
    · rcases lookupsS_sub s k h with h | h | h <;> simp [h]
    · rcases lookupsSs_sub r k h with h | h | h <;> simp [h]

theorem lookupsEs_sub : ∀ (es : RExprs) (k : Nat), k ∈ lookupsEs es → k ∈ usesEs es ∨ k ∈ localsEs es ∨ k ∈ assignedEs es
  | .nil, k, h => by simp [lookupsEs] at h
  | .cons e r, k, h => by
    simp only [lookupsEs, List.mem_append] at h
    simp only [usesEs, localsEs, assignedEs, List.mem_append]
    rcases h with h | h
    · rcases lookupsE_sub e k h with h | h | h <;> simp [h]
    · rcases lookupsEs_sub r k h with h | h | h <;> simp [h]

theorem lookupsArms_sub : ∀ (arms : RArms) (k : Nat), 
    k ∈ lookupsArms arms → k ∈ usesArms arms ∨ k ∈ localsArms arms ∨ k ∈ assignedArms arms
  | .nil, k, h => by simp [lookupsArms] at h
  | .cons bs body r, k, h => by
    simp only [lookupsArms, List.mem_append] at h
    simp only [usesArms, localsArms, assignedArms, List.mem_append]
    rcases h with (h | h) | h
    · simp [h]
    · rcases lookupsE_sub body k h with h | h | h <;> simp [h]
    · rcases lookupsArms_sub r k h with h | h | h <;> simp [h]
end


/-! ### the two loop contexts agree -/

mutual
theorem loops_agreeE : ∀ (e : RExpr) (b : Bool) (d : Nat), (b = true → 0 < d) → checkerLoopsE b e = true →
    codegenLoopsE d e = true
  | .lit, _, _, _, _ => rfl
  | .var _, _, _, _, _ => rfl
  | .op es, b, d, hb, h => by
    simp only [checkerLoopsE] at h; simp only [codegenLoopsE]; exact loops_agreeEs es b d hb h
  | .ite c t f, b, d, hb, h => by
    simp only [checkerLoopsE, Bool.and_eq_true] at h
    simp only [codegenLoopsE, Bool.and_eq_true]
    exact ⟨⟨loops_agreeE c b d hb h.1.1, loops_agreeE t b d hb h.1.2⟩, loops_agreeE f b d hb h.2⟩
  | .block ss, b, d, hb, h => by
    simp only [checkerLoopsE] at h; simp only [codegenLoopsE]; exact loops_agreeSs ss b d hb h
  | .matchE s arms, b, d, hb, h => by
    simp only [checkerLoopsE, Bool.and_eq_true] at h
    simp only [codegenLoopsE, Bool.and_eq_true]
    exact ⟨loops_agreeE s b d hb h.1, loops_agreeArms arms b d hb h.2⟩
  | .lam _ body, _, _, _, h => by
    simp only [checkerLoopsE] at h; simp only [codegenLoopsE]
    exact loops_agreeE body false 0 (by intro h; cases h) h
  | .task body, _, _, _, h => by
    simp only [checkerLoopsE] at h; simp only [codegenLoopsE]
    exact loops_agreeE body false 0 (by intro h; cases h) h

theorem loops_agreeS : ∀ (s : RStmt) (b : Bool) (d : Nat), (b = true → 0 < d) → checkerLoopsS b s = true →
    codegenLoopsS d s = true
  | .let_ _ e, b, d, hb, h => by
    simp only [checkerLoopsS] at h; simp only [codegenLoopsS]; exact loops_agreeE e b d hb h
  | .assignVar _ e, b, d, hb, h => by
    simp only [checkerLoopsS] at h; simp only [codegenLoopsS]; exact loops_agreeE e b d hb h
  | .assignPlace _ t e, b, d, hb, h => by
    simp only [checkerLoopsS, Bool.and_eq_true] at h
    simp only [codegenLoopsS, Bool.and_eq_true]
    exact ⟨loops_agreeE t b d hb h.1, loops_agreeE e b d hb h.2⟩
  | .expr e, b, d, hb, h => by
    simp only [checkerLoopsS] at h; simp only [codegenLoopsS]; exact loops_agreeE e b d hb h
  | .while_ c body, b, d, hb, h => by
    simp only [checkerLoopsS, Bool.and_eq_true] at h
    simp only [codegenLoopsS, Bool.and_eq_true]
    exact ⟨loops_agreeE c b d hb h.1, loops_agreeSs body true (d + 1) (fun _ => Nat.succ_pos d) h.2⟩
  | .for_ _ it body, b, d, hb, h => by
    simp only [checkerLoopsS, Bool.and_eq_true] at h
    simp only [codegenLoopsS, Bool.and_eq_true]
    exact ⟨loops_agreeE it b d hb h.1, loops_agreeSs body true (d + 1) (fun _ => Nat.succ_pos d) h.2⟩
  | .break_, b, d, hb, h => by
    simp only [checkerLoopsS] at h; simp only [codegenLoopsS, decide_eq_true_eq]; exact hb h
  | .continue_, b, d, hb, h => by
    simp only [checkerLoopsS] at h; simp only [codegenLoopsS, decide_eq_true_eq]; exact hb h
  | .ret e, b, d, hb, h => by
    simp only [checkerLoopsS] at h; simp only [codegenLoopsS]; exact loops_agreeE e b d hb h

theorem loops_agreeSs : ∀ (ss : RStmts) (b : Bool) (d : Nat), (b = true → 0 < d) → checkerLoopsSs b ss = true →
    codegenLoopsSs d ss = true
  | .nil, _, _, _, _ => rfl
  | .cons s r, b, d, hb, h => by
    simp only [checkerLoopsSs, Bool.and_eq_true] at h
    simp only [codegenLoopsSs, Bool.and_eq_true]
    exact ⟨loops_agreeS s b d hb h.1, loops_agreeSs r b d hb h.2⟩

theorem loops_agreeEs : ∀ (es : RExprs) (b : Bool) (d : Nat), (b = true → 0 < d) → checkerLoopsEs b es = true →
    codegenLoopsEs d es = true
  | .nil, _, _, _, _ => rfl
  | .cons e r, b, d, hb, h => by
    simp only [checkerLoopsEs, Bool.and_eq_true] at h
    simp only [codegenLoopsEs, Bool.and_eq_true]
    exact ⟨loops_agreeE e b d hb h.1, loops_agreeEs r b d hb h.2⟩

theorem loops_agreeArms : ∀ (arms : RArms) (b : Bool) (d : Nat), (b = true → 0 < d) → checkerLoopsArms b arms = true →
    codegenLoopsArms d arms = true
  | .nil, _, _, _, _ => rfl
  | .cons _ body r, b, d, hb, h => by
    simp only [checkerLoopsArms, Bool.and_eq_true] at h
    simp only [codegenLoopsArms, Bool.and_eq_true]
    exact ⟨loops_agreeE body b d hb h.1, loops_agreeArms r b d hb h.2⟩
end

/-! ### keys of the offset table -/

theorem map_fst_zipIdx_map {α β : Type} (l : List α) (f : Nat → β) (k : Nat) :
    ((l.zipIdx k).map fun (p : α × Nat) => (p.1, f p.2)).map Prod.fst = l := by
  induction l generalizing k with
  | nil => rfl
  | cons a r ih => simp [List.zipIdx_cons, ih]

theorem tableKeys_eq (ps : List Nat) (body : RExpr) :
    tableKeys ps body = ps.reverse ++ capturesOf ps body ++ localsE body := by
  unfold tableKeys offsetTable
  simp only [List.map_append]
  have h1 := map_fst_zipIdx_map ps.reverse (fun i => -(i : Int) - 1) 0
  have h2 := map_fst_zipIdx_map (capturesOf ps body) (fun i => (i : Int)) 0
  have h3 := map_fst_zipIdx_map (localsE body) (fun i => ((i + (capturesOf ps body).length : Nat) : Int)) 0
  rw [h1, h2, h3]


/-! ### what the checker's captured-assignment rule gives: assigned variables are the function's own -/

mutual
theorem assignedE_own : ∀ (e : RExpr) (o : List Nat), checkerAssignE (some o) e = true → ∀ x ∈ assignedE e, x ∈ o
  | .lit, _, _, x, hx => by simp [assignedE] at hx
  | .var _, _, _, x, hx => by simp [assignedE] at hx
  | .op es, o, h, x, hx => by
    simp only [checkerAssignE] at h; simp only [assignedE] at hx; exact assignedEs_own es o h x hx
  | .ite c t f, o, h, x, hx => by
    simp only [checkerAssignE, Bool.and_eq_true] at h
    simp only [assignedE, List.mem_append] at hx
    rcases hx with (hx | hx) | hx
    · exact assignedE_own c o h.1.1 x hx
    · exact assignedE_own t o h.1.2 x hx
    · exact assignedE_own f o h.2 x hx
  | .block ss, o, h, x, hx => by
    simp only [checkerAssignE] at h; simp only [assignedE] at hx; exact assignedSs_own ss o h x hx
  | .matchE s arms, o, h, x, hx => by
    simp only [checkerAssignE, Bool.and_eq_true] at h
    simp only [assignedE, List.mem_append] at hx
    rcases hx with hx | hx
    · exact assignedE_own s o h.1 x hx
    · exact assignedArms_own arms o h.2 x hx
  | .lam _ _, _, _, x, hx => by simp [assignedE] at hx
  | .task _, _, _, x, hx => by simp [assignedE] at hx

theorem assignedS_own : ∀ (s : RStmt) (o : List Nat), checkerAssignS (some o) s = true → ∀ x ∈ assignedS s, x ∈ o
  | .let_ _ e, o, h, x, hx => by
    simp only [checkerAssignS] at h; simp only [assignedS] at hx; exact assignedE_own e o h x hx
  | .assignVar id e, o, h, x, hx => by
    simp only [checkerAssignS, Bool.and_eq_true, List.contains_eq_mem, decide_eq_true_eq] at h
    simp only [assignedS, List.mem_cons] at hx
    rcases hx with rfl | hx
    · exact h.1
    · exact assignedE_own e o h.2 x hx
  | .assignPlace _ t e, o, h, x, hx => by
    simp only [checkerAssignS, Bool.and_eq_true] at h
    simp only [assignedS, List.mem_append] at hx
    rcases hx with hx | hx
    · exact assignedE_own t o h.1 x hx
    · exact assignedE_own e o h.2 x hx
  | .expr e, o, h, x, hx => by
    simp only [checkerAssignS] at h; simp only [assignedS] at hx; exact assignedE_own e o h x hx
  | .while_ c body, o, h, x, hx => by
    simp only [checkerAssignS, Bool.and_eq_true] at h
    simp only [assignedS, List.mem_append] at hx
    rcases hx with hx | hx
    · exact assignedE_own c o h.1 x hx
    · exact assignedSs_own body o h.2 x hx
  | .for_ _ it body, o, h, x, hx => by
    simp only [checkerAssignS, Bool.and_eq_true] at h
    simp only [assignedS, List.mem_append] at hx
    rcases hx with hx | hx
    · exact assignedE_own it o h.1 x hx
    · exact assignedSs_own body o h.2 x hx
  | .break_, _, _, x, hx => by simp [assignedS] at hx
  | .continue_, _, _, x, hx => by simp [assignedS] at hx
  | .ret e, o, h, x, hx => by
    simp only [checkerAssignS] at h; simp only [assignedS] at hx; exact assignedE_own e o h x hx

theorem assignedSs_own : ∀ (ss : RStmts) (o : List Nat), checkerAssignSs (some o) ss = true → ∀ x ∈ assignedSs ss, x ∈ o
  | .nil, _, _, x, hx => by simp [assignedSs] at hx
  | .cons s r, o, h, x, hx => by
    simp only [checkerAssignSs, Bool.and_eq_true] at h
    simp only [assignedSs, List.mem_append] at hx
    rcases hx with hx | hx
    · exact assignedS_own s o h.1 x hx
    · exact assignedSs_own r o h.2 x hx

theorem assignedEs_own : ∀ (es : RExprs) (o : List Nat), checkerAssignEs (some o) es = true → ∀ x ∈ assignedEs es, x ∈ o
  | .nil, _, _, x, hx => by simp [assignedEs] at hx
  | .cons e r, o, h, x, hx => by
    simp only [checkerAssignEs, Bool.and_eq_true] at h
    simp only [assignedEs, List.mem_append] at hx
    rcases hx with hx | hx
    · exact assignedE_own e o h.1 x hx
    · exact assignedEs_own r o h.2 x hx

theorem assignedArms_own : ∀ (arms : RArms) (o : List Nat), checkerAssignArms (some o) arms = true →
    ∀ x ∈ assignedArms arms, x ∈ o
  | .nil, _, _, x, hx => by simp [assignedArms] at hx
  | .cons _ body r, o, h, x, hx => by
    simp only [checkerAssignArms, Bool.and_eq_true] at h
    simp only [assignedArms, List.mem_append] at hx
    rcases hx with hx | hx
    · exact assignedE_own body o h.1 x hx
    · exact assignedArms_own r o h.2 x hx
end

end Abra.Analysis
