import AbraProofs.Lemmas.HashMapInsert
/-! Lemmas for C27, part 4: `insertCore` computes one of the three cases. -/
namespace Abra.Lib.HashMap

variable {K V : Type} {hash : K → Int} {eq : K → K → Bool}

theorem insertCore_spec (law : Lawful hash eq) (t : Table K V) (d : K → Option V) (hm : Models hash eq t d)
    (hpos : t.buckets.length ≠ 0) (k : K) (v : V) :
    ∃ t', insertCore hash eq t k v = .ok t' ∧
      Models hash eq t' (fun k' => if eq k k' = true then some v else d k') ∧
      t'.count = t.count + (if d k = none then 1 else 0) := by
  obtain ⟨⟨ch, fr, wf⟩, hd⟩ := hm
  obtain ⟨b, hbi, hb, hbm⟩ := bucketIdx_range (hash k) t.buckets.length hpos
  obtain ⟨s, hs, hch⟩ := wf.chain b hb
  unfold insertCore
  simp only [hbi, getI_nat _ b s hs]
  rw [findLoop_chain eq t (hash k) k wf.lenH wf.lenN (ch b) s _ hch (wf.chain_len b hb)]
  cases hf : (ch b).find? (matchP eq t (hash k) k) with
  | some i =>
    have hi := wf.find_some law k b hb i hf
    have hlt : i < t.values.length := by rw [wf.lenV]; exact hi.lt
    simp only [Option.map_some, Int.ofNat_eq_natCast, setI_nat _ i v hlt]
    refine ⟨_, rfl, update_spec law wf d hd k v i hi, ?_⟩
    have : d k ≠ none := by
      intro e
      have := (hd k t.values[i]).mpr ⟨i, hi, List.getElem?_eq_getElem hlt⟩
      rw [e] at this; cases this
    simp [this]
  | none =>
    have hnone := wf.find_none law k b hbm hf
    have hdk : d k = none := by
      cases e : d k with
      | none => rfl
      | some v' =>
        obtain ⟨j, hj, _⟩ := (hd k v').mp e
        exact absurd hj (hnone j)
    simp only [Option.map_none, hdk, if_true]
    by_cases hfl : t.freeList = -1
    · -- a new slot is appended
      have hfr : fr = [] := by have := wf.freeChain; rw [hfl] at this; exact this.of_neg1
      simp only [hfl, ne_eq, not_true_eq_false, if_false, setI_nat _ b _ hb]
      refine ⟨_, rfl, ?_, rfl⟩
      apply fresh_slot_spec law wf d hd k v b hb hbm s hs hnone t.keys.length _ []
      · intro j; exact getElem?_concat' _ _ _
      · intro j; simp only; rw [getElem?_concat', wf.lenV]
      · intro j; simp only; rw [getElem?_concat', wf.lenH]
      · intro j; simp only; rw [getElem?_concat', wf.lenN]
      · intro j; simp only; rw [getElem?_concat', wf.lenO]
      · rfl
      · simp [wf.lenV]
      · simp [wf.lenH]
      · simp [wf.lenN]
      · simp [wf.lenO]
      · rw [List.getElem?_eq_none (by rw [wf.lenO]; exact Nat.le_refl _)]; simp
      · exact Chain.nil
      · exact List.nodup_nil
      · intro i
        have := wf.freeIff i
        rw [hfr] at this
        constructor
        · intro h; cases h
        · rintro ⟨_, h⟩; exact this.mpr h
      · rfl
      · simp
    · -- a slot is taken from the free list
      obtain ⟨h0, nf, fr', hfr, hnf, hfc'⟩ := wf.freeChain.uncons hfl
      have htgI : ((t.freeList.toNat : Nat) : Int) = t.freeList := by omega
      have hnd := wf.freeNodup
      rw [hfr] at hnd
      have hnd' := List.nodup_cons.mp hnd
      have hoccF : t.occupied[t.freeList.toNat]? = some false := (wf.freeIff _).mp (by rw [hfr]; simp)
      have hlt : t.freeList.toNat < t.keys.length := by rw [← wf.lenO]; exact getElem?_lt hoccF
      simp only [hfl, ne_eq, not_false_eq_true, if_true, getI_ok _ _ _ h0 hnf,
        setI_ok t.keys _ k h0 hlt, setI_ok t.values _ v h0 (by rw [wf.lenV]; exact hlt),
        setI_ok t.hashes _ (hash k) h0 (by rw [wf.lenH]; exact hlt), setI_ok t.nexts _ s h0 (by rw [wf.lenN]; exact hlt),
        setI_ok t.occupied _ true h0 (by rw [wf.lenO]; exact hlt), setI_nat _ b _ hb]
      refine ⟨_, rfl, ?_, rfl⟩
      apply fresh_slot_spec law wf d hd k v b hb hbm s hs hnone t.freeList.toNat _ fr'
      · intro j; exact getElem?_set' _ _ _ _ hlt
      · intro j; exact getElem?_set' _ _ _ _ (by rw [wf.lenV]; exact hlt)
      · intro j; exact getElem?_set' _ _ _ _ (by rw [wf.lenH]; exact hlt)
      · intro j; exact getElem?_set' _ _ _ _ (by rw [wf.lenN]; exact hlt)
      · intro j; exact getElem?_set' _ _ _ _ (by rw [wf.lenO]; exact hlt)
      · simp only; rw [htgI]
      · simp [wf.lenV]
      · simp [wf.lenH]
      · simp [wf.lenN]
      · simp [wf.lenO]
      · rw [hoccF]; simp
      · exact hfc'
      · exact hnd'.2
      · intro i
        have := wf.freeIff i
        rw [hfr, List.mem_cons] at this
        constructor
        · intro hi
          exact ⟨fun e => hnd'.1 (e ▸ hi), this.mp (Or.inr hi)⟩
        · rintro ⟨hne, ho⟩
          cases this.mpr ho with
          | inl e => exact absurd e hne
          | inr h => exact h
      · rfl
      · exact count_set_true _ _ hoccF

end Abra.Lib.HashMap
