import AbraModel.Arena
/-! Helper lemmas for C38: padding arithmetic and the allocation invariant. -/
namespace Abra.Arena

theorem padding_lt (x a : Nat) (h : 0 < a) : padding x a < a := Nat.mod_lt _ h

/-- the padded address is a multiple of the alignment, whatever the address was -/
theorem padding_aligned (x a : Nat) (h : 0 < a) : (x + padding x a) % a = 0 := by
  unfold padding
  have hm : x % a < a := Nat.mod_lt _ h
  by_cases h0 : x % a = 0
  · simp [h0]
  · have e : (a - x % a) % a = a - x % a := Nat.mod_eq_of_lt (by omega)
    rw [e]
    have hx := Nat.div_add_mod x a
    have e2 : x + (a - x % a) = a * (x / a + 1) := by
      rw [Nat.mul_add, Nat.mul_one]
      generalize a * (x / a) = q at hx
      omega
    rw [e2]; exact Nat.mul_mod_right _ _

/-- the padding is the *least* number of bytes that aligns the address (no byte is wasted) -/
theorem padding_least (x a k : Nat) (h : 0 < a) (hk : (x + k) % a = 0) : padding x a ≤ k := by
  unfold padding
  have hm : x % a < a := Nat.mod_lt _ h
  by_cases h0 : x % a = 0
  · simp [h0]
  · have e : (a - x % a) % a = a - x % a := Nat.mod_eq_of_lt (by omega)
    rw [e]
    -- (x + k) % a = 0 and x % a = m ≠ 0 force k % a = a - m
    have h1 : (x % a + k % a) % a = 0 := by rw [← Nat.add_mod]; exact hk
    have hkm : k % a < a := Nat.mod_lt _ h
    have hkle : k % a ≤ k := Nat.mod_le _ _
    by_cases hlt : x % a + k % a < a
    · rw [Nat.mod_eq_of_lt hlt] at h1; omega
    · have h2 : (x % a + k % a) % a = x % a + k % a - a := by
        rw [Nat.mod_eq_sub_mod (by omega)]
        exact Nat.mod_eq_of_lt (by omega)
      omega

/-- A recorded placement lies inside the buffer it names and its absolute address is aligned. -/
def Placement.ok (bs : List Buf) (p : Placement) : Prop :=
  ∃ b, bs[p.buf]? = some b ∧ p.start + p.size ≤ b.len ∧ (b.base + p.start) % p.align = 0

/-- Two placements do not share a byte: different buffers, or disjoint ranges of the same buffer. -/
def Placement.disj (p q : Placement) : Prop :=
  p.buf ≠ q.buf ∨ p.start + p.size ≤ q.start ∨ q.start + q.size ≤ p.start

/-- The allocation invariant: the offset is inside the current buffer, every placement made so far
    is in bounds and aligned, placements in the current buffer end at or before the offset,
    placements in retired buffers name retired buffers, and placements are pairwise disjoint. -/
structure Inv (s : State) (log : List Placement) : Prop where
  off_le : s.offset ≤ s.cur.len
  ok : ∀ p ∈ log, Placement.ok s.bufs p
  below : ∀ p ∈ log, p.buf ≤ s.old.length ∧ (p.buf = s.old.length → p.start + p.size ≤ s.offset)
  disj : log.Pairwise Placement.disj

theorem inv_init (base cap : Nat) : Inv (withCapacity base cap) [] :=
  ⟨Nat.zero_le _, by simp, by simp, List.Pairwise.nil⟩

/-- `alloc` without the local definitions -/
theorem alloc_eq (s : State) (r : Req) : alloc s r =
    if s.offset + padding (s.cur.base + s.offset) r.align + r.size > s.cur.len then
      (⟨⟨r.fresh, newCap s.cur.len r.size r.align⟩, s.old ++ [s.cur], padding r.fresh r.align + r.size⟩,
       ⟨s.old.length + 1, padding r.fresh r.align, r.size, r.align⟩)
    else
      (⟨s.cur, s.old, s.offset + padding (s.cur.base + s.offset) r.align + r.size⟩,
       ⟨s.old.length, s.offset + padding (s.cur.base + s.offset) r.align, r.size, r.align⟩) := rfl

theorem bufs_alloc_prefix (s : State) (r : Req) : s.bufs <+: (alloc s r).1.bufs := by
  rw [alloc_eq]; unfold State.bufs
  split
  · exact List.prefix_append _ _
  · exact List.prefix_refl _

theorem getElem?_of_prefix {α} {l₁ l₂ : List α} (h : l₁ <+: l₂) {i : Nat} {b : α}
    (hb : l₁[i]? = some b) : l₂[i]? = some b := by
  obtain ⟨t, rfl⟩ := h
  have hi : i < l₁.length := by
    rcases Nat.lt_or_ge i l₁.length with h | h
    · exact h
    · rw [List.getElem?_eq_none h] at hb; cases hb
  rw [List.getElem?_append_left hi]; exact hb

theorem ok_mono {bs bs' : List Buf} (h : bs <+: bs') {p : Placement} (hp : Placement.ok bs p) :
    Placement.ok bs' p := by
  obtain ⟨b, hb, h1, h2⟩ := hp
  exact ⟨b, getElem?_of_prefix h hb, h1, h2⟩

/-- one allocation preserves the invariant (for any address the environment hands out) -/
theorem inv_alloc (s : State) (log : List Placement) (r : Req) (h : Inv s log) (ha : 0 < r.align) :
    Inv (alloc s r).1 (log ++ [(alloc s r).2]) := by
  have hpre := bufs_alloc_prefix s r
  rw [alloc_eq] at hpre ⊢
  by_cases hsw : s.offset + padding (s.cur.base + s.offset) r.align + r.size > s.cur.len
  · -- buffer switch
    simp only [hsw, if_true] at hpre ⊢
    have hpl := padding_lt r.fresh r.align ha
    have hal := padding_aligned r.fresh r.align ha
    refine ⟨?_, ?_, ?_, ?_⟩
    · show padding r.fresh r.align + r.size ≤ newCap s.cur.len r.size r.align
      unfold newCap; omega
    · intro p hp
      rcases List.mem_append.1 hp with hp | hp
      · exact ok_mono hpre (h.ok p hp)
      · have : p = ⟨s.old.length + 1, padding r.fresh r.align, r.size, r.align⟩ := by simpa using hp
        subst this
        refine ⟨⟨r.fresh, newCap s.cur.len r.size r.align⟩, ?_, ?_, hal⟩
        · simp [State.bufs]
        · show padding r.fresh r.align + r.size ≤ newCap s.cur.len r.size r.align
          unfold newCap; omega
    · intro p hp
      rcases List.mem_append.1 hp with hp | hp
      · have := h.below p hp
        simp only [List.length_append, List.length_singleton]
        omega
      · have : p = ⟨s.old.length + 1, padding r.fresh r.align, r.size, r.align⟩ := by simpa using hp
        subst this
        simp
    · rw [List.pairwise_append]
      refine ⟨h.disj, List.pairwise_singleton _ _, ?_⟩
      intro p hp q hq
      have hq' : q = ⟨s.old.length + 1, padding r.fresh r.align, r.size, r.align⟩ := by simpa using hq
      subst hq'
      have := h.below p hp
      left; show p.buf ≠ s.old.length + 1; omega
  · -- same buffer
    simp only [hsw, if_false] at hpre ⊢
    have hal := padding_aligned (s.cur.base + s.offset) r.align ha
    refine ⟨?_, ?_, ?_, ?_⟩
    · show s.offset + padding (s.cur.base + s.offset) r.align + r.size ≤ s.cur.len
      omega
    · intro p hp
      rcases List.mem_append.1 hp with hp | hp
      · exact h.ok p hp
      · have : p = ⟨s.old.length, s.offset + padding (s.cur.base + s.offset) r.align, r.size, r.align⟩ := by
          simpa using hp
        subst this
        refine ⟨s.cur, ?_, ?_, ?_⟩
        · simp [State.bufs]
        · show s.offset + padding (s.cur.base + s.offset) r.align + r.size ≤ s.cur.len
          omega
        · show (s.cur.base + (s.offset + padding (s.cur.base + s.offset) r.align)) % r.align = 0
          rw [← Nat.add_assoc]; exact hal
    · intro p hp
      rcases List.mem_append.1 hp with hp | hp
      · have := h.below p hp
        refine ⟨this.1, fun e => ?_⟩
        have := this.2 e
        show p.start + p.size ≤ s.offset + padding (s.cur.base + s.offset) r.align + r.size
        omega
      · have : p = ⟨s.old.length, s.offset + padding (s.cur.base + s.offset) r.align, r.size, r.align⟩ := by
          simpa using hp
        subst this
        simp
    · rw [List.pairwise_append]
      refine ⟨h.disj, List.pairwise_singleton _ _, ?_⟩
      intro p hp q hq
      have hq' : q = ⟨s.old.length, s.offset + padding (s.cur.base + s.offset) r.align, r.size, r.align⟩ := by
        simpa using hq
      subst hq'
      have hb := h.below p hp
      by_cases e : p.buf = s.old.length
      · right; left
        have := hb.2 e
        show p.start + p.size ≤ s.offset + padding (s.cur.base + s.offset) r.align
        omega
      · left; exact e

theorem run_cons (s : State) (r : Req) (rs : List Req) :
    run s (r :: rs) = ((run (alloc s r).1 rs).1, (alloc s r).2 :: (run (alloc s r).1 rs).2) := rfl

/-- the invariant holds along every history -/
theorem inv_run (rs : List Req) : ∀ (s : State) (log : List Placement), Inv s log →
    (∀ r ∈ rs, 0 < r.align) → Inv (run s rs).1 (log ++ (run s rs).2) := by
  induction rs with
  | nil => intro s log h _; simpa [run] using h
  | cons r rs ih =>
    intro s log h ha
    rw [run_cons]
    have h1 := inv_alloc s log r h (ha r (by simp))
    have h2 := ih (alloc s r).1 (log ++ [(alloc s r).2]) h1 (fun r' hr' => ha r' (by simp [hr']))
    simpa [List.append_assoc] using h2

theorem bufs_run_prefix (rs : List Req) : ∀ s : State, s.bufs <+: (run s rs).1.bufs := by
  induction rs with
  | nil => intro s; exact List.prefix_refl _
  | cons r rs ih =>
    intro s
    rw [run_cons]
    exact List.IsPrefix.trans (bufs_alloc_prefix s r) (ih _)

theorem run_append (rs₁ rs₂ : List Req) : ∀ s : State,
    run s (rs₁ ++ rs₂) =
      ((run (run s rs₁).1 rs₂).1, (run s rs₁).2 ++ (run (run s rs₁).1 rs₂).2) := by
  induction rs₁ with
  | nil => intro s; simp [run]
  | cons r rs ih => intro s; simp [run_cons, ih]

end Abra.Arena
