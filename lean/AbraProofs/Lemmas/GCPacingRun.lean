import AbraProofs.Lemmas.GCPacing
/-! Pacing of the collector, continued: the invariant of the counters, what one call of `maybe_gc` achieves
    when the debt covers the heap, the mutator's byte contract, and the invariant of whole runs from which the
    heap bound follows. -/
namespace Abra.GCP
open Abra.GC

/-- the invariant of a pacing state: the invariant of M5, a duplicate-free gray stack, `heap_size` is the
    sum of the object sizes, **the debt covers the heap**, and a running cycle has a positive debt -/
structure PInv (p : PSt) : Prop where
  inv : Inv p.g
  nodup : p.g.gray.Nodup
  acct : p.heapBytes = sumSize p.size p.g.heap
  debt : p.heapBytes ≤ p.debt
  pos : p.g.phase ≠ .idle → 0 < p.debt

/-- What one VM instruction may do to a pacing state: the graph contract of M5, and on the byte side no
    object shrinks, `heap_size` is again the sum of the sizes, `gc_debt` grew by exactly as much as
    `heap_size`, `last_gc_heap_size` is untouched (see `pmutatorOKb`). -/
structure PMutatorOK (p p' : PSt) (new pushed : List Nat) : Prop where
  graph : MutatorOK p.g p'.g new pushed
  nodup : p'.g.gray.Nodup
  sizeMono : ∀ a ∈ p.g.heap, p.size a ≤ p'.size a
  acct : p'.heapBytes = sumSize p'.size p'.g.heap
  debt : p'.debt = p.debt + (p'.heapBytes - p.heapBytes)
  lastGc : p'.lastGc = p.lastGc

theorem pmut_heap {p p' : PSt} {new pushed : List Nat} (m : PMutatorOK p p' new pushed) :
    p'.g.heap = p.g.heap ++ new := by
  unfold St.heap; rw [m.graph.done, m.graph.todo, List.append_assoc]

theorem pmut_grow {p p' : PSt} {new pushed : List Nat} (h : PInv p) (m : PMutatorOK p p' new pushed) :
    p.heapBytes ≤ p'.heapBytes := by
  rw [m.acct, h.acct, pmut_heap m, sumSize_append]
  have := (sumSize_grow_part (fun _ => true) m.sizeMono).2
  omega

theorem pmut_pinv {p p' : PSt} {new pushed : List Nat} (h : PInv p) (m : PMutatorOK p p' new pushed) :
    PInv p' := by
  have hg := pmut_grow h m
  refine ⟨mutator_inv h.inv m.graph, m.nodup, m.acct, ?_, ?_⟩
  · have := h.debt; rw [m.debt]; omega
  · intro hp
    rw [m.graph.phase] at hp
    have := h.pos hp; rw [m.debt]; omega

/-! ### `maybe_gc` in state Marking -/

theorem markIncr_g (p : PSt) (leak : Nat) :
    (markIncr p leak).g = finishMark (markLoop p.size (markFuel p.g) (stepFactor * p.debt - leak) p.g) := rfl

theorem markIncr_heap {p : PSt} (leak : Nat) : (markIncr p leak).g.heap = p.g.heap := by
  rw [markIncr_g, finishMark_heap, (markLoop_ext _ _ _ _).heap]

theorem markIncr_spec {p : PSt} {L : Nat → Prop} (leak : Nat) (h : PInv p) (hp : p.g.phase = .marking)
    (hL : InvL p.g L) :
    PInv (markIncr p leak) ∧ InvL (markIncr p leak).g L ∧ (markIncr p leak).g.phase ≠ .idle ∧
    whiteIn (markIncr p leak).g L ≤ whiteIn p.g L := by
  have hM : InvM p.g := by have := h.inv; unfold GC.Inv at this; rw [hp] at this; exact this
  have hl := markLoop_inv p.size (markFuel p.g) (stepFactor * p.debt - leak) p.g hM h.nodup hL
  have hext := markLoop_ext p.size (markFuel p.g) (stepFactor * p.debt - leak) p.g
  have hph : (markLoop p.size (markFuel p.g) (stepFactor * p.debt - leak) p.g).phase = .marking := by
    rw [hext.phase]; exact hp
  refine ⟨⟨?_, ?_, ?_, h.debt, fun _ => h.pos (by rw [hp]; simp)⟩, ?_, ?_, ?_⟩
  · rw [markIncr_g]; exact finishMark_inv hl.1 hph
  · rw [markIncr_g]; exact finishMark_nodup hl.1 hl.2.1
  · show p.heapBytes = sumSize p.size (markIncr p leak).g.heap
    rw [markIncr_heap]; exact h.acct
  · rw [markIncr_g]; exact finishMark_invL hl.2.2 hl.1.done
  · rw [markIncr_g]; exact finishMark_phase_ne_idle hph
  · rw [markIncr_g]
    exact Nat.le_trans (finishMark_whiteIn_le L) (whiteIn_ext L hext)

/-- one marking increment whose slice covers the heap empties the gray stack; it then enters the sweep
    phase unless the root rescan finds an unmarked root, and in that case a white object that was reachable
    when the cycle started has been marked -/
theorem markIncr_cover {p : PSt} {L : Nat → Prop} (leak : Nat) (h : PInv p) (hp : p.g.phase = .marking)
    (hL : InvL p.g L) (hc : leak + p.heapBytes < stepFactor * p.debt) :
    (markLoop p.size (markFuel p.g) (stepFactor * p.debt - leak) p.g).gray = [] ∧
    ((markIncr p leak).g.phase = .sweeping ∨
     ((markIncr p leak).g.phase = .marking ∧ whiteIn (markIncr p leak).g L + 1 ≤ whiteIn p.g L)) := by
  have hM : InvM p.g := by have := h.inv; unfold GC.Inv at this; rw [hp] at this; exact this
  have hl := markLoop_inv p.size (markFuel p.g) (stepFactor * p.debt - leak) p.g hM h.nodup hL
  have hext := markLoop_ext p.size (markFuel p.g) (stepFactor * p.debt - leak) p.g
  have hph : (markLoop p.size (markFuel p.g) (stepFactor * p.debt - leak) p.g).phase = .marking := by
    rw [hext.phase]; exact hp
  have hpsi : psi p.size p.g < stepFactor * p.debt - leak := by
    have := psi_le p.size p.g
    have := h.acct
    omega
  have hdr := markLoop_drains p.size (markFuel p.g) (stepFactor * p.debt - leak) p.g hM h.nodup hpsi
    (markFuel_ok p.g)
  refine ⟨hdr, ?_⟩
  rw [markIncr_g]
  rcases finishMark_progress hl.1 hph hl.2.2 hdr with h1 | ⟨h1, h2⟩
  · exact Or.inl h1
  · exact Or.inr ⟨h1, Nat.le_trans h2 (whiteIn_ext L hext)⟩

/-! ### `maybe_gc` in state Sweeping -/

theorem swInv_of {p : PSt} {L : Nat → Prop} (h : PInv p) (hp : p.g.phase = .sweeping) (hL : InvL p.g L) :
    SwInv p L :=
  ⟨by have := h.inv; unfold GC.Inv at this; rw [hp] at this; exact this, hp, hL, h.acct⟩

theorem sweepIncr_spec {p : PSt} {L : Nat → Prop} (h : PInv p) (hp : p.g.phase = .sweeping)
    (hL : InvL p.g L) :
    PInv (sweepIncr p) ∧ InvL (sweepIncr p).g L ∧ (sweepIncr p).heapBytes ≤ p.heapBytes ∧
    (sweepIncr p).debt = p.debt ∧ (sweepIncr p).size = p.size ∧
    ((sweepIncr p).g.phase = .sweeping ∧ (sweepIncr p).lastGc = p.lastGc ∨
     (sweepIncr p).g.phase = .idle ∧ (sweepIncr p).lastGc = (sweepIncr p).heapBytes ∧
       (sweepIncr p).heapBytes ≤ bytesIn p L) := by
  have hs := sweepLoop_spec (L := L) p.g.todo.length 0 (stepFactor * p.debt) p (swInv_of h hp hL)
  obtain ⟨hsw, hsize, hdebt, hlast, hle, hbytes⟩ := hs
  unfold sweepIncr
  simp only
  cases ht : (sweepLoop p.g.todo.length 0 (stepFactor * p.debt) p).g.todo with
  | cons a r =>
    simp only
    have hpos := h.pos (by rw [hp]; simp)
    refine ⟨⟨?_, ?_, hsw.acct, ?_, ?_⟩, hsw.invL, hle, hdebt, hsize, Or.inl ⟨hsw.phase, hlast⟩⟩
    · unfold GC.Inv; rw [hsw.phase]; exact hsw.invS
    · rw [hsw.invS.gray]; exact List.nodup_nil
    · rw [hdebt]; have := h.debt; omega
    · intro _; rw [hdebt]; exact hpos
  | nil =>
    simp only
    have hI : Inv (sweepTail (sweepLoop p.g.todo.length 0 (stepFactor * p.debt) p).g) :=
      sweepTail_inv hsw.invS hsw.phase
    have htail : sweepTail (sweepLoop p.g.todo.length 0 (stepFactor * p.debt) p).g =
        { (sweepLoop p.g.todo.length 0 (stepFactor * p.debt) p).g with
          phase := .idle, todo := (sweepLoop p.g.todo.length 0 (stepFactor * p.debt) p).g.done, done := [] } := by
      unfold sweepTail; rw [ht]
    have hheap : (sweepTail (sweepLoop p.g.todo.length 0 (stepFactor * p.debt) p).g).heap =
        (sweepLoop p.g.todo.length 0 (stepFactor * p.debt) p).g.heap := by
      rw [htail]; simp [St.heap, ht]
    have hphase : (sweepTail (sweepLoop p.g.todo.length 0 (stepFactor * p.debt) p).g).phase = .idle := by
      rw [htail]
    have hallL : ∀ x ∈ (sweepLoop p.g.todo.length 0 (stepFactor * p.debt) p).g.heap, inL L x = true := by
      intro x hx
      simp only [St.heap, ht, List.append_nil] at hx
      exact (inL_iff L x).2 (hsw.invL.doneL x hx)
    refine ⟨⟨hI, ?_, ?_, ?_, ?_⟩, ?_, hle, hdebt, hsize, Or.inr ⟨hphase, by first | rfl | trivial, ?_⟩⟩
    · rw [htail]; show (sweepLoop p.g.todo.length 0 (stepFactor * p.debt) p).g.gray.Nodup
      rw [hsw.invS.gray]; exact List.nodup_nil
    · show (sweepLoop p.g.todo.length 0 (stepFactor * p.debt) p).heapBytes = sumSize _ _
      rw [hheap]; exact hsw.acct
    · show (sweepLoop p.g.todo.length 0 (stepFactor * p.debt) p).heapBytes ≤
        (sweepLoop p.g.todo.length 0 (stepFactor * p.debt) p).debt
      rw [hdebt]; have := h.debt; omega
    · intro hne; exact absurd hphase hne
    · have h1 : InvL (sweepOne (sweepLoop p.g.todo.length 0 (stepFactor * p.debt) p).g) L := sweepOne_invL hsw.invL
      have hso : sweepOne (sweepLoop p.g.todo.length 0 (stepFactor * p.debt) p).g =
          (sweepLoop p.g.todo.length 0 (stepFactor * p.debt) p).g := by unfold sweepOne; rw [ht]
      apply hsw.invL.transfer
      · rw [htail]
      · intro x; rw [htail]; rfl
      · intro x hx; rw [hheap] at hx; exact hx
      · intro x hx _
        rw [htail] at hx
        exact hsw.invL.doneL x hx
      · intro x hx; rw [htail] at hx; simp at hx
    · show (sweepLoop p.g.todo.length 0 (stepFactor * p.debt) p).heapBytes ≤ bytesIn p L
      refine Nat.le_trans (Nat.le_of_eq ?_) hbytes
      unfold bytesIn
      rw [sumSize_filter_all _ hallL]; exact hsw.acct

/-- one sweeping increment whose slice covers the heap finishes the sweep: the collector is idle again,
    `last_gc_heap_size` is the new `heap_size`, and that is at most the bytes of the ghost set -/
theorem sweepIncr_cover {p : PSt} {L : Nat → Prop} (h : PInv p) (hp : p.g.phase = .sweeping)
    (hL : InvL p.g L) :
    (sweepIncr p).g.phase = .idle ∧ (sweepIncr p).lastGc = (sweepIncr p).heapBytes ∧
    (sweepIncr p).heapBytes ≤ bytesIn p L := by
  have hsw := swInv_of h hp hL
  have hpos := h.pos (by rw [hp]; simp)
  have hfin := sweepLoop_finishes (L := L) p.g.todo.length 0 (stepFactor * p.debt) p hsw
    (by right
        have h1 := h.acct
        have h2 := h.debt
        have h3 : sumSize p.size p.g.todo ≤ sumSize p.size p.g.heap := by
          unfold St.heap; rw [sumSize_append]; omega
        unfold stepFactor; omega)
    (Nat.le_refl _)
  rcases (sweepIncr_spec h hp hL).2.2.2.2.2 with ⟨h1, _⟩ | h1
  · exfalso
    unfold sweepIncr at h1
    simp only [hfin] at h1
    have : (sweepTail (sweepLoop p.g.todo.length 0 (stepFactor * p.debt) p).g).phase = .idle := by
      unfold sweepTail; rw [hfin]
    rw [this] at h1; cases h1
  · exact h1

/-! ### `maybe_gc` preserves the invariant; in particular the debt always covers the heap -/

theorem gcStart_heap (σ : St) : (gcStart σ).heap = σ.heap := by
  unfold gcStart; split <;> simp [St.heap]

theorem start_pinv {p : PSt} (h : PInv p) (hp : p.g.phase = .idle) (hgt : p.heapBytes > p.lastGc * pauseFactor) :
    PInv { p with g := gcStart p.g } := by
  have hI : InvI p.g := by have := h.inv; unfold GC.Inv at this; rw [hp] at this; exact this
  refine ⟨gcStart_inv h.inv, ?_, ?_, h.debt, ?_⟩
  · show (gcStart p.g).gray.Nodup
    unfold gcStart; rw [hp]; simp only
    apply (markAll_grayOK (σ := p.g) ?_ ?_).2
    · intro g hg; rw [hI.gray] at hg; simp at hg
    · rw [hI.gray]; exact List.nodup_nil
  · show p.heapBytes = sumSize p.size (gcStart p.g).heap
    rw [gcStart_heap]; exact h.acct
  · intro _; have := h.debt; show 0 < p.debt; omega

theorem maybeGc_pinv {p : PSt} (leak : Nat) (h : PInv p) : PInv (maybeGc p leak) := by
  unfold maybeGc
  cases hp : p.g.phase with
  | idle =>
    simp only
    split
    · rename_i hgt; exact start_pinv h hp hgt
    · exact h
  | marking => exact (markIncr_spec leak h hp (invL_top _)).1
  | sweeping => exact (sweepIncr_spec h hp (invL_top _)).1

/-! ### the ghost set at the start of a cycle -/

theorem gcStart_invL {σ0 : St} (h0 : Inv σ0) (hp : σ0.phase = .idle) : InvL (gcStart σ0) (Reach σ0) := by
  have hI : InvI σ0 := by unfold GC.Inv at h0; rw [hp] at h0; exact h0
  have hroots : (gcStart σ0).roots = σ0.roots := by
    have := gcStep_roots σ0; unfold gcStep at this; rw [hp] at this; exact this
  have hch : ∀ x, (gcStart σ0).children x = σ0.children x := by
    intro x; have := gcStep_children σ0 x; unfold gcStep at this; rw [hp] at this; exact this
  refine ⟨fun a ha => reach_congr hroots hch a ha, ?_, ?_, ?_⟩
  · intro a _ hl c hc; rw [hch] at hc; exact Reach.step hl hc
  · intro a ha hm
    unfold gcStart at ha hm; rw [hp] at ha hm; simp only at ha hm
    have hm' : (markAll σ0 σ0.roots).marked a = true := hm
    rw [markAll_marked] at hm'
    have ha' : a ∈ σ0.todo := by simpa using ha
    rw [hI.white a ha'] at hm'
    exact Reach.root (by simpa using hm')
  · intro a ha
    unfold gcStart at ha; rw [hp] at ha; simp only at ha
    have : a ∈ (markAll σ0 σ0.roots).done := ha
    rw [markAll_done, hI.done] at this; simp at this

/-- bytes and number of the heap entries reachable from the roots -/
noncomputable def reachBytes (p : PSt) : Nat := bytesIn p (Reach p.g)
noncomputable def reachCount (p : PSt) : Nat := sumSize (fun _ => 1) (p.g.heap.filter (inL (Reach p.g)))

theorem whiteIn_le_count (σ : St) (L : Nat → Prop) :
    whiteIn σ L ≤ sumSize (fun _ => 1) (σ.heap.filter (inL L)) := by
  unfold whiteIn
  apply sumSize_filter_mono
  intro x _ hx
  exact (Bool.and_eq_true_iff.1 hx).2

/-! ### the mutator and the ghost quantities -/

theorem pmut_bytesIn {p p' : PSt} {new pushed : List Nat} {L : Nat → Prop} (h : PInv p)
    (m : PMutatorOK p p' new pushed) :
    bytesIn p' (fun a => L a ∨ a ∈ new) ≤ bytesIn p L + (p'.heapBytes - p.heapBytes) := by
  unfold bytesIn
  rw [pmut_heap m, sumSize_filter_append]
  have h1 : sumSize p'.size (p.g.heap.filter (inL (fun a => L a ∨ a ∈ new))) =
      sumSize p'.size (p.g.heap.filter (inL L)) := by
    apply sumSize_filter_congr
    intro x hx
    have hnn : x ∉ new := fun hn => m.graph.fresh x hn hx
    cases hl : inL L x with
    | true => exact (inL_iff _ x).2 (Or.inl ((inL_iff L x).1 hl))
    | false =>
      cases hl' : inL (fun a => L a ∨ a ∈ new) x with
      | false => rfl
      | true =>
        rcases (inL_iff _ x).1 hl' with h2 | h2
        · rw [(inL_iff L x).2 h2] at hl; cases hl
        · exact absurd h2 hnn
  rw [h1]
  have h2 := (sumSize_grow_part (inL L) m.sizeMono).1
  have h3 := sumSize_filter_le p'.size (inL (fun a => L a ∨ a ∈ new)) new
  have h4 := m.acct
  rw [pmut_heap m, sumSize_append] at h4
  have h5 := h.acct
  have h6 := pmut_grow h m
  omega

theorem pmut_whiteIn {p p' : PSt} {new pushed : List Nat} {L : Nat → Prop}
    (m : PMutatorOK p p' new pushed) (hp : p.g.phase ≠ .idle) :
    whiteIn p'.g (fun a => L a ∨ a ∈ new) ≤ whiteIn p.g L := by
  unfold whiteIn
  rw [pmut_heap m, sumSize_filter_append]
  have hnew : new.filter (fun a => !p'.g.marked a && inL (fun a => L a ∨ a ∈ new) a) = [] := by
    apply List.filter_eq_nil_iff.2
    intro x hx
    have := m.graph.newMark x hx
    have hph : (p.g.phase != Phase.idle) = true := by simpa using hp
    rw [hph] at this
    simp [this]
  rw [hnew]
  simp only [sumSize, Nat.add_zero]
  apply sumSize_filter_mono
  intro x hx hq
  rcases Bool.and_eq_true_iff.1 hq with ⟨h1, h2⟩
  have hnn : x ∉ new := fun hn => m.graph.fresh x hn hx
  have hL : L x := by
    rcases (inL_iff _ x).1 h2 with h3 | h3
    · exact h3
    · exact absurd h3 hnn
  have hm : p.g.marked x = false := by
    rcases m.graph.marks x hx with e | ⟨_, e, _⟩
    · rw [← e]; simpa using h1
    · exact e
  simp [hm, (inL_iff L x).2 hL]

end Abra.GCP
