import AbraProofs.Lemmas.CompileSim4
/-!
Part 6 of the simulation: statements.
-/
namespace Abra.Compile
open Abra.Sem Abra.VM

/-- steps taken before a fragment starts (same pending operands, same depth) -/
theorem Out.prepend {W : World} {lc : Nat × Nat} {d pos0 pos e : Nat} {L0 L T : List VM.Val} {out0 out : List String}
    {res : Sem.Val → List VM.Val} {okP sgP : List VM.Val → Env → Prop} {vP : Sem.Val → Prop} {r : Res Sem.Val}
    (hst : Steps W.P (W.cfg pos0 L0 T out0) (W.cfg pos L T out)) (hl : L.length = L0.length)
    (h : Out W lc d pos e L T out res okP sgP vP r) : Out W lc d pos0 e L0 T out0 res okP sgP vP r := by
  cases r with
  | ok v s =>
    obtain ⟨L', h1, h2, h3, h4⟩ := h
    exact ⟨L', hst.trans h1, h2, by omega, h4⟩
  | sig g s =>
    cases g with
    | err k => obtain ⟨s1, s2, h1, h2, h3⟩ := h; exact ⟨s1, s2, hst.trans h1, h2, h3⟩
    | brk => obtain ⟨L', h1, h2, h3⟩ := h; exact ⟨L', hst.trans h1, h2, by omega⟩
    | cont => obtain ⟨L', h1, h2, h3⟩ := h; exact ⟨L', hst.trans h1, h2, by omega⟩
    | ret v => exact h
  | timeout => trivial
  | stuck w => trivial

theorem matchPat_bind (m : Nat) (h : Array Sem.Obj) (x : String) (v : Sem.Val) :
    matchPat (m + 1) h (.bind x) v = some (some [(x, v)]) := by
  simp [matchPat]

theorem unit_res (il : Bool) : (if il then pushed Sem.Val.unit Ty.unit else ([] : List VM.Val)) = [] := by
  cases il <;> rfl

theorem compS_assign_inv (op : AsgOp) (hop : op ≠ .set) (x : String) (e : Expr) (Γ : TEnv) (next d : Nat) (il : Bool)
    (code : Code) (τ : Ty) (Γ' : TEnv) (n' : Nat) (h : compS Γ next d il (.assign x op e) = some (code, τ, Γ', n')) :
    ∃ s o ce, Γ.find x = some (s, .int) ∧ asgOp op = some o ∧ compE Γ next (d + 1) e = some (ce, .int, n') ∧
      code = [.load s] ++ ce ++ [.intOp o .top .top .top, .store s] ∧ τ = .unit ∧ Γ' = Γ := by
  cases op <;> first
    | exact absurd rfl hop
    | (simp only [compS] at h
       split at h
       · rename_i s o ce n1 h1 h2 h3
         simp only [Option.some.injEq, Prod.mk.injEq] at h
         obtain ⟨rfl, rfl, rfl, rfl⟩ := h
         exact ⟨s, o, ce, h1, h2, h3, rfl, rfl, rfl⟩
       · simp at h)

theorem evalS_assign_compound (Pg : Prog) (n : Nat) (op : AsgOp) (hop : op ≠ .set) (x : String) (e : Expr) (st : St)
    {old : Sem.Val} {bop : BinOp} (h1 : lookup st.env x = some old) (h2 : asgBin op = some bop) :
    evalS (n + 1) Pg st (.assign x op e) =
      (evalE n Pg st e).bind fun v s1 => (binop n bop old v s1).bind fun r s2 => assignVar s2 x r := by
  cases op <;> first | exact absurd rfl hop | (simp only [evalS, h1, h2])

theorem asg_binop (op : AsgOp) (o : IntOp) (h : asgOp op = some o) :
    ∃ bop, asgBin op = some bop ∧ ∀ (m : Nat) (k y : Int) (s : St),
      binop (m + 1) bop (.int k) (.int y) s = ofOut (I64.apply o.toI64 k y) s := by
  cases op <;> simp only [asgOp, Option.some.injEq, reduceCtorEq] at h <;> subst h <;>
    exact ⟨_, rfl, fun _ _ _ _ => rfl⟩

theorem simS_succ {W : World} {Pg : Prog} {n : Nat} (hE : SimE W Pg n) (hS : SimS W Pg n) (hSs : SimSs W Pg n) :
    SimS W Pg (n + 1) := by
  intro s st Γ next il code τ Γ' n' lc d pos L T hc hd hcode henv hwf hlen
  cases s with
  | let_ p e =>
    cases p with
    | bind x =>
      simp only [compS] at hc
      split at hc
      · simp at hc
      · rename_i ce t n1 hnu heq
        simp only [Option.some.injEq, Prod.mk.injEq] at hc
        obtain ⟨rfl, rfl, rfl, rfl⟩ := hc
        have hm := compE_mono e _ _ _ _ _ _ heq
        simp only [resolveAt_append, resolveAt] at hcode
        have hce := codeAt_append_left hcode
        have hst := codeAt_head (codeAt_append_right hcode)
        simp only [resolveAt_length, mapT] at hst
        have ih := hE e st Γ (next + 1) ce t n1 lc d pos L T heq hd hce henv (hwf.mono (by omega)) hlen
        simp only [evalS]
        cases hr : evalE n Pg st e with
        | ok v s1 =>
          rw [hr] at ih
          obtain ⟨L1, hst1, henv1, hl1, hty1⟩ := ih
          obtain ⟨m, rfl⟩ := fuel_pos_of_ok hr
          simp only [Res.bind, matchPat_bind]
          have hne : t ≠ .unit := hnu
          dsimp only at hst1
          rw [pushed_of_hasTy hty1 hne] at hst1
          have hlt : next < L1.length := by omega
          refine ⟨L1.set next (encV v), ?_, ?_, by simp [hl1], fun _ => .unit⟩
          · dsimp only
            rw [unit_res, List.append_nil]
            have : pos + (ce ++ [Instr.store ↑next]).length = pos + ce.length + 1 := by simp; omega
            rw [this]
            exact hst1.snoc (step_store W hst L1 T (encV v) s1.out hlt)
          · exact .cons (henv1.set_fresh _ hwf) hty1 hne (by simp [List.getElem?_set_self hlt])
        | sig g s' =>
          rw [hr] at ih
          simp only [Res.bind]
          exact ih.sig_mono (fun _ _ h => h)
        | timeout => trivial
        | stuck w => trivial
      · simp at hc
    | wild => simp [compS] at hc
    | int _ => simp [compS] at hc
    | bool _ => simp [compS] at hc
    | str _ => simp [compS] at hc
    | unit => simp [compS] at hc
    | tuple _ => simp [compS] at hc
    | struct_ _ _ => simp [compS] at hc
    | variant _ _ => simp [compS] at hc
  | assign x op e =>
    by_cases hop : op = .set
    · subst hop
      simp only [compS] at hc
      split at hc
      · rename_i sl t ce t' n1 hf heq
        split at hc
        · rename_i htt
          simp only [Option.some.injEq, Prod.mk.injEq] at hc
          obtain ⟨rfl, rfl, rfl, rfl⟩ := hc
          obtain ⟨rfl, hne⟩ := htt
          have hm := compE_mono e _ _ _ _ _ _ heq
          simp only [resolveAt_append, resolveAt] at hcode
          have hce := codeAt_append_left hcode
          have hst := codeAt_head (codeAt_append_right hcode)
          simp only [resolveAt_length, mapT] at hst
          have ih := hE e st Γ next ce t n1 lc d pos L T heq hd hce henv hwf hlen
          simp only [evalS]
          cases hr : evalE n Pg st e with
          | ok v s1 =>
            rw [hr] at ih
            obtain ⟨L1, hst1, henv1, hl1, hty1⟩ := ih
            simp only [Res.bind, assignVar]
            dsimp only at hst1
            rw [pushed_of_hasTy hty1 hne] at hst1
            have hslt : sl < L1.length := by have := find_slot_lt hwf hf; omega
            obtain ⟨ρ', hu, hrel⟩ := henv1.update hwf hf hty1 hslt
            simp only [hu]
            refine ⟨L1.set sl (encV v), ?_, hrel, by simp [hl1], fun _ => .unit⟩
            dsimp only
            rw [unit_res, List.append_nil]
            have : pos + (ce ++ [Instr.store ↑sl]).length = pos + ce.length + 1 := by simp; omega
            rw [this]
            exact hst1.snoc (step_store W hst L1 T (encV v) s1.out hslt)
          | sig g s' =>
            rw [hr] at ih
            simp only [Res.bind]
            exact ih.sig_mono (fun _ _ h => h)
          | timeout => trivial
          | stuck w => trivial
        · simp at hc
      · simp at hc
    · obtain ⟨sl, o, ce, hf, ho, heq, rfl, rfl, rfl⟩ := compS_assign_inv op hop x e Γ next d il code τ Γ' n' hc
      have hm := compE_mono e _ _ _ _ _ _ heq
      simp only [List.singleton_append, resolveAt, resolveAt_append] at hcode
      have hld := codeAt_head hcode
      have hce := codeAt_append_left (codeAt_tail hcode)
      have htl := codeAt_append_right (codeAt_tail hcode)
      simp only [resolveAt_length, mapT] at hld htl
      have hop2 := codeAt_head htl
      have hst := codeAt_head (codeAt_tail htl)
      obtain ⟨old, hlk, htyo, _, hLo⟩ := henv.lookup hf
      cases htyo with
      | int k =>
        have st0 : Steps W.P (W.cfg pos L T st.out) (W.cfg (pos + 1) L (T ++ [.int k]) st.out) :=
          .single (step_load W hld L T st.out hLo)
        have ih := hE e st Γ' next ce .int n' lc (d + 1) (pos + 1) L (T ++ [.int k]) heq
          (by simp only [List.length_append, List.length_cons, List.length_nil]; omega) hce henv hwf hlen
        have hend : pos + ([Instr.load ↑sl] ++ ce ++ [Instr.intOp o Reg.top Reg.top Reg.top, Instr.store ↑sl]).length
            = pos + 1 + ce.length + 2 := by simp; omega
        rw [hend]
        cases hr : evalE n Pg st e with
        | ok v s1 =>
          obtain ⟨m, rfl⟩ := fuel_pos_of_ok hr
          obtain ⟨bop, hb1, hb2⟩ := asg_binop op o ho
          rw [evalS_assign_compound Pg (m + 1) op hop x e st hlk hb1, hr]
          rw [hr] at ih
          obtain ⟨L1, hst1, henv1, hl1, hty1⟩ := ih
          cases hty1 with
          | int y =>
            simp only [Res.bind, hb2]
            have e1 : (T ++ [VM.Val.int k]) ++ pushed (Sem.Val.int y) .int = T ++ [.int k, .int y] := by
              simp [pushed, encV]
            rw [e1] at hst1
            have har := arith_sound W hop2 k y s1 L1 T
            cases hv : I64.apply o.toI64 k y with
            | val c =>
              simp only [hv, ofOut] at har ⊢
              obtain ⟨c', hc', _, hstep⟩ := har
              cases hc'
              have hslt : sl < L1.length := by have := find_slot_lt hwf hf; omega
              obtain ⟨ρ', hu, hrel⟩ := henv1.update hwf hf (.int c) hslt
              simp only [assignVar, hu]
              refine ⟨L1.set sl (.int c), ?_, hrel, by simp [hl1], fun _ => .unit⟩
              dsimp only
              rw [unit_res, List.append_nil]
              have hst' : W.P[pos + 1 + ce.length + 1]? = some (.store sl) := hst
              have := step_store W hst' L1 T (.int c) s1.out hslt
              exact ((st0.trans hst1).snoc hstep).snoc this
            | overflow =>
              simp only [hv, ofOut] at har ⊢
              obtain ⟨_, s2, hstep⟩ := har
              exact ⟨_, s2, st0.trans hst1, hstep, rfl⟩
            | divZero =>
              simp only [hv, ofOut] at har ⊢
              obtain ⟨_, s2, hstep⟩ := har
              exact ⟨_, s2, st0.trans hst1, hstep, rfl⟩
        | sig g s' =>
          obtain ⟨bop, hb1⟩ : ∃ bop, asgBin op = some bop := by
            cases op <;> first | exact absurd rfl hop | exact ⟨_, rfl⟩
          rw [evalS_assign_compound Pg n op hop x e st hlk hb1, hr]
          rw [hr] at ih
          simp only [Res.bind]
          exact Out.sig_after st0 rfl ih (fun _ _ h => h) (dropPending_snoc T _ d)
        | timeout =>
          obtain ⟨bop, hb1⟩ : ∃ bop, asgBin op = some bop := by
            cases op <;> first | exact absurd rfl hop | exact ⟨_, rfl⟩
          rw [evalS_assign_compound Pg n op hop x e st hlk hb1, hr]
          trivial
        | stuck w =>
          obtain ⟨bop, hb1⟩ : ∃ bop, asgBin op = some bop := by
            cases op <;> first | exact absurd rfl hop | exact ⟨_, rfl⟩
          rw [evalS_assign_compound Pg n op hop x e st hlk hb1, hr]
          trivial
  | expr e =>
    simp only [compS] at hc
    split at hc
    · rename_i ce t n1 heq
      simp only [Option.some.injEq, Prod.mk.injEq] at hc
      obtain ⟨rfl, rfl, rfl, rfl⟩ := hc
      simp only [evalS]
      cases il with
      | true =>
        simp only [Bool.not_true, Bool.false_and, if_true] at hcode ⊢
        have ih := hE e st Γ next ce t n1 lc d pos L T heq hd hcode henv hwf hlen
        cases hr : evalE n Pg st e with
        | ok v s1 =>
          rw [hr] at ih
          obtain ⟨L1, hst1, henv1, hl1, hty1⟩ := ih
          exact ⟨L1, hst1, henv1, hl1, fun _ => hty1⟩
        | sig g s' => rw [hr] at ih; exact ih.sig_mono (fun _ _ h => h)
        | timeout => trivial
        | stuck w => trivial
      | false =>
        by_cases htu : t = .unit
        · subst htu
          simp only [Bool.not_false, Bool.true_and, bne_self_eq_false, Bool.false_eq_true, if_false] at hcode ⊢
          have ih := hE e st Γ next ce .unit n1 lc d pos L T heq hd hcode henv hwf hlen
          cases hr : evalE n Pg st e with
          | ok v s1 =>
            rw [hr] at ih
            obtain ⟨L1, hst1, henv1, hl1, hty1⟩ := ih
            exact ⟨L1, hst1, henv1, hl1, fun h => by cases h⟩
          | sig g s' => rw [hr] at ih; exact ih.sig_mono (fun _ _ h => h)
          | timeout => trivial
          | stuck w => trivial
        · have hb : (!false && t != Ty.unit) = true := by simp [htu]
          simp only [hb, if_true, Bool.false_eq_true, if_false] at hcode ⊢
          simp only [resolveAt_append, resolveAt] at hcode
          have hce := codeAt_append_left hcode
          have hpop := codeAt_head (codeAt_append_right hcode)
          simp only [resolveAt_length, mapT] at hpop
          have ih := hE e st Γ next ce t n1 lc d pos L T heq hd hce henv hwf hlen
          cases hr : evalE n Pg st e with
          | ok v s1 =>
            rw [hr] at ih
            obtain ⟨L1, hst1, henv1, hl1, hty1⟩ := ih
            dsimp only at hst1
            rw [pushed_of_hasTy hty1 htu] at hst1
            refine ⟨L1, ?_, henv1, hl1, fun h => by cases h⟩
            rw [List.append_nil]
            have : pos + (ce ++ [Instr.pop]).length = pos + ce.length + 1 := by simp; omega
            rw [this]
            exact hst1.snoc (step_pop W hpop L1 T (encV v) s1.out)
          | sig g s' => rw [hr] at ih; exact ih.sig_mono (fun _ _ h => h)
          | timeout => trivial
          | stuck w => trivial
    · simp at hc
  | break_ =>
    simp only [compS, Option.some.injEq, Prod.mk.injEq] at hc
    obtain ⟨rfl, rfl, rfl, rfl⟩ := hc
    simp only [evalS]
    simp only [resolveAt_append] at hcode
    have hpops := codeAt_append_left hcode
    have hj := codeAt_head (codeAt_append_right hcode)
    simp only [resolveAt_length, List.length_replicate, mapT, resolveT] at hj
    exact ⟨L, (steps_pops W lc d pos L T st.out hd hpops).snoc (step_jump W hj L _ st.out), henv, rfl⟩
  | continue_ =>
    simp only [compS, Option.some.injEq, Prod.mk.injEq] at hc
    obtain ⟨rfl, rfl, rfl, rfl⟩ := hc
    simp only [evalS]
    simp only [resolveAt_append] at hcode
    have hpops := codeAt_append_left hcode
    have hj := codeAt_head (codeAt_append_right hcode)
    simp only [resolveAt_length, List.length_replicate, mapT, resolveT] at hj
    exact ⟨L, (steps_pops W lc d pos L T st.out hd hpops).snoc (step_jump W hj L _ st.out), henv, rfl⟩
  | while_ c body =>
    have hc0 := hc
    have hd0 := hd
    have hcode0 := hcode
    simp only [compS] at hc
    split at hc
    · rename_i cc n1 heq1
      split at hc
      · rename_i cb tb n2 heq2
        simp only [Option.some.injEq, Prod.mk.injEq] at hc
        obtain ⟨hcodeEq, rfl, rfl, rfl⟩ := hc
        have hm1 := compE_mono c _ _ _ _ _ _ heq1
        have hm2 := compSs_mono body _ _ _ _ _ _ _ heq2
        have hlenc : code.length = cc.length + 1 + cb.length + 1 := by
          rw [← hcodeEq]; simp only [List.length_append, List.length_cons, List.length_nil, closeBody_length]
        rw [← hcodeEq] at hcode
        simp only [resolveAt_append, resolveAt, List.length_append, List.length_cons, List.length_nil,
          closeBody_length] at hcode
        have hcc := codeAt_append_left (codeAt_append_left (codeAt_append_left hcode))
        have hjf := codeAt_head (codeAt_append_right (codeAt_append_left (codeAt_append_left hcode)))
        have hbody := codeAt_append_right (codeAt_append_left hcode)
        have hback := codeAt_head (codeAt_append_right hcode)
        simp only [resolveAt_length, List.length_append, List.length_cons, List.length_nil, closeBody_length, mapT]
          at hjf hbody hback
        have e1 : resolveT (pos + cc.length) lc (.rel (↑cb.length + 1)) = pos + code.length := by
          simp only [resolveT]; omega
        have e2 : resolveT (pos + (cc.length + (0 + 1) + cb.length)) lc (.rel (-(↑cc.length + 1 + ↑cb.length + 1))) = pos := by
          simp only [resolveT]; omega
        rw [e1] at hjf
        rw [e2] at hback
        have e3 : pos + (cc.length + (0 + 1)) = pos + (cc.length + 1) + 0 := by omega
        rw [e3, resolveAt_closeBody pos (cc.length + 1) cb.length lc cb 0 (by simp)] at hbody
        have e4 : pos + (cc.length + 1) + 0 = pos + cc.length + 1 := by omega
        have e5 : pos + (cc.length + 1) + cb.length + 1 = pos + code.length := by omega
        rw [e4, e5] at hbody
        have ihc := hE c st Γ next cc .bool n1 lc d pos L T heq1 hd hcc henv hwf (by omega)
        simp only [evalS]
        cases hrc : evalE n Pg st c with
        | ok vc s1 =>
          rw [hrc] at ihc
          obtain ⟨L1, hst1, henv1, hl1, hty1⟩ := ihc
          simp only [Res.bind]
          have hlen1 : s1.env.length = st.env.length := by rw [← henv1.length_eq, ← henv.length_eq]
          cases hty1 with
          | bool x =>
            simp only [pushed, encV] at hst1
            have hstep := step_jumpIfFalse W hjf L1 T x s1.out
            cases x with
            | false =>
              simp only [if_false, Bool.false_eq_true] at hstep
              refine ⟨L1, ?_, henv1, hl1, fun _ => .unit⟩
              dsimp only
              rw [unit_res, List.append_nil]
              exact hst1.snoc hstep
            | true =>
              simp only [if_true] at hstep
              have ihb := hSs body s1 Γ n1 false cb tb n2 (pos, pos + code.length) 0 (pos + cc.length + 1) L1 T heq2 (Nat.zero_le _)
                hbody henv1 (hwf.mono hm1) (by omega)
              have hbk : W.P[pos + cc.length + 1 + cb.length]? = some (.jump pos) := by
                have e : pos + (cc.length + (0 + 1) + cb.length) = pos + cc.length + 1 + cb.length := by omega
                rw [e] at hback; exact hback
              -- the next iteration, started from the state after the body
              have again : ∀ (s2 : St) (L2 : List VM.Val),
                  Steps W.P (W.cfg pos L T st.out) (W.cfg pos L2 T s2.out) →
                  EnvRel L2 Γ (popEnv s2.env s1.env.length) → L2.length = L1.length →
                  Out W lc d pos (pos + code.length) L T st.out (fun v => if il then pushed v .unit else [])
                    (fun L' ρ => EnvRel L' Γ ρ) (fun L' ρ => EnvRel L' Γ ρ) (fun v => il = true → HasTy v .unit)
                    (evalS n Pg (s2.popTo st.env.length) (.while_ c body)) := by
                intro s2 L2 hsteps henv2 hl2
                have ihw := hS (.while_ c body) (s2.popTo st.env.length) Γ next il code .unit Γ n2 lc d pos L2 T hc0 hd0
                  hcode0 (by rw [St.popTo_env, ← hlen1]; exact henv2) hwf (by omega)
                exact Out.prepend hsteps (by omega) ihw
              cases hrb : evalSs n Pg s1 body with
              | ok vb s2 =>
                rw [hrb] at ihb
                obtain ⟨L2, hst2, ⟨henv2, _⟩, hl2, _⟩ := ihb
                simp only [Bool.false_eq_true, if_false, List.append_nil] at hst2
                refine again s2 L2 ?_ henv2 hl2
                exact ((hst1.snoc hstep).trans hst2).snoc (step_jump W hbk L2 T s2.out)
              | sig g s2 =>
                rw [hrb] at ihb
                cases g with
                | brk =>
                  obtain ⟨L2, hst2, ⟨henv2, _⟩, hl2⟩ := ihb
                  simp only [dropPending_zero] at hst2
                  refine ⟨L2, ?_, by rw [St.popTo_env, ← hlen1]; exact henv2, by omega, fun _ => .unit⟩
                  dsimp only
                  rw [unit_res, List.append_nil]
                  exact (hst1.snoc hstep).trans hst2
                | cont =>
                  obtain ⟨L2, hst2, ⟨henv2, _⟩, hl2⟩ := ihb
                  simp only [dropPending_zero] at hst2
                  exact again s2 L2 ((hst1.snoc hstep).trans hst2) henv2 hl2
                | err k =>
                  obtain ⟨x1, x2, h1, h2, h3⟩ := ihb
                  exact ⟨x1, x2, (hst1.snoc hstep).trans h1, h2, h3⟩
                | ret v => exact ihb
              | timeout => trivial
              | stuck w => trivial
        | sig g s' =>
          rw [hrc] at ihc
          simp only [Res.bind]
          exact ihc.sig_mono (fun _ _ h => h)
        | timeout => trivial
        | stuck w => trivial
      · simp at hc
    · simp at hc
  | assignField _ _ _ _ => simp [compS] at hc
  | assignIndex _ _ _ _ => simp [compS] at hc
  | for_ _ _ _ => simp [compS] at hc
  | ret _ => simp [compS] at hc

end Abra.Compile
