import AbraModel.IdSet
/-!
Helper lemmas for C37: the per-set invariant (`SetInv`: every buffer of a live set is live and owned
by it, every stored pointer targets one of them inside its length, `id_to_ptr` enumerates the
contents in insertion order, the map is `id_to_ptr` zipped with the ids, the contents have no
duplicates), the world invariant `WInv`, the abstraction `absW`, and the frame lemma.
-/
namespace Abra.IdSet

variable {α : Type}

/-- contents of one buffer (total) -/
def World.elemsOf (w : World α) (b : Nat) : List α := (w.bufs[b]?.map (·.elems)).getD []

/-- the values of a set in iteration order -/
def World.contents (w : World α) (s : SetS) : List α := s.bufIds.flatMap w.elemsOf

structure SetInv (w : World α) (h : Nat) (s : SetS) : Prop where
  nodupBufs : s.bufIds.Nodup
  owned : ∀ b ∈ s.bufIds, ∃ B, w.bufs[b]? = some B ∧ B.live = true ∧ B.owner = h ∧ B.elems.length ≤ B.cap
  ptrs : s.idToPtr.map w.deref = (w.contents s).map some
  ptrBufs : ∀ p ∈ s.idToPtr, p.buf ∈ s.bufIds
  mapEq : s.map = s.idToPtr.zipIdx
  nodup : (w.contents s).Nodup

/-- every live set satisfies its invariant -/
def WInv (w : World α) : Prop := ∀ h s, w.sets[h]? = some s → s.live = true → SetInv w h s

/-- abstraction: handle ↦ the list of distinct values in insertion order (`none` = dropped) -/
def absW (w : World α) : List (Option (List α)) :=
  w.sets.map (fun s => if s.live then some (w.contents s) else none)

theorem deref_congr {w w' : World α} {p : Ptr} (h : w'.bufs[p.buf]? = w.bufs[p.buf]?) :
    w'.deref p = w.deref p := by
  unfold World.deref; rw [h]

theorem elemsOf_congr {w w' : World α} {b : Nat} (h : w'.bufs[b]? = w.bufs[b]?) :
    w'.elemsOf b = w.elemsOf b := by
  unfold World.elemsOf; rw [h]

theorem flatMap_congr' {β γ : Type} {l : List β} {f g : β → List γ} (h : ∀ x ∈ l, f x = g x) :
    l.flatMap f = l.flatMap g := by
  induction l with
  | nil => rfl
  | cons a l ih =>
    simp only [List.flatMap_cons]
    rw [h a (by simp), ih (fun x hx => h x (by simp [hx]))]

theorem contents_congr {w w' : World α} {s : SetS}
    (h : ∀ b ∈ s.bufIds, w'.bufs[b]? = w.bufs[b]?) : w'.contents s = w.contents s := by
  unfold World.contents
  exact flatMap_congr' (fun b hb => elemsOf_congr (h b hb))

theorem map_congr' {β γ : Type} {l : List β} {f g : β → γ} (h : ∀ x ∈ l, f x = g x) :
    l.map f = l.map g := by
  induction l with
  | nil => rfl
  | cons a l ih =>
    simp only [List.map_cons]
    rw [h a (by simp), ih (fun x hx => h x (by simp [hx]))]

theorem SetInv.congr {w w' : World α} {h : Nat} {s : SetS}
    (hb : ∀ b ∈ s.bufIds, w'.bufs[b]? = w.bufs[b]?) (i : SetInv w h s) : SetInv w' h s where
  nodupBufs := i.nodupBufs
  owned := fun b hbm => by rw [hb b hbm]; exact i.owned b hbm
  ptrs := by
    rw [contents_congr hb, ← i.ptrs]
    exact map_congr' (fun p hp => deref_congr (hb _ (i.ptrBufs p hp)))
  ptrBufs := i.ptrBufs
  mapEq := i.mapEq
  nodup := by rw [contents_congr hb]; exact i.nodup

theorem getSet_some {w : World α} {h : Nat} {s : SetS} (hs : w.getSet h = some s) :
    w.sets[h]? = some s ∧ s.live = true := by
  unfold World.getSet at hs
  split at hs
  · split at hs
    · cases hs; exact ⟨by assumption, by assumption⟩
    · cases hs
  · cases hs

theorem getSet_none {w : World α} {h : Nat} (hs : w.getSet h = none) :
    ∀ s, w.sets[h]? = some s → s.live = false := by
  intro s hsome
  unfold World.getSet at hs
  rw [hsome] at hs
  cases hl : s.live with
  | false => rfl
  | true => simp [hl] at hs

/-- the abstraction at one handle -/
theorem absW_get (w : World α) (h : Nat) :
    (absW w)[h]? = (w.sets[h]?).map (fun s => if s.live then some (w.contents s) else none) := by
  unfold absW; rw [List.getElem?_map]

/-- **Frame lemma.** An operation on set `h` that replaces its record by `s'` and leaves every buffer
    not owned by `h` untouched preserves the world invariant (given the invariant of `s'` if it is
    still live) and changes the abstraction only at `h`. -/
theorem winv_update {w w' : World α} {h : Nat} {s s' : SetS}
    (hw : WInv w) (hs : w.sets[h]? = some s)
    (hsets : w'.sets = w.sets.set h s')
    (hframe : ∀ (b : Nat) (B : Buffer α), w.bufs[b]? = some B → B.owner ≠ h → w'.bufs[b]? = some B)
    (hinv : s'.live = true → SetInv w' h s') :
    WInv w' ∧ absW w' = (absW w).set h (if s'.live then some (w'.contents s') else none) := by
  have hlt : h < w.sets.length := by
    rcases Nat.lt_or_ge h w.sets.length with h1 | h1
    · exact h1
    · rw [List.getElem?_eq_none h1] at hs; cases hs
  have hother : ∀ g sg, g ≠ h → w.sets[g]? = some sg → sg.live = true →
      ∀ b ∈ sg.bufIds, w'.bufs[b]? = w.bufs[b]? := by
    intro g sg hg hsg hlg b hb
    obtain ⟨B, hB, _, ho, _⟩ := (hw g sg hsg hlg).owned b hb
    rw [hB]; exact hframe b B hB (by rw [ho]; exact hg)
  constructor
  · intro g sg hsg hlg
    rw [hsets] at hsg
    by_cases hg : g = h
    · subst hg
      rw [List.getElem?_set_self hlt] at hsg
      cases hsg
      exact hinv hlg
    · rw [List.getElem?_set_ne (Ne.symm hg)] at hsg
      exact (hw g sg hsg hlg).congr (hother g sg hg hsg hlg)
  · apply List.ext_getElem?
    intro g
    rw [absW_get, hsets]
    by_cases hg : g = h
    · subst hg
      rw [List.getElem?_set_self hlt, List.getElem?_set_self (by simpa [absW] using hlt)]
      rfl
    · rw [List.getElem?_set_ne (Ne.symm hg), List.getElem?_set_ne (Ne.symm hg), absW_get]
      cases hsg : w.sets[g]? with
      | none => rfl
      | some sg =>
        simp only [Option.map_some]
        cases hlg : sg.live with
        | false => simp
        | true =>
          simp only [if_true]
          rw [contents_congr (hother g sg hg hsg hlg)]

/-- SetInv only looks at the buffers -/
theorem SetInv.of_bufs_eq {w w' : World α} {h : Nat} {s : SetS} (hb : w'.bufs = w.bufs)
    (i : SetInv w h s) : SetInv w' h s :=
  i.congr (fun b _ => by rw [hb])

theorem contents_of_bufs_eq {w w' : World α} {s : SetS} (hb : w'.bufs = w.bufs) :
    w'.contents s = w.contents s :=
  contents_congr (fun b _ => by rw [hb])

/-- the map probe finds exactly the first-insertion index -/
theorem lookup_zipIdx [DecidableEq α] (w : World α) (v : α) :
    ∀ (ps : List Ptr) (l : List α) (k : Nat), ps.map w.deref = l.map some →
      w.lookup v (ps.zipIdx k) =
        some (if v ∈ l then some (ps.getD (l.idxOf v) default, k + l.idxOf v) else none) := by
  intro ps
  induction ps with
  | nil =>
    intro l k h
    cases l with
    | nil => simp [World.lookup]
    | cons x l => simp at h
  | cons p ps ih =>
    intro l k h
    cases l with
    | nil => simp at h
    | cons x l =>
      simp only [List.map_cons, List.cons.injEq] at h
      obtain ⟨hp, hrest⟩ := h
      simp only [List.zipIdx_cons, World.lookup, hp]
      by_cases hx : x = v
      · subst hx
        simp
      · have hvx : ¬ v = x := fun e => hx e.symm
        simp only [hx, if_false]
        rw [ih l (k + 1) hrest]
        simp only [List.mem_cons, hvx, false_or, List.idxOf_cons]
        have : (x == v) = false := by simp [hx]
        simp only [this, cond_false, List.getD_cons_succ]
        by_cases hm : v ∈ l
        · simp only [hm, if_true]; rw [Nat.add_assoc, Nat.add_comm 1]
        · simp [hm]

theorem readAll_eq (w : World α) : ∀ (bs : List Nat),
    (∀ b ∈ bs, ∃ B, w.bufs[b]? = some B ∧ B.live = true) → w.readAll bs = some (bs.flatMap w.elemsOf) := by
  intro bs
  induction bs with
  | nil => intro _; rfl
  | cons b bs ih =>
    intro h
    obtain ⟨B, hB, hl⟩ := h b (by simp)
    have := ih (fun b' hb' => h b' (by simp [hb']))
    simp only [World.readAll, World.readBuf, hB, hl, if_true, this, List.flatMap_cons, World.elemsOf,
      Option.map_some, Option.getD_some]

theorem SetInv.readAll {w : World α} {h : Nat} {s : SetS} (i : SetInv w h s) :
    w.readAll s.bufIds = some (w.contents s) :=
  readAll_eq w s.bufIds (fun b hb => by
    obtain ⟨B, hB, hl, _⟩ := i.owned b hb
    exact ⟨B, hB, hl⟩)

theorem SetInv.deref_get {w : World α} {h : Nat} {s : SetS} (i : SetInv w h s) (n : Nat) :
    (s.idToPtr[n]?).map w.deref = ((w.contents s)[n]?).map some := by
  have := congrArg (fun l => l[n]?) i.ptrs
  simpa [List.getElem?_map] using this

theorem SetInv.len_eq {w : World α} {h : Nat} {s : SetS} (i : SetInv w h s) :
    s.idToPtr.length = (w.contents s).length := by
  have := congrArg List.length i.ptrs
  simpa using this

theorem SetInv.cur_lt {w : World α} {h : Nat} {s : SetS} (i : SetInv w h s) :
    ∀ b ∈ s.bufIds, b < w.bufs.length := by
  intro b hb
  obtain ⟨B, hB, _⟩ := i.owned b hb
  rcases Nat.lt_or_ge b w.bufs.length with h1 | h1
  · exact h1
  · rw [List.getElem?_eq_none h1] at hB; cases hB

theorem getElem?_some_lt {β : Type} {l : List β} {i : Nat} {x : β} (h : l[i]? = some x) : i < l.length := by
  rcases Nat.lt_or_ge i l.length with h1 | h1
  · exact h1
  · rw [List.getElem?_eq_none h1] at h; cases h

/-- "alloc if necessary" keeps the invariant and the contents, and leaves room for one push -/
theorem ensureRoom_spec {w : World α} {h : Nat} {s : SetS} {B0 : Buffer α}
    (i : SetInv w h s) (hB0 : w.bufs[s.cur]? = some B0)
    (w1 : World α) (s1 : SetS) (B1 : Buffer α) (hr : w.ensureRoom h s B0 = (w1, s1, B1)) :
    w1.sets = w.sets ∧
    (∀ (b : Nat) (B : Buffer α), w.bufs[b]? = some B → w1.bufs[b]? = some B) ∧
    SetInv w1 h s1 ∧
    w1.contents s1 = w.contents s ∧
    w1.bufs[s1.cur]? = some B1 ∧
    B1.elems.length + 1 ≤ B1.cap ∧
    s1.map = s.map ∧ s1.idToPtr = s.idToPtr ∧ s1.live = s.live := by
  unfold World.ensureRoom at hr
  by_cases hc : B0.elems.length + 1 > B0.cap
  · rw [if_pos hc] at hr
    cases hr
    have hext : ∀ (b : Nat) (B : Buffer α), w.bufs[b]? = some B →
        (w.bufs ++ [(⟨h, true, (max B0.cap 1) * 2, []⟩ : Buffer α)])[b]? = some B := by
      intro b B hB
      rw [List.getElem?_append_left (getElem?_some_lt hB)]; exact hB
    have hids : ({ s with cur := w.bufs.length, old := s.old ++ [s.cur] } : SetS).bufIds
        = s.bufIds ++ [w.bufs.length] := rfl
    have hnew : (w.bufs ++ [(⟨h, true, (max B0.cap 1) * 2, []⟩ : Buffer α)])[w.bufs.length]?
        = some ⟨h, true, (max B0.cap 1) * 2, []⟩ := by
      rw [List.getElem?_append_right (Nat.le_refl _)]; simp
    have hold : ∀ b ∈ s.bufIds,
        (w.bufs ++ [(⟨h, true, (max B0.cap 1) * 2, []⟩ : Buffer α)])[b]? = w.bufs[b]? := by
      intro b hb
      exact List.getElem?_append_left (i.cur_lt b hb)
    have hcont : World.contents ({ w with bufs := w.bufs ++ [(⟨h, true, (max B0.cap 1) * 2, []⟩ : Buffer α)] })
        ({ s with cur := w.bufs.length, old := s.old ++ [s.cur] } : SetS) = w.contents s := by
      unfold World.contents
      rw [hids, List.flatMap_append]
      have e1 : s.bufIds.flatMap (World.elemsOf { w with bufs := w.bufs ++ [(⟨h, true, (max B0.cap 1) * 2, []⟩ : Buffer α)] })
          = s.bufIds.flatMap w.elemsOf :=
        flatMap_congr' (fun b hb => elemsOf_congr (hold b hb))
      rw [e1]
      simp [World.elemsOf]
    refine ⟨rfl, hext, ?_, hcont, hnew, by simp; omega, rfl, rfl, rfl⟩
    refine ⟨?_, ?_, ?_, ?_, i.mapEq, ?_⟩
    · rw [hids, List.nodup_append]
      refine ⟨i.nodupBufs, by simp, ?_⟩
      intro a ha b hb
      have := i.cur_lt a ha
      simp at hb; omega
    · intro b hb
      rw [hids] at hb
      rcases List.mem_append.1 hb with hb | hb
      · show ∃ B, (w.bufs ++ _)[b]? = some B ∧ _
        rw [hold b hb]; exact i.owned b hb
      · have : b = w.bufs.length := by simpa using hb
        subst this
        exact ⟨_, hnew, rfl, rfl, by simp⟩
    · rw [hcont, ← i.ptrs]
      exact map_congr' (fun p hp => deref_congr (hold _ (i.ptrBufs p hp)))
    · intro p hp
      rw [hids]; exact List.mem_append_left _ (i.ptrBufs p hp)
    · rw [hcont]; exact i.nodup
  · rw [if_neg hc] at hr
    cases hr
    exact ⟨rfl, fun _ _ hB => hB, i, rfl, hB0, by omega, rfl, rfl, rfl⟩

theorem SetInv.cur_mem (s : SetS) : s.cur ∈ s.bufIds := by simp [SetS.bufIds]

theorem SetInv.deref_some {w : World α} {h : Nat} {s : SetS} (i : SetInv w h s) :
    ∀ p ∈ s.idToPtr, ∃ x, w.deref p = some x := by
  intro p hp
  have : w.deref p ∈ s.idToPtr.map w.deref := List.mem_map.2 ⟨p, hp, rfl⟩
  rw [i.ptrs] at this
  obtain ⟨x, _, hx⟩ := List.mem_map.1 this
  exact ⟨x, hx.symm⟩

theorem contents_split (w : World α) (s : SetS) :
    w.contents s = s.old.flatMap w.elemsOf ++ w.elemsOf s.cur := by
  simp [World.contents, SetS.bufIds, List.flatMap_append]

/-- push + intern (+ pop when the value was known): the invariant is kept, the contents grow by the
    value iff it is new, the answer is the index of the first insertion. -/
theorem pushAndIntern_spec [DecidableEq α] {w1 : World α} {h : Nat} {s1 : SetS} {B1 : Buffer α}
    (i : SetInv w1 h s1) (hB1 : w1.bufs[s1.cur]? = some B1) (room : B1.elems.length + 1 ≤ B1.cap)
    (v : α) :
    ∃ s', (w1.pushAndIntern h s1 B1 v).1.sets = w1.sets.set h s' ∧ s'.live = s1.live ∧
      (∀ b, b ≠ s1.cur → (w1.pushAndIntern h s1 B1 v).1.bufs[b]? = w1.bufs[b]?) ∧
      SetInv (w1.pushAndIntern h s1 B1 v).1 h s' ∧
      (w1.pushAndIntern h s1 B1 v).1.contents s' =
        (if v ∈ w1.contents s1 then w1.contents s1 else w1.contents s1 ++ [v]) ∧
      (w1.pushAndIntern h s1 B1 v).2 =
        .id (if v ∈ w1.contents s1 then (w1.contents s1).idxOf v else (w1.contents s1).length) := by
  have hcur_lt : s1.cur < w1.bufs.length := getElem?_some_lt hB1
  obtain ⟨B1', hB1', hlive, hown, _⟩ := i.owned s1.cur (SetInv.cur_mem s1)
  rw [hB1] at hB1'; cases hB1'
  -- the world after the push
  have hw2cur : (w1.setBuf s1.cur { B1 with elems := B1.elems ++ [v] }).bufs[s1.cur]?
      = some { B1 with elems := B1.elems ++ [v] } := by
    simp only [World.setBuf]; exact List.getElem?_set_self hcur_lt
  have hw2ne : ∀ b, b ≠ s1.cur →
      (w1.setBuf s1.cur { B1 with elems := B1.elems ++ [v] }).bufs[b]? = w1.bufs[b]? := by
    intro b hb
    simp only [World.setBuf]; exact List.getElem?_set_ne (Ne.symm hb)
  have hderef : ∀ p ∈ s1.idToPtr,
      (w1.setBuf s1.cur { B1 with elems := B1.elems ++ [v] }).deref p = w1.deref p := by
    intro p hp
    by_cases hpb : p.buf = s1.cur
    · obtain ⟨x, hx⟩ := i.deref_some p hp
      unfold World.deref at hx ⊢
      rw [hpb] at hx ⊢
      rw [hB1] at hx
      rw [hw2cur, hB1]
      simp only [hlive, if_true] at hx ⊢
      exact List.getElem?_append_left (getElem?_some_lt hx)
    · exact deref_congr (hw2ne _ hpb)
  have hmap2 : s1.idToPtr.map (w1.setBuf s1.cur { B1 with elems := B1.elems ++ [v] }).deref
      = (w1.contents s1).map some := by
    rw [← i.ptrs]; exact map_congr' hderef
  have hlook := lookup_zipIdx (w1.setBuf s1.cur { B1 with elems := B1.elems ++ [v] }) v
    s1.idToPtr (w1.contents s1) 0 hmap2
  rw [← i.mapEq] at hlook
  unfold World.pushAndIntern
  simp only [hlook]
  by_cases hv : v ∈ w1.contents s1
  · simp only [hv, if_true, Nat.zero_add]
    refine ⟨s1, rfl, rfl, fun _ _ => rfl, ?_, ?_, ?_⟩
    · exact SetInv.of_bufs_eq (w := w1) rfl i
    · exact contents_of_bufs_eq (w := w1) rfl
    · trivial
  · simp only [hv, if_false]
    have hlen : s1.map.length = (w1.contents s1).length := by
      rw [i.mapEq, List.length_zipIdx, i.len_eq]
    have hnotold : s1.cur ∉ s1.old := by
      have := i.nodupBufs
      unfold SetS.bufIds at this
      rw [List.nodup_append] at this
      intro hm
      exact this.2.2 _ hm _ (by simp) rfl
    have holdE : s1.old.flatMap (w1.setBuf s1.cur { B1 with elems := B1.elems ++ [v] }).elemsOf
        = s1.old.flatMap w1.elemsOf :=
      flatMap_congr' (fun b hb => elemsOf_congr (hw2ne b (fun e => hnotold (e ▸ hb))))
    have hcurE : (w1.setBuf s1.cur { B1 with elems := B1.elems ++ [v] }).elemsOf s1.cur
        = w1.elemsOf s1.cur ++ [v] := by
      simp [World.elemsOf, hw2cur, hB1]
    have hcont : (w1.setBuf s1.cur { B1 with elems := B1.elems ++ [v] }).contents
        { s1 with map := s1.map ++ [(⟨s1.cur, B1.elems.length⟩, s1.map.length)],
                  idToPtr := s1.idToPtr ++ [⟨s1.cur, B1.elems.length⟩] }
        = w1.contents s1 ++ [v] := by
      rw [contents_split, contents_split w1 s1]
      show s1.old.flatMap _ ++ _ = _
      rw [holdE, hcurE, List.append_assoc]
    refine ⟨_, rfl, rfl, fun b hb => hw2ne b hb, ?_, ?_, by rw [hlen]⟩
    · refine SetInv.of_bufs_eq (w := (w1.setBuf s1.cur { B1 with elems := B1.elems ++ [v] })) rfl ?_
      refine ⟨i.nodupBufs, ?_, ?_, ?_, ?_, ?_⟩
      · intro b hb
        by_cases hbc : b = s1.cur
        · subst hbc
          exact ⟨_, hw2cur, hlive, hown, by simp; omega⟩
        · rw [hw2ne b hbc]; exact i.owned b hb
      · rw [hcont]
        simp only [List.map_append, List.map_cons, List.map_nil]
        rw [hmap2]
        congr 1
        unfold World.deref
        rw [hw2cur]
        simp [hlive]
      · intro p hp
        rcases List.mem_append.1 hp with hp | hp
        · exact i.ptrBufs p hp
        · have : p = ⟨s1.cur, B1.elems.length⟩ := by simpa using hp
          subst this; exact SetInv.cur_mem s1
      · show s1.map ++ _ = (s1.idToPtr ++ _).zipIdx
        rw [List.zipIdx_append, ← i.mapEq]
        simp [i.mapEq, List.length_zipIdx]
      · rw [hcont, List.nodup_append]
        refine ⟨i.nodup, by simp, ?_⟩
        intro a ha b hb
        have : b = v := by simpa using hb
        subst this
        intro e; subst e; exact hv ha
    · exact (contents_of_bufs_eq (w := (w1.setBuf s1.cur { B1 with elems := B1.elems ++ [v] })) rfl).trans hcont

end Abra.IdSet
