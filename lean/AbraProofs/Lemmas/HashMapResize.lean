import AbraProofs.Lemmas.HashMapInsert2
/-! Lemmas for C27, part 5: `resize` re-links every occupied entry and keeps the invariant, the free
    list and the meaning of the table; then `insert` as a whole. -/
namespace Abra.Lib.HashMap

variable {K V : Type} {hash : K → Int} {eq : K → K → Bool}

/-- state of the re-linking loop after the slots `< j` have been processed -/
structure RL (m' : Nat) (hashes : List Int) (occupied : List Bool) (nexts0 : List Int) (n : Nat)
    (j : Nat) (bk nx : List Int) (ch : Nat → List Nat) : Prop where
  lenB : bk.length = m'
  lenN : nx.length = n
  untouched : ∀ i : Nat, occupied[i]? ≠ some true → nx[i]? = nexts0[i]?
  chain : ∀ b, b < m' → ∃ s, bk[b]? = some s ∧ Chain nx s (ch b)
  nodup : ∀ b, b < m' → (ch b).Nodup
  inBucket : ∀ b, b < m' → ∀ i ∈ ch b, i < j ∧ occupied[i]? = some true ∧ ∃ h, hashes[i]? = some h ∧ h % (m' : Int) = b
  complete : ∀ (i : Nat) (h : Int), i < j → occupied[i]? = some true → hashes[i]? = some h → i ∈ ch (h % (m' : Int)).toNat

theorem relink_spec (m' : Nat) (hm' : m' ≠ 0) (hashes : List Int) (occupied : List Bool) (nexts0 : List Int) (n : Nat)
    (lenH : hashes.length = n) (lenO : occupied.length = n) :
    ∀ (todo j : Nat) (bk nx : List Int) (ch : Nat → List Nat), j + todo = n →
      RL m' hashes occupied nexts0 n j bk nx ch →
      ∃ bk' nx' ch', relink m' hashes occupied todo j bk nx = .ok (bk', nx') ∧
        RL m' hashes occupied nexts0 n n bk' nx' ch' := by
  intro todo
  induction todo with
  | zero =>
    intro j bk nx ch hj rl
    have : j = n := by omega
    subst this
    exact ⟨bk, nx, ch, rfl, rl⟩
  | succ todo ih =>
    intro j bk nx ch hj rl
    have hjn : j < n := by omega
    have hocc : occupied[j]? = some occupied[j] := List.getElem?_eq_getElem (by omega)
    simp only [relink, getI_nat _ j _ hocc]
    by_cases ho : occupied[j] = true
    · -- occupied: link slot j at the head of its bucket
      rw [ho] at hocc
      have hh : hashes[j]? = some hashes[j] := List.getElem?_eq_getElem (by omega)
      obtain ⟨b, hbi, hb, hbm⟩ := bucketIdx_range hashes[j] m' hm'
      obtain ⟨s, hs, hch⟩ := rl.chain b hb
      simp only [ho, if_true, getI_nat _ j _ hh, hbi, getI_nat _ b s hs,
        setI_nat nx j s (by rw [rl.lenN]; exact hjn), setI_nat bk b (j : Int) (by rw [rl.lenB]; exact hb)]
      apply ih (j + 1) _ _ (fun b' => if b' = b then j :: ch b else ch b') (by omega)
      have hj_ch : ∀ b', b' < m' → j ∉ ch b' := by
        intro b' hb' hmem
        have := (rl.inBucket b' hb' j hmem).1
        omega
      have hcongr : ∀ {s' : Int} {c : List Nat}, Chain nx s' c → j ∉ c → Chain (nx.set j s) s' c := by
        intro s' c hc hnot
        apply hc.congr
        intro i hi
        have : j ≠ i := fun e => hnot (e ▸ hi)
        exact List.getElem?_set_ne this
      refine ⟨by simp [rl.lenB], by simp [rl.lenN], ?_, ?_, ?_, ?_, ?_⟩
      · intro i hi
        have : j ≠ i := by intro e; subst e; exact hi hocc
        rw [List.getElem?_set_ne this]
        exact rl.untouched i hi
      · intro b' hb'
        by_cases hbb : b' = b
        · subst hbb
          refine ⟨(j : Int), by simp [rl.lenB, hb'], ?_⟩
          simp only [if_true]
          have := Chain.cons (nexts := nx.set j s) (i := (j : Int)) (nx := s) (c := ch b') (by omega)
            (by simp [rl.lenN, hjn]) (hcongr hch (hj_ch b' hb'))
          simpa using this
        · obtain ⟨s0, hs0, hch0⟩ := rl.chain b' hb'
          refine ⟨s0, by rw [List.getElem?_set_ne (Ne.symm hbb)]; exact hs0, ?_⟩
          simp only [hbb, if_false]
          exact hcongr hch0 (hj_ch b' hb')
      · intro b' hb'
        by_cases hbb : b' = b
        · subst hbb
          simp only [if_true]
          exact List.nodup_cons.mpr ⟨hj_ch b' hb', rl.nodup b' hb'⟩
        · simp only [hbb, if_false]; exact rl.nodup b' hb'
      · intro b' hb' i hi
        have hold : i ∈ ch b' → i < j + 1 ∧ occupied[i]? = some true ∧ ∃ h, hashes[i]? = some h ∧ h % (m' : Int) = b' := by
          intro hi'
          have := rl.inBucket b' hb' i hi'
          exact ⟨by omega, this.2⟩
        by_cases hbb : b' = b
        · subst hbb
          simp only [if_true, List.mem_cons] at hi
          cases hi with
          | inl e => subst e; exact ⟨by omega, hocc, hashes[i], hh, hbm.symm⟩
          | inr hi' => exact hold hi'
        · simp only [hbb, if_false] at hi
          exact hold hi
      · intro i h hi hoi hhi
        by_cases hij : i = j
        · subst hij
          rw [hh] at hhi; cases hhi
          have : (hashes[i] % (m' : Int)).toNat = b := by omega
          simp [this]
        · have := rl.complete i h (by omega) hoi hhi
          by_cases hbb : (h % (m' : Int)).toNat = b
          · simp only [hbb, if_true, List.mem_cons]; right; rw [← hbb]; exact this
          · simp only [hbb, if_false]; exact this
    · -- unoccupied: skipped
      have ho' : occupied[j] = false := by simpa using ho
      rw [ho'] at hocc
      simp only [ho', Bool.false_eq_true, if_false]
      apply ih (j + 1) bk nx ch (by omega)
      refine ⟨rl.lenB, rl.lenN, rl.untouched, rl.chain, rl.nodup, ?_, ?_⟩
      · intro b' hb' i hi
        have := rl.inBucket b' hb' i hi
        exact ⟨by omega, this.2⟩
      · intro i h hi hoi hhi
        have : i ≠ j := by intro e; subst e; rw [hocc] at hoi; cases hoi
        exact rl.complete i h (by omega) hoi hhi

theorem resize_spec (t : Table K V) (d : K → Option V) (hm : Models hash eq t d) :
    ∃ t', resize t = .ok t' ∧ Models hash eq t' d ∧ t'.count = t.count ∧
      t'.buckets.length = (if t.buckets.length = 0 then 4 else t.buckets.length * 2) ∧ t'.keys.length = t.keys.length := by
  obtain ⟨⟨ch, fr, wf⟩, hd⟩ := hm
  generalize hm' : (if t.buckets.length = 0 then 4 else t.buckets.length * 2) = m'
  have hpos : m' ≠ 0 := by rw [← hm']; split <;> omega
  have init : RL m' t.hashes t.occupied t.nexts t.keys.length 0 (List.replicate m' (-1)) t.nexts (fun _ => []) := by
    refine ⟨by simp, wf.lenN, fun _ _ => rfl, ?_, fun _ _ => List.nodup_nil, ?_, ?_⟩
    · intro b hb
      exact ⟨-1, by simp [hb], Chain.nil⟩
    · intro b _ i hi; cases hi
    · intro i h hi; omega
  obtain ⟨bk', nx', ch', hr, rl⟩ := relink_spec m' hpos t.hashes t.occupied t.nexts t.keys.length wf.lenH wf.lenO
    t.keys.length 0 _ _ _ (by omega) init
  refine ⟨{ t with buckets := bk', nexts := nx' }, ?_, ⟨⟨ch', fr, ?_⟩, ?_⟩, rfl, rl.lenB, rfl⟩
  · simp only [resize, hm', hr]
  · refine ⟨wf.lenV, wf.lenH, rl.lenN, wf.lenO, ?_, ?_, ?_, ?_, ?_, wf.hashOk, wf.distinct, ?_, wf.freeNodup, wf.freeIff, wf.countOk⟩
    · intro h0; simp only [rl.lenB] at h0; exact absurd h0 hpos
    · intro b hb; simp only [rl.lenB] at hb; exact rl.chain b hb
    · intro b hb; simp only [rl.lenB] at hb; exact rl.nodup b hb
    · intro b hb i hi
      simp only [rl.lenB] at hb ⊢
      exact (rl.inBucket b hb i hi).2
    · intro i h ho hh
      simp only [rl.lenB]
      exact rl.complete i h (by rw [← wf.lenO]; exact getElem?_lt ho) ho hh
    · apply wf.freeChain.congr
      intro i hi
      apply rl.untouched
      rw [(wf.freeIff i).mp hi]; simp
  · exact hd

/-- `insert`: the table afterwards represents the updated dictionary; `len` grows exactly when the key is new -/
theorem insert_spec (law : Lawful hash eq) (t : Table K V) (d : K → Option V) (hm : Models hash eq t d) (k : K) (v : V) :
    ∃ t', insert hash eq t k v = .ok t' ∧
      Models hash eq t' (fun k' => if eq k k' = true then some v else d k') ∧
      t'.count = t.count + (if d k = none then 1 else 0) := by
  unfold insert
  by_cases hr : t.keys.length ≥ t.buckets.length
  · obtain ⟨t1, e1, hm1, hc1, hl1, _⟩ := resize_spec t d hm
    simp only [hr, if_true, e1]
    have hpos : t1.buckets.length ≠ 0 := by rw [hl1]; split <;> omega
    obtain ⟨t', e', hm', hc'⟩ := insertCore_spec law t1 d hm1 hpos k v
    exact ⟨t', e', hm', by rw [hc', hc1]⟩
  · simp only [hr, if_false]
    exact insertCore_spec law t d hm (by omega) k v

end Abra.Lib.HashMap
