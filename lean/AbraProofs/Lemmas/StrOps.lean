import AbraModel.StrOps
/-!
Helper lemmas for C17: an independent recursive lexicographic order and its agreement with core's
`List` order, the latch, and the loop invariants of the one-byte-per-step instructions.
-/
namespace Abra.StrOps

/-! ### specification side: lexicographic order on byte lists, shorter prefix first -/

/-- simple recursive definition, independent of the step functions -/
def lexLt : Bytes → Bytes → Bool
  | _, [] => false
  | [], _ :: _ => true
  | x :: xs, y :: ys => if x < y then true else if y < x then false else lexLt xs ys

theorem u8_eq_of_not_lt {x y : UInt8} (h1 : ¬ x < y) (h2 : ¬ y < x) : x = y := by
  rcases Classical.em (x = y) with h | h
  · exact h
  · rcases UInt8.lt_or_lt_of_ne h with h | h
    · exact absurd h h1
    · exact absurd h h2

/-- `lexLt` is core's `<` on `List UInt8` (`List.lt`, i.e. `List.Lex (· < ·)`) -/
theorem lexLt_iff (a b : Bytes) : lexLt a b = true ↔ a < b := by
  induction a generalizing b with
  | nil =>
    cases b with
    | nil => simp [lexLt]
    | cons y ys => simp [lexLt]
  | cons x xs ih =>
    cases b with
    | nil => simp [lexLt]
    | cons y ys =>
      rw [List.cons_lt_cons_iff]
      unfold lexLt
      by_cases h1 : x < y
      · simp [h1]
      · by_cases h2 : y < x
        · have hne : x ≠ y := fun e => by subst e; exact UInt8.lt_irrefl _ h2
          simp [h1, h2, hne]
        · have e := u8_eq_of_not_lt h1 h2
          subst e
          simp [h1, ih]

theorem lexLt_eq_decide (a b : Bytes) : lexLt a b = decide (a < b) := by
  rcases h : lexLt a b with _ | _
  · have : ¬ a < b := fun hl => by rw [(lexLt_iff a b).2 hl] at h; cases h
    simp [this]
  · simp [(lexLt_iff a b).1 h]

/-! ### the latch -/

/-- the invariant between two steps of one instruction: the latched operands are `p ++ a'` and
    `p ++ b'` with the common prefix `p` already compared, and they are the register operands -/
structure Mid (ra rb : Bytes) (r : Regs) (p a' b' : Bytes) : Prop where
  h1 : r.op1 = p ++ a'
  h2 : r.op2 = p ++ b'
  hi : r.idx1 = p.length
  h0 : r.idx1 = 0 → r.op1 = ra ∧ r.op2 = rb

theorem latch_id {ra rb : Bytes} {r : Regs} (h : r.idx1 = 0 → r.op1 = ra ∧ r.op2 = rb) :
    latch ra rb r = r := by
  unfold latch
  split
  · next h' =>
    obtain ⟨e1, e2⟩ := h h'
    cases r
    simp_all
  · rfl

theorem latch_latch (ra rb : Bytes) (r : Regs) : latch ra rb (latch ra rb r) = latch ra rb r := by
  apply latch_id
  intro h
  unfold latch at *
  split <;> simp_all

theorem getElem?_prefix (p : Bytes) (x : UInt8) (xs : Bytes) : (p ++ x :: xs)[p.length]? = some x := by
  simp

theorem Mid.next {ra rb : Bytes} {r : Regs} {p xs ys : Bytes} {x : UInt8}
    (m : Mid ra rb r p (x :: xs) (x :: ys)) :
    Mid ra rb { r with idx1 := r.idx1 + 1 } (p ++ [x]) xs ys where
  h1 := by simp [m.h1]
  h2 := by simp [m.h2]
  hi := by simp [m.hi]
  h0 := by simp

/-! ### EqualString -/

theorem eqStep_nil_nil {ra rb : Bytes} {r : Regs} {p : Bytes} (m : Mid ra rb r p [] []) :
    eqStep ra rb r = .done true { r with idx1 := 0 } := by
  simp [eqStep, latch_id m.h0, m.h1, m.h2, m.hi]

theorem eqStep_len_ne {ra rb : Bytes} {r : Regs} {p a' b' : Bytes} (m : Mid ra rb r p a' b')
    (h : a'.length ≠ b'.length) :
    eqStep ra rb r = .done false { r with idx1 := 0 } := by
  simp [eqStep, latch_id m.h0, m.h1, m.h2, m.hi, h]
  rintro rfl rfl
  exact h rfl

theorem eqStep_cons_ne {ra rb : Bytes} {r : Regs} {p xs ys : Bytes} {x y : UInt8}
    (m : Mid ra rb r p (x :: xs) (y :: ys)) (h : x ≠ y) :
    eqStep ra rb r = .done false { r with idx1 := 0 } := by
  by_cases hl : xs.length = ys.length
  · simp [eqStep, latch_id m.h0, m.h1, m.h2, m.hi, hl, h]
  · exact eqStep_len_ne m (by simpa using hl)

theorem eqStep_cons_eq {ra rb : Bytes} {r : Regs} {p xs ys : Bytes} {x : UInt8}
    (m : Mid ra rb r p (x :: xs) (x :: ys)) (hl : xs.length = ys.length) :
    eqStep ra rb r = .again { r with idx1 := r.idx1 + 1 } := by
  simp [eqStep, latch_id m.h0, m.h1, m.h2, m.hi, hl]

theorem eq_run (ra rb : Bytes) (a' : Bytes) :
    ∀ (b' p : Bytes) (r : Regs) (fuel : Nat), Mid ra rb r p a' b' →
      min a'.length b'.length + 1 ≤ fuel →
      run (eqStep ra rb) fuel r = .finished (decide (a' = b')) { r with idx1 := 0 } := by
  induction a' with
  | nil =>
    intro b' p r fuel m hf
    obtain ⟨n, rfl⟩ : ∃ n, fuel = n + 1 := ⟨fuel - 1, by omega⟩
    cases b' with
    | nil => simp only [run, eqStep_nil_nil m]; simp
    | cons y ys => simp only [run, eqStep_len_ne m (by simp)]; simp
  | cons x xs ih =>
    intro b' p r fuel m hf
    obtain ⟨n, rfl⟩ : ∃ n, fuel = n + 1 := ⟨fuel - 1, by omega⟩
    cases b' with
    | nil => simp only [run, eqStep_len_ne m (by simp)]; simp
    | cons y ys =>
      by_cases hxy : x = y
      · subst hxy
        by_cases hl : xs.length = ys.length
        · simp only [run, eqStep_cons_eq m hl]
          rw [ih ys (p ++ [x]) _ n m.next (by simp at hf ⊢; omega)]
          simp
        · have hne : ¬ (xs = ys) := fun e => hl (by rw [e])
          simp only [run, eqStep_len_ne m (by simpa using hl)]
          simp [hne]
      · simp only [run, eqStep_cons_ne m hxy]
        simp [hxy]

/-! ### the four ordering instructions -/

/-- what each instruction must answer, in terms of the independent `lexLt` -/
def Cmp.spec : Cmp → Bytes → Bytes → Bool
  | .lt, a, b => lexLt a b
  | .le, a, b => !lexLt b a
  | .gt, a, b => lexLt b a
  | .ge, a, b => !lexLt a b

theorem Cmp.spec_exhausted (c : Cmp) (n : Nat) (a' b' : Bytes) (h : a' = [] ∨ b' = []) :
    c.onExhausted (n + a'.length) (n + b'.length) = c.spec a' b' := by
  rcases h with rfl | rfl
  · cases b' <;> cases c <;> simp [Cmp.onExhausted, Cmp.spec, lexLt]
  · cases a' <;> cases c <;> simp [Cmp.onExhausted, Cmp.spec, lexLt]

theorem Cmp.spec_cons_some (c : Cmp) (x y : UInt8) (xs ys : Bytes) (v : Bool)
    (h : c.onByte x y = some v) : c.spec (x :: xs) (y :: ys) = v := by
  cases c <;> simp only [Cmp.onByte] at h <;> simp only [Cmp.spec, lexLt] <;>
    (by_cases h1 : x < y <;> by_cases h2 : y < x <;> simp_all [GT.gt])
  all_goals exact absurd h2 (UInt8.lt_asymm h1)

theorem Cmp.spec_cons_none (c : Cmp) (x y : UInt8) (xs ys : Bytes)
    (h : c.onByte x y = none) : x = y ∧ c.spec (x :: xs) (y :: ys) = c.spec xs ys := by
  have hxy : ¬ x < y ∧ ¬ y < x := by
    cases c <;> simp only [Cmp.onByte] at h <;>
      (by_cases h1 : x < y <;> by_cases h2 : y < x <;> simp_all [GT.gt])
  refine ⟨u8_eq_of_not_lt hxy.1 hxy.2, ?_⟩
  cases c <;> simp [Cmp.spec, lexLt, hxy.1, hxy.2]

theorem cmpStep_exhausted {c : Cmp} {ra rb : Bytes} {r : Regs} {p a' b' : Bytes}
    (m : Mid ra rb r p a' b') (h : a' = [] ∨ b' = []) :
    cmpStep c ra rb r = .done (c.spec a' b') { r with idx1 := 0 } := by
  have hc : p.length = p.length + a'.length ∨ p.length = p.length + b'.length := by
    rcases h with rfl | rfl <;> simp
  rw [← Cmp.spec_exhausted c p.length a' b' h]
  simp only [cmpStep, latch_id m.h0, m.h1, m.h2, m.hi, List.length_append]
  rw [if_pos hc]

theorem cmpStep_cons {c : Cmp} {ra rb : Bytes} {r : Regs} {p xs ys : Bytes} {x y : UInt8}
    (m : Mid ra rb r p (x :: xs) (y :: ys)) :
    cmpStep c ra rb r =
      match c.onByte x y with
      | some v => .done v { r with idx1 := 0 }
      | none => .again { r with idx1 := r.idx1 + 1 } := by
  have hc : ¬ (p.length = (p ++ x :: xs).length ∨ p.length = (p ++ y :: ys).length) := by
    simp
  simp only [cmpStep, latch_id m.h0, m.h1, m.h2, m.hi, hc, if_false, getElem?_prefix]
  rfl

theorem cmp_run (c : Cmp) (ra rb : Bytes) (a' : Bytes) :
    ∀ (b' p : Bytes) (r : Regs) (fuel : Nat), Mid ra rb r p a' b' →
      min a'.length b'.length + 1 ≤ fuel →
      run (cmpStep c ra rb) fuel r = .finished (c.spec a' b') { r with idx1 := 0 } := by
  induction a' with
  | nil =>
    intro b' p r fuel m hf
    obtain ⟨n, rfl⟩ : ∃ n, fuel = n + 1 := ⟨fuel - 1, by omega⟩
    simp only [run, cmpStep_exhausted m (Or.inl rfl)]
  | cons x xs ih =>
    intro b' p r fuel m hf
    obtain ⟨n, rfl⟩ : ∃ n, fuel = n + 1 := ⟨fuel - 1, by omega⟩
    cases b' with
    | nil => simp only [run, cmpStep_exhausted m (Or.inr rfl)]
    | cons y ys =>
      simp only [run, cmpStep_cons m]
      cases hb : c.onByte x y with
      | some v => simp only [Cmp.spec_cons_some c x y xs ys v hb]
      | none =>
        obtain ⟨rfl, hs⟩ := Cmp.spec_cons_none c x y xs ys hb
        simp only [hs]
        rw [ih ys (p ++ [x]) _ n m.next (by simp at hf ⊢; omega)]

/-! ### ConcatStrings -/

/-- the latch condition of `ConcatStrings` holds trivially or has already been applied -/
def CatLatched (ra rb : Bytes) (r : Regs) : Prop :=
  r.idx1 = 0 ∧ r.idx2 = 0 → r.op1 = ra ∧ r.op2 = rb ∧ r.builder = []

theorem catStep_unlatch {ra rb : Bytes} {r : Regs} (h : CatLatched ra rb r) :
    catLatch ra rb r = r := by
  unfold catLatch
  split
  · next h' =>
    obtain ⟨e1, e2, e3⟩ := h h'
    cases r
    simp_all
  · rfl

/-- second phase: all of operand 1 copied, `q` of operand 2 copied, `b'` to go -/
theorem cat_run2 (ra rb : Bytes) (b' : Bytes) :
    ∀ (q : Bytes) (r : Regs) (fuel : Nat), CatLatched ra rb r →
      r.idx1 = r.op1.length → r.op2 = q ++ b' → r.idx2 = q.length → r.builder = r.op1 ++ q →
      utf8Valid (r.op1 ++ r.op2) = true → b'.length + 1 ≤ fuel →
      run (catStep ra rb) fuel r =
        .finished (r.op1 ++ r.op2) { r with builder := [], idx1 := 0, idx2 := 0 } := by
  induction b' with
  | nil =>
    intro q r fuel hl h1 h2 hj hb hv hf
    obtain ⟨n, rfl⟩ : ∃ n, fuel = n + 1 := ⟨fuel - 1, by omega⟩
    have hb' : r.builder = r.op1 ++ r.op2 := by rw [hb, h2]; simp
    have hj' : r.idx2 = r.op2.length := by rw [hj, h2]; simp
    simp only [run, catStep, catStep_unlatch hl, catArms, h1, hj', and_self, if_true, hb', hv]
  | cons y ys ih =>
    intro q r fuel hl h1 h2 hj hb hv hf
    obtain ⟨n, rfl⟩ : ∃ n, fuel = n + 1 := ⟨fuel - 1, by omega⟩
    have hlt : r.idx2 < r.op2.length := by rw [hj, h2]; simp
    have hget : r.op2[r.idx2]? = some y := by rw [hj, h2]; simp
    have hne : ¬ (r.idx1 = r.op1.length ∧ r.idx2 = r.op2.length) := by omega
    have hn1 : ¬ r.idx1 < r.op1.length := by omega
    simp only [run, catStep, catStep_unlatch hl, catArms, hne, hn1, hlt, if_false, if_true, hget]
    exact ih (q ++ [y]) { r with builder := r.builder ++ [y], idx2 := r.idx2 + 1 } n
      (by intro h; simp at h) h1 (by simp [h2]) (by simp [hj])
      (by simp [hb]) hv (by simp at hf ⊢; omega)

/-- first phase: `p` of operand 1 copied, `a'` to go, operand 2 untouched -/
theorem cat_run1 (ra rb : Bytes) (a' : Bytes) :
    ∀ (p : Bytes) (r : Regs) (fuel : Nat), CatLatched ra rb r →
      r.op1 = p ++ a' → r.idx1 = p.length → r.idx2 = 0 → r.builder = p →
      utf8Valid (r.op1 ++ r.op2) = true → a'.length + r.op2.length + 1 ≤ fuel →
      run (catStep ra rb) fuel r =
        .finished (r.op1 ++ r.op2) { r with builder := [], idx1 := 0, idx2 := 0 } := by
  induction a' with
  | nil =>
    intro p r fuel hl h1 hi hj hb hv hf
    have h1' : r.op1 = p := by simpa using h1
    exact cat_run2 ra rb r.op2 [] r fuel hl (by rw [hi, h1']) (by simp) (by simpa using hj)
      (by simp [hb, h1']) hv (by simp at hf; omega)
  | cons x xs ih =>
    intro p r fuel hl h1 hi hj hb hv hf
    obtain ⟨n, rfl⟩ : ∃ n, fuel = n + 1 := ⟨fuel - 1, by omega⟩
    have hlt : r.idx1 < r.op1.length := by rw [hi, h1]; simp
    have hget : r.op1[r.idx1]? = some x := by rw [hi, h1]; simp
    have hne : ¬ (r.idx1 = r.op1.length ∧ r.idx2 = r.op2.length) := by omega
    simp only [run, catStep, catStep_unlatch hl, catArms, hne, hlt, if_false, if_true, hget]
    exact ih (p ++ [x]) { r with builder := r.builder ++ [x], idx1 := r.idx1 + 1 } n
      (by intro h; simp at h) (by simp [h1]) (by simp [hi]) hj
      (by simp [hb]) hv (by simp at hf ⊢; omega)

/-- while bytes remain to be copied the instruction stays in flight -/
theorem cat_running (ra rb : Bytes) :
    ∀ (n : Nat) (r : Regs), CatLatched ra rb r → r.idx1 ≤ r.op1.length → r.idx2 ≤ r.op2.length →
      n ≤ (r.op1.length - r.idx1) + (r.op2.length - r.idx2) →
      ∃ r', run (catStep ra rb) n r = .running r' := by
  intro n
  induction n with
  | zero => intro r _ _ _ _; exact ⟨r, rfl⟩
  | succ n ih =>
    intro r hl h1 h2 hn
    have hne : ¬ (r.idx1 = r.op1.length ∧ r.idx2 = r.op2.length) := by omega
    by_cases hlt : r.idx1 < r.op1.length
    · have hget : r.op1[r.idx1]? = some r.op1[r.idx1] := List.getElem?_eq_getElem hlt
      simp only [run, catStep, catStep_unlatch hl, catArms, hne, hlt, if_false, if_true, hget]
      exact ih { r with builder := r.builder ++ [r.op1[r.idx1]], idx1 := r.idx1 + 1 }
        (by intro h; simp at h) (by simp; omega) h2 (by simp; omega)
    · have hlt2 : r.idx2 < r.op2.length := by omega
      have hget : r.op2[r.idx2]? = some r.op2[r.idx2] := List.getElem?_eq_getElem hlt2
      simp only [run, catStep, catStep_unlatch hl, catArms, hne, hlt, hlt2, if_false, if_true, hget]
      exact ih { r with builder := r.builder ++ [r.op2[r.idx2]], idx2 := r.idx2 + 1 }
        (by intro h; simp at h) h1 (by simp; omega) (by simp; omega)

/-! ### validity of UTF-8 is closed under concatenation -/

theorem utf8Valid_append (a b : Bytes) (ha : utf8Valid a = true) (hb : utf8Valid b = true) :
    utf8Valid (a ++ b) = true := by
  fun_induction utf8Valid a
  case case1 => simpa using hb
  case case2 b0 rest h ih =>
    rw [List.cons_append, utf8Valid.eq_def]
    simp only [h, if_true]
    exact ih ha
  case case3 b0 h1 h2 b1 r ih =>
    rw [List.cons_append, List.cons_append, utf8Valid.eq_def]
    simp only [h1, h2, if_true, if_false, Bool.and_eq_true, and_self] at ha ⊢
    exact ⟨ha.1, ih ha.2⟩
  case case5 b0 h1 h2 h3 b1 b2 r ih =>
    rw [List.cons_append, List.cons_append, List.cons_append, utf8Valid.eq_def]
    simp only [h1, h2, h3, if_true, if_false, Bool.and_eq_true, and_self] at ha ⊢
    exact ⟨ha.1, ih ha.2⟩
  case case7 b0 h1 h2 h3 h4 b1 b2 b3 r ih =>
    rw [List.cons_append, List.cons_append, List.cons_append, List.cons_append, utf8Valid.eq_def]
    simp only [h1, h2, h3, h4, if_true, if_false, Bool.and_eq_true, and_self] at ha ⊢
    exact ⟨ha.1, ih ha.2⟩
  all_goals cases ha

/-! ### slicing -/

theorem run_add {ρ : Type} (step : Regs → Step ρ) (m n : Nat) (r : Regs) :
    run step (m + n) r =
      match run step m r with
      | .running r' => run step n r'
      | x => x := by
  induction m generalizing r with
  | zero => simp [run]
  | succ m ih =>
    rw [Nat.succ_add]
    simp only [run]
    cases step r <;> simp [ih]

theorem runBudgets_eq_run {ρ : Type} (step : Regs → Step ρ) (ks : List Nat) (r : Regs) :
    runBudgets step ks r = run step ks.sum r := by
  induction ks generalizing r with
  | nil => simp [runBudgets, run]
  | cons k ks ih =>
    simp only [runBudgets, List.sum_cons, run_add]
    cases run step k r <;> simp [ih]

theorem run_mono {ρ : Type} (step : Regs → Step ρ) (m n : Nat) (r r' : Regs) (v : ρ)
    (h : run step m r = .finished v r') (hmn : m ≤ n) : run step n r = .finished v r' := by
  obtain ⟨k, rfl⟩ : ∃ k, n = m + k := ⟨n - m, by omega⟩
  rw [run_add, h]

end Abra.StrOps
