import AbraModel.Names
/-! Helper lemmas for C21: association tables with first-match lookup, sequences of
`add_declaration`, the supply list of a file's effective namespace. -/
namespace Abra.Names

variable {ν : Type} [DecidableEq ν]

/-! ### tables -/

def keys (t : Table ν) : List ν := t.map (·.1)

theorem get_nil (x : ν) : Table.get ([] : Table ν) x = none := rfl

theorem get_cons (y : ν) (d : Decl ν) (t : Table ν) (x : ν) :
    Table.get ((y, d) :: t) x = if y = x then some d else Table.get t x := rfl

theorem get_append (t u : Table ν) (x : ν) :
    Table.get (t ++ u) x = match Table.get t x with
      | some d => some d
      | none => Table.get u x := by
  induction t with
  | nil => simp [get_nil]
  | cons e t ih =>
    obtain ⟨y, d⟩ := e
    simp only [List.cons_append, get_cons]
    split <;> simp_all

theorem get_eq_none_iff (t : Table ν) (x : ν) : Table.get t x = none ↔ x ∉ keys t := by
  induction t with
  | nil => simp [get_nil, keys]
  | cons e t ih =>
    obtain ⟨y, d⟩ := e
    simp only [get_cons, keys, List.map_cons, List.mem_cons]
    split
    · simp_all
    · rename_i h
      simp only [keys] at ih
      rw [ih]
      constructor
      · intro hh hx; rcases hx with rfl | hx
        · exact h rfl
        · exact hh hx
      · intro hh hx; exact hh (Or.inr hx)

theorem get_isSome_iff (t : Table ν) (x : ν) : (Table.get t x).isSome ↔ x ∈ keys t := by
  cases h : Table.get t x with
  | none => simp [(get_eq_none_iff t x).1 h]
  | some d =>
    simp only [Option.isSome_some, true_iff]
    apply Classical.byContradiction
    intro hn
    rw [(get_eq_none_iff t x).2 hn] at h
    cases h

theorem get_filter (t : Table ν) (p : ν → Bool) (x : ν) :
    Table.get (t.filter (fun e => p e.1)) x = if p x then Table.get t x else none := by
  induction t with
  | nil => simp [get_nil]
  | cons e t ih =>
    obtain ⟨y, d⟩ := e
    simp only [List.filter_cons]
    by_cases hy : p y = true
    · simp only [hy, if_true, get_cons]
      by_cases hyx : y = x
      · subst hyx; simp [hy]
      · simp [hyx, ih]
    · simp only [hy, get_cons]
      by_cases hyx : y = x
      · subst hyx; simp [ih, hy]
      · simp [hyx, ih]

theorem get_put (t : Table ν) (x : ν) (d : Decl ν) (y : ν) :
    Table.get (t.put x d) y = if x = y then some d else Table.get t y := by
  unfold Table.put
  rw [get_cons]
  split
  · rfl
  · rename_i h
    have := get_filter t (fun k => decide (k ≠ x)) y
    rw [this]
    simp [Ne.symm h]

/-! ### sequences of `add_declaration` -/

/-- insert a list of (name, declaration) pairs one after the other -/
def insertAll (t : Table ν) : Table ν → Table ν × List ν
  | [] => (t, [])
  | (x, d) :: rest =>
    let r := addDecl t x d
    let r2 := insertAll r.1 rest
    (r2.1, r.2 ++ r2.2)

/-- the reports of `insertAll`: every key that was already present when its turn came -/
def dupsAfter (seen : List ν) : List ν → List ν
  | [] => []
  | x :: xs => if x ∈ seen then x :: dupsAfter seen xs else dupsAfter (x :: seen) xs

theorem addDecl_get (t : Table ν) (x : ν) (d : Decl ν) (y : ν) :
    Table.get (addDecl t x d).1 y = Table.get (t ++ [(x, d)]) y := by
  unfold addDecl
  cases h : Table.get t x with
  | none => rfl
  | some d0 =>
    simp only
    rw [get_append]
    cases hy : Table.get t y with
    | some _ => rfl
    | none =>
      simp only [get_cons, get_nil]
      split
      · rename_i hxy; subst hxy; rw [h] at hy; cases hy
      · rfl

theorem addDecl_keys (t : Table ν) (x : ν) (d : Decl ν) (y : ν) :
    y ∈ keys (addDecl t x d).1 ↔ y ∈ keys t ∨ y = x := by
  rw [← get_isSome_iff, addDecl_get, get_isSome_iff]
  simp [keys]

theorem addDecl_clash (t : Table ν) (x : ν) (d : Decl ν) :
    (addDecl t x d).2 = if x ∈ keys t then [x] else [] := by
  unfold addDecl
  cases h : Table.get t x with
  | none => simp [(get_eq_none_iff t x).1 h]
  | some d0 =>
    have : x ∈ keys t := (get_isSome_iff t x).1 (by simp [h])
    simp [this]

theorem insertAll_get (t l : Table ν) (y : ν) :
    Table.get (insertAll t l).1 y = Table.get (t ++ l) y := by
  induction l generalizing t with
  | nil => simp [insertAll]
  | cons e l ih =>
    obtain ⟨x, d⟩ := e
    simp only [insertAll]
    rw [ih, get_append, addDecl_get, get_append, get_append]
    cases Table.get t y with
    | some _ => rfl
    | none =>
      simp only [get_cons, get_nil]
      by_cases hxy : x = y <;> simp [hxy]

theorem mem_dupsAfter_count (seen xs : List ν) (x : ν) :
    (dupsAfter seen xs).count x = if x ∈ seen then xs.count x else xs.count x - 1 := by
  induction xs generalizing seen with
  | nil => simp [dupsAfter]
  | cons y ys ih =>
    simp only [dupsAfter]
    by_cases hy : y ∈ seen
    · simp only [hy, if_true, List.count_cons, ih]
      by_cases hx : x ∈ seen
      · simp [hx]
      · have hne : y ≠ x := fun h => hx (h ▸ hy)
        simp [hx, hne]
    · simp only [hy, if_false, ih, List.mem_cons, List.count_cons]
      by_cases hyx : y = x
      · subst hyx; simp [hy]
      · have : ¬ x = y := fun h => hyx h.symm
        simp [this, hyx]

theorem insertAll_clashes (t l : Table ν) :
    (insertAll t l).2 = dupsAfter (keys t) (keys l) := by
  induction l generalizing t with
  | nil => simp [insertAll, dupsAfter, keys]
  | cons e l ih =>
    obtain ⟨x, d⟩ := e
    simp only [insertAll, addDecl_clash, keys, List.map_cons, dupsAfter]
    rw [ih]
    by_cases hx : x ∈ keys t
    · have hk : keys (addDecl t x d).1 = keys t := by
        unfold addDecl
        have : (Table.get t x).isSome := (get_isSome_iff t x).2 hx
        cases h : Table.get t x with
        | none => simp [h] at this
        | some _ => rfl
      simp only [keys] at hx hk ⊢
      simp [hx, hk]
    · have hk : keys (addDecl t x d).1 = keys t ++ [x] := by
        unfold addDecl
        rw [(get_eq_none_iff t x).2 hx]
        simp [keys]
      simp only [keys] at hx hk ⊢
      simp only [hx, if_false, List.nil_append, hk]
      -- `dupsAfter` only looks at membership in `seen`
      have hperm : ∀ (s1 s2 : List ν) (ys : List ν), (∀ z, z ∈ s1 ↔ z ∈ s2) →
          dupsAfter s1 ys = dupsAfter s2 ys := by
        intro s1 s2 ys
        induction ys generalizing s1 s2 with
        | nil => intros; rfl
        | cons z zs ihz =>
          intro h
          simp only [dupsAfter, h z]
          split
          · rw [ihz s1 s2 h]
          · exact ihz _ _ (fun u => by simp [h u])
      exact hperm _ _ _ (fun z => by simp [or_comm])

theorem addOtherPred_eq (t other : Table ν) (pred : ν → Bool) :
    addOtherPred t other pred = insertAll t (other.filter (fun e => pred e.1)) := by
  induction other generalizing t with
  | nil => simp [addOtherPred, insertAll]
  | cons e rest ih =>
    obtain ⟨x, d⟩ := e
    simp only [addOtherPred, List.filter_cons]
    by_cases hp : pred x = true
    · simp only [hp, if_true, insertAll, ih]
    · simp only [hp, ih]
      simp

theorem insertAll_append (t l1 l2 : Table ν) :
    insertAll t (l1 ++ l2) =
      ((insertAll (insertAll t l1).1 l2).1, (insertAll t l1).2 ++ (insertAll (insertAll t l1).1 l2).2) := by
  induction l1 generalizing t with
  | nil => simp [insertAll]
  | cons e l1 ih =>
    obtain ⟨x, d⟩ := e
    simp only [List.cons_append, insertAll, ih, List.append_assoc]

theorem gather_eq (xs t : Table ν) : gather xs t = insertAll t xs := by
  induction xs generalizing t with
  | nil => simp [gather, insertAll]
  | cons e xs ih => obtain ⟨x, d⟩ := e; simp only [gather, insertAll, ih]


/-! ### what a file is supplied with -/

theorem filter_true' {β : Type} (l : List β) : l.filter (fun _ => true) = l := by
  induction l with
  | nil => rfl
  | cons a l ih => simp [List.filter_cons, ih]

/-- the declarations one import item lets through, as the property states them -/
def importSupply (w : World ν) (file : Nat) : Import ν → Table ν
  | .glob m => (ownTable w m).1
  | .incl m names => (ownTable w m).1.filter (fun e => names.contains e.1)
  | .excl m names => (ownTable w m).1.filter (fun e => !names.contains e.1)
  | .as_ m p => [(p, Decl.alias file p m)]
  | .missing => []

def importsOf (w : World ν) (file : Nat) : List (Import ν) :=
  match w.files[file]? with
  | some f => f.imports
  | none => []

/-- everything inserted with `add_declaration` into the effective namespace, in order -/
def supply (w : World ν) (file : Nat) : Table ν :=
  preludeTable w ++ (ownTable w file).1 ++ (importsOf w file).flatMap (importSupply w file)

theorem applyImport_eq (w : World ν) (file : Nat) (e : Eff ν) (i : Import ν) :
    (applyImport w file e i).table = (insertAll e.table (importSupply w file i)).1 ∧
    (applyImport w file e i).clashes = e.clashes ++ (insertAll e.table (importSupply w file i)).2 := by
  cases i with
  | glob m =>
    simp only [applyImport, importSupply, addOtherPred_eq, filter_true']
    simp
  | incl m names => simp only [applyImport, importSupply, addOtherPred_eq]; simp
  | excl m names => simp only [applyImport, importSupply, addOtherPred_eq]; simp
  | as_ m p => simp [applyImport, importSupply, insertAll]
  | missing => simp [applyImport, importSupply, insertAll]

theorem applyImports_eq (w : World ν) (file : Nat) (is : List (Import ν)) (e : Eff ν) :
    (applyImports w file is e).table = (insertAll e.table (is.flatMap (importSupply w file))).1 ∧
    (applyImports w file is e).clashes = e.clashes ++ (insertAll e.table (is.flatMap (importSupply w file))).2 := by
  induction is generalizing e with
  | nil => simp [applyImports, insertAll]
  | cons i is ih =>
    simp only [applyImports, List.flatMap_cons]
    obtain ⟨h1, h2⟩ := ih (applyImport w file e i)
    obtain ⟨g1, g2⟩ := applyImport_eq w file e i
    rw [h1, h2, g1, g2, insertAll_append]
    simp [List.append_assoc]

theorem effective_eq (w : World ν) (file : Nat) :
    (effective w file).table = (insertAll (builtinTable w) (supply w file)).1 ∧
    (effective w file).clashes = (insertAll (builtinTable w) (supply w file)).2 := by
  unfold effective supply importsOf
  simp only [addOtherPred_eq, filter_true']
  cases hfile : w.files[file]? with
  | none =>
    simp only [List.flatMap_nil, List.append_nil]
    rw [insertAll_append]
    exact ⟨rfl, rfl⟩
  | some f =>
    simp only
    obtain ⟨h1, h2⟩ := applyImports_eq w file f.imports
      { table := (insertAll (insertAll (builtinTable w) (preludeTable w)).1 (ownTable w file).1).1,
        kids := putAll [] (ownKids w file), clashes := (insertAll (builtinTable w) (preludeTable w)).2 ++
          (insertAll (insertAll (builtinTable w) (preludeTable w)).1 (ownTable w file).1).2, badImports := 0 }
    constructor
    · rw [h1, insertAll_append, insertAll_append]
    · rw [h2, insertAll_append, insertAll_append]

/-! ### scopes -/

theorem lookup_eq_get_flatten (st : SymTab ν) (x : ν) : lookup st x = Table.get st.flatten x := by
  induction st with
  | nil => rfl
  | cons s rest ih =>
    simp only [lookup, List.flatten_cons, get_append, ih]
    cases Table.get s x <;> rfl

theorem lookup_extend (st : SymTab ν) (x : ν) (d : Decl ν) (y : ν) :
    lookup (extend st x d) y = if x = y then some d else lookup st y := by
  cases st with
  | nil =>
    simp only [extend, lookup, get_cons, get_nil]
    by_cases hxy : x = y <;> simp [hxy]
  | cons s rest =>
    simp only [extend, lookup, get_put]
    by_cases hxy : x = y <;> simp [hxy]

theorem lookup_newScope (st : SymTab ν) (y : ν) : lookup (newScope st) y = lookup st y := by
  simp [newScope, lookup, get_nil]

/-! ### the textbook semantics of lexical scoping: one environment, most recent binding first;
a binder is visible from its declaration to the end of its block -/

def specQualified (w : World ν) (env : Table ν) (q x : ν) : Res ν :=
  memberOf w x (env.get q)

mutual
def specStmt (w : World ν) (kids : Table ν) (env : Table ν) : Stmt ν → Table ν × List (Res ν)
  | .letv x id => ((x, Decl.loc id) :: env, [])
  | .use x =>
    (env, [Res.ofOption (env.get x)])
  | .quse q x => (env, [specQualified w env q x])
  | .block body => (env, (specStmts w kids env body).2)
  | .forv x id body => (env, (specStmts w kids ((x, Decl.loc id) :: env) body).2)
  | .matchv x id body => (env, (specStmts w kids ((x, Decl.loc id) :: env) body).2)
  | .lam x id body => (env, (specStmts w kids ((x, Decl.loc id) :: env) body).2)
  -- a qualified pattern looks at the file's namespaces only; an expression at the environment
  | .pmatch pre ty v => (env, [resolvePat w kids pre ty v])
  | .euse pre ty v => (env, [enumExprWith w (fun y => env.get y) pre ty v])
  -- sibling scopes: every arm / branch starts from the environment of the whole statement
  | .marms arms => (env, specArms w kids env arms)
  | .ifelse a b => (env, (specStmts w kids env a).2 ++ (specStmts w kids env b).2)

def specArms (w : World ν) (kids : Table ν) (env : Table ν) :
    List (Option (ν × Nat) × List (Stmt ν)) → List (Res ν)
  | [] => []
  | (some (x, id), body) :: rest =>
    (specStmts w kids ((x, Decl.loc id) :: env) body).2 ++ specArms w kids env rest
  | (none, body) :: rest => (specStmts w kids env body).2 ++ specArms w kids env rest

def specStmts (w : World ν) (kids : Table ν) (env : Table ν) : List (Stmt ν) → Table ν × List (Res ν)
  | [] => (env, [])
  | s :: ss =>
    let r := specStmt w kids env s
    let r2 := specStmts w kids r.1 ss
    (r2.1, r.2 ++ r2.2)
end

theorem resolveQualified_eq (w : World ν) (st : SymTab ν) (env : Table ν)
    (h : ∀ y, lookup st y = env.get y) (q x : ν) :
    resolveQualified w st q x = specQualified w env q x := by
  simp only [resolveQualified, specQualified, h]

mutual
theorem resolveStmt_refines (w : World ν) (kids : Table ν) (st : SymTab ν) (env : Table ν)
    (h : ∀ y, lookup st y = env.get y) : (s : Stmt ν) →
    (resolveStmt w true kids st s).2 = (specStmt w kids env s).2 ∧
      ∀ y, lookup (resolveStmt w true kids st s).1 y = (specStmt w kids env s).1.get y
  | .letv x id => by
    refine ⟨rfl, fun y => ?_⟩
    simp only [resolveStmt, specStmt, lookup_extend, get_cons, h]
  | .use x => by
    refine ⟨?_, fun y => h y⟩
    simp only [resolveStmt, specStmt, h]
  | .quse q x => by
    refine ⟨?_, fun y => h y⟩
    simp only [resolveStmt, specStmt, resolveQualified_eq w st env h]
  | .block body => by
    refine ⟨?_, fun y => h y⟩
    simp only [resolveStmt, specStmt]
    exact (resolveStmts_refines w kids (newScope st) env (fun y => by rw [lookup_newScope, h]) body).1
  | .forv x id body => by
    refine ⟨?_, fun y => h y⟩
    simp only [resolveStmt, specStmt, if_true]
    exact (resolveStmts_refines w kids _ _ (fun y => by
      rw [lookup_extend, lookup_newScope, get_cons, h]) body).1
  | .matchv x id body => by
    refine ⟨?_, fun y => h y⟩
    simp only [resolveStmt, specStmt]
    exact (resolveStmts_refines w kids _ _ (fun y => by
      rw [lookup_newScope, lookup_extend, lookup_newScope, get_cons, h]) body).1
  | .lam x id body => by
    refine ⟨?_, fun y => h y⟩
    simp only [resolveStmt, specStmt]
    exact (resolveStmts_refines w kids _ _ (fun y => by
      rw [lookup_newScope, lookup_extend, lookup_newScope, get_cons, h]) body).1
  | .pmatch pre ty v => ⟨rfl, fun y => h y⟩
  | .marms arms => by
    refine ⟨?_, fun y => h y⟩
    simp only [resolveStmt, specStmt]
    exact resolveArms_refines w kids st env h arms
  | .ifelse a b => by
    refine ⟨?_, fun y => h y⟩
    simp only [resolveStmt, specStmt]
    rw [(resolveStmts_refines w kids (newScope st) env (fun y => by rw [lookup_newScope, h]) a).1,
        (resolveStmts_refines w kids (newScope st) env (fun y => by rw [lookup_newScope, h]) b).1]
  | .euse pre ty v => by
    refine ⟨?_, fun y => h y⟩
    simp only [resolveStmt, specStmt, resolveEnumExpr]
    have : lookup st = fun y => env.get y := funext h
    rw [this]

theorem resolveArms_refines (w : World ν) (kids : Table ν) (st : SymTab ν) (env : Table ν)
    (h : ∀ y, lookup st y = env.get y) : (arms : List (Option (ν × Nat) × List (Stmt ν))) →
    resolveArms w true kids st arms = specArms w kids env arms
  | [] => rfl
  | (some (x, id), body) :: rest => by
    simp only [resolveArms, specArms]
    rw [(resolveStmts_refines w kids _ _ (fun y => by
          rw [lookup_newScope, lookup_extend, lookup_newScope, get_cons, h]) body).1,
        resolveArms_refines w kids st env h rest]
  | (none, body) :: rest => by
    simp only [resolveArms, specArms]
    rw [(resolveStmts_refines w kids _ env (fun y => by
          rw [lookup_newScope, lookup_newScope, h]) body).1,
        resolveArms_refines w kids st env h rest]

theorem resolveStmts_refines (w : World ν) (kids : Table ν) (st : SymTab ν) (env : Table ν)
    (h : ∀ y, lookup st y = env.get y) : (ss : List (Stmt ν)) →
    (resolveStmts w true kids st ss).2 = (specStmts w kids env ss).2 ∧
      ∀ y, lookup (resolveStmts w true kids st ss).1 y = (specStmts w kids env ss).1.get y
  | [] => ⟨rfl, fun y => h y⟩
  | s :: ss => by
    obtain ⟨h1, h2⟩ := resolveStmt_refines w kids st env h s
    obtain ⟨g1, g2⟩ := resolveStmts_refines w kids _ _ h2 ss
    simp only [resolveStmts, specStmts]
    exact ⟨by rw [h1, g1], g2⟩
end

/-- the names a file declares (functions, enums, interfaces) -/
def declsOf (w : World ν) (file : Nat) : List ν := keys (ownEntries w file)

theorem mem_keys_insertAll (t l : Table ν) (x : ν) :
    x ∈ keys (insertAll t l).1 ↔ x ∈ keys t ∨ x ∈ keys l := by
  rw [← get_isSome_iff, insertAll_get, get_isSome_iff]
  simp [keys]

theorem mem_keys_filter (t : Table ν) (p : ν → Bool) (x : ν) :
    x ∈ keys (t.filter (fun e => p e.1)) ↔ x ∈ keys t ∧ p x = true := by
  rw [← get_isSome_iff, get_filter]
  by_cases hp : p x = true
  · simp [hp, get_isSome_iff]
  · simp [hp]

theorem mem_keys_builtinFold (xs : List ν) (t : Table ν) (x : ν) :
    x ∈ keys (xs.foldl (fun t y => t.put y (Decl.builtin y)) t) ↔ x ∈ keys t ∨ x ∈ xs := by
  induction xs generalizing t with
  | nil => simp
  | cons y ys ih =>
    simp only [List.foldl_cons, ih, List.mem_cons]
    have : x ∈ keys (t.put y (Decl.builtin y)) ↔ x ∈ keys t ∨ x = y := by
      rw [← get_isSome_iff, get_put, ← get_isSome_iff]
      by_cases h : y = x
      · simp [h]
      · have h' : ¬ x = y := fun e => h e.symm
        simp [h, h']
    rw [this]
    constructor
    · rintro ((h | h) | h)
      · exact Or.inl h
      · exact Or.inr (Or.inl h)
      · exact Or.inr (Or.inr h)
    · rintro (h | h | h)
      · exact Or.inl (Or.inl h)
      · exact Or.inl (Or.inr h)
      · exact Or.inr h

theorem mem_keys_builtinTable (w : World ν) (x : ν) : x ∈ keys (builtinTable w) ↔ x ∈ w.builtins := by
  unfold builtinTable
  rw [mem_keys_builtinFold]
  simp [keys]

theorem nodup_keys_put (t : Table ν) (h : (keys t).Nodup) (y : ν) (d : Decl ν) :
    (keys (t.put y d)).Nodup := by
  unfold Table.put keys
  simp only [List.map_cons]
  apply List.nodup_cons.2
  constructor
  · intro hm
    obtain ⟨e, he, hey⟩ := List.mem_map.1 hm
    have := (List.mem_filter.1 he).2
    simp at this
    exact this hey
  · have : (List.map (·.1) (t.filter (fun e => e.1 ≠ y))).Sublist (List.map (·.1) t) :=
      List.Sublist.map _ List.filter_sublist
    exact List.Nodup.sublist this h

theorem nodup_keys_builtinTable (w : World ν) : (keys (builtinTable w)).Nodup := by
  unfold builtinTable
  have : ∀ (xs : List ν) (t : Table ν), (keys t).Nodup →
      (keys (xs.foldl (fun t y => t.put y (Decl.builtin y)) t)).Nodup := by
    intro xs
    induction xs with
    | nil => intro t h; exact h
    | cons y ys ih => intro t h; exact ih _ (nodup_keys_put t h y _)
  exact this _ _ (by simp [keys])

theorem mem_keys_ownTable (w : World ν) (m : Nat) (x : ν) :
    x ∈ keys (ownTable w m).1 ↔ x ∈ declsOf w m := by
  unfold ownTable declsOf
  rw [gather_eq, mem_keys_insertAll]
  simp [keys]

theorem ownTable_get (w : World ν) (m : Nat) (x : ν) :
    (ownTable w m).1.get x = Table.get (ownEntries w m) x := by
  unfold ownTable
  rw [gather_eq, insertAll_get]
  rfl

theorem mem_keys_preludeTable (w : World ν) (x : ν) : x ∈ keys (preludeTable w) ↔ x ∈ w.prelude := by
  simp [preludeTable, keys]

/-- the names an import item makes visible, as the property states them -/
def visibleThrough (w : World ν) : Import ν → ν → Prop
  | .glob m, x => x ∈ declsOf w m                      -- all of the imported file's names
  | .incl m l, x => x ∈ declsOf w m ∧ x ∈ l            -- only the listed subset
  | .excl m l, x => x ∈ declsOf w m ∧ x ∉ l            -- all but the `except` list
  | .as_ _ p, x => x = p                               -- nothing but the prefix itself
  | .missing, _ => False

theorem mem_keys_importSupply (w : World ν) (file : Nat) (i : Import ν) (x : ν) :
    x ∈ keys (importSupply w file i) ↔ visibleThrough w i x := by
  cases i with
  | glob m => simp [importSupply, visibleThrough, mem_keys_ownTable]
  | incl m l =>
    simp only [importSupply, visibleThrough]
    rw [mem_keys_filter (ownTable w m).1 (fun y => l.contains y), mem_keys_ownTable]
    simp
  | excl m l =>
    simp only [importSupply, visibleThrough]
    rw [mem_keys_filter (ownTable w m).1 (fun y => !l.contains y), mem_keys_ownTable]
    simp
  | as_ m p => simp [importSupply, visibleThrough, keys]
  | missing => simp [importSupply, visibleThrough, keys]

theorem mem_keys_supply (w : World ν) (file : Nat) (x : ν) :
    x ∈ keys (supply w file) ↔
      x ∈ w.prelude ∨ x ∈ declsOf w file ∨ ∃ i ∈ importsOf w file, visibleThrough w i x := by
  unfold supply
  simp only [keys, List.map_append, List.mem_append, List.map_flatMap, List.mem_flatMap]
  have h1 := mem_keys_preludeTable w x
  have h2 := mem_keys_ownTable w file x
  simp only [keys] at h1 h2
  rw [h1, h2]
  constructor
  · rintro ((h | h) | ⟨i, hi, hx⟩)
    · exact Or.inl h
    · exact Or.inr (Or.inl h)
    · exact Or.inr (Or.inr ⟨i, hi, (mem_keys_importSupply w file i x).1 (by simpa [keys] using hx)⟩)
  · rintro (h | h | ⟨i, hi, hx⟩)
    · exact Or.inl (Or.inl h)
    · exact Or.inl (Or.inr h)
    · exact Or.inr ⟨i, hi, by simpa [keys] using (mem_keys_importSupply w file i x).2 hx⟩

/-! ### child namespaces -/

theorem mem_keys_put (t : Table ν) (y : ν) (d : Decl ν) (x : ν) :
    x ∈ keys (t.put y d) ↔ x ∈ keys t ∨ x = y := by
  rw [← get_isSome_iff, get_put, ← get_isSome_iff]
  by_cases h : y = x
  · simp [h]
  · have h' : ¬ x = y := fun e => h e.symm
    simp [h, h']

theorem mem_keys_putAll (t l : Table ν) (x : ν) :
    x ∈ keys (putAll t l) ↔ x ∈ keys t ∨ x ∈ keys l := by
  induction l generalizing t with
  | nil => simp [putAll, keys]
  | cons e l ih =>
    obtain ⟨y, d⟩ := e
    simp only [putAll, ih, mem_keys_put]
    simp [keys]
    constructor
    · rintro ((h | h) | h)
      · exact Or.inl h
      · exact Or.inr (Or.inl h)
      · exact Or.inr (Or.inr h)
    · rintro (h | h | h)
      · exact Or.inl (Or.inl h)
      · exact Or.inl (Or.inr h)
      · exact Or.inr h

/-- names of the enums and interfaces a file declares -/
def typeNames (w : World ν) (file : Nat) : List ν := keys (typeEntries w file)

theorem mem_keys_ownKids (w : World ν) (m : Nat) (x : ν) :
    x ∈ keys (ownKids w m) ↔ x ∈ typeNames w m := by
  unfold ownKids typeNames
  rw [mem_keys_putAll]
  simp [keys]

theorem typeNames_sub_declsOf (w : World ν) (m : Nat) (x : ν) (h : x ∈ typeNames w m) :
    x ∈ declsOf w m := by
  unfold declsOf ownEntries typeNames at *
  simp only [keys, List.map_append, List.mem_append] at *
  exact Or.inr h

/-- the child namespaces an import item brings along, as the property states it: those of the
    enums / interfaces whose *declaration* the item makes visible (same filter), or the prefix -/
def kidVisibleThrough (w : World ν) : Import ν → ν → Prop
  | .glob m, x => x ∈ typeNames w m
  | .incl m l, x => x ∈ typeNames w m ∧ x ∈ l
  | .excl m l, x => x ∈ typeNames w m ∧ x ∉ l
  | .as_ _ p, x => x = p
  | .missing, _ => False

theorem kidVisibleThrough_iff (w : World ν) (i : Import ν) (x : ν) :
    kidVisibleThrough w i x ↔ visibleThrough w i x ∧
      (match i with
       | .glob m | .incl m _ | .excl m _ => x ∈ typeNames w m
       | _ => True) := by
  cases i with
  | glob m => simp only [kidVisibleThrough, visibleThrough]; exact ⟨fun h => ⟨typeNames_sub_declsOf w m x h, h⟩, fun h => h.2⟩
  | incl m l =>
    simp only [kidVisibleThrough, visibleThrough]
    exact ⟨fun h => ⟨⟨typeNames_sub_declsOf w m x h.1, h.2⟩, h.1⟩, fun h => ⟨h.2, h.1.2⟩⟩
  | excl m l =>
    simp only [kidVisibleThrough, visibleThrough]
    exact ⟨fun h => ⟨⟨typeNames_sub_declsOf w m x h.1, h.2⟩, h.1⟩, fun h => ⟨h.2, h.1.2⟩⟩
  | as_ m p => simp [kidVisibleThrough, visibleThrough]
  | missing => simp [kidVisibleThrough, visibleThrough]

theorem applyImport_kids (w : World ν) (file : Nat) (e : Eff ν) (i : Import ν) (x : ν) :
    x ∈ keys (applyImport w file e i).kids ↔ x ∈ keys e.kids ∨ kidVisibleThrough w i x := by
  cases i with
  | glob m => simp only [applyImport, mem_keys_putAll, mem_keys_ownKids, kidVisibleThrough]
  | incl m l =>
    simp only [applyImport, mem_keys_putAll, kidVisibleThrough]
    rw [mem_keys_filter (ownKids w m) (fun y => l.contains y), mem_keys_ownKids]
    simp
  | excl m l =>
    simp only [applyImport, mem_keys_putAll, kidVisibleThrough]
    rw [mem_keys_filter (ownKids w m) (fun y => !l.contains y), mem_keys_ownKids]
    simp
  | as_ m p => simp only [applyImport, mem_keys_put, kidVisibleThrough]
  | missing => simp [applyImport, kidVisibleThrough]

theorem applyImports_kids (w : World ν) (file : Nat) (is : List (Import ν)) (e : Eff ν) (x : ν) :
    x ∈ keys (applyImports w file is e).kids ↔ x ∈ keys e.kids ∨ ∃ i ∈ is, kidVisibleThrough w i x := by
  induction is generalizing e with
  | nil => simp [applyImports]
  | cons i is ih =>
    simp only [applyImports, ih, applyImport_kids, List.mem_cons]
    constructor
    · rintro ((h | h) | ⟨j, hj, hx⟩)
      · exact Or.inl h
      · exact Or.inr ⟨i, Or.inl rfl, h⟩
      · exact Or.inr ⟨j, Or.inr hj, hx⟩
    · rintro (h | ⟨j, hj | hj, hx⟩)
      · exact Or.inl (Or.inl h)
      · subst hj; exact Or.inl (Or.inr hx)
      · exact Or.inr ⟨j, hj, hx⟩

theorem effective_kids (w : World ν) (file : Nat) (x : ν) :
    x ∈ keys (effective w file).kids ↔
      x ∈ typeNames w file ∨ ∃ i ∈ importsOf w file, kidVisibleThrough w i x := by
  unfold effective importsOf
  cases hf : w.files[file]? with
  | none =>
    simp only [mem_keys_putAll, mem_keys_ownKids]
    simp [keys]
  | some f =>
    simp only [applyImports_kids, mem_keys_putAll, mem_keys_ownKids]
    simp [keys]

/-! ### child namespaces follow the declarations when nothing clashes -/

/-- declarations that own a child namespace -/
def isNs : Decl ν → Bool
  | .enum_ .. => true
  | .iface .. => true
  | .alias .. => true
  | _ => false

/-- keep a declaration only if it owns a namespace -/
def nsOnly : Option (Decl ν) → Option (Decl ν)
  | some d => if isNs d then some d else none
  | none => none

theorem putAll_get_of_disjoint (t l : Table ν) (hnd : (keys l).Nodup)
    (hdis : ∀ x ∈ keys l, x ∉ keys t) (x : ν) :
    (putAll t l).get x = (t ++ l).get x := by
  induction l generalizing t with
  | nil => simp [putAll]
  | cons e l ih =>
    obtain ⟨y, d⟩ := e
    have hnd' : y ∉ keys l ∧ (keys l).Nodup := by
      have := hnd; simp only [keys, List.map_cons] at this; exact List.nodup_cons.1 this
    have hy : y ∉ keys t := hdis y (by simp [keys])
    simp only [putAll]
    rw [ih (t.put y d) hnd'.2 (fun z hz => by
      rw [mem_keys_put]; rintro (h | h)
      · exact hdis z (by simp [keys] at hz ⊢; exact Or.inr hz) h
      · subst h; exact hnd'.1 hz)]
    rw [get_append, get_append, get_put, get_cons]
    by_cases hyx : y = x
    · subst hyx
      simp [(get_eq_none_iff t y).2 hy]
    · simp [hyx]

theorem nodup_keys_putAll (t l : Table ν) (h : (keys t).Nodup) : (keys (putAll t l)).Nodup := by
  induction l generalizing t with
  | nil => exact h
  | cons e l ih => obtain ⟨y, d⟩ := e; exact ih _ (nodup_keys_put t h y d)

theorem nodup_keys_filter (t : Table ν) (p : ν × Decl ν → Bool) (h : (keys t).Nodup) :
    (keys (t.filter p)).Nodup :=
  List.Nodup.sublist (List.Sublist.map _ List.filter_sublist) h

theorem typeEntriesAux_isNs (file : Nat) (i : Nat) (ts : List (TypeD ν)) :
    ∀ e ∈ typeEntriesAux file i ts, isNs e.2 = true := by
  induction ts generalizing i with
  | nil => intro e he; cases he
  | cons t ts ih =>
    intro e he
    simp only [typeEntriesAux, List.mem_cons] at he
    rcases he with rfl | he
    · simp only [typeDecl]; split <;> rfl
    · exact ih _ e he

theorem typeEntries_isNs (w : World ν) (m : Nat) : ∀ e ∈ typeEntries w m, isNs e.2 = true := by
  unfold typeEntries
  cases w.files[m]? with
  | none => intro e he; cases he
  | some f => exact typeEntriesAux_isNs m 0 f.types

theorem get_isNs_of_all (l : Table ν) (h : ∀ e ∈ l, isNs e.2 = true) (x : ν) :
    nsOnly (l.get x) = l.get x := by
  induction l with
  | nil => rfl
  | cons e l ih =>
    obtain ⟨y, d⟩ := e
    simp only [get_cons]
    by_cases hyx : y = x
    · have := h (y, d) (by simp); simp at this; simp [hyx, nsOnly, this]
    · simp only [hyx, if_false]; exact ih (fun e he => h e (by simp [he]))

theorem fnEntries_get (w : World ν) (m : Nat) (x : ν) (d : Decl ν) (h : (fnEntries w m).get x = some d) :
    isNs d = false := by
  unfold fnEntries at h
  cases hf : w.files[m]? with
  | none => simp [hf, get_nil] at h
  | some f =>
    simp only [hf] at h
    have : ∀ (ds : List ν), Table.get (ds.map fun y => (y, Decl.fn m y)) x = some d → isNs d = false := by
      intro ds
      induction ds with
      | nil => intro h; simp [get_nil] at h
      | cons y ys ih =>
        simp only [List.map_cons, get_cons]
        by_cases hyx : y = x
        · simp [hyx]; rintro rfl; rfl
        · simpa [hyx] using ih
    exact this _ h

/-- inside one file without duplicate names: the child namespace called `x` is the one of the
    file's declaration `x` -/
theorem ownKids_get (w : World ν) (m : Nat) (hnd : (keys (ownEntries w m)).Nodup) (x : ν) :
    (ownKids w m).get x = nsOnly ((ownTable w m).1.get x) := by
  have hsplit : keys (ownEntries w m) = keys (fnEntries w m) ++ keys (typeEntries w m) := by
    simp [ownEntries, keys]
  rw [hsplit] at hnd
  have hn := List.nodup_append.1 hnd
  unfold ownKids
  rw [putAll_get_of_disjoint [] _ hn.2.1 (fun _ _ h => by simp [keys] at h), List.nil_append,
      ownTable_get, ownEntries, get_append]
  cases hf : (fnEntries w m).get x with
  | some d =>
    have hx : x ∈ keys (fnEntries w m) := (get_isSome_iff _ _).1 (by simp [hf])
    have : x ∉ keys (typeEntries w m) := fun h => hn.2.2 x hx x h rfl
    simp [(get_eq_none_iff _ _).2 this, nsOnly, fnEntries_get w m x d hf]
  | none =>
    simp only
    exact (get_isNs_of_all _ (typeEntries_isNs w m) x).symm

theorem nodup_keys_ownKids (w : World ν) (m : Nat) : (keys (ownKids w m)).Nodup :=
  nodup_keys_putAll [] _ (by simp [keys])

/-- the child namespaces one import item adds, as a table -/
def kidSupply (w : World ν) (file : Nat) : Import ν → Table ν
  | .glob m => ownKids w m
  | .incl m names => (ownKids w m).filter (fun c => names.contains c.1)
  | .excl m names => (ownKids w m).filter (fun c => !names.contains c.1)
  | .as_ m p => [(p, Decl.alias file p m)]
  | .missing => []

theorem applyImport_kids_eq (w : World ν) (file : Nat) (e : Eff ν) (i : Import ν) :
    (applyImport w file e i).kids = putAll e.kids (kidSupply w file i) := by
  cases i <;> simp [applyImport, kidSupply, putAll]

theorem kidSupply_get (w : World ν) (file : Nat) (hown : ∀ m, (keys (ownEntries w m)).Nodup)
    (i : Import ν) (x : ν) :
    (kidSupply w file i).get x = nsOnly ((importSupply w file i).get x) := by
  cases i with
  | glob m => simp only [kidSupply, importSupply]; exact ownKids_get w m (hown m) x
  | incl m l =>
    simp only [kidSupply, importSupply]
    rw [get_filter (ownKids w m) (fun y => l.contains y), get_filter (ownTable w m).1 (fun y => l.contains y)]
    split
    · exact ownKids_get w m (hown m) x
    · rfl
  | excl m l =>
    simp only [kidSupply, importSupply]
    rw [get_filter (ownKids w m) (fun y => !l.contains y), get_filter (ownTable w m).1 (fun y => !l.contains y)]
    split
    · exact ownKids_get w m (hown m) x
    · rfl
  | as_ m p =>
    simp only [kidSupply, importSupply, get_cons, get_nil]
    split <;> simp [nsOnly, isNs]
  | missing => simp [kidSupply, importSupply, get_nil, nsOnly]

theorem kidSupply_nodup (w : World ν) (file : Nat) (i : Import ν) : (keys (kidSupply w file i)).Nodup := by
  cases i with
  | glob m => exact nodup_keys_ownKids w m
  | incl m l => exact nodup_keys_filter _ _ (nodup_keys_ownKids w m)
  | excl m l => exact nodup_keys_filter _ _ (nodup_keys_ownKids w m)
  | as_ m p => simp [kidSupply, keys]
  | missing => simp [kidSupply, keys]

theorem kidSupply_keys_sub (w : World ν) (file : Nat) (hown : ∀ m, (keys (ownEntries w m)).Nodup)
    (i : Import ν) (x : ν) (h : x ∈ keys (kidSupply w file i)) : x ∈ keys (importSupply w file i) := by
  rw [← get_isSome_iff] at h ⊢
  rw [kidSupply_get w file hown] at h
  cases hg : (importSupply w file i).get x with
  | none => simp [hg, nsOnly] at h
  | some d => simp

/-- the invariant carried along the import list: the namespaces agree with the namespace-owning
    declarations supplied so far -/
theorem applyImports_kids_get (w : World ν) (file : Nat) (hown : ∀ m, (keys (ownEntries w m)).Nodup)
    (is : List (Import ν)) (e : Eff ν) (S : Table ν)
    (hinv : ∀ x, e.kids.get x = nsOnly (S.get x))
    (hnd : (keys (S ++ is.flatMap (importSupply w file))).Nodup) (x : ν) :
    (applyImports w file is e).kids.get x = nsOnly ((S ++ is.flatMap (importSupply w file)).get x) := by
  induction is generalizing e S with
  | nil => simpa [applyImports] using hinv x
  | cons i is ih =>
    simp only [applyImports, List.flatMap_cons]
    rw [← List.append_assoc]
    have hnd' : (keys ((S ++ importSupply w file i) ++ is.flatMap (importSupply w file))).Nodup := by
      simpa [List.flatMap_cons, List.append_assoc] using hnd
    apply ih _ _ _ hnd'
    intro y
    rw [applyImport_kids_eq]
    -- keys of the new piece are fresh with respect to what is there
    have hSi : (keys (S ++ importSupply w file i)).Nodup := by
      have : (keys (S ++ importSupply w file i)).Sublist (keys ((S ++ importSupply w file i) ++ is.flatMap (importSupply w file))) := by
        simp only [keys, List.map_append]; exact List.sublist_append_left _ _
      exact List.Nodup.sublist this hnd'
    have hdisS : ∀ z ∈ keys (importSupply w file i), z ∉ keys S := by
      intro z hz hzS
      simp only [keys, List.map_append] at hSi
      exact (List.nodup_append.1 hSi).2.2 z hzS z hz rfl
    have hkS : ∀ z, z ∈ keys e.kids → z ∈ keys S := by
      intro z hz
      rw [← get_isSome_iff] at hz ⊢
      rw [hinv z] at hz
      cases hg : S.get z with
      | none => simp [hg, nsOnly] at hz
      | some d => simp
    rw [putAll_get_of_disjoint _ _ (kidSupply_nodup w file i)
          (fun z hz hk => hdisS z (kidSupply_keys_sub w file hown i z hz) (hkS z hk)),
        get_append, get_append, hinv y, kidSupply_get w file hown]
    cases hS : S.get y with
    | none => simp [nsOnly]
    | some d =>
      have hyS : y ∈ keys S := (get_isSome_iff _ _).1 (by simp [hS])
      have hyT : (importSupply w file i).get y = none :=
        (get_eq_none_iff _ _).2 (fun h => hdisS y h hyS)
      by_cases hd : isNs d = true
      · simp [nsOnly, hd]
      · simp [nsOnly, hd, hyT]

theorem builtin_prelude_not_ns (w : World ν) (x : ν) (d : Decl ν)
    (h : (builtinTable w ++ preludeTable w).get x = some d) : isNs d = false := by
  rw [get_append] at h
  cases hb : (builtinTable w).get x with
  | some b =>
    simp only [hb] at h; cases h
    -- a builtin entry is a `builtin` declaration
    have : ∀ (xs : List ν) (t : Table ν), (∀ y e, t.get y = some e → isNs e = false) →
        ∀ y e, (xs.foldl (fun t z => t.put z (Decl.builtin z)) t).get y = some e → isNs e = false := by
      intro xs
      induction xs with
      | nil => intro t ht; exact ht
      | cons z zs ih =>
        intro t ht
        apply ih
        intro y e hy
        rw [get_put] at hy
        split at hy
        · cases hy; rfl
        · exact ht y e hy
    exact this w.builtins [] (fun y e hy => by simp [get_nil] at hy) x _ hb
  | none =>
    simp only [hb] at h
    unfold preludeTable at h
    have : ∀ (ps : List ν), Table.get (ps.map fun z => (z, Decl.prelude z)) x = some d → isNs d = false := by
      intro ps
      induction ps with
      | nil => intro h; simp [get_nil] at h
      | cons z zs ih =>
        simp only [List.map_cons, get_cons]
        by_cases hz : z = x
        · simp [hz]; rintro rfl; rfl
        · simpa [hz] using ih
    exact this _ h

theorem effective_kids_get (w : World ν) (file : Nat) (hown : ∀ m, (keys (ownEntries w m)).Nodup)
    (hnd : (keys (builtinTable w ++ supply w file)).Nodup) (x : ν) :
    (effective w file).kids.get x = nsOnly ((effective w file).table.get x) := by
  rw [(effective_eq w file).1, insertAll_get]
  have hsup : builtinTable w ++ supply w file =
      ((builtinTable w ++ preludeTable w) ++ (ownTable w file).1) ++ (importsOf w file).flatMap (importSupply w file) := by
    simp [supply, List.append_assoc]
  rw [hsup] at hnd ⊢
  have hbase : ∀ y, (putAll [] (ownKids w file)).get y =
      nsOnly (((builtinTable w ++ preludeTable w) ++ (ownTable w file).1).get y) := by
    intro y
    have hnd0 : (keys ((builtinTable w ++ preludeTable w) ++ (ownTable w file).1)).Nodup := by
      have : (keys ((builtinTable w ++ preludeTable w) ++ (ownTable w file).1)).Sublist
          (keys (((builtinTable w ++ preludeTable w) ++ (ownTable w file).1) ++ (importsOf w file).flatMap (importSupply w file))) := by
        simp only [keys, List.map_append]; exact List.sublist_append_left _ _
      exact List.Nodup.sublist this hnd
    rw [putAll_get_of_disjoint [] _ (nodup_keys_ownKids w file) (fun _ _ h => by simp [keys] at h),
        List.nil_append, ownKids_get w file (hown file), get_append]
    cases hb : (builtinTable w ++ preludeTable w).get y with
    | none => rfl
    | some d =>
      have hy : y ∈ keys (builtinTable w ++ preludeTable w) := (get_isSome_iff _ _).1 (by simp [hb])
      have hno : y ∉ keys (ownTable w file).1 := by
        intro h
        simp only [keys, List.map_append] at hnd0
        exact (List.nodup_append.1 hnd0).2.2 y (by simpa [keys] using hy) y h rfl
      simp [(get_eq_none_iff _ _).2 hno, nsOnly, builtin_prelude_not_ns w y d hb]
  unfold effective importsOf at *
  cases hf : w.files[file]? with
  | none =>
    simp only [hf, List.flatMap_nil, List.append_nil] at hnd ⊢
    exact hbase x
  | some f =>
    simp only [hf] at hnd ⊢
    exact applyImports_kids_get w file hown f.imports _ _ hbase hnd x
end Abra.Names
