import AbraProofs.Lemmas.CompileSim2
/-!
Part 4 of the simulation: the strict operators, the three simulation statements.
-/
namespace Abra.Compile
open Abra.Sem Abra.VM

theorem Out.of_timeout {W lc d pos endpc L T out0 res envOk envSig valOk} :
    Out W lc d pos endpc L T out0 res envOk envSig valOk .timeout := trivial

/-- `evalE` with no fuel never succeeds: a successful sub-evaluation means fuel was left -/
theorem fuel_pos_of_ok {n : Nat} {P : Prog} {s s' : St} {e : Expr} {v : Sem.Val} (h : evalE n P s e = .ok v s') :
    ∃ m, n = m + 1 := by
  cases n with
  | zero => simp [evalE] at h
  | succ m => exact ⟨m, rfl⟩

theorem arith_sound (W : World) {o : IntOp} {pos : Nat} (h : W.P[pos]? = some (.intOp o .top .top .top))
    (x y : Int) (s : St) (L T : List VM.Val) :
    match ofOut (I64.apply o.toI64 x y) s with
    | .ok v s' => ∃ c, v = .int c ∧ s' = s ∧
        VM.step W.P (W.cfg pos L (T ++ [.int x, .int y]) s.out) = .ok (W.cfg (pos + 1) L (T ++ [.int c]) s.out)
    | .sig (.err k) s' => s' = s ∧ ∃ s2, VM.step W.P (W.cfg pos L (T ++ [.int x, .int y]) s.out) = .error (encErr k) s2
    | _ => False := by
  cases hv : I64.apply o.toI64 x y with
  | val c => exact ⟨c, rfl, rfl, step_intOp_val W h L T x y s.out hv⟩
  | overflow => exact ⟨rfl, step_intOp_overflow W h L T x y s.out hv⟩
  | divZero => exact ⟨rfl, step_intOp_divZero W h L T x y s.out hv⟩


/-- the conclusion of `strictOp_sound`, for a given result of `binop` -/
def StrictRes (W : World) (pos : Nat) (is : Code) (τ : Ty) (L T : List VM.Val) (va vb : Sem.Val) (s : St) :
    Res Sem.Val → Prop
  | .ok v s' => s' = s ∧ HasTy v τ ∧ pushed v τ = [encV v] ∧
      Steps W.P (W.cfg pos L (T ++ [encV va, encV vb]) s.out) (W.cfg (pos + is.length) L (T ++ [encV v]) s.out)
  | .sig (.err k) s' => s' = s ∧ ∃ s1 s2, Steps W.P (W.cfg pos L (T ++ [encV va, encV vb]) s.out) s1
      ∧ VM.step W.P s1 = .error (encErr k) s2 ∧ s1.out = s.out
  | _ => False

theorem strict_arith (W : World) {o : IntOp} {pos : Nat} {lc : Nat × Nat}
    (hcode : codeAt W.P pos (resolveAt pos lc [.intOp o .top .top .top])) (x y : Int) (s : St) (L T : List VM.Val)
    {r : Res Sem.Val} (hr : r = ofOut (I64.apply o.toI64 x y) s) :
    StrictRes W pos [.intOp o .top .top .top] .int L T (.int x) (.int y) s r := by
  have hi : W.P[pos]? = some (.intOp o .top .top .top) := codeAt_head hcode
  have := arith_sound W hi x y s L T
  subst hr
  cases hv : I64.apply o.toI64 x y with
  | val c =>
    simp only [hv, ofOut] at this ⊢
    obtain ⟨c', hc, _, hstep⟩ := this
    cases hc
    exact ⟨rfl, .int _, rfl, .single hstep⟩
  | overflow =>
    simp only [hv, ofOut] at this ⊢
    obtain ⟨_, s2, hstep⟩ := this
    exact ⟨rfl, _, s2, .refl _, hstep, rfl⟩
  | divZero =>
    simp only [hv, ofOut] at this ⊢
    obtain ⟨_, s2, hstep⟩ := this
    exact ⟨rfl, _, s2, .refl _, hstep, rfl⟩

theorem strict_cmp (W : World) {o : CmpOp} {pos : Nat} {lc : Nat × Nat}
    (hcode : codeAt W.P pos (resolveAt pos lc [.intCmp o .top .top .top])) (x y : Int) (s : St) (L T : List VM.Val)
    {r : Res Sem.Val} (hr : r = .ok (.bool (o.eval x y)) s) :
    StrictRes W pos [.intCmp o .top .top .top] .bool L T (.int x) (.int y) s r := by
  have hi : W.P[pos]? = some (.intCmp o .top .top .top) := codeAt_head hcode
  subst hr
  exact ⟨rfl, .bool _, rfl, .single (step_intCmp W hi L T x y s.out)⟩

theorem strict_cmp_not (W : World) {pos : Nat} {lc : Nat × Nat}
    (hcode : codeAt W.P pos (resolveAt pos lc [.intCmp .eq .top .top .top, .not .top .top])) (x y : Int) (s : St)
    (L T : List VM.Val) {r : Res Sem.Val} (hr : r = .ok (.bool (!(CmpOp.eq.eval x y))) s) :
    StrictRes W pos [.intCmp .eq .top .top .top, .not .top .top] .bool L T (.int x) (.int y) s r := by
  have hi : W.P[pos]? = some (.intCmp .eq .top .top .top) := codeAt_head hcode
  have hi2 : W.P[pos + 1]? = some (.not .top .top) := codeAt_head (codeAt_tail hcode)
  subst hr
  refine ⟨rfl, .bool _, rfl, ?_⟩
  exact (Steps.single (step_intCmp W hi L T x y s.out)).snoc (step_not W hi2 L T _ s.out)

theorem strict_eqBool (W : World) {pos : Nat} {lc : Nat × Nat}
    (hcode : codeAt W.P pos (resolveAt pos lc [.eqBool .top .top .top])) (x y : Bool) (s : St) (L T : List VM.Val)
    {r : Res Sem.Val} (hr : r = .ok (.bool (x == y)) s) :
    StrictRes W pos [.eqBool .top .top .top] .bool L T (.bool x) (.bool y) s r := by
  have hi : W.P[pos]? = some (.eqBool .top .top .top) := codeAt_head hcode
  subst hr
  exact ⟨rfl, .bool _, rfl, .single (step_eqBool W hi L T x y s.out)⟩

theorem strict_eqBool_not (W : World) {pos : Nat} {lc : Nat × Nat}
    (hcode : codeAt W.P pos (resolveAt pos lc [.eqBool .top .top .top, .not .top .top])) (x y : Bool) (s : St)
    (L T : List VM.Val) {r : Res Sem.Val} (hr : r = .ok (.bool (!(x == y))) s) :
    StrictRes W pos [.eqBool .top .top .top, .not .top .top] .bool L T (.bool x) (.bool y) s r := by
  have hi : W.P[pos]? = some (.eqBool .top .top .top) := codeAt_head hcode
  have hi2 : W.P[pos + 1]? = some (.not .top .top) := codeAt_head (codeAt_tail hcode)
  subst hr
  refine ⟨rfl, .bool _, rfl, ?_⟩
  exact (Steps.single (step_eqBool W hi L T x y s.out)).snoc (step_not W hi2 L T _ s.out)

theorem beq_int_eq_decide (x y : Int) : (x == y) = decide (x = y) := by
  by_cases h : x = y <;> simp [h]

theorem strictOp_sound (W : World) {op : BinOp} {ta tb τ : Ty} {is : Code} (hs : strictOp op ta tb = some (is, τ))
    {va vb : Sem.Val} (ha : HasTy va ta) (hb : HasTy vb tb) (m : Nat) (s : St) (lc : Nat × Nat) (pos : Nat)
    (hcode : codeAt W.P pos (resolveAt pos lc is)) (L T : List VM.Val) :
    pushed va ta = [encV va] ∧ pushed vb tb = [encV vb] ∧
      StrictRes W pos is τ L T va vb s (binop (m + 1) op va vb s) := by
  cases ha <;> cases hb <;> cases op <;> simp only [strictOp, arithOp, cmpOp, reduceCtorEq] at hs <;>
    simp only [Option.some.injEq, Prod.mk.injEq] at hs <;> obtain ⟨rfl, rfl⟩ := hs <;>
    refine ⟨rfl, rfl, ?_⟩
  -- int × int
  · exact strict_arith W hcode _ _ s L T rfl
  · exact strict_arith W hcode _ _ s L T rfl
  · exact strict_arith W hcode _ _ s L T rfl
  · exact strict_arith W hcode _ _ s L T rfl
  · exact strict_arith W hcode _ _ s L T rfl
  · exact strict_arith W hcode _ _ s L T rfl
  · exact strict_cmp W hcode _ _ s L T rfl
  · exact strict_cmp W hcode _ _ s L T rfl
  · exact strict_cmp W hcode _ _ s L T rfl
  · exact strict_cmp W hcode _ _ s L T rfl
  · exact strict_cmp W hcode _ _ s L T (by simp [binop, valEq, CmpOp.eval, beq_int_eq_decide])
  · exact strict_cmp_not W hcode _ _ s L T (by simp [binop, valEq, CmpOp.eval, beq_int_eq_decide])
  -- bool × bool
  · exact strict_eqBool W hcode _ _ s L T (by simp [binop, valEq])
  · exact strict_eqBool_not W hcode _ _ s L T (by simp [binop, valEq])

end Abra.Compile
