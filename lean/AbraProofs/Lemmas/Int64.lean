import AbraModel.Int64
/-! Helper lemmas for C15: the executable power loop computes the exact power or detects overflow. -/
namespace Abra.I64

theorem inRange_iff (x : Int) : inRange x = true ↔ MIN ≤ x ∧ x ≤ MAX := by
  simp [inRange]

theorem checked_some (x : Int) (h : inRange x = true) : checked x = some x := by
  simp [checked, h]

theorem checked_none (x : Int) (h : inRange x = false) : checked x = none := by
  simp [checked, h]

theorem natAbs_ge_of_not_inRange (x : Int) (h : inRange x = false) : 9223372036854775808 ≤ x.natAbs := by
  have : ¬ (MIN ≤ x ∧ x ≤ MAX) := by
    intro hh; have := (inRange_iff x).2 hh; simp [h] at this
  simp only [MIN, MAX] at this
  omega

theorem not_inRange_of_natAbs_gt (x : Int) (h : 9223372036854775808 < x.natAbs) : inRange x = false := by
  cases hx : inRange x with
  | false => rfl
  | true =>
    have := (inRange_iff x).1 hx
    simp only [MIN, MAX] at this
    omega

theorem natAbs_pow_ge_two (a : Int) (h2 : 2 ≤ a.natAbs) (e : Nat) (he : 1 ≤ e) : 2 ≤ (a ^ e).natAbs := by
  rw [Int.natAbs_pow]
  calc 2 = 2 ^ 1 := rfl
    _ ≤ a.natAbs ^ 1 := Nat.pow_le_pow_left h2 1
    _ ≤ a.natAbs ^ e := Nat.pow_le_pow_right (by omega) he

theorem powLoop_eq (a : Int) (h2 : 2 ≤ a.natAbs) :
    ∀ (e : Nat) (acc : Int), inRange acc = true → powLoop a e acc = checked (acc * a ^ e) := by
  intro e
  induction e with
  | zero => intro acc hacc; simp [powLoop, checked, hacc]
  | succ e ih =>
    intro acc hacc
    simp only [powLoop]
    have hmul : acc * a ^ (e + 1) = acc * a * a ^ e := by
      rw [Int.pow_succ, Int.mul_comm (a ^ e) a, Int.mul_assoc]
    cases hr : inRange (acc * a) with
    | true =>
      simp only [if_true]
      rw [ih _ hr, hmul]
    | false =>
      simp only [Bool.false_eq_true, if_false]
      rw [hmul]
      symm
      apply checked_none
      have hge := natAbs_ge_of_not_inRange _ hr
      cases e with
      | zero => simpa using hr
      | succ e =>
        apply not_inRange_of_natAbs_gt
        rw [Int.natAbs_mul]
        have := natAbs_pow_ge_two a h2 (e + 1) (by omega)
        calc 9223372036854775808 < 9223372036854775808 * 2 := by omega
          _ ≤ (acc * a).natAbs * 2 := Nat.mul_le_mul_right 2 hge
          _ ≤ (acc * a).natAbs * (a ^ (e + 1)).natAbs := Nat.mul_le_mul_left _ this

theorem inRange_one : inRange 1 = true := by decide

theorem neg_one_pow (e : Nat) : (-1 : Int) ^ e = if e % 2 = 0 then 1 else -1 := by
  induction e with
  | zero => rfl
  | succ e ih =>
    rw [Int.pow_succ, ih]
    by_cases h : e % 2 = 0
    · have : (e + 1) % 2 ≠ 0 := by omega
      simp [h, this]
    · have : (e + 1) % 2 = 0 := by omega
      simp [h, this]

/-- The executable power agrees with the mathematical one: `some (a^e)` iff it fits in 64 bits. -/
theorem checkedPow_eq (a : Int) (e : Nat) : checkedPow a e = checked (a ^ e) := by
  unfold checkedPow
  by_cases h0 : a = 0
  · subst h0
    cases e with
    | zero => simp [checked]; decide
    | succ e => simp [checked, Int.pow_succ]; decide
  · by_cases h1 : a = 1
    · subst h1; simp [checked, Int.one_pow, inRange_one]
    · by_cases hm : a = -1
      · subst hm
        rw [neg_one_pow]
        by_cases h : e % 2 = 0 <;> simp [h, checked] <;> decide
      · simp only [h0, h1, hm, if_false]
        have h2 : 2 ≤ a.natAbs := by omega
        rw [powLoop_eq a h2 e 1 inRange_one, Int.one_mul]

end Abra.I64
