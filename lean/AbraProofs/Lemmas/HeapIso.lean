import AbraProofs.Lemmas.HeapCopy
/-! The copy made by `deepCopyM` is isomorphic to the source graph; fuel; isolation on graphs. -/
namespace Abra.Heap

/-- values reachable from `v` by following pointers through the heaps `S` (cycles allowed) -/
inductive ReachV (S : Heaps) (v : Val) : Val → Prop where
  | root : ReachV S v v
  | step {w : Val} {a : Addr} {obj : Obj} {c : Val} :
      ReachV S v w → ptr? w = some a → lookup S a = some obj → c ∈ obj.kids → ReachV S v c

theorem reach_trans {S : Heaps} {v w x : Val} (h1 : ReachV S v w) (h2 : ReachV S w x) : ReachV S v x := by
  induction h2 with
  | root => exact h1
  | step _ hp hl hc ih => exact ReachV.step ih hp hl hc

/-- the source graph is well formed: every reachable pointer points to an object of its tag's kind -/
def WF (S : Heaps) (v : Val) : Prop :=
  ∀ w a, ReachV S v w → ptr? w = some a → ∃ obj, lookup S a = some obj ∧ tagOk w obj = true

theorem kids_withKids (obj : Obj) (ks : List Val) (h : ks.length = obj.kids.length) :
    (obj.withKids ks).kids = ks := by
  cases obj with
  | struct fs => rfl
  | array es => rfl
  | variant tag x =>
    match ks, h with
    | [k], _ => rfl
  | str bs => simp [Obj.kids] at h; simp [Obj.withKids, Obj.kids, h]
  | chan q => simp [Obj.kids] at h; simp [Obj.withKids, Obj.kids, h]

/-- every entry of the map is a completed copy, allocated in thread `t` -/
structure Iso (S H' : Heaps) (t : Nat) (M' : CopyMap) : Prop where
  done : ∀ a c, mlookup M' a = some c → Done S H' M' a c
  own : ∀ a c, mlookup M' a = some c → ∃ a', ptr? c = some a' ∧ a'.tid = t
  inj : Inj M'

theorem iso_of_post {S H H' : Heaps} {t : Nat} {M' : CopyMap} (p : Post S t H [] H' M') : Iso S H' t M' :=
  ⟨fun a c h => p.done a c h rfl,
   fun a c h => by obtain ⟨a', e1, e2, _, _⟩ := p.fresh a c h rfl; exact ⟨a', e1, e2⟩,
   p.inj (fun a c h => by simp [mlookup] at h) (fun a1 a2 c1 c2 x h => by simp [mlookup] at h)⟩

/-- **Coverage**: every value reachable from the source has an image (every reachable object was copied) -/
theorem iso_cover {S H' : Heaps} {t : Nat} {M' : CopyMap} (iso : Iso S H' t M') {v v' : Val}
    (hroot : mapVal? M' v = some v') : ∀ w, ReachV S v w → ∃ w', mapVal? M' w = some w' := by
  intro w hw
  induction hw with
  | root => exact ⟨v', hroot⟩
  | step _ hp hl hc ih =>
    obtain ⟨w', hw'⟩ := ih
    simp only [mapVal?, hp] at hw'
    obtain ⟨obj', ks, a', d1, _, d3, _, _⟩ := iso.done _ _ hw'
    rw [hl] at d1; cases d1
    exact mapList_mem_src M' _ ks d3 _ hc

/-- **The copy reaches nothing but copies**: every value reachable from the copy is the image of a value
    reachable from the source -/
theorem iso_onto {S H' : Heaps} {t : Nat} {M' : CopyMap} (iso : Iso S H' t M') {v v' : Val}
    (hroot : mapVal? M' v = some v') : ∀ w', ReachV H' v' w' → ∃ w, ReachV S v w ∧ mapVal? M' w = some w' := by
  intro w' hw'
  induction hw' with
  | root => exact ⟨v, ReachV.root, hroot⟩
  | @step x' a' obj' c' _ hp hl hc ih =>
    obtain ⟨x, hx, hxm⟩ := ih
    -- x' is a pointer, so x is one and x' is its recorded copy
    cases hpx : ptr? x with
    | none =>
      simp only [mapVal?, hpx, Option.some.injEq] at hxm
      rw [← hxm, hpx] at hp; cases hp
    | some a =>
      simp only [mapVal?, hpx] at hxm
      obtain ⟨obj, ks, a'', d1, d2, d3, d4, _⟩ := iso.done _ _ hxm
      rw [hp] at d2; cases d2
      rw [hl] at d4; cases d4
      rw [kids_withKids obj ks (mapList_length M' _ ks d3)] at hc
      obtain ⟨k, hk1, hk2⟩ := mapList_mem M' _ ks d3 c' hc
      exact ⟨k, ReachV.step hx hpx d1 hk1, hk2⟩

/-- **Disjointness**: every object reachable from the copy lives in thread `t`'s heap -/
theorem iso_owned {S H' : Heaps} {t : Nat} {M' : CopyMap} (iso : Iso S H' t M') {v v' : Val}
    (hroot : mapVal? M' v = some v') :
    ∀ w' x, ReachV H' v' w' → ptr? w' = some x → x.tid = t := by
  intro w' x hw' hx
  obtain ⟨w, _, hm⟩ := iso_onto iso hroot w' hw'
  cases hp : ptr? w with
  | none =>
    simp only [mapVal?, hp, Option.some.injEq] at hm
    rw [← hm, hp] at hx; cases hx
  | some a =>
    simp only [mapVal?, hp] at hm
    obtain ⟨a', e1, e2⟩ := iso.own _ _ hm
    rw [hx] at e1; cases e1; exact e2

/-! ### acyclic values: the copy renders like the source -/

theorem renderList_image {M' : CopyMap} {rdS rdH : Val → Option Tree} :
    ∀ (fs ks : List Val) (ts : List Tree),
    (∀ k ∈ fs, ∀ k' tr, mapVal? M' k = some k' → rdS k = some tr → rdH k' = some tr) →
    mapList? M' fs = some ks → renderList rdS fs = some ts → renderList rdH ks = some ts := by
  intro fs
  induction fs with
  | nil => intro ks ts _ hm hr; simp [mapList?] at hm; subst hm; simpa [renderList] using hr
  | cons f fs ih =>
    intro ks ts hk hm hr
    simp only [mapList?] at hm
    cases h1 : mapVal? M' f with
    | none => simp [h1] at hm
    | some f' =>
      cases h2 : mapList? M' fs with
      | none => simp [h1, h2] at hm
      | some fs' =>
        simp only [h1, h2, Option.some.injEq] at hm
        subst hm
        simp only [renderList] at hr ⊢
        cases r1 : rdS f with
        | none => simp [r1] at hr
        | some tr1 =>
          cases r2 : renderList rdS fs with
          | none => simp [r1, r2] at hr
          | some ts2 =>
            simp only [r1, r2, Option.some.injEq] at hr
            have e1 := hk f (by simp) f' tr1 h1 r1
            have e2 := ih fs' ts2 (fun k hkm => hk k (by simp [hkm])) h2 r2
            simp [e1, e2, hr]

theorem tag_struct {c : Val} {fs : List Val} {a' : Addr} (h : tagOk c (.struct fs) = true) (hp : ptr? c = some a') :
    c = .struct a' := by cases c <;> simp_all [tagOk, ptr?]
theorem tag_array {c : Val} {fs : List Val} {a' : Addr} (h : tagOk c (.array fs) = true) (hp : ptr? c = some a') :
    c = .array a' := by cases c <;> simp_all [tagOk, ptr?]
theorem tag_variant {c : Val} {tg : Nat} {x : Val} {a' : Addr} (h : tagOk c (.variant tg x) = true)
    (hp : ptr? c = some a') : c = .variant a' := by cases c <;> simp_all [tagOk, ptr?]
theorem tag_str {c : Val} {bs : List Nat} {a' : Addr} (h : tagOk c (.str bs) = true) (hp : ptr? c = some a') :
    c = .str a' := by cases c <;> simp_all [tagOk, ptr?]
theorem tag_chan {c : Val} {q : Nat} {a' : Addr} (h : tagOk c (.chan q) = true) (hp : ptr? c = some a') :
    c = .chan a' := by cases c <;> simp_all [tagOk, ptr?]

/-- whenever a source value renders (so it is acyclic within the fuel), its image renders the same -/
theorem iso_render {S H' : Heaps} {t : Nat} {M' : CopyMap} (iso : Iso S H' t M') :
    ∀ g w w' tr, mapVal? M' w = some w' → render g S w = some tr → render g H' w' = some tr := by
  intro g
  induction g with
  | zero => intro w w' tr _ h; simp [render] at h
  | succ g ih =>
    intro w w' tr hm hr
    cases w with
    | int n => simp [mapVal?, ptr?] at hm; subst hm; simpa [render] using hr
    | float b => simp [mapVal?, ptr?] at hm; subst hm; simpa [render] using hr
    | bool b => simp [mapVal?, ptr?] at hm; subst hm; simpa [render] using hr
    | addr p => simp [mapVal?, ptr?] at hm; subst hm; simpa [render] using hr
    | struct a =>
      simp only [mapVal?, ptr?] at hm
      obtain ⟨obj, ks, a', d1, d2, d3, d4, d5⟩ := iso.done _ _ hm
      simp only [render, d1] at hr
      cases obj <;> simp only [] at hr <;> try (simp at hr)
      rename_i fs
      cases hl : renderList (render g S) fs with
      | none => simp [hl] at hr
      | some ts =>
        simp only [hl, Option.map_some, Option.some.injEq] at hr
        have := tag_struct d5 d2; subst this
        simp only [render, d4, Obj.withKids]
        rw [renderList_image fs ks ts (fun k _ k' tr' h1 h2 => ih k k' tr' h1 h2) d3 hl]
        obtain ⟨_, rfl, rfl⟩ := hr
        rfl
    | array a =>
      simp only [mapVal?, ptr?] at hm
      obtain ⟨obj, ks, a', d1, d2, d3, d4, d5⟩ := iso.done _ _ hm
      simp only [render, d1] at hr
      cases obj <;> simp only [] at hr <;> try (simp at hr)
      rename_i fs
      cases hl : renderList (render g S) fs with
      | none => simp [hl] at hr
      | some ts =>
        simp only [hl, Option.map_some, Option.some.injEq] at hr
        have := tag_array d5 d2; subst this
        simp only [render, d4, Obj.withKids]
        rw [renderList_image fs ks ts (fun k _ k' tr' h1 h2 => ih k k' tr' h1 h2) d3 hl]
        obtain ⟨_, rfl, rfl⟩ := hr
        rfl
    | variant a =>
      simp only [mapVal?, ptr?] at hm
      obtain ⟨obj, ks, a', d1, d2, d3, d4, d5⟩ := iso.done _ _ hm
      simp only [render, d1] at hr
      cases obj <;> simp only [] at hr <;> try (simp at hr)
      rename_i tg x
      cases hl : render g S x with
      | none => simp [hl] at hr
      | some tx =>
        simp only [hl, Option.map_some, Option.some.injEq] at hr
        have := tag_variant d5 d2; subst this
        -- ks = [image of x]
        simp only [Obj.kids, mapList?] at d3
        cases hx : mapVal? M' x with
        | none => simp [hx] at d3
        | some x' =>
          simp only [hx, Option.some.injEq] at d3
          subst d3
          simp only [render, d4, Obj.withKids, List.headD]
          rw [ih x x' tx hx hl]
          obtain ⟨_, rfl, rfl⟩ := hr
          rfl
    | str a =>
      simp only [mapVal?, ptr?] at hm
      obtain ⟨obj, ks, a', d1, d2, d3, d4, d5⟩ := iso.done _ _ hm
      simp only [render, d1] at hr
      cases obj <;> simp only [] at hr <;> try (simp at hr)
      have := tag_str d5 d2; subst this
      simp only [render, d4, Obj.withKids]
      simpa using hr
    | chan a =>
      simp only [mapVal?, ptr?] at hm
      obtain ⟨obj, ks, a', d1, d2, d3, d4, d5⟩ := iso.done _ _ hm
      simp only [render, d1] at hr
      cases obj <;> simp only [] at hr <;> try (simp at hr)
      have := tag_chan d5 d2; subst this
      simp only [render, d4, Obj.withKids]
      simpa using hr

/-! ### fuel -/

theorem copyListM_total (cp : Heaps → CopyMap → Val → Option (Val × Heaps × CopyMap))
    (C : CopyMap → Val → Prop)
    (hC : ∀ M M' w, Sub M M' → C M w → C M' w)
    (hsub : ∀ H M w w' H' M', cp H M w = some (w', H', M') → Sub M M') :
    ∀ vs, (∀ H M w, w ∈ vs → C M w → ∃ r, cp H M w = some r) →
      ∀ H M, (∀ w ∈ vs, C M w) → ∃ r, copyListM cp H M vs = some r := by
  intro vs
  induction vs with
  | nil => intro _ H M _; exact ⟨_, rfl⟩
  | cons v vs ih =>
    intro htot H M hall
    obtain ⟨⟨v1, H1, M1⟩, h1⟩ := htot H M v (by simp) (hall v (by simp))
    have hs := hsub H M v v1 H1 M1 h1
    obtain ⟨⟨vs2, H2, M2⟩, h2⟩ := ih (fun H M w hw hc => htot H M w (by simp [hw]) hc) H1 M1
      (fun w hw => hC M M1 w hs (hall w (by simp [hw])))
    exact ⟨(v1 :: vs2, H2, M2), by simp [copyListM, h1, h2]⟩

/-- **Fuel.**  If `L` lists every not yet copied object reachable from `v`, fuel `|L| + 1` is enough. -/
theorem deepCopyM_total (S : Heaps) (t : Nat) : ∀ f H M v (L : List Addr), WF S v →
    (∀ w a, ReachV S v w → ptr? w = some a → mlookup M a = none → a ∈ L) → L.length < f →
    ∃ r, deepCopyM f S H M t v = some r := by
  intro f
  induction f with
  | zero => intro H M v L _ _ h; omega
  | succ f ih =>
    intro H M v L hwf hcov hlen
    rw [deepCopyM]
    cases hp : ptr? v with
    | none => exact ⟨_, rfl⟩
    | some a =>
      simp only
      cases hm : mlookup M a with
      | some c => exact ⟨_, rfl⟩
      | none =>
        simp only
        obtain ⟨obj, hl, htag⟩ := hwf v a ReachV.root hp
        have haL : a ∈ L := hcov v a ReachV.root hp hm
        simp only [hl, htag, if_true]
        -- the children, with `a` recorded and struck off the list
        let C : CopyMap → Val → Prop := fun M w =>
          WF S w ∧ ∀ x b, ReachV S w x → ptr? x = some b → mlookup M b = none → b ∈ L.erase a
        have hC : ∀ M M' w, Sub M M' → C M w → C M' w := by
          intro M M' w hs hc
          refine ⟨hc.1, fun x b hx hb hn => hc.2 x b hx hb ?_⟩
          cases hq : mlookup M b with
          | none => rfl
          | some c => rw [hs b c hq] at hn; cases hn
        have hkids : ∀ w ∈ obj.kids, C ((a, retag v (alloc H t (obj.withKids (obj.kids.map fun _ => Val.int 0))).1) :: M) w := by
          intro w hw
          have hrw : ReachV S v w := ReachV.step ReachV.root hp hl hw
          refine ⟨fun x b hx hb => hwf x b (reach_trans hrw hx) hb, fun x b hx hb hn => ?_⟩
          rw [mlookup_cons] at hn
          by_cases hab : a = b
          · simp [hab] at hn
          · simp only [hab, if_false] at hn
            have := hcov x b (reach_trans hrw hx) hb hn
            exact (List.mem_erase_of_ne (Ne.symm hab)).mpr this
        have hlen' : (L.erase a).length < f := by
          rw [List.length_erase_of_mem haL]
          have : 0 < L.length := List.length_pos_of_mem haL
          omega
        obtain ⟨⟨ks, H2, M2⟩, hr⟩ := copyListM_total (fun H M w => deepCopyM f S H M t w) C hC
          (fun H M w w' H' M' h => (deepCopyM_post S t f H M w w' H' M' h).1.sub) obj.kids
          (fun H M w _ hc => ih H M w (L.erase a) hc.1 hc.2 hlen') _ _ hkids
        rw [hr]
        exact ⟨_, rfl⟩

/-! ### isolation on graphs (cyclic values included) -/

theorem renderList_congr_mem {rd rd' : Val → Option Tree} :
    ∀ vs : List Val, (∀ k ∈ vs, rd' k = rd k) → renderList rd' vs = renderList rd vs := by
  intro vs
  induction vs with
  | nil => intro _; rfl
  | cons v vs ih =>
    intro h
    simp only [renderList, h v (by simp), ih (fun k hk => h k (by simp [hk]))]

/-- if `H2` has the same objects as `H` at every address reachable from `u`, then `u` renders alike in both -/
theorem render_congr_reach {H H2 : Heaps} : ∀ g u,
    (∀ w x, ReachV H u w → ptr? w = some x → lookup H2 x = lookup H x) → render g H2 u = render g H u := by
  intro g
  induction g with
  | zero => intro u _; rfl
  | succ g ih =>
    intro u hag
    have hkid : ∀ a obj k, ptr? u = some a → lookup H a = some obj → k ∈ obj.kids →
        render g H2 k = render g H k := by
      intro a obj k hp hl hk
      exact ih k (fun w x hw hx => hag w x (reach_trans (ReachV.step ReachV.root hp hl hk) hw) hx)
    cases u with
    | int n => rfl
    | float b => rfl
    | bool b => rfl
    | addr p => rfl
    | struct a =>
      have ha := hag _ a ReachV.root rfl
      simp only [render, ha]
      cases hl : lookup H a with
      | none => rfl
      | some obj =>
        cases obj <;> simp only []
        rename_i fs
        rw [renderList_congr_mem fs (fun k hk => hkid a _ k rfl hl hk)]
    | array a =>
      have ha := hag _ a ReachV.root rfl
      simp only [render, ha]
      cases hl : lookup H a with
      | none => rfl
      | some obj =>
        cases obj <;> simp only []
        rename_i fs
        rw [renderList_congr_mem fs (fun k hk => hkid a _ k rfl hl hk)]
    | variant a =>
      have ha := hag _ a ReachV.root rfl
      simp only [render, ha]
      cases hl : lookup H a with
      | none => rfl
      | some obj =>
        cases obj <;> simp only []
        rename_i tg x
        rw [hkid a _ x rfl hl (by simp [Obj.kids])]
    | str a =>
      have ha := hag _ a ReachV.root rfl
      simp only [render, ha]
    | chan a =>
      have ha := hag _ a ReachV.root rfl
      simp only [render, ha]

/-- the reachable part of the graph is the same in both heaps -/
theorem reach_congr {H H2 : Heaps} {u : Val}
    (hag : ∀ w x, ReachV H u w → ptr? w = some x → lookup H2 x = lookup H x) :
    ∀ w, ReachV H u w ↔ ReachV H2 u w := by
  intro w
  constructor
  · intro h
    induction h with
    | root => exact ReachV.root
    | step hw hp hl hc ih => exact ReachV.step ih hp (by rw [hag _ _ hw hp]; exact hl) hc
  · intro h
    induction h with
    | root => exact ReachV.root
    | step _ hp hl hc ih => exact ReachV.step ih hp (by rw [← hag _ _ ih hp]; exact hl) hc

end Abra.Heap
