import AbraProofs.Lemmas.CompileSim5
/-!
Part 7 of the simulation: statement lists, the induction on fuel, whole programs.
-/
namespace Abra.Compile
open Abra.Sem Abra.VM

theorem Out.mono_env {W : World} {lc : Nat × Nat} {d pos e : Nat} {L T : List VM.Val} {out0 : List String}
    {res : Sem.Val → List VM.Val} {okP okQ sgP sgQ : List VM.Val → Env → Prop} {vP vQ : Sem.Val → Prop}
    {r : Res Sem.Val}
    (h : Out W lc d pos e L T out0 res okP sgP vP r) (hok : ∀ L' ρ, okP L' ρ → okQ L' ρ)
    (hsg : ∀ L' ρ, sgP L' ρ → sgQ L' ρ) (hv : ∀ v, vP v → vQ v) :
    Out W lc d pos e L T out0 res okQ sgQ vQ r := by
  cases r with
  | ok v s => obtain ⟨L', h1, h2, h3, h4⟩ := h; exact ⟨L', h1, hok _ _ h2, h3, hv _ h4⟩
  | sig g s =>
    cases g with
    | err k => exact h
    | brk => obtain ⟨L', h1, h2, h3⟩ := h; exact ⟨L', h1, hsg _ _ h2, h3⟩
    | cont => obtain ⟨L', h1, h2, h3⟩ := h; exact ⟨L', h1, hsg _ _ h2, h3⟩
    | ret v => exact h
  | timeout => trivial
  | stuck w => trivial

theorem compS_shape_wf {s : Stmt} {Γ : TEnv} {next d : Nat} {il : Bool} {c : Code} {τ : Ty} {Γ1 : TEnv} {n1 : Nat}
    (h : compS Γ next d il s = some (c, τ, Γ1, n1)) (hwf : WfΓ Γ next) :
    (Γ1 = Γ ∨ ∃ e, Γ1 = e :: Γ) ∧ WfΓ Γ1 n1 := by
  have hm := compS_mono s _ _ _ _ _ _ _ _ h
  cases s with
  | let_ p e =>
    cases p <;> simp only [compS] at h <;> try (simp at h; done)
    split at h
    · simp at h
    · rename_i heq
      simp only [Option.some.injEq, Prod.mk.injEq] at h
      obtain ⟨_, _, rfl, rfl⟩ := h
      have := compE_mono e _ _ _ _ _ _ heq
      exact ⟨.inr ⟨_, rfl⟩, by omega, hwf⟩
    · simp at h
  | assign x op e =>
    by_cases hop : op = .set
    · subst hop
      simp only [compS] at h
      split at h
      · split at h
        · simp only [Option.some.injEq, Prod.mk.injEq] at h
          obtain ⟨_, _, rfl, rfl⟩ := h
          exact ⟨.inl rfl, hwf.mono hm⟩
        · simp at h
      · simp at h
    · obtain ⟨_, _, _, _, _, _, _, _, rfl⟩ := compS_assign_inv op hop x e Γ next d il c τ Γ1 n1 h
      exact ⟨.inl rfl, hwf.mono hm⟩
  | expr e =>
    simp only [compS] at h
    split at h
    · simp only [Option.some.injEq, Prod.mk.injEq] at h
      obtain ⟨_, _, rfl, rfl⟩ := h
      exact ⟨.inl rfl, hwf.mono hm⟩
    · simp at h
  | while_ cnd body =>
    simp only [compS] at h
    split at h
    · split at h
      · simp only [Option.some.injEq, Prod.mk.injEq] at h
        obtain ⟨_, _, rfl, rfl⟩ := h
        exact ⟨.inl rfl, hwf.mono hm⟩
      · simp at h
    · simp at h
  | break_ =>
    simp only [compS, Option.some.injEq, Prod.mk.injEq] at h
    obtain ⟨_, _, rfl, rfl⟩ := h
    exact ⟨.inl rfl, hwf⟩
  | continue_ =>
    simp only [compS, Option.some.injEq, Prod.mk.injEq] at h
    obtain ⟨_, _, rfl, rfl⟩ := h
    exact ⟨.inl rfl, hwf⟩
  | assignField _ _ _ _ => simp [compS] at h
  | assignIndex _ _ _ _ => simp [compS] at h
  | for_ _ _ _ => simp [compS] at h
  | ret _ => simp [compS] at h

theorem envrel_pop {L : List VM.Val} {Γ Γ1 : TEnv} {ρ : Env} (h : EnvRel L Γ1 ρ)
    (hs : Γ1 = Γ ∨ ∃ e, Γ1 = e :: Γ) {len : Nat} (hl : Γ.length = len) :
    EnvRel L Γ (popEnv ρ len) ∧ len ≤ ρ.length := by
  rcases hs with rfl | ⟨e, rfl⟩
  · have := h.length_eq
    rw [← hl, this, popEnv_self]
    exact ⟨h, Nat.le_refl _⟩
  · cases h with
    | cons hr _ _ _ =>
      have := hr.length_eq
      rw [popEnv_cons _ _ _ (by omega), ← hl, this, popEnv_self]
      exact ⟨hr, by simp⟩

theorem simSs_succ {W : World} {Pg : Prog} {n : Nat} (hS : SimS W Pg n) (hSs : SimSs W Pg n) : SimSs W Pg (n + 1) := by
  intro ss st Γ next blk code τ n' lc d pos L T hc hd hcode henv hwf hlen
  have hΓlen := henv.length_eq
  cases ss with
  | nil =>
    simp only [compSs, Option.some.injEq, Prod.mk.injEq] at hc
    obtain ⟨rfl, rfl, rfl⟩ := hc
    simp only [evalSs]
    refine ⟨L, ?_, ⟨by rw [popEnv_self]; exact henv, Nat.le_refl _⟩, rfl, fun _ => .unit⟩
    dsimp only
    rw [unit_res, List.append_nil]
    exact .refl _
  | cons s rest =>
    cases rest with
    | nil =>
      simp only [compSs] at hc
      split at hc
      · rename_i c t Γ1 n1 heq
        simp only [Option.some.injEq, Prod.mk.injEq] at hc
        obtain ⟨rfl, rfl, rfl⟩ := hc
        have ih := hS s st Γ next blk c t Γ1 n1 lc d pos L T heq hd hcode henv hwf hlen
        obtain ⟨hshape, _⟩ := compS_shape_wf heq hwf
        simp only [evalSs]
        refine ih.mono_env (fun L' ρ h => envrel_pop h hshape hΓlen) (fun L' ρ h => ?_) (fun _ h => h)
        have := h.length_eq
        rw [← hΓlen, this, popEnv_self]
        exact ⟨h, Nat.le_refl _⟩
      · simp at hc
    | cons s2 r =>
      simp only [compSs] at hc
      split at hc
      · rename_i c t0 Γ1 n1 heq
        split at hc
        · rename_i cr t n2 heq2
          simp only [Option.some.injEq, Prod.mk.injEq] at hc
          obtain ⟨rfl, rfl, rfl⟩ := hc
          have hm1 := compS_mono s _ _ _ _ _ _ _ _ heq
          have hm2 := compSs_mono (.cons s2 r) _ _ _ _ _ _ _ heq2
          simp only [resolveAt_append] at hcode
          have hc1 := codeAt_append_left hcode
          have hc2 := codeAt_append_right hcode
          simp only [resolveAt_length] at hc2
          have ih := hS s st Γ next false c t0 Γ1 n1 lc d pos L T heq hd hc1 henv hwf (by omega)
          obtain ⟨hshape, hwf1⟩ := compS_shape_wf heq hwf
          simp only [evalSs]
          cases hr : evalS n Pg st s with
          | ok v s1 =>
            rw [hr] at ih
            obtain ⟨L1, hst1, henv1, hl1, _⟩ := ih
            simp only [Bool.false_eq_true, if_false, List.append_nil] at hst1
            simp only [Res.bind]
            have ihr := hSs (.cons s2 r) s1 Γ1 n1 blk cr t n2 lc d (pos + c.length) L1 T heq2 hd hc2 henv1 hwf1
              (by omega)
            have hend : pos + (c ++ cr).length = pos + c.length + cr.length := by
              simp only [List.length_append]; omega
            rw [hend]
            have hle : st.env.length ≤ s1.env.length := by
              have := henv1.length_eq
              rcases hshape with rfl | ⟨e, rfl⟩
              · omega
              · simp only [List.length_cons] at this; omega
            have conv : ∀ L' ρ, (EnvRel L' Γ1 (popEnv ρ s1.env.length) ∧ s1.env.length ≤ ρ.length) →
                (EnvRel L' Γ (popEnv ρ st.env.length) ∧ st.env.length ≤ ρ.length) := by
              intro L' ρ ⟨h1, h2⟩
              obtain ⟨h3, _⟩ := envrel_pop h1 hshape hΓlen
              rw [popEnv_popEnv ρ _ _ hle h2] at h3
              exact ⟨h3, by omega⟩
            exact (Out.prepend hst1 hl1 ihr).mono_env conv conv (fun _ h => h)
          | sig g s' =>
            rw [hr] at ih
            simp only [Res.bind]
            refine Out.sig_mono ih (fun L' ρ h => ?_)
            have := h.length_eq
            rw [← hΓlen, this, popEnv_self]
            exact ⟨h, Nat.le_refl _⟩
          | timeout => trivial
          | stuck w => trivial
        · simp at hc
      · simp at hc

theorem sim_zero (W : World) (Pg : Prog) : SimE W Pg 0 ∧ SimS W Pg 0 ∧ SimSs W Pg 0 := by
  refine ⟨?_, ?_, ?_⟩
  · intro e st Γ next code τ n' lc d pos L T _ _ _ _ _ _; simp only [evalE]; trivial
  · intro s st Γ next il code τ Γ' n' lc d pos L T _ _ _ _ _ _; simp only [evalS]; trivial
  · intro ss st Γ next blk code τ n' lc d pos L T _ _ _ _ _ _; simp only [evalSs]; trivial

theorem sim_all (W : World) (Pg : Prog) (n : Nat) : SimE W Pg n ∧ SimS W Pg n ∧ SimSs W Pg n := by
  induction n with
  | zero => exact sim_zero W Pg
  | succ n ih =>
    obtain ⟨hE, hS, hSs⟩ := ih
    exact ⟨simE_succ hE hSs, simS_succ hE hS hSs, simSs_succ hS hSs⟩

end Abra.Compile
